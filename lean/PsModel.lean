import PsModel.Util.Sexp
import PsModel.Util.Hex
import PsModel.Props.C01
import PsModel.Props.C02
import PsModel.Props.C03
import PsModel.Props.C17
import PsModel.Props.C19
import PsModel.Props.C20
