import PsModel.Util.Sexp
