import PsModel.Model.C19Kernel
import PsModel.Spec.C19
/-! Reference definitions for the second part of the C19 model. -/
namespace PsModel.C19
open PsModel.Gen

/-- **The greeting grammar** of ZMTP 3.x with the NULL mechanism (RFC 23 / 37):
`greeting = signature version mechanism as-server filler`, `signature = %xFF 8OCTET %x7F`,
`version = major minor` with `major ≥ 3`, `mechanism = "NULL" 16%x00`, `as-server filler = 32OCTET`. -/
def ValidGreeting (g : Bytes) : Prop :=
  ∃ (pad : Bytes) (major minor : Nat) (tail : Bytes),
    g = [255] ++ pad ++ [127] ++ [major] ++ ([minor] ++ mechNull ++ tail) ∧ pad.length = 8 ∧ 3 ≤ major ∧ tail.length = 32

/-- the handshake over the unfragmented byte string -/
def hsFlat (validate : Bool) : Nat → List (Bytes × Nat) → Bytes → Bytes → Bytes × HsStatus × Bytes
  | _, [], out, bs => (out, .ok, bs)
  | i, (w, n) :: steps, out, bs =>
    match takeN n bs with
    | none => (out ++ w, .eof, [])
    | some (d, bs') =>
      if validate && !stageOk i d then (out ++ w, .bad, bs')
      else hsFlat validate (i + 1) steps (out ++ w) bs'

/-- the reply type that belongs to a request type: the suffix `request` replaced by `reply` -/
def matchingReply (q : Bytes) : Bytes :=
  if q.drop (q.length - 7) = [114, 101, 113, 117, 101, 115, 116] then q.take (q.length - 7) ++ [114, 101, 112, 108, 121] else q

/-- the indentation hint: leading blanks of the text after the last newline (none when there is no newline) -/
def specIndent (code : List Nat) : Nat :=
  if 10 ∈ code then (((splitNl code).getLastD []).takeWhile (· = 32)).length else 0

/-- does this history entry advance the execution counter? -/
def countsExecute (E : Env) (t : Entry) : Bool :=
  t.before.up && decide (t.ch = .shell) &&
    match deserialize E.sign E.jsonOk t.wire with
    | .ok (_, frames) => decide ((E.info frames).mtype = N_execute_request) && (E.info frames).storeHistory
    | .error _ => false


end PsModel.C19
