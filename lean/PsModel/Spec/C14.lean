import PsModel.Model.C14
/-!
# C14 reference spec – what the end of a task must look like, whatever its callbacks do

* every done-callback registered (and not removed) when the task's body ended runs exactly once, in registration
  order, with the arguments of its latest registration – independently of what the other callbacks do;
* the asyncio task finishes with the body's outcome (`ok v` ↦ `v`, exception ↦ logged and `None`, cancelled ↦ cancelled);
* afterwards the task is in no registry and owns no unique name.
-/
namespace PsModel.C14
open PsModel.C13 (Task)

variable {κ : Type}

/-- the callbacks the property wants to see for `t` -/
def specRan (s : St κ) (t : Task) : List (Cb × Args) := s.atEnd t

/-- the result the property wants to see for `t` -/
def specResult (s : St κ) (t : Task) : Res := resultOf (s.outcome t)

/-- the task is forgotten: `our_tasks`, `task2cb`, `task2context`, `unique_task2name`, `unique_name2task` -/
def Clean (s : St κ) (t : Task) : Prop :=
  s.u.ours t = false ∧ s.cb t = none ∧ s.hctx t = false ∧ s.u.names t = [] ∧ s.u.entry t = false ∧
  ∀ k, s.u.owner k ≠ some t

end PsModel.C14
