import PsModel.Model.C16
/-!
# C16 reference spec – the dictionary rules of the property statement

The state machine is a *function* `Ent → Option (value, attributes)`, attributes are a function
`String → Option Val`.  One equation per entry point, written from the property text / `docs/reference.rst`:

* read            value as a string snapshot carrying the attributes and the virtual fields; `NameError` for a missing
                  entity, `AttributeError` for a missing attribute; a snapshot is a value (never changes);
* assign          sets the value (python `str`), keeps the attributes;
* attribute assign / `state.setattr`   changes only that attribute (`NameError` if the entity is missing);
* `state.set`     `new_attributes` replaces all attributes, keyword attributes are merged, an omitted value is kept;
* delete / exist / names / getattr     the dictionary operations;
* resolution      a Python variable named like the head wins, then a function/service named `d.n`, then the state.
-/
namespace PsModel.C16
open PsModel.Gen

abbrev AAttrs := String → Option Val

structure ARec where
  value : String
  attrs : AAttrs

abbrev AStore := Ent → Option ARec

/-- a snapshot: the string and what `snapshot.a` shows for every name `a` -/
structure ASnap where
  value : String
  view : AAttrs

inductive SOut
  | sv (s : ASnap)
  | attr (v : Val)
  | callable
  | py (src : String)
  | bool (b : Bool)
  | names (p : Ent → Bool)
  | attrs (a : Option AAttrs)
  | unit
  | exc (cls : String)
  | evalName
  | unmodelled

structure AState where
  store : AStore
  snaps : List ASnap

/-- function update -/
def fupd {κ β : Type} [DecidableEq κ] (f : κ → β) (k : κ) (v : β) : κ → β := fun x => if x = k then v else f x

def noAttrs : AAttrs := fun _ => Option.none

def attrsOf (s : AStore) (e : Ent) : AAttrs :=
  match s e with
  | some r => r.attrs
  | Option.none => noAttrs

def valueOf (s : AStore) (e : Ent) : String :=
  match s e with
  | some r => r.value
  | Option.none => "None"                         -- nothing to keep: HA stores `str(None)`

/-- the dictionary a python `dict` literal / `**kwargs` denotes -/
def ofList (d : Attrs) : AAttrs := fun k => aget k d

/-- keyword attributes merged over `f`, one after the other -/
def merge (kw : Attrs) (f : AAttrs) : AAttrs := kw.foldl (fun g p => fupd g p.1 (some p.2)) f

/-- the virtual fields named by the property statement (independent of the code's tables) -/
def VIRTUAL : List String := ["entity_id", "last_changed", "last_updated", "last_reported"]

/-- what a snapshot of `e` shows: the virtual fields, else the attribute -/
def viewOf (e : Ent) (r : ARec) : AAttrs :=
  fun a => if a ∈ VIRTUAL then some (virtVal e a) else r.attrs a

/-- the attributes a snapshot carries (its view without the virtual fields) -/
def attrsOfView (v : AAttrs) : AAttrs := fun a => if a ∈ VIRTUAL then Option.none else v a

/-- **the one rule of writing**: value given or kept; attributes replaced or kept; keywords merged last -/
def setRule (s : AStore) (e : Ent) (value : Option String) (na : Option AAttrs) (kw : Attrs) : AStore :=
  fupd s e (some ⟨value.getD (valueOf s e), merge kw (na.getD (attrsOf s e))⟩)

/-- the string an assigned python object becomes -/
def refStr (snaps : List ASnap) : ArgRef → Option String
  | .none => some "None"
  | .plain v => some v.str
  | .snap i => (snaps[i]?).map (·.value)

/-- `state.set`'s value argument: `None` means omitted -/
def refValue (snaps : List ASnap) : ArgRef → Option (Option String)
  | .none => some Option.none
  | .plain v => some (some v.str)
  | .snap i => (snaps[i]?).map (fun s => some s.value)

/-- is `h` a Python variable (local, per-context function, global, builtin)? -/
def pyVarSrc (env : Env) (h : String) : Option String :=
  if env.sym.contains [h] then some "local"
  else if env.localSym.contains [h] then some "astfunc"
  else if env.globalSym.contains [h] then some "global"
  else if env.builtinAst.contains [h] || env.builtins.contains [h] then some "builtin"
  else Option.none

/-- is `d.n` the name of a function or of an existing service? -/
def callableName (env : Env) (d n : String) : Bool :=
  env.functions.contains [d, n] || env.services.contains (d, n)

namespace Spec

def exist (env : Env) (s : AStore) (parts : List String) : Bool :=
  match parts with
  | [d, n] => (s (d, n)).isSome
  | [d, n, a] =>
    match s (d, n) with
    | Option.none => false
    | some r => env.svcMethod d a || (r.attrs a).isSome || VIRTUAL.contains a
                  || STATE_CALLABLE_ATTRS.contains a
  | _ => false

def get (env : Env) (s : AStore) (parts : List String) : SOut :=
  match parts with
  | [d, n] =>
    match s (d, n) with
    | Option.none => .exc "NameError"
    | some r => .sv ⟨r.value, viewOf (d, n) r⟩
  | [d, n, a] =>
    match s (d, n) with
    | Option.none => .exc "NameError"
    | some r =>
      if env.svcMethod d a then .callable
      else match viewOf (d, n) r a with
        | some v => .attr v
        | Option.none => if methodAttr a then .callable else .exc "AttributeError"
  | _ => .exc "NameError"

/-- reading `d.n` / `d.n.a` from script code: Python variables first, then services, then the state machine -/
def load (env : Env) (s : AStore) (parts : List String) : SOut :=
  match parts with
  | [d, n] =>
    match pyVarSrc env d with
    | some src => .py src
    | Option.none => if callableName env d n then .callable else get env s [d, n]
  | [d, n, a] =>
    match pyVarSrc env d with
    | some src => .py src
    | Option.none => get env s [d, n, a]
  | _ => .unmodelled

def setattr (s : AStore) (parts : List String) (v : Val) : AStore × SOut :=
  match parts with
  | [d, n, a] =>
    match s (d, n) with
    | Option.none => (s, .exc "NameError")
    | some _ => (setRule s (d, n) Option.none Option.none [(a, v)], .unit)
  | _ => (s, .exc "NameError")

def set (s : AStore) (parts : List String) (value : Option String) (na : Option Attrs) (kw : Attrs) : AStore × SOut :=
  match parts with
  | [d, n] => (setRule s (d, n) value (na.map ofList) kw, .unit)
  | _ => (s, .exc "NameError")

def delete (s : AStore) (parts : List String) : AStore × SOut :=
  match parts with
  | [d, n] =>
    match s (d, n) with
    | Option.none => (s, .exc "NameError")
    | some _ => (fupd s (d, n) Option.none, .unit)
  | [d, n, a] =>
    match s (d, n) with
    | Option.none => (s, .exc "NameError")
    | some r =>
      match r.attrs a with
      | Option.none => (s, .exc "AttributeError")
      | some _ => (fupd s (d, n) (some ⟨r.value, fupd r.attrs a Option.none⟩), .unit)
  | _ => (s, .exc "NameError")

def getattr (s : AStore) (parts : List String) : SOut :=
  match parts with
  | [d, n] => .attrs ((s (d, n)).map (·.attrs))
  | _ => .exc "NameError"

def names (s : AStore) (dom : Option String) : Ent → Bool :=
  fun e => (s e).isSome && (match dom with | Option.none => true | some d => e.1 == d)

/-- assignment statement `d.n = v` / `d.n.a = v` -/
def store (env : Env) (st : AState) (parts : List String) (v : ArgRef) : AStore × SOut :=
  match parts with
  | [d, n] =>
    match pyVarSrc env d with
    | some _ => (st.store, .py "setattr")
    | Option.none =>
      match refStr st.snaps v with
      | some str => (setRule st.store (d, n) (some str) Option.none [], .unit)
      | Option.none => (st.store, .unmodelled)
  | [d, n, a] =>
    match pyVarSrc env d with
    | some _ => (st.store, .py "setattr")
    | Option.none =>
      match v with
      | .none => setattr st.store [d, n, a] Val.none
      | .plain x => setattr st.store [d, n, a] x
      | .snap i =>
        (match st.snaps[i]? with
         | some sn => setattr st.store [d, n, a] ⟨"\"" ++ sn.value ++ "\"", sn.value⟩
         | Option.none => (st.store, .unmodelled))
  | _ => (st.store, .unmodelled)

/-- `del d.n` / `del d.n.a` from script code -/
def delStmt (env : Env) (s : AStore) (parts : List String) : AStore × SOut :=
  match parts with
  | d :: _ :: _ =>
    match pyVarSrc env d with
    | some _ => (s, .py "delattr")                 -- Python's `del obj.attr`
    | Option.none => delete s parts
  | _ => (s, .unmodelled)

/-- `d.n += "sfx"`: the value gets the suffix, the attributes are kept (outside the proved fragment: judged by the
correspondence runs and the oracle) -/
def aug (env : Env) (s : AStore) (parts : List String) (sfx : String) : AStore × SOut :=
  match parts with
  | [d, n] =>
    match pyVarSrc env d with
    | some _ => (s, .py "aug")
    | Option.none =>
      if callableName env d n then (s, .exc "TypeError")
      else match s (d, n) with
        | Option.none => (s, .exc "NameError")
        | some r => (setRule s (d, n) (some (r.value ++ sfx)) Option.none [], .unit)
  | _ => (s, .unmodelled)

def capture (st : AState) (o : SOut) : AState :=
  match o with
  | .sv s => { st with snaps := st.snaps ++ [s] }
  | _ => st

def withStore (st : AState) (r : AStore × SOut) : AState × SOut := ({ st with store := r.1 }, r.2)

def step (env : Env) (st : AState) : Op → AState × SOut
  | .load parts => (capture st (load env st.store parts), load env st.store parts)
  | .store parts v => withStore st (store env st parts v)
  | .delStmt parts => withStore st (delStmt env st.store parts)
  | .aug parts sfx => withStore st (aug env st.store parts sfx)
  | .get parts => (capture st (get env st.store parts), get env st.store parts)
  | .set parts v na kw =>
    match refValue st.snaps v with
    | some value => withStore st (set st.store parts value na kw)
    | Option.none => (st, .unmodelled)
  | .setattr parts v => withStore st (setattr st.store parts v)
  | .delete parts => withStore st (delete st.store parts)
  | .exist parts => (st, .bool (exist env st.store parts))
  | .getattr parts => (st, getattr st.store parts)
  | .getattrSnap i =>
    match st.snaps[i]? with
    | some s => (st, .attrs (some (attrsOfView s.view)))
    | Option.none => (st, .unmodelled)
  | .names dom => (st, .names (names st.store dom))
  | .peek i =>
    match st.snaps[i]? with
    | some s => (st, .sv s)
    | Option.none => (st, .unmodelled)
  | .extSet e value attrs => ({ st with store := fupd st.store e (some ⟨value, ofList attrs⟩) }, .unit)
  | .extRemove e => ({ st with store := fupd st.store e Option.none }, .unit)

def run (env : Env) : AState → List Op → AState × List SOut
  | st, [] => (st, [])
  | st, op :: ops =>
    ((run env (step env st op).1 ops).1, (step env st op).2 :: (run env (step env st op).1 ops).2)

end Spec

/-! ## the fragment on which the code follows the rules (everything outside it is a recorded finding or out of scope) -/

/-- the symbol tables that hold Python-level objects -/
def pyTables (env : Env) : List (List String) :=
  env.globalDecl ++ env.sym ++ env.localSym ++ env.globalSym ++ env.localNames ++ env.builtinAst ++ env.builtins

/-- symbol tables hold plain identifiers; `functions` lists the dotted function names (`task.unique`, `log.info`, …) -/
def SimpleEnv (env : Env) : Prop :=
  (∀ id ∈ pyTables env, id.length = 1) ∧ (∀ id ∈ env.functions, id.length = 2)

/-- scoping is consistent: a name declared `global` exists as a global and is not also a local; a name that is
local to the running function and shadows a global has been assigned (no `UnboundLocalError` situation) -/
def EnvOK (env : Env) : Prop :=
  (∀ id, id ∈ env.globalDecl → id ∈ env.globalSym ∧ id ∉ env.sym ∧ id ∉ env.localSym) ∧
  (∀ id, id ∈ env.localNames → id ∈ env.globalSym → id ∈ env.sym ∨ id ∈ env.localSym)

/-- a keyword of this name binds a positional parameter of `State.set` instead of becoming an attribute -/
def reserved (a : String) : Bool := STATE_SET_PARAMS.contains a

/-- operations on which `state.py`/`eval.py` (with the repairs `fx`) implement the rules of the property; what is
excluded is a recorded finding (see the `_cex` / `_regress` theorems) or not modelled -/
def Conf (fx : Fixes) (env : Env) : Op → Bool
  | .load parts =>
    match parts with
    | [_, _] => true
    | [d, n, _] => (pyVarSrc env d).isSome || !callableName env d n
    | _ => false
  | .store parts v =>
    match parts with
    | [d, _] =>
      (match v with
       | .plain _ => true
       | .none => fx.assignNone || (pyVarSrc env d).isSome   -- before the fix `d.n = None` kept the old value (F1)
       | .snap _ => false)                                   -- `d.n = <StateVal>` replaces the attributes (finding F2, open)
    | [d, _, a] =>
      (match v with
       | .snap _ => false                                    -- not modelled
       | _ => fx.setattrDict || (pyVarSrc env d).isSome || !reserved a)   -- before the fix `d.n.value = v` set the state (F3)
    | _ => false
  | .delStmt parts =>
    match parts with
    | d :: _ :: _ => fx.delPyAttr || (pyVarSrc env d).isNone  -- before the fix `del obj.attr` went to State.delete (F4)
    | _ => false
  | .aug _ _ => false                                       -- not in the proved fragment (judged by the runs)
  | .set _ v na _ =>
    match v, na with
    | .snap _, Option.none => false                          -- finding F2 through `state.set`
    | _, _ => true
  | .setattr parts _ =>
    match parts with
    | [_, _, a] => fx.setattrDict || !reserved a             -- F3 through `state.setattr`
    | _ => true
  | _ => true

/-- the fragment once all three repairs are in: only the open finding F2 (a `StateVal` value brings its attributes) and
the unmodelled shapes (other part counts, a `StateVal` as attribute value) are left out -/
def ConfNow (env : Env) : Op → Bool
  | .load parts =>
    match parts with
    | [_, _] => true
    | [d, n, _] => (pyVarSrc env d).isSome || !callableName env d n
    | _ => false
  | .store parts v =>
    match parts with
    | [_, _] => (match v with | .snap _ => false | _ => true)
    | [_, _, _] => (match v with | .snap _ => false | _ => true)
    | _ => false
  | .delStmt parts =>
    match parts with
    | _ :: _ :: _ => true
    | _ => false
  | .aug _ _ => false
  | .set _ v na _ =>
    match v, na with
    | .snap _, Option.none => false
    | _, _ => true
  | _ => true

/-! ## abstraction: the dictionary an association list denotes -/

def absAttrs (d : Attrs) : AAttrs := ofList d
def absRec (r : Rec) : ARec := ⟨r.value, absAttrs r.attrs⟩
def absStore (st : Store) : AStore := fun e => (aget e st).map absRec
def absSnap (s : Snap) : ASnap := ⟨s.value, absAttrs s.dict⟩
def absState (ms : MState) : AState := ⟨absStore ms.store, ms.snaps.map absSnap⟩

def absOut : Out → SOut
  | .sv s => .sv (absSnap s)
  | .attr v => .attr v
  | .callable => .callable
  | .py src => .py src
  | .bool b => .bool b
  | .names es => .names (fun e => decide (e ∈ es))
  | .attrs a => .attrs (a.map absAttrs)
  | .unit => .unit
  | .exc c => .exc c
  | .evalName => .evalName
  | .unmodelled => .unmodelled

end PsModel.C16
