import PsModel.Model.C17
/-!
# C17 reference spec – which imports are permitted and what they bind

A module may be imported iff it is a pyscript module/app package visible from the importing context, or its WHOLE
dotted name is on the allow-list, or `allow_all_imports` is set.  A permitted import yields the pyscript module if
there is one, else the host's module of that name.  An import statement that is not permitted raises
ModuleNotFoundError and leaves the symbol table exactly as it was.
-/
namespace PsModel.C17
open PsModel

def Importable (env : Env) (name : String) : Prop :=
  (pysLookup env name).isSome = true ∨ name ∈ Gen.ALLOWED_IMPORTS ∨ env.allowAll = true

/-- the module object a permitted absolute import of `name` denotes (`none`: no such module anywhere) -/
def target (env : Env) (name : String) : Option ModInfo :=
  match pysLookup env name with
  | some m => some m
  | none => env.host name

/-- reference result of `import name [as x]` -/
def specImport1 (env : Env) (allowed : Bool) (a : Alias) (σ : Bindings) : Res :=
  if !allowed then { binds := σ, err := some .notAllowed }
  else match target env a.name with
    | some m => { binds := σ ++ [(a.key, .mod m.id)], err := none }
    | none => { binds := σ, err := some .notFound }

/-- names a star import makes visible -/
def publicAttrs (m : ModInfo) : List String := m.attrs.filter (fun n => n.front != '_')

/-- the builtins the property names explicitly -/
def namedExcluded : List String := ["open", "compile", "input", "breakpoint", "memoryview", "print"]

end PsModel.C17
