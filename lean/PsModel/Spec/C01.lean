import PsModel.Model.C01
/-!
# C01 reference semantics and fragment predicate

`Py.*` = the evaluators at `Cfg.python`: every handler in its language-reference shape (operands left to right, each
once; dict displays key-then-value; calls evaluate positional arguments before keywords and reject duplicate
keywords; `t op= e` evaluates the target's sub-expressions once and applies the in-place operator; f-string
conversions applied; list-display targets unpack; unary plus applies `__pos__`).  The readable equations of this
instance are stated as theorems in `Props/C01.lean` (`Py_dict`, `Py_call`, …).

`Conf cfg` is the decidable syntactic fragment on which the handlers *as configured by cfg* are indistinguishable
from Python: a node shape is excluded only while its flag is off.
-/
namespace PsModel.C01

namespace Py
variable {W : Type} (P : Prims W)
def eval := C01.eval Cfg.python P
def run := C01.run Cfg.python P
def exec := C01.exec Cfg.python P
end Py

/-- pure operands: evaluating them has no effect, cannot be observed and gives the same value every time -/
def Expr.isPure : Expr → Bool
  | .const _ => true
  | .name _ => true
  | _ => false

def Elt.isConst : Elt → Bool
  | .plain e => e.isConst
  | .star _ => false
def Kw.isConst : Kw → Bool
  | .named _ e => e.isConst
  | .splat _ => false
def Kw.isNamed : Kw → Bool
  | .named _ _ => true
  | .splat _ => false
def Kw.key : Kw → Option String
  | .named k _ => some k
  | .splat _ => none

/-- explicit keyword names pairwise distinct (CPython's compiler rejects a repeated keyword) -/
def kwDistinct : List Kw → Bool
  | [] => true
  | k :: ks => (match k.key with
                | some n => !(ks.any (fun k' => k'.key == some n))
                | none => true) && kwDistinct ks

/-- every operand of a chain except the last is pure -/
def midPure : List CmpArm → Bool
  | [] => true
  | [_] => true
  | .mk _ e :: r => e.isPure && midPure r

/-! ### names occurring in a piece of syntax (read, bound by `:=`, or bound as a target) -/
mutual
def Expr.vars : Expr → List String
  | .const _ => []
  | .leaf _ => []
  | .name x => [x]
  | .binop _ l r => l.vars ++ r.vars
  | .unary _ e => e.vars
  | .boolop _ es => varsList es
  | .compare l rest => l.vars ++ varsArms rest
  | .ifexp c t e => c.vars ++ (t.vars ++ e.vars)
  | .subscript v i => v.vars ++ i.vars
  | .slice lo hi st => varsOpt lo ++ (varsOpt hi ++ varsOpt st)
  | .attr v _ => v.vars
  | .call f args kws => f.vars ++ (varsElts args ++ varsKws kws)
  | .seq _ es => varsElts es
  | .dict kvs => varsPairs kvs
  | .fstr parts => varsParts parts
  | .named x e => x :: e.vars
  | .comp _ elt gens => elt.vars ++ varsGens gens
  | .dictcomp k v gens => k.vars ++ (v.vars ++ varsGens gens)
def varsOpt : Option Expr → List String
  | none => []
  | some e => e.vars
def varsList : List Expr → List String
  | [] => []
  | e :: es => e.vars ++ varsList es
def varsArms : List CmpArm → List String
  | [] => []
  | .mk _ e :: r => e.vars ++ varsArms r
def varsElts : List Elt → List String
  | [] => []
  | .plain e :: r => e.vars ++ varsElts r
  | .star e :: r => e.vars ++ varsElts r
def varsKws : List Kw → List String
  | [] => []
  | .named _ e :: r => e.vars ++ varsKws r
  | .splat e :: r => e.vars ++ varsKws r
def varsPairs : List DictArm → List String
  | [] => []
  | .kv k v :: r => k.vars ++ (v.vars ++ varsPairs r)
  | .splat e :: r => e.vars ++ varsPairs r
def varsParts : List FPart → List String
  | [] => []
  | .lit _ :: r => varsParts r
  | .fmt e _ spec :: r => e.vars ++ (varsOpt spec ++ varsParts r)
def varsGens : List Gen → List String
  | [] => []
  | .mk t it ifs :: r => t.vars ++ (it.vars ++ (varsList ifs ++ varsGens r))
/-- every name in a target: the names it binds and those of its sub-expressions -/
def Target.vars : Target → List String
  | .name x => [x]
  | .sub v i => v.vars ++ i.vars
  | .attr v _ => v.vars
  | .tup _ before star after => varsTargets before ++ ((match star with | some x => [x] | none => []) ++ varsTargets after)
def varsTargets : List Target → List String
  | [] => []
  | t :: ts => t.vars ++ varsTargets ts
end

mutual
/-- the names in the sub-expressions of a target (subscript / attribute bases and indices), not the names it binds -/
def Target.exprVars : Target → List String
  | .name _ => []
  | .sub v i => v.vars ++ i.vars
  | .attr v _ => v.vars
  | .tup _ before _ after => exprVarsL before ++ exprVarsL after
def exprVarsL : List Target → List String
  | [] => []
  | t :: ts => t.exprVars ++ exprVarsL ts
end

/-- none of the names `ns` is in `U` -/
def avoids (U : List String) (ns : List String) : Bool := ns.all (fun x => !U.contains x)

/-- `U` without the names `ns` -/
def minus (U ns : List String) : List String := U.filter (fun x => !ns.contains x)

/-- `U` = the loop variables that may still be unbound when the clauses `gs` start.  No clause mentions a loop variable
that may be unbound when the clause is evaluated: the iterable and the target's sub-expressions of a generator are
evaluated before its target is bound, its `if` clauses after. -/
def earlyFree (U : List String) : List Gen → Bool
  | [] => true
  | .mk t it ifs :: gs =>
    avoids U it.vars && avoids U t.exprVars && avoids (minus U t.names) (varsList ifs) && earlyFree (minus U t.names) gs

/-- a comprehension reads no loop variable before the generator that binds it has run (the FIRST iterable is evaluated
in the enclosing scope and may use any name) -/
def compEarlyFree : List Gen → Bool
  | [] => true
  | .mk t _ ifs :: gs =>
    avoids (t.names ++ gensNames gs) t.exprVars &&
    avoids (minus (t.names ++ gensNames gs) t.names) (varsList ifs) &&
    earlyFree (minus (t.names ++ gensNames gs) t.names) gs

mutual
def Conf (cfg : Cfg) : Expr → Bool
  | .const _ => true
  | .leaf _ => true
  | .name _ => true
  | .binop _ l r => Conf cfg l && Conf cfg r
  | .unary op e => Conf cfg e && (cfg.uaddApplies || op != 3)
  | .boolop _ es => ConfList cfg es
  | .compare l rest => Conf cfg l && ConfArms cfg rest && (cfg.compareOnce || midPure rest) && !rest.isEmpty
  | .ifexp c t e => Conf cfg c && Conf cfg t && Conf cfg e
  | .subscript v i => Conf cfg v && Conf cfg i
  | .slice lo hi st => ConfOpt cfg lo && ConfOpt cfg hi && ConfOpt cfg st
  | .attr v _ => Conf cfg v
  | .call f args kws =>
    Conf cfg f && ConfElts cfg args && ConfKws cfg kws &&
    kwDistinct kws &&                                   -- a repeated explicit keyword is a SyntaxError in CPython
    (cfg.callArgsFirst || args.all Elt.isConst || kws.all Kw.isConst) &&
    ((cfg.dupKwCheck && cfg.kwGroupMerge) || kws.all Kw.isNamed)
  | .seq _ es => ConfElts cfg es
  | .dict kvs => ConfPairs cfg kvs
  | .fstr parts => ConfParts cfg parts
  | .named _ e => Conf cfg e
  | .comp _ elt gens => Conf cfg elt && ConfGens cfg gens && !gens.isEmpty && (cfg.compFresh || compEarlyFree gens)
  | .dictcomp k v gens =>
    Conf cfg k && Conf cfg v && ConfGens cfg gens && !gens.isEmpty && (cfg.compFresh || compEarlyFree gens)
def ConfOpt (cfg : Cfg) : Option Expr → Bool
  | none => true
  | some e => Conf cfg e
def ConfList (cfg : Cfg) : List Expr → Bool
  | [] => true
  | e :: es => Conf cfg e && ConfList cfg es
def ConfArms (cfg : Cfg) : List CmpArm → Bool
  | [] => true
  | .mk _ e :: r => Conf cfg e && ConfArms cfg r
def ConfElts (cfg : Cfg) : List Elt → Bool
  | [] => true
  | .plain e :: r => Conf cfg e && ConfElts cfg r
  | .star e :: r => Conf cfg e && ConfElts cfg r
def ConfKws (cfg : Cfg) : List Kw → Bool
  | [] => true
  | .named _ e :: r => Conf cfg e && ConfKws cfg r
  | .splat e :: r => Conf cfg e && ConfKws cfg r
def ConfPairs (cfg : Cfg) : List DictArm → Bool
  | [] => true
  | .kv k v :: r => Conf cfg k && Conf cfg v && (cfg.dictKeyFirst || k.isConst || v.isConst) && ConfPairs cfg r
  | .splat e :: r => Conf cfg e && ConfPairs cfg r
def ConfParts (cfg : Cfg) : List FPart → Bool
  | [] => true
  | .lit _ :: r => ConfParts cfg r
  | .fmt e conv spec :: r => Conf cfg e && ConfOpt cfg spec && (cfg.fstrConversion || conv.isNone) && ConfParts cfg r
def ConfGens (cfg : Cfg) : List Gen → Bool
  | [] => true
  | .mk t it ifs :: r => ConfT cfg t && Conf cfg it && ConfList cfg ifs && ConfGens cfg r
def ConfT (cfg : Cfg) : Target → Bool
  | .name _ => true
  | .sub v i => Conf cfg v && Conf cfg i
  | .attr v _ => Conf cfg v
  | .tup isList before _ after => (cfg.listTarget || !isList) && ConfTs cfg before && ConfTs cfg after
def ConfTs (cfg : Cfg) : List Target → Bool
  | [] => true
  | t :: ts => ConfT cfg t && ConfTs cfg ts
end

def Target.isName : Target → Bool
  | .name _ => true
  | _ => false

def Target.notTup : Target → Bool
  | .tup .. => false
  | _ => true

def ConfS (cfg : Cfg) : Stmt → Bool
  | .expr e => Conf cfg e
  | .assign ts e => ConfTs cfg ts && Conf cfg e
  | .aug t _ e => ConfT cfg t && Conf cfg e && (cfg.augTargetOnce || t.isName) && t.notTup
  | .del ts => ConfTs cfg ts

def ConfProg (cfg : Cfg) : List Stmt → Bool
  | [] => true
  | s :: ss => ConfS cfg s && ConfProg cfg ss

/-- "no operand of an augmented assignment has an in-place method": the host applies the binary operator -/
def NoInPlace {W : Type} (P : Prims W) : Prop := ∀ op a b w, P.iop op a b w = P.binop op a b w

end PsModel.C01
