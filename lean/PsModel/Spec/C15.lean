import PsModel.Model.C15
/-!
# C15 – reference specification of `task.wait_until`

"returns exactly when the FIRST of its state, time or event conditions occurs after the call – or immediately if
state_check_now is in effect and the state expression is already true –, returns 'timeout' after the timeout
elapses without one, and 'none' when only time triggers without any future instant were given."
An occurrence whose condition raises ends the wait with that exception; cancellation ends it at once.
-/
namespace PsModel.C15
namespace Spec

/-- what an occurrence at time `t` means for the waiter, if anything -/
def outcome (cfg : Cfg) (t : Nat) : Item → Option Exit
  | .cancel => some (.cancelled t)
  | .state v =>
    match cfg.state with
    | Option.none => Option.none
    | some s =>
      match s.expr v with
      | Option.none => some (.exc t .eval)
      | some true => some (.ret t (.state (some v)))
      | some false => Option.none
  | .event d =>
    match cfg.event with
    | Option.none => Option.none
    | some e =>
      match callFilt e.filt d with
      | Option.none => some (.exc t .eval)
      | some true => some (.ret t (.event d))
      | some false => Option.none

/-- the first occurrence after the call that decides the wait -/
def firstDecisive (cfg : Cfg) : Hist → Option (Nat × Exit)
  | [] => Option.none
  | (t, it) :: rest =>
    match outcome cfg t it with
    | some e => some (t, e)
    | Option.none => firstDecisive cfg rest

/-- the deadline, anchored AT THE CALL: the time trigger's next instant after the call, the timeout `T` after it -/
def deadlineAt (cfg : Cfg) (call : Nat) : Option (Nat × DKind) :=
  deadline (timeNext cfg.time call) (cfg.timeout.map (call + ·))

/-- immediate exit by the check of the state expression at the call -/
def checkNow (cfg : Cfg) (v0 : Nat) (call : Nat) : Option Exit :=
  match cfg.state with
  | Option.none => Option.none
  | some s =>
    if s.checkNow then
      match s.expr v0 with
      | Option.none => some (.exc call .eval)
      | some true => some (.ret call (.state Option.none))
      | some false => Option.none
    else Option.none

/-- first of {deadline, first decisive occurrence} -/
def wait (cfg : Cfg) (call : Nat) (hist : Hist) : Exit :=
  match deadlineAt cfg call, firstDecisive cfg hist with
  | Option.none, Option.none => .waiting
  | Option.none, some (_, e) => e
  | some (d, k), Option.none => retOf d k
  | some (d, k), some (t, e) => if d < t then retOf d k else e

/-- the specified exit of `task.wait_until` (for well-formed arguments) -/
def first (cfg : Cfg) (v0 : Nat) (call : Nat) (hist : Hist) : Exit :=
  match checkNow cfg v0 call with
  | some e => e
  | Option.none =>
    if (deadlineAt cfg call).isNone && !hasListen cfg then .ret call .none   -- nothing can ever happen
    else wait cfg call hist

/-- the history is in time order and after `lo` -/
def Mono : Nat → Hist → Prop
  | _, [] => True
  | lo, (t, _) :: rest => lo < t ∧ Mono t rest

/-- no occurrence at the very instant of the deadline (grid assumption of the harness) -/
def NoTies (cfg : Cfg) (call : Nat) (hist : Hist) : Prop :=
  ∀ p ∈ hist, ∀ d k, deadlineAt cfg call = some (d, k) → p.1 ≠ d

end Spec
end PsModel.C15
