import PsModel.Model.C18
/-!
# C18 reference – what must be reported

* the traceback of a chain of activations names, for every activation, its file, its function and the line it is
  currently at (`pyTraceback` – what CPython's `traceback.extract_tb` yields for the same source);
* an occurrence of a trigger produces at most one error record: the first piece of user code that raises
  (`specRecs`), emitted on the script's logger with the script traceback, and the occurrence is consumed;
* after a load pass exactly the files that did not raise are registered (`specContexts`).
-/
namespace PsModel.C18

def pyTraceback (chain : List Act) : List Entry := chain.map triple

/-- the condition under which the first activation of a chain is not merged with the entry of the module body
(a function of the file that carries the context's name) -/
def FirstOk (m : ModAct) (chain : List Act) : Prop :=
  ∀ a r, chain = a :: r → ¬(m.file = a.file ∧ (if m.file ≠ m.ctxName then some m.ctxName else none) = some a.func)

/-- an import seen from evaluator `c0`: the imported file runs on another evaluator, at least one frame of the import
machinery (real Python code, not a script file) precedes its body, and its chain has no adjacent equal activations -/
def SegOk (c0 : Nat) (g : Seg) : Prop :=
  c0 ≠ g.m.ctx ∧
  (∃ r, g.reals.getLast? = some r ∧ ¬(r.file = g.m.file ∧ some r.fn = entryFunc none g.m.file g.m.ctxName)) ∧
  NoAdj g.chain ∧ FirstOk g.m g.chain

/-- nested imports of any depth: each one is seen from the innermost activation of the one before -/
def SegsOk : Nat → List Seg → Prop
  | _, [] => True
  | c0, g :: r => SegOk c0 g ∧ SegsOk (lastCtx g.m.ctx g.chain) r

/-- what Python's own traceback names for a file body, its chain and the nested imports below -/
def pyImports (segs : List Seg) : List Entry := segs.flatMap segTriples

/-- Python's last line: the class name and what `__str__` returns, wherever `__str__` is defined -/
def pyLastLine (name : String) : StrImpl → String
  | .native r => finalLine name (nativeStr r)
  | .script r => finalLine name (nativeStr r)

/-- the error (if any) of one occurrence: expression, then `@state_active`, then the function body -/
def specRecs (o : Occ) : List Nat :=
  match o.expr with
  | .raise e => [e]
  | .ok =>
    if o.exprTrue then
      match o.active with
      | .raise e => [e]
      | .ok =>
        if o.activeTrue then
          match o.body with
          | .raise e => [e]
          | .ok => []
        else []
    else []

/-- does the occurrence start a function run? -/
def specRuns (o : Occ) : Bool := o.expr = .ok && o.exprTrue && o.active = .ok && o.activeTrue

def scriptRec (logger : String) (e : Nat) : LogRec := { logger := logger, exc := e, scriptTb := true }

def specContexts (files : List SrcFile) : List String := (files.filter (fun f => f.loads = .ok)).map (·.name)

def failing (files : List SrcFile) : List SrcFile := files.filter (fun f => f.loads ≠ .ok)

end PsModel.C18
