import PsModel.Model.C18
/-!
# C18 reference – what must be reported

* the traceback of a chain of activations names, for every activation, its file, its function and the line it is
  currently at (`pyTraceback` – what CPython's `traceback.extract_tb` yields for the same source);
* an occurrence of a trigger produces at most one error record: the first piece of user code that raises
  (`specRecs`), emitted on the script's logger with the script traceback, and the occurrence is consumed;
* after a load pass exactly the files that did not raise are registered (`specContexts`).
-/
namespace PsModel.C18

def pyTraceback (chain : List Act) : List Entry := chain.map triple

/-- the error (if any) of one occurrence: expression, then `@state_active`, then the function body -/
def specRecs (o : Occ) : List Nat :=
  match o.expr with
  | .raise e => [e]
  | .ok =>
    if o.exprTrue then
      match o.active with
      | .raise e => [e]
      | .ok =>
        if o.activeTrue then
          match o.body with
          | .raise e => [e]
          | .ok => []
        else []
    else []

/-- does the occurrence start a function run? -/
def specRuns (o : Occ) : Bool := o.expr = .ok && o.exprTrue && o.active = .ok && o.activeTrue

def scriptRec (logger : String) (e : Nat) : LogRec := { logger := logger, exc := e, scriptTb := true }

def specContexts (files : List SrcFile) : List String := (files.filter (fun f => f.loads = .ok)).map (·.name)

def failing (files : List SrcFile) : List SrcFile := files.filter (fun f => f.loads ≠ .ok)

end PsModel.C18
