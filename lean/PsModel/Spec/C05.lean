import PsModel.Model.C05
/-!
# C05 reference spec – the documented timeline of `state_check_now`, `state_hold`, `state_hold_false`

(docs/reference.rst, `@state_trigger` optional arguments and the summary table)

* the expression is checked at start iff `state_check_now` or `state_hold_false` is given; a trigger occurs at start
  iff `state_check_now` and the expression is true then;
* `state_hold_false = H`: a true evaluation is a *candidate* only if the expression was last seen false (at start or
  on a watched change) and has been false for at least `H`; any true evaluation ends the false period;
* `state_hold = S`: a candidate starts a delay of `S` unless one is pending; a false evaluation cancels it; when the
  delay elapses the function runs with the arguments of the candidate that STARTED it; without `state_hold` a
  candidate runs at once;
* changes that cause no evaluation (`skip`, `unrelated`) affect nothing.
-/
namespace PsModel.C05.Spec

structure SState where
  pending : Option (Nat × Nat)     -- (time the delay started, arguments of that first candidate)
  falseSince : Option Nat          -- the expression was last seen false, continuously since then
  runs : List Run
deriving DecidableEq, Repr, Inhabited

/-- the pending delay elapses at or before `t` -/
def expire (cfg : Cfg) (st : SState) (t : Nat) : SState :=
  match st.pending with
  | some (s, a) =>
    if s + cfg.hold.getD 0 ≤ t then { st with pending := none, runs := st.runs ++ [(s + cfg.hold.getD 0, a)] } else st
  | none => st

/-- the pending delay elapses eventually (end of the history) -/
def flush (cfg : Cfg) (st : SState) : SState :=
  match st.pending with
  | some (s, a) => { st with pending := none, runs := st.runs ++ [(s + cfg.hold.getD 0, a)] }
  | none => st

def candidate (cfg : Cfg) (st : SState) (t a : Nat) : SState :=
  match cfg.hold with
  | none => { st with runs := st.runs ++ [(t, a)] }
  | some _ =>
    match st.pending with
    | none => { st with pending := some (t, a) }
    | some _ => st

/-- an evaluation of the expression with result `b` at time `t` (arguments `a`) -/
def onEval (cfg : Cfg) (st : SState) (t : Nat) (b : Bool) (a : Nat) : SState :=
  match cfg.holdFalse with
  | none => if b then candidate cfg st t a else { st with pending := none }
  | some h =>
    if b then
      match st.falseSince with
      | none => st                                            -- was not false: ignored, a pending delay goes on
      | some f =>
        let st1 := { st with falseSince := none }
        if t - f ≥ h then candidate cfg st1 t a else st1
    else
      { st with pending := none, falseSince := match st.falseSince with | some f => some f | none => some t }

def onEvt (cfg : Cfg) (st : SState) (e : Evt) : SState :=
  match e.k with
  | .eval b => onEval cfg (expire cfg st e.t) e.t b e.a
  | .skip => expire cfg st e.t
  | .unrelated => expire cfg st e.t

/-- start: the initial check (time 0, arguments 0) -/
def start (cfg : Cfg) (b0 : Bool) : SState :=
  let st0 : SState := ⟨none, if cfg.holdFalse.isSome && !b0 then some 0 else none, []⟩
  if cfg.checkNow && b0 then candidate cfg st0 0 0 else st0

def drive (cfg : Cfg) : SState → List Evt → SState
  | st, [] => flush cfg st
  | st, e :: es => drive cfg (onEvt cfg st e) es

def holdRuns (cfg : Cfg) (b0 : Bool) (hist : List Evt) : List Run := (drive cfg (start cfg b0) hist).runs

/-- event times strictly increase, start after 0, and no event coincides with a possible hold deadline
(`s + state_hold` for an earlier event or start time `s`) – decidable; the generator satisfies it by construction -/
def gridFrom (cfg : Cfg) (s : Nat) (hist : List Evt) : Bool :=
  hist.all (fun e => decide (s < e.t) && decide (e.t ≠ s + cfg.hold.getD 0))

def grid (cfg : Cfg) : List Evt → Bool
  | [] => true
  | e :: es => gridFrom cfg e.t es && grid cfg es

/-- `Sorted hist ∧ NoTies hist cfg` -/
def NoTies (cfg : Cfg) (hist : List Evt) : Prop := gridFrom cfg 0 hist = true ∧ grid cfg hist = true

instance (cfg : Cfg) (hist : List Evt) : Decidable (NoTies cfg hist) := by unfold NoTies; exact inferInstance

end PsModel.C05.Spec
