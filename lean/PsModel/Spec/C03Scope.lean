import PsModel.Model.C03Scope
/-!
# C03 reference (b) – CPython's symbol-table rule (language reference §4.2 "Resolution of names")

A free variable of a function refers to the binding in the nearest enclosing FUNCTION scope that binds it; an enclosing
scope that declares the name `global` ends the search – the name is then global.
-/
namespace PsModel.C03
namespace Py

def free (x : String) : Nat → List FnScope → Where
  | _, [] => .global
  | d, e :: rest =>
    if e.globals.contains x then .global
    else if e.isLocal x then .cell d
    else free x (d + 1) rest

def resolve (s : FnScope) (chain : List FnScope) (x : String) : Where :=
  if s.globals.contains x then .global
  else if s.isLocal x then .local
  else free x 1 chain

end Py

/-- no enclosing function declares `x` global (finding C03-F4 lives outside this fragment) -/
def NoGlobalCut (chain : List FnScope) (x : String) : Prop := ∀ e ∈ chain, e.globals.contains x = false

end PsModel.C03

/-! ## (c) the names Python's compiler makes local (language reference §4.2.1 "Binding of names") -/
namespace PsModel.C03
namespace Py
mutual
def targetNames : Tgt → List String
  | .name x => [x]
  | .tuple ts => elemNames ts
  | .list ts => elemNames ts
  | .starred _ => []                                  -- a starred target only occurs as a tuple/list element
  | .other => []
def elemNames : List Tgt → List String
  | [] => []
  | .starred t :: rest => targetNames t ++ elemNames rest
  | t :: rest => targetNames t ++ elemNames rest
end

/-- targets bind, import binds, `del` of a name makes it local; a comprehension's variables live in their own scope -/
def kindBinds : Kind → Bool
  | .compVar | .plain => false
  | _ => true

def nodeNames (k : Kind) (ts : List Tgt) : List String :=
  if kindBinds k then ts.flatMap targetNames else []

mutual
def locals : Stmt → List String
  | .node k ts body => nodeNames k ts ++ localsL body
def localsL : List Stmt → List String
  | [] => []
  | s :: rest => locals s ++ localsL rest
end
end Py

mutual
/-- the fragment outside `del (a, b)` -/
def Stmt.Plainish : Stmt → Prop
  | .node k ts body => (k = .del → ∀ t ∈ ts, match t with | .name _ => True | .other => True | _ => False)
      ∧ Stmt.PlainishL body
def Stmt.PlainishL : List Stmt → Prop
  | [] => True
  | s :: rest => s.Plainish ∧ Stmt.PlainishL rest
end

end PsModel.C03
