import PsModel.Model.C20
/-!
# C20 reference spec – what the requirement files *mean*, independent of any order

A line means something only if, after removing the comment and surrounding blanks, it is `name` or
`name==version` with a plain distribution name (identified up to PEP 503 normalisation: `My_Pkg` = `my-pkg`) and a
version that `Version()` accepts; everything else
(blank, comment, `>=`/`<=`/`~=`/`!=`/`,` forms – any line with one of the specifier patterns `SPEC_PATS` –,
several `==`, a pin that is not a version) is ignored.  The spec does not depend on the model's `Cfg`.
The selected version of a package is *a* highest valid pin, the unpinned marker only if there is no valid pin,
nothing if no line mentions it.  All definitions below look at the lines only through membership.
-/
namespace PsModel.C20

/-- what the theorems assume about `Version`: `<=` is a total preorder; the sentinel and the empty string are not
versions -/
structure VerOk {V} (ver : Ver V) : Prop where
  refl : ∀ a, ver.le a a = true
  trans : ∀ a b c, ver.le a b = true → ver.le b c = true → ver.le a c = true
  total : ∀ a b, ver.le a b = true ∨ ver.le b a = true
  unp : ver.parse UNP = none
  empty : ver.parse [] = none

/-- the well-formed-pin fragment: if the code sees a pin in the line, the pinned string is a version (or the
sentinel, which the code cannot tell from an unpinned line) -/
def GoodLine {V} (cfg : Cfg) (ver : Ver V) (raw : Str) : Prop :=
  ∀ n v, parseLine cfg raw = some (n, some v) → v = UNP ∨ ∃ a, ver.parse v = some a

/-- a plain distribution name (PEP 508 identifier): letters, digits, `-`, `_`, `.`, beginning and ending with a
letter or digit.  (Until round 4 the spec accepted any non-empty string over these characters, which made a pip option
such as `--pre` a package name.) -/
def plainName (n : Str) : Bool :=
  !n.isEmpty && n.all (fun c => c.isAlphanum || c == '-' || c == '_' || c == '.') &&
  (n.head?.map Char.isAlphanum).getD false && (n.getLast?.map Char.isAlphanum).getD false

/-- what marks the version-specifier operators other than `==` (`>= <= > <`, `~=`, `!=` and the `,` that joins
clauses): a line that contains one of these substrings is not of the supported `name` / `name==version` form.  A
lone `!` is not among them: it separates the epoch of a version (`1!2.0`). -/
def SPEC_PATS : List Str := [[','], ['>'], ['<'], ['~', '='], ['!', '=']]

/-- meaning of one line: `(package, none)` unpinned, `(package, some v)` a valid pin, `none` ignored.  The package
is identified by its normalised name (PEP 503: case and the `-`/`_`/`.` spelling do not matter) -/
def specLine {V} (ver : Ver V) (raw : Str) : Option (Str × Option Str) :=
  match parseLineWith SPEC_PATS false raw with
  | some (n, none) => if plainName n then some (normName n, none) else none
  | some (n, some v) => if plainName n && (ver.parse v).isSome then some (normName n, some v) else none
  | none => none

/-- `r` is a correct selection for package `p` given the meanings `ms` of all lines (order-free) -/
def Selected {V} (ver : Ver V) (ms : List (Str × Option Str)) (p : Str) (r : Option Str) : Prop :=
  match r with
  | none => ∀ m ∈ ms, m.1 ≠ p
  | some v =>
    if v = UNP then (p, none) ∈ ms ∧ ∀ u, (p, some u) ∉ ms
    else (p, some v) ∈ ms ∧ ∀ u, (p, some u) ∈ ms →
      ∀ a b, ver.parse u = some a → ver.parse v = some b → ver.le a b = true

/-- two selections are the same up to `Version` equality -/
def VEquiv {V} (ver : Ver V) (a b : Option Str) : Prop :=
  match a, b with
  | none, none => True
  | some u, some v =>
    u = v ∨ (∃ x y, ver.parse u = some x ∧ ver.parse v = some y ∧ ver.le x y = true ∧ ver.le y x = true)
  | _, _ => False

/-! executable rendering of the same choice (used by the driver's `spec` column) -/

def better {V} (ver : Ver V) (best : Option Str) (v : Str) : Option Str :=
  match best with
  | none => some v
  | some b =>
    match ver.parse b, ver.parse v with
    | some x, some y => if ver.le x y && !ver.le y x then some v else some b
    | _, _ => some b

def specSelect {V} (ver : Ver V) (ms : List (Str × Option Str)) (p : Str) : Option Str :=
  let pins := ms.filterMap (fun m => if m.1 = p then m.2 else none)
  match pins.foldl (better ver) none with
  | some v => some v
  | none => if ms.any (fun m => m.1 = p && m.2.isNone) then some UNP else none

def specNames (ms : List (Str × Option Str)) : List Str := (ms.map (·.1)).eraseDups

def specTable {V} (ver : Ver V) (raws : List Str) : List (Str × Str) :=
  let ms := raws.filterMap (specLine ver)
  (specNames ms).filterMap (fun p => (specSelect ver ms p).map (fun v => (p, v)))

/-- two version strings name the same version: the same text, or both are versions and equal as versions (a string
that is not a version only equals itself) -/
def SameV {V} (ver : Ver V) (a b : Str) : Prop :=
  a = b ∨ ∃ x y, ver.parse a = some x ∧ ver.parse b = some y ∧ veq ver x y = true

/-- reference install rule for one package: install iff it is not there, or pyscript put the present version
there and a *different* version is pinned now -/
def ShouldInstall {V} (ver : Ver V) (recd : Option Str) (e : Entry) : Prop :=
  truthy e.installed = none ∨
  ∃ inst r, truthy e.installed = some inst ∧ recd = some r ∧ e.version ≠ UNP ∧
    SameV ver r inst ∧ ¬ SameV ver e.version inst

/-- reference rule for pyscript's record of package `m` after a run (before unpinned entries are resolved to the
version found installed): the pin just handed to the installer; nothing if the package turned out to be managed
externally; otherwise what was recorded before (in particular for packages no file mentions any more) -/
def recordRule {V} (cfg : Cfg) (ver : Ver V) (t : Table) (r : Rec) (m : Str) : Option Str :=
  match find t m with
  | none => rget r m
  | some e =>
    match decidePkg cfg ver (rget r m) e with
    | .install => some e.version
    | .pop => none
    | _ => rget r m

/-- `update_unpinned_versions` on one record value -/
def resolveRule (site' : Str → Option Str) (m : Str) : Option Str → Option Str
  | some v => if v = UNP then truthy (site' m) else some v
  | none => none

/-- the package is recorded by pyscript but the installed version is not the recorded one -/
def ExternallyChanged {V} (ver : Ver V) (recd : Option Str) (e : Entry) : Prop :=
  ∃ inst r, truthy e.installed = some inst ∧ recd = some r ∧
    ((e.version = UNP ∧ r ≠ inst) ∨ (e.version ≠ UNP ∧ ¬ SameV ver r inst))

/-- what the installer is assumed to have achieved when it returns normally: every pinned requirement is
installed in (a version equal to) the pinned version, every unpinned one is installed in some version, and
nothing else changed -/
structure InstallOk {V} (ver : Ver V) (site site' : Str → Option Str) (ti : List Entry) : Prop where
  pinned : ∀ e ∈ ti, e.version ≠ UNP → ∃ i w b, site' e.name = some i ∧ i ≠ [] ∧
    ver.parse e.version = some w ∧ ver.parse i = some b ∧ veq ver w b = true
  unpinned : ∀ e ∈ ti, e.version = UNP → ∃ i, site' e.name = some i ∧ i ≠ []
  others : ∀ n, (∀ e ∈ ti, e.name ≠ n) → site' n = site n

end PsModel.C20
