import PsModel.Model.C09
/-!
# C09 – reference specification

"A decorated function's triggers are active exactly while the function object is still referenced … deactivation
releases every subscription … after everything is unloaded Home Assistant is back to its baseline."
-/
namespace PsModel.C09.Spec
open PsModel.C09

/-- a generation is active while some global variable or container slot still references it -/
def Active (w : World) (i : Nat) : Prop := 0 < refs w i

/-- the queue `q` of generation `g` is subscribed to entity `e`: the queue of its `k`-th `@state_trigger` watches the
entities named there (both subsystems keep one queue per `@state_trigger`) -/
def Wants (_sub : Sub) (g : Gen) (e : Ent) (q : Q) : Prop :=
  ∃ kn ∈ idxList g.states, q = (g.id, kn.1) ∧ e ∈ entsOf kn.2

/-- `Spec.tables`: the union of the subscriptions of the given generations -/
def Tables (sub : Sub) (gens : List Gen) (e : Ent) (q : Q) : Prop := ∃ g ∈ gens, Wants sub g e q

/-- event types with at least one subscriber -/
def EvWanted (subsOfTy : String → List Q) (ty : String) : Prop := subsOfTy ty ≠ []

end PsModel.C09.Spec
