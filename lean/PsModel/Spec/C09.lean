import PsModel.Model.C09
/-!
# C09 – reference specification

"A decorated function's triggers are active exactly while the function object is still referenced … deactivation
releases every subscription … after everything is unloaded Home Assistant is back to its baseline."
-/
namespace PsModel.C09.Spec
open PsModel.C09

/-- a generation is active while some global variable or container slot still references it -/
def Active (w : World) (i : Nat) : Prop := 0 < refs w i

/-- the queue `q` of generation `g` is subscribed to entity `e`: the queue of its `k`-th `@state_trigger` watches the
entities named there (both subsystems keep one queue per `@state_trigger`) -/
def Wants (_sub : Sub) (g : Gen) (e : Ent) (q : Q) : Prop :=
  ∃ kn ∈ idxList g.states, q = (g.id, kn.1) ∧ e ∈ entsOf kn.2

/-- `Spec.tables`: the union of the subscriptions of the given generations -/
def Tables (sub : Sub) (gens : List Gen) (e : Ent) (q : Q) : Prop := ∃ g ∈ gens, Wants sub g e q

/-- legacy notify channels (`Event.notify`, `Mqtt.notify`, `Webhook.notify`): queue `(id, k)` of generation `g` is
subscribed to key `key` when the `k`-th decorator of that kind names it -/
def WantsKey (keys : Gen → List String) (g : Gen) (key : String) (q : Q) : Prop :=
  ∃ kn ∈ idxList (keys g), q = (g.id, kn.1) ∧ kn.2 = key

/-- the union of the channel subscriptions of the given generations -/
def ChanTables (keys : Gen → List String) (gens : List Gen) (key : String) (q : Q) : Prop :=
  ∃ g ∈ gens, WantsKey keys g key q

/-- how many declarations of `key` (decorators naming it) the given generations carry -/
def demand (keys : Gen → List String) (gens : List Gen) (key : String) : Nat :=
  (gens.map (fun g => (keys g).count key)).sum

/-- event types with at least one subscriber -/
def EvWanted (subsOfTy : String → List Q) (ty : String) : Prop := subsOfTy ty ≠ []

end PsModel.C09.Spec
