import PsModel.Model.C12
/-!
# C12 reference spec – what the property says, over *live declarations*

The state is just the list of live functions (a function is live while its global variable refers to it and its
context is loaded), each with the `@service` names it declares that were *accepted* – a name owned by another context
is refused ("a second context cannot take over a name that another context owns"), every other name is accepted.
* a service is registered exactly while some live function declares it;
* calling it runs the **most recent** live definition that declares it, with that declaration's `supports_response`;
* the handler gets the call's data plus `trigger_type='service'` (and `context`);
* outgoing calls deliver exactly the keyword parameters that are not call controls of the right type.
-/
namespace PsModel.C12
open PsModel.C16 (aget aset adel)

structure SFunc where
  gen : Nat
  ctx : String
  var : String
  eff : List (Svc × Resp)          -- accepted declarations
deriving Repr

abbrev SState := List SFunc        -- in definition order

def declares (f : SFunc) (k : Svc) : Bool := f.eff.any (fun d => d.1 == k)

/-- the context that owns `k`: the context of a live function declaring it -/
def sOwner (s : SState) (k : Svc) : Option String := (s.find? (fun f => declares f k)).map (·.ctx)

def sAccepts (s : SState) (ctx : String) (k : Svc) : Bool :=
  match sOwner s k with
  | none => true
  | some c => c == ctx

def sStep (s : SState) : Op → SState
  | .define ctx _ var gen decl =>
    s.filter (fun f => !(f.ctx == ctx && f.var == var)) ++ [⟨gen, ctx, var, decl.filter (fun d => sAccepts s ctx d.1)⟩]
  | .start _ _ => s
  | .delete ctx var => s.filter (fun f => !(f.ctx == ctx && f.var == var))
  | .unload ctx => s.filter (fun f => f.ctx != ctx)

def sRun : SState → List Op → SState
  | s, [] => s
  | s, op :: ops => sRun (sStep s op) ops

def sRegistered (s : SState) (k : Svc) : Bool := s.any (fun f => declares f k)

/-- the most recent live definition declaring `k`, and the `supports_response` of its (last) declaration of `k` -/
def sHandler (s : SState) (k : Svc) : Option Handler :=
  match (s.filter (fun f => declares f k)).getLast? with
  | none => none
  | some f => (f.eff.filter (fun d => d.1 == k)).getLast?.map (fun d => ⟨f.gen, d.2⟩)

/-- the keyword arguments a handler must see -/
def sKwargs (ctxVal : String) (data : Kw) (k : String) : Option String :=
  match aget k (data.reverse) with          -- data is a dictionary: the last binding of a key is its value
  | some v => some v
  | none => if k = "trigger_type" then some "\"service\"" else if k = "context" then some ctxVal else none

/-- is `a` a call control of entry point `e` (right keyword *and* right type)? -/
def isControl (e : Entry) (a : Arg) : Bool :=
  (a.key = "context" && a.ty = .context) || (a.key = "blocking" && a.ty = .bool) ||
  (a.key = "return_response" && a.ty = .bool) ||
  (e = .entityMethod && a.key = "limit" && (a.ty = .float || a.ty = .int))

/-- the service data an outgoing call must deliver: every keyword parameter that is not a call control
(the entity-method form supplies `entity_id`) -/
def sData (e : Entry) (entity : String) (kwargs : List Arg) : List Arg :=
  if e = .entityMethod then
    (kwargs.filter (fun a => !isControl e a && a.key != "entity_id")) ++ [⟨"entity_id", .other, entity⟩]
  else kwargs.filter (fun a => !isControl e a)

def ctlBool (k : String) (kwargs : List Arg) : Option Bool :=
  match kwargs.find? (fun a => a.key = k && a.ty = .bool) with
  | some a => some (a.val == "true")
  | none => none

/-- what the call must achieve, per `docs/reference.rst` (the three call forms are documented as equivalent):
`return_response=True` also makes the call blocking; a response-only service is asked for its response; Home Assistant
refuses a response request to a service without responses, a response request with `blocking=False`, and a
response-only service called with `return_response=False` -/
def sOutResult (target : Resp) (kwargs : List Arg) : OutResult :=
  if (ctlBool "return_response" kwargs).getD (target == .only) then
    (if target == .none || ctlBool "blocking" kwargs == some false then .refused else .delivered true)
  else if target == .only then .refused
  else .delivered false

/-- the declaration spec speaks about Home Assistant services: a name means its lower-cased form -/
def lowOp : Op → Op
  | .define ctx fn var gen decl => .define ctx fn var gen (decl.map (fun d => (lower d.1, d.2)))
  | op => op

end PsModel.C12
