import PsModel.Model.C13
/-!
# C13 reference spec – what `task.unique` means, without any of the bookkeeping

One map `owner : name → task`, one liveness flag per task.  No reverse map, no reaper, no `our_tasks` set:

* `unique t k false` by a running pyscript task: `t` is the owner of `k` afterwards.
* `unique t k true`: if another task owns `k` the caller is halted for good (it never runs another segment) and
  ownership stays; otherwise as above.
* when a task ends, every name it owns becomes free – a task ends AFTER its done-callbacks: from the end of its body
  (`endBody`, which also ends a kill_me halt) to its end it owns what it owned and may claim more.
* tasks not started by pyscript never become owners.

(Who has to be *cancelled* is stated on the model – `Inv.displaced`, `C13_mutex` – the spec only says who owns.)
-/
namespace PsModel.C13

structure Sp (κ : Type) where
  started : Task → Bool
  alive   : Task → Bool
  pys     : Task → Bool          -- started by pyscript
  halted  : Task → Bool          -- terminated by kill_me, waiting for its end
  owner   : κ → Option Task

variable {κ : Type} [DecidableEq κ]

def Sp.init : Sp κ :=
  { started := fun _ => false, alive := fun _ => false, pys := fun _ => false, halted := fun _ => false,
    owner := fun _ => none }

def Sp.take (s : Sp κ) (t : Task) (k : κ) : Sp κ :=
  if s.pys t then { s with owner := upd s.owner k (some t) } else s

def Sp.unique (s : Sp κ) (t : Task) (k : κ) (km : Bool) : Sp κ :=
  if !(s.alive t && !s.halted t) then s else
  match s.owner k with
  | some o => if km = true ∧ o ≠ t then { s with halted := upd s.halted t true } else s.take t k
  | none => s.take t k

def Sp.step (s : Sp κ) : Op κ → Sp κ
  | .spawn t fg =>
    if s.started t then s else
    { s with started := upd s.started t true, alive := upd s.alive t true, pys := upd s.pys t (!fg) }
  | .unique t k km => s.unique t k km
  | .reap => s
  | .exit t =>
    if !s.alive t then s else
    { s with alive := upd s.alive t false, halted := upd s.halted t false,
             owner := fun k => if s.owner k = some t then none else s.owner k }
  | .decoNew t k km => if km && (s.owner k).isSome then s else s.unique t k false
  | .endBody t => if s.alive t then { s with halted := upd s.halted t false } else s   -- its done-callbacks run

def Sp.run (ops : List (Op κ)) : Sp κ := ops.foldl Sp.step Sp.init

end PsModel.C13
