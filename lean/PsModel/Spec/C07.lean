import PsModel.Model.C07
/-!
# C07 reference spec

* a `range` denotes the closed interval `[start, end]`, or – when the end precedes the start – everything outside the
  open gap `(end, start)`;
* a list of specifications admits a time iff (there is no positive one, or some positive one matches) and no
  negated one matches;
* an occurrence is accepted iff its trigger condition held, the `@state_active` value is truthy, the window admits
  the occurrence time, and NO earlier accepted occurrence lies less than `hold_off` before it (the documentation's
  "making the trigger inactive for that number of seconds immediately following each successful trigger");
* a direct call always runs and leaves no trace in the guards.

The spec keeps the whole list of accepted instants; the implementations keep one `last_trig_time`.
-/
namespace PsModel.C07
namespace Spec

/-- membership in a (possibly wrapping) closed range -/
def inRange (s e now : Time) : Prop := if s ≤ e then s ≤ now ∧ now ≤ e else s ≤ now ∨ now ≤ e

instance (s e now : Time) : Decidable (inRange s e now) := by unfold inRange; exact inferInstance

/-- does entry `a` (sign ignored) match at `now`?  `none`: its dates do not exist (the code raises) -/
def hit (P : Params) (now startup : Time) (a : ASpec) : Option Bool :=
  match a.kind with
  | .cron id => some (P.cronMatch id now)
  | .range s e =>
    match parseDT P s 0 now startup with
    | none => none
    | some st =>
      match parseDT P e 0 st.1 startup with
      | none => none
      | some en => some (decide (inRange st.1 en.1 now))

/-- all entries resolve -/
def resolves (P : Params) (now startup : Time) (specs : List ASpec) : Bool :=
  specs.all (fun a => (hit P now startup a).isSome)

def hitB (P : Params) (now startup : Time) (a : ASpec) : Bool := (hit P now startup a).getD false

/-- the window denoted by a list of specifications -/
def window (P : Params) (specs : List ASpec) (now startup : Time) : Bool :=
  let pos := specs.filter (fun a => !a.neg)
  let negs := specs.filter (fun a => a.neg)
  (pos.isEmpty || pos.any (hitB P now startup)) && negs.all (fun a => !hitB P now startup a)

/-- all guards except hold-off -/
def guardsOk (P : Params) (cfg : Cfg) (o : Occ) : Bool :=
  o.trigOk && (!cfg.stateActive || o.sa.truth) &&
    (!cfg.timeActive || (resolves P o.wall cfg.startup cfg.specs && window P cfg.specs o.wall cfg.startup))

def holdN (cfg : Cfg) : Nat := if cfg.timeActive then cfg.holdOff.getD 0 else 0

/-- no accepted occurrence within the last `hold_off` -/
def clear (cfg : Cfg) (accepted : List Nat) (t : Nat) : Bool := accepted.all (fun a => decide (a + holdN cfg ≤ t))

def accepts (P : Params) (cfg : Cfg) (accepted : List Nat) (o : Occ) : Bool :=
  guardsOk P cfg o && clear cfg accepted o.t

/-- one flag per event: did the function run?  `accepted` = instants of the occurrences accepted so far -/
def runs (P : Params) (cfg : Cfg) : List Ev → List Nat → List Bool
  | [], _ => []
  | .direct :: es, acc => true :: runs P cfg es acc
  | .occ o :: es, acc =>
    accepts P cfg acc o :: runs P cfg es (if accepts P cfg acc o then o.t :: acc else acc)

end Spec

/-- something actually happened: a trigger whose own condition held, or a direct call -/
def Ev.triggered : Ev → Bool
  | .direct => true
  | .occ o => o.trigOk

def Ev.isDirect : Ev → Bool
  | .direct => true
  | .occ _ => false

/-- the run flags of the trigger occurrences only -/
def occFlags : List Ev → List Bool → List Bool
  | .direct :: es, _ :: fs => occFlags es fs
  | .occ _ :: es, f :: fs => f :: occFlags es fs
  | _, _ => []

/-- the monotonic clock never goes back -/
def Mono : List Ev → Option Nat → Prop
  | [], _ => True
  | .direct :: es, lo => Mono es lo
  | .occ o :: es, lo => (match lo with | some l => l ≤ o.t | none => True) ∧ Mono es (some o.t)

end PsModel.C07
