import PsModel.Model.C04
/-!
# C04 reference spec – which state changes run a `@state_trigger` function

For each event of the history, in order: a run iff the event matches an any-change form of the decorator, or it changes
a watched name and the expression is truthy on the *spec environment* of that event (changed entity ↦ new value,
`.old` ↦ previous value, every other name ↦ its value in the sequentially consistent snapshot at that event,
undefined ↦ `None`).  No queues, no `notify_var_last`, no live reads.
-/
namespace PsModel.C04.Spec

/-- the value (state string, or existence) of the entity changed -/
def valueChanged (ev : Ev) : Prop := ev.new.map (·.state) ≠ ev.old.map (·.state)

/-- attribute `a` changed (a missing attribute reads as `None`) -/
def attrChanged (ev : Ev) (a : String) : Prop := getattr ev.new a ≠ getattr ev.old a

/-- some attribute changed -/
def anyAttrChanged (ev : Ev) : Prop := ∃ a, attrChanged ev a

theorem mem_keys_of_getattr {v : Option SVal} {a x : String} (h : getattr v a = some x) : a ∈ keys v := by
  cases v with
  | none => simp [getattr] at h
  | some s =>
    simp only [getattr] at h
    simp only [keys]
    generalize s.attrs = l at h
    induction l with
    | nil => simp [List.lookup] at h
    | cons p ps ih =>
      simp only [List.lookup] at h
      split at h
      · rename_i heq
        have : a = p.1 := by simpa using heq
        simp [this]
      · simp [ih h]

theorem anyAttrChanged_iff (ev : Ev) :
    anyAttrChanged ev ↔ (keys ev.new ++ keys ev.old).any (fun k => getattr ev.new k != getattr ev.old k) = true := by
  constructor
  · rintro ⟨a, ha⟩
    simp only [attrChanged] at ha
    simp only [List.any_eq_true, List.mem_append, bne_iff_ne, ne_eq]
    refine ⟨a, ?_, ha⟩
    cases hn : getattr ev.new a with
    | some x => exact Or.inl (mem_keys_of_getattr hn)
    | none =>
      cases ho : getattr ev.old a with
      | some y => exact Or.inr (mem_keys_of_getattr ho)
      | none => rw [hn, ho] at ha; exact absurd rfl ha
  · intro h
    simp only [List.any_eq_true, bne_iff_ne, ne_eq] at h
    obtain ⟨a, _, ha⟩ := h
    exact ⟨a, ha⟩

instance (ev : Ev) : Decidable (valueChanged ev) := by unfold valueChanged; exact inferInstance
instance (ev : Ev) (a : String) : Decidable (attrChanged ev a) := by unfold attrChanged; exact inferInstance
instance (ev : Ev) : Decidable (anyAttrChanged ev) := decidable_of_iff _ (anyAttrChanged_iff ev).symm

/-- the event matches the any-change form `n`: `d.e` (value), `d.e.attr` (that attribute), `d.e.*` (any attribute) -/
def matchesAny (ev : Ev) (n : Name) : Bool :=
  n.e == ev.e &&
    (match n.rest with
     | [] => decide (valueChanged ev)
     | [a] => if a == "*" then decide (anyAttrChanged ev) else decide (attrChanged ev a)
     | _ => false)

/-- the event changes the watched name `n`: `d.e` / `d.e.old` (value), `d.e.attr` (that attribute) -/
def changes (ev : Ev) (n : Name) : Bool :=
  n.e == ev.e &&
    (match n.rest with
     | [] => decide (valueChanged ev)
     | [a] => if a == "old" then decide (valueChanged ev) else decide (attrChanged ev a)
     | _ => false)

/-- the spec environment: `store` is the sequentially consistent snapshot right after the event -/
def envVal (store : Store) (ev : Ev) (n : Name) : Val :=
  if n.e = ev.e then
    match n.rest with
    | [] => .ofOpt ev.new
    | [a] => if a = "old" then .ofOpt ev.old else .ofAttr (getattr ev.new a)
    | [x, a] => if x = "old" then .ofAttr (getattr ev.old a) else .none
    | _ => .none
  else
    match n.rest with
    | [] => .ofOpt (store.get n.e)
    | [a] => .ofAttr (getattr (store.get n.e) a)
    | _ => .none

def env (c : STCfg) (store : Store) (ev : Ev) : Env := c.exprNames.map (fun n => (n, envVal store ev n))

def exprTrue (c : STCfg) (e : Env) : Bool :=
  match c.expr with
  | some f => f e
  | none => false

/-- the event is delivered at all only for entities the decorator watches (`watch=` overrides: "when and only when") -/
def anyMatch (c : STCfg) (ev : Ev) : Bool := c.subscribed ev.e && c.anyNames.any (matchesAny ev)

def watchedChange (c : STCfg) (ev : Ev) : Bool := c.ident.any (changes ev)

def qualifies (c : STCfg) (store : Store) (ev : Ev) : Bool :=
  anyMatch c ev || (watchedChange c ev && exprTrue c (env c store ev))

/-- the event an operation causes on the snapshot `st` (none for a re-set to the same value / removing nothing) -/
def eventOf (st : Store) (o : Op) : Option Ev :=
  if st.get o.e = o.new then none else some ⟨o.e, o.new, st.get o.e, o.ctx⟩

/-- the runs of one decorator over a history, starting from the snapshot `st` -/
def stRuns (c : STCfg) : Store → List Op → List Run
  | _, [] => []
  | st, o :: ops =>
    match eventOf st o with
    | none => stRuns c st ops
    | some ev =>
      (if qualifies c (st.put o.e o.new) ev then [mkRun c ev] else []) ++ stRuns c (st.put o.e o.new) ops

/-- the evaluations of the expression: exactly the watched changes that do not already match an any-change form -/
def stEvals (c : STCfg) : Store → List Op → List Env
  | _, [] => []
  | st, o :: ops =>
    match eventOf st o with
    | none => stEvals c st ops
    | some ev =>
      (if !anyMatch c ev && watchedChange c ev && c.expr.isSome then [env c (st.put o.e o.new) ev] else [])
        ++ stEvals c (st.put o.e o.new) ops

/-- the qualifying decorators of one event, in index (= subscription) order, each with its own kwargs -/
def roundRuns (cfgs : List STCfg) (store : Store) (ev : Ev) : List (Nat × Run) :=
  (List.range cfgs.length).filterMap (fun j =>
    match cfgs[j]? with
    | some c => if qualifies c store ev then some (j, mkRun c ev) else none
    | none => none)

/-- all runs of all decorators in event order (within one event: decorator order) -/
def log (cfgs : List STCfg) : Store → List Op → List (Nat × Run)
  | _, [] => []
  | st, o :: ops =>
    match eventOf st o with
    | none => log cfgs st ops
    | some ev => roundRuns cfgs (st.put o.e o.new) ev ++ log cfgs (st.put o.e o.new) ops

/-- the runs of a function carrying several decorators: the entries of its decorators, in event order -/
def funcRuns (cfgs : List STCfg) (f : Nat) (st : Store) (ops : List Op) : List Run :=
  ((log cfgs st ops).filter (ofFunc cfgs f)).map (·.2)

end PsModel.C04.Spec
