import PsModel.Model.C03Cells
/-!
# C03 reference (d) – Python's cells

Reference semantics of the statement language of `Model/C03Cells.lean`, in the environment model:

* a function object is its definition together with the environment of the activation that executed the `def`
  (`name ↦ cell`), minus the names that activation's function declares `global` (a global declaration cuts the chain);
* a call creates ONE cell per (activation, variable): the cell of the local `x` of activation `a` is the pair `(a, x)`,
  shared by reference by every inner function created in that activation; the activation's environment is its own cells
  on top of the function object's environment;
* a name of a function is its own local (parameter or bound by an assignment-like statement of the body, not declared
  `global` / `nonlocal`), else the enclosing binding found in the environment, else a module global;
* reading an unbound cell or local is a NameError-family error; `del` unbinds (NameError when unbound); the end of an
  `except … as x` clause unbinds `x`; a comprehension evaluates its iterable in the enclosing scope and runs its element
  expression in a scope of its own that contains only the loop variable.

CPython allocates a cell only for a local that an inner function actually captures and keeps the other locals in the
frame.  The reference makes the coarser (unobservable) choice "every local of a function that contains a nested def is a
cell, locals of a function without nested def live in the frame (`fast`)": a cell nobody else holds is just a slot.
-/
namespace PsModel.C03.Cells
namespace Py

mutual
/-- names bound by the statements of a body (not crossing a nested def) -/
def boundS : Stmt → List String
  | .assign x _ => [x]
  | .aug x _ => [x]
  | .del x => [x]
  | .defn g _ _ => [g]
  | .handler x _ body => x :: boundL body
  | .tryNE b h => boundL b ++ boundL h
  | .ifT _ body => boundL body
  | _ => []
def boundL : List Stmt → List String
  | [] => []
  | s :: ss => boundS s ++ boundL ss
end

mutual
def hasDefS : Stmt → Bool
  | .defn _ _ _ => true
  | .handler _ _ body => hasDefL body
  | .tryNE b h => hasDefL b || hasDefL h
  | .ifT _ body => hasDefL body
  | _ => false
def hasDefL : List Stmt → Bool
  | [] => false
  | s :: ss => hasDefS s || hasDefL ss
end

/-- parameters and names bound in the body -/
def bound (fd : FnDef) : List String := fd.params ++ boundL fd.body

/-- the local variables of a function -/
def isLocal (fd : FnDef) (x : String) : Bool :=
  (bound fd).contains x && !fd.globals.contains x && !fd.nonlocals.contains x

structure Clos where
  fd : FnDef
  env : String → Option (Nat × String)

structure Frame where
  fd : FnDef
  env : String → Option (Nat × String)     -- the cells visible in this activation
  fast : String → Option Val               -- variables kept in the frame

def read (f : Frame) (g : Glob) (s : Store) (x : String) : Except Err Val :=
  if f.fd.globals.contains x then
    match g x with
    | some v => .ok v
    | none => .error .name
  else match f.env x with
    | some (a, y) => (match s a y with
      | some v => .ok v
      | none => .error .name)
    | none => match f.fast x with
      | some v => .ok v
      | none =>
        -- a name bound in the function is never looked up outside it (for a name declared nonlocal the compiler has
        -- made sure that a cell exists, so that case does not arrive here)
        if (bound f.fd).contains x then .error .name
        else match g x with
          | some v => .ok v
          | none => .error .name

def write (f : Frame) (g : Glob) (s : Store) (x : String) (v : Val) : Frame × Glob × Store :=
  if f.fd.globals.contains x then (f, upd g x (some v), s)
  else match f.env x with
    | some (a, y) => (f, g, s.set a y (some v))
    | none => ({ f with fast := upd f.fast x (some v) }, g, s)

def del (f : Frame) (g : Glob) (s : Store) (x : String) : Except Err (Frame × Glob × Store) :=
  if f.fd.globals.contains x then
    match g x with
    | some _ => .ok (f, upd g x none, s)
    | none => .error .name
  else match f.env x with
    | some (a, y) => (match s a y with
      | some _ => .ok (f, g, s.set a y none)
      | none => .error .name)
    | none => match f.fast x with
      | some _ => .ok ({ f with fast := upd f.fast x none }, g, s)
      | none => .error .name

def unbind (f : Frame) (g : Glob) (s : Store) (x : String) : Frame × Glob × Store :=
  if f.fd.globals.contains x then (f, upd g x none, s)
  else match f.env x with
    | some (a, y) => (f, g, s.set a y none)
    | none => ({ f with fast := upd f.fast x none }, g, s)

/-- the element expression sees the loop variable and, for every other name, the enclosing scope -/
def compElts (rd : String → Except Err Val) (x : String) (elt : SExpr) : List Val → Except Err (List Val)
  | [] => .ok []
  | v :: vs =>
    match evalSWith (fun y => if y = x then .ok v else rd y) elt with
    | .error e => .error e
    | .ok r => match compElts rd x elt vs with
      | .ok rs => .ok (r :: rs)
      | .error e => .error e

def comp (f : Frame) (g : Glob) (s : Store) (x : String) (its : List SExpr) (elt : SExpr) :
    Frame × Glob × Except Err (List Val) :=
  match evalSs (read f g s) its with
  | .error e => (f, g, .error e)
  | .ok vs => (f, g, compElts (read f g s) x elt vs)

def mkClos (encl : Option Frame) (fd : FnDef) : Clos :=
  { fd := fd,
    env := match encl with
      | none => fun _ => none
      | some f => fun x => if f.fd.globals.contains x then none else f.env x }

def enter (cl : Clos) (a : Nat) (vs : List Val) (s : Store) : Option (Frame × Store) :=
  if vs.length ≠ cl.fd.params.length then none
  else
    let arg := zipArgs cl.fd.params vs
    let cells := hasDefL cl.fd.body
    some ({ fd := cl.fd,
            env := fun x => if isLocal cl.fd x then (if cells then some (a, x) else none) else cl.env x,
            fast := fun x => if cells then none else arg x },
          fun b y => if b = a then (if cells && isLocal cl.fd y then arg y else none) else s b y)

def disc : Disc Frame Clos :=
  { read := read, write := write, del := del, unbind := unbind, comp := comp, mkClos := mkClos, enter := enter,
    body := fun cl => cl.fd.body }

end Py
end PsModel.C03.Cells
