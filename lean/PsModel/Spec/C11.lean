import PsModel.Model.C11
/-!
# C11 reference semantics – lexical globals, no evaluator pointers

The obviously-right reading of Python's rule: a function value carries the module whose globals it uses; running
its body means running it with *that* module as `g`, fresh locals, and the caller's environment is simply still
there afterwards because it never was touched – there is nothing to save, switch or restore.  The environment
(`g`, the locals, the `global` declarations) is an argument of the evaluator, not mutable state.

Import resolution (`importLookup`, `loadBegin`, `loadCommit`) is shared with the model: the reference differs from
the model only in how name-resolution state is handled.  `set_global_ctx` has no lexical meaning and is not part of
the reference (it raises); theorems relating model and reference are about programs that do not execute it.
-/
namespace PsModel.C11

structure Env where
  g : Nat                          -- the module whose globals are in scope
  locals : Option Table            -- none at module level
  gnames : Option (List String)    -- `global` declarations of the running function
deriving Repr, Inhabited

structure PSt where
  h : Heap
  env : Env
deriving Inhabited

namespace Py

def isGlobalName (env : Env) (x : String) : Bool :=
  match env.gnames with
  | some g => g.contains x
  | none => false

def readSym (s : PSt) (x : String) : Option Val :=
  match s.env.locals with
  | some t => tget t x
  | none => tget (s.h.tab s.env.g) x

def writeSym (s : PSt) (x : String) (v : Val) : PSt :=
  match s.env.locals with
  | some t => { s with env := { s.env with locals := some (tset t x v) } }
  | none => { s with h := s.h.setKey s.env.g x v }

def lookupVar (s : PSt) (x : String) : Except Exc Val :=
  if isGlobalName s.env x then
    match tget (s.h.tab s.env.g) x with
    | some v => .ok v
    | none => .error .name
  else
    match readSym s x with
    | some v => .ok v
    | none =>
      match tget (s.h.tab s.env.g) x with
      | some v => .ok v
      | none => .error .name

def assignVar (s : PSt) (x : String) (v : Val) : PSt :=
  if isGlobalName s.env x then { s with h := s.h.setKey s.env.g x v }
  else writeSym s x v

def evalAtom (s : PSt) : Atom → Except Exc Val
  | .lit n => .ok (.int n)
  | .var x => lookupVar s x
  | .attr x a =>
    match lookupVar s x with
    | .ok v => getAttr s.h v a
    | .error e => .error e

def evalAtoms (s : PSt) : List Atom → Except Exc (List Val)
  | [] => .ok []
  | a :: r =>
    match evalAtom s a with
    | .error e => .error e
    | .ok v =>
      match evalAtoms s r with
      | .error e => .error e
      | .ok vs => .ok (v :: vs)

def bindFrom (s : PSt) (c : Nat) : List (String × Option String) → PSt × Option Exc
  | [] => (s, none)
  | (nm, asn) :: r =>
    match tget (s.h.tab c) nm with
    | none => (s, some .attr)
    | some v => bindFrom (writeSym s (asn.getD nm) v) c r

def bindStar (s : PSt) : Table → PSt
  | [] => s
  | (k, v) :: r => bindStar (if isPublic k then writeSym s k v else s) r

def bindStarC (cfg : Cfg) (s : PSt) (c : Nat) : PSt × Option Exc :=
  match starNames cfg (s.h.tab c) with
  | some l => bindFrom s c (l.map (fun n => (n, none)))
  | none => (bindStar s (s.h.tab c), none)

structure PRes where
  s : PSt
  out : Out
deriving Inhabited

structure PResV where
  s : PSt
  val : Except Exc Val
deriving Inhabited

structure PResM where
  s : PSt
  val : Except Exc (Option Nat)
deriving Inhabited

mutual

def execStmt (W : World) : Nat → PSt → Stmt → PRes
  | 0, s, _ => ⟨s, .exc .fuel⟩
  | n+1, s, stmt =>
    match stmt with
    | .assign x a =>
      match evalAtom s a with
      | .ok v => ⟨assignVar s x v, .norm⟩
      | .error e => ⟨s, .exc e⟩
    | .add x a b =>
      match evalAtom s a with
      | .error e => ⟨s, .exc e⟩
      | .ok va =>
        match evalAtom s b with
        | .error e => ⟨s, .exc e⟩
        | .ok vb =>
          match addVals va vb with
          | .ok v => ⟨assignVar s x v, .norm⟩
          | .error e => ⟨s, .exc e⟩
    | .setattr m a v =>
      match evalAtom s v with
      | .error e => ⟨s, .exc e⟩
      | .ok w =>
        match lookupVar s m with
        | .error e => ⟨s, .exc e⟩
        | .ok (.mod c) => ⟨{ s with h := s.h.setKey c a w }, .norm⟩
        | .ok _ => ⟨s, .exc .attr⟩
    | .call x f args =>
      match evalAtom s f with
      | .error e => ⟨s, .exc e⟩
      | .ok fv =>
        match evalAtoms s args with
        | .error e => ⟨s, .exc e⟩
        | .ok vs =>
          let r := callFn W n s fv vs
          match r.val with
          | .ok v => ⟨assignVar r.s x v, .norm⟩
          | .error e => ⟨r.s, .exc e⟩
    | .spawn _ f args =>
      match evalAtom s f with
      | .error e => ⟨s, .exc e⟩
      | .ok fv =>
        match evalAtoms s args with
        | .error e => ⟨s, .exc e⟩
        | .ok vs =>
          let r := callFn W n s fv vs
          ⟨r.s, .norm⟩
    | .defn x fid => ⟨assignVar s x (.fn s.env.g fid), .norm⟩
    | .ret a =>
      match evalAtom s a with
      | .ok v => ⟨s, .ret v⟩
      | .error e => ⟨s, .exc e⟩
    | .raise k => ⟨s, .exc (.user k)⟩
    | .try_ body handler =>
      let r := execBlock W n s body
      match r.out with
      | .exc e => if e = .fuel then r else execBlock W n r.s handler
      | _ => r
    | .import_ m asn =>
      let r := importMod W n s m 0
      match r.val with
      | .error e => ⟨r.s, .exc e⟩
      | .ok none => ⟨r.s, .exc .notFound⟩
      | .ok (some c) => ⟨writeSym r.s (asn.getD (dotted m)) (.mod c), .norm⟩
    | .fromDot level nm asn =>
      let r := importMod W n s [nm] level
      match r.val with
      | .error e => ⟨r.s, .exc e⟩
      | .ok none => ⟨r.s, .exc .notFound⟩
      | .ok (some c) => ⟨writeSym r.s (asn.getD nm) (.mod c), .norm⟩
    | .from_ m level names =>
      let r := importMod W n s m level
      match r.val with
      | .error e => ⟨r.s, .exc e⟩
      | .ok none => ⟨r.s, .exc .notFound⟩
      | .ok (some c) =>
        match bindFrom r.s c names with
        | (s', none) => ⟨s', .norm⟩
        | (s', some e) => ⟨s', .exc e⟩
    | .fromStar m level =>
      let r := importMod W n s m level
      match r.val with
      | .error e => ⟨r.s, .exc e⟩
      | .ok none => ⟨r.s, .exc .notFound⟩
      | .ok (some c) =>
        match bindStarC W.cfg r.s c with
        | (s', none) => ⟨s', .norm⟩
        | (s', some e) => ⟨s', .exc e⟩
    | .setctx _ => ⟨s, .exc .name⟩        -- not part of the reference
    | .setAll l => ⟨assignVar s "__all__" (.names l), .norm⟩

def execBlock (W : World) : Nat → PSt → Block → PRes
  | 0, s, _ => ⟨s, .exc .fuel⟩
  | _+1, s, [] => ⟨s, .norm⟩
  | n+1, s, stmt :: rest =>
    let r := execStmt W n s stmt
    match r.out with
    | .norm => execBlock W n r.s rest
    | _ => r

/-- the callee runs with ITS module as `g`; the caller's environment is untouched by construction -/
def callFn (W : World) : Nat → PSt → Val → List Val → PResV
  | 0, s, _, _ => ⟨s, .error .fuel⟩
  | n+1, s, fv, vs =>
    match fv with
    | .fn c fid =>
      match W.funcs[fid]? with
      | none => ⟨s, .error .type⟩
      | some fd =>
        match bindArgs fd.params vs with
        | none => ⟨s, .error .type⟩
        | some locals =>
          let r := execBlock W n ⟨s.h, { g := c, locals := some locals, gnames := some fd.globals }⟩ fd.body
          ⟨⟨r.s.h, s.env⟩, outOfBody r.out⟩
    | _ => ⟨s, .error .type⟩

def importMod (W : World) : Nat → PSt → Name → Nat → PResM
  | 0, s, _, _ => ⟨s, .error .fuel⟩
  | n+1, s, m, level =>
    match importLookup W s.h s.env.g m level with
    | .err e => ⟨s, .error e⟩
    | .found c => ⟨s, .ok (some c)⟩
    | .missing => ⟨s, .ok none⟩
    | .load cd body =>
      let c := s.h.ctxs.length
      let r := execBlock W n ⟨loadBegin s.h cd, { g := c, locals := none, gnames := none }⟩ body
      match r.out with
      | .exc e => ⟨⟨loadAbort r.s.h, s.env⟩, .error e⟩
      | _ => ⟨⟨loadCommit r.s.h cd c, s.env⟩, .ok (some c)⟩

end

end Py

/-- the reference environment an evaluator's pointers stand for -/
def envOf (p : Ptrs) : Env :=
  { g := p.gst,
    locals := match p.sym with
      | .loc t => some t
      | .glob _ => none,
    gnames := p.cur }

def abs (st : St) : PSt := ⟨st.h, envOf st.p⟩

end PsModel.C11
