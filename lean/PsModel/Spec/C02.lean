import PsModel.Model.C02
/-!
# C02 reference semantics – the Python language reference as big-step outcome rules

`Out` is the usual completion record: normal / break / continue / return v / raise e.  `with a, b: body` is
`with a: with b: body` (language reference §8.5); `__exit__` sees an exception only until an inner manager
suppressed it; a manager whose `__enter__` raised is not exited; a failing store to the `as` target is seen by `__exit__`.
Exceptions of every class – `BaseException`-only ones included – are offered to the `except` clauses (whether a clause
matches is the subclass relation `sub`: `except Exception` does not match them, `except:` / `except BaseException` do),
are handed to `__exit__`, and run the `finally` clause.
-/
namespace PsModel.C02

inductive Out where
  | normal | brk | cont | ret (v : Nat) | raise (e : Exc)
deriving Repr, DecidableEq

namespace Py

/-- `finally`: an abrupt completion of the final body replaces the pending one -/
def finish (pending : Out) (fin : Out × World) : Out × World :=
  match fin with
  | (.normal, w) => (pending, w)
  | r => r

def handlingIn (pending : Out) (h : Option Exc) : Option Exc :=
  match pending with
  | .raise e => some e
  | _ => h

/-- leaving one manager's block with outcome `r` -/
def exit1 (m : WItem) (r : Out × World) : Out × World :=
  match r with
  | (.raise e, w) =>
    let w' := w.emit (.exit m.id (some e.cls))
    match m.exitRaises with
    | some c => (.raise { cls := c }, w')                 -- an exception raised by `__exit__` replaces the pending one
    | none => if m.suppress then (.normal, w') else (.raise e, w')
  | (o, w) =>
    let w' := w.emit (.exit m.id none)
    match m.exitRaises with
    | some c => (.raise { cls := c }, w')
    | none => (o, w')

mutual
def exec (sub : Nat → Nat → Bool) : Nat → Option Exc → Stmt → World → Out × World
  | 0, _, _, w => (.normal, w)
  | _+1, _, .tick i, w => (.normal, w.emit (.tick i))
  | _+1, _, .brk, w => (.brk, w)
  | _+1, _, .cont, w => (.cont, w)
  | _+1, _, .ret v, w => (.ret v, w)
  | _+1, _, .raise c cause, w => (.raise { cls := c, cause := cause }, w)
  | _+1, h, .reraise, w =>
    match h with
    | some e => (.raise e, w)
    | none => (.raise { cls := runtimeError }, w)
  | _+1, _, .assert_ i, w =>
    let (c, w1) := w.ask i
    if c ≠ 0 then (.normal, w1) else (.raise { cls := assertionError }, w1)
  | _+1, _, .suspend i, w =>
    match w.suspend i with
    | (some e, w1) => (.raise e, w1)                      -- cancelled while suspended: CancelledError raised here
    | (none, w1) => (.normal, w1)
  | n+1, h, .ite i b o, w =>
    let (c, w1) := w.ask i
    if c ≠ 0 then block sub n h b w1 else block sub n h o w1
  | n+1, h, .while_ i b o, w => whileLoop sub n h i b o w
  | n+1, h, .for_ i b o, w =>
    let (k, w1) := w.ask i
    forLoop sub n h k b o w1
  | n+1, h, .try_ b hs o f, w =>
    let r1 := block sub n h b w
    let r2 : Out × World :=
      match r1 with
      | (.raise e, w1) =>
        match selectHandler sub e hs w1 with
        | (.found hb, w2) => block sub n (some e) hb w2
        | (.notFound, w2) => (.raise e, w2)
        | (.raised e2, w2) => (.raise e2, w2)
      | (.normal, w1) => block sub n h o w1
      | r => r
    finish r2.1 (block sub n (handlingIn r2.1 h) f r2.2)
  | n+1, h, .with_ items b, w =>
    match items with
    | [] => block sub n h b w
    | m :: ms =>
      let w1 := (w.emit (.init m.id)).emit (.enter m.id)
      match m.enterRaises with
      | some c => (.raise { cls := c }, w1)
      | none =>
        -- language reference §8.5: the assignment to the target is part of the suite guarded by `__exit__`
        exit1 m (match m.bindRaises with
          | some c => (.raise { cls := c }, w1)
          | none =>
            match ms with
            | [] => block sub n h b w1
            | _ :: _ => exec sub n h (.with_ ms b) w1)

def block (sub : Nat → Nat → Bool) : Nat → Option Exc → List Stmt → World → Out × World
  | 0, _, _, w => (.normal, w)
  | _+1, _, [], w => (.normal, w)
  | n+1, h, s :: ss, w =>
    match exec sub n h s w with
    | (.normal, w') => block sub n h ss w'
    | r => r

def whileLoop (sub : Nat → Nat → Bool) : Nat → Option Exc → Nat → List Stmt → List Stmt → World → Out × World
  | 0, _, _, _, _, w => (.normal, w)
  | n+1, h, i, b, o, w =>
    let (c, w1) := w.ask i
    if c ≠ 0 then
      match block sub n h b w1 with
      | (.normal, w') => whileLoop sub n h i b o w'
      | (.cont, w') => whileLoop sub n h i b o w'
      | (.brk, w') => (.normal, w')
      | r => r
    else block sub n h o w1

def forLoop (sub : Nat → Nat → Bool) : Nat → Option Exc → Nat → List Stmt → List Stmt → World → Out × World
  | 0, _, _, _, _, w => (.normal, w)
  | n+1, h, 0, _, o, w => block sub n h o w
  | n+1, h, k+1, b, o, w =>
    match block sub n h b w with
    | (.normal, w') => forLoop sub n h k b o w'
    | (.cont, w') => forLoop sub n h k b o w'
    | (.brk, w') => (.normal, w')
    | r => r
end

/-- result of calling a function whose body is `ss`; `none` on the left = a jump reached the function boundary
(CPython's compiler rejects such programs: 'break' outside loop) -/
def callBody (sub : Nat → Nat → Bool) (n : Nat) : List Stmt → World → Option (Except Exc (Option Nat)) × World
  | [], w => (some (.ok none), w)
  | s :: ss, w =>
    match exec sub n none s w with
    | (.normal, w') => callBody sub n ss w'
    | (.ret v, w') => (some (.ok (some v)), w')
    | (.raise e, w') => (some (.error e), w')
    | (_, w') => (none, w')

end Py

def Marker.toOut : Marker → Out
  | .brk => .brk | .cont => .cont | .ret v => .ret v

def Res.toOut : Res → Out
  | .ok none => .normal
  | .ok (some m) => m.toOut
  | .exc e => .raise e

def lift (r : Res × World) : Out × World := (r.1.toOut, r.2)

/-! ### a function call returns the value of the `return` statement that ITS activation executed last -/

structure RetSpec where
  last : List (Nat × Nat) := []            -- activation ↦ value of the return statement it executed last
  out : List (Nat × Option Nat) := []

def RetSpec.step (t : RetSpec) : MEv → RetSpec
  | .ret a _ v => { t with last := (a, v) :: t.last }
  | .take a => { t with out := t.out ++ [(a, t.last.lookup a)] }

def RetSpec.run (evs : List MEv) : List (Nat × Option Nat) := (evs.foldl RetSpec.step {}).out

end PsModel.C02
