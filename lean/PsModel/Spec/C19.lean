import PsModel.Model.C19
/-! Reference decoder over the *unfragmented* byte string: what a ZMTP peer means by the stream. -/
namespace PsModel.C19
open PsModel.Gen

/-- take exactly n bytes or fail -/
def takeN (n : Nat) (bs : Bytes) : Option (Bytes × Bytes) :=
  if n ≤ bs.length then some (bs.take n, bs.drop n) else none

def recvFlat : Nat → List Bytes → Bytes → Except RecvErr (List Bytes × Bytes)
  | 0, _, _ => .error .eof
  | fuel+1, parts, bs =>
    match takeN 1 bs with
    | none => .error .eof
    | some (c, b1) =>
      let cmd := c.headD 0
      let lenRead := if cmd / recvLongMask % 2 = 1 then takeN recvLongLenBytes b1 else takeN 1 b1
      match lenRead with
      | none => .error .eof
      | some (lb, b2) =>
        match takeN (unbe lb) b2 with
        | none => .error .eof
        | some (body, b3) =>
          if cmd / recvCmdMask % 2 = 1 then
            if cmdOk body then recvFlat fuel parts b3 else .error .badCommand
          else
            let parts' := parts ++ [body]
            if recvLastFlags.contains cmd then .ok (parts', b3) else recvFlat fuel parts' b3

/-- result of a receive with the remaining stream flattened (what later receives will see) -/
def flatRes (r : Except RecvErr (List Bytes × List Bytes)) : Except RecvErr (List Bytes × Bytes) :=
  match r with
  | .ok (ps, cs) => .ok (ps, cs.flatten)
  | .error e => .error e

end PsModel.C19
