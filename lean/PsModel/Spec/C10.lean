import PsModel.Model.C10
/-!
# C10 – reference specification (docs/reference.rst, "Configuration" file list and "Reloading Scripts")

Short, declarative definitions the theorems of `Props/C10.lean` relate the model to.  The spec shares only the
*data types* (`File`, `Entry`, `Ctx`) and the change test `differs` with the model.
-/
namespace PsModel.C10.Spec
open PsModel.C10

/-! ## documented context names -/

/-- `x.py ↦ file.x`; below `scripts`, `apps`, `modules`: path with `/` replaced by `.`, a trailing `/__init__`
(package form) dropped -/
def docName (p : Path) : Name :=
  if p.length = 1 then "file" :: p
  else if p.getLast? = some "__init__" then p.dropLast else p

/-- the files that are auto-loaded: top level, anything below `scripts`, and `apps/<a>.py` / `apps/<a>/__init__.py`
for configured `a` -/
def isAutoPath (apps : AppsCfg) (p : Path) : Bool :=
  match p with
  | [_] => true
  | "scripts" :: _ :: _ => true
  | ["apps", a] => (apps.lookup a).isSome
  | ["apps", a, "__init__"] => (apps.lookup a).isSome
  | _ => false

/-- files pyscript knows about at all (can be auto-loaded or imported): not "commented", and at a documented place -/
def isVisible (apps : AppsCfg) (p : Path) : Bool :=
  !isCommented p &&
  match p with
  | [_] => true
  | "scripts" :: _ :: _ => true
  | ["apps", a] => a != "__init__" && (apps.lookup a).isSome
  | "apps" :: _ :: _ :: _ => true
  | "modules" :: _ :: _ => true
  | _ => false

/-! ## what a default reload must discard -/

/-- the file of a loaded context is gone (deleted, "commented", app no longer configured), or its source,
modification time or app configuration differs from what the context was loaded with -/
def Changed (ents : List Entry) (c : Ctx) : Prop :=
  findEntry ents c.name = none ∨ ∃ e, findEntry ents c.name = some e ∧ differs c e = true

/-- member of an app or of a module (package or single file) -/
def inPkg (n : Name) : Bool := isUnder "apps" n || isUnder "modules" n

/-- `Disc loaded ents n`: the loaded context `n` must be discarded by a default reload.
* its own file / mtime / configuration changed;
* it belongs to an app or module package that contains a discarded context or a new auto-loaded file;
* it imports a member of a package that contains a discarded context (hence, transitively, everything that
  imports a changed module). -/
inductive Disc (loaded : List Ctx) (ents : List Entry) : Name → Prop where
  | changed {c : Ctx} : c ∈ loaded → Changed ents c → Disc loaded ents c.name
  | sibling {c : Ctx} {d : Name} : c ∈ loaded → inPkg c.name = true → root2 c.name = root2 d →
      Disc loaded ents d → Disc loaded ents c.name
  | siblingNew {c : Ctx} {e : Entry} : c ∈ loaded → inPkg c.name = true → e ∈ ents → findCtx loaded e.name = none →
      e.autoload = true → root2 c.name = root2 e.name → Disc loaded ents c.name
  | importer {c : Ctx} {i d : Name} : c ∈ loaded → i ∈ c.imports → root2 i = root2 d →
      Disc loaded ents d → Disc loaded ents c.name

/-! executable rendering of `Disc` (least fixpoint by iteration), printed by the driver as the spec column -/

def changedB (ents : List Entry) (c : Ctx) : Bool :=
  match findEntry ents c.name with
  | none => true
  | some e => differs c e

def siblingB (D : List Name) (c : Ctx) : Bool := inPkg c.name && D.any (fun d => root2 c.name == root2 d)

def siblingNewB (loaded : List Ctx) (ents : List Entry) (c : Ctx) : Bool :=
  inPkg c.name && ents.any (fun e => (findCtx loaded e.name).isNone && e.autoload && root2 c.name == root2 e.name)

def importerB (D : List Name) (c : Ctx) : Bool := c.imports.any (fun i => D.any (fun d => root2 i == root2 d))

def discStep (loaded : List Ctx) (ents : List Entry) (D : List Name) : List Name :=
  (loaded.filter (fun c => changedB ents c || siblingB D c || siblingNewB loaded ents c || importerB D c)).map (·.name)

def iter (f : List Name → List Name) : Nat → List Name → List Name
  | 0, D => D
  | k + 1, D => iter f k (f D)

/-- `|loaded| + 1` rounds reach the fixpoint (each productive round adds a context) -/
def discardedList (loaded : List Ctx) (ents : List Entry) : List Name :=
  iter (discStep loaded ents) (loaded.length + 1) []

/-- the iteration has stabilised -/
def stable (loaded : List Ctx) (ents : List Entry) (D : List Name) : Bool :=
  (discStep loaded ents D).all (fun n => D.contains n)

/-! ## `reload(name)`: "that is the one file considered to be changed by reload, and other changes are ignored …
additional files might still be reloaded too (all other files in the module or app, and any modules, apps or scripts
that import a module if `global_ctx` was set to a module)" -/

/-- transitive import relation between loaded contexts (`Reach cs a b`: `a` imports `b` through loaded contexts) -/
inductive Reach (cs : List Ctx) : Name → Name → Prop where
  | direct {n : Name} {c : Ctx} {i : Name} : findCtx cs n = some c → i ∈ c.imports → Reach cs n i
  | step {n : Name} {c : Ctx} {i j : Name} : findCtx cs n = some c → i ∈ c.imports → Reach cs i j → Reach cs n j

/-- what `reload(n)` may discard besides `n` itself -/
inductive DiscOnly (loaded : List Ctx) (n : Name) : Name → Prop where
  | pkg {m : Name} : inPkg n = true → root2 m = root2 n → DiscOnly loaded n m
  | importer {m x : Name} : isUnder "modules" n = true → Reach loaded m x → root2 x = root2 n → DiscOnly loaded n m
  | importerPkg {m d x : Name} : isUnder "modules" n = true → Reach loaded d x → root2 x = root2 n →
      inPkg d = true → root2 m = root2 d → DiscOnly loaded n m

/-! ## what must be loaded afterwards -/

/-- every context runs the source that the files now dictate for its name -/
def Current (ents : List Entry) (c : Ctx) : Prop :=
  ∃ e, findEntry ents c.name = some e ∧ c.src = e.src ∧ c.mtime = e.mtime

/-- the import graph of the loaded contexts has no cycle (witnessed by a rank that decreases along imports) -/
def Acyclic (cs : List Ctx) (rank : Name → Nat) : Prop :=
  ∀ n c, findCtx cs n = some c → ∀ i ∈ c.imports, rank i < rank n

end PsModel.C10.Spec
