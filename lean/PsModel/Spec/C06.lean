import PsModel.Model.C06
/-!
# C06 reference spec – what a time specification denotes, and "the next trigger time"

`denotes… : Int → Prop` is the set of instants a specification stands for (documentation, `docs/reference.rst`):
* `once(now ± off)` – the single instant start-up time ± offset;
* `once(Y/M/D time ± off)` – that single instant;
* `once(time ± off)` – every day at that time;
* `once(weekday time ± off)` – every such weekday at that time;
* `once(M/D time ± off)` – every year on that date at that time;
* `period(start, interval)` – `start + n·interval`, `n ≥ 0` (a time-only start whose daily re-anchoring is
  self-consistent – start < interval, interval divides a day – denotes one progression over all days);
* `period(start, interval, end)` with dated ends – the same, not beyond `end`.

`IsNext D now r`: `r` is the least instant of `D` strictly after `now`, or `none` when there is none.  That is what the
property demands of `timer_trigger_next` (start-up instant aside).
-/
namespace PsModel.C06
open PsModel.C07

/-- `r` is the earliest instant of `D` strictly after `now` (`none`: there is no such instant) -/
def IsNext (D : Int → Prop) (now : Int) : Option Int → Prop
  | some t => D t ∧ now < t ∧ ∀ t', D t' → now < t' → t ≤ t'
  | none => ∀ t', D t' → ¬ now < t'

namespace Spec

/-- time of day of the non-astronomical time forms, in µs -/
def fixedTod : TimeSpec → Option Int
  | .hms h m us => some (us + usMin * (m + 60 * h))
  | .noon => some (12 * usHour)
  | .midnight => some 0
  | .none => some 0
  | .sunrise => none
  | .sunset => none

/-- every day at time-of-day-plus-offset `c` -/
def daily (c : Int) (t : Int) : Prop := ∃ day : Int, t = midnight day + c

/-- every weekday `k` at `c` -/
def weekly (k c : Int) (t : Int) : Prop := ∃ day : Int, weekday day = k ∧ t = midnight day + c

/-- every year on month `m`, day `d` at `c` -/
def yearly (m d c : Int) (t : Int) : Prop := ∃ y : Int, validDate y m d = true ∧ t = midnight (daysFromCivil y m d) + c

/-- a single instant -/
def single (a : Int) (t : Int) : Prop := t = a

/-- `start + n·per`, `n = 0, 1, 2, …` -/
def progression (start per : Int) (t : Int) : Prop := ∃ n : Nat, t = start + n * per

/-- the same, not beyond `stop` -/
def progressionTo (start per stop : Int) (t : Int) : Prop := ∃ n : Nat, t = start + n * per ∧ t ≤ stop

/-- one progression over all days: `s + n·per` for every integer `n` (when `per` divides a day, every day's progression
    started at time of day `s` is part of it) -/
def dailyProgression (s per : Int) (t : Int) : Prop := ∃ n : Int, t = s + n * per

end Spec

/-- a list of instants of `D`, strictly increasing, with no instant of `D` strictly between neighbours:
"once per denoted instant, none skipped, none repeated" -/
def Succs (D : Int → Prop) : List Int → Prop
  | [] => True
  | [a] => D a
  | a :: b :: rest => D a ∧ a < b ∧ (∀ t', D t' → ¬ (a < t' ∧ t' < b)) ∧ Succs D (b :: rest)

/-- what the arguments of `@time_trigger` ask for: a run at definition iff there is a `"startup"` entry or the decorator
    has no arguments at all, a run at removal iff there is a `"shutdown"` entry, and the time specifications in order -/
def wantsStartup : Option (List TArg) → Bool
  | none => true
  | some args => args.contains .startup

def wantsShutdown : Option (List TArg) → Bool
  | none => false
  | some args => args.contains .shutdown

/-- the float quotient is the mathematical floor -/
def ExactDiv (P : Params) : Prop := ∀ a per : Int, 0 < per → P.fdiv a per = a / per

/-- nothing is assumed about floats unless the (pre-fix) float tick computation is switched on -/
def FloatOK (F : TFlags) (P : Params) : Prop := F.floatTick = true → ExactDiv P

theorem FloatOK_current (P : Params) : FloatOK TFlags.current P := fun h => by simp [TFlags.current] at h

/-- `croniter.get_next` moves strictly forward -/
def CronForward (P : Params) : Prop := ∀ id t, t < P.cronNext id t

/-- the minimum of the answers of the single specifications -/
def minOpt : Option Int → Option Int → Option Int
  | none, b => b
  | a, none => a
  | some a, some b => if b < a then some b else some a

end PsModel.C06
