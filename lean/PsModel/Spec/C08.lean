import PsModel.Model.C08
/-!
# C08 – reference specification

"Every occurrence whose type/topic/id matches the trigger and whose data makes the optional filter expression truthy
starts exactly one run with trigger_type, the type and the data as keyword arguments (plus the decorator's kwargs);
other occurrences start none; nothing is lost, duplicated or reordered."
-/
namespace PsModel.C08
namespace Spec

/-- does the occurrence qualify for the decorator?  The filter sees the occurrence's own keywords. -/
def accepts (d : Dec) (o : Occ) : Bool :=
  decide (o.kind = d.kind) && decide (o.key = d.key) &&
    (match d.filt with
     | Option.none => true
     | some g => g (funcArgs o) == some true)

/-- the runs of one decorator: the qualifying occurrences, in order, each exactly once -/
def expected (d : Dec) (log : List Occ) : List Dict :=
  (log.filter (accepts d)).map (fun o => runArgs d (funcArgs o))

/-- what a python dict built from a sequence of `(key, value)` assignments holds: the LAST value of the key -/
def lastOf : Dict → String → Option Val
  | [], _ => Option.none
  | (k', v) :: r, k =>
    match lastOf r k with
    | some x => some x
    | Option.none => if k' = k then some v else Option.none

/-- keyword priority demanded by the property: decorator kwargs, then the occurrence's data, then the fixed keys -/
def kwLookup (fixed data kwargs : Dict) (k : String) : Option Val :=
  match lastOf kwargs k with
  | some v => some v
  | Option.none =>
    match lastOf data k with
    | some v => some v
    | Option.none => lastOf fixed k

/-- the fixed keywords of an occurrence: trigger_type and what identifies / carries the message -/
def fixedOf : Occ → Dict
  | .event t _ c => [("trigger_type", .str "event"), ("event_type", .str t), ("context", .ctx c)]
  | .mqtt _ t p q r j =>
    [("trigger_type", .str "mqtt"), ("topic", .str t), ("payload", .str p), ("qos", .int q), ("retain", .bool r)]
      ++ (match j with | some v => [("payload_obj", v)] | Option.none => [])
  | .webhook w isJson body form =>
    [("trigger_type", .str "webhook"), ("webhook_id", .str w),
     ("payload", if isJson then body else (formDict form).toVal)]

/-- the free-form data of an occurrence (only bus events have any) -/
def dataOf : Occ → Dict
  | .event _ d _ => d
  | _ => []

/-- the context a run must act under: fresh id, parent = the occurrence's context when it has one -/
def parentOf (args : Dict) : Option Nat :=
  match args.get "context" with
  | some (.ctx c) => some c.id
  | _ => Option.none

/-- `event.fire(name, **kw)`: "emits an event carrying exactly the given parameters"; an explicit Context given as
`context=` is the event's context (and not a parameter), otherwise the context of the running task -/
def fireData (kw : Dict) (k : String) : Option Val :=
  match kw.get "context" with
  | some (.ctx _) => if k = "context" then Option.none else kw.get k
  | _ => kw.get k

def fireCtx (kw : Dict) (taskCtx : Option Ctx) : Option Ctx :=
  match kw.get "context" with
  | some (.ctx c) => some c
  | _ => taskCtx

end Spec
end PsModel.C08
