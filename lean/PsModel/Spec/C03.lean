import PsModel.Model.C03
/-!
# C03 reference – Python's argument binding, stated declaratively (data model §"Calls", PEP 570)

Each named parameter's value is determined independently: the i-th positional argument if there is one; otherwise
(for parameters that may be passed by keyword) the same-named keyword; otherwise its default; otherwise TypeError.
A keyword naming a positional-only parameter, or no parameter at all, goes to `**kwargs` when present and is a
TypeError otherwise.  Surplus positional arguments go to `*varargs` when present and are a TypeError otherwise.
-/
namespace PsModel.C03
namespace Spec

def slotVal (s : Sig) (args : List Nat) (kw : KW) (i : Nat) (p : String) : Option ArgVal :=
  if i < args.length then some (.given (args.getD i 0))
  else if s.posonly.length ≤ i && kw.has p then some (.given ((kw.get p).getD 0))
  else if s.nposn ≤ i then some (.dflt (i - s.nposn))
  else none

def kwonlyVal (kw : KW) (i : Nat) (k : String) (hasD : Bool) : Option ArgVal :=
  if kw.has k then some (.given ((kw.get k).getD 0)) else if hasD then some (.kwdflt i) else none

/-- values of the positional parameters from index `i` on; all-or-nothing -/
def posSlots (s : Sig) (args : List Nat) (kw : KW) : Nat → List String → Option (List (String × ArgVal))
  | _, [] => some []
  | i, p :: ps => match slotVal s args kw i p, posSlots s args kw (i + 1) ps with
    | some v, some r => some ((p, v) :: r)
    | _, _ => none

def kwoSlots (kw : KW) : Nat → List (String × Bool) → Option (List (String × ArgVal))
  | _, [] => some []
  | i, (k, d) :: ks => match kwonlyVal kw i k d, kwoSlots kw (i + 1) ks with
    | some v, some r => some ((k, v) :: r)
    | _, _ => none

/-- names that keywords may bind: positional-or-keyword and keyword-only parameters -/
def kwNames (s : Sig) : List String := s.args ++ s.kwonly.map (·.1)

/-- a positional-or-keyword parameter filled positionally AND by keyword -/
def multipleFrom (args : List Nat) (kw : KW) : Nat → List String → Bool
  | _, [] => false
  | i, p :: ps => (decide (i < args.length) && kw.has p) || multipleFrom args kw (i + 1) ps

def multiple (s : Sig) (args : List Nat) (kw : KW) : Bool := multipleFrom args kw s.posonly.length s.args

def bind (s : Sig) (args : List Nat) (kw : KW) : Option Bound :=
  let extras := kw.filter fun p => !(kwNames s).contains p.1
  if multiple s args kw then none
  else if !s.kwarg && !extras.isEmpty then none
  else if !s.vararg && args.length > s.params.length then none
  else
    match posSlots s args kw 0 s.params, kwoSlots kw 0 s.kwonly with
    | some a, some b =>
      some { slots := a ++ b,
             var := if s.vararg then some (args.drop s.params.length) else none,
             kw := if s.kwarg then some extras else none }
    | _, _ => none

end Spec

/-- what CPython's compiler guarantees about a signature, and the caller about keywords -/
def WF (s : Sig) (kw : KW) : Prop :=
  (s.params ++ s.kwonly.map (·.1)).Nodup ∧ s.ndefaults ≤ s.params.length ∧ kw.keys.Nodup

end PsModel.C03
