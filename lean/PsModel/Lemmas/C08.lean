import PsModel.Model.C08
import PsModel.Spec.C08
/-! # C08 – helper lemmas (dictionaries, tables, queue invariants) -/
namespace PsModel.C08

/-! ## dictionaries -/
namespace Dict

theorem get_set (d : Dict) (k : String) (v : Val) (k' : String) :
    (d.set k v).get k' = if k = k' then some v else d.get k' := by
  induction d with
  | nil => simp [set, get]
  | cons kv r ih =>
    obtain ⟨k0, v0⟩ := kv
    simp only [set]
    by_cases h : k0 = k
    · subst h
      simp only [if_true, get]
      by_cases h2 : k0 = k' <;> simp [h2]
    · simp only [h, if_false, get, ih]
      by_cases h2 : k0 = k'
      · subst h2
        simp
        intro h3; exact absurd h3.symm h
      · simp [h2]

theorem get_update (d e : Dict) (k : String) :
    (d.update e).get k = (match Spec.lastOf e k with | some x => some x | Option.none => d.get k) := by
  unfold update
  induction e generalizing d with
  | nil => simp [Spec.lastOf]
  | cons kv r ih =>
    obtain ⟨k0, v0⟩ := kv
    simp only [List.foldl_cons, ih, Spec.lastOf]
    cases h : Spec.lastOf r k with
    | some x => simp
    | none =>
      simp only [get_set]
      by_cases h2 : k0 = k <;> simp [h2]

theorem keys_set (d : Dict) (k : String) (v : Val) :
    (d.set k v).keys = if k ∈ d.keys then d.keys else d.keys ++ [k] := by
  induction d with
  | nil => simp [set, keys]
  | cons kv r ih =>
    obtain ⟨k0, v0⟩ := kv
    simp only [set, keys] at ih ⊢
    by_cases h : k0 = k
    · subst h; simp
    · simp only [h, if_false, List.map_cons, ih, List.mem_cons]
      have h' : ¬ k = k0 := fun e => h e.symm
      by_cases h2 : k ∈ List.map (fun x => x.1) r <;> simp [h2, h']

theorem nodup_set (d : Dict) (k : String) (v : Val) (h : d.keys.Nodup) : (d.set k v).keys.Nodup := by
  rw [keys_set]
  by_cases h2 : k ∈ d.keys
  · simp [h2, h]
  · simp only [h2, if_false]
    rw [List.nodup_append]
    refine ⟨h, by simp, ?_⟩
    intro a ha b hb
    simp at hb
    subst hb
    intro e; subst e; exact h2 ha

theorem nodup_update (d e : Dict) (h : d.keys.Nodup) : (d.update e).keys.Nodup := by
  unfold update
  induction e generalizing d with
  | nil => simpa
  | cons kv r ih => exact ih _ (nodup_set d kv.1 kv.2 h)

theorem get_eq_lastOf (d : Dict) (h : d.keys.Nodup) (k : String) : d.get k = Spec.lastOf d k := by
  induction d with
  | nil => rfl
  | cons kv r ih =>
    obtain ⟨k0, v0⟩ := kv
    simp only [keys, List.map_cons, List.nodup_cons] at h
    simp only [get, Spec.lastOf]
    have ih' := ih (by simpa [keys] using h.2)
    by_cases h2 : k0 = k
    · subst h2
      have : Spec.lastOf r k0 = Option.none := by
        rw [← ih']
        clear ih ih'
        have hn := h.1
        induction r with
        | nil => rfl
        | cons kv2 r2 ih2 =>
          simp only [List.map_cons, List.mem_cons, not_or] at hn
          simp only [get]
          have : ¬ kv2.1 = k0 := fun e => hn.1 e.symm
          simp only [this, if_false]
          apply ih2
          · simp only [List.map_cons, List.nodup_cons] at h
            exact ⟨hn.2, h.2.2⟩
          · exact hn.2
      simp [this]
    · simp only [h2, if_false, ih']
      cases Spec.lastOf r k <;> rfl

theorem get_erase (d : Dict) (h : d.keys.Nodup) (k k' : String) :
    (d.erase k).get k' = if k' = k then Option.none else d.get k' := by
  induction d with
  | nil => simp [erase, get]
  | cons kv r ih =>
    obtain ⟨k0, v0⟩ := kv
    simp only [keys, List.map_cons, List.nodup_cons] at h
    have ih' := ih (by simpa [keys] using h.2)
    simp only [erase]
    by_cases h1 : k0 = k
    · subst h1
      simp only [if_true, get]
      by_cases h2 : k' = k0
      · subst h2
        simp only [if_true]
        have hn := h.1
        clear ih ih' h
        induction r with
        | nil => rfl
        | cons kv2 r2 ih2 =>
          simp only [List.map_cons, List.mem_cons, not_or] at hn
          simp only [get]
          have : ¬ kv2.1 = k' := fun e => hn.1 e.symm
          simp only [this, if_false]
          exact ih2 hn.2
      · have : ¬ k0 = k' := fun e => h2 e.symm
        simp [h2, this]
    · simp only [h1, if_false, get, ih']
      by_cases h2 : k0 = k'
      · subst h2; simp [h1]
      · simp [h2]

theorem get_isSome_of_mem (f : Dict) (kv : String × Val) (h : kv ∈ f) : (f.get kv.1).isSome := by
  induction f with
  | nil => cases h
  | cons a r ih =>
    simp only [get]
    by_cases h1 : a.1 = kv.1
    · simp [h1]
    · simp only [h1, if_false]
      rcases List.mem_cons.1 h with h2 | h2
      · subst h2; exact absurd rfl h1
      · exact ih h2

theorem form_fold (f l : Dict) (acc : Dict) (hl : ∀ kv ∈ l, (f.get kv.1).isSome) (k : String) :
    (l.foldl (fun acc kv => acc.set kv.1 ((f.get kv.1).getD kv.2)) acc).get k
      = if k ∈ l.map (·.1) then f.get k else acc.get k := by
  induction l generalizing acc with
  | nil => simp
  | cons kv r ih =>
    simp only [List.foldl_cons]
    rw [ih _ (fun x hx => hl x (List.mem_cons_of_mem _ hx))]
    by_cases h1 : k ∈ r.map (·.1)
    · simp [h1]
    · simp only [h1, if_false, get_set, List.map_cons, List.mem_cons]
      by_cases h2 : kv.1 = k
      · subst h2
        have := hl kv (List.mem_cons_self)
        cases hv : f.get kv.1 with
        | none => rw [hv] at this; cases this
        | some v => simp
      · have : ¬ k = kv.1 := fun e => h2 e.symm
        simp [h2, this]

theorem form_fold_nodup (f l : Dict) (acc : Dict) (h : acc.keys.Nodup) :
    (l.foldl (fun acc kv => acc.set kv.1 ((f.get kv.1).getD kv.2)) acc).keys.Nodup := by
  induction l generalizing acc with
  | nil => exact h
  | cons kv r ih => exact ih _ (nodup_set acc _ _ h)

theorem get_none_of_not_mem (f : Dict) (k : String) (h : k ∉ f.map (·.1)) : f.get k = Option.none := by
  induction f with
  | nil => rfl
  | cons a r ih =>
    simp only [List.map_cons, List.mem_cons, not_or] at h
    have : ¬ a.1 = k := fun e => h.1 e.symm
    simp only [get, this, if_false]
    exact ih h.2

end Dict

/-! ## tables -/

theorem Table.mem_add (n : Table) (k : Kind) (key : String) (q : Nat) (k' : Kind) (key' : String) (x : Nat) :
    x ∈ (n.add k key q) k' key' ↔ x ∈ n k' key' ∨ (k' = k ∧ key' = key ∧ x = q) := by
  unfold Table.add
  by_cases h : k' = k ∧ key' = key
  · obtain ⟨h1, h2⟩ := h
    subst h1; subst h2
    simp only [and_self, if_true, true_and]
    by_cases h3 : q ∈ n k' key'
    · simp only [h3, if_true]
      constructor
      · intro h; exact Or.inl h
      · rintro (h | h)
        · exact h
        · subst h; exact h3
    · simp [h3]
  · simp only [h, if_false]
    constructor
    · intro hx; exact Or.inl hx
    · rintro (hx | ⟨h1, h2, _⟩)
      · exact hx
      · exact absurd ⟨h1, h2⟩ h

theorem Table.nodup_add (n : Table) (k : Kind) (key : String) (q : Nat) (h : ∀ k' key', (n k' key').Nodup)
    (k' : Kind) (key' : String) : ((n.add k key q) k' key').Nodup := by
  unfold Table.add
  by_cases h1 : k' = k ∧ key' = key
  · simp only [h1, and_self, if_true]
    by_cases h3 : q ∈ n k key
    · simp [h3, h]
    · simp only [h3, if_false]
      rw [List.nodup_append]
      refine ⟨h _ _, by simp, ?_⟩
      intro a ha b hb
      simp at hb
      subst hb
      intro e; subst e; exact h3 ha
  · simp [h1, h]

/-! ## generic -/

theorem callExpr_eq (d : Dec) (a : Dict) :
    callExpr d.filt a = (match d.filt with | Option.none => true | some g => g a == some true) := by
  unfold callExpr
  cases d.filt with
  | none => rfl
  | some g =>
    simp only
    cases g a with
    | none => rfl
    | some b => cases b <;> rfl

/-- what one queued / pending message contributes for decorator `d` -/
def process (d : Dec) (a : Dict) : List Dict := if callExpr d.filt a then [runArgs d a] else []

theorem expected_append (d : Dec) (log : List Occ) (o : Occ) :
    Spec.expected d (log ++ [o]) =
      Spec.expected d log ++ (if Spec.accepts d o then [runArgs d (funcArgs o)] else []) := by
  unfold Spec.expected
  rw [List.filter_append, List.map_append]
  congr 1
  by_cases h : Spec.accepts d o <;> simp [List.filter, h]

theorem accepts_iff (d : Dec) (o : Occ) :
    Spec.accepts d o = (decide (o.kind = d.kind) && decide (o.key = d.key) && callExpr d.filt (funcArgs o)) := by
  unfold Spec.accepts callExpr
  cases d.filt with
  | none => rfl
  | some g =>
    simp only
    cases g (funcArgs o) with
    | none => rfl
    | some b => cases b <;> rfl

theorem upd_same {α} (f : Nat → α) (i : Nat) (v : α) : upd f i v i = v := by simp [upd]
theorem upd_other {α} (f : Nat → α) (i j : Nat) (v : α) (h : j ≠ i) : upd f i v j = f j := by simp [upd, h]

/-! ## legacy machine -/
namespace Legacy

theorem putAll_apply (ts : List Nat) (hnd : ts.Nodup) (qs : Nat → List (Kind × Dict)) (m : Kind × Dict) (u : Nat) :
    putAll qs ts m u = if u ∈ ts then qs u ++ [m] else qs u := by
  unfold putAll
  induction ts generalizing qs with
  | nil => simp
  | cons t r ih =>
    simp only [List.nodup_cons] at hnd
    simp only [List.foldl_cons]
    rw [ih hnd.2]
    by_cases h1 : u = t
    · subst h1
      simp [hnd.1, upd]
    · by_cases h2 : u ∈ r
      · simp [h2, upd, h1]
      · simp [h2, upd, h1]

/-- the evaluated-once fan-out is the specified one -/
theorem putAllQ_get (ts : List Nat) (qs : Nat → List (Kind × Dict)) (m : Kind × Dict) :
    (putAllQ qs ts m).get = putAll qs ts m := by
  have gen : ∀ (ts : List Nat) (q : QMap),
      (ts.foldl (fun (q : QMap) t => (⟨upd q.get t (q.get t ++ [m])⟩ : QMap)) q).get
        = ts.foldl (fun q t => upd q t (q t ++ [m])) q.get := by
    intro ts
    induction ts with
    | nil => intro q; rfl
    | cons t r ih => intro q; simp only [List.foldl_cons]; rw [ih]
  exact gen ts ⟨qs⟩

/-- the decorators in a unit have the unit's kinds (true for `mkUnits`) -/
def UnitsOK (units : List LUnit) : Prop := ∀ u k d, unitDec units u k = some d → d.kind = k

/-- the subscription tables say exactly which unit listens to which key -/
def WF (units : List LUnit) (n : Table) : Prop :=
  (∀ k key, (n k key).Nodup) ∧ ∀ u k key, u ∈ n k key ↔ ∃ d, unitDec units u k = some d ∧ d.key = key

theorem mem_subscribeUnit (n : Table) (u : Nat) (un : LUnit) (k : Kind) (key : String) (x : Nat) :
    x ∈ (subscribeUnit n u un) k key ↔ x ∈ n k key ∨ (x = u ∧ ∃ d, un k = some d ∧ d.key = key) := by
  unfold subscribeUnit
  cases he : un .event <;> cases hm : un .mqtt <;> cases hw : un .webhook <;> cases k <;>
    simp [Table.mem_add, he, hm, hw] <;> grind

theorem nodup_subscribeUnit (n : Table) (u : Nat) (un : LUnit) (h : ∀ k key, (n k key).Nodup) :
    ∀ k key, ((subscribeUnit n u un) k key).Nodup := by
  unfold subscribeUnit
  cases un .event <;> cases un .mqtt <;> cases un .webhook <;> simp only <;>
    first
      | exact h
      | (apply Table.nodup_add; first | exact h | (apply Table.nodup_add; first | exact h | (apply Table.nodup_add; exact h)))

theorem unitDec_append_left (pre rest : List LUnit) (u : Nat) (h : u < pre.length) (k : Kind) :
    unitDec (pre ++ rest) u k = unitDec pre u k := by
  unfold unitDec
  rw [List.getElem?_append_left h]

theorem setupFrom_spec (rest pre : List LUnit) (n : Table)
    (hnd : ∀ k key, (n k key).Nodup)
    (hmem : ∀ u k key, u ∈ n k key ↔ u < pre.length ∧ ∃ d, unitDec (pre ++ rest) u k = some d ∧ d.key = key) :
    WF (pre ++ rest) (setupFrom pre.length rest n) := by
  induction rest generalizing pre n with
  | nil =>
    simp only [setupFrom]
    refine ⟨hnd, ?_⟩
    intro u k key
    rw [hmem]
    constructor
    · rintro ⟨_, h⟩; exact h
    · rintro ⟨d, hd, hk⟩
      refine ⟨?_, d, hd, hk⟩
      unfold unitDec at hd
      by_cases hlt : u < (pre ++ []).length
      · simpa using hlt
      · rw [List.getElem?_eq_none (by omega)] at hd
        simp at hd
  | cons un rest ih =>
    simp only [setupFrom]
    have e : pre ++ un :: rest = (pre ++ [un]) ++ rest := by simp
    have := ih (pre ++ [un]) (subscribeUnit n pre.length un) (nodup_subscribeUnit n _ un hnd) (by
      intro u k key
      rw [mem_subscribeUnit, hmem, ← e]
      have hget : unitDec (pre ++ un :: rest) pre.length k = un k := by
        unfold unitDec
        rw [List.getElem?_append_right (Nat.le_refl _)]
        simp
      constructor
      · rintro (⟨hlt, h⟩ | ⟨rfl, d, hd, hk⟩)
        · exact ⟨by simp; omega, h⟩
        · exact ⟨by simp, d, by rw [hget]; exact hd, hk⟩
      · rintro ⟨hlt, d, hd, hk⟩
        simp only [List.length_append, List.length_cons, List.length_nil] at hlt
        by_cases h2 : u = pre.length
        · subst h2
          rw [hget] at hd
          exact Or.inr ⟨rfl, d, hd, hk⟩
        · exact Or.inl ⟨by omega, d, hd, hk⟩)
    rw [e]
    simpa using this

theorem init_WF (units : List LUnit) : WF units (init units).notify := by
  have := setupFrom_spec units [] Table.empty (by intro k key; simp [Table.empty]) (by
    intro u k key; simp [Table.empty])
  simpa [init] using this

/-- runs still owed to decorator `(u,k)` = `d` by the messages waiting in the unit's queue -/
def pendingList (d : Dec) (k : Kind) (q : List (Kind × Dict)) : List Dict :=
  (q.filter (fun m => m.1 = k)).flatMap (fun m => process d m.2)

theorem pendingList_append (d : Dec) (k : Kind) (q : List (Kind × Dict)) (m : Kind × Dict) :
    pendingList d k (q ++ [m]) = pendingList d k q ++ (if m.1 = k then process d m.2 else []) := by
  unfold pendingList
  rw [List.filter_append, List.flatMap_append]
  congr 1
  by_cases h : m.1 = k <;> simp [List.filter, h]

theorem pendingList_cons (d : Dec) (k : Kind) (q : List (Kind × Dict)) (m : Kind × Dict) :
    pendingList d k (m :: q) = (if m.1 = k then process d m.2 else []) ++ pendingList d k q := by
  unfold pendingList
  by_cases h : m.1 = k <;> simp [List.filter, h]

def startedArgs (started : List Run) (u : Nat) (k : Kind) : List Dict :=
  (started.filter (fun r => r.dec = u ∧ r.kind = k)).map (·.args)

theorem startedArgs_append (started : List Run) (r : Run) (u : Nat) (k : Kind) :
    startedArgs (started ++ [r]) u k = startedArgs started u k ++ (if r.dec = u ∧ r.kind = k then [r.args] else []) := by
  unfold startedArgs
  rw [List.filter_append, List.map_append]
  congr 1
  by_cases h : r.dec = u ∧ r.kind = k <;> simp [List.filter, h]

/-- THE queue invariant: what was started plus what is still queued is exactly what the spec demands for the
occurrences handed over so far -/
def Inv (units : List LUnit) (st : State) : Prop :=
  WF units st.notify ∧
  ∀ u k d, unitDec units u k = some d →
    startedArgs st.started u k ++ pendingList d k (st.queues u) = Spec.expected d st.log

theorem inv_init (units : List LUnit) : Inv units (init units) := by
  refine ⟨init_WF units, ?_⟩
  intro u k d _
  simp [init, startedArgs, pendingList, Spec.expected]

theorem inv_deliver (units : List LUnit) (hok : UnitsOK units) (st : State) (o : Occ) (h : Inv units st) :
    Inv units (deliver st o) := by
  obtain ⟨hwf, hq⟩ := h
  refine ⟨hwf, ?_⟩
  intro u k d hd
  have hk := hok u k d hd
  simp only [deliver]
  rw [putAllQ_get, putAll_apply _ (hwf.1 _ _), expected_append, ← hq u k d hd, accepts_iff]
  by_cases hmem : u ∈ st.notify o.kind o.key
  · simp only [hmem, if_true, pendingList_append]
    obtain ⟨d', hd', hkey⟩ := (hwf.2 u o.kind o.key).1 hmem
    by_cases hkk : o.kind = k
    · subst hkk
      rw [hd] at hd'
      cases hd'
      simp [hk, hkey, process, List.append_assoc]
    · have : ¬ o.kind = d.kind := by rw [hk]; exact hkk
      simp [hkk, this]
  · simp only [hmem, if_false]
    have : (decide (o.kind = d.kind) && decide (o.key = d.key)) = false := by
      by_cases h1 : o.kind = d.kind
      · by_cases h2 : o.key = d.key
        · exfalso
          apply hmem
          rw [hwf.2]
          exact ⟨d, by rw [h1, hk]; exact hd, h2.symm⟩
        · simp [h2]
      · simp [h1]
    simp [this]

theorem inv_take (units : List LUnit) (st : State) (u0 : Nat) (h : Inv units st) : Inv units (take units st u0) := by
  obtain ⟨hwf, hq⟩ := h
  unfold take
  cases hqu : st.queues u0 with
  | nil => exact ⟨hwf, hq⟩
  | cons m r =>
    simp only
    unfold handleMsg
    cases hdec : unitDec units u0 m.1 with
    | none =>
      refine ⟨hwf, ?_⟩
      intro u k d hd
      simp only
      by_cases hu : u = u0
      · subst hu
        rw [upd_same, ← hq u k d hd, hqu, pendingList_cons]
        have : ¬ m.1 = k := by intro e; rw [e, hd] at hdec; cases hdec
        simp [this]
      · rw [upd_other _ _ _ _ hu]; exact hq u k d hd
    | some d0 =>
      simp only
      by_cases hce : callExpr d0.filt m.2
      · simp only [hce, if_true]
        refine ⟨hwf, ?_⟩
        intro u k d hd
        simp only [callAction, startedArgs_append]
        by_cases hu : u = u0
        · subst hu
          rw [upd_same, ← hq u k d hd, hqu, pendingList_cons]
          by_cases hk : m.1 = k
          · subst hk
            rw [hd] at hdec; cases hdec
            simp [process, hce, List.append_assoc]
          · have : ¬ (u = u ∧ m.1 = k) := fun e => hk e.2
            simp [hk]
        · rw [upd_other _ _ _ _ hu, ← hq u k d hd]
          have : ¬ (u0 = u ∧ m.1 = k) := fun e => hu e.1.symm
          simp [this]
      · simp only [hce]
        refine ⟨hwf, ?_⟩
        intro u k d hd
        simp only [Bool.false_eq_true, if_false]
        by_cases hu : u = u0
        · subst hu
          rw [upd_same, ← hq u k d hd, hqu, pendingList_cons]
          by_cases hk : m.1 = k
          · subst hk
            rw [hd] at hdec; cases hdec
            simp [process, hce]
          · simp [hk]
        · rw [upd_other _ _ _ _ hu]; exact hq u k d hd

theorem inv_step (units : List LUnit) (hok : UnitsOK units) (st : State) (x : Step) (h : Inv units st) :
    Inv units (step units st x) := by
  cases x with
  | fire e => exact inv_deliver units hok _ _ h
  | take u => exact inv_take units st u h
  | emit r ek name kw =>
    simp only [step, emit]
    cases ek with
    | event => exact inv_deliver units hok _ _ h
    | state => exact h
    | service => exact h
  | finish r => exact h

theorem inv_foldl (units : List LUnit) (hok : UnitsOK units) (s : List Step) (st : State) (h : Inv units st) :
    Inv units (s.foldl (step units) st) := by
  induction s generalizing st with
  | nil => exact h
  | cons x r ih => exact ih _ (inv_step units hok st x h)

theorem inv_exec (units : List LUnit) (hok : UnitsOK units) (s : List Step) : Inv units (exec units s) :=
  inv_foldl units hok s _ (inv_init units)


/-! ### `trigger_init` grouping -/

theorem unitDec_mkUnits (decs : List Dec) (u : Nat) (k : Kind) :
    unitDec (mkUnits decs) u k = nthOfKind decs k u := by
  unfold unitDec mkUnits
  by_cases h : u < unitCount decs
  · simp [h]
  · have hk : kindCount decs k ≤ unitCount decs := by
      unfold unitCount; cases k <;> omega
    have : nthOfKind decs k u = Option.none := by
      unfold nthOfKind; unfold kindCount at hk
      rw [List.getElem?_eq_none (by omega)]
    simp [h, this]

theorem unitsOK_mkUnits (decs : List Dec) : UnitsOK (mkUnits decs) := by
  intro u k d h
  rw [unitDec_mkUnits] at h
  unfold nthOfKind at h
  have := List.mem_of_getElem? h
  simpa using (List.mem_filter.1 this).2

theorem unitDec_append (a b : List LUnit) (u : Nat) (k : Kind) :
    unitDec (a ++ b) u k = if u < a.length then unitDec a u k else unitDec b (u - a.length) k := by
  unfold unitDec
  by_cases h : u < a.length
  · simp [h, List.getElem?_append_left h]
  · simp [h, List.getElem?_append_right (Nat.le_of_not_lt h)]

theorem unitsOK_append (a b : List LUnit) (ha : UnitsOK a) (hb : UnitsOK b) : UnitsOK (a ++ b) := by
  intro u k d h
  rw [unitDec_append] at h
  by_cases hu : u < a.length
  · simp only [hu, if_true] at h; exact ha _ _ _ h
  · simp only [hu, if_false] at h; exact hb _ _ _ h

theorem unitsOK_allUnits (fs : List (List Dec)) : UnitsOK (allUnits fs) := by
  induction fs with
  | nil => intro u k d h; simp [allUnits, unitDec] at h
  | cons f r ih =>
    have : allUnits (f :: r) = mkUnits f ++ allUnits r := by simp [allUnits]
    rw [this]
    exact unitsOK_append _ _ (unitsOK_mkUnits f) ih

/-! ### contexts -/

/-- `task2context` holds the context of every started run -/
def CtxInv (st : State) : Prop :=
  (∀ r, st.t2c.get r = (st.started[r]?).map (·.ctx)) ∧
  ∀ (r : Nat) (run : Run), st.started[r]? = some run → run.ctx.parent = Spec.parentOf run.args

theorem t2c_get_append (t : T2C) (n : Nat) (c : Ctx) (r : Nat) :
    T2C.get (t ++ [(n, c)]) r = (match T2C.get t r with | some x => some x | Option.none => if n = r then some c else Option.none) := by
  induction t with
  | nil => simp [T2C.get]
  | cons p q ih =>
    obtain ⟨a, b⟩ := p
    simp only [List.cons_append, T2C.get]
    by_cases h : a = r
    · simp [h]
    · simp [h, ih]

theorem mkCtx_parent (fresh : Nat) (args : Dict) : (mkCtx fresh args).parent = Spec.parentOf args := by
  unfold mkCtx Spec.parentOf
  split <;> simp_all

theorem getElem?_snoc {α} (l : List α) (a : α) (r : Nat) :
    (l ++ [a])[r]? = if r < l.length then l[r]? else if r = l.length then some a else Option.none := by
  by_cases h : r < l.length
  · simp [h, List.getElem?_append_left h]
  · rw [List.getElem?_append_right (Nat.le_of_not_lt h)]
    by_cases h2 : r = l.length
    · subst h2; simp
    · have : r - l.length = (r - l.length - 1) + 1 := by omega
      rw [this]; simp [h, h2]

theorem ctxInv_callAction (st : State) (u : Nat) (k : Kind) (args : Dict) (h : CtxInv st) :
    CtxInv (callAction st u k args) := by
  obtain ⟨h1, h2⟩ := h
  constructor
  · intro r
    simp only [callAction, t2c_get_append, h1, getElem?_snoc]
    by_cases hr : r < st.started.length
    · simp [hr]
    · rw [List.getElem?_eq_none (Nat.le_of_not_lt hr)]
      by_cases he : st.started.length = r
      · subst he; simp
      · have : ¬ r = st.started.length := fun e => he e.symm
        simp [he, hr, this]
  · intro r run hr
    simp only [callAction, getElem?_snoc] at hr
    by_cases hlt : r < st.started.length
    · simp only [hlt, if_true] at hr; exact h2 r run hr
    · simp only [hlt, if_false] at hr
      by_cases he : r = st.started.length
      · simp only [he, if_true, Option.some.injEq] at hr; subst hr; exact mkCtx_parent _ _
      · simp [he] at hr

theorem ctxInv_step (units : List LUnit) (st : State) (x : Step) (h : CtxInv st) : CtxInv (step units st x) := by
  cases x with
  | fire e => exact h
  | take u =>
    simp only [step, take]
    cases st.queues u with
    | nil => exact h
    | cons m r =>
      simp only [handleMsg]
      cases unitDec units u m.1 with
      | none => exact h
      | some d =>
        simp only
        by_cases hc : callExpr d.filt m.2
        · simp only [hc, if_true]
          exact ctxInv_callAction _ u m.1 _ h
        · simp only [hc]; exact h
  | emit r ek name kw =>
    simp only [step, emit]
    cases ek <;> exact h
  | finish r => exact h

theorem ctxInv_exec (units : List LUnit) (s : List Step) : CtxInv (exec units s) := by
  unfold exec
  have h0 : CtxInv (init units) := by
    constructor
    · intro r; simp [init, T2C.get]
    · intro r run hr; simp [init] at hr
  generalize init units = st at h0
  induction s generalizing st with
  | nil => exact h0
  | cons x r ih => exact ih _ (ctxInv_step units st x h0)

/-! ### independence of runs -/

def eraseFin (st : State) : State := { st with finished := [] }

def notFinish : Step → Bool
  | .finish _ => false
  | _ => true

theorem eraseFin_step (units : List LUnit) (st : State) (x : Step) (hx : notFinish x = true) :
    eraseFin (step units st x) = step units (eraseFin st) x := by
  cases x with
  | fire e => rfl
  | take u =>
    simp only [step, take, eraseFin]
    cases st.queues u with
    | nil => rfl
    | cons m r =>
      simp only [handleMsg]
      cases unitDec units u m.1 with
      | none => rfl
      | some d =>
        simp only
        by_cases hc : callExpr d.filt m.2
        · simp only [hc, if_true]; rfl
        · simp only [hc]; rfl
  | emit r ek name kw =>
    simp only [step, emit, eraseFin]
    cases ek <;> rfl
  | finish r => simp [notFinish] at hx

theorem eraseFin_foldl (units : List LUnit) (s : List Step) (st : State) :
    eraseFin (s.foldl (step units) st) = (s.filter notFinish).foldl (step units) (eraseFin st) := by
  induction s generalizing st with
  | nil => rfl
  | cons x r ih =>
    simp only [List.foldl_cons]
    by_cases hx : notFinish x = true
    · rw [List.filter_cons_of_pos hx, List.foldl_cons, ih, eraseFin_step units st x hx]
    · rw [List.filter_cons_of_neg hx, ih]
      cases x with
      | finish r => rfl
      | _ => simp [notFinish] at hx

/-! ### every schedule can be completed to a quiescent one (nothing stays queued for ever) -/

theorem handleMsg_queues (units : List LUnit) (st : State) (u : Nat) (m : Kind × Dict) :
    (handleMsg units st u m).queues = st.queues ∧ (handleMsg units st u m).log = st.log ∧
    (handleMsg units st u m).notify = st.notify := by
  unfold handleMsg
  cases unitDec units u m.1 with
  | none => exact ⟨rfl, rfl, rfl⟩
  | some d =>
    simp only
    by_cases hc : callExpr d.filt m.2
    · simp only [hc, if_true]; exact ⟨rfl, rfl, rfl⟩
    · simp only [hc]; exact ⟨rfl, rfl, rfl⟩

theorem take_queues (units : List LUnit) (st : State) (u v : Nat) :
    (take units st u).queues v = if v = u then (st.queues u).tail else st.queues v := by
  unfold take
  cases hq : st.queues u with
  | nil =>
    by_cases h : v = u
    · subst h; simp [hq]
    · simp [h]
  | cons m r =>
    simp only [(handleMsg_queues units _ u m).1, upd]
    by_cases h : v = u <;> simp [h]

theorem take_log (units : List LUnit) (st : State) (u : Nat) :
    (take units st u).log = st.log ∧ (take units st u).notify = st.notify := by
  unfold take
  cases st.queues u with
  | nil => exact ⟨rfl, rfl⟩
  | cons m r => exact ⟨(handleMsg_queues units _ u m).2.1, (handleMsg_queues units _ u m).2.2⟩

theorem takeN (units : List LUnit) (n u : Nat) (st : State) :
    (∀ v, ((List.replicate n (Step.take u)).foldl (step units) st).queues v
        = if v = u then (st.queues u).drop n else st.queues v) ∧
    ((List.replicate n (Step.take u)).foldl (step units) st).log = st.log := by
  induction n generalizing st with
  | zero => simp
  | succ n ih =>
    simp only [List.replicate_succ, List.foldl_cons]
    have h := ih (step units st (.take u))
    refine ⟨?_, ?_⟩
    · intro v
      rw [h.1 v]
      show (if v = u then List.drop n ((take units st u).queues u) else (take units st u).queues v) = _
      rw [take_queues, take_queues]
      by_cases hv : v = u
      · simp only [hv, if_true]
        cases st.queues u <;> simp
      · simp [hv]
    · rw [h.2]; exact (take_log units st u).1

def drainSched (us : List Nat) (m : Nat) : List Step := us.flatMap (fun u => List.replicate m (Step.take u))

theorem drain_queues (units : List LUnit) (us : List Nat) (m : Nat) (st : State)
    (hm : ∀ u, (st.queues u).length ≤ m) :
    (∀ v, ((drainSched us m).foldl (step units) st).queues v = if v ∈ us then [] else st.queues v) ∧
    ((drainSched us m).foldl (step units) st).log = st.log := by
  induction us generalizing st with
  | nil => simp [drainSched]
  | cons u rest ih =>
    have e : drainSched (u :: rest) m = List.replicate m (Step.take u) ++ drainSched rest m := by
      simp [drainSched]
    rw [e, List.foldl_append]
    have h1 := takeN units m u st
    have hm1 : ∀ w, (((List.replicate m (Step.take u)).foldl (step units) st).queues w).length ≤ m := by
      intro w
      rw [h1.1 w]
      by_cases hw : w = u
      · simp [hw]; have := hm u; omega
      · simp only [hw, if_false]; exact hm w
    have h2 := ih _ hm1
    refine ⟨?_, ?_⟩
    · intro v
      rw [h2.1 v, h1.1 v]
      by_cases hv : v ∈ rest
      · simp [hv]
      · by_cases hu : v = u
        · subst hu
          simp only [hv, if_false, if_true, List.mem_cons, true_or]
          exact List.drop_eq_nil_of_le (hm v)
        · simp [hv, hu]
    · rw [h2.2, h1.2]

/-- queues exist only for the units -/
def Supp (units : List LUnit) (st : State) : Prop := ∀ u, units.length ≤ u → st.queues u = []

theorem supp_deliver (units : List LUnit) (st : State) (o : Occ) (hwf : WF units st.notify) (h : Supp units st) :
    Supp units (deliver st o) := by
  intro u hu
  simp only [deliver]
  rw [putAllQ_get, putAll_apply _ (hwf.1 _ _)]
  have : ¬ u ∈ st.notify o.kind o.key := by
    intro hmem
    obtain ⟨d, hd, _⟩ := (hwf.2 u o.kind o.key).1 hmem
    unfold unitDec at hd
    rw [List.getElem?_eq_none hu] at hd
    cases hd
  simp only [this, if_false]
  exact h u hu

theorem supp_step (units : List LUnit) (_hok : UnitsOK units) (st : State) (x : Step) (hi : Inv units st)
    (h : Supp units st) : Supp units (step units st x) := by
  cases x with
  | fire e => exact supp_deliver units _ _ hi.1 h
  | take u0 =>
    intro u hu
    show (take units st u0).queues u = []
    rw [take_queues]
    by_cases h1 : u = u0
    · subst h1; simp [h u hu]
    · simp only [h1, if_false]; exact h u hu
  | emit r ek name kw =>
    simp only [step, emit]
    cases ek with
    | event => exact supp_deliver units _ _ hi.1 h
    | state => exact h
    | service => exact h
  | finish r => exact h

theorem supp_exec (units : List LUnit) (hok : UnitsOK units) (s : List Step) : Supp units (exec units s) := by
  unfold exec
  have h0 : Supp units (init units) := by intro u _; rfl
  have i0 := inv_init units
  generalize init units = st at h0 i0
  induction s generalizing st with
  | nil => exact h0
  | cons x r ih => exact ih _ (supp_step units hok st x i0 h0) (inv_step units hok st x i0)

theorem bound_exists (q : Nat → List (Kind × Dict)) (n : Nat) : ∃ m, ∀ u, u < n → (q u).length ≤ m := by
  induction n with
  | zero => exact ⟨0, by intro u h; omega⟩
  | succ n ih =>
    obtain ⟨m, hm⟩ := ih
    refine ⟨max m (q n).length, ?_⟩
    intro u hu
    by_cases h : u = n
    · subst h; omega
    · have := hm u (by omega); omega

end Legacy

/-! ## new machine -/
namespace New

/-- the listener tables are duplicate-free and every entry belongs to a decorator with that kind and key -/
def WF (decs : List Dec) (n : Table) : Prop :=
  (∀ k key, (n k key).Nodup) ∧ ∀ i k key, i ∈ n k key → ∃ d, decs[i]? = some d ∧ d.kind = k ∧ d.key = key

theorem startDecs_WF (fl : Flags) (decs : List Dec) (l : List Dec) (i : Nat) (n n' : Table)
    (hl : ∀ j d, l[j]? = some d → decs[i + j]? = some d) (h : WF decs n) (hs : startDecs fl i l n = some n') :
    WF decs n' := by
  induction l generalizing i n with
  | nil => simp only [startDecs, Option.some.injEq] at hs; subst hs; exact h
  | cons d rest ih =>
    simp only [startDecs] at hs
    split at hs
    · cases hs
    · apply ih (i + 1) (n.add d.kind d.key i) _ _ hs
      · intro j d' hj
        have := hl (j + 1) d' (by simpa using hj)
        rw [← this]; congr 1; omega
      · refine ⟨Table.nodup_add n _ _ _ h.1, ?_⟩
        intro x k key hx
        rcases (Table.mem_add n _ _ _ _ _ _).1 hx with hx | ⟨h1, h2, h3⟩
        · exact h.2 x k key hx
        · subst h3
          exact ⟨d, by simpa using hl 0 d (by simp), h1.symm, h2.symm⟩

theorem setupFuncs_WF (fl : Flags) (decs : List Dec) (fs : List (List Dec)) (i0 : Nat) (n : Table)
    (hl : ∀ j d, fs.flatten[j]? = some d → decs[i0 + j]? = some d) (h : WF decs n) :
    WF decs (setupFuncs fl i0 fs n) := by
  induction fs generalizing i0 n with
  | nil => exact h
  | cons f rest ih =>
    simp only [setupFuncs]
    apply ih
    · intro j d hj
      have := hl (f.length + j) d (by
        simp only [List.flatten_cons]
        rw [List.getElem?_append_right (by omega)]
        simpa using hj)
      rw [← this]; congr 1; omega
    · cases hs : startDecs fl i0 f n with
      | none => exact h
      | some n' =>
        apply startDecs_WF fl decs f i0 n n' _ h hs
        intro j d hj
        apply hl j d
        simp only [List.flatten_cons]
        have hlt : j < f.length := by
          by_cases hlt : j < f.length
          · exact hlt
          · rw [List.getElem?_eq_none (by omega)] at hj; cases hj
        rw [List.getElem?_append_left hlt]; exact hj

theorem init_WF (fl : Flags) (fs : List (List Dec)) : WF fs.flatten (init fl fs).listeners := by
  apply setupFuncs_WF fl fs.flatten fs 0 Table.empty
  · intro j d hj; simpa using hj
  · exact ⟨by intro k key; simp [Table.empty], by intro i k key h; simp [Table.empty] at h⟩

/-! ### which decorators get registered -/

theorem startDecs_mono (fl : Flags) (l : List Dec) (i : Nat) (m m' : Table) (h : startDecs fl i l m = some m')
    (x : Nat) (k : Kind) (key : String) (hx : x ∈ m k key) : x ∈ m' k key := by
  induction l generalizing i m with
  | nil => simp only [startDecs, Option.some.injEq] at h; subst h; exact hx
  | cons a r ih =>
    simp only [startDecs] at h
    split at h
    · cases h
    · exact ih (i + 1) _ h ((Table.mem_add m _ _ _ _ _ _).2 (Or.inl hx))

/-- every decorator of a function whose start succeeded is in the table -/
theorem startDecs_mem (fl : Flags) (i0 : Nat) (f : List Dec) (n n' : Table)
    (hs : startDecs fl i0 f n = some n') (j : Nat) (d : Dec) (hj : f[j]? = some d) :
    (i0 + j) ∈ n' d.kind d.key := by
  induction f generalizing i0 n j with
  | nil => simp at hj
  | cons d0 rest ih =>
    simp only [startDecs] at hs
    split at hs
    · cases hs
    · cases j with
      | zero =>
        simp only [List.getElem?_cons_zero, Option.some.injEq] at hj
        subst hj
        apply startDecs_mono fl rest (i0 + 1) _ n' hs
        exact (Table.mem_add n _ _ _ _ _ _).2 (Or.inr ⟨rfl, rfl, rfl⟩)
      | succ j =>
        have := ih (i0 + 1) _ hs j (by simpa using hj)
        have e : i0 + (j + 1) = i0 + 1 + j := by omega
        rw [e]; exact this

/-- repaired shape: a start never fails -/
theorem startDecs_current (i : Nat) (l : List Dec) (n : Table) : ∃ n', startDecs Flags.current i l n = some n' := by
  induction l generalizing i n with
  | nil => exact ⟨n, rfl⟩
  | cons d rest ih =>
    simp only [startDecs, Flags.current, Bool.false_eq_true, false_and, if_false]
    exact ih (i + 1) _

theorem setupFuncs_mono (fl : Flags) (fs : List (List Dec)) (i0 : Nat) (n : Table)
    (x : Nat) (k : Kind) (key : String) (hx : x ∈ n k key) : x ∈ setupFuncs fl i0 fs n k key := by
  induction fs generalizing i0 n with
  | nil => exact hx
  | cons f rest ih =>
    simp only [setupFuncs]
    apply ih
    cases hs : startDecs fl i0 f n with
    | none => exact hx
    | some n' => exact startDecs_mono fl f i0 n n' hs x k key hx

/-- repaired shape: EVERY decorator of every function is registered -/
theorem setupFuncs_current_mem (fs : List (List Dec)) (i0 : Nat) (n : Table) (j : Nat) (d : Dec)
    (hj : fs.flatten[j]? = some d) : (i0 + j) ∈ setupFuncs Flags.current i0 fs n d.kind d.key := by
  induction fs generalizing i0 n j with
  | nil => simp at hj
  | cons f rest ih =>
    simp only [setupFuncs]
    obtain ⟨n', hn'⟩ := startDecs_current i0 f n
    rw [hn']
    simp only [List.flatten_cons] at hj
    by_cases hlt : j < f.length
    · rw [List.getElem?_append_left hlt] at hj
      exact setupFuncs_mono _ rest _ n' _ _ _ (startDecs_mem _ i0 f n n' hn' j d hj)
    · rw [List.getElem?_append_right (by omega)] at hj
      have := ih (i0 + f.length) n' (j - f.length) hj
      have e : i0 + f.length + (j - f.length) = i0 + j := by omega
      rw [e] at this; exact this

/-- runs still owed to decorator `i` = `d` by the callback tasks that have not run yet -/
def pendingList (d : Dec) (i : Nat) (q : List (Nat × Occ)) : List Dict :=
  (q.filter (fun m => m.1 = i)).flatMap (fun m => process d (funcArgs m.2))

theorem pendingList_append (d : Dec) (i : Nat) (q q' : List (Nat × Occ)) :
    pendingList d i (q ++ q') = pendingList d i q ++ pendingList d i q' := by
  unfold pendingList
  rw [List.filter_append, List.flatMap_append]

theorem pendingList_cons (d : Dec) (i : Nat) (q : List (Nat × Occ)) (m : Nat × Occ) :
    pendingList d i (m :: q) = (if m.1 = i then process d (funcArgs m.2) else []) ++ pendingList d i q := by
  unfold pendingList
  by_cases h : m.1 = i <;> simp [List.filter, h]

theorem pendingList_map (d : Dec) (i : Nat) (o : Occ) (l : List Nat) (hnd : l.Nodup) :
    pendingList d i (l.map (fun j => (j, o))) = if i ∈ l then process d (funcArgs o) else [] := by
  induction l with
  | nil => simp [pendingList]
  | cons a r ih =>
    simp only [List.nodup_cons] at hnd
    simp only [List.map_cons, pendingList_cons, ih hnd.2]
    by_cases h : a = i
    · subst h; simp [hnd.1]
    · have : ¬ i = a := fun e => h e.symm
      simp [h, this]

def startedArgs (started : List Run) (i : Nat) : List Dict :=
  (started.filter (fun r => r.dec = i)).map (·.args)

theorem startedArgs_append (started : List Run) (r : Run) (i : Nat) :
    startedArgs (started ++ [r]) i = startedArgs started i ++ (if r.dec = i then [r.args] else []) := by
  unfold startedArgs
  rw [List.filter_append, List.map_append]
  congr 1
  by_cases h : r.dec = i <;> simp [List.filter, h]

/-- `i` is a decorator whose listener is in the table -/
def Reg (decs : List Dec) (n : Table) (i : Nat) : Prop := ∃ d, decs[i]? = some d ∧ i ∈ n d.kind d.key

def Inv (decs : List Dec) (st : State) : Prop :=
  WF decs st.listeners ∧
  (∀ i d, decs[i]? = some d → i ∈ st.listeners d.kind d.key →
    startedArgs st.started i ++ pendingList d i st.ready = Spec.expected d st.log) ∧
  (∀ p ∈ st.ready, Reg decs st.listeners p.1) ∧ (∀ r ∈ st.started, Reg decs st.listeners r.dec)

theorem inv_init (fl : Flags) (fs : List (List Dec)) : Inv fs.flatten (init fl fs) := by
  refine ⟨init_WF fl fs, ?_, ?_, ?_⟩
  · intro i d _ _
    simp [init, startedArgs, pendingList, Spec.expected]
  · intro p hp; simp [init] at hp
  · intro r hr; simp [init] at hr

theorem inv_deliver (decs : List Dec) (st : State) (o : Occ) (h : Inv decs st) : Inv decs (deliver st o) := by
  obtain ⟨hwf, hq, hr, hs⟩ := h
  refine ⟨hwf, ?_, ?_, hs⟩
  · intro i d hd hreg
    simp only [deliver]
    rw [pendingList_append, pendingList_map _ _ _ _ (hwf.1 _ _), expected_append, ← hq i d hd hreg, accepts_iff,
      List.append_assoc]
    congr 1
    congr 1
    by_cases hmem : i ∈ st.listeners o.kind o.key
    · obtain ⟨d', hd', hk, hkey⟩ := hwf.2 i o.kind o.key hmem
      rw [hd] at hd'; cases hd'
      simp [hmem, hk, hkey, process]
    · have : (decide (o.kind = d.kind) && decide (o.key = d.key)) = false := by
        by_cases h1 : o.kind = d.kind
        · by_cases h2 : o.key = d.key
          · exfalso; apply hmem; rw [h1, h2]; exact hreg
          · simp [h2]
        · simp [h1]
      simp [hmem, this]
  · intro p hp
    simp only [deliver, List.mem_append, List.mem_map] at hp
    rcases hp with hp | ⟨i, hi, rfl⟩
    · exact hr p hp
    · obtain ⟨d, hd, hk, hkey⟩ := hwf.2 i o.kind o.key hi
      exact ⟨d, hd, by rw [hk, hkey]; exact hi⟩

theorem inv_take (decs : List Dec) (st : State) (h : Inv decs st) : Inv decs (take decs st) := by
  obtain ⟨hwf, hq, hrdy, hs⟩ := h
  unfold take
  cases hr : st.ready with
  | nil => exact ⟨hwf, hq, hrdy, hs⟩
  | cons m r =>
    obtain ⟨i0, o⟩ := m
    have hrdy' : ∀ p ∈ r, Reg decs st.listeners p.1 := fun p hp => hrdy p (by rw [hr]; exact List.mem_cons_of_mem _ hp)
    have hreg0 : Reg decs st.listeners i0 := hrdy (i0, o) (by rw [hr]; exact List.mem_cons_self)
    simp only
    unfold callback
    cases hdec : decs[i0]? with
    | none =>
      refine ⟨hwf, ?_, hrdy', hs⟩
      intro i d hd hreg
      simp only
      rw [← hq i d hd hreg, hr, pendingList_cons]
      have : ¬ i0 = i := by intro e; subst e; rw [hd] at hdec; cases hdec
      simp [this]
    | some d0 =>
      simp only
      by_cases hce : callExpr d0.filt (funcArgs o)
      · simp only [hce, if_true]
        refine ⟨hwf, ?_, hrdy', ?_⟩
        · intro i d hd hreg
          simp only [dispatch, startedArgs_append]
          rw [← hq i d hd hreg, hr, pendingList_cons]
          by_cases hi : i0 = i
          · subst hi
            rw [hd] at hdec; cases hdec
            simp [process, hce, List.append_assoc]
          · simp [hi]
        · intro r' hr'
          simp only [dispatch, List.mem_append, List.mem_singleton] at hr'
          rcases hr' with hr' | rfl
          · exact hs r' hr'
          · exact hreg0
      · simp only [hce]
        refine ⟨hwf, ?_, hrdy', hs⟩
        intro i d hd hreg
        simp only [Bool.false_eq_true, if_false]
        rw [← hq i d hd hreg, hr, pendingList_cons]
        by_cases hi : i0 = i
        · subst hi
          rw [hd] at hdec; cases hdec
          simp [process, hce]
        · simp [hi]

theorem inv_step (decs : List Dec) (st : State) (x : Step) (h : Inv decs st) : Inv decs (step decs st x) := by
  cases x with
  | fire e => exact inv_deliver decs _ _ h
  | take u => exact inv_take decs st h
  | emit r ek name kw =>
    simp only [step, emit]
    cases ek with
    | event => exact inv_deliver decs _ _ h
    | state => exact h
    | service => exact h
  | finish r => exact h

theorem listeners_step (decs : List Dec) (st : State) (x : Step) : (step decs st x).listeners = st.listeners := by
  cases x with
  | fire e => rfl
  | take u =>
    show (take decs st).listeners = _
    unfold take
    cases st.ready with
    | nil => rfl
    | cons m r =>
      obtain ⟨i, o⟩ := m
      simp only [callback]
      cases decs[i]? with
      | none => rfl
      | some d =>
        simp only
        by_cases hc : callExpr d.filt (funcArgs o)
        · simp only [hc, if_true]; rfl
        · simp only [hc]; rfl
  | emit r ek name kw => simp only [step, emit]; cases ek <;> rfl
  | finish r => rfl

theorem inv_exec (fl : Flags) (fs : List (List Dec)) (s : List Step) :
    Inv fs.flatten (exec fl fs s) ∧ (exec fl fs s).listeners = (init fl fs).listeners := by
  unfold exec
  have h0 := inv_init fl fs
  have h1 : (init fl fs).listeners = (init fl fs).listeners := rfl
  revert h0 h1
  generalize hst : init fl fs = st
  intro h0
  have : ∀ (s : List Step) (st' : State), Inv fs.flatten st' → st'.listeners = st.listeners →
      Inv fs.flatten (s.foldl (step fs.flatten) st') ∧ (s.foldl (step fs.flatten) st').listeners = st.listeners := by
    intro s
    induction s with
    | nil => intro st' h1 h2; exact ⟨h1, h2⟩
    | cons x r ih =>
      intro st' h1 h2
      exact ih _ (inv_step _ st' x h1) (by rw [listeners_step]; exact h2)
  intro _
  exact this s st h0 rfl

/-! ### every schedule can be completed to a quiescent one -/

theorem take_ready (decs : List Dec) (st : State) :
    (take decs st).ready = st.ready.tail ∧ (take decs st).log = st.log := by
  unfold take
  cases hr : st.ready with
  | nil => exact ⟨by simp [hr], rfl⟩
  | cons m r =>
    obtain ⟨i, o⟩ := m
    simp only [callback]
    cases decs[i]? with
    | none => exact ⟨rfl, rfl⟩
    | some d =>
      simp only
      by_cases hc : callExpr d.filt (funcArgs o)
      · simp only [hc, if_true]; exact ⟨rfl, rfl⟩
      · simp only [hc]; exact ⟨rfl, rfl⟩

theorem takeN (decs : List Dec) (n : Nat) (st : State) :
    ((List.replicate n (Step.take 0)).foldl (step decs) st).ready = st.ready.drop n ∧
    ((List.replicate n (Step.take 0)).foldl (step decs) st).log = st.log := by
  induction n generalizing st with
  | zero => simp
  | succ n ih =>
    simp only [List.replicate_succ, List.foldl_cons]
    have h := ih (step decs st (.take 0))
    rw [h.1, h.2]
    show List.drop n (take decs st).ready = _ ∧ (take decs st).log = _
    rw [(take_ready decs st).1, (take_ready decs st).2]
    refine ⟨?_, rfl⟩
    cases st.ready <;> simp

/-! ### contexts -/

def CtxInv (st : State) : Prop :=
  (∀ r, st.t2c.get r = (st.started[r]?).map (·.ctx)) ∧
  ∀ (r : Nat) (run : Run), st.started[r]? = some run → run.ctx.parent = Spec.parentOf run.args

theorem ctxInv_dispatch (st : State) (u : Nat) (k : Kind) (args : Dict) (h : CtxInv st) :
    CtxInv (dispatch st u k args) := by
  obtain ⟨h1, h2⟩ := h
  constructor
  · intro r
    simp only [dispatch, Legacy.t2c_get_append, h1, Legacy.getElem?_snoc]
    by_cases hr : r < st.started.length
    · simp [hr]
    · rw [List.getElem?_eq_none (Nat.le_of_not_lt hr)]
      by_cases he : st.started.length = r
      · subst he; simp
      · have : ¬ r = st.started.length := fun e => he e.symm
        simp [he, hr, this]
  · intro r run hr
    simp only [dispatch, Legacy.getElem?_snoc] at hr
    by_cases hlt : r < st.started.length
    · simp only [hlt, if_true] at hr; exact h2 r run hr
    · simp only [hlt, if_false] at hr
      by_cases he : r = st.started.length
      · simp only [he, if_true, Option.some.injEq] at hr; subst hr; exact Legacy.mkCtx_parent _ _
      · simp [he] at hr

theorem ctxInv_step (decs : List Dec) (st : State) (x : Step) (h : CtxInv st) : CtxInv (step decs st x) := by
  cases x with
  | fire e => exact h
  | take u =>
    simp only [step, take]
    cases st.ready with
    | nil => exact h
    | cons m r =>
      obtain ⟨i, o⟩ := m
      simp only [callback]
      cases decs[i]? with
      | none => exact h
      | some d =>
        simp only
        by_cases hc : callExpr d.filt (funcArgs o)
        · simp only [hc, if_true]
          exact ctxInv_dispatch _ i o.kind _ h
        · simp only [hc]; exact h
  | emit r ek name kw =>
    simp only [step, emit]
    cases ek <;> exact h
  | finish r => exact h

theorem ctxInv_exec (fl : Flags) (fs : List (List Dec)) (s : List Step) : CtxInv (exec fl fs s) := by
  unfold exec
  have h0 : CtxInv (init fl fs) := by
    constructor
    · intro r; simp [init, T2C.get]
    · intro r run hr; simp [init] at hr
  generalize init fl fs = st at h0
  induction s generalizing st with
  | nil => exact h0
  | cons x r ih => exact ih _ (ctxInv_step fs.flatten st x h0)

/-! ### independence of runs -/

def eraseFin (st : State) : State := { st with finished := [] }

theorem eraseFin_step (decs : List Dec) (st : State) (x : Step) (hx : Legacy.notFinish x = true) :
    eraseFin (step decs st x) = step decs (eraseFin st) x := by
  cases x with
  | fire e => rfl
  | take u =>
    show eraseFin (take decs st) = take decs (eraseFin st)
    unfold take
    have : (eraseFin st).ready = st.ready := rfl
    rw [this]
    cases st.ready with
    | nil => rfl
    | cons m r =>
      obtain ⟨i, o⟩ := m
      simp only [callback]
      cases decs[i]? with
      | none => rfl
      | some d =>
        simp only
        by_cases hc : callExpr d.filt (funcArgs o)
        · simp only [hc, if_true]; rfl
        · simp only [hc]; rfl
  | emit r ek name kw =>
    simp only [step, emit, eraseFin]
    cases ek <;> rfl
  | finish r => simp [Legacy.notFinish] at hx

theorem eraseFin_foldl (decs : List Dec) (s : List Step) (st : State) :
    eraseFin (s.foldl (step decs) st) = (s.filter Legacy.notFinish).foldl (step decs) (eraseFin st) := by
  induction s generalizing st with
  | nil => rfl
  | cons x r ih =>
    simp only [List.foldl_cons]
    by_cases hx : Legacy.notFinish x = true
    · rw [List.filter_cons_of_pos hx, List.foldl_cons, ih, eraseFin_step decs st x hx]
    · rw [List.filter_cons_of_neg hx, ih]
      cases x with
      | finish r => rfl
      | _ => simp [Legacy.notFinish] at hx

end New

end PsModel.C08
