import PsModel.Model.C10
import PsModel.Spec.C10
/-! `import_recurse` with its `visited` / memo tables computes the transitive import closure (acyclic graphs) -/
namespace PsModel.C10
open PsModel.C10.Spec

abbrev Tbl := List (Name × List Name)

theorem memoGet_cons (k' : Name) (v : List Name) (t : Tbl) (k : Name) :
    memoGet ((k', v) :: t) k = if k' = k then v else memoGet t k := by
  simp only [memoGet, List.lookup_cons]
  by_cases h : k' = k
  · subst h; simp
  · have : (k == k') = false := by
      rw [beq_eq_false_iff_ne]; exact fun e => h e.symm
    simp [this, h]

theorem memoHas_cons (k' : Name) (v : List Name) (t : Tbl) (k : Name) :
    memoHas ((k', v) :: t) k = ((k' == k) || memoHas t k) := by
  simp [memoHas]

theorem memoAdd_cons (k' : Name) (v : List Name) (t : Tbl) (n : Name) (xs : List Name) :
    memoAdd ((k', v) :: t) n xs = (if k' = n then (k', v ++ xs) else (k', v)) :: memoAdd t n xs := by
  simp [memoAdd]

theorem memoHas_append (t : Tbl) (n k : Name) (xs : List Name) :
    memoHas (t ++ [(n, xs)]) k = (memoHas t k || n == k) := by
  simp [memoHas, List.any_append]

theorem memoHas_add (t : Tbl) (n k : Name) (xs : List Name) : memoHas (memoAdd t n xs) k = memoHas t k := by
  induction t with
  | nil => rfl
  | cons kv t ih =>
    obtain ⟨k', v⟩ := kv
    rw [memoAdd_cons]
    by_cases h : k' = n
    · simp only [h, if_true, memoHas_cons, ih]
    · simp only [h, if_false, memoHas_cons, ih]

theorem memoGet_add_ne (t : Tbl) {n k : Name} (xs : List Name) (h : k ≠ n) :
    memoGet (memoAdd t n xs) k = memoGet t k := by
  induction t with
  | nil => rfl
  | cons kv t ih =>
    obtain ⟨k', v⟩ := kv
    rw [memoAdd_cons]
    by_cases hk : k' = n
    · subst hk
      have : ¬ k' = k := fun e => h e.symm
      simp only [if_true, memoGet_cons, this, if_false, ih]
    · simp only [hk, if_false, memoGet_cons, ih]

theorem memoGet_add_eq (t : Tbl) {n : Name} (xs : List Name) (h : memoHas t n = true) :
    memoGet (memoAdd t n xs) n = memoGet t n ++ xs := by
  induction t with
  | nil => simp [memoHas] at h
  | cons kv t ih =>
    obtain ⟨k', v⟩ := kv
    rw [memoAdd_cons]
    by_cases hk : k' = n
    · subst hk; simp only [if_true, memoGet_cons]
    · simp only [hk, if_false, memoGet_cons]
      apply ih
      simpa [memoHas_cons, hk] using h

theorem memoGet_append_of_has (t : Tbl) {n k : Name} (xs : List Name) (h : memoHas t k = true) :
    memoGet (t ++ [(n, xs)]) k = memoGet t k := by
  induction t with
  | nil => simp [memoHas] at h
  | cons kv t ih =>
    obtain ⟨k', v⟩ := kv
    simp only [List.cons_append, memoGet_cons]
    by_cases hk : k' = k
    · simp [hk]
    · simp only [hk, if_false]
      apply ih
      simpa [memoHas_cons, hk] using h

theorem memoGet_append_ne (t : Tbl) {n k : Name} (xs : List Name) (h : k ≠ n) :
    memoGet (t ++ [(n, xs)]) k = memoGet t k := by
  induction t with
  | nil =>
    have : ¬ n = k := fun e => h e.symm
    simp only [List.nil_append, memoGet_cons, this, if_false]
  | cons kv t ih =>
    obtain ⟨k', v⟩ := kv
    simp only [List.cons_append, memoGet_cons, ih]

theorem memoGet_append_new (t : Tbl) {n : Name} (xs : List Name) (h : memoHas t n = false) :
    memoGet (t ++ [(n, xs)]) n = xs := by
  induction t with
  | nil => simp only [List.nil_append, memoGet_cons, if_true]
  | cons kv t ih =>
    obtain ⟨k', v⟩ := kv
    have hk : ¬ k' = n := by
      intro e; simp [memoHas_cons, e] at h
    simp only [List.cons_append, memoGet_cons, hk, if_false]
    apply ih
    simpa [memoHas_cons, hk] using h

theorem memoGet_of_not_has (t : Tbl) {k : Name} (h : memoHas t k = false) : memoGet t k = [] := by
  induction t with
  | nil => rfl
  | cons kv t ih =>
    obtain ⟨k', v⟩ := kv
    have hk : ¬ k' = k := by
      intro e; simp [memoHas_cons, e] at h
    simp only [memoGet_cons, hk, if_false]
    apply ih
    simpa [memoHas_cons, hk] using h

/-- one-step unfolding of the transitive import relation -/
theorem reach_iff (cs : List Ctx) (n x : Name) :
    Reach cs n x ↔ ∃ c, findCtx cs n = some c ∧ ∃ i ∈ c.imports, x = i ∨ Reach cs i x := by
  constructor
  · intro h
    cases h with
    | direct hf hi => exact ⟨_, hf, _, hi, .inl rfl⟩
    | step hf hi hr => exact ⟨_, hf, _, hi, .inr hr⟩
  · rintro ⟨c, hf, i, hi, rfl | hr⟩
    · exact .direct hf hi
    · exact .step hf hi hr

theorem reach_trans {cs : List Ctx} {a b c : Name} (h1 : Reach cs a b) (h2 : Reach cs b c) : Reach cs a c := by
  induction h1 with
  | direct hf hi => exact .step hf hi h2
  | step hf hi _ ih => exact .step hf hi (ih h2)

/-- invariant of the tables: every finished entry (not on the recursion stack `S`) holds the full closure;
visited names without an entry are names of contexts that are not loaded -/
structure MemoInv (cs : List Ctx) (S : List Name) (m : Memo) : Prop where
  fin : ∀ k, memoHas m.tbl k = true → k ∉ S → ∀ x, x ∈ memoGet m.tbl k ↔ Reach cs k x
  vis : ∀ v, v ∈ m.visited → memoHas m.tbl v = false → findCtx cs v = none

/-- what a call `import_recurse(n, …)` guarantees -/
structure CallOK (cs : List Ctx) (S : List Name) (n : Name) (m : Memo) (r : List Name × Memo) : Prop where
  res : ∀ x, x ∈ r.1 ↔ Reach cs n x
  inv : MemoInv cs S r.2
  frame : ∀ s, s ∈ S → memoGet r.2.tbl s = memoGet m.tbl s
  mono : ∀ k, memoHas m.tbl k = true → memoHas r.2.tbl k = true
  own : (findCtx cs n).isSome = true → memoHas r.2.tbl n = true ∧ ∀ x, x ∈ memoGet r.2.tbl n ↔ Reach cs n x

def RecOK (cs : List Ctx) (rank : Name → Nat) (bound : Nat) (rec : Name → Memo → List Name × Memo) : Prop :=
  ∀ n m S, rank n < bound → (∀ s ∈ S, rank n < rank s) → MemoInv cs S m → CallOK cs S n m (rec n m)

/-- the loop `for imp_name in ctx.get_imports()` -/
theorem loop_ok (cs : List Ctx) (rank : Name → Nat) (bound : Nat) (rec : Name → Memo → List Name × Memo)
    (hrec : RecOK cs rank bound rec) (n : Name) (S : List Name) (m0 : Memo)
    (hS : ∀ s ∈ S, rank n < rank s) (hb : rank n ≤ bound) :
    ∀ (is done_ : List Name) (mm : Memo), (∀ i ∈ is, rank i < rank n) →
      MemoInv cs (n :: S) mm → memoHas mm.tbl n = true →
      (∀ x, x ∈ memoGet mm.tbl n ↔ x ∈ done_ ∨ ∃ i ∈ done_, Reach cs i x) →
      (∀ s ∈ S, memoGet mm.tbl s = memoGet m0.tbl s) → (∀ k, memoHas m0.tbl k = true → memoHas mm.tbl k = true) →
      let m2 := is.foldl (recStep rec n) mm
      MemoInv cs (n :: S) m2 ∧ memoHas m2.tbl n = true ∧
      (∀ x, x ∈ memoGet m2.tbl n ↔ x ∈ done_ ++ is ∨ ∃ i ∈ done_ ++ is, Reach cs i x) ∧
      (∀ s ∈ S, memoGet m2.tbl s = memoGet m0.tbl s) ∧ (∀ k, memoHas m0.tbl k = true → memoHas m2.tbl k = true) := by
  intro is
  induction is with
  | nil =>
    intro done_ mm _ hinv hhas hset hfr hmono
    simpa using ⟨hinv, hhas, hset, hfr, hmono⟩
  | cons imp is ih =>
    intro done_ mm hrk hinv hhas hset hfr hmono
    simp only [List.foldl_cons]
    -- the table handed to the recursive call
    have hinv' : MemoInv cs (n :: S) { mm with tbl := memoAdd mm.tbl n [imp] } := by
      constructor
      · intro k hk hkS x
        have hkn : k ≠ n := fun h => hkS (h ▸ List.mem_cons_self)
        simp only [memoHas_add] at hk
        simp only [memoGet_add_ne _ _ hkn]
        exact hinv.fin k hk hkS x
      · intro v hv hh
        simp only [memoHas_add] at hh
        exact hinv.vis v hv hh
    have hri : rank imp < rank n := hrk imp List.mem_cons_self
    have hcall := hrec imp { mm with tbl := memoAdd mm.tbl n [imp] } (n :: S) (by omega)
      (by
        intro s hs
        rcases List.mem_cons.mp hs with rfl | hs
        · exact hri
        · have := hS s hs; omega) hinv'
    -- abbreviations
    generalize hrdef : rec imp { mm with tbl := memoAdd mm.tbl n [imp] } = r at hcall
    have hstep : recStep rec n mm imp = { r.2 with tbl := memoAdd r.2.tbl n r.1 } := by
      simp only [recStep, hrdef]
    rw [hstep]
    have hhas_r : memoHas r.2.tbl n = true := hcall.mono n (by simpa [memoHas_add] using hhas)
    have hget_r : memoGet r.2.tbl n = memoGet mm.tbl n ++ [imp] := by
      rw [hcall.frame n List.mem_cons_self]
      exact memoGet_add_eq _ _ hhas
    have := ih (done_ ++ [imp]) { r.2 with tbl := memoAdd r.2.tbl n r.1 }
      (fun i hi => hrk i (List.mem_cons_of_mem _ hi))
      (by
        constructor
        · intro k hk hkS x
          have hkn : k ≠ n := fun h => hkS (h ▸ List.mem_cons_self)
          simp only [memoHas_add] at hk
          simp only [memoGet_add_ne _ _ hkn]
          exact hcall.inv.fin k hk hkS x
        · intro v hv hh
          simp only [memoHas_add] at hh
          exact hcall.inv.vis v hv hh)
      (by simpa [memoHas_add] using hhas_r)
      (by
        intro x
        simp only [memoGet_add_eq _ _ hhas_r, hget_r, List.mem_append, List.mem_singleton, hset x, hcall.res x]
        constructor
        · rintro ((h | h) | h)
          · rcases h with h | ⟨i, hi, hr⟩
            · exact .inl (.inl h)
            · exact .inr ⟨i, .inl hi, hr⟩
          · exact .inl (.inr h)
          · exact .inr ⟨imp, .inr rfl, h⟩
        · rintro ((h | h) | ⟨i, hi | rfl, hr⟩)
          · exact .inl (.inl (.inl h))
          · exact .inl (.inr h)
          · exact .inl (.inl (.inr ⟨i, hi, hr⟩))
          · exact .inr hr)
      (by
        intro s hs
        have hsn : s ≠ n := by
          intro h; subst h; have := hS s hs; omega
        simp only [memoGet_add_ne _ _ hsn]
        rw [hcall.frame s (List.mem_cons_of_mem _ hs)]
        simp only [memoGet_add_ne _ _ hsn]
        exact hfr s hs)
      (by
        intro k hk
        simp only [memoHas_add]
        exact hcall.mono k (by simpa [memoHas_add] using hmono k hk))
    simpa [List.append_assoc] using this

/-- `import_recurse` meets its contract for every depth budget exceeding the rank of the start node -/
theorem importRecurse_ok (cs : List Ctx) (rank : Name → Nat) (hacyc : Acyclic cs rank) :
    ∀ fuel, RecOK cs rank fuel (importRecurse cs fuel) := by
  intro fuel
  induction fuel with
  | zero => intro n m S h; omega
  | succ fuel ih =>
    intro n m S hfuel hS hinv
    unfold importRecurse
    by_cases hseen : (m.visited.contains n || memoHas m.tbl n) = true
    · -- already visited or memoised
      simp only [hseen, if_true]
      have hnS : n ∉ S := fun h => by have := hS n h; omega
      by_cases hhas : memoHas m.tbl n = true
      · exact ⟨fun x => hinv.fin n hhas hnS x, hinv, fun _ _ => rfl, fun _ h => h,
          fun _ => ⟨hhas, fun x => hinv.fin n hhas hnS x⟩⟩
      · have hhas' : memoHas m.tbl n = false := by simpa using hhas
        have hv : n ∈ m.visited := by
          simp only [Bool.or_eq_true, hhas', Bool.false_eq_true, or_false] at hseen
          simpa using hseen
        have hnone := hinv.vis n hv hhas'
        refine ⟨fun x => ?_, hinv, fun _ _ => rfl, fun _ h => h, fun h => by simp [hnone] at h⟩
        rw [memoGet_of_not_has _ hhas', reach_iff]
        simp [hnone]
    · simp only [hseen, Bool.false_eq_true, if_false]
      have hseen' : m.visited.contains n = false ∧ memoHas m.tbl n = false := by
        simpa [Bool.or_eq_false_iff] using hseen
      cases hfind : findCtx cs n with
      | none =>
        simp only
        refine ⟨fun x => ?_, ⟨hinv.fin, ?_⟩, fun _ _ => rfl, fun _ h => h, fun h => by simp [hfind] at h⟩
        · rw [reach_iff]; simp [hfind]
        · intro v hv hh
          rcases List.mem_cons.mp hv with rfl | hv
          · exact hfind
          · exact hinv.vis v hv hh
      | some c =>
        simp only
        have hm1 : MemoInv cs (n :: S) { visited := n :: m.visited, tbl := m.tbl ++ [(n, [])] } := by
          constructor
          · intro k hk hkS x
            have hkn : k ≠ n := fun h => hkS (h ▸ List.mem_cons_self)
            have hk' : memoHas m.tbl k = true := by
              rw [memoHas_append] at hk
              have : ¬ (n == k) = true := by
                intro hh; exact hkn (beq_iff_eq.mp hh).symm
              simpa [this] using hk
            simp only [memoGet_append_ne _ _ hkn]
            exact hinv.fin k hk' (fun h => hkS (List.mem_cons_of_mem _ h)) x
          · intro v hv hh
            rw [memoHas_append] at hh
            have hh' : memoHas m.tbl v = false ∧ (n == v) = false := by simpa [Bool.or_eq_false_iff] using hh
            rcases List.mem_cons.mp hv with rfl | hv
            · simp at hh'
            · exact hinv.vis v hv hh'.1
        have hloop := loop_ok cs rank fuel (importRecurse cs fuel) ih n S
          { visited := n :: m.visited, tbl := m.tbl ++ [(n, [])] } hS (by omega) c.imports []
          { visited := n :: m.visited, tbl := m.tbl ++ [(n, [])] }
          (fun i hi => hacyc n c hfind i hi) hm1
          (by simp [memoHas_append])
          (by intro x; simp [memoGet_append_new _ _ hseen'.2])
          (fun _ _ => rfl) (fun _ h => h)
        simp only [List.nil_append] at hloop
        obtain ⟨hinv2, hhas2, hset2, hfr2, hmono2⟩ := hloop
        have hres : ∀ x, x ∈ memoGet (c.imports.foldl (recStep (importRecurse cs fuel) n)
            { visited := n :: m.visited, tbl := m.tbl ++ [(n, [])] }).tbl n ↔ Reach cs n x := by
          intro x
          rw [hset2 x, reach_iff]
          simp only [hfind, Option.some.injEq, exists_eq_left']
          constructor
          · rintro (h | ⟨i, hi, hr⟩)
            · exact ⟨x, h, .inl rfl⟩
            · exact ⟨i, hi, .inr hr⟩
          · rintro ⟨i, hi, rfl | hr⟩
            · exact .inl hi
            · exact .inr ⟨i, hi, hr⟩
        refine ⟨hres, ⟨?_, hinv2.vis⟩, ?_, ?_, fun _ => ⟨hhas2, hres⟩⟩
        · intro k hk hkS x
          by_cases hkn : k = n
          · subst hkn; exact hres x
          · exact hinv2.fin k hk (by simp [hkn, hkS]) x
        · intro s hs
          have hsn : s ≠ n := by intro h; subst h; have := hS s hs; omega
          rw [hfr2 s hs]
          exact memoGet_append_ne _ _ hsn
        · intro k hk
          exact hmono2 k (by simp [memoHas_append, hk])

end PsModel.C10
