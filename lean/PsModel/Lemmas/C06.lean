import PsModel.Lemmas.C07
import PsModel.Spec.C06
/-!
# C06 helper lemmas: `parse_date_time` for each date form, `IsNext` algebra, the accumulator of `timer_trigger_next`
-/
namespace PsModel.C07

/-! ## calendar: the converse round trip and monotonicity in the year -/

/-- uniqueness of the (year of era, day of year) decomposition of a day of the era -/
theorem yoe_unique (yoe doy : Int) (h0 : 0 ≤ yoe) (h1 : yoe ≤ 399) (hd0 : 0 ≤ doy) (hd1 : doy ≤ 365)
    (hleap : doy = 365 → (yoe + 1) % 4 = 0 ∧ ((yoe + 1) % 100 ≠ 0 ∨ yoe + 1 = 400)) :
    yoeOf (365 * yoe + yoe / 4 - yoe / 100 + doy) = yoe ∧ doyOf (365 * yoe + yoe / 4 - yoe / 100 + doy) = doy := by
  -- yoe = 100 a + 4 b + c
  obtain ⟨a, b, c, ha0, ha3, hb0, hb24, hc0, hc3, hy⟩ :
      ∃ a b c : Int, 0 ≤ a ∧ a ≤ 3 ∧ 0 ≤ b ∧ b ≤ 24 ∧ 0 ≤ c ∧ c ≤ 3 ∧ yoe = 100 * a + 4 * b + c :=
    ⟨yoe / 100, yoe % 100 / 4, yoe % 4, by omega, by omega, by omega, by omega, by omega, by omega, by omega⟩
  have q4 : yoe / 4 = 25 * a + b := by omega
  have q100 : yoe / 100 = a := by omega
  have hdoe : 365 * yoe + yoe / 4 - yoe / 100 + doy = 36524 * a + 1461 * b + 365 * c + doy := by omega
  rw [hdoe]
  have hl : doy = 365 → c = 3 ∧ (b ≠ 24 ∨ a = 3) := by
    intro h; have := hleap h; omega
  have e100 : n100 (36524 * a + 1461 * b + 365 * c + doy) = a := by
    simp only [n100]; omega
  have er1 : r1 (36524 * a + 1461 * b + 365 * c + doy) = 1461 * b + 365 * c + doy := by
    simp only [r1, e100]; omega
  have e4 : n4 (36524 * a + 1461 * b + 365 * c + doy) = b := by
    simp only [n4, er1]; omega
  have er2 : r2 (36524 * a + 1461 * b + 365 * c + doy) = 365 * c + doy := by
    simp only [r2, er1, e4]; omega
  have e1 : n1 (36524 * a + 1461 * b + 365 * c + doy) = c := by
    simp only [n1, er2]; omega
  constructor
  · simp only [yoeOf, e100, e4, e1]; omega
  · simp only [doyOf, er2, e1]; omega


/-- civil date → day number → civil date is the identity on the dates `datetime(y, m, d)` accepts -/
theorem civilFromDays_daysFromCivil (y m d : Int) (hv : validDate y m d = true) :
    civilFromDays (daysFromCivil y m d) = ⟨y, m, d⟩ := by
  simp only [validDate, Bool.and_eq_true, decide_eq_true_eq] at hv
  obtain ⟨⟨⟨⟨⟨_, _⟩, hm1⟩, hm12⟩, hd1⟩, hdlen⟩ := hv
  -- March-based year, month index and day of year
  generalize hy' : (if m ≤ 2 then y - 1 else y) = y' at *
  generalize hmp : (if m > 2 then m - 3 else m + 9) = mp at *
  have hleapY : m = 2 → d = 29 → (y % 4 = 0 ∧ (y % 100 ≠ 0 ∨ y % 400 = 0)) := by
    intro h2 h29
    subst h2
    simp only [daysInMonth, beq_self_eq_true, if_true] at hdlen
    by_cases hl : isLeap y = true
    · exact (isLeap_iff y).mp hl
    · simp only [hl, Bool.false_eq_true, if_false] at hdlen; omega
  have hdoy : 0 ≤ mpStart mp + d - 1 ∧ mpStart mp + d - 1 ≤ 365 ∧
      (mpStart mp + d - 1 = 365 → m = 2 ∧ d = 29) ∧ (5 * (mpStart mp + d - 1) + 2) / 153 = mp := by
    have hcases : m = 1 ∨ m = 2 ∨ m = 3 ∨ m = 4 ∨ m = 5 ∨ m = 6 ∨ m = 7 ∨ m = 8 ∨ m = 9 ∨ m = 10 ∨ m = 11 ∨ m = 12 := by
      omega
    simp only [daysInMonth] at hdlen
    rcases hcases with h | h | h | h | h | h | h | h | h | h | h | h <;> subst h <;> simp at hmp <;> subst hmp <;>
      simp [mpStart] at hdlen ⊢ <;> (try split at hdlen) <;> omega
  obtain ⟨hd0, hd365, hd29, hmpq⟩ := hdoy
  generalize hdoyv : mpStart mp + d - 1 = doy at *
  have hyoe0 : 0 ≤ y' % 400 := by omega
  have hyoe1 : y' % 400 ≤ 399 := by omega
  have hleap : doy = 365 → (y' % 400 + 1) % 4 = 0 ∧ ((y' % 400 + 1) % 100 ≠ 0 ∨ y' % 400 + 1 = 400) := by
    intro h
    obtain ⟨h2, h29⟩ := hd29 h
    have := hleapY h2 h29
    have : y' = y - 1 := by rw [← hy']; simp [h2]
    omega
  obtain ⟨hu1, hu2⟩ := yoe_unique (y' % 400) doy hyoe0 hyoe1 hd0 hd365 hleap
  have hz : daysFromCivil y m d + 719468 = 146097 * (y' / 400) + (365 * (y' % 400) + y' % 400 / 4 - y' % 400 / 100 + doy) := by
    simp only [daysFromCivil, hy', hmp]
    rw [yearStart_split]
    omega
  have hdoeb : 0 ≤ 365 * (y' % 400) + y' % 400 / 4 - y' % 400 / 100 + doy ∧
      365 * (y' % 400) + y' % 400 / 4 - y' % 400 / 100 + doy < 146097 := by omega
  generalize hdoe : 365 * (y' % 400) + y' % 400 / 4 - y' % 400 / 100 + doy = doe at *
  have hera : (daysFromCivil y m d + 719468) / 146097 = y' / 400 := by omega
  have hdoe' : daysFromCivil y m d + 719468 - y' / 400 * 146097 = doe := by omega
  simp only [civilFromDays, hera, hdoe', hu1, hu2, hmpq]
  have hmpb : 0 ≤ mp ∧ mp ≤ 11 := by omega
  have hmm : (if mp < 10 then mp + 3 else mp - 9) = m := by omega
  have hyy : (if (if mp < 10 then mp + 3 else mp - 9) ≤ 2 then y' % 400 + y' / 400 * 400 + 1 else y' % 400 + y' / 400 * 400) = y := by
    rw [hmm]; omega
  have hdd : doy - mpStart mp + 1 = d := by omega
  rw [hyy, hmm, hdd]

theorem yearStart_step (y : Int) : yearStart y + 365 ≤ yearStart (y + 1) := by
  simp only [yearStart]; omega

theorem yearStart_mono (a b : Int) (h : a ≤ b) : yearStart a ≤ yearStart b := by
  have key : ∀ n : Nat, yearStart a ≤ yearStart (a + n) := by
    intro n
    induction n with
    | zero => simp
    | succ k ih =>
      have := yearStart_step (a + k)
      have e : a + ((k + 1 : Nat) : Int) = a + k + 1 := by omega
      rw [e]; omega
  have := key (b - a).toNat
  rw [Int.toNat_of_nonneg (by omega)] at this
  have e : a + (b - a) = b := by omega
  rw [e] at this
  exact this

/-- a date of an earlier year lies before 1 January of a later year -/
theorem dfc_lt_newYear (y1 y2 m d : Int) (hm1 : 1 ≤ m) (hm12 : m ≤ 12) (hd1 : 1 ≤ d) (hd31 : d ≤ 31) (h : y1 < y2) :
    daysFromCivil y1 m d + 1 ≤ daysFromCivil y2 1 1 := by
  have h1 := yearStart_mono y1 (y2 - 1) (by omega)
  have h2 := yearStart_step (y1 - 1)
  have e : y1 - 1 + 1 = y1 := by omega
  rw [e] at h2
  simp only [daysFromCivil, mpStart]
  by_cases hm : m ≤ 2
  · simp only [hm, if_true]
    have : ¬ m > 2 := by omega
    simp only [this, if_false]
    simp
    omega
  · have hm' : m > 2 := by omega
    simp only [hm, if_false, hm', if_true]
    simp
    omega

/-- 1 January of the year of a day is not after that day -/
theorem newYear_le (z : Int) (hlo : minDay ≤ z) (hhi : z ≤ maxDay) : daysFromCivil (civilFromDays z).y 1 1 ≤ z := by
  have hv := validDate_civilFromDays z hlo hhi
  have hr := daysFromCivil_civilFromDays z
  simp only [validDate, Bool.and_eq_true, decide_eq_true_eq] at hv
  obtain ⟨⟨⟨⟨⟨_, _⟩, hm1⟩, hm12⟩, hd1⟩, _⟩ := hv
  generalize (civilFromDays z).y = y at *
  generalize (civilFromDays z).m = m at *
  generalize (civilFromDays z).d = d at *
  have h2 := yearStart_step (y - 1)
  have e : y - 1 + 1 = y := by omega
  rw [e] at h2
  rw [← hr]
  simp only [daysFromCivil, mpStart]
  by_cases hm : m ≤ 2
  · have : ¬ m > 2 := by omega
    simp [hm, this]
    omega
  · have hm' : m > 2 := by omega
    simp [hm, hm']
    omega

/-- the same month/day in a later year is later -/
theorem dfc_year_mono (y1 y2 m d : Int) (h : y1 ≤ y2) : daysFromCivil y1 m d ≤ daysFromCivil y2 m d := by
  simp only [daysFromCivil]
  by_cases hm : m ≤ 2
  · simp only [hm, if_true]
    have := yearStart_mono (y1 - 1) (y2 - 1) (by omega)
    omega
  · simp only [hm, if_false]
    have := yearStart_mono y1 y2 h
    omega


theorem daysInMonth_le (y m : Int) : daysInMonth y m ≤ 31 := by
  simp only [daysInMonth]
  split
  · split <;> omega
  · split <;> omega

end PsModel.C07

namespace PsModel.C06
open PsModel.C07

/-! ## `finishDT` / `parseDT` for the fixed time forms -/

theorem finishDT_fixed (P : C07.Params) (time : TimeSpec) (x off : Int) (fixed : Bool) (day : Int)
    (h : Spec.fixedTod time = some x) : finishDT P time off fixed day = (midnight day + x + off, fixed) := by
  cases time <;> simp [Spec.fixedTod] at h <;> subst h <;> simp [finishDT, timeStage]

/-- date-less specification, any day offset -/
theorem parse_noDate (P : C07.Params) (time : TimeSpec) (x off k now st : Int) (h : Spec.fixedTod time = some x)
    (hd : dayInRange (dayOf now)) :
    parseDT P (.at .none time off) k now st = some (midnight (dayOf now + k) + x + off, false) := by
  rw [parseDT_noDate P time off k now st hd, finishDT_fixed P time x off false _ h]

/-- weekday specification: the day offset argument is ignored -/
theorem parse_dow (P : C07.Params) (time : TimeSpec) (x off k j now st : Int) (h : Spec.fixedTod time = some x)
    (hd : dayInRange (dayOf now)) :
    parseDT P (.at (.dow j) time off) k now st =
      some (midnight (dayOf now + dowOffset j (weekday (dayOf now))) + x + off, true) := by
  simp only [parseDT, dateStage, baseDay, validDate_civilFromDays _ hd.1 hd.2, daysFromCivil_civilFromDays, if_true]
  rw [finishDT_fixed P time x off true _ h]

/-- full date: neither `now` nor the day offset matter -/
theorem parse_full (P : C07.Params) (time : TimeSpec) (x off k y m d now st : Int) (h : Spec.fixedTod time = some x)
    (hv : validDate y m d = true) :
    parseDT P (.at (.full y m d) time off) k now st = some (midnight (daysFromCivil y m d) + x + off, true) := by
  simp only [parseDT, dateStage, baseDay, hv, if_true, Int.add_zero]
  rw [finishDT_fixed P time x off true _ h]

/-- month/day: this year's date -/
theorem parse_monthDay (P : C07.Params) (time : TimeSpec) (x off k m d now st : Int) (h : Spec.fixedTod time = some x)
    (hv : validDate (civilFromDays (dayOf now)).y m d = true) :
    parseDT P (.at (.monthDay m d) time off) k now st =
      some (midnight (daysFromCivil (civilFromDays (dayOf now)).y m d) + x + off, true) := by
  simp only [parseDT, dateStage, baseDay, hv, if_true, Int.add_zero]
  rw [finishDT_fixed P time x off true _ h]

theorem parse_now (P : C07.Params) (off k now st : Int) : parseDT P (.now off) k now st = some (st + off, true) := rfl

/-! ## `IsNext` -/

/-- between `now` and the announced instant the answer does not change: no instant is skipped -/
theorem IsNext.shift {D : Int → Prop} {now now' t : Int} (h : IsNext D now (some t)) (h1 : now ≤ now') (h2 : now' < t) :
    IsNext D now' (some t) := by
  obtain ⟨hd, _, hmin⟩ := h
  exact ⟨hd, h2, fun t' ht' hlt => hmin t' ht' (by omega)⟩

/-- at or after the announced instant a strictly later one (or none) is announced: no instant is repeated -/
theorem IsNext.later {D : Int → Prop} {now' t : Int} {r : Option Int} (h : IsNext D now' r) (h1 : t ≤ now') :
    ∀ t', r = some t' → t < t' := by
  intro t' hr
  subst hr
  have := h.2.1
  omega

/-- answers are unique -/
theorem IsNext.unique {D : Int → Prop} {now : Int} {r r' : Option Int} (h : IsNext D now r) (h' : IsNext D now r') :
    r = r' := by
  cases r with
  | none =>
    cases r' with
    | none => rfl
    | some t' => exact absurd h'.2.1 (h t' h'.1)
  | some t =>
    cases r' with
    | none => exact absurd h.2.1 (h' t h.1)
    | some t' =>
      have a := h.2.2 t' h'.1 h'.2.1
      have b := h'.2.2 t h.1 h.2.1
      congr 1
      omega

/-! ## once -/

theorem tdDays_spec (a : Int) : tdDays a * usDay ≤ a ∧ a < tdDays a * usDay + usDay := by
  simp only [tdDays, usDay]
  omega

theorem midnight_add (d k : Int) : midnight (d + k) = midnight d + k * usDay := by
  simp only [midnight, usDay]
  omega

/-- `once(time ± off)`: the second parse lands on the first occurrence after `now` -/
theorem onceCand_daily (P : Params) (time : TimeSpec) (x off now st : Int) (h : Spec.fixedTod time = some x)
    (hd : dayInRange (dayOf now)) (hst : ¬ (now = midnight (dayOf now) + x + off ∧ now = st)) :
    ∃ t, onceCand false P (.at .none time off) now st = some (some t) ∧ IsNext (Spec.daily (x + off)) now (some t) := by
  have hq := tdDays_spec (now - (midnight (dayOf now) + x + off))
  generalize hqd : tdDays (now - (midnight (dayOf now) + x + off)) = q at hq
  have p0 := parse_noDate P.base time x off 0 now st h hd
  have pk := parse_noDate P.base time x off (q + 1) now st h hd
  simp only [Int.add_zero] at p0
  refine ⟨midnight (dayOf now) + x + off + (q + 1) * usDay, ?_, ?_⟩
  · simp only [onceCand, p0, onceSecond, hqd]
    by_cases hz : q + 1 = 0
    · have : (q + 1 != 0) = false := by simp [hz]
      simp only [this, Bool.false_and, Bool.false_eq_true, if_false, hz, Int.zero_mul, Int.add_zero]
      have hlt : now < midnight (dayOf now) + x + off := by
        have : q = -1 := by omega
        subst this; simp only [usDay] at hq ⊢; omega
      simp [hlt]
    · have h1 : (q + 1 != 0) = true := by simp [hz]
      have h2 : (!(now == midnight (dayOf now) + x + off && now == st)) = true := by
        cases hab : (now == midnight (dayOf now) + x + off && now == st) with
        | false => rfl
        | true =>
          exfalso; apply hst
          simp only [Bool.and_eq_true, beq_iff_eq] at hab
          exact hab
      simp only [h1, h2, Bool.false_eq_true, if_false, Bool.and_self, if_true, pk, midnight_add]
      have hlt : now < midnight (dayOf now) + (q + 1) * usDay + x + off := by
        simp only [usDay] at hq ⊢; omega
      have e : midnight (dayOf now) + (q + 1) * usDay + x + off = midnight (dayOf now) + x + off + (q + 1) * usDay := by omega
      rw [e] at hlt
      simp only [e, hlt, decide_true, Bool.true_or, if_true]
  · refine ⟨⟨dayOf now + (q + 1), ?_⟩, ?_, ?_⟩
    · rw [midnight_add]; omega
    · simp only [usDay] at hq ⊢; omega
    · intro t' ⟨day', ht'⟩ hlt
      subst ht'
      simp only [midnight, usDay] at hq hlt ⊢
      omega

/-- when both `parse_date_time` calls give the same instant `T` (explicit date, weekday, `now`) -/
theorem onceCand_const (bv : Bool) (P : Params) (d : DTSpec) (now st T : Int) (fx : Bool)
    (hp : ∀ k, parseDT P.base d k now st = some (T, fx)) :
    onceCand bv P d now st = some (if now < T || (now == T && now == st) then some T else none) := by
  have h2 : onceSecond bv P d now st (T, fx) = some (T, fx) := by
    simp only [onceSecond]
    split
    · split
      · exact hp _
      · rfl
    · split
      · exact hp _
      · rfl
  simp only [onceCand, hp 0, h2]

theorem isNext_single (T now : Int) : IsNext (Spec.single T) now (if now < T then some T else none) := by
  by_cases h : now < T
  · simp only [h, if_true]
    exact ⟨rfl, h, fun t' ht' _ => by simp only [Spec.single] at ht'; omega⟩
  · simp only [h, if_false]
    intro t' ht'
    simp only [Spec.single] at ht'
    omega

/-- the first weekday `j` on or after `today` -/
theorem weekday_dowOffset (j today : Int) (h0 : 0 ≤ j) (h6 : j ≤ 6) :
    weekday (today + dowOffset j (weekday today)) = j ∧ 0 ≤ dowOffset j (weekday today) ∧
      dowOffset j (weekday today) ≤ 6 := by
  simp only [weekday, dowOffset]
  by_cases hjw : j ≥ (today + 4) % 7
  · simp only [hjw, if_true]; omega
  · simp only [hjw, if_false]; omega

theorem isNext_weekly (j c now : Int) (h0 : 0 ≤ j) (h6 : j ≤ 6) (hc0 : 0 ≤ c) (hc1 : c < usDay)
    (hlt : now < midnight (dayOf now + dowOffset j (weekday (dayOf now))) + c) :
    IsNext (Spec.weekly j c) now (some (midnight (dayOf now + dowOffset j (weekday (dayOf now))) + c)) := by
  obtain ⟨hw, ho0, ho6⟩ := weekday_dowOffset j (dayOf now) h0 h6
  refine ⟨⟨_, hw, rfl⟩, hlt, ?_⟩
  intro t' ⟨day', hw', ht'⟩ hlt'
  subst ht'
  have hs := time_split now
  have hb := todOf_bounds now
  generalize dayOf now = today at *
  generalize dowOffset j (weekday today) = o at *
  simp only [weekday] at hw hw'
  simp only [midnight, usDay] at *
  omega

/-- `once(M/D …)` while this year's occurrence is still ahead -/
theorem isNext_yearly (m d c now : Int) (hd : dayInRange (dayOf now)) (hc0 : 0 ≤ c) (hc1 : c < usDay)
    (hv : validDate (civilFromDays (dayOf now)).y m d = true)
    (hlt : now < midnight (daysFromCivil (civilFromDays (dayOf now)).y m d) + c) :
    IsNext (Spec.yearly m d c) now (some (midnight (daysFromCivil (civilFromDays (dayOf now)).y m d) + c)) := by
  refine ⟨⟨_, hv, rfl⟩, hlt, ?_⟩
  intro t' ⟨y2, hv2, ht'⟩ hlt'
  subst ht'
  have hny := newYear_le (dayOf now) hd.1 hd.2
  have hs := time_split now
  have hb := todOf_bounds now
  have hv2' := hv2
  simp only [validDate, Bool.and_eq_true, decide_eq_true_eq] at hv2'
  obtain ⟨⟨⟨⟨⟨_, _⟩, hm1⟩, hm12⟩, hd1⟩, hdl⟩ := hv2'
  have hd31 : d ≤ 31 := by have := daysInMonth_le y2 m; omega
  generalize hY : (civilFromDays (dayOf now)).y = Y at *
  by_cases h1 : y2 < Y
  · have := dfc_lt_newYear y2 Y m d hm1 hm12 hd1 hd31 h1
    generalize daysFromCivil y2 m d = a at *
    generalize daysFromCivil Y 1 1 = b at *
    generalize dayOf now = today at *
    simp only [midnight, usDay] at *
    omega
  · have := dfc_year_mono Y y2 m d (by omega)
    generalize daysFromCivil y2 m d = a at *
    generalize daysFromCivil Y m d = b at *
    simp only [midnight, usDay] at *
    omega

/-! ## period -/

theorem quot_exact (F : TFlags) (P : Params) (hE : FloatOK F P) (a per : Int) (hp : 0 < per) : quot F P a per = a / per := by
  simp only [quot]
  cases hf : F.floatTick with
  | false => simp
  | true => simp [hE hf a per hp]

/-- `start + per·(1 + ⌊(now − start)/per⌋)` is the first tick after `now` -/
theorem tick_least (S per now : Int) (hp : 0 < per) (hge : S ≤ now) :
    now < S + per * (1 + (now - S) / per) ∧
    ∀ n : Nat, now < S + n * per → S + per * (1 + (now - S) / per) ≤ S + n * per := by
  have h1 : (now - S) / per * per ≤ now - S := Int.ediv_mul_le _ (by omega)
  have h2 : now - S < ((now - S) / per + 1) * per := Int.lt_ediv_add_one_mul_self _ hp
  have e : per * (1 + (now - S) / per) = (now - S) / per * per + per := by
    rw [Int.mul_add, Int.mul_one, Int.mul_comm per, Int.add_comm]
  have e2 : ((now - S) / per + 1) * per = (now - S) / per * per + per := by
    rw [Int.add_mul, Int.one_mul]
  rw [e]
  rw [e2] at h2
  generalize hq : (now - S) / per = q at *
  generalize hm : q * per = m at *
  refine ⟨by omega, ?_⟩
  intro n hn
  by_cases hle : (n : Int) ≤ q
  · have := Int.mul_le_mul_of_nonneg_right hle (by omega : 0 ≤ per)
    rw [hm] at this
    omega
  · have hge' : q + 1 ≤ (n : Int) := by omega
    have := Int.mul_le_mul_of_nonneg_right hge' (by omega : 0 ≤ per)
    rw [Int.add_mul, Int.one_mul, hm] at this
    omega

theorem tick_nat (S per now : Int) (hp : 0 < per) (hge : S ≤ now) :
    ∃ n : Nat, S + per * (1 + (now - S) / per) = S + n * per := by
  have hq : 0 ≤ (now - S) / per := Int.ediv_nonneg (by omega) (by omega)
  refine ⟨(1 + (now - S) / per).toNat, ?_⟩
  rw [Int.toNat_of_nonneg (by omega), Int.mul_comm]

/-- `period(start, per)` with a start that does not depend on `now`: the answer of the no-end branch -/
theorem periodNoEnd_next (F : TFlags) (P : Params) (hE : FloatOK F P) (S per now st : Int) (hp : 0 < per)
    (hns : ¬ (now = S ∧ now = st)) :
    IsNext (Spec.progression S per) now (periodNoEnd F P S per now st ⟨none, none⟩).next := by
  have hst : (now == S && now == st) = false := by
    cases h1 : now == S <;> cases h2 : now == st <;> simp_all
  simp only [periodNoEnd, hst, Bool.or_false, Bool.not_false, Bool.and_true, nextTick, quot_exact F P hE _ _ hp]
  by_cases hlt : now < S
  · have hge : ¬ now ≥ S := by omega
    simp only [hlt, decide_true, if_true, hge, decide_false, Bool.false_eq_true, if_false, NT.take]
    refine ⟨⟨0, by simp⟩, hlt, ?_⟩
    intro t' ⟨n, hn⟩ _
    subst hn
    have : 0 ≤ (n : Int) * per := Int.mul_nonneg (by omega) (by omega)
    omega
  · have hge : now ≥ S := by omega
    obtain ⟨h1, h2⟩ := tick_least S per now hp (by omega)
    simp only [hlt, decide_false, Bool.false_eq_true, if_false, hge, decide_true, if_true, h1, NT.take]
    refine ⟨tick_nat S per now hp (by omega), h1, ?_⟩
    intro t' ⟨n, hn⟩ hlt'
    subst hn
    exact h2 n hlt'

/-- a time-only start below the interval, the interval dividing a day: today's progression and the progression over all
    days have the same first element after `now` -/
theorem isNext_dailyProgression (s per k today now t : Int) (hp : 0 < per) (hk : usDay = k * per) (hs0 : 0 ≤ s)
    (hs1 : s < per) (hnow : midnight today ≤ now)
    (h : IsNext (Spec.progression (midnight today + s) per) now (some t)) :
    IsNext (Spec.dailyProgression s per) now (some t) := by
  obtain ⟨⟨n, hn⟩, hlt, hmin⟩ := h
  have hmid : midnight today = today * k * per := by
    simp only [midnight]; rw [hk, Int.mul_assoc]
  refine ⟨⟨today * k + n, ?_⟩, hlt, ?_⟩
  · rw [hn, hmid, Int.add_mul]; omega
  · intro t' ⟨m, hm⟩ hlt'
    -- t' = A + (m - today*k)·per with a non-negative multiplier
    have hA : t' = midnight today + s + (m - today * k) * per := by
      rw [hm, hmid, Int.sub_mul]; omega
    have hpos : 0 ≤ m - today * k := by
      by_cases hneg : m - today * k ≤ -1
      · have := Int.mul_le_mul_of_nonneg_right hneg (by omega : 0 ≤ per)
        rw [Int.neg_mul, Int.one_mul] at this
        omega
      · omega
    apply hmin t' ⟨(m - today * k).toNat, ?_⟩ hlt'
    rw [Int.toNat_of_nonneg hpos]
    exact hA

/-- the `day_dither = [0]` loop for dated start and end -/
theorem dither_dated (F : TFlags) (P : Params) (hE : FloatOK F P) (startSpec stopSpec : DTSpec) (S E per now st : Int) (fs fe : Bool)
    (hp : 0 < per) (hS : ∀ k, parseDT P.base startSpec k now st = some (S, fs))
    (hEn : ∀ k, parseDT P.base stopSpec k now st = some (E, fe)) (hns : ¬ (now = S ∧ now = st)) :
    ∃ r, ditherLoop F P startSpec stopSpec per 0 now st ⟨none, none⟩ [0] = some r ∧
      IsNext (Spec.progressionTo S per E) now r.next := by
  have hst : (now == S && now == st) = false := by
    cases h1 : now == S <;> cases h2 : now == st <;> simp_all
  simp only [ditherLoop, hS, hEn, hst, Bool.or_false, nextTick, quot_exact F P hE _ _ hp]
  by_cases hlt : now < S
  · by_cases hle : S ≤ E
    · refine ⟨NT.take ⟨none, none⟩ S S, by simp [hlt, hle], ?_⟩
      simp only [NT.take]
      refine ⟨⟨0, by simp, hle⟩, hlt, ?_⟩
      intro t' ⟨n, hn, _⟩ _
      subst hn
      have : 0 ≤ (n : Int) * per := Int.mul_nonneg (by omega) (by omega)
      omega
    · -- start after end: nothing is denoted; the tick cannot satisfy start ≤ tick ≤ end
      have hq : (now - S) / per ≤ -1 := by
        have := Int.ediv_lt_of_lt_mul hp (by omega : now - S < 0 * per)
        omega
      have htick : per * (1 + (now - S) / per) ≤ 0 := by
        have := Int.mul_le_mul_of_nonneg_left (by omega : 1 + (now - S) / per ≤ 0) (by omega : 0 ≤ per)
        simpa using this
      have hcond : (decide (S ≤ S + per * (1 + (now - S) / per)) && decide (S + per * (1 + (now - S) / per) ≤ E)) = false := by
        rw [Bool.and_eq_false_iff]
        by_cases h0 : S ≤ S + per * (1 + (now - S) / per)
        · right; simp; omega
        · left; simp [h0]
      refine ⟨⟨none, none⟩, by simp [hlt, hle, hcond], ?_⟩
      intro t' ⟨n, hn, hle'⟩ _
      subst hn
      have : 0 ≤ (n : Int) * per := Int.mul_nonneg (by omega) (by omega)
      omega
  · obtain ⟨h1, h2⟩ := tick_least S per now hp (by omega)
    have hS' : S ≤ S + per * (1 + (now - S) / per) := by omega
    by_cases hle : S + per * (1 + (now - S) / per) ≤ E
    · refine ⟨NT.take ⟨none, none⟩ (S + per * (1 + (now - S) / per)) (S + per * (1 + (now - S) / per)),
        by simp [hlt, hS', hle], ?_⟩
      simp only [NT.take]
      obtain ⟨n, hn⟩ := tick_nat S per now hp (by omega)
      refine ⟨⟨n, hn, hle⟩, h1, ?_⟩
      intro t' ⟨n', hn', _⟩ hlt'
      subst hn'
      exact h2 n' hlt'
    · refine ⟨⟨none, none⟩, by simp [hlt, hS', hle], ?_⟩
      intro t' ⟨n', hn', hle'⟩ hlt'
      subst hn'
      have := h2 n' hlt'
      omega

/-! ## cron -/

theorem cronLoop_spec (P : Params) (hC : CronForward P) (id : Nat) (now : Int) (fuel : Nat) (cur val delta : Int)
    (hcur : now ≤ cur) (h : cronLoop P id now fuel cur = some (val, delta)) :
    now < val ∧ 0 < delta ∧ delta = (val - P.utcOff val) - (now - P.utcOff now) := by
  induction fuel generalizing cur with
  | zero => simp [cronLoop] at h
  | succ n ih =>
    simp only [cronLoop] at h
    have hf := hC id cur
    split at h
    · exact ih (P.cronNext id cur) (by omega) h
    · simp only [Option.some.injEq, Prod.mk.injEq] at h
      obtain ⟨rfl, rfl⟩ := h
      exact ⟨by omega, by omega, rfl⟩

/-! ## the accumulator -/

theorem take_next (s : NT) (t a : Int) : (s.take t a).next = minOpt s.next (some t) := by
  simp only [NT.take]
  cases h : s.next with
  | none => simp [minOpt]
  | some n =>
    simp only [minOpt]
    split <;> simp_all

/-- fold the answer `r` of one specification (computed from the empty accumulator) into the accumulator `s` -/
def NT.merge (s r : NT) : NT :=
  match r.next with
  | some t => s.take t (r.adj.getD t)
  | none => s

theorem merge_next (s r : NT) : (s.merge r).next = minOpt s.next r.next := by
  simp only [NT.merge]
  cases h : r.next with
  | none => cases s.next <;> simp [minOpt]
  | some t => simp [take_next]

theorem merge_empty (s : NT) : s.merge ⟨none, none⟩ = s := rfl

theorem merge_take (s : NT) (t a : Int) : s.merge ((⟨none, none⟩ : NT).take t a) = s.take t a := by
  simp [NT.merge, NT.take]

theorem periodNoEnd_merge (F : TFlags) (P : Params) (S per now st : Int) (s : NT) :
    periodNoEnd F P S per now st s = s.merge (periodNoEnd F P S per now st ⟨none, none⟩) := by
  simp only [periodNoEnd]
  by_cases hst : (now == S && now == st) = true
  · simp [hst, merge_take]
  · simp only [hst, Bool.or_false, Bool.false_eq_true, Bool.not_false, Bool.and_true]
    by_cases hlt : now < S
    · have hge : ¬ now ≥ S := by omega
      simp [hlt, hge, merge_take]
    · have hge : now ≥ S := by omega
      simp only [hlt, decide_false, Bool.false_eq_true, if_false, hge, decide_true, if_true]
      split
      · simp [merge_take]
      · rfl

theorem ditherLoop_merge (F : TFlags) (P : Params) (a b : DTSpec) (per endOff now st : Int) (s : NT) (days : List Int) :
    ditherLoop F P a b per endOff now st s days =
      (ditherLoop F P a b per endOff now st ⟨none, none⟩ days).map (fun r => s.merge r) := by
  induction days with
  | nil => simp [ditherLoop, merge_empty]
  | cons day rest ih =>
    simp only [ditherLoop]
    cases parseDT P.base a day now st with
    | none => rfl
    | some x =>
      simp only
      cases parseDT P.base b (day + endOff) now st with
      | none => rfl
      | some y =>
        simp only
        split
        · simp [merge_take]
        · split
          · simp [merge_take]
          · exact ih

theorem specStep_merge (F : TFlags) (P : Params) (now st : Int) (s : NT) (sp : TSpec) :
    specStep F P now st s sp = (specStep F P now st ⟨none, none⟩ sp).map (fun r => s.merge r) := by
  cases sp with
  | once d =>
    simp only [specStep]
    cases onceCand F.startupByValue P d now st with
    | none =>
      cases hb : (!F.badDateRaises && (parseDT P.base d 0 now st).isNone) with
      | false => simp
      | true => simp [merge_empty]
    | some c => cases c <;> simp [merge_empty, merge_take]
  | cron id =>
    simp only [specStep]
    cases cronLoop P id now cronFuel now with
    | none =>
      cases hb : F.cronDeadRaises with
      | false => simp [merge_empty]
      | true => simp
    | some r => simp [merge_take]
  | period a per stop =>
    simp only [specStep, periodStep]
    cases parseDT P.base a 0 now st with
    | none => cases F.periodDateRaises <;> simp [merge_empty]
    | some x =>
      simp only
      by_cases hp : per ≤ 0
      · simp [hp, merge_empty]
      · simp only [hp, if_false]
        cases stop with
        | none => simp [periodNoEnd_merge F P x.1 per now st s]
        | some b =>
          simp only
          cases parseDT P.base b 0 now st with
          | none => cases F.periodDateRaises <;> simp [merge_empty]
          | some y =>
            simp only [periodWithEnd]
            split
            · exact ditherLoop_merge F P a b per _ now st s _
            · exact ditherLoop_merge F P a b per _ now st s _

/-- the answers of the single specifications (`none`: one of them raises) -/
def singles (F : TFlags) (P : Params) (now st : Int) : List TSpec → Option (List (Option Int))
  | [] => some []
  | sp :: rest =>
    match timerNext1 F P sp now st with
    | none => none
    | some a => (singles F P now st rest).map (fun l => a :: l)

theorem specsLoop_min (F : TFlags) (P : Params) (now st : Int) (specs : List TSpec) (s : NT) :
    (specsLoop F P now st specs s).map (·.next) =
      (singles F P now st specs).map (fun l => l.foldl minOpt s.next) := by
  induction specs generalizing s with
  | nil => simp [specsLoop, singles]
  | cons sp rest ih =>
    simp only [specsLoop, singles, timerNext1]
    rw [specStep_merge]
    cases specStep F P now st ⟨none, none⟩ sp with
    | none => rfl
    | some r =>
      simp only [Option.map_some]
      rw [ih]
      cases singles F P now st rest with
      | none => rfl
      | some l => simp [merge_next]

/-! ## never in the past -/

/-- strictly after `now`, or the start-up instant itself at start-up -/
def Future (now st t : Int) : Prop := now < t ∨ (t = now ∧ now = st)

def NTFuture (now st : Int) (s : NT) : Prop := ∀ t, s.next = some t → Future now st t

theorem take_future (now st : Int) (s : NT) (c a : Int) (hs : NTFuture now st s) (hc : Future now st c) :
    NTFuture now st (s.take c a) := by
  intro t ht
  simp only [NT.take] at ht
  cases h : s.next with
  | none => simp [h] at ht; subst ht; exact hc
  | some n =>
    simp only [h] at ht
    split at ht
    · simp at ht; subst ht; exact hc
    · exact hs t ht

theorem beq_and_future (now S st : Int) (h : (now == S && now == st) = true) : Future now st S := by
  simp only [Bool.and_eq_true, beq_iff_eq] at h
  exact Or.inr ⟨h.1.symm, h.2⟩

theorem specStep_future (F : TFlags) (P : Params) (hE : FloatOK F P) (hC : CronForward P) (now st : Int) (s r : NT) (sp : TSpec)
    (hs : NTFuture now st s) (h : specStep F P now st s sp = some r) : NTFuture now st r := by
  cases sp with
  | once d =>
    simp only [specStep] at h
    cases hc : onceCand F.startupByValue P d now st with
    | none =>
      simp only [hc] at h
      split at h
      · simp only [Option.some.injEq] at h; subst h; exact hs
      · simp at h
    | some c =>
      cases c with
      | none => simp [hc] at h; subst h; exact hs
      | some t =>
        simp only [hc, Option.some.injEq] at h
        subst h
        apply take_future _ _ _ _ _ hs
        -- the candidate passed `now < t or startup`
        simp only [onceCand] at hc
        cases h1 : parseDT P.base d 0 now st with
        | none => simp [h1] at hc
        | some f =>
          simp only [h1] at hc
          cases h2 : onceSecond F.startupByValue P d now st f with
          | none => simp [h2] at hc
          | some q =>
            simp only [h2, Option.some.injEq] at hc
            split at hc
            · rename_i hcond
              simp only [Option.some.injEq] at hc
              subst hc
              simp only [Bool.or_eq_true, decide_eq_true_eq] at hcond
              rcases hcond with hlt | hb
              · exact Or.inl hlt
              · exact beq_and_future _ _ _ hb
            · simp at hc
  | cron id =>
    simp only [specStep] at h
    cases hc : cronLoop P id now cronFuel now with
    | none =>
      simp only [hc] at h
      split at h
      · simp at h
      · simp only [Option.some.injEq] at h; subst h; exact hs
    | some v =>
      simp only [hc, Option.some.injEq] at h
      subst h
      apply take_future _ _ _ _ _ hs
      exact Or.inl (cronLoop_spec P hC id now cronFuel now v.1 v.2 (Int.le_refl _) hc).1
  | period a per stop =>
    simp only [specStep, periodStep] at h
    cases h1 : parseDT P.base a 0 now st with
    | none => simp [h1] at h; obtain ⟨_, rfl⟩ := h; exact hs
    | some x =>
      simp only [h1] at h
      by_cases hp : per ≤ 0
      · simp only [hp, if_true, Option.some.injEq] at h; subst h; exact hs
      · simp only [hp, if_false] at h
        have hpos : 0 < per := by omega
        cases stop with
        | none =>
          simp only [Option.some.injEq] at h
          subst h
          simp only [periodNoEnd]
          by_cases hst : (now == x.1 && now == st) = true
          · simp only [hst, Bool.or_true, if_true, Bool.not_true, Bool.and_false, Bool.false_eq_true, if_false]
            exact take_future _ _ _ _ _ hs (beq_and_future _ _ _ hst)
          · simp only [hst, Bool.or_false, Bool.false_eq_true, Bool.not_false, Bool.and_true]
            by_cases hlt : now < x.1
            · have hge : ¬ now ≥ x.1 := by omega
              simp only [hlt, decide_true, if_true, hge, decide_false, Bool.false_eq_true, if_false]
              exact take_future _ _ _ _ _ hs (Or.inl hlt)
            · have hge : now ≥ x.1 := by omega
              simp only [hlt, decide_false, Bool.false_eq_true, if_false, hge, decide_true, if_true]
              split
              · rename_i hh
                exact take_future _ _ _ _ _ hs (Or.inl hh)
              · exact hs
        | some b =>
          simp only at h
          cases h2 : parseDT P.base b 0 now st with
          | none => simp [h2] at h; obtain ⟨_, rfl⟩ := h; exact hs
          | some y =>
            simp only [h2, periodWithEnd] at h
            -- every candidate of the dither loop is in the future
            have key : ∀ (endOff : Int) (days : List Int) (r : NT),
                ditherLoop F P a b per endOff now st s days = some r → NTFuture now st r := by
              intro endOff days
              induction days with
              | nil => intro r hr; simp only [ditherLoop, Option.some.injEq] at hr; subst hr; exact hs
              | cons day rest ih =>
                intro r hr
                simp only [ditherLoop] at hr
                cases h3 : parseDT P.base a day now st with
                | none => simp [h3] at hr
                | some u =>
                  simp only [h3] at hr
                  cases h4 : parseDT P.base b (day + endOff) now st with
                  | none => simp [h4] at hr
                  | some v =>
                    simp only [h4] at hr
                    split at hr
                    · rename_i hc
                      simp only [Option.some.injEq] at hr
                      subst hr
                      simp only [Bool.and_eq_true, Bool.or_eq_true, decide_eq_true_eq] at hc
                      rcases hc.1 with hlt | hb
                      · exact take_future _ _ _ _ _ hs (Or.inl hlt)
                      · exact take_future _ _ _ _ _ hs (beq_and_future _ _ _ (by simp [hb.1, hb.2]))
                    · split at hr
                      · rename_i hc
                        simp only [Option.some.injEq] at hr
                        subst hr
                        simp only [Bool.and_eq_true, decide_eq_true_eq, nextTick, quot_exact F P hE _ _ hpos] at hc
                        apply take_future _ _ _ _ _ hs
                        left
                        simp only [nextTick, quot_exact F P hE _ _ hpos]
                        by_cases hle : u.1 ≤ now
                        · exact (tick_least u.1 per now hpos hle).1
                        · omega
                      · exact ih r hr
            split at h
            · exact key _ _ r h
            · exact key _ _ r h

/-! ## "startup" / "shutdown" entries -/

theorem strip_fst (m : TArg) (args : List TArg) : (strip m args).1 = args.contains m := by
  induction args with
  | nil => rfl
  | cons a rest ih =>
    simp only [strip, List.contains_cons]
    by_cases h : a = m
    · simp [h]
    · have : (m == a) = false := by simp; exact fun h' => h h'.symm
      simp [h, ih, this]

theorem strip_mem_other (m m' : TArg) (hne : m ≠ m') (args : List TArg) : m' ∈ (strip m args).2 ↔ m' ∈ args := by
  induction args with
  | nil => simp [strip]
  | cons a rest ih =>
    simp only [strip]
    by_cases h : a = m
    · simp only [h, if_true, ih, List.mem_cons]
      constructor
      · exact Or.inr
      · rintro (h' | h')
        · exact absurd h'.symm hne
        · exact h'
    · simp only [h, if_false, List.mem_cons, ih]

theorem strip_contains_other (m m' : TArg) (hne : m ≠ m') (args : List TArg) :
    (strip m args).2.contains m' = args.contains m' := by
  rw [Bool.eq_iff_iff]
  simp [strip_mem_other m m' hne args]

theorem specsOf_strip (m : TArg) (hm : ∀ s, m ≠ .spec s) (args : List TArg) : specsOf (strip m args).2 = specsOf args := by
  induction args with
  | nil => rfl
  | cons a rest ih =>
    simp only [strip]
    by_cases h : a = m
    · subst h
      simp only [if_true, ih]
      cases a with
      | spec s => exact absurd rfl (hm s)
      | startup => rfl
      | shutdown => rfl
    · simp only [h, if_false]
      cases a <;> simp [specsOf, ih]

/-! ## the wait-and-fire loop -/

theorem timeLoop_succs (F : TFlags) (P : Params) (specs : List TSpec) (st : Int) (D : Int → Prop) (lat : Nat → Int) (lo : Int)
    (hnext : ∀ now, lo ≤ now → ∃ r, timerNext F P specs now st = some r ∧ IsNext D now r.next)
    (hlat1 : ∀ i, 1 ≤ lat i)
    (hlat2 : ∀ i t t', D t → D t' → ¬ (t < t' ∧ t' ≤ t + lat i))
    (n : Nat) (now : Int) (hlo : lo ≤ now) :
    Succs D (timeLoop F P specs st lat n now) ∧
    ∀ a, (timeLoop F P specs st lat n now).head? = some a → D a ∧ now < a ∧ ∀ t', D t' → ¬ (now < t' ∧ t' < a) := by
  induction n generalizing now with
  | zero => simp [timeLoop, Succs]
  | succ k ih =>
    obtain ⟨r, hr, hn⟩ := hnext now hlo
    simp only [timeLoop, hr]
    cases hrn : r.next with
    | none =>
      have : r = ⟨none, r.adj⟩ := by cases r; simp_all
      rw [this]
      simp [Succs]
    | some t =>
      have : r = ⟨some t, r.adj⟩ := by cases r; simp_all
      rw [this]
      simp only
      rw [hrn] at hn
      obtain ⟨hD, hlt, hmin⟩ := hn
      have h1 := hlat1 k
      obtain ⟨ihs, ihh⟩ := ih (t + lat k) (by omega)
      refine ⟨?_, ?_⟩
      · cases hl : timeLoop F P specs st lat k (t + lat k) with
        | nil => simpa [Succs] using hD
        | cons b rest =>
          rw [hl] at ihs ihh
          obtain ⟨hDb, hltb, hgap⟩ := ihh b rfl
          refine ⟨hD, by omega, ?_, ihs⟩
          intro t' ht' ⟨h3, h4⟩
          by_cases h5 : t' ≤ t + lat k
          · exact hlat2 k t t' hD ht' ⟨h3, h5⟩
          · exact hgap t' ht' ⟨by omega, h4⟩
      · intro a ha
        simp only [List.head?_cons, Option.some.injEq] at ha
        subst ha
        exact ⟨hD, hlt, fun t' ht' ⟨h3, h4⟩ => by have := hmin t' ht' h3; omega⟩

theorem specsLoop_future (F : TFlags) (P : Params) (hE : FloatOK F P) (hC : CronForward P) (now st : Int) (specs : List TSpec)
    (s r : NT) (hs : NTFuture now st s) (h : specsLoop F P now st specs s = some r) : NTFuture now st r := by
  induction specs generalizing s with
  | nil => simp only [specsLoop, Option.some.injEq] at h; subst h; exact hs
  | cons sp rest ih =>
    simp only [specsLoop] at h
    cases h1 : specStep F P now st s sp with
    | none => simp [h1] at h
    | some s' =>
      simp only [h1] at h
      exact ih s' (specStep_future F P hE hC now st s s' sp hs h1) h

end PsModel.C06
