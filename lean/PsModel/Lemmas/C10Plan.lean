import PsModel.Lemmas.C10
import PsModel.Lemmas.C10Closure
/-! set-level characterisation of the three phases of the reload planner -/
namespace PsModel.C10
open PsModel.C10.Spec

/-! ## look-ups -/

theorem findCtx_some {cs : List Ctx} {n : Name} {c : Ctx} (h : findCtx cs n = some c) : c ∈ cs ∧ c.name = n := by
  unfold findCtx at h
  exact ⟨List.mem_of_find?_eq_some h, by simpa using List.find?_some h⟩

theorem findCtx_none {cs : List Ctx} {n : Name} : findCtx cs n = none ↔ ∀ c ∈ cs, c.name ≠ n := by
  unfold findCtx
  simp [List.find?_eq_none]

theorem findCtx_isSome_of_mem {cs : List Ctx} {c : Ctx} (h : c ∈ cs) : ∃ c', findCtx cs c.name = some c' := by
  cases hf : findCtx cs c.name with
  | none => exact absurd rfl (findCtx_none.mp hf c h)
  | some c' => exact ⟨c', rfl⟩

theorem findEntry_some {es : List Entry} {n : Name} {e : Entry} (h : findEntry es n = some e) : e ∈ es ∧ e.name = n := by
  unfold findEntry at h
  exact ⟨List.mem_of_find?_eq_some h, by simpa using List.find?_some h⟩

theorem findEntry_none {es : List Entry} {n : Name} : findEntry es n = none ↔ ∀ e ∈ es, e.name ≠ n := by
  unfold findEntry
  simp [List.find?_eq_none]

theorem hasName_iff {es : List Entry} {n : Name} : hasName es n = true ↔ ∃ e ∈ es, e.name = n := by
  simp [hasName]

theorem findEntry_of_nodup {es : List Entry} (hnd : NamesNodup es) {e : Entry} (he : e ∈ es) :
    findEntry es e.name = some e := by
  induction es with
  | nil => simp at he
  | cons x xs ih =>
    unfold NamesNodup at hnd
    simp only [List.map_cons, List.nodup_cons] at hnd
    unfold findEntry
    rw [List.find?_cons]
    by_cases hx : x.name = e.name
    · rcases List.mem_cons.mp he with rfl | he'
      · simp
      · exact absurd (hx ▸ List.mem_map_of_mem (f := (·.name)) he') hnd.1
    · have : (x.name == e.name) = false := by simpa using hx
      simp only [this]
      rcases List.mem_cons.mp he with rfl | he'
      · exact absurd rfl hx
      · exact ih hnd.2 he'

/-! ## flags -/

@[simp] theorem setF_name (e : Entry) (b : Bool) : (e.setF b).name = e.name := rfl
@[simp] theorem setF_path (e : Entry) (b : Bool) : (e.setF b).path = e.path := rfl
@[simp] theorem setF_autoload (e : Entry) (b : Bool) : (e.setF b).autoload = e.autoload := rfl
@[simp] theorem setF_src (e : Entry) (b : Bool) : (e.setF b).src = e.src := rfl
@[simp] theorem setF_mtime (e : Entry) (b : Bool) : (e.setF b).mtime = e.mtime := rfl
@[simp] theorem setF_appCfg (e : Entry) (b : Bool) : (e.setF b).appCfg = e.appCfg := rfl
@[simp] theorem setF_relImport (e : Entry) (b : Bool) : (e.setF b).relImport = e.relImport := rfl
@[simp] theorem setF_force (e : Entry) (b : Bool) : (e.setF b).force = b := rfl
@[simp] theorem setF_setF (e : Entry) (a b : Bool) : (e.setF a).setF b = e.setF b := rfl
@[simp] theorem setF_self (e : Entry) : e.setF e.force = e := rfl

theorem setF_inj {e : Entry} {a b : Bool} : e.setF a = e.setF b ↔ a = b := by
  constructor
  · intro h; have := congrArg Entry.force h; simpa using this
  · rintro rfl; rfl

theorem upd_eq (P b : Entry → Bool) (e : Entry) : upd P b e = e.setF (if P e then b e else e.force) := by
  unfold upd; split <;> simp

@[simp] theorem upd_name (P b : Entry → Bool) (e : Entry) : (upd P b e).name = e.name := by rw [upd_eq]; rfl
@[simp] theorem upd_path (P b : Entry → Bool) (e : Entry) : (upd P b e).path = e.path := by rw [upd_eq]; rfl
@[simp] theorem upd_autoload (P b : Entry → Bool) (e : Entry) : (upd P b e).autoload = e.autoload := by
  rw [upd_eq]; rfl
theorem upd_force (P b : Entry → Bool) (e : Entry) : (upd P b e).force = if P e then b e else e.force := by
  rw [upd_eq]; rfl

@[simp] theorem isRootFile_setF (r : Name) (e : Entry) (a : Bool) : isRootFile r (e.setF a) = isRootFile r e := rfl
@[simp] theorem isRootFile_upd (r : Name) (P b : Entry → Bool) (e : Entry) :
    isRootFile r (upd P b e) = isRootFile r e := by rw [upd_eq]; rfl

theorem mem_setForce {es : List Entry} {P b : Entry → Bool} {e' : Entry} :
    e' ∈ setForce es P b ↔ ∃ e ∈ es, e' = upd P b e := by
  simp only [setForce, List.mem_map]
  constructor
  · rintro ⟨e, he, rfl⟩; exact ⟨e, he, rfl⟩
  · rintro ⟨e, he, rfl⟩; exact ⟨e, he, rfl⟩

theorem findEntry_map_upd (es : List Entry) (f : Entry → Entry) (hf : ∀ e, (f e).name = e.name) (n : Name) :
    findEntry (es.map f) n = (findEntry es n).map f := by
  induction es with
  | nil => rfl
  | cons x xs ih =>
    simp only [findEntry, List.map_cons, List.find?_cons, hf] at ih ⊢
    by_cases hx : (x.name == n) = true
    · simp [hx]
    · simp only [hx]; exact ih

theorem findEntry_setForce (es : List Entry) (P b : Entry → Bool) (n : Name) :
    findEntry (setForce es P b) n = (findEntry es n).map (upd P b) :=
  findEntry_map_upd es (upd P b) (upd_name P b) n

/-! ## phase 3: package widening -/

theorem root2_length_of_isUnder {pre : String} {n : Name} (h : isUnder pre n = true) : (root2 n).length = 2 := by
  unfold isUnder at h
  simp only [Bool.and_eq_true, decide_eq_true_eq] at h
  simp only [root2, List.length_take]
  omega

theorem root2_length_of_inPkg {n : Name} (h : inPkg n = true) : (root2 n).length = 2 := by
  unfold inPkg at h
  rcases Bool.or_eq_true_iff.mp h with h | h <;> exact root2_length_of_isUnder h

theorem underRoot_iff {r n : Name} (hr : r.length = 2) : underRoot r n = true ↔ root2 n = r := by
  unfold underRoot root2
  rw [List.isPrefixOf_iff_prefix]
  constructor
  · intro h
    obtain ⟨t, rfl⟩ := h
    simp [hr]
  · intro h
    rw [← h]
    exact List.take_prefix 2 n

theorem inPkg_false_iff (n : Name) : inPkg n = false ↔ (!(isUnder "apps" n) && !(isUnder "modules" n)) = true := by
  unfold inPkg
  cases isUnder "apps" n <;> cases isUnder "modules" n <;> simp

theorem phase3Step_done {s : P3} {n : Name} (h : s.done.contains (root2 n) = true) : phase3Step s n = s := by
  unfold phase3Step
  split
  · rfl
  · split
    · rfl
    · split
      · rfl
      · simp only [h, if_true]

theorem phase3Step_unforced {s : P3} {n : Name} {e : Entry} (hf : findEntry s.ents n = some e) (h : e.force = false) :
    phase3Step s n = s := by
  unfold phase3Step
  simp [hf, h]

theorem phase3Step_notPkg {s : P3} {n : Name} (h : inPkg n = false) : phase3Step s n = s := by
  unfold phase3Step
  have := (inPkg_false_iff n).mp h
  split
  · rfl
  · split
    · rfl
    · simp only [this, if_true]

theorem phase3Step_none {s : P3} {n : Name} (hf : findEntry s.ents n = none) : phase3Step s n = s := by
  unfold phase3Step
  simp [hf]

theorem phase3Step_widen {s : P3} {n : Name} {e : Entry} (hf : findEntry s.ents n = some e) (h : e.force = true)
    (hp : inPkg n = true) (hd : s.done.contains (root2 n) = false) :
    phase3Step s n =
      { done := root2 n :: s.done,
        del := s.del ++ (s.ents.filter (fun x => underRoot (root2 n) x.name)).map (·.name),
        ents := setForce s.ents (fun x => underRoot (root2 n) x.name) (isRootFile (root2 n)) } := by
  unfold phase3Step
  have hp' : (!(isUnder "apps" n) && !(isUnder "modules" n)) = false := by
    rw [Bool.eq_false_iff]; intro hc; rw [← inPkg_false_iff] at hc; simp [hp] at hc
  have hdm : root2 n ∉ s.done := by simpa using hd
  simp [hf, h, hp', hdm]

/-- the invariant of the widening loop after the names in `seen` have been visited -/
structure P3Inv (p : Plan) (seen : List Name) (s : P3) : Prop where
  done_len : ∀ r ∈ s.done, r.length = 2
  done_iff : ∀ r, r ∈ s.done ↔
    ∃ n ∈ seen, ∃ e, findEntry p.ents n = some e ∧ e.force = true ∧ inPkg n = true ∧ root2 n = r
  ents : s.ents = setForce p.ents (fun e => s.done.contains (root2 e.name)) (fun e => isRootFile (root2 e.name) e)
  del : ∀ n, n ∈ s.del ↔ n ∈ p.del ∨ ∃ x ∈ p.ents, x.name = n ∧ root2 n ∈ s.done

theorem P3Inv_noop {p : Plan} {seen : List Name} {s : P3} (h : P3Inv p seen s) (n : Name)
    (hno : ∀ e, findEntry p.ents n = some e → e.force = true → inPkg n = true → root2 n ∈ s.done) :
    P3Inv p (seen ++ [n]) s := by
  refine ⟨h.done_len, ?_, h.ents, h.del⟩
  intro r
  rw [h.done_iff r]
  constructor
  · rintro ⟨m, hm, rest⟩; exact ⟨m, List.mem_append_left _ hm, rest⟩
  · rintro ⟨m, hm, e, hf, hfo, hp, hr⟩
    rcases List.mem_append.mp hm with hm | hm
    · exact ⟨m, hm, e, hf, hfo, hp, hr⟩
    · simp only [List.mem_singleton] at hm
      subst hm
      have := hno e hf hfo hp
      rw [hr] at this
      exact (h.done_iff r).mp this

theorem phase3Step_inv {p : Plan} {seen : List Name} {s : P3} (h : P3Inv p seen s) (n : Name) :
    P3Inv p (seen ++ [n]) (phase3Step s n) := by
  have hfind : findEntry s.ents n = (findEntry p.ents n).map
      (upd (fun e => s.done.contains (root2 e.name)) (fun e => isRootFile (root2 e.name) e)) := by
    rw [h.ents, findEntry_setForce]
  by_cases hd : s.done.contains (root2 n) = true
  · rw [phase3Step_done hd]
    exact P3Inv_noop h n (fun _ _ _ _ => by simpa using hd)
  have hd' : s.done.contains (root2 n) = false := by simpa using hd
  have hdm : root2 n ∉ s.done := by simpa using hd'
  cases hf : findEntry p.ents n with
  | none =>
    rw [phase3Step_none (by rw [hfind, hf]; rfl)]
    exact P3Inv_noop h n (fun e he => by simp [hf] at he)
  | some e =>
    have hen : e.name = n := (findEntry_some hf).2
    -- the root is not done, so the current flag is the original one
    have hcur : findEntry s.ents n = some e := by
      rw [hfind, hf]
      simp only [Option.map_some, upd_eq, hen, hd']
      simp
    by_cases hfo : e.force = true
    · by_cases hp : inPkg n = true
      · rw [phase3Step_widen hcur hfo hp hd']
        have hlen := root2_length_of_inPkg hp
        refine ⟨?_, ?_, ?_, ?_⟩
        · intro r hr
          rcases List.mem_cons.mp hr with rfl | hr
          · exact hlen
          · exact h.done_len r hr
        · intro r
          simp only [List.mem_cons, h.done_iff r]
          constructor
          · rintro (rfl | ⟨m, hm, rest⟩)
            · exact ⟨n, by simp, e, hf, hfo, hp, rfl⟩
            · exact ⟨m, List.mem_append_left _ hm, rest⟩
          · rintro ⟨m, hm, e', hf', hfo', hp', hr'⟩
            rcases List.mem_append.mp hm with hm | hm
            · exact .inr ⟨m, hm, e', hf', hfo', hp', hr'⟩
            · simp only [List.mem_singleton] at hm
              subst hm
              exact .inl hr'.symm
        · -- flags
          simp only [h.ents, setForce, List.map_map]
          apply List.map_congr_left
          intro x _
          simp only [Function.comp, upd_eq, setF_name, setF_setF, setF_force, isRootFile_setF, List.contains_cons]
          rw [setF_inj]
          by_cases hu : underRoot (root2 n) x.name = true
          · have heq := (underRoot_iff hlen).mp hu
            simp [hu, heq]
          · have hne : ¬ root2 x.name = root2 n := fun heq => hu ((underRoot_iff hlen).mpr heq)
            simp [hu, hne]
        · intro m
          simp only [List.mem_append, List.mem_map, List.mem_filter, h.del m, List.mem_cons]
          constructor
          · rintro ((hm | ⟨x, hx, hxn, hxr⟩) | ⟨x, ⟨hx, hu⟩, rfl⟩)
            · exact .inl hm
            · exact .inr ⟨x, hx, hxn, .inr hxr⟩
            · rw [h.ents] at hx
              obtain ⟨x0, hx0, rfl⟩ := mem_setForce.mp hx
              simp only [upd_name] at hu ⊢
              exact .inr ⟨x0, hx0, rfl, .inl ((underRoot_iff hlen).mp hu)⟩
          · rintro (hm | ⟨x, hx, rfl, hr | hr⟩)
            · exact .inl (.inl hm)
            · right
              refine ⟨upd (fun e => s.done.contains (root2 e.name)) (fun e => isRootFile (root2 e.name) e) x,
                ⟨?_, ?_⟩, by simp⟩
              · rw [h.ents]; exact mem_setForce.mpr ⟨x, hx, rfl⟩
              · simp only [upd_name]; exact (underRoot_iff hlen).mpr hr
            · exact .inl (.inr ⟨x, hx, rfl, hr⟩)
      · rw [phase3Step_notPkg (by simpa using hp)]
        exact P3Inv_noop h n (fun _ _ _ hp' => absurd hp' hp)
    · rw [phase3Step_unforced hcur (by simpa using hfo)]
      exact P3Inv_noop h n (fun e' he' hfo' => by rw [hf] at he'; cases he'; exact absurd hfo' hfo)

theorem phase3_fold_inv (p : Plan) : ∀ (ns seen : List Name) (s : P3), P3Inv p seen s →
    P3Inv p (seen ++ ns) (ns.foldl phase3Step s) := by
  intro ns
  induction ns with
  | nil => intro seen s h; simpa using h
  | cons n ns ih =>
    intro seen s h
    simp only [List.foldl_cons]
    have := ih (seen ++ [n]) _ (phase3Step_inv h n)
    simpa [List.append_assoc] using this

/-- some entry of the root `r` is forced -/
def Wide (es : List Entry) (r : Name) : Prop :=
  ∃ e ∈ es, e.force = true ∧ inPkg e.name = true ∧ root2 e.name = r

/-- **phase 3 as a set computation** (the table holds one entry per name) -/
theorem phase3_char (p : Plan) (hnd : NamesNodup p.ents) :
    (∀ n, n ∈ (phase3 p).del ↔ n ∈ p.del ∨ ∃ x ∈ p.ents, x.name = n ∧ Wide p.ents (root2 n)) ∧
    (∀ e', e' ∈ (phase3 p).ents ↔ ∃ e ∈ p.ents, e'.name = e.name ∧ e' = e.setF e'.force ∧
        (Wide p.ents (root2 e.name) → e'.force = isRootFile (root2 e.name) e) ∧
        (¬ Wide p.ents (root2 e.name) → e'.force = e.force)) := by
  have hinv := phase3_fold_inv p (p.ents.map (·.name)) [] { done := [], del := p.del, ents := p.ents }
    ⟨by simp, by simp, by
      simp only [setForce, List.contains_nil]
      exact (List.map_id'' (fun e => by simp [upd]) p.ents).symm, by simp⟩
  simp only [List.nil_append] at hinv
  have hdone : ∀ r, r ∈ ((p.ents.map (·.name)).foldl phase3Step { done := [], del := p.del, ents := p.ents }).done ↔
      Wide p.ents r := by
    intro r
    rw [hinv.done_iff r]
    constructor
    · rintro ⟨n, _, e, hf, hfo, hp, hr⟩
      obtain ⟨he, hen⟩ := findEntry_some hf
      exact ⟨e, he, hfo, hen ▸ hp, hen ▸ hr⟩
    · rintro ⟨e, he, hfo, hp, hr⟩
      exact ⟨e.name, List.mem_map_of_mem (f := (·.name)) he, e, findEntry_of_nodup hnd he, hfo, hp, hr⟩
  constructor
  · intro n
    unfold phase3
    simp only
    rw [hinv.del n]
    simp only [hdone]
  · intro e'
    unfold phase3
    simp only
    rw [hinv.ents, mem_setForce]
    constructor
    · rintro ⟨e, he, rfl⟩
      refine ⟨e, he, by simp, by rw [upd_eq]; simp, ?_, ?_⟩
      · intro hw
        have : root2 e.name ∈ _ := (hdone _).mpr hw
        rw [upd_force]
        simp [this]
      · intro hw
        have : root2 e.name ∉ _ := fun hm => hw ((hdone _).mp hm)
        rw [upd_force]
        simp [this]
    · rintro ⟨e, he, _, heq, hw1, hw2⟩
      refine ⟨e, he, ?_⟩
      rw [heq, upd_eq, setF_inj]
      by_cases hw : Wide p.ents (root2 e.name)
      · have : root2 e.name ∈ _ := (hdone _).mpr hw
        simp [this, hw1 hw]
      · have : root2 e.name ∉ _ := fun hm => hw ((hdone _).mp hm)
        simp [this, hw2 hw]

/-! ## phase 2: importers of modules that are being reloaded -/

/-- `n` transitively imports a member of a module root in `wr` -/
def ImportsWR (loaded : List Ctx) (wr : List Name) (n : Name) : Prop := ∃ m, Reach loaded n m ∧ root2 m ∈ wr

theorem importsReloaded_iff (wr mods : List Name) :
    importsReloaded wr mods = true ↔ ∃ m ∈ mods, root2 m ∈ wr := by
  simp [importsReloaded]

theorem setForce_setForce_true (es : List Entry) (F : List Name) (n : Name) :
    setForce (setForce es (fun e => F.contains e.name) (fun _ => true)) (fun e => e.name == n) (fun _ => true) =
      setForce es (fun e => (F ++ [n]).contains e.name) (fun _ => true) := by
  simp only [setForce, List.map_map]
  apply List.map_congr_left
  intro x _
  simp only [Function.comp, upd_eq, setF_name, setF_setF, setF_force]
  rw [setF_inj]
  by_cases h1 : F.contains x.name = true <;> by_cases h2 : x.name = n <;> simp_all

structure P2Inv (loaded : List Ctx) (wr : List Name) (p : Plan) (seen : List Ctx) (s : P2) : Prop where
  memo : MemoInv loaded [] { visited := [], tbl := s.tbl }
  frc : ∃ F : List Name, s.del = p.del ++ F ∧
    s.ents = setForce p.ents (fun e => F.contains e.name) (fun _ => true) ∧
    ∀ n, n ∈ F ↔ ∃ c ∈ seen, c.name = n ∧ ImportsWR loaded wr n

theorem phase2Step_inv {loaded : List Ctx} {rank : Name → Nat} (hacyc : Acyclic loaded rank) {fuel : Nat}
    {wr : List Name} {p : Plan} {seen : List Ctx} {s : P2} (h : P2Inv loaded wr p seen s) {c : Ctx}
    (hc : c ∈ loaded) (hfuel : rank c.name < fuel) :
    P2Inv loaded wr p (seen ++ [c]) (phase2Step loaded fuel wr s c) := by
  obtain ⟨c', hc'⟩ := findCtx_isSome_of_mem hc
  -- the table after the (possibly skipped) root call holds the closure of `c`
  have key : ∃ tbl, (if memoHas s.tbl c.name then s.tbl
        else (importRecurse loaded fuel c.name { visited := [], tbl := s.tbl }).2.tbl) = tbl ∧
      MemoInv loaded [] { visited := [], tbl := tbl } ∧ ∀ x, x ∈ memoGet tbl c.name ↔ Reach loaded c.name x := by
    by_cases hh : memoHas s.tbl c.name = true
    · exact ⟨s.tbl, by simp [hh], h.memo, fun x => h.memo.fin c.name hh (by simp) x⟩
    · have hcall := importRecurse_ok loaded rank hacyc fuel c.name { visited := [], tbl := s.tbl } [] hfuel
        (by simp) h.memo
      refine ⟨_, by simp [hh], ⟨hcall.inv.fin, by simp⟩, (hcall.own (by simp [hc'])).2⟩
  obtain ⟨tbl, htbl, hmemo, hreach⟩ := key
  obtain ⟨F, hdel, hents, hF⟩ := h.frc
  unfold phase2Step
  simp only [htbl]
  by_cases hi : importsReloaded wr (memoGet tbl c.name) = true
  · have himp : ImportsWR loaded wr c.name := by
      obtain ⟨m, hm, hw⟩ := (importsReloaded_iff _ _).mp hi
      exact ⟨m, (hreach m).mp hm, hw⟩
    simp only [hi, if_true]
    refine ⟨hmemo, F ++ [c.name], by simp [hdel], ?_, ?_⟩
    · simp only [hents]; exact setForce_setForce_true _ _ _
    · intro n
      simp only [List.mem_append, List.mem_singleton, hF n]
      constructor
      · rintro (⟨d, hd, rest⟩ | rfl)
        · exact ⟨d, .inl hd, rest⟩
        · exact ⟨c, .inr rfl, rfl, himp⟩
      · rintro ⟨d, hd | rfl, hn, hi'⟩
        · exact .inl ⟨d, hd, hn, hi'⟩
        · exact .inr hn.symm
  · have hnimp : ¬ ImportsWR loaded wr c.name := by
      rintro ⟨m, hm, hw⟩
      exact hi ((importsReloaded_iff _ _).mpr ⟨m, (hreach m).mpr hm, hw⟩)
    simp only [hi, Bool.false_eq_true, if_false]
    refine ⟨hmemo, F, hdel, hents, ?_⟩
    intro n
    rw [hF n]
    constructor
    · rintro ⟨d, hd, rest⟩; exact ⟨d, List.mem_append_left _ hd, rest⟩
    · rintro ⟨d, hd, hn, hi'⟩
      rcases List.mem_append.mp hd with hd | hd
      · exact ⟨d, hd, hn, hi'⟩
      · simp only [List.mem_singleton] at hd
        subst hd
        exact absurd (hn ▸ hi') hnimp

theorem phase2_fold_inv {loaded : List Ctx} {rank : Name → Nat} (hacyc : Acyclic loaded rank) {fuel : Nat}
    {wr : List Name} {p : Plan} : ∀ (cs seen : List Ctx) (s : P2), (∀ c ∈ cs, c ∈ loaded ∧ rank c.name < fuel) →
    P2Inv loaded wr p seen s → P2Inv loaded wr p (seen ++ cs) (cs.foldl (phase2Step loaded fuel wr) s) := by
  intro cs
  induction cs with
  | nil => intro seen s _ h; simpa using h
  | cons c cs ih =>
    intro seen s hcs h
    simp only [List.foldl_cons]
    have hc := hcs c List.mem_cons_self
    have := ih (seen ++ [c]) _ (fun d hd => hcs d (List.mem_cons_of_mem _ hd)) (phase2Step_inv hacyc h hc.1 hc.2)
    simpa [List.append_assoc] using this

/-- **phase 2 as a set computation**: exactly the loaded contexts that transitively import a member of a module
root that is being reloaded are added (and forced) -/
theorem phase2_char {loaded : List Ctx} {rank : Name → Nat} (hacyc : Acyclic loaded rank) {fuel : Nat}
    (hfuel : ∀ c ∈ loaded, rank c.name < fuel) (p : Plan) :
    (∀ n, n ∈ (phase2 loaded fuel p).del ↔
        n ∈ p.del ∨ ((∃ c ∈ loaded, c.name = n) ∧ ImportsWR loaded (willReload p) n)) ∧
    (∀ e', e' ∈ (phase2 loaded fuel p).ents ↔ ∃ e ∈ p.ents, e' = e.setF e'.force ∧
        (e'.force = true ↔ e.force = true ∨ ((∃ c ∈ loaded, c.name = e.name) ∧ ImportsWR loaded (willReload p) e.name))) := by
  unfold phase2
  by_cases hwr : (willReload p).isEmpty = true
  · have hnil : willReload p = [] := by simpa using hwr
    simp only [hwr, if_true]
    constructor
    · intro n
      constructor
      · exact fun h => .inl h
      · rintro (h | ⟨_, m, _, hm⟩)
        · exact h
        · simp [hnil] at hm
    · intro e'
      constructor
      · intro he'
        refine ⟨e', he', by simp, ?_⟩
        constructor
        · exact fun h => .inl h
        · rintro (h | ⟨_, m, _, hm⟩)
          · exact h
          · simp [hnil] at hm
      · rintro ⟨e, he, heq, hiff⟩
        have : e'.force = e.force := by
          cases hf : e.force
          · cases hf' : e'.force
            · rfl
            · rcases hiff.mp hf' with h | ⟨_, m, _, hm⟩
              · simp [hf] at h
              · simp [hnil] at hm
          · exact hiff.mpr (.inl hf)
        rw [heq, this]; simpa using he
  · simp only [hwr, Bool.false_eq_true, if_false]
    have hinv := phase2_fold_inv hacyc (wr := willReload p) (p := p) loaded []
      { tbl := [], del := p.del, ents := p.ents } (fun c hc => ⟨hc, hfuel c hc⟩)
      ⟨⟨by simp [memoHas], by simp⟩, [], by simp, by
        simp only [setForce, List.contains_nil]
        exact (List.map_id'' (fun e => by simp [upd]) p.ents).symm, by simp⟩
    simp only [List.nil_append] at hinv
    obtain ⟨F, hdel, hents, hF⟩ := hinv.frc
    constructor
    · intro n
      simp only [hdel, List.mem_append, hF n]
      constructor
      · rintro (h | ⟨c, hc, hn, hi⟩)
        · exact .inl h
        · exact .inr ⟨⟨c, hc, hn⟩, hi⟩
      · rintro (h | ⟨⟨c, hc, hn⟩, hi⟩)
        · exact .inl h
        · exact .inr ⟨c, hc, hn, hi⟩
    · intro e'
      simp only [hents, mem_setForce]
      constructor
      · rintro ⟨e, he, rfl⟩
        refine ⟨e, he, by rw [upd_eq]; simp, ?_⟩
        rw [upd_force]
        by_cases hc : F.contains e.name = true
        · have := (hF e.name).mp (by simpa using hc)
          obtain ⟨c, hcl, hn, hi⟩ := this
          simp only [hc, if_true, true_iff]
          exact .inr ⟨⟨c, hcl, hn⟩, hi⟩
        · simp only [hc, Bool.false_eq_true, if_false]
          constructor
          · exact fun h => .inl h
          · rintro (h | ⟨⟨c, hcl, hn⟩, hi⟩)
            · exact h
            · exact absurd (by simpa using (hF e.name).mpr ⟨c, hcl, hn, hi⟩) hc
      · rintro ⟨e, he, heq, hiff⟩
        refine ⟨e, he, ?_⟩
        rw [heq, upd_eq, setF_inj]
        by_cases hc : F.contains e.name = true
        · obtain ⟨c, hcl, hn, hi⟩ := (hF e.name).mp (by simpa using hc)
          simp only [hc, if_true]
          exact hiff.mpr (.inr ⟨⟨c, hcl, hn⟩, hi⟩)
        · simp only [hc, Bool.false_eq_true, if_false]
          cases hf : e.force
          · cases hf' : e'.force
            · rfl
            · rcases hiff.mp hf' with h | ⟨⟨c, hcl, hn⟩, hi⟩
              · simp [hf] at h
              · exact absurd (by simpa using (hF e.name).mpr ⟨c, hcl, hn, hi⟩) hc
          · exact hiff.mpr (.inl hf)

end PsModel.C10
