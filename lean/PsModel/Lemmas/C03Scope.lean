import PsModel.Spec.C03Scope
/-! helper lemmas for the C03 name-resolution and binding-extraction theorems -/
namespace PsModel.C03

/-- once a name has been handed up, every enclosing function on the way mentions it, so the search reaches exactly the
binding Python's rule names; an enclosing `global` declaration ends the search only when scoping is lexical -/
theorem PS.lookup_eq_free (cfg : ScopeCfg) (hn : cfg.nonlocalPropagates = true) (x : String) (chain : List FnScope) (d : Nat)
    (h : cfg.lexicalOnly = true ∨ ∀ e ∈ chain, e.globals.contains x = false) :
    (match PS.lookup cfg x d true chain with | some k => Where.cell k | none => Where.global) = Py.free x d chain := by
  induction chain generalizing d with
  | nil => simp [PS.lookup, Py.free]
  | cons e rest ih =>
    have hrest : cfg.lexicalOnly = true ∨ ∀ e' ∈ rest, e'.globals.contains x = false := by
      rcases h with h | h
      · exact Or.inl h
      · exact Or.inr fun e' he' => h e' (by simp [he'])
    rw [PS.lookup, Py.free]
    simp only [Bool.or_true]
    by_cases hg : x ∈ e.globals
    · rcases h with h | h
      · simp [PS.entry, hg, h]
      · have := h e (by simp)
        simp [hg] at this
    · by_cases hl : e.isLocal x = true
      · simp [PS.entry, hg, hl]
      · have hup : PS.handsUp cfg e x true = true := by
          simp [PS.handsUp, hn, hg, hl]
        simp only [PS.entry, List.contains_eq_mem, hg, hl, decide_false, Bool.false_eq_true, if_false, if_true, hup]
        rw [← ih (d + 1) hrest]
        cases PS.lookup cfg x (d + 1) true rest <;> simp

mutual
theorem targetNames_eq (cfg : BindCfg) (hl : cfg.listTargets = true) : ∀ t : Tgt, PS.targetNames cfg t = Py.targetNames t
  | .name x => by simp [PS.targetNames, Py.targetNames]
  | .tuple ts => by simp [PS.targetNames, Py.targetNames, elemNames_eq cfg hl ts]
  | .list ts => by simp [PS.targetNames, Py.targetNames, hl, elemNames_eq cfg hl ts]
  | .starred _ => by simp [PS.targetNames, Py.targetNames]
  | .other => by simp [PS.targetNames, Py.targetNames]
theorem elemNames_eq (cfg : BindCfg) (hl : cfg.listTargets = true) : ∀ ts : List Tgt, PS.elemNames cfg ts = Py.elemNames ts
  | [] => by simp [PS.elemNames, Py.elemNames]
  | .starred t :: rest => by
    simp [PS.elemNames, Py.elemNames, hl, targetNames_eq cfg hl t, elemNames_eq cfg hl rest]
  | .name x :: rest => by simp [PS.elemNames, Py.elemNames, targetNames_eq cfg hl (.name x), elemNames_eq cfg hl rest]
  | .tuple ts :: rest => by simp [PS.elemNames, Py.elemNames, targetNames_eq cfg hl (.tuple ts), elemNames_eq cfg hl rest]
  | .list ts :: rest => by simp [PS.elemNames, Py.elemNames, targetNames_eq cfg hl (.list ts), elemNames_eq cfg hl rest]
  | .other :: rest => by simp [PS.elemNames, Py.elemNames, targetNames_eq cfg hl .other, elemNames_eq cfg hl rest]
end

theorem flatMap_targetNames_eq (cfg : BindCfg) (hl : cfg.listTargets = true) (ts : List Tgt) :
    ts.flatMap (PS.targetNames cfg) = ts.flatMap Py.targetNames := by
  induction ts with
  | nil => rfl
  | cons t rest ih => simp [List.flatMap_cons, targetNames_eq cfg hl t, ih]

theorem del_names_eq (ts : List Tgt)
    (h : ∀ t ∈ ts, match t with | .name _ => True | .other => True | _ => False) :
    (ts.flatMap fun t => match t with | .name x => [x] | _ => []) = ts.flatMap Py.targetNames := by
  induction ts with
  | nil => rfl
  | cons t rest ih =>
    have ht := h t (by simp)
    have hr : ∀ t' ∈ rest, match t' with | .name _ => True | .other => True | _ => False :=
      fun t' ht' => h t' (by simp [ht'])
    simp only [List.flatMap_cons, ih hr]
    cases t <;> simp_all [Py.targetNames]

theorem nodeNames_eq (cfg : BindCfg)
    (hall : cfg.annAssignBinds = true ∧ cfg.listTargets = true ∧ cfg.compVarNotLocal = true ∧ cfg.importBinds = true)
    (k : Kind) (ts : List Tgt)
    (hd : k = .del → ∀ t ∈ ts, match t with | .name _ => True | .other => True | _ => False) :
    PS.nodeNames cfg k ts = Py.nodeNames k ts := by
  obtain ⟨ha, hl, hc, hi⟩ := hall
  unfold PS.nodeNames Py.nodeNames
  cases k <;> simp_all [PS.kindBinds, Py.kindBinds, flatMap_targetNames_eq cfg hl ts]
  exact del_names_eq ts hd

end PsModel.C03
