import PsModel.Spec.C03Cells
/-! the abstraction of a Python frame as a pyscript symbol table, and the static agreement lemmas -/
namespace PsModel.C03.Cells

/-- how pyscript's table shows the variable `x` of a Python frame: a cell, a plain value, or nothing -/
def view (f : Py.Frame) (x : String) : Option Entry :=
  match f.env x with
  | some (a, y) => some (.cell a y)
  | none => (f.fast x).map .raw

/-- the pyscript frame that stands for a Python frame: entries only for the names the function mentions (`var_names`) and
does not declare global -/
def absF (f : Py.Frame) : PS.Frame :=
  { tab := fun x => if (PS.names f.fd).contains x && !f.fd.globals.contains x then view f x else none,
    globalNames := f.fd.globals, localNames := PS.localNames f.fd }

mutual
theorem localsS_eq : ∀ s : Stmt, PS.localsS s = Py.boundS s
  | .assign _ _ => rfl
  | .aug _ _ => rfl
  | .expr _ => rfl
  | .del _ => rfl
  | .ret _ => rfl
  | .declG _ => rfl
  | .declN _ => rfl
  | .defn _ _ _ => rfl
  | .handler x e body => by rw [PS.localsS, Py.boundS, localsL_eq body]
  | .tryNE b h => by rw [PS.localsS, Py.boundS, localsL_eq b, localsL_eq h]
  | .ifT e body => by rw [PS.localsS, Py.boundS, localsL_eq body]
theorem localsL_eq : ∀ ss : List Stmt, PS.localsL ss = Py.boundL ss
  | [] => rfl
  | s :: ss => by rw [PS.localsL, Py.boundL, localsS_eq s, localsL_eq ss]
end

mutual
theorem hasInnerS_eq : ∀ s : Stmt, PS.hasInnerS s = Py.hasDefS s
  | .assign _ _ => rfl
  | .aug _ _ => rfl
  | .expr _ => rfl
  | .del _ => rfl
  | .ret _ => rfl
  | .declG _ => rfl
  | .declN _ => rfl
  | .defn _ _ _ => rfl
  | .handler x e body => by rw [PS.hasInnerS, Py.hasDefS, hasInnerL_eq body]
  | .tryNE b h => by rw [PS.hasInnerS, Py.hasDefS, hasInnerL_eq b, hasInnerL_eq h]
  | .ifT e body => by rw [PS.hasInnerS, Py.hasDefS, hasInnerL_eq body]
theorem hasInnerL_eq : ∀ ss : List Stmt, PS.hasInnerL ss = Py.hasDefL ss
  | [] => rfl
  | s :: ss => by rw [PS.hasInnerL, Py.hasDefL, hasInnerS_eq s, hasInnerL_eq ss]
end

theorem localNames_eq (fd : FnDef) : PS.localNames fd = Py.bound fd := by
  simp [PS.localNames, Py.bound, localsL_eq]

end PsModel.C03.Cells
