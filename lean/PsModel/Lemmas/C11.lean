import PsModel.Model.C11
import PsModel.Spec.C11
/-!
# C11 helper lemmas – part 1: the pointer-juggling evaluator refines the lexical reference
-/
namespace PsModel.C11

/-! ## programs that never execute `set_global_ctx` (syntactically) -/

mutual
def noSetS : Stmt → Bool
  | .setctx _ => false
  | .try_ b h => noSetB b && noSetB h
  | _ => true
def noSetB : List Stmt → Bool
  | [] => true
  | s :: r => noSetS s && noSetB r
end

structure World.NoSet (W : World) : Prop where
  funcs : ∀ fd ∈ W.funcs, noSetB fd.body = true
  files : ∀ pb ∈ W.files, noSetB pb.2 = true

/-! ## coherence of an evaluator's pointers -/

/-- `global_sym_table` is the table of `global_ctx`, and a `sym_table` that is a global table is that one -/
def Coh (p : Ptrs) : Prop := p.gst = p.gctx ∧ ∀ c, p.sym = .glob c → c = p.gst

def kindEq : Scope → Scope → Prop
  | .glob a, .glob b => a = b
  | .loc _, .loc _ => True
  | _, _ => False

/-- same pointers; a local table may have new contents -/
structure Same (p q : Ptrs) : Prop where
  gst : q.gst = p.gst
  gctx : q.gctx = p.gctx
  stack : q.stack = p.stack
  cur : q.cur = p.cur
  kind : kindEq p.sym q.sym

theorem kindEq_refl (s : Scope) : kindEq s s := by cases s <;> simp [kindEq]

theorem kindEq_trans {a b c : Scope} (h1 : kindEq a b) (h2 : kindEq b c) : kindEq a c := by
  cases a <;> cases b <;> cases c <;> simp_all [kindEq]

theorem Same.refl (p : Ptrs) : Same p p := ⟨rfl, rfl, rfl, rfl, kindEq_refl _⟩

theorem Same.trans {p q r : Ptrs} (h1 : Same p q) (h2 : Same q r) : Same p r :=
  ⟨h2.gst.trans h1.gst, h2.gctx.trans h1.gctx, h2.stack.trans h1.stack, h2.cur.trans h1.cur,
   kindEq_trans h1.kind h2.kind⟩

theorem Coh.of_same {p q : Ptrs} (hc : Coh p) (hs : Same p q) : Coh q := by
  refine ⟨by rw [hs.gst, hs.gctx]; exact hc.1, ?_⟩
  intro c hq
  have hk := hs.kind
  rw [hq] at hk
  cases hp : p.sym with
  | loc t => rw [hp] at hk; simp [kindEq] at hk
  | glob a =>
    rw [hp] at hk
    simp only [kindEq] at hk
    rw [hs.gst, ← hk]
    exact hc.2 a hp

theorem coh_fresh (c : Nat) : Coh (fresh c) := by
  refine ⟨rfl, ?_⟩
  intro a h
  simp only [fresh] at h
  injection h with h
  exact h.symm

/-! ## the reference environment of a coherent evaluator -/

theorem envOf_same_of_kind {p q : Ptrs} (hs : Same p q) : (envOf q).g = (envOf p).g ∧ (envOf q).gnames = (envOf p).gnames :=
  ⟨hs.gst, hs.cur⟩

theorem abs_isGlobalName (st : St) (x : String) : Py.isGlobalName (abs st).env x = isGlobalName st.p x := rfl

theorem abs_readSym {st : St} (hc : Coh st.p) (x : String) : Py.readSym (abs st) x = readSym st x := by
  unfold Py.readSym readSym abs envOf
  cases hs : st.p.sym with
  | loc t => simp
  | glob c => simp [hc.2 c hs]

theorem abs_lookupVar {st : St} (hc : Coh st.p) (x : String) : Py.lookupVar (abs st) x = lookupVar st x := by
  unfold Py.lookupVar lookupVar
  rw [abs_isGlobalName, abs_readSym hc]
  rfl

theorem abs_evalAtom {st : St} (hc : Coh st.p) (a : Atom) : Py.evalAtom (abs st) a = evalAtom st a := by
  cases a with
  | lit n => rfl
  | var x => simp [Py.evalAtom, evalAtom, abs_lookupVar hc]
  | attr x a => simp only [Py.evalAtom, evalAtom, abs_lookupVar hc]; rfl

theorem abs_evalAtoms {st : St} (hc : Coh st.p) (as : List Atom) : Py.evalAtoms (abs st) as = evalAtoms st as := by
  induction as with
  | nil => rfl
  | cons a r ih => simp only [Py.evalAtoms, evalAtoms, abs_evalAtom hc, ih]; rfl

theorem writeSym_sim {st : St} (hc : Coh st.p) (x : String) (v : Val) :
    Py.writeSym (abs st) x v = abs (writeSym st x v) ∧ Same st.p (writeSym st x v).p := by
  unfold Py.writeSym writeSym abs envOf
  cases hs : st.p.sym with
  | loc t =>
    refine ⟨by simp, ⟨rfl, rfl, rfl, rfl, ?_⟩⟩
    simp [hs, kindEq]
  | glob c =>
    have := hc.2 c hs
    subst this
    refine ⟨by simp [hs], ⟨rfl, rfl, rfl, rfl, ?_⟩⟩
    simp [hs, kindEq]

theorem assignVar_sim {st : St} (hc : Coh st.p) (x : String) (v : Val) :
    Py.assignVar (abs st) x v = abs (assignVar st x v) ∧ Same st.p (assignVar st x v).p := by
  unfold Py.assignVar assignVar
  rw [abs_isGlobalName]
  split
  · exact ⟨rfl, Same.refl _⟩
  · exact writeSym_sim hc x v

theorem bindFrom_sim (c : Nat) (names : List (String × Option String)) :
    ∀ {st : St}, Coh st.p →
      (Py.bindFrom (abs st) c names).1 = abs (bindFrom st c names).1 ∧
      (Py.bindFrom (abs st) c names).2 = (bindFrom st c names).2 ∧
      Same st.p (bindFrom st c names).1.p := by
  induction names with
  | nil => intro st _; exact ⟨rfl, rfl, Same.refl _⟩
  | cons na r ih =>
    intro st hc
    obtain ⟨nm, asn⟩ := na
    simp only [Py.bindFrom, bindFrom]
    have hh : (abs st).h = st.h := rfl
    rw [hh]
    cases hg : tget (st.h.tab c) nm with
    | none => exact ⟨rfl, rfl, Same.refl _⟩
    | some v =>
      simp only
      obtain ⟨h1, h2⟩ := writeSym_sim hc (asn.getD nm) v
      rw [h1]
      obtain ⟨i1, i2, i3⟩ := ih (hc.of_same h2)
      exact ⟨i1, i2, h2.trans i3⟩

theorem bindStar_sim (t : Table) :
    ∀ {st : St}, Coh st.p → Py.bindStar (abs st) t = abs (bindStar st t) ∧ Same st.p (bindStar st t).p := by
  induction t with
  | nil => intro st _; exact ⟨rfl, Same.refl _⟩
  | cons kv r ih =>
    intro st hc
    obtain ⟨k, v⟩ := kv
    simp only [Py.bindStar, bindStar]
    split
    · obtain ⟨h1, h2⟩ := writeSym_sim hc k v
      rw [h1]
      obtain ⟨i1, i2⟩ := ih (hc.of_same h2)
      exact ⟨i1, h2.trans i2⟩
    · exact ih hc

theorem bindStarC_sim (cfg : Cfg) (c : Nat) {st : St} (hc : Coh st.p) :
    (Py.bindStarC cfg (abs st) c).1 = abs (bindStarC cfg st c).1 ∧
    (Py.bindStarC cfg (abs st) c).2 = (bindStarC cfg st c).2 ∧
    Same st.p (bindStarC cfg st c).1.p := by
  have hh : (abs st).h = st.h := rfl
  simp only [Py.bindStarC, bindStarC, hh]
  cases starNames cfg (st.h.tab c) with
  | some l => exact bindFrom_sim c _ hc
  | none =>
    obtain ⟨h1, h2⟩ := bindStar_sim (st.h.tab c) hc
    exact ⟨h1, rfl, h2⟩

/-! ## the context switch -/

theorem coh_enterCall {p : Ptrs} (hc : Coh p) (c : Nat) (l : Table) (gl : List String) : Coh (enterCall p c l gl) := by
  unfold enterCall
  split
  · exact ⟨rfl, by intro a h; cases h⟩
  · rename_i h
    refine ⟨hc.1, by intro a h; cases h⟩

theorem envOf_enterCall {p : Ptrs} (hc : Coh p) (c : Nat) (l : Table) (gl : List String) :
    envOf (enterCall p c l gl) = { g := c, locals := some l, gnames := some gl } := by
  unfold enterCall envOf
  split
  · rfl
  · rename_i h
    have : p.gctx = c := by simpa using h
    simp [← this, hc.1]

/-- **the `finally` block undoes the entry**, for any body that leaves the pointers as it found them -/
theorem leaveCall_enterCall {p q : Ptrs} (c : Nat) (l : Table) (gl : List String)
    (hs : Same (enterCall p c l gl) q) : leaveCall p c q = p := by
  unfold leaveCall
  unfold enterCall at hs
  split
  · rfl
  · rename_i h
    rw [if_neg h] at hs
    have hst : q.stack = p.stack ++ [p.sym] := hs.stack
    rw [hst]
    simp only [List.getLast?_append, List.getLast?_singleton, Option.some_or, List.dropLast_concat]
    have h1 := hs.gst
    have h2 := hs.gctx
    simp only at h1 h2
    cases p
    simp_all

/-! ## files and functions of the world -/

theorem lookup_mem {α β} [BEq α] [LawfulBEq α] {l : List (α × β)} {k : α} {v : β} (h : l.lookup k = some v) :
    (k, v) ∈ l := by
  induction l with
  | nil => simp at h
  | cons x r ih =>
    obtain ⟨a, b⟩ := x
    simp only [List.lookup_cons] at h
    by_cases hk : k == a
    · rw [hk] at h
      simp only [Option.some.injEq] at h
      have : k = a := by simpa using hk
      subst this; subst h
      exact List.mem_cons_self
    · have hk' : (k == a) = false := by simpa using hk
      rw [hk'] at h
      exact List.mem_cons_of_mem _ (ih h)

theorem findFile_mem {W : World} {cds : List Cand} {cd : Cand} {b : Block} (h : findFile W cds = some (cd, b)) :
    ∃ p, (p, b) ∈ W.files := by
  induction cds with
  | nil => simp [findFile] at h
  | cons x r ih =>
    simp only [findFile] at h
    cases hf : fileOf W x.file with
    | none => rw [hf] at h; exact ih h
    | some b' =>
      rw [hf] at h
      simp only [Option.some.injEq, Prod.mk.injEq] at h
      obtain ⟨_, rfl⟩ := h
      unfold fileOf at hf
      exact ⟨x.file, lookup_mem hf⟩

theorem importLookup_load_noSet {W : World} (hW : W.NoSet) {h : Heap} {g : Nat} {m : Name} {lvl : Nat} {cd : Cand}
    {b : Block} (hl : importLookup W h g m lvl = .load cd b) : noSetB b = true := by
  unfold importLookup at hl
  split at hl
  · cases hl
  · split at hl
    · cases hl
    · split at hl
      · cases hl
      · rename_i hf
        injection hl with h1 h2
        subst h1 h2
        obtain ⟨p, hp⟩ := findFile_mem hf
        exact hW.files _ hp

/-! ## the simulation -/

structure Sim (st : St) (r : Res) (r' : Py.PRes) : Prop where
  s : r'.s = abs r.st
  out : r'.out = r.out
  same : Same st.p r.st.p

structure SimV (st : St) (r : ResV) (r' : Py.PResV) : Prop where
  s : r'.s = abs r.st
  val : r'.val = r.val
  ptrs : r.st.p = st.p

structure SimM (st : St) (r : ResM) (r' : Py.PResM) : Prop where
  s : r'.s = abs r.st
  val : r'.val = r.val
  ptrs : r.st.p = st.p

def SimAll (W : World) (n : Nat) : Prop :=
  (∀ st s, Coh st.p → noSetS s = true → Sim st (execStmt W n st s) (Py.execStmt W n (abs st) s)) ∧
  (∀ st b, Coh st.p → noSetB b = true → Sim st (execBlock W n st b) (Py.execBlock W n (abs st) b)) ∧
  (∀ st fv vs, Coh st.p → SimV st (callFn W n st fv vs) (Py.callFn W n (abs st) fv vs)) ∧
  (∀ st m lvl, Coh st.p → SimM st (importMod W n st m lvl) (Py.importMod W n (abs st) m lvl))


theorem Same.of_ptrs_eq {st : St} {p : Ptrs} (h : p = st.p) : Same st.p p := by subst h; exact Same.refl _

/-- the reference call does not depend on the caller's environment and hands it back untouched -/
theorem Py.callFn_env (W : World) (n : Nat) (h : Heap) (e e2 : Env) (fv : Val) (vs : List Val) :
    (Py.callFn W n ⟨h, e⟩ fv vs).s.env = e ∧
    (Py.callFn W n ⟨h, e2⟩ fv vs).s.h = (Py.callFn W n ⟨h, e⟩ fv vs).s.h ∧
    (Py.callFn W n ⟨h, e2⟩ fv vs).val = (Py.callFn W n ⟨h, e⟩ fv vs).val := by
  cases n with
  | zero => simp [Py.callFn]
  | succ n =>
    cases fv with
    | fn c fid =>
      simp only [Py.callFn]
      cases W.funcs[fid]? with
      | none => simp
      | some fd =>
        simp only
        cases bindArgs fd.params vs with
        | none => simp
        | some l => simp
    | none => simp [Py.callFn]
    | int k => simp [Py.callFn]
    | names l => simp [Py.callFn]
    | mod k => simp [Py.callFn]

theorem simAll_zero (W : World) : SimAll W 0 := by
  refine ⟨?_, ?_, ?_, ?_⟩
  · intro st s _ _; simp only [execStmt, Py.execStmt]; exact ⟨rfl, rfl, Same.refl _⟩
  · intro st b _ _; simp only [execBlock, Py.execBlock]; exact ⟨rfl, rfl, Same.refl _⟩
  · intro st fv vs _; simp only [callFn, Py.callFn]; exact ⟨rfl, rfl, rfl⟩
  · intro st m lvl _; simp only [importMod, Py.importMod]; exact ⟨rfl, rfl, rfl⟩

theorem sim_call_step (W : World) (hW : W.NoSet) (n : Nat) (ih : SimAll W n) :
    ∀ st fv vs, Coh st.p → SimV st (callFn W (n+1) st fv vs) (Py.callFn W (n+1) (abs st) fv vs) := by
  obtain ⟨_, ihB, _, _⟩ := ih
  intro st fv vs hc
  cases fv with
  | fn c fid =>
    simp only [callFn, Py.callFn]
    cases hf : W.funcs[fid]? with
    | none => exact ⟨rfl, rfl, rfl⟩
    | some fd =>
      simp only
      cases hb : bindArgs fd.params vs with
      | none => exact ⟨rfl, rfl, rfl⟩
      | some l =>
        simp only
        have hmem : fd ∈ W.funcs := List.mem_of_getElem? hf
        have hns := hW.funcs fd hmem
        have hce := coh_enterCall hc c l fd.globals
        have hS := ihB { st with p := enterCall st.p c l fd.globals } fd.body hce hns
        have habs : abs { st with p := enterCall st.p c l fd.globals }
            = ⟨st.h, { g := c, locals := some l, gnames := some fd.globals }⟩ := by
          simp only [abs, envOf_enterCall hc]
        rw [habs] at hS
        have hleave := leaveCall_enterCall c l fd.globals hS.same
        have hh : (abs st).h = st.h := rfl
        rw [hh]
        refine ⟨?_, ?_, ?_⟩
        · simp only [hleave]; rw [hS.s]; rfl
        · simp only; rw [hS.out]
        · exact hleave
  | none => simp only [callFn, Py.callFn]; exact ⟨rfl, rfl, rfl⟩
  | int k => simp only [callFn, Py.callFn]; exact ⟨rfl, rfl, rfl⟩
  | names l => simp only [callFn, Py.callFn]; exact ⟨rfl, rfl, rfl⟩
  | mod k => simp only [callFn, Py.callFn]; exact ⟨rfl, rfl, rfl⟩

theorem sim_import_step (W : World) (hW : W.NoSet) (n : Nat) (ih : SimAll W n) :
    ∀ st m lvl, Coh st.p → SimM st (importMod W (n+1) st m lvl) (Py.importMod W (n+1) (abs st) m lvl) := by
  obtain ⟨_, ihB, _, _⟩ := ih
  intro st m lvl hc
  simp only [importMod, Py.importMod]
  have hg : (abs st).env.g = st.p.gctx := hc.1
  have hh : (abs st).h = st.h := rfl
  rw [hg, hh]
  cases hl : importLookup W st.h st.p.gctx m lvl with
  | err e => exact ⟨rfl, rfl, rfl⟩
  | found c => exact ⟨rfl, rfl, rfl⟩
  | missing => exact ⟨rfl, rfl, rfl⟩
  | load cd body =>
    simp only
    have hns := importLookup_load_noSet hW hl
    have hS := ihB { h := loadBegin st.h cd, p := fresh st.h.ctxs.length } body (coh_fresh _) hns
    have habs : abs { h := loadBegin st.h cd, p := fresh st.h.ctxs.length }
        = ⟨loadBegin st.h cd, { g := st.h.ctxs.length, locals := none, gnames := none }⟩ := rfl
    rw [habs] at hS
    rw [hS.out]
    have hhs : (Py.execBlock W n ⟨loadBegin st.h cd, { g := st.h.ctxs.length, locals := none, gnames := none }⟩ body).s.h
        = (execBlock W n { h := loadBegin st.h cd, p := fresh st.h.ctxs.length } body).st.h := by rw [hS.s]; rfl
    rw [hhs]
    cases (execBlock W n { h := loadBegin st.h cd, p := fresh st.h.ctxs.length } body).out with
    | exc e => exact ⟨rfl, rfl, rfl⟩
    | norm => exact ⟨rfl, rfl, rfl⟩
    | ret v => exact ⟨rfl, rfl, rfl⟩


theorem sim_block_step (W : World) (n : Nat) (ih : SimAll W n) :
    ∀ st b, Coh st.p → noSetB b = true → Sim st (execBlock W (n+1) st b) (Py.execBlock W (n+1) (abs st) b) := by
  obtain ⟨ihS, ihB, _, _⟩ := ih
  intro st b hc hb
  cases b with
  | nil => simp only [execBlock, Py.execBlock]; exact ⟨rfl, rfl, Same.refl _⟩
  | cons s rest =>
    simp only [noSetB, Bool.and_eq_true] at hb
    simp only [execBlock, Py.execBlock]
    have h1 := ihS st s hc hb.1
    rw [h1.out, h1.s]
    cases ho : (execStmt W n st s).out with
    | norm =>
      have h2 := ihB _ rest (hc.of_same h1.same) hb.2
      exact ⟨h2.s, h2.out, h1.same.trans h2.same⟩
    | ret v => exact h1
    | exc e => exact h1

theorem sim_stmt_step (W : World) (n : Nat) (ih : SimAll W n) :
    ∀ st s, Coh st.p → noSetS s = true → Sim st (execStmt W (n+1) st s) (Py.execStmt W (n+1) (abs st) s) := by
  obtain ⟨_, ihB, ihC, ihM⟩ := ih
  intro st s hc hs
  cases s with
  | assign x a =>
    simp only [execStmt, Py.execStmt, abs_evalAtom hc]
    cases evalAtom st a with
    | error e => exact ⟨rfl, rfl, Same.refl _⟩
    | ok v => obtain ⟨h1, h2⟩ := assignVar_sim hc x v; exact ⟨h1, rfl, h2⟩
  | add x a b =>
    simp only [execStmt, Py.execStmt, abs_evalAtom hc]
    cases evalAtom st a with
    | error e => exact ⟨rfl, rfl, Same.refl _⟩
    | ok va =>
      simp only
      cases evalAtom st b with
      | error e => exact ⟨rfl, rfl, Same.refl _⟩
      | ok vb =>
        simp only
        cases addVals va vb with
        | error e => exact ⟨rfl, rfl, Same.refl _⟩
        | ok v => obtain ⟨h1, h2⟩ := assignVar_sim hc x v; exact ⟨h1, rfl, h2⟩
  | setattr m a v =>
    simp only [execStmt, Py.execStmt, abs_evalAtom hc, abs_lookupVar hc]
    cases evalAtom st v with
    | error e => exact ⟨rfl, rfl, Same.refl _⟩
    | ok w =>
      simp only
      cases lookupVar st m with
      | error e => exact ⟨rfl, rfl, Same.refl _⟩
      | ok mv =>
        cases mv with
        | mod c => exact ⟨rfl, rfl, Same.refl _⟩
        | none => exact ⟨rfl, rfl, Same.refl _⟩
        | int k => exact ⟨rfl, rfl, Same.refl _⟩
        | names l => exact ⟨rfl, rfl, Same.refl _⟩
        | fn c f => exact ⟨rfl, rfl, Same.refl _⟩
  | call x f args =>
    simp only [execStmt, Py.execStmt, abs_evalAtom hc, abs_evalAtoms hc]
    cases evalAtom st f with
    | error e => exact ⟨rfl, rfl, Same.refl _⟩
    | ok fv =>
      simp only
      cases evalAtoms st args with
      | error e => exact ⟨rfl, rfl, Same.refl _⟩
      | ok vs =>
        obtain ⟨c1, c2, c3⟩ := ihC st fv vs hc
        simp only [c1, c2]
        cases (callFn W n st fv vs).val with
        | error e => exact ⟨rfl, rfl, Same.of_ptrs_eq c3⟩
        | ok v =>
          have hc' : Coh (callFn W n st fv vs).st.p := by rw [c3]; exact hc
          obtain ⟨h1, h2⟩ := assignVar_sim hc' x v
          exact ⟨h1, rfl, (Same.of_ptrs_eq c3).trans h2⟩
  | spawn own f args =>
    simp only [execStmt, Py.execStmt, abs_evalAtom hc, abs_evalAtoms hc]
    cases evalAtom st f with
    | error e => exact ⟨rfl, rfl, Same.refl _⟩
    | ok fv =>
      simp only
      cases evalAtoms st args with
      | error e => exact ⟨rfl, rfl, Same.refl _⟩
      | ok vs =>
        simp only
        generalize hcx : (if own = true then fnCtx fv st.p.gctx else st.p.gctx) = c
        obtain ⟨c1, _, _⟩ := ihC { st with p := fresh c } fv vs (coh_fresh c)
        obtain ⟨e1, e2, _⟩ := Py.callFn_env W n st.h (abs st).env (abs { st with p := fresh c }).env fv vs
        refine ⟨?_, rfl, Same.refl _⟩
        have hA : abs st = ⟨st.h, (abs st).env⟩ := rfl
        have hB : abs { st with p := fresh c } = ⟨st.h, (abs { st with p := fresh c }).env⟩ := rfl
        rw [hB] at c1
        have hh : (Py.callFn W n (abs st) fv vs).s.h = (callFn W n { st with p := fresh c } fv vs).st.h := by
          rw [hA, ← e2, c1]; rfl
        have he : (Py.callFn W n (abs st) fv vs).s.env = envOf st.p := by rw [hA]; exact e1
        show (Py.callFn W n (abs st) fv vs).s = _
        cases hr : (Py.callFn W n (abs st) fv vs).s with
        | mk h' e' =>
          rw [hr] at hh he
          simp only at hh he
          subst hh he
          rfl
  | setAll l =>
    simp only [execStmt, Py.execStmt]
    obtain ⟨h1, h2⟩ := assignVar_sim hc "__all__" (.names l)
    exact ⟨h1, rfl, h2⟩
  | defn x fid =>
    simp only [execStmt, Py.execStmt]
    obtain ⟨h1, h2⟩ := assignVar_sim hc x (.fn st.p.gctx fid)
    have : (abs st).env.g = st.p.gctx := hc.1
    rw [this]
    exact ⟨h1, rfl, h2⟩
  | ret a =>
    simp only [execStmt, Py.execStmt, abs_evalAtom hc]
    cases evalAtom st a with
    | error e => exact ⟨rfl, rfl, Same.refl _⟩
    | ok v => exact ⟨rfl, rfl, Same.refl _⟩
  | raise k => simp only [execStmt, Py.execStmt]; exact ⟨rfl, rfl, Same.refl _⟩
  | try_ body handler =>
    simp only [noSetS, Bool.and_eq_true] at hs
    simp only [execStmt, Py.execStmt]
    have h1 := ihB st body hc hs.1
    rw [h1.out]
    cases ho : (execBlock W n st body).out with
    | norm => exact h1
    | ret v => exact h1
    | exc e =>
      simp only
      split
      · exact h1
      · rw [h1.s]
        have h2 := ihB _ handler (hc.of_same h1.same) hs.2
        exact ⟨h2.s, h2.out, h1.same.trans h2.same⟩
  | import_ m asn =>
    simp only [execStmt, Py.execStmt]
    obtain ⟨c1, c2, c3⟩ := ihM st m 0 hc
    simp only [c1, c2]
    cases (importMod W n st m 0).val with
    | error e => exact ⟨rfl, rfl, Same.of_ptrs_eq c3⟩
    | ok o =>
      cases o with
      | none => exact ⟨rfl, rfl, Same.of_ptrs_eq c3⟩
      | some c =>
        have hc' : Coh (importMod W n st m 0).st.p := by rw [c3]; exact hc
        obtain ⟨h1, h2⟩ := writeSym_sim hc' (asn.getD (dotted m)) (.mod c)
        exact ⟨h1, rfl, (Same.of_ptrs_eq c3).trans h2⟩
  | fromDot lvl nm asn =>
    simp only [execStmt, Py.execStmt]
    obtain ⟨c1, c2, c3⟩ := ihM st [nm] lvl hc
    simp only [c1, c2]
    cases (importMod W n st [nm] lvl).val with
    | error e => exact ⟨rfl, rfl, Same.of_ptrs_eq c3⟩
    | ok o =>
      cases o with
      | none => exact ⟨rfl, rfl, Same.of_ptrs_eq c3⟩
      | some c =>
        have hc' : Coh (importMod W n st [nm] lvl).st.p := by rw [c3]; exact hc
        obtain ⟨h1, h2⟩ := writeSym_sim hc' (asn.getD nm) (.mod c)
        exact ⟨h1, rfl, (Same.of_ptrs_eq c3).trans h2⟩
  | from_ m lvl names =>
    simp only [execStmt, Py.execStmt]
    obtain ⟨c1, c2, c3⟩ := ihM st m lvl hc
    simp only [c1, c2]
    cases (importMod W n st m lvl).val with
    | error e => exact ⟨rfl, rfl, Same.of_ptrs_eq c3⟩
    | ok o =>
      cases o with
      | none => exact ⟨rfl, rfl, Same.of_ptrs_eq c3⟩
      | some c =>
        have hc' : Coh (importMod W n st m lvl).st.p := by rw [c3]; exact hc
        obtain ⟨h1, h2, h3⟩ := bindFrom_sim c names hc'
        simp only
        cases hp : Py.bindFrom (abs (importMod W n st m lvl).st) c names with
        | mk s' o' =>
          cases hq : bindFrom (importMod W n st m lvl).st c names with
          | mk st' o'' =>
            rw [hp, hq] at h1 h2
            rw [hq] at h3
            simp only at h1 h2 h3
            subst h1 h2
            cases o' with
            | none => exact ⟨rfl, rfl, (Same.of_ptrs_eq c3).trans h3⟩
            | some e => exact ⟨rfl, rfl, (Same.of_ptrs_eq c3).trans h3⟩
  | fromStar m lvl =>
    simp only [execStmt, Py.execStmt]
    obtain ⟨c1, c2, c3⟩ := ihM st m lvl hc
    simp only [c1, c2]
    cases (importMod W n st m lvl).val with
    | error e => exact ⟨rfl, rfl, Same.of_ptrs_eq c3⟩
    | ok o =>
      cases o with
      | none => exact ⟨rfl, rfl, Same.of_ptrs_eq c3⟩
      | some c =>
        have hc' : Coh (importMod W n st m lvl).st.p := by rw [c3]; exact hc
        obtain ⟨h1, h2, h3⟩ := bindStarC_sim W.cfg c hc'
        simp only
        cases hp : Py.bindStarC W.cfg (abs (importMod W n st m lvl).st) c with
        | mk s' o' =>
          cases hq : bindStarC W.cfg (importMod W n st m lvl).st c with
          | mk st' o'' =>
            rw [hp, hq] at h1 h2
            rw [hq] at h3
            simp only at h1 h2 h3
            subst h1 h2
            cases o' with
            | none => exact ⟨rfl, rfl, (Same.of_ptrs_eq c3).trans h3⟩
            | some e => exact ⟨rfl, rfl, (Same.of_ptrs_eq c3).trans h3⟩
  | setctx nm => simp [noSetS] at hs

theorem simAll (W : World) (hW : W.NoSet) : ∀ n, SimAll W n := by
  intro n
  induction n with
  | zero => exact simAll_zero W
  | succ n ih =>
    exact ⟨sim_stmt_step W n ih, sim_block_step W n ih, sim_call_step W hW n ih, sim_import_step W hW n ih⟩


/-! # part 2: frame – a context nobody holds a reference to is neither read nor written -/

def mentions : Val → Nat → Bool
  | .fn c _, B => c == B
  | .mod c, B => c == B
  | _, _ => false

def TFree (B : Nat) (t : Table) : Prop := ∀ kv ∈ t, mentions kv.2 B = false
def VsFree (B : Nat) (vs : List Val) : Prop := ∀ v ∈ vs, mentions v B = false

theorem TFree.nil (B : Nat) : TFree B [] := by intro kv h; cases h

theorem TFree.set_ {B : Nat} {t : Table} (ht : TFree B t) (x : String) {v : Val} (hv : mentions v B = false) :
    TFree B (tset t x v) := by
  induction t with
  | nil => intro kv h; simp only [tset, List.mem_singleton] at h; subst h; exact hv
  | cons yw r ih =>
    obtain ⟨y, w⟩ := yw
    simp only [tset]
    split
    · intro kv h
      simp only [List.mem_cons] at h
      rcases h with rfl | h
      · exact hv
      · exact ht kv (List.mem_cons_of_mem _ h)
    · intro kv h
      simp only [List.mem_cons] at h
      rcases h with rfl | h
      · exact ht _ List.mem_cons_self
      · exact ih (fun kv hk => ht kv (List.mem_cons_of_mem _ hk)) kv h

theorem TFree.get_ {B : Nat} {t : Table} (ht : TFree B t) {x : String} {v : Val} (h : tget t x = some v) :
    mentions v B = false := ht (x, v) (lookup_mem h)

theorem bindArgs_free {B : Nat} : ∀ (ps : List String) (vs : List Val) (t : Table), VsFree B vs → bindArgs ps vs = some t →
    TFree B t := by
  intro ps
  induction ps with
  | nil =>
    intro vs t _ h
    cases vs with
    | nil => simp only [bindArgs, Option.some.injEq] at h; subst h; exact TFree.nil B
    | cons v r => simp [bindArgs] at h
  | cons x xs ih =>
    intro vs t hv h
    cases vs with
    | nil => simp [bindArgs] at h
    | cons v r =>
      simp only [bindArgs] at h
      cases hb : bindArgs xs r with
      | none => rw [hb] at h; cases h
      | some t0 =>
        rw [hb] at h
        simp only [Option.some.injEq] at h
        subst h
        exact (ih r t0 (fun w hw => hv w (List.mem_cons_of_mem _ hw)) hb).set_ x (hv v List.mem_cons_self)

structure HFree (B : Nat) (h : Heap) : Prop where
  lt : B < h.ctxs.length
  nomod : hasModuleAt h B = false
  tabs : ∀ c, c ≠ B → TFree B (h.tab c)

structure SFree (B : Nat) (s : PSt) : Prop where
  h : HFree B s.h
  g : s.env.g ≠ B
  loc : ∀ t, s.env.locals = some t → TFree B t

def swap (B : Nat) (t' : Table) (s : PSt) : PSt := { s with h := s.h.setTab B t' }

theorem tab_setTab_ne {h : Heap} {B c : Nat} (t' : Table) (hc : c ≠ B) : (h.setTab B t').tab c = h.tab c := by
  simp [Heap.tab, Heap.setTab, hc]

theorem setKey_swap {h : Heap} {B c : Nat} (t' : Table) (hc : c ≠ B) (x : String) (v : Val) :
    (h.setTab B t').setKey c x v = (h.setKey c x v).setTab B t' := by
  unfold Heap.setKey
  rw [tab_setTab_ne t' hc]
  unfold Heap.setTab
  simp only
  congr 1
  funext c'
  by_cases h1 : c' = c
  · subst h1; simp [hc]
  · simp [h1]

theorem HFree.set_key {B : Nat} {h : Heap} (hf : HFree B h) {c : Nat} (hc : c ≠ B) (x : String) {v : Val}
    (hv : mentions v B = false) : HFree B (h.setKey c x v) := by
  refine ⟨hf.lt, hf.nomod, ?_⟩
  intro c' hc'
  unfold Heap.setKey Heap.setTab Heap.tab
  simp only
  split
  · rename_i he
    subst he
    exact (hf.tabs c' hc').set_ x hv
  · exact hf.tabs c' hc'

theorem swap_readSym {B : Nat} {s : PSt} (hs : SFree B s) (t' : Table) (x : String) :
    Py.readSym (swap B t' s) x = Py.readSym s x := by
  unfold Py.readSym swap
  cases hl : s.env.locals with
  | some t => simp
  | none => simp only; rw [tab_setTab_ne t' hs.g]

theorem swap_lookupVar {B : Nat} {s : PSt} (hs : SFree B s) (t' : Table) (x : String) :
    Py.lookupVar (swap B t' s) x = Py.lookupVar s x := by
  unfold Py.lookupVar
  rw [swap_readSym hs]
  have h1 : (swap B t' s).env = s.env := rfl
  have h2 : (swap B t' s).h.tab s.env.g = s.h.tab s.env.g := tab_setTab_ne t' hs.g
  rw [h1, h2]

theorem readSym_free {B : Nat} {s : PSt} (hs : SFree B s) {x : String} {v : Val} (h : Py.readSym s x = some v) :
    mentions v B = false := by
  unfold Py.readSym at h
  cases hl : s.env.locals with
  | some t => rw [hl] at h; exact (hs.loc t hl).get_ h
  | none => rw [hl] at h; exact (hs.h.tabs _ hs.g).get_ h

theorem lookupVar_free {B : Nat} {s : PSt} (hs : SFree B s) {x : String} {v : Val} (h : Py.lookupVar s x = .ok v) :
    mentions v B = false := by
  unfold Py.lookupVar at h
  split at h
  · cases hg : tget (s.h.tab s.env.g) x with
    | none => rw [hg] at h; cases h
    | some w => rw [hg] at h; injection h with h; subst h; exact (hs.h.tabs _ hs.g).get_ hg
  · cases hr : Py.readSym s x with
    | some w => rw [hr] at h; injection h with h; subst h; exact readSym_free hs hr
    | none =>
      rw [hr] at h
      cases hg : tget (s.h.tab s.env.g) x with
      | none => rw [hg] at h; cases h
      | some w => rw [hg] at h; injection h with h; subst h; exact (hs.h.tabs _ hs.g).get_ hg

theorem getAttr_swap {B : Nat} {h : Heap} (t' : Table) {v : Val} (hv : mentions v B = false) (a : String) :
    getAttr (h.setTab B t') v a = getAttr h v a := by
  cases v with
  | mod c =>
    have hc : c ≠ B := by simpa [mentions] using hv
    simp only [getAttr, tab_setTab_ne t' hc]
  | none => rfl
  | int k => rfl
  | names l => rfl
  | fn c f => rfl

theorem getAttr_free {B : Nat} {h : Heap} (hf : HFree B h) {v w : Val} (hv : mentions v B = false) {a : String}
    (hg : getAttr h v a = .ok w) : mentions w B = false := by
  cases v with
  | mod c =>
    have hc : c ≠ B := by simpa [mentions] using hv
    simp only [getAttr] at hg
    cases ht : tget (h.tab c) a with
    | none => rw [ht] at hg; cases hg
    | some u => rw [ht] at hg; injection hg with hg; subst hg; exact (hf.tabs c hc).get_ ht
  | none => cases hg
  | int k => cases hg
  | names l => cases hg
  | fn c f => cases hg

theorem swap_evalAtom {B : Nat} {s : PSt} (hs : SFree B s) (t' : Table) (a : Atom) :
    Py.evalAtom (swap B t' s) a = Py.evalAtom s a := by
  cases a with
  | lit n => rfl
  | var x => simp only [Py.evalAtom, swap_lookupVar hs]
  | attr x a =>
    simp only [Py.evalAtom, swap_lookupVar hs]
    cases hl : Py.lookupVar s x with
    | error e => rfl
    | ok v => exact getAttr_swap t' (lookupVar_free hs hl) a

theorem evalAtom_free {B : Nat} {s : PSt} (hs : SFree B s) {a : Atom} {v : Val} (h : Py.evalAtom s a = .ok v) :
    mentions v B = false := by
  cases a with
  | lit n => simp only [Py.evalAtom] at h; injection h with h; subst h; rfl
  | var x => exact lookupVar_free hs h
  | attr x a =>
    simp only [Py.evalAtom] at h
    cases hl : Py.lookupVar s x with
    | error e => rw [hl] at h; cases h
    | ok w => rw [hl] at h; exact getAttr_free hs.h (lookupVar_free hs hl) h

theorem swap_evalAtoms {B : Nat} {s : PSt} (hs : SFree B s) (t' : Table) (as : List Atom) :
    Py.evalAtoms (swap B t' s) as = Py.evalAtoms s as := by
  induction as with
  | nil => rfl
  | cons a r ih => simp only [Py.evalAtoms, swap_evalAtom hs, ih]

theorem evalAtoms_free {B : Nat} {s : PSt} (hs : SFree B s) : ∀ {as : List Atom} {vs : List Val},
    Py.evalAtoms s as = .ok vs → VsFree B vs := by
  intro as
  induction as with
  | nil => intro vs h; simp only [Py.evalAtoms] at h; injection h with h; subst h; intro v hv; cases hv
  | cons a r ih =>
    intro vs h
    simp only [Py.evalAtoms] at h
    cases ha : Py.evalAtom s a with
    | error e => rw [ha] at h; cases h
    | ok v =>
      rw [ha] at h
      cases hr : Py.evalAtoms s r with
      | error e => rw [hr] at h; cases h
      | ok ws =>
        rw [hr] at h
        injection h with h
        subst h
        intro u hu
        simp only [List.mem_cons] at hu
        rcases hu with rfl | hu
        · exact evalAtom_free hs ha
        · exact ih hr u hu

theorem writeSym_frame {B : Nat} {s : PSt} (hs : SFree B s) (x : String) {v : Val} (hv : mentions v B = false) :
    SFree B (Py.writeSym s x v) ∧ ∀ t', Py.writeSym (swap B t' s) x v = swap B t' (Py.writeSym s x v) := by
  unfold Py.writeSym
  cases hl : s.env.locals with
  | some t =>
    refine ⟨⟨hs.h, hs.g, ?_⟩, ?_⟩
    · intro t2 h2
      simp only [Option.some.injEq] at h2
      subst h2
      exact (hs.loc t hl).set_ x hv
    · intro t'
      simp [swap, hl]
  | none =>
    refine ⟨⟨hs.h.set_key hs.g x hv, hs.g, ?_⟩, ?_⟩
    · intro t2 h2
      simp only at h2
      exact hs.loc t2 (by rw [← h2])
    · intro t'
      simp only [swap, hl]
      rw [setKey_swap t' hs.g]

theorem assignVar_frame {B : Nat} {s : PSt} (hs : SFree B s) (x : String) {v : Val} (hv : mentions v B = false) :
    SFree B (Py.assignVar s x v) ∧ ∀ t', Py.assignVar (swap B t' s) x v = swap B t' (Py.assignVar s x v) := by
  unfold Py.assignVar
  have he : ∀ t', (swap B t' s).env = s.env := fun _ => rfl
  split
  · refine ⟨⟨hs.h.set_key hs.g x hv, hs.g, hs.loc⟩, ?_⟩
    intro t'
    rw [he]
    rename_i hg
    rw [if_pos hg]
    simp only [swap]
    rw [setKey_swap t' hs.g]
  · rename_i hg
    obtain ⟨h1, h2⟩ := writeSym_frame hs x hv
    refine ⟨h1, ?_⟩
    intro t'
    rw [he, if_neg hg]
    exact h2 t'

theorem bindFrom_frame {B : Nat} {c : Nat} (hc : c ≠ B) (names : List (String × Option String)) :
    ∀ {s : PSt}, SFree B s →
      SFree B (Py.bindFrom s c names).1 ∧
      ∀ t', Py.bindFrom (swap B t' s) c names = (swap B t' (Py.bindFrom s c names).1, (Py.bindFrom s c names).2) := by
  induction names with
  | nil => intro s hs; exact ⟨hs, fun _ => rfl⟩
  | cons na r ih =>
    intro s hs
    obtain ⟨nm, asn⟩ := na
    simp only [Py.bindFrom]
    have hh : ∀ t', (swap B t' s).h.tab c = s.h.tab c := fun t' => tab_setTab_ne t' hc
    cases hg : tget (s.h.tab c) nm with
    | none =>
      refine ⟨hs, ?_⟩
      intro t'
      rw [hh, hg]
    | some v =>
      simp only
      have hv := (hs.h.tabs c hc).get_ hg
      obtain ⟨h1, h2⟩ := writeSym_frame hs (asn.getD nm) hv
      obtain ⟨i1, i2⟩ := ih h1
      refine ⟨i1, ?_⟩
      intro t'
      rw [hh, hg]
      simp only
      rw [h2 t']
      exact i2 t'

theorem bindStar_frame {B : Nat} (t : Table) (ht : TFree B t) :
    ∀ {s : PSt}, SFree B s →
      SFree B (Py.bindStar s t) ∧ ∀ t', Py.bindStar (swap B t' s) t = swap B t' (Py.bindStar s t) := by
  induction t with
  | nil => intro s hs; exact ⟨hs, fun _ => rfl⟩
  | cons kv r ih =>
    intro s hs
    obtain ⟨k, v⟩ := kv
    simp only [Py.bindStar]
    have hr : TFree B r := fun kv hk => ht kv (List.mem_cons_of_mem _ hk)
    split
    · have hv : mentions v B = false := ht (k, v) List.mem_cons_self
      obtain ⟨h1, h2⟩ := writeSym_frame hs k hv
      obtain ⟨i1, i2⟩ := ih hr h1
      refine ⟨i1, ?_⟩
      intro t'
      rw [h2 t']
      exact i2 t'
    · exact ih hr hs

theorem bindStarC_frame (cfg : Cfg) {B : Nat} {c : Nat} (hc : c ≠ B) {s : PSt} (hs : SFree B s) :
    SFree B (Py.bindStarC cfg s c).1 ∧
    ∀ t', Py.bindStarC cfg (swap B t' s) c = (swap B t' (Py.bindStarC cfg s c).1, (Py.bindStarC cfg s c).2) := by
  have hh : ∀ t', (swap B t' s).h.tab c = s.h.tab c := fun t' => tab_setTab_ne t' hc
  simp only [Py.bindStarC, hh]
  cases starNames cfg (s.h.tab c) with
  | some l => exact bindFrom_frame hc _ hs
  | none =>
    obtain ⟨a1, a2⟩ := bindStar_frame (s.h.tab c) (hs.h.tabs c hc) hs
    exact ⟨a1, fun t' => by rw [a2 t']⟩

/-! ### import resolution looks at context names and the registry only -/

theorem findLoaded_setTab (h : Heap) (B : Nat) (t' : Table) (cds : List Cand) :
    findLoaded (h.setTab B t') cds = findLoaded h cds := by
  induction cds with
  | nil => rfl
  | cons cd r ih =>
    simp only [findLoaded]
    have h1 : (h.setTab B t').reg = h.reg := rfl
    have h2 : ∀ c, hasModuleAt (h.setTab B t') c = hasModuleAt h c := fun _ => rfl
    rw [h1, ih]
    simp only [h2]

theorem importLookup_setTab (W : World) (h : Heap) (B : Nat) (t' : Table) (g : Nat) (m : Name) (lvl : Nat) :
    importLookup W (h.setTab B t') g m lvl = importLookup W h g m lvl := by
  unfold importLookup
  have h1 : selfCtx (h.setTab B t') g = selfCtx h g := rfl
  rw [h1]
  cases candidates W.cfg (selfCtx h g) m lvl with
  | error e => rfl
  | ok cds => simp only [findLoaded_setTab]

theorem findLoaded_hasModule {h : Heap} {cds : List Cand} {c : Nat} (hf : findLoaded h cds = some c) :
    hasModuleAt h c = true := by
  induction cds with
  | nil => simp [findLoaded] at hf
  | cons cd r ih =>
    simp only [findLoaded] at hf
    cases hg : regGet h.reg cd.ctxName with
    | none => rw [hg] at hf; exact ih hf
    | some c' =>
      rw [hg] at hf
      simp only at hf
      by_cases hm : hasModuleAt h c' = true
      · rw [if_pos hm] at hf
        injection hf with hf
        subst hf
        exact hm
      · rw [if_neg hm] at hf
        exact ih hf

theorem importLookup_found {W : World} {h : Heap} {g : Nat} {m : Name} {lvl c : Nat}
    (hl : importLookup W h g m lvl = .found c) : hasModuleAt h c = true := by
  unfold importLookup at hl
  split at hl
  · cases hl
  · split at hl
    · rename_i hf
      injection hl with hl
      subst hl
      exact findLoaded_hasModule hf
    · split at hl <;> cases hl

theorem hasModuleAt_append_lt {h : Heap} {B : Nat} (hlt : B < h.ctxs.length) (x : Ctx) (tabs : Nat → Table)
    (reg : List (Name × Nat)) (a : Nat) (b : List Name) :
    hasModuleAt { ctxs := h.ctxs ++ [x], tabs := tabs, reg := reg, nset := a, loads := b } B
      = hasModuleAt h B := by
  unfold hasModuleAt
  simp only [List.getElem?_append_left hlt]

theorem HFree.load_begin {B : Nat} {h : Heap} (hf : HFree B h) (cd : Cand) :
    HFree B (loadBegin h cd) ∧ ∀ t', loadBegin (h.setTab B t') cd = (loadBegin h cd).setTab B t' := by
  refine ⟨⟨?_, ?_, ?_⟩, ?_⟩
  · simp only [loadBegin, List.length_append, List.length_singleton]
    exact Nat.lt_succ_of_lt hf.lt
  · unfold loadBegin
    rw [hasModuleAt_append_lt hf.lt]
    exact hf.nomod
  · intro c hc
    simp only [loadBegin, Heap.tab]
    split
    · exact TFree.nil B
    · exact hf.tabs c hc
  · intro t'
    have hne : B ≠ h.ctxs.length := Nat.ne_of_lt hf.lt
    simp only [loadBegin, Heap.setTab]
    congr 1
    funext c'
    by_cases h1 : c' = h.ctxs.length
    · subst h1
      simp [Ne.symm hne]
    · simp [h1]

theorem length_setHasModule (l : List Ctx) (c : Nat) : (setHasModule l c).length = l.length := by
  induction l generalizing c with
  | nil => rfl
  | cons x r ih => cases c <;> simp [setHasModule, ih]

theorem getElem?_setHasModule_ne (l : List Ctx) {c B : Nat} (h : c ≠ B) : (setHasModule l c)[B]? = l[B]? := by
  induction l generalizing c B with
  | nil => rfl
  | cons x r ih =>
    cases c with
    | zero =>
      cases B with
      | zero => exact absurd rfl h
      | succ b => simp [setHasModule]
    | succ k =>
      cases B with
      | zero => simp [setHasModule]
      | succ b =>
        simp only [setHasModule, List.getElem?_cons_succ]
        exact ih (by omega)

theorem HFree.load_commit {B : Nat} {h : Heap} (hf : HFree B h) (cd : Cand) {c : Nat} (hc : c ≠ B) :
    HFree B (loadCommit h cd c) ∧ ∀ t', loadCommit (h.setTab B t') cd c = (loadCommit h cd c).setTab B t' := by
  refine ⟨⟨?_, ?_, ?_⟩, fun _ => rfl⟩
  · simp only [loadCommit, length_setHasModule]
    exact hf.lt
  · have := hf.nomod
    unfold hasModuleAt at this ⊢
    simp only [loadCommit, getElem?_setHasModule_ne _ hc]
    exact this
  · intro c' hc'
    exact hf.tabs c' hc'

theorem HFree.load_abort {B : Nat} {h : Heap} (hf : HFree B h) :
    HFree B (loadAbort h) ∧ ∀ t', loadAbort (h.setTab B t') = (loadAbort h).setTab B t' :=
  ⟨⟨hf.lt, hf.nomod, hf.tabs⟩, fun _ => rfl⟩

def OutFree (B : Nat) : Out → Prop
  | .ret v => mentions v B = false
  | _ => True

def ValFree (B : Nat) : Except Exc Val → Prop
  | .ok v => mentions v B = false
  | _ => True

def ModFree (B : Nat) : Except Exc (Option Nat) → Prop
  | .ok (some c) => c ≠ B
  | _ => True

structure FrS (B : Nat) (s : PSt) (r : Py.PRes) (run : PSt → Py.PRes) : Prop where
  free : SFree B r.s
  out : OutFree B r.out
  comm : ∀ t', run (swap B t' s) = ⟨swap B t' r.s, r.out⟩

structure FrV (B : Nat) (s : PSt) (r : Py.PResV) (run : PSt → Py.PResV) : Prop where
  free : SFree B r.s
  val : ValFree B r.val
  comm : ∀ t', run (swap B t' s) = ⟨swap B t' r.s, r.val⟩

structure FrM (B : Nat) (s : PSt) (r : Py.PResM) (run : PSt → Py.PResM) : Prop where
  free : SFree B r.s
  val : ModFree B r.val
  comm : ∀ t', run (swap B t' s) = ⟨swap B t' r.s, r.val⟩

def FrameAll (W : World) (B : Nat) (n : Nat) : Prop :=
  (∀ s stmt, SFree B s → FrS B s (Py.execStmt W n s stmt) (fun s => Py.execStmt W n s stmt)) ∧
  (∀ s b, SFree B s → FrS B s (Py.execBlock W n s b) (fun s => Py.execBlock W n s b)) ∧
  (∀ s fv vs, SFree B s → mentions fv B = false → VsFree B vs →
      FrV B s (Py.callFn W n s fv vs) (fun s => Py.callFn W n s fv vs)) ∧
  (∀ s m lvl, SFree B s → FrM B s (Py.importMod W n s m lvl) (fun s => Py.importMod W n s m lvl))

theorem frameAll_zero (W : World) (B : Nat) : FrameAll W B 0 := by
  refine ⟨?_, ?_, ?_, ?_⟩
  · intro s stmt hs; simp only [Py.execStmt]; exact ⟨hs, trivial, fun _ => rfl⟩
  · intro s b hs; simp only [Py.execBlock]; exact ⟨hs, trivial, fun _ => rfl⟩
  · intro s fv vs hs _ _; simp only [Py.callFn]; exact ⟨hs, trivial, fun _ => rfl⟩
  · intro s m lvl hs; simp only [Py.importMod]; exact ⟨hs, trivial, fun _ => rfl⟩


theorem frame_block_step (W : World) (B n : Nat) (ih : FrameAll W B n) :
    ∀ s b, SFree B s → FrS B s (Py.execBlock W (n+1) s b) (fun s => Py.execBlock W (n+1) s b) := by
  obtain ⟨ihS, ihB, _, _⟩ := ih
  intro s b hs
  cases b with
  | nil => simp only [Py.execBlock]; exact ⟨hs, trivial, fun _ => rfl⟩
  | cons stmt rest =>
    have h1 := ihS s stmt hs
    simp only [Py.execBlock]
    cases ho : (Py.execStmt W n s stmt).out with
    | norm =>
      have h2 := ihB _ rest h1.free
      refine ⟨h2.free, h2.out, ?_⟩
      intro t'
      simp only [h1.comm t', ho]
      exact h2.comm t'
    | ret v =>
      refine ⟨h1.free, h1.out, ?_⟩
      intro t'
      simp only [h1.comm t', ho]
    | exc e =>
      refine ⟨h1.free, h1.out, ?_⟩
      intro t'
      simp only [h1.comm t', ho]

theorem frame_call_step (W : World) (B n : Nat) (ih : FrameAll W B n) :
    ∀ s fv vs, SFree B s → mentions fv B = false → VsFree B vs →
      FrV B s (Py.callFn W (n+1) s fv vs) (fun s => Py.callFn W (n+1) s fv vs) := by
  obtain ⟨_, ihB, _, _⟩ := ih
  intro s fv vs hs hfv hvs
  cases fv with
  | fn c fid =>
    have hc : c ≠ B := by simpa [mentions] using hfv
    simp only [Py.callFn]
    cases hf : W.funcs[fid]? with
    | none => exact ⟨hs, trivial, fun _ => rfl⟩
    | some fd =>
      simp only
      cases hb : bindArgs fd.params vs with
      | none => exact ⟨hs, trivial, fun _ => rfl⟩
      | some l =>
        simp only
        have hs1 : SFree B ⟨s.h, { g := c, locals := some l, gnames := some fd.globals }⟩ := by
          refine ⟨hs.h, hc, ?_⟩
          intro t ht
          simp only [Option.some.injEq] at ht
          subst ht
          exact bindArgs_free fd.params vs l hvs hb
        have h1 := ihB _ fd.body hs1
        refine ⟨⟨h1.free.h, hs.g, hs.loc⟩, ?_, ?_⟩
        · have := h1.out
          cases ho : (Py.execBlock W n ⟨s.h, { g := c, locals := some l, gnames := some fd.globals }⟩ fd.body).out with
          | norm => simp [outOfBody, ValFree, mentions]
          | ret v => rw [ho] at this; simpa [outOfBody, ValFree, OutFree] using this
          | exc e => simp [outOfBody, ValFree]
        · intro t'
          have := h1.comm t'
          simp only [swap] at this ⊢
          rw [this]
  | none => simp only [Py.callFn]; exact ⟨hs, trivial, fun _ => rfl⟩
  | int k => simp only [Py.callFn]; exact ⟨hs, trivial, fun _ => rfl⟩
  | names l => simp only [Py.callFn]; exact ⟨hs, trivial, fun _ => rfl⟩
  | mod k => simp only [Py.callFn]; exact ⟨hs, trivial, fun _ => rfl⟩

theorem frame_import_step (W : World) (B n : Nat) (ih : FrameAll W B n) :
    ∀ s m lvl, SFree B s → FrM B s (Py.importMod W (n+1) s m lvl) (fun s => Py.importMod W (n+1) s m lvl) := by
  obtain ⟨_, ihB, _, _⟩ := ih
  intro s m lvl hs
  simp only [Py.importMod]
  have hsw : ∀ t', importLookup W (s.h.setTab B t') s.env.g m lvl = importLookup W s.h s.env.g m lvl :=
    fun t' => importLookup_setTab W s.h B t' s.env.g m lvl
  cases hl : importLookup W s.h s.env.g m lvl with
  | err e => refine ⟨hs, trivial, ?_⟩; intro t'; simp only [swap, hsw, hl]
  | found c =>
    have hm := importLookup_found hl
    have hc : c ≠ B := by
      intro h; subst h; rw [hs.h.nomod] at hm; cases hm
    refine ⟨hs, hc, ?_⟩; intro t'; simp only [swap, hsw, hl]
  | missing => refine ⟨hs, trivial, ?_⟩; intro t'; simp only [swap, hsw, hl]
  | load cd body =>
    simp only
    obtain ⟨hb1, hb2⟩ := hs.h.load_begin cd
    have hne : s.h.ctxs.length ≠ B := Ne.symm (Nat.ne_of_lt hs.h.lt)
    have hs1 : SFree B ⟨loadBegin s.h cd, { g := s.h.ctxs.length, locals := none, gnames := none }⟩ :=
      ⟨hb1, hne, by intro t ht; cases ht⟩
    have h1 := ihB _ body hs1
    have hcomm : ∀ t', Py.execBlock W n ⟨loadBegin (s.h.setTab B t') cd, { g := s.h.ctxs.length, locals := none, gnames := none }⟩ body
        = ⟨swap B t' (Py.execBlock W n ⟨loadBegin s.h cd, { g := s.h.ctxs.length, locals := none, gnames := none }⟩ body).s,
           (Py.execBlock W n ⟨loadBegin s.h cd, { g := s.h.ctxs.length, locals := none, gnames := none }⟩ body).out⟩ := by
      intro t'
      have := h1.comm t'
      simp only [swap] at this ⊢
      rw [hb2 t']
      exact this
    cases ho : (Py.execBlock W n ⟨loadBegin s.h cd, { g := s.h.ctxs.length, locals := none, gnames := none }⟩ body).out with
    | exc e =>
      obtain ⟨a1, a2⟩ := h1.free.h.load_abort
      refine ⟨⟨a1, hs.g, hs.loc⟩, trivial, ?_⟩
      intro t'
      have hl2 : (s.h.setTab B t').ctxs.length = s.h.ctxs.length := rfl
      simp only [swap, hsw, hl, hl2, hcomm t', ho]
      simp only [a2]
    | norm =>
      obtain ⟨a1, a2⟩ := h1.free.h.load_commit cd hne
      refine ⟨⟨a1, hs.g, hs.loc⟩, hne, ?_⟩
      intro t'
      have hl2 : (s.h.setTab B t').ctxs.length = s.h.ctxs.length := rfl
      simp only [swap, hsw, hl, hl2, hcomm t', ho]
      simp only [a2]
    | ret v =>
      obtain ⟨a1, a2⟩ := h1.free.h.load_commit cd hne
      refine ⟨⟨a1, hs.g, hs.loc⟩, hne, ?_⟩
      intro t'
      have hl2 : (s.h.setTab B t').ctxs.length = s.h.ctxs.length := rfl
      simp only [swap, hsw, hl, hl2, hcomm t', ho]
      simp only [a2]


theorem frame_stmt_step (W : World) (B n : Nat) (ih : FrameAll W B n) :
    ∀ s stmt, SFree B s → FrS B s (Py.execStmt W (n+1) s stmt) (fun s => Py.execStmt W (n+1) s stmt) := by
  obtain ⟨_, ihB, ihC, ihM⟩ := ih
  intro s stmt hs
  have hh : ∀ t', (swap B t' s).h = s.h.setTab B t' := fun _ => rfl
  cases stmt with
  | assign x a =>
    simp only [Py.execStmt]
    cases ha : Py.evalAtom s a with
    | error e => refine ⟨hs, trivial, ?_⟩; intro t'; simp only [swap_evalAtom hs, ha]
    | ok v =>
      obtain ⟨h1, h2⟩ := assignVar_frame hs x (evalAtom_free hs ha)
      refine ⟨h1, trivial, ?_⟩; intro t'; simp only [swap_evalAtom hs, ha, h2 t']
  | add x a b =>
    simp only [Py.execStmt]
    cases ha : Py.evalAtom s a with
    | error e => refine ⟨hs, trivial, ?_⟩; intro t'; simp only [swap_evalAtom hs, ha]
    | ok va =>
      simp only
      cases hb : Py.evalAtom s b with
      | error e => refine ⟨hs, trivial, ?_⟩; intro t'; simp only [swap_evalAtom hs, ha, hb]
      | ok vb =>
        simp only
        cases hv : addVals va vb with
        | error e => refine ⟨hs, trivial, ?_⟩; intro t'; simp only [swap_evalAtom hs, ha, hb, hv]
        | ok v =>
          have hfree : mentions v B = false := by
            cases va <;> cases vb <;> simp [addVals] at hv
            subst hv; rfl
          obtain ⟨h1, h2⟩ := assignVar_frame hs x hfree
          refine ⟨h1, trivial, ?_⟩; intro t'; simp only [swap_evalAtom hs, ha, hb, hv, h2 t']
  | setattr m a v =>
    simp only [Py.execStmt]
    cases hv : Py.evalAtom s v with
    | error e => refine ⟨hs, trivial, ?_⟩; intro t'; simp only [swap_evalAtom hs, hv]
    | ok w =>
      simp only
      cases hm : Py.lookupVar s m with
      | error e => refine ⟨hs, trivial, ?_⟩; intro t'; simp only [swap_evalAtom hs, swap_lookupVar hs, hv, hm]
      | ok mv =>
        have hmf := lookupVar_free hs hm
        cases mv with
        | mod c =>
          have hc : c ≠ B := by simpa [mentions] using hmf
          refine ⟨⟨hs.h.set_key hc a (evalAtom_free hs hv), hs.g, hs.loc⟩, trivial, ?_⟩
          intro t'
          simp only [swap_evalAtom hs, swap_lookupVar hs, hv, hm]
          simp only [swap, setKey_swap t' hc]
        | none => refine ⟨hs, trivial, ?_⟩; intro t'; simp only [swap_evalAtom hs, swap_lookupVar hs, hv, hm]
        | int k => refine ⟨hs, trivial, ?_⟩; intro t'; simp only [swap_evalAtom hs, swap_lookupVar hs, hv, hm]
        | names l => refine ⟨hs, trivial, ?_⟩; intro t'; simp only [swap_evalAtom hs, swap_lookupVar hs, hv, hm]
        | fn c f => refine ⟨hs, trivial, ?_⟩; intro t'; simp only [swap_evalAtom hs, swap_lookupVar hs, hv, hm]
  | call x f args =>
    simp only [Py.execStmt]
    cases hf : Py.evalAtom s f with
    | error e => refine ⟨hs, trivial, ?_⟩; intro t'; simp only [swap_evalAtom hs, hf]
    | ok fv =>
      simp only
      cases ha : Py.evalAtoms s args with
      | error e => refine ⟨hs, trivial, ?_⟩; intro t'; simp only [swap_evalAtom hs, swap_evalAtoms hs, hf, ha]
      | ok vs =>
        simp only
        have h1 := ihC s fv vs hs (evalAtom_free hs hf) (evalAtoms_free hs ha)
        cases hv : (Py.callFn W n s fv vs).val with
        | error e =>
          refine ⟨h1.free, trivial, ?_⟩; intro t'
          simp only [swap_evalAtom hs, swap_evalAtoms hs, hf, ha, h1.comm t', hv]
        | ok v =>
          have hvf : mentions v B = false := by have := h1.val; rw [hv] at this; exact this
          obtain ⟨a1, a2⟩ := assignVar_frame h1.free x hvf
          refine ⟨a1, trivial, ?_⟩; intro t'
          simp only [swap_evalAtom hs, swap_evalAtoms hs, hf, ha, h1.comm t', hv, a2 t']
  | spawn own f args =>
    simp only [Py.execStmt]
    cases hf : Py.evalAtom s f with
    | error e => refine ⟨hs, trivial, ?_⟩; intro t'; simp only [swap_evalAtom hs, hf]
    | ok fv =>
      simp only
      cases ha : Py.evalAtoms s args with
      | error e => refine ⟨hs, trivial, ?_⟩; intro t'; simp only [swap_evalAtom hs, swap_evalAtoms hs, hf, ha]
      | ok vs =>
        simp only
        have h1 := ihC s fv vs hs (evalAtom_free hs hf) (evalAtoms_free hs ha)
        refine ⟨h1.free, trivial, ?_⟩; intro t'
        simp only [swap_evalAtom hs, swap_evalAtoms hs, hf, ha, h1.comm t']
  | setAll l =>
    simp only [Py.execStmt]
    have hfree : mentions (Val.names l) B = false := rfl
    obtain ⟨h1, h2⟩ := assignVar_frame hs "__all__" hfree
    refine ⟨h1, trivial, ?_⟩; intro t'
    simp only [h2 t']
  | defn x fid =>
    simp only [Py.execStmt]
    have hfree : mentions (Val.fn s.env.g fid) B = false := by simpa [mentions] using hs.g
    obtain ⟨h1, h2⟩ := assignVar_frame hs x hfree
    refine ⟨h1, trivial, ?_⟩; intro t'
    have : (swap B t' s).env.g = s.env.g := rfl
    simp only [this, h2 t']
  | ret a =>
    simp only [Py.execStmt]
    cases ha : Py.evalAtom s a with
    | error e => refine ⟨hs, trivial, ?_⟩; intro t'; simp only [swap_evalAtom hs, ha]
    | ok v => refine ⟨hs, evalAtom_free hs ha, ?_⟩; intro t'; simp only [swap_evalAtom hs, ha]
  | raise k => simp only [Py.execStmt]; exact ⟨hs, trivial, fun _ => rfl⟩
  | try_ body handler =>
    simp only [Py.execStmt]
    have h1 := ihB s body hs
    cases ho : (Py.execBlock W n s body).out with
    | norm => simp only; refine ⟨h1.free, h1.out, ?_⟩; intro t'; simp only [h1.comm t', ho]
    | ret v =>
      simp only
      refine ⟨h1.free, h1.out, ?_⟩
      intro t'; simp only [h1.comm t', ho]
    | exc e =>
      simp only
      by_cases he : e = Exc.fuel
      · simp only [he, if_true]
        refine ⟨h1.free, h1.out, ?_⟩; intro t'; simp only [h1.comm t', ho, he, if_true]
      · simp only [if_neg he]
        have h2 := ihB _ handler h1.free
        refine ⟨h2.free, h2.out, ?_⟩; intro t'
        simp only [h1.comm t', ho, if_neg he]
        exact h2.comm t'
  | import_ m asn =>
    simp only [Py.execStmt]
    have h1 := ihM s m 0 hs
    cases hv : (Py.importMod W n s m 0).val with
    | error e => refine ⟨h1.free, trivial, ?_⟩; intro t'; simp only [h1.comm t', hv]
    | ok o =>
      cases o with
      | none => refine ⟨h1.free, trivial, ?_⟩; intro t'; simp only [h1.comm t', hv]
      | some c =>
        have hc : c ≠ B := by have := h1.val; rw [hv] at this; exact this
        have hfree : mentions (Val.mod c) B = false := by simpa [mentions] using hc
        obtain ⟨a1, a2⟩ := writeSym_frame h1.free (asn.getD (dotted m)) hfree
        refine ⟨a1, trivial, ?_⟩; intro t'; simp only [h1.comm t', hv, a2 t']
  | fromDot lvl nm asn =>
    simp only [Py.execStmt]
    have h1 := ihM s [nm] lvl hs
    cases hv : (Py.importMod W n s [nm] lvl).val with
    | error e => refine ⟨h1.free, trivial, ?_⟩; intro t'; simp only [h1.comm t', hv]
    | ok o =>
      cases o with
      | none => refine ⟨h1.free, trivial, ?_⟩; intro t'; simp only [h1.comm t', hv]
      | some c =>
        have hc : c ≠ B := by have := h1.val; rw [hv] at this; exact this
        have hfree : mentions (Val.mod c) B = false := by simpa [mentions] using hc
        obtain ⟨a1, a2⟩ := writeSym_frame h1.free (asn.getD nm) hfree
        refine ⟨a1, trivial, ?_⟩; intro t'; simp only [h1.comm t', hv, a2 t']
  | from_ m lvl names =>
    simp only [Py.execStmt]
    have h1 := ihM s m lvl hs
    cases hv : (Py.importMod W n s m lvl).val with
    | error e => refine ⟨h1.free, trivial, ?_⟩; intro t'; simp only [h1.comm t', hv]
    | ok o =>
      cases o with
      | none => refine ⟨h1.free, trivial, ?_⟩; intro t'; simp only [h1.comm t', hv]
      | some c =>
        have hc : c ≠ B := by have := h1.val; rw [hv] at this; exact this
        obtain ⟨a1, a2⟩ := bindFrom_frame hc names h1.free
        simp only
        cases hb : Py.bindFrom (Py.importMod W n s m lvl).s c names with
        | mk s' o' =>
          rw [hb] at a1 a2
          simp only at a1 a2
          cases o' with
          | none => refine ⟨a1, trivial, ?_⟩; intro t'; simp only [h1.comm t', hv, a2 t']
          | some e => refine ⟨a1, trivial, ?_⟩; intro t'; simp only [h1.comm t', hv, a2 t']
  | fromStar m lvl =>
    simp only [Py.execStmt]
    have h1 := ihM s m lvl hs
    cases hv : (Py.importMod W n s m lvl).val with
    | error e => refine ⟨h1.free, trivial, ?_⟩; intro t'; simp only [h1.comm t', hv]
    | ok o =>
      cases o with
      | none => refine ⟨h1.free, trivial, ?_⟩; intro t'; simp only [h1.comm t', hv]
      | some c =>
        have hc : c ≠ B := by have := h1.val; rw [hv] at this; exact this
        obtain ⟨a1, a2⟩ := bindStarC_frame W.cfg hc h1.free
        simp only
        cases hb : Py.bindStarC W.cfg (Py.importMod W n s m lvl).s c with
        | mk s' o' =>
          rw [hb] at a1 a2
          simp only at a1 a2
          cases o' with
          | none => refine ⟨a1, trivial, ?_⟩; intro t'; simp only [h1.comm t', hv, a2 t']
          | some e => refine ⟨a1, trivial, ?_⟩; intro t'; simp only [h1.comm t', hv, a2 t']
  | setctx nm => simp only [Py.execStmt]; exact ⟨hs, trivial, fun _ => rfl⟩

theorem frameAll (W : World) (B : Nat) : ∀ n, FrameAll W B n := by
  intro n
  induction n with
  | zero => exact frameAll_zero W B
  | succ n ih =>
    exact ⟨frame_stmt_step W B n ih, frame_block_step W B n ih, frame_call_step W B n ih, frame_import_step W B n ih⟩


/-! # part 3: singleton – a registered module object is never replaced and never loaded again -/

/-- `k` is registered and its context carries a module object (`mod_ctx and mod_ctx.module`) -/
def Reg (k : Name) (i : Nat) (h : Heap) : Prop := regGet h.reg k = some i ∧ hasModuleAt h i = true

/-- only symbol tables differ -/
structure TabOnly (h h' : Heap) : Prop where
  ctxs : h'.ctxs = h.ctxs
  reg : h'.reg = h.reg
  loads : h'.loads = h.loads
  nset : h'.nset = h.nset

theorem TabOnly.refl (h : Heap) : TabOnly h h := ⟨rfl, rfl, rfl, rfl⟩
theorem TabOnly.trans {a b c : Heap} (h1 : TabOnly a b) (h2 : TabOnly b c) : TabOnly a c :=
  ⟨h2.ctxs.trans h1.ctxs, h2.reg.trans h1.reg, h2.loads.trans h1.loads, h2.nset.trans h1.nset⟩

theorem tabOnly_setKey (h : Heap) (c : Nat) (x : String) (v : Val) : TabOnly h (h.setKey c x v) := ⟨rfl, rfl, rfl, rfl⟩

theorem tabOnly_writeSym (st : St) (x : String) (v : Val) : TabOnly st.h (writeSym st x v).h := by
  unfold writeSym
  cases st.p.sym with
  | loc t => exact TabOnly.refl _
  | glob c => exact tabOnly_setKey _ _ _ _

theorem tabOnly_assignVar (st : St) (x : String) (v : Val) : TabOnly st.h (assignVar st x v).h := by
  unfold assignVar
  split
  · exact tabOnly_setKey _ _ _ _
  · exact tabOnly_writeSym st x v

theorem tabOnly_bindFrom (c : Nat) (names : List (String × Option String)) :
    ∀ st : St, TabOnly st.h (bindFrom st c names).1.h := by
  induction names with
  | nil => intro st; exact TabOnly.refl _
  | cons na r ih =>
    intro st
    obtain ⟨nm, asn⟩ := na
    simp only [bindFrom]
    cases tget (st.h.tab c) nm with
    | none => exact TabOnly.refl _
    | some v => exact (tabOnly_writeSym st _ v).trans (ih _)

theorem tabOnly_bindStar (t : Table) : ∀ st : St, TabOnly st.h (bindStar st t).h := by
  induction t with
  | nil => intro st; exact TabOnly.refl _
  | cons kv r ih =>
    intro st
    obtain ⟨k, v⟩ := kv
    simp only [bindStar]
    split
    · exact (tabOnly_writeSym st _ v).trans (ih _)
    · exact ih _

theorem tabOnly_bindStarC (cfg : Cfg) (c : Nat) (st : St) : TabOnly st.h (bindStarC cfg st c).1.h := by
  simp only [bindStarC]
  cases starNames cfg (st.h.tab c) with
  | some l => exact tabOnly_bindFrom c _ st
  | none => exact tabOnly_bindStar _ st

structure Keeps (k : Name) (i : Nat) (h h' : Heap) : Prop where
  reg : Reg k i h'
  loads : ∃ extra, h'.loads = h.loads ++ extra ∧ k ∉ extra

theorem Keeps.refl {k : Name} {i : Nat} {h : Heap} (hr : Reg k i h) : Keeps k i h h :=
  ⟨hr, [], by simp, by simp⟩

theorem Keeps.trans {k : Name} {i : Nat} {a b c : Heap} (h1 : Keeps k i a b) (h2 : Keeps k i b c) : Keeps k i a c := by
  obtain ⟨e1, l1, n1⟩ := h1.loads
  obtain ⟨e2, l2, n2⟩ := h2.loads
  refine ⟨h2.reg, e1 ++ e2, by rw [l2, l1, List.append_assoc], ?_⟩
  simp only [List.mem_append, not_or]
  exact ⟨n1, n2⟩

theorem Keeps.of_tabOnly {k : Name} {i : Nat} {h h' : Heap} (hr : Reg k i h) (ht : TabOnly h h') : Keeps k i h h' := by
  refine ⟨⟨by rw [ht.reg]; exact hr.1, ?_⟩, [], by simp [ht.loads], by simp⟩
  have := hr.2
  unfold hasModuleAt at this ⊢
  rw [ht.ctxs]
  exact this

theorem regGet_regDel_ne (r : List (Name × Nat)) {k n : Name} (h : k ≠ n) : regGet (regDel r n) k = regGet r k := by
  induction r with
  | nil => rfl
  | cons e rest ih =>
    obtain ⟨a, b⟩ := e
    unfold regDel regGet at *
    simp only [List.filter_cons]
    by_cases ha : a = n
    · subst ha
      have : (k == a) = false := by simpa using h
      simp only [beq_self_eq_true, Bool.not_true, Bool.false_eq_true, if_false, List.lookup_cons, this]
      exact ih
    · have h1 : (a == n) = false := by simpa using ha
      simp only [h1, Bool.not_false, if_true, List.lookup_cons]
      cases hk : (k == a) with
      | true => rfl
      | false => exact ih

theorem regGet_regSet_ne (r : List (Name × Nat)) {k n : Name} (c : Nat) (h : k ≠ n) : regGet (regSet r n c) k = regGet r k := by
  unfold regSet
  have : (k == n) = false := by simpa using h
  show List.lookup k ((n, c) :: regDel r n) = _
  simp only [List.lookup_cons, this]
  exact regGet_regDel_ne r h

theorem hasModuleAt_setHasModule {l : List Ctx} {i : Nat} (c : Nat) :
    (match l[i]? with | some x => x.hasModule | none => false) = true →
    (match (setHasModule l c)[i]? with | some x => x.hasModule | none => false) = true := by
  induction l generalizing i c with
  | nil => intro h; simp at h
  | cons x r ih =>
    intro h
    cases c with
    | zero =>
      cases i with
      | zero => simp [setHasModule]
      | succ j => simpa [setHasModule] using h
    | succ d =>
      cases i with
      | zero => simpa [setHasModule] using h
      | succ j =>
        simp only [setHasModule, List.getElem?_cons_succ] at h ⊢
        exact ih d h

theorem findLoaded_none {h : Heap} {cds : List Cand} (hf : findLoaded h cds = none) :
    ∀ cd ∈ cds, ∀ c, regGet h.reg cd.ctxName = some c → hasModuleAt h c = false := by
  induction cds with
  | nil => intro cd hc; cases hc
  | cons x r ih =>
    intro cd hc c hg
    simp only [findLoaded] at hf
    simp only [List.mem_cons] at hc
    rcases hc with rfl | hc
    · rw [hg] at hf
      simp only at hf
      by_cases hm : hasModuleAt h c = true
      · rw [if_pos hm] at hf; cases hf
      · simpa using hm
    · cases hx : regGet h.reg x.ctxName with
      | none => rw [hx] at hf; exact ih hf cd hc c hg
      | some c' =>
        rw [hx] at hf
        simp only at hf
        by_cases hm : hasModuleAt h c' = true
        · rw [if_pos hm] at hf; cases hf
        · rw [if_neg hm] at hf; exact ih hf cd hc c hg

theorem findFile_cand {W : World} {cds : List Cand} {cd : Cand} {b : Block} (h : findFile W cds = some (cd, b)) :
    cd ∈ cds := by
  induction cds with
  | nil => simp [findFile] at h
  | cons x r ih =>
    simp only [findFile] at h
    cases hf : fileOf W x.file with
    | none => rw [hf] at h; exact List.mem_cons_of_mem _ (ih h)
    | some b' =>
      rw [hf] at h
      simp only [Option.some.injEq, Prod.mk.injEq] at h
      obtain ⟨rfl, _⟩ := h
      exact List.mem_cons_self

/-- a load is only started for a name that is not registered with a module object -/
theorem importLookup_load_name {W : World} {h : Heap} {g : Nat} {m : Name} {lvl : Nat} {cd : Cand} {b : Block}
    (hl : importLookup W h g m lvl = .load cd b) {k : Name} {i : Nat} (hr : Reg k i h) : k ≠ cd.ctxName := by
  unfold importLookup at hl
  split at hl
  · cases hl
  · split at hl
    · cases hl
    · rename_i hnone
      split at hl
      · cases hl
      · rename_i hf
        injection hl with h1 h2
        subst h1
        intro hk
        have := findLoaded_none hnone _ (findFile_cand hf) i (by rw [← hk]; exact hr.1)
        rw [hr.2] at this
        cases this

theorem keeps_loadBegin {k : Name} {i : Nat} {h : Heap} (hr : Reg k i h) {cd : Cand} (hk : k ≠ cd.ctxName) :
    Keeps k i h (loadBegin h cd) := by
  refine ⟨⟨?_, ?_⟩, [cd.ctxName], rfl, by simpa using hk⟩
  · simp only [loadBegin]; rw [regGet_regDel_ne _ hk]; exact hr.1
  · have := hr.2
    unfold hasModuleAt at this ⊢
    simp only [loadBegin]
    cases hi : h.ctxs[i]? with
    | none => rw [hi] at this; cases this
    | some x =>
      have hlt : i < h.ctxs.length := by
        rcases Nat.lt_or_ge i h.ctxs.length with hlt | hge
        · exact hlt
        · rw [List.getElem?_eq_none hge] at hi; cases hi
      rw [List.getElem?_append_left hlt, hi]
      rw [hi] at this
      exact this

theorem keeps_loadCommit {k : Name} {i : Nat} {h : Heap} (hr : Reg k i h) {cd : Cand} (hk : k ≠ cd.ctxName) (c : Nat) :
    Keeps k i h (loadCommit h cd c) := by
  refine ⟨⟨?_, ?_⟩, [], by simp [loadCommit], by simp⟩
  · simp only [loadCommit]; rw [regGet_regSet_ne _ c hk]; exact hr.1
  · have := hr.2
    unfold hasModuleAt at this ⊢
    simp only [loadCommit]
    exact hasModuleAt_setHasModule c this

def SingAll (W : World) (k : Name) (i : Nat) (n : Nat) : Prop :=
  (∀ st s, Reg k i st.h → Keeps k i st.h (execStmt W n st s).st.h) ∧
  (∀ st b, Reg k i st.h → Keeps k i st.h (execBlock W n st b).st.h) ∧
  (∀ st fv vs, Reg k i st.h → Keeps k i st.h (callFn W n st fv vs).st.h) ∧
  (∀ st m lvl, Reg k i st.h → Keeps k i st.h (importMod W n st m lvl).st.h)

theorem singAll_zero (W : World) (k : Name) (i : Nat) : SingAll W k i 0 := by
  refine ⟨?_, ?_, ?_, ?_⟩
  · intro st s hr; simp only [execStmt]; exact Keeps.refl hr
  · intro st b hr; simp only [execBlock]; exact Keeps.refl hr
  · intro st fv vs hr; simp only [callFn]; exact Keeps.refl hr
  · intro st m lvl hr; simp only [importMod]; exact Keeps.refl hr

theorem sing_block_step (W : World) (k : Name) (i n : Nat) (ih : SingAll W k i n) :
    ∀ st b, Reg k i st.h → Keeps k i st.h (execBlock W (n+1) st b).st.h := by
  obtain ⟨ihS, ihB, _, _⟩ := ih
  intro st b hr
  cases b with
  | nil => simp only [execBlock]; exact Keeps.refl hr
  | cons s rest =>
    simp only [execBlock]
    have h1 := ihS st s hr
    cases (execStmt W n st s).out with
    | norm => exact h1.trans (ihB _ rest h1.reg)
    | ret v => exact h1
    | exc e => exact h1

theorem sing_call_step (W : World) (k : Name) (i n : Nat) (ih : SingAll W k i n) :
    ∀ st fv vs, Reg k i st.h → Keeps k i st.h (callFn W (n+1) st fv vs).st.h := by
  obtain ⟨_, ihB, _, _⟩ := ih
  intro st fv vs hr
  cases fv with
  | fn c fid =>
    simp only [callFn]
    cases W.funcs[fid]? with
    | none => exact Keeps.refl hr
    | some fd =>
      simp only
      cases bindArgs fd.params vs with
      | none => exact Keeps.refl hr
      | some l => exact ihB { st with p := enterCall st.p c l fd.globals } fd.body hr
  | none => simp only [callFn]; exact Keeps.refl hr
  | int j => simp only [callFn]; exact Keeps.refl hr
  | names l => simp only [callFn]; exact Keeps.refl hr
  | mod j => simp only [callFn]; exact Keeps.refl hr

theorem sing_import_step (W : World) (k : Name) (i n : Nat) (ih : SingAll W k i n) :
    ∀ st m lvl, Reg k i st.h → Keeps k i st.h (importMod W (n+1) st m lvl).st.h := by
  obtain ⟨_, ihB, _, _⟩ := ih
  intro st m lvl hr
  simp only [importMod]
  cases hl : importLookup W st.h st.p.gctx m lvl with
  | err e => exact Keeps.refl hr
  | found c => exact Keeps.refl hr
  | missing => exact Keeps.refl hr
  | load cd body =>
    simp only
    have hk := importLookup_load_name hl hr
    have h1 := keeps_loadBegin hr hk
    have h2 := ihB { h := loadBegin st.h cd, p := fresh st.h.ctxs.length } body h1.reg
    cases (execBlock W n { h := loadBegin st.h cd, p := fresh st.h.ctxs.length } body).out with
    | exc e => exact h1.trans h2
    | norm => exact (h1.trans h2).trans (keeps_loadCommit h2.reg hk _)
    | ret v => exact (h1.trans h2).trans (keeps_loadCommit h2.reg hk _)

theorem sing_stmt_step (W : World) (k : Name) (i n : Nat) (ih : SingAll W k i n) :
    ∀ st s, Reg k i st.h → Keeps k i st.h (execStmt W (n+1) st s).st.h := by
  obtain ⟨_, ihB, ihC, ihM⟩ := ih
  intro st s hr
  cases s with
  | assign x a =>
    simp only [execStmt]
    cases evalAtom st a with
    | error e => exact Keeps.refl hr
    | ok v => exact Keeps.of_tabOnly hr (tabOnly_assignVar st x v)
  | add x a b =>
    simp only [execStmt]
    cases evalAtom st a with
    | error e => exact Keeps.refl hr
    | ok va =>
      simp only
      cases evalAtom st b with
      | error e => exact Keeps.refl hr
      | ok vb =>
        simp only
        cases addVals va vb with
        | error e => exact Keeps.refl hr
        | ok v => exact Keeps.of_tabOnly hr (tabOnly_assignVar st x v)
  | setattr m a v =>
    simp only [execStmt]
    cases evalAtom st v with
    | error e => exact Keeps.refl hr
    | ok w =>
      simp only
      cases lookupVar st m with
      | error e => exact Keeps.refl hr
      | ok mv =>
        cases mv with
        | mod c => exact Keeps.of_tabOnly hr (tabOnly_setKey _ _ _ _)
        | none => exact Keeps.refl hr
        | int j => exact Keeps.refl hr
        | names l => exact Keeps.refl hr
        | fn c f => exact Keeps.refl hr
  | call x f args =>
    simp only [execStmt]
    cases evalAtom st f with
    | error e => exact Keeps.refl hr
    | ok fv =>
      simp only
      cases evalAtoms st args with
      | error e => exact Keeps.refl hr
      | ok vs =>
        simp only
        have h1 := ihC st fv vs hr
        cases (callFn W n st fv vs).val with
        | error e => exact h1
        | ok v => exact h1.trans (Keeps.of_tabOnly h1.reg (tabOnly_assignVar _ x v))
  | spawn own f args =>
    simp only [execStmt]
    cases evalAtom st f with
    | error e => exact Keeps.refl hr
    | ok fv =>
      simp only
      cases evalAtoms st args with
      | error e => exact Keeps.refl hr
      | ok vs => exact ihC { st with p := fresh _ } fv vs hr
  | defn x fid => simp only [execStmt]; exact Keeps.of_tabOnly hr (tabOnly_assignVar st x _)
  | setAll l => simp only [execStmt]; exact Keeps.of_tabOnly hr (tabOnly_assignVar st _ _)
  | ret a =>
    simp only [execStmt]
    cases evalAtom st a with
    | error e => exact Keeps.refl hr
    | ok v => exact Keeps.refl hr
  | raise j => simp only [execStmt]; exact Keeps.refl hr
  | try_ body handler =>
    simp only [execStmt]
    have h1 := ihB st body hr
    cases (execBlock W n st body).out with
    | norm => exact h1
    | ret v => exact h1
    | exc e =>
      simp only
      split
      · exact h1
      · exact h1.trans (ihB _ handler h1.reg)
  | import_ m asn =>
    simp only [execStmt]
    have h1 := ihM st m 0 hr
    cases (importMod W n st m 0).val with
    | error e => exact h1
    | ok o =>
      cases o with
      | none => exact h1
      | some c => exact h1.trans (Keeps.of_tabOnly h1.reg (tabOnly_writeSym _ _ _))
  | fromDot lvl nm asn =>
    simp only [execStmt]
    have h1 := ihM st [nm] lvl hr
    cases (importMod W n st [nm] lvl).val with
    | error e => exact h1
    | ok o =>
      cases o with
      | none => exact h1
      | some c => exact h1.trans (Keeps.of_tabOnly h1.reg (tabOnly_writeSym _ _ _))
  | from_ m lvl names =>
    simp only [execStmt]
    have h1 := ihM st m lvl hr
    cases (importMod W n st m lvl).val with
    | error e => exact h1
    | ok o =>
      cases o with
      | none => exact h1
      | some c =>
        simp only
        have h2 := tabOnly_bindFrom c names (importMod W n st m lvl).st
        cases hb : bindFrom (importMod W n st m lvl).st c names with
        | mk st' o' =>
          rw [hb] at h2
          cases o' with
          | none => exact h1.trans (Keeps.of_tabOnly h1.reg h2)
          | some e => exact h1.trans (Keeps.of_tabOnly h1.reg h2)
  | fromStar m lvl =>
    simp only [execStmt]
    have h1 := ihM st m lvl hr
    cases (importMod W n st m lvl).val with
    | error e => exact h1
    | ok o =>
      cases o with
      | none => exact h1
      | some c =>
        simp only
        have h2 := tabOnly_bindStarC W.cfg c (importMod W n st m lvl).st
        cases hb : bindStarC W.cfg (importMod W n st m lvl).st c with
        | mk st' o' =>
          rw [hb] at h2
          cases o' with
          | none => exact h1.trans (Keeps.of_tabOnly h1.reg h2)
          | some e => exact h1.trans (Keeps.of_tabOnly h1.reg h2)
  | setctx nm =>
    simp only [execStmt]
    cases regGet st.h.reg nm with
    | none => exact Keeps.refl hr
    | some c => exact ⟨⟨hr.1, hr.2⟩, [], by simp, by simp⟩

theorem singAll (W : World) (k : Name) (i : Nat) : ∀ n, SingAll W k i n := by
  intro n
  induction n with
  | zero => exact singAll_zero W k i
  | succ n ih =>
    exact ⟨sing_stmt_step W k i n ih, sing_block_step W k i n ih, sing_call_step W k i n ih, sing_import_step W k i n ih⟩


/-! # part 4: restore for ALL programs – including those that execute `set_global_ctx` -/

def isLoc : Scope → Prop
  | .loc _ => True
  | .glob _ => False

/-- shape of the pointers of an evaluator: module level (`sym_table` is the global table, empty stack) or inside
calls (the stack's bottom entry is the global table, `sym_table` is a local table) -/
def WF (p : Ptrs) : Prop :=
  p.gst = p.gctx ∧ ((p.stack = [] ∧ p.sym = .glob p.gst) ∨ (∃ r, p.stack = .glob p.gst :: r ∧ isLoc p.sym))

theorem wf_fresh (c : Nat) : WF (fresh c) := ⟨rfl, Or.inl ⟨rfl, rfl⟩⟩

theorem WF.coh {p : Ptrs} (h : WF p) : Coh p := by
  refine ⟨h.1, ?_⟩
  intro c hc
  rcases h.2 with ⟨_, hs⟩ | ⟨r, _, hl⟩
  · rw [hs] at hc; injection hc with hc; exact hc.symm
  · rw [hc] at hl; cases hl

theorem WF.of_same {p q : Ptrs} (h : WF p) (hs : Same p q) : WF q := by
  refine ⟨by rw [hs.gst, hs.gctx]; exact h.1, ?_⟩
  have hk := hs.kind
  rcases h.2 with ⟨h1, h2⟩ | ⟨r, h1, h2⟩
  · left
    refine ⟨by rw [hs.stack]; exact h1, ?_⟩
    rw [h2] at hk
    cases hq : q.sym with
    | loc t => rw [hq] at hk; cases hk
    | glob b => rw [hq] at hk; simp only [kindEq] at hk; rw [hs.gst, hk]
  · right
    refine ⟨r, by rw [hs.stack, hs.gst]; exact h1, ?_⟩
    cases hp : p.sym with
    | glob a => rw [hp] at h2; cases h2
    | loc t =>
      rw [hp] at hk
      cases hq : q.sym with
      | loc t2 => trivial
      | glob b => rw [hq] at hk; cases hk

theorem wf_setGlobalCtx {p : Ptrs} (h : WF p) (c : Nat) : WF (setGlobalCtx p c) := by
  unfold setGlobalCtx
  refine ⟨rfl, ?_⟩
  rcases h.2 with ⟨h1, h2⟩ | ⟨r, h1, h2⟩
  · left; simp [h1, h2]
  · right
    refine ⟨r, by simp [h1], ?_⟩
    cases hp : p.sym with
    | glob a => rw [hp] at h2; cases h2
    | loc t => trivial

theorem same_setGlobalCtx {p q : Ptrs} (hs : Same p q) (c : Nat) : Same (setGlobalCtx p c) (setGlobalCtx q c) := by
  unfold setGlobalCtx
  refine ⟨rfl, rfl, by simp only [hs.stack], hs.cur, ?_⟩
  have hk := hs.kind
  simp only
  cases hp : p.sym with
  | loc t =>
    rw [hp] at hk
    cases hq : q.sym with
    | loc t2 => simp [kindEq]
    | glob b => rw [hq] at hk; cases hk
  | glob a =>
    rw [hp] at hk
    cases hq : q.sym with
    | loc t2 => rw [hq] at hk; cases hk
    | glob b =>
      rw [hq] at hk
      simp only [kindEq] at hk
      subst hk
      simp only [hs.gst]
      split <;> simp [kindEq]

theorem setGlobalCtx_twice {p : Ptrs} (h : WF p) (a b : Nat) : setGlobalCtx (setGlobalCtx p a) b = setGlobalCtx p b := by
  unfold setGlobalCtx
  rcases h.2 with ⟨h1, h2⟩ | ⟨r, h1, h2⟩
  · simp [h1, h2]
  · cases hp : p.sym with
    | glob x => rw [hp] at h2; cases h2
    | loc t => simp [h1]

theorem wf_enterCall {p : Ptrs} (h : WF p) (c : Nat) (l : Table) (gl : List String) : WF (enterCall p c l gl) := by
  unfold enterCall
  split
  · exact ⟨rfl, Or.inr ⟨[], rfl, trivial⟩⟩
  · refine ⟨h.1, Or.inr ?_⟩
    rcases h.2 with ⟨h1, h2⟩ | ⟨r, h1, _⟩
    · exact ⟨[], by simp [h1, h2], trivial⟩
    · exact ⟨r ++ [p.sym], by simp [h1], trivial⟩

/-- the `finally` block after a body that (last) executed `set_global_ctx(c')` at this depth -/
theorem leaveCall_setctx {p q : Ptrs} (h : WF p) (c c' : Nat) (l : Table) (gl : List String) (hc : p.gctx = c)
    (hs : Same (setGlobalCtx (enterCall p c l gl) c') q) : leaveCall p c q = setGlobalCtx p c' := by
  unfold leaveCall
  rw [if_neg (by simpa using hc)]
  unfold enterCall at hs
  rw [if_neg (by simpa using hc)] at hs
  have hst := hs.stack
  have hg := hs.gst
  have hx := hs.gctx
  unfold setGlobalCtx at hst hg hx ⊢
  simp only at hst hg hx
  rcases h.2 with ⟨h1, h2⟩ | ⟨r, h1, h2⟩
  · rw [h1] at hst
    simp only [List.nil_append] at hst
    rw [hst]
    simp only [List.getLast?_singleton, List.dropLast_singleton]
    cases q
    simp_all
  · rw [h1] at hst
    simp only [List.cons_append] at hst
    rw [hst]
    have hne : r ++ [p.sym] ≠ [] := by simp
    have hl : (Scope.glob c' :: (r ++ [p.sym])).getLast? = some p.sym := by
      rw [List.getLast?_cons_of_ne_nil hne]; simp
    have hd : (Scope.glob c' :: (r ++ [p.sym])).dropLast = Scope.glob c' :: r := by
      rw [List.dropLast_cons_of_ne_nil hne, List.dropLast_concat]
    rw [hl, hd]
    cases hp : p.sym with
    | glob x => rw [hp] at h2; cases h2
    | loc t =>
      cases q
      simp_all

def Rel (h : Heap) (p : Ptrs) (h' : Heap) (q : Ptrs) : Prop :=
  (h.nset ≤ h'.nset ∧ Same p q) ∨ (h.nset < h'.nset ∧ ∃ c, Same (setGlobalCtx p c) q)

def RelX (h : Heap) (p : Ptrs) (h' : Heap) (q : Ptrs) : Prop :=
  (h.nset ≤ h'.nset ∧ q = p) ∨ (h.nset < h'.nset ∧ ∃ c, q = setGlobalCtx p c)

theorem Rel.refl (h : Heap) (p : Ptrs) : Rel h p h p := Or.inl ⟨Nat.le_refl _, Same.refl _⟩

theorem Rel.le {h h' : Heap} {p q : Ptrs} (r : Rel h p h' q) : h.nset ≤ h'.nset := by
  rcases r with ⟨a, _⟩ | ⟨a, _⟩
  · exact a
  · exact Nat.le_of_lt a

theorem RelX.le {h h' : Heap} {p q : Ptrs} (r : RelX h p h' q) : h.nset ≤ h'.nset := by
  rcases r with ⟨a, _⟩ | ⟨a, _⟩
  · exact a
  · exact Nat.le_of_lt a

theorem RelX.rel {h h' : Heap} {p q : Ptrs} (r : RelX h p h' q) : Rel h p h' q := by
  rcases r with ⟨a, b⟩ | ⟨a, c, b⟩
  · exact Or.inl ⟨a, by rw [b]; exact Same.refl _⟩
  · exact Or.inr ⟨a, c, by rw [b]; exact Same.refl _⟩

theorem Rel.wf {h h' : Heap} {p q : Ptrs} (hw : WF p) (r : Rel h p h' q) : WF q := by
  rcases r with ⟨_, b⟩ | ⟨_, c, b⟩
  · exact hw.of_same b
  · exact (wf_setGlobalCtx hw c).of_same b

theorem Rel.trans {h0 h1 h2 : Heap} {p q r : Ptrs} (hw : WF p) (a : Rel h0 p h1 q) (b : Rel h1 q h2 r) :
    Rel h0 p h2 r := by
  rcases a with ⟨a1, a2⟩ | ⟨a1, c, a2⟩
  · rcases b with ⟨b1, b2⟩ | ⟨b1, d, b2⟩
    · exact Or.inl ⟨Nat.le_trans a1 b1, a2.trans b2⟩
    · exact Or.inr ⟨Nat.lt_of_le_of_lt a1 b1, d, (same_setGlobalCtx a2 d).trans b2⟩
  · rcases b with ⟨b1, b2⟩ | ⟨b1, d, b2⟩
    · exact Or.inr ⟨Nat.lt_of_lt_of_le a1 b1, c, a2.trans b2⟩
    · refine Or.inr ⟨Nat.lt_trans a1 b1, d, ?_⟩
      have := same_setGlobalCtx a2 d
      rw [setGlobalCtx_twice hw] at this
      exact this.trans b2

/-- a step that only touches symbol tables and keeps the pointers (up to local contents) -/
theorem Rel.of_tabOnly {h h' : Heap} {p q : Ptrs} (ht : TabOnly h h') (hs : Same p q) : Rel h p h' q :=
  Or.inl ⟨by rw [ht.nset]; exact Nat.le_refl _, hs⟩

theorem same_writeSym (st : St) (x : String) (v : Val) : Same st.p (writeSym st x v).p := by
  unfold writeSym
  cases hs : st.p.sym with
  | loc t => exact ⟨rfl, rfl, rfl, rfl, by simp [hs, kindEq]⟩
  | glob c => exact Same.refl _

theorem same_assignVar (st : St) (x : String) (v : Val) : Same st.p (assignVar st x v).p := by
  unfold assignVar
  split
  · exact Same.refl _
  · exact same_writeSym st x v

theorem same_bindFrom (c : Nat) (names : List (String × Option String)) :
    ∀ st : St, Same st.p (bindFrom st c names).1.p := by
  induction names with
  | nil => intro st; exact Same.refl _
  | cons na r ih =>
    intro st
    obtain ⟨nm, asn⟩ := na
    simp only [bindFrom]
    cases tget (st.h.tab c) nm with
    | none => exact Same.refl _
    | some v => exact (same_writeSym st _ v).trans (ih _)

theorem same_bindStar (t : Table) : ∀ st : St, Same st.p (bindStar st t).p := by
  induction t with
  | nil => intro st; exact Same.refl _
  | cons kv r ih =>
    intro st
    obtain ⟨k, v⟩ := kv
    simp only [bindStar]
    split
    · exact (same_writeSym st _ v).trans (ih _)
    · exact ih _

theorem same_bindStarC (cfg : Cfg) (c : Nat) (st : St) : Same st.p (bindStarC cfg st c).1.p := by
  simp only [bindStarC]
  cases starNames cfg (st.h.tab c) with
  | some l => exact same_bindFrom c _ st
  | none => exact same_bindStar _ st

def RestAll (W : World) (n : Nat) : Prop :=
  (∀ st s, WF st.p → Rel st.h st.p (execStmt W n st s).st.h (execStmt W n st s).st.p) ∧
  (∀ st b, WF st.p → Rel st.h st.p (execBlock W n st b).st.h (execBlock W n st b).st.p) ∧
  (∀ st fv vs, WF st.p → RelX st.h st.p (callFn W n st fv vs).st.h (callFn W n st fv vs).st.p ∧
      (st.p.gctx ≠ fnCtx fv st.p.gctx → (callFn W n st fv vs).st.p = st.p)) ∧
  (∀ st m lvl, (importMod W n st m lvl).st.p = st.p ∧ st.h.nset ≤ (importMod W n st m lvl).st.h.nset)

theorem restAll_zero (W : World) : RestAll W 0 := by
  refine ⟨?_, ?_, ?_, ?_⟩
  · intro st s _; simp only [execStmt]; exact Rel.refl _ _
  · intro st b _; simp only [execBlock]; exact Rel.refl _ _
  · intro st fv vs _; simp only [callFn]; exact ⟨Or.inl ⟨Nat.le_refl _, by trivial⟩, fun _ => by trivial⟩
  · intro st m lvl; simp only [importMod]; exact ⟨by trivial, Nat.le_refl _⟩

theorem rest_block_step (W : World) (n : Nat) (ih : RestAll W n) :
    ∀ st b, WF st.p → Rel st.h st.p (execBlock W (n+1) st b).st.h (execBlock W (n+1) st b).st.p := by
  obtain ⟨ihS, ihB, _, _⟩ := ih
  intro st b hw
  cases b with
  | nil => simp only [execBlock]; exact Rel.refl _ _
  | cons s rest =>
    simp only [execBlock]
    have h1 := ihS st s hw
    cases (execStmt W n st s).out with
    | norm => exact Rel.trans hw h1 (ihB _ rest (h1.wf hw))
    | ret v => exact h1
    | exc e => exact h1

theorem rest_call_step (W : World) (n : Nat) (ih : RestAll W n) :
    ∀ st fv vs, WF st.p → RelX st.h st.p (callFn W (n+1) st fv vs).st.h (callFn W (n+1) st fv vs).st.p ∧
      (st.p.gctx ≠ fnCtx fv st.p.gctx → (callFn W (n+1) st fv vs).st.p = st.p) := by
  obtain ⟨_, ihB, _, _⟩ := ih
  intro st fv vs hw
  cases fv with
  | fn c fid =>
    simp only [callFn, fnCtx]
    cases W.funcs[fid]? with
    | none => exact ⟨Or.inl ⟨Nat.le_refl _, by trivial⟩, fun _ => by trivial⟩
    | some fd =>
      simp only
      cases bindArgs fd.params vs with
      | none => exact ⟨Or.inl ⟨Nat.le_refl _, by trivial⟩, fun _ => by trivial⟩
      | some l =>
        simp only
        have hb := ihB { st with p := enterCall st.p c l fd.globals } fd.body (wf_enterCall hw c l fd.globals)
        have hcross : st.p.gctx ≠ c →
            leaveCall st.p c (execBlock W n { st with p := enterCall st.p c l fd.globals } fd.body).st.p = st.p := by
          intro hne
          unfold leaveCall
          rw [if_pos hne]
        refine ⟨?_, hcross⟩
        by_cases hne : st.p.gctx = c
        · rcases hb with ⟨b1, b2⟩ | ⟨b1, c', b2⟩
          · exact Or.inl ⟨b1, leaveCall_enterCall c l fd.globals b2⟩
          · exact Or.inr ⟨b1, c', leaveCall_setctx hw c c' l fd.globals hne b2⟩
        · exact Or.inl ⟨hb.le, hcross hne⟩
  | none => simp only [callFn]; exact ⟨Or.inl ⟨Nat.le_refl _, by trivial⟩, fun _ => by trivial⟩
  | int j => simp only [callFn]; exact ⟨Or.inl ⟨Nat.le_refl _, by trivial⟩, fun _ => by trivial⟩
  | names l => simp only [callFn]; exact ⟨Or.inl ⟨Nat.le_refl _, by trivial⟩, fun _ => by trivial⟩
  | mod j => simp only [callFn]; exact ⟨Or.inl ⟨Nat.le_refl _, by trivial⟩, fun _ => by trivial⟩

theorem rest_import_step (W : World) (n : Nat) (ih : RestAll W n) :
    ∀ st m lvl, (importMod W (n+1) st m lvl).st.p = st.p ∧ st.h.nset ≤ (importMod W (n+1) st m lvl).st.h.nset := by
  obtain ⟨_, ihB, _, _⟩ := ih
  intro st m lvl
  simp only [importMod]
  cases importLookup W st.h st.p.gctx m lvl with
  | err e => exact ⟨rfl, Nat.le_refl _⟩
  | found c => exact ⟨rfl, Nat.le_refl _⟩
  | missing => exact ⟨rfl, Nat.le_refl _⟩
  | load cd body =>
    simp only
    have hb := (ihB { h := loadBegin st.h cd, p := fresh st.h.ctxs.length } body (wf_fresh _)).le
    have h0 : (loadBegin st.h cd).nset = st.h.nset := rfl
    rw [h0] at hb
    cases (execBlock W n { h := loadBegin st.h cd, p := fresh st.h.ctxs.length } body).out with
    | exc e => exact ⟨rfl, hb⟩
    | norm => exact ⟨rfl, hb⟩
    | ret v => exact ⟨rfl, hb⟩

theorem rest_stmt_step (W : World) (n : Nat) (ih : RestAll W n) :
    ∀ st s, WF st.p → Rel st.h st.p (execStmt W (n+1) st s).st.h (execStmt W (n+1) st s).st.p := by
  obtain ⟨_, ihB, ihC, ihM⟩ := ih
  intro st s hw
  cases s with
  | assign x a =>
    simp only [execStmt]
    cases evalAtom st a with
    | error e => exact Rel.refl _ _
    | ok v => exact Rel.of_tabOnly (tabOnly_assignVar st x v) (same_assignVar st x v)
  | add x a b =>
    simp only [execStmt]
    cases evalAtom st a with
    | error e => exact Rel.refl _ _
    | ok va =>
      simp only
      cases evalAtom st b with
      | error e => exact Rel.refl _ _
      | ok vb =>
        simp only
        cases addVals va vb with
        | error e => exact Rel.refl _ _
        | ok v => exact Rel.of_tabOnly (tabOnly_assignVar st x v) (same_assignVar st x v)
  | setattr m a v =>
    simp only [execStmt]
    cases evalAtom st v with
    | error e => exact Rel.refl _ _
    | ok w =>
      simp only
      cases lookupVar st m with
      | error e => exact Rel.refl _ _
      | ok mv =>
        cases mv with
        | mod c => exact Rel.of_tabOnly (tabOnly_setKey _ _ _ _) (Same.refl _)
        | none => exact Rel.refl _ _
        | int j => exact Rel.refl _ _
        | names l => exact Rel.refl _ _
        | fn c f => exact Rel.refl _ _
  | call x f args =>
    simp only [execStmt]
    cases evalAtom st f with
    | error e => exact Rel.refl _ _
    | ok fv =>
      simp only
      cases evalAtoms st args with
      | error e => exact Rel.refl _ _
      | ok vs =>
        simp only
        have h1 := (ihC st fv vs hw).1.rel
        cases (callFn W n st fv vs).val with
        | error e => exact h1
        | ok v => exact Rel.trans hw h1 (Rel.of_tabOnly (tabOnly_assignVar _ x v) (same_assignVar _ x v))
  | spawn own f args =>
    simp only [execStmt]
    cases evalAtom st f with
    | error e => exact Rel.refl _ _
    | ok fv =>
      simp only
      cases evalAtoms st args with
      | error e => exact Rel.refl _ _
      | ok vs =>
        simp only
        have h1 := (ihC { st with p := fresh (if own = true then fnCtx fv st.p.gctx else st.p.gctx) } fv vs (wf_fresh _)).1.le
        exact Or.inl ⟨h1, Same.refl _⟩
  | defn x fid =>
    simp only [execStmt]
    exact Rel.of_tabOnly (tabOnly_assignVar st x _) (same_assignVar st x _)
  | setAll l =>
    simp only [execStmt]
    exact Rel.of_tabOnly (tabOnly_assignVar st _ _) (same_assignVar st _ _)
  | ret a =>
    simp only [execStmt]
    cases evalAtom st a with
    | error e => exact Rel.refl _ _
    | ok v => exact Rel.refl _ _
  | raise j => simp only [execStmt]; exact Rel.refl _ _
  | try_ body handler =>
    simp only [execStmt]
    have h1 := ihB st body hw
    cases (execBlock W n st body).out with
    | norm => exact h1
    | ret v => exact h1
    | exc e =>
      simp only
      split
      · exact h1
      · exact Rel.trans hw h1 (ihB _ handler (h1.wf hw))
  | import_ m asn =>
    simp only [execStmt]
    obtain ⟨i1, i2⟩ := ihM st m 0
    have h1 : Rel st.h st.p (importMod W n st m 0).st.h (importMod W n st m 0).st.p :=
      Or.inl ⟨i2, by rw [i1]; exact Same.refl _⟩
    cases (importMod W n st m 0).val with
    | error e => exact h1
    | ok o =>
      cases o with
      | none => exact h1
      | some c => exact Rel.trans hw h1 (Rel.of_tabOnly (tabOnly_writeSym _ _ _) (same_writeSym _ _ _))
  | fromDot lvl nm asn =>
    simp only [execStmt]
    obtain ⟨i1, i2⟩ := ihM st [nm] lvl
    have h1 : Rel st.h st.p (importMod W n st [nm] lvl).st.h (importMod W n st [nm] lvl).st.p :=
      Or.inl ⟨i2, by rw [i1]; exact Same.refl _⟩
    cases (importMod W n st [nm] lvl).val with
    | error e => exact h1
    | ok o =>
      cases o with
      | none => exact h1
      | some c => exact Rel.trans hw h1 (Rel.of_tabOnly (tabOnly_writeSym _ _ _) (same_writeSym _ _ _))
  | from_ m lvl names =>
    simp only [execStmt]
    obtain ⟨i1, i2⟩ := ihM st m lvl
    have h1 : Rel st.h st.p (importMod W n st m lvl).st.h (importMod W n st m lvl).st.p :=
      Or.inl ⟨i2, by rw [i1]; exact Same.refl _⟩
    cases (importMod W n st m lvl).val with
    | error e => exact h1
    | ok o =>
      cases o with
      | none => exact h1
      | some c =>
        simp only
        have h2 := tabOnly_bindFrom c names (importMod W n st m lvl).st
        have h3 := same_bindFrom c names (importMod W n st m lvl).st
        cases hb : bindFrom (importMod W n st m lvl).st c names with
        | mk st' o' =>
          rw [hb] at h2 h3
          cases o' with
          | none => exact Rel.trans hw h1 (Rel.of_tabOnly h2 h3)
          | some e => exact Rel.trans hw h1 (Rel.of_tabOnly h2 h3)
  | fromStar m lvl =>
    simp only [execStmt]
    obtain ⟨i1, i2⟩ := ihM st m lvl
    have h1 : Rel st.h st.p (importMod W n st m lvl).st.h (importMod W n st m lvl).st.p :=
      Or.inl ⟨i2, by rw [i1]; exact Same.refl _⟩
    cases (importMod W n st m lvl).val with
    | error e => exact h1
    | ok o =>
      cases o with
      | none => exact h1
      | some c =>
        simp only
        have h2 := tabOnly_bindStarC W.cfg c (importMod W n st m lvl).st
        have h3 := same_bindStarC W.cfg c (importMod W n st m lvl).st
        cases hb : bindStarC W.cfg (importMod W n st m lvl).st c with
        | mk st' o' =>
          rw [hb] at h2 h3
          cases o' with
          | none => exact Rel.trans hw h1 (Rel.of_tabOnly h2 h3)
          | some e => exact Rel.trans hw h1 (Rel.of_tabOnly h2 h3)
  | setctx nm =>
    simp only [execStmt]
    cases regGet st.h.reg nm with
    | none => exact Rel.refl _ _
    | some c => exact Or.inr ⟨Nat.lt_succ_self _, c, Same.refl _⟩

theorem restAll (W : World) : ∀ n, RestAll W n := by
  intro n
  induction n with
  | zero => exact restAll_zero W
  | succ n ih =>
    exact ⟨rest_stmt_step W n ih, rest_block_step W n ih, rest_call_step W n ih, rest_import_step W n ih⟩


/-! # part 5: the concrete worlds of the witnesses (findings F2, F3) -/

def raceW : World := { funcs := [], files := [(["modules", "m1"], [.assign "cnt" (.lit 0)])] }
def raceH : Heap :=
  { ctxs := [{ name := ["file", "a"], rel := none, hasModule := false }], tabs := fun _ => [], reg := [(["file", "a"], 0)] }
def raceCd : Cand := ⟨["modules", "m1"], ["modules", "m1"], none⟩

def cycW : World :=
  { funcs := [], files := [(["modules", "m1"], [.import_ ["m2"] none]), (["modules", "m2"], [.import_ ["m1"] none])] }

/-- no context carries a module object, and no context lives under `apps/` -/
def NoMod (h : Heap) : Prop := (∀ c, hasModuleAt h c = false) ∧ (∀ c, isAppsRel (selfCtx h c).rel = false)

theorem findLoaded_noMod {h : Heap} (hn : ∀ c, hasModuleAt h c = false) (cds : List Cand) : findLoaded h cds = none := by
  induction cds with
  | nil => rfl
  | cons cd r ih =>
    simp only [findLoaded]
    cases regGet h.reg cd.ctxName with
    | none => exact ih
    | some c => simp only [hn c]; exact ih

theorem noMod_loadBegin {h : Heap} (hn : NoMod h) (cd : Cand) (hr : isAppsRel cd.rel = false) : NoMod (loadBegin h cd) := by
  constructor
  · intro c
    unfold hasModuleAt loadBegin
    simp only
    by_cases hc : c < h.ctxs.length
    · rw [List.getElem?_append_left hc]; exact hn.1 c
    · by_cases he : c = h.ctxs.length
      · subst he; simp [newCtx]
      · have : h.ctxs.length + 1 ≤ c := by omega
        rw [List.getElem?_eq_none (by simp; omega)]
  · intro c
    unfold selfCtx loadBegin
    simp only
    by_cases hc : c < h.ctxs.length
    · rw [List.getElem?_append_left hc]; exact hn.2 c
    · by_cases he : c = h.ctxs.length
      · subst he; simp [newCtx, hr]
      · rw [List.getElem?_eq_none (by simp; omega)]; rfl


end PsModel.C11
