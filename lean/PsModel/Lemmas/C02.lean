import PsModel.Spec.C02
/-! helper lemmas for C02: fragment predicates, the marker/outcome simulation, no-escaping-jump invariant -/
namespace PsModel.C02

/-! ### syntactic predicates -/
mutual
/-- a `break`/`continue` that is not bound by a loop *inside* the statement (it would act on an enclosing loop) -/
def freeJumpS : Stmt → Bool
  | .brk => true
  | .cont => true
  | .ite _ b o => freeJumpL b || freeJumpL o
  | .while_ _ _ o => freeJumpL o
  | .for_ _ _ o => freeJumpL o
  | .try_ b hs o f => freeJumpL b || freeJumpH hs || freeJumpL o || freeJumpL f
  | .with_ _ b => freeJumpL b
  | _ => false
def freeJumpL : List Stmt → Bool
  | [] => false
  | s :: ss => freeJumpS s || freeJumpL ss
def freeJumpH : List Handler → Bool
  | [] => false
  | .mk _ _ b :: hs => freeJumpL b || freeJumpH hs
end

def withOk (cfg : Cfg) (items : List WItem) : Bool :=
  cfg.withNested || (items.length == 1 && items.all (fun m => m.enterRaises.isNone))

mutual
/-- the fragment on which the code, as configured by `cfg`, follows Python: a node shape is excluded only while its
deviation flag is off -/
def confS (cfg : Cfg) : Stmt → Bool
  | .ite _ b o => confL cfg b && confL cfg o
  | .while_ _ b o => confL cfg b && confL cfg o && (cfg.loopElsePropagates || !freeJumpL o)
  | .for_ _ b o => confL cfg b && confL cfg o && (cfg.loopElsePropagates || !freeJumpL o)
  | .try_ b hs o f => confL cfg b && confH cfg hs && confL cfg o && confL cfg f
  | .with_ items b => confL cfg b && withOk cfg items
  | _ => true
def confL (cfg : Cfg) : List Stmt → Bool
  | [] => true
  | s :: ss => confS cfg s && confL cfg ss
def confH (cfg : Cfg) : List Handler → Bool
  | [] => true
  | .mk _ _ b :: hs => confL cfg b && confH cfg hs
end

/-! ### small agreement lemmas (one per combinator) -/

theorem finish_agree (r2 : Res) (r3 : Res × World) :
    lift (PS.finish r2 r3) = Py.finish r2.toOut (lift r3) := by
  rcases r3 with ⟨(_ | m) | e, w3⟩
  · simp [PS.finish, Py.finish, lift, Res.toOut]
  · cases m <;> simp [PS.finish, Py.finish, lift, Res.toOut, Marker.toOut]
  · simp [PS.finish, Py.finish, lift, Res.toOut]

theorem handlingIn_agree (r : Res) (h : Option Exc) : PS.handlingIn r h = Py.handlingIn r.toOut h := by
  rcases r with (_ | m) | e
  · rfl
  · cases m <;> rfl
  · rfl

theorem withFinish_single (m : WItem) (r : Res × World) :
    lift (PS.withFinish [m] r) = Py.exit1 m (lift r) := by
  rcases r with ⟨(_ | mk) | e, w⟩
  · cases hx : m.exitRaises <;> simp [PS.withFinish, PS.exitAll, Py.exit1, lift, Res.toOut, hx]
  · cases hx : m.exitRaises <;> cases mk <;> simp [PS.withFinish, PS.exitAll, Py.exit1, lift, Res.toOut, Marker.toOut, hx]
  · cases hx : m.exitRaises <;> cases hs : m.suppress <;>
      simp [PS.withFinish, PS.exitAll, Py.exit1, lift, Res.toOut, hx, hs]

theorem selectHandler_confL (cfg : Cfg) (sub : Nat → Nat → Bool) (e : Exc) :
    ∀ hs w hb w', confH cfg hs = true → selectHandler sub e hs w = (.found hb, w') → confL cfg hb = true := by
  intro hs
  induction hs with
  | nil => intro w hb w' _ h; simp [selectHandler] at h
  | cons hd tl ih =>
    intro w hb w' hc h
    cases hd with
    | mk cs pre body =>
      simp only [confH, Bool.and_eq_true] at hc
      cases pre with
      | raises i c => simp [selectHandler] at h
      | tick i =>
        simp only [selectHandler] at h
        split at h
        · simp only [Prod.mk.injEq, HSel.found.injEq] at h; rw [← h.1]; exact hc.1
        · exact ih _ hb w' hc.2 h
      | plain =>
        simp only [selectHandler] at h
        split at h
        · simp only [Prod.mk.injEq, HSel.found.injEq] at h; rw [← h.1]; exact hc.1
        · exact ih _ hb w' hc.2 h

theorem selectHandler_free (sub : Nat → Nat → Bool) (e : Exc) :
    ∀ hs w hb w', freeJumpH hs = false → selectHandler sub e hs w = (.found hb, w') → freeJumpL hb = false := by
  intro hs
  induction hs with
  | nil => intro w hb w' _ h; simp [selectHandler] at h
  | cons hd tl ih =>
    intro w hb w' hc h
    cases hd with
    | mk cs pre body =>
      simp only [freeJumpH, Bool.or_eq_false_iff] at hc
      cases pre with
      | raises i c => simp [selectHandler] at h
      | tick i =>
        simp only [selectHandler] at h
        split at h
        · simp only [Prod.mk.injEq, HSel.found.injEq] at h; rw [← h.1]; exact hc.1
        · exact ih _ hb w' hc.2 h
      | plain =>
        simp only [selectHandler] at h
        split at h
        · simp only [Prod.mk.injEq, HSel.found.injEq] at h; rw [← h.1]; exact hc.1
        · exact ih _ hb w' hc.2 h

/-! ### a block without free jumps never completes with break/continue (reference semantics) -/

def NoJumpOut (o : Out) : Prop := o ≠ .brk ∧ o ≠ .cont

theorem finish_nojump (p : Out) (r : Out × World) (hp : NoJumpOut p) (hr : NoJumpOut r.1) :
    NoJumpOut (Py.finish p r).1 := by
  rcases r with ⟨o, w⟩
  cases o <;> simp_all [Py.finish, NoJumpOut]

theorem exit1_nojump (m : WItem) (r : Out × World) (hr : NoJumpOut r.1) : NoJumpOut (Py.exit1 m r).1 := by
  rcases r with ⟨o, w⟩
  cases hx : m.exitRaises <;> cases hs : m.suppress <;> cases o <;> simp_all [Py.exit1, NoJumpOut]

def NJ (sub : Nat → Nat → Bool) (n : Nat) : Prop :=
  (∀ h s w, freeJumpS s = false → NoJumpOut (Py.exec sub n h s w).1) ∧
  (∀ h ss w, freeJumpL ss = false → NoJumpOut (Py.block sub n h ss w).1) ∧
  (∀ h i b o w, freeJumpL o = false → NoJumpOut (Py.whileLoop sub n h i b o w).1) ∧
  (∀ h k b o w, freeJumpL o = false → NoJumpOut (Py.forLoop sub n h k b o w).1)

theorem nj_all (sub : Nat → Nat → Bool) : ∀ n, NJ sub n := by
  intro n
  induction n with
  | zero =>
    refine ⟨?_, ?_, ?_, ?_⟩ <;> intros <;> simp [Py.exec, Py.block, Py.whileLoop, Py.forLoop, NoJumpOut]
  | succ n ih =>
    obtain ⟨ihE, ihB, ihW, ihF⟩ := ih
    refine ⟨?_, ?_, ?_, ?_⟩
    · intro h s w hf
      cases s with
      | tick i => simp [Py.exec, NoJumpOut]
      | brk => simp [freeJumpS] at hf
      | cont => simp [freeJumpS] at hf
      | ret v => simp [Py.exec, NoJumpOut]
      | raise c cause => simp [Py.exec, NoJumpOut]
      | reraise => cases h <;> simp [Py.exec, NoJumpOut]
      | assert_ i =>
        simp only [Py.exec]
        split <;> simp [NoJumpOut]
      | ite i b o =>
        simp only [freeJumpS, Bool.or_eq_false_iff] at hf
        simp only [Py.exec]
        split
        · exact ihB _ _ _ hf.1
        · exact ihB _ _ _ hf.2
      | while_ i b o =>
        simp only [freeJumpS] at hf
        simp only [Py.exec]
        exact ihW _ _ _ _ _ hf
      | for_ i b o =>
        simp only [freeJumpS] at hf
        simp only [Py.exec]
        exact ihF _ _ _ _ _ hf
      | try_ b hs o f =>
        simp only [freeJumpS, Bool.or_eq_false_iff] at hf
        obtain ⟨⟨⟨hb, hh⟩, ho⟩, hfin⟩ := hf
        simp only [Py.exec]
        apply finish_nojump
        · have h1 := ihB h b w hb
          rcases hr1 : Py.block sub n h b w with ⟨o1, w1⟩
          rw [hr1] at h1
          cases o1 with
          | normal => exact ihB _ _ _ ho
          | brk => simp [NoJumpOut] at h1
          | cont => simp [NoJumpOut] at h1
          | ret v => simp [NoJumpOut]
          | raise e =>
            simp only
            rcases hsel : selectHandler sub e hs w1 with ⟨sel, w2⟩
            cases sel with
            | notFound => simp [NoJumpOut]
            | raised e2 => simp [NoJumpOut]
            | found hbod => exact ihB _ _ _ (selectHandler_free sub e hs w1 hbod w2 hh hsel)
        · exact ihB _ _ _ hfin
      | with_ items b =>
        simp only [freeJumpS] at hf
        simp only [Py.exec]
        cases items with
        | nil => exact ihB _ _ _ hf
        | cons m ms =>
          simp only
          cases m.enterRaises with
          | some c => simp [NoJumpOut]
          | none =>
            simp only
            apply exit1_nojump
            cases m.bindRaises with
            | some c => simp [NoJumpOut]
            | none =>
              simp only
              cases ms with
              | nil => exact ihB _ _ _ hf
              | cons m2 ms2 => exact ihE _ _ _ (by simpa [freeJumpS] using hf)
    · intro h ss w hf
      cases ss with
      | nil => simp [Py.block, NoJumpOut]
      | cons s ss =>
        simp only [freeJumpL, Bool.or_eq_false_iff] at hf
        simp only [Py.block]
        have h1 := ihE h s w hf.1
        rcases hr1 : Py.exec sub n h s w with ⟨o1, w1⟩
        rw [hr1] at h1
        cases o1 with
        | normal => exact ihB _ _ _ hf.2
        | brk => simp [NoJumpOut] at h1
        | cont => simp [NoJumpOut] at h1
        | ret v => simp [NoJumpOut]
        | raise e => simp [NoJumpOut]
    · intro h i b o w hf
      simp only [Py.whileLoop]
      split
      · rcases hr1 : Py.block sub n h b (w.ask i).2 with ⟨o1, w1⟩
        cases o1 with
        | normal => exact ihW _ _ _ _ _ hf
        | cont => exact ihW _ _ _ _ _ hf
        | brk => simp [NoJumpOut]
        | ret v => simp [NoJumpOut]
        | raise e => simp [NoJumpOut]
      · exact ihB _ _ _ hf
    · intro h k b o w hf
      cases k with
      | zero => simp only [Py.forLoop]; exact ihB _ _ _ hf
      | succ k =>
        simp only [Py.forLoop]
        rcases hr1 : Py.block sub n h b w with ⟨o1, w1⟩
        cases o1 with
        | normal => exact ihF _ _ _ _ _ hf
        | cont => exact ihF _ _ _ _ _ hf
        | brk => simp [NoJumpOut]
        | ret v => simp [NoJumpOut]
        | raise e => simp [NoJumpOut]


/-! ### the simulation: markers (pyscript) vs outcomes (reference), lock-step on fuel -/

def Agree (cfg : Cfg) (sub : Nat → Nat → Bool) (n : Nat) : Prop :=
  (∀ h s w, confS cfg s = true → lift (PS.exec cfg sub n h s w) = Py.exec sub n h s w) ∧
  (∀ h ss w, confL cfg ss = true → lift (PS.stmts cfg sub n h ss w) = Py.block sub n h ss w) ∧
  (∀ h ss w, confL cfg ss = true → freeJumpL ss = false →
      lift (PS.elseStmts cfg sub n h ss w) = Py.block sub n h ss w) ∧
  (∀ h i b o w, confL cfg b = true → confL cfg o = true → (cfg.loopElsePropagates || !freeJumpL o) = true →
      lift (PS.whileLoop cfg sub n h i b o w) = Py.whileLoop sub n h i b o w) ∧
  (∀ h k b o w, confL cfg b = true → confL cfg o = true → (cfg.loopElsePropagates || !freeJumpL o) = true →
      lift (PS.forLoop cfg sub n h k b o w) = Py.forLoop sub n h k b o w)

/-- the else clause under either flag value -/
theorem else_agree (cfg : Cfg) (sub : Nat → Nat → Bool) (n : Nat) (ih : Agree cfg sub n)
    (h : Option Exc) (o : List Stmt) (w : World) (ho : confL cfg o = true)
    (hf : (cfg.loopElsePropagates || !freeJumpL o) = true) :
    lift (if cfg.loopElsePropagates then PS.stmts cfg sub n h o w else PS.elseStmts cfg sub n h o w)
      = Py.block sub n h o w := by
  cases hp : cfg.loopElsePropagates with
  | true => simpa using ih.2.1 h o w ho
  | false =>
    simp only [hp, Bool.false_or, Bool.not_eq_true'] at hf
    simpa using ih.2.2.1 h o w ho hf

theorem agree_all (cfg : Cfg) (sub : Nat → Nat → Bool) : ∀ n, Agree cfg sub n := by
  intro n
  induction n with
  | zero =>
    refine ⟨?_, ?_, ?_, ?_, ?_⟩ <;> intros <;>
      simp [PS.exec, Py.exec, PS.stmts, PS.elseStmts, Py.block, PS.whileLoop, Py.whileLoop, PS.forLoop, Py.forLoop,
        lift, Res.toOut]
  | succ n ih =>
    have ihE := ih.1
    have ihB := ih.2.1
    have ihW := ih.2.2.2.1
    have ihF := ih.2.2.2.2
    refine ⟨?_, ?_, ?_, ?_, ?_⟩
    · -- statements
      intro h s w hc
      cases s with
      | tick i => simp [PS.exec, Py.exec, lift, Res.toOut]
      | brk => simp [PS.exec, Py.exec, lift, Res.toOut, Marker.toOut]
      | cont => simp [PS.exec, Py.exec, lift, Res.toOut, Marker.toOut]
      | ret v => simp [PS.exec, Py.exec, lift, Res.toOut, Marker.toOut]
      | raise c cause => simp [PS.exec, Py.exec, lift, Res.toOut]
      | reraise => cases h <;> simp [PS.exec, Py.exec, lift, Res.toOut]
      | assert_ i =>
        simp only [PS.exec, Py.exec]
        split <;> simp [lift, Res.toOut]
      | ite i b o =>
        simp only [confS, Bool.and_eq_true] at hc
        simp only [PS.exec, Py.exec]
        split
        · exact ihB _ _ _ hc.1
        · exact ihB _ _ _ hc.2
      | while_ i b o =>
        simp only [confS, Bool.and_eq_true] at hc
        simp only [PS.exec, Py.exec]
        exact ihW _ _ _ _ _ hc.1.1 hc.1.2 hc.2
      | for_ i b o =>
        simp only [confS, Bool.and_eq_true] at hc
        simp only [PS.exec, Py.exec]
        exact ihF _ _ _ _ _ hc.1.1 hc.1.2 hc.2
      | try_ b hs o f =>
        simp only [confS, Bool.and_eq_true] at hc
        obtain ⟨⟨⟨hb, hh⟩, ho⟩, hfin⟩ := hc
        simp only [PS.exec, Py.exec]
        have h1 := ihB h b w hb
        rcases hr1 : PS.stmts cfg sub n h b w with ⟨r1, w1⟩
        rw [hr1] at h1
        simp only [lift] at h1
        rw [← h1]
        rcases r1 with (_ | m) | e
        · -- else clause
          simp only [Res.toOut]
          have h2 := ihB h o w1 ho
          rcases hr2 : PS.stmts cfg sub n h o w1 with ⟨r2, w2⟩
          rw [hr2] at h2
          simp only [lift] at h2
          rw [← h2]
          rw [handlingIn_agree]
          rw [← ihB _ f w2 hfin]
          exact finish_agree _ _
        · -- marker from the try body
          cases m <;>
            (simp only [Res.toOut, Marker.toOut]
             rw [← ihB _ f w1 hfin]
             exact finish_agree _ _)
        · -- exception
          simp only [Res.toOut]
          rcases hsel : selectHandler sub e hs w1 with ⟨sel, w1'⟩
          cases sel with
          | notFound =>
            simp only
            rw [← ihB _ f w1' hfin]
            exact finish_agree _ _
          | raised e2 =>
            simp only
            rw [← ihB _ f w1' hfin]
            exact finish_agree _ _
          | found hbod =>
            simp only
            have h2 := ihB (some e) hbod w1' (selectHandler_confL cfg sub e hs w1 hbod w1' hh hsel)
            rcases hr2 : PS.stmts cfg sub n (some e) hbod w1' with ⟨r2, w2⟩
            rw [hr2] at h2
            simp only [lift] at h2
            rw [← h2]
            rw [handlingIn_agree]
            rw [← ihB _ f w2 hfin]
            exact finish_agree _ _
      | with_ items b =>
        simp only [confS, Bool.and_eq_true] at hc
        obtain ⟨hb, hw⟩ := hc
        simp only [PS.exec, Py.exec]
        cases hn : cfg.withNested with
        | true =>
          simp only [if_true]
          cases items with
          | nil => exact ihB _ _ _ hb
          | cons m ms =>
            simp only
            cases m.enterRaises with
            | some c => simp [lift, Res.toOut]
            | none =>
              simp only
              cases m.bindRaises with
              | some c =>
                simp only
                rw [withFinish_single]
                simp [lift, Res.toOut]
              | none =>
                simp only
                cases ms with
                | nil =>
                  simp only
                  rw [withFinish_single, ihB _ _ _ hb]
                | cons m2 ms2 =>
                  simp only
                  rw [withFinish_single]
                  rw [ihE h (.with_ (m2 :: ms2) b) _ (by simp [confS, hb, withOk, hn])]
        | false =>
          simp only [Bool.false_eq_true, if_false]
          simp only [withOk, hn, Bool.false_or, Bool.and_eq_true, beq_iff_eq] at hw
          obtain ⟨hl, hall⟩ := hw
          match items, hl, hall with
          | [m], _, hall =>
            simp only [List.all_cons, List.all_nil, Bool.and_true, Option.isNone_iff_eq_none] at hall
            simp only [PS.initAll, List.foldl_cons, List.foldl_nil, PS.enterAll, hall]
            cases m.bindRaises with
            | some c =>
              simp only
              rw [withFinish_single]
              simp [lift, Res.toOut]
            | none =>
              simp only
              rw [withFinish_single, ihB _ _ _ hb]
    · -- statement lists
      intro h ss w hc
      cases ss with
      | nil => simp [PS.stmts, Py.block, lift, Res.toOut]
      | cons s ss =>
        simp only [confL, Bool.and_eq_true] at hc
        simp only [PS.stmts, Py.block]
        have hs := ihE h s w hc.1
        simp only [lift] at hs
        rcases hps : PS.exec cfg sub n h s w with ⟨r, w'⟩
        rw [hps] at hs
        rw [← hs]
        rcases r with (_ | m) | e
        · simpa [Res.toOut] using ihB h ss w' hc.2
        · cases m <;> simp [Res.toOut, Marker.toOut, lift]
        · simp [Res.toOut, lift]
    · -- else clause as coded today, on blocks without free jumps
      intro h ss w hc hf
      cases ss with
      | nil => simp [PS.elseStmts, Py.block, lift, Res.toOut]
      | cons s ss =>
        simp only [confL, Bool.and_eq_true] at hc
        simp only [freeJumpL, Bool.or_eq_false_iff] at hf
        simp only [PS.elseStmts, Py.block]
        have hs := ihE h s w hc.1
        have hnj := (nj_all sub n).1 h s w hf.1
        simp only [lift] at hs
        rcases hps : PS.exec cfg sub n h s w with ⟨r, w'⟩
        rw [hps] at hs
        rw [← hs] at hnj ⊢
        rcases r with (_ | m) | e
        · simpa [Res.toOut] using ih.2.2.1 h ss w' hc.2 hf.2
        · cases m with
          | brk => simp [NoJumpOut, Res.toOut, Marker.toOut] at hnj
          | cont => simp [NoJumpOut, Res.toOut, Marker.toOut] at hnj
          | ret v => simp [Res.toOut, Marker.toOut, lift]
        · simp [Res.toOut, lift]
    · -- while
      intro h i b o w hb ho hf
      simp only [PS.whileLoop, Py.whileLoop]
      split
      · have h1 := ihB h b (w.ask i).2 hb
        simp only [lift] at h1
        rcases hps : PS.stmts cfg sub n h b (w.ask i).2 with ⟨r, w'⟩
        rw [hps] at h1
        rw [← h1]
        rcases r with (_ | m) | e
        · simpa [Res.toOut] using ihW h i b o w' hb ho hf
        · cases m with
          | brk => simp [Res.toOut, Marker.toOut, lift]
          | cont => simpa [Res.toOut, Marker.toOut] using ihW h i b o w' hb ho hf
          | ret v => simp [Res.toOut, Marker.toOut, lift]
        · simp [Res.toOut, lift]
      · exact else_agree cfg sub n ih h o _ ho hf
    · -- for
      intro h k b o w hb ho hf
      cases k with
      | zero =>
        simp only [PS.forLoop, Py.forLoop]
        exact else_agree cfg sub n ih h o _ ho hf
      | succ k =>
        simp only [PS.forLoop, Py.forLoop]
        have h1 := ihB h b w hb
        simp only [lift] at h1
        rcases hps : PS.stmts cfg sub n h b w with ⟨r, w'⟩
        rw [hps] at h1
        rw [← h1]
        rcases r with (_ | m) | e
        · simpa [Res.toOut] using ihF h k b o w' hb ho hf
        · cases m with
          | brk => simp [Res.toOut, Marker.toOut, lift]
          | cont => simpa [Res.toOut, Marker.toOut] using ihF h k b o w' hb ho hf
          | ret v => simp [Res.toOut, Marker.toOut, lift]
        · simp [Res.toOut, lift]

end PsModel.C02
