import PsModel.Spec.C02
/-! helper lemmas for C02: fragment predicates, the marker/outcome simulation, no-escaping-jump invariant -/
namespace PsModel.C02

/-! ### syntactic predicates -/
mutual
/-- a `break`/`continue` that is not bound by a loop *inside* the statement (it would act on an enclosing loop) -/
def freeJumpS : Stmt → Bool
  | .brk => true
  | .cont => true
  | .ite _ b o => freeJumpL b || freeJumpL o
  | .while_ _ _ o => freeJumpL o
  | .for_ _ _ o => freeJumpL o
  | .try_ b hs o f => freeJumpL b || freeJumpH hs || freeJumpL o || freeJumpL f
  | .with_ _ b => freeJumpL b
  | _ => false
def freeJumpL : List Stmt → Bool
  | [] => false
  | s :: ss => freeJumpS s || freeJumpL ss
def freeJumpH : List Handler → Bool
  | [] => false
  | .mk _ _ b :: hs => freeJumpL b || freeJumpH hs
end

def withOk (cfg : Cfg) (items : List WItem) : Bool :=
  cfg.withNested || (items.length == 1 && items.all (fun m => m.enterRaises.isNone))

/-- a class that is not BaseException-only (or no class at all) -/
def optQuiet : Option Nat → Bool
  | none => true
  | some c => !baseOnly c

/-- none of the manager's methods raises a BaseException-only class -/
def WItem.quiet (m : WItem) : Bool := optQuiet m.enterRaises && optQuiet m.bindRaises && optQuiet m.exitRaises

def HPre.quiet : HPre → Bool
  | .raises _ c => !baseOnly c
  | _ => true

mutual
/-- the fragment on which the code, as configured by `cfg`, follows Python: a node shape is excluded only while its
deviation flag is off.  While `catchesBase` is off (today) the sources of BaseException-only exceptions are excluded:
`raise` of such a class, a suspension point (the task may be cancelled there), managers / clause expressions raising one -/
def confS (cfg : Cfg) : Stmt → Bool
  | .raise c _ => cfg.catchesBase || !baseOnly c
  | .suspend _ => cfg.catchesBase
  | .ite _ b o => confL cfg b && confL cfg o
  | .while_ _ b o => confL cfg b && confL cfg o && (cfg.loopElsePropagates || !freeJumpL o)
  | .for_ _ b o => confL cfg b && confL cfg o && (cfg.loopElsePropagates || !freeJumpL o)
  | .try_ b hs o f => confL cfg b && confH cfg hs && confL cfg o && confL cfg f
  | .with_ items b => confL cfg b && withOk cfg items && (cfg.catchesBase || items.all WItem.quiet)
  | _ => true
def confL (cfg : Cfg) : List Stmt → Bool
  | [] => true
  | s :: ss => confS cfg s && confL cfg ss
def confH (cfg : Cfg) : List Handler → Bool
  | [] => true
  | .mk _ pre b :: hs => confL cfg b && (cfg.catchesBase || pre.quiet) && confH cfg hs
end

/-! ### small agreement lemmas (one per combinator) -/

theorem finish_agree (r2 : Res) (r3 : Res × World) :
    lift (PS.finish r2 r3) = Py.finish r2.toOut (lift r3) := by
  rcases r3 with ⟨(_ | m) | e, w3⟩
  · simp [PS.finish, Py.finish, lift, Res.toOut]
  · cases m <;> simp [PS.finish, Py.finish, lift, Res.toOut, Marker.toOut]
  · simp [PS.finish, Py.finish, lift, Res.toOut]

theorem handlingIn_agree (r : Res) (h : Option Exc) : PS.handlingIn r h = Py.handlingIn r.toOut h := by
  rcases r with (_ | m) | e
  · rfl
  · cases m <;> rfl
  · rfl

/-- a result that `except Exception` handles like Python does: not a BaseException-only exception while `catchesBase` is off -/
def Seen (cfg : Cfg) (r : Res) : Prop := ∀ e, r = .exc e → skipsHandlers cfg e = false

theorem withFinish_single (cfg : Cfg) (m : WItem) (r : Res × World) (hr : Seen cfg r.1) :
    lift (PS.withFinish cfg [m] r) = Py.exit1 m (lift r) := by
  rcases r with ⟨(_ | mk) | e, w⟩
  · cases hx : m.exitRaises <;> simp [PS.withFinish, PS.exitAll, Py.exit1, lift, Res.toOut, hx]
  · cases hx : m.exitRaises <;> cases mk <;> simp [PS.withFinish, PS.exitAll, Py.exit1, lift, Res.toOut, Marker.toOut, hx]
  · have hsk : skipsHandlers cfg e = false := hr e rfl
    cases hx : m.exitRaises <;> cases hs : m.suppress <;>
      simp [PS.withFinish, PS.exitAll, Py.exit1, lift, Res.toOut, hx, hs, hsk]

theorem selectHandler_confL (cfg : Cfg) (sub : Nat → Nat → Bool) (e : Exc) :
    ∀ hs w hb w', confH cfg hs = true → selectHandler sub e hs w = (.found hb, w') → confL cfg hb = true := by
  intro hs
  induction hs with
  | nil => intro w hb w' _ h; simp [selectHandler] at h
  | cons hd tl ih =>
    intro w hb w' hc h
    cases hd with
    | mk cs pre body =>
      simp only [confH, Bool.and_eq_true] at hc
      cases pre with
      | raises i c => simp [selectHandler] at h
      | tick i =>
        simp only [selectHandler] at h
        split at h
        · simp only [Prod.mk.injEq, HSel.found.injEq] at h; rw [← h.1]; exact hc.1.1
        · exact ih _ hb w' hc.2 h
      | plain =>
        simp only [selectHandler] at h
        split at h
        · simp only [Prod.mk.injEq, HSel.found.injEq] at h; rw [← h.1]; exact hc.1.1
        · exact ih _ hb w' hc.2 h

/-- an exception raised by a clause's type expression is not BaseException-only on the fragment -/
theorem selectHandler_raised_nb (cfg : Cfg) (hcb : cfg.catchesBase = false) (sub : Nat → Nat → Bool) (e : Exc) :
    ∀ hs w e2 w', confH cfg hs = true → selectHandler sub e hs w = (.raised e2, w') → baseOnly e2.cls = false := by
  intro hs
  induction hs with
  | nil => intro w e2 w' _ h; simp [selectHandler] at h
  | cons hd tl ih =>
    intro w e2 w' hc h
    cases hd with
    | mk cs pre body =>
      simp only [confH, Bool.and_eq_true, hcb, Bool.false_or] at hc
      cases pre with
      | raises i c =>
        simp only [selectHandler, Prod.mk.injEq, HSel.raised.injEq] at h
        rw [← h.1]
        simpa [HPre.quiet] using hc.1.2
      | tick i =>
        simp only [selectHandler] at h
        split at h
        · simp at h
        · exact ih _ e2 w' hc.2 h
      | plain =>
        simp only [selectHandler] at h
        split at h
        · simp at h
        · exact ih _ e2 w' hc.2 h

theorem selectHandler_free (sub : Nat → Nat → Bool) (e : Exc) :
    ∀ hs w hb w', freeJumpH hs = false → selectHandler sub e hs w = (.found hb, w') → freeJumpL hb = false := by
  intro hs
  induction hs with
  | nil => intro w hb w' _ h; simp [selectHandler] at h
  | cons hd tl ih =>
    intro w hb w' hc h
    cases hd with
    | mk cs pre body =>
      simp only [freeJumpH, Bool.or_eq_false_iff] at hc
      cases pre with
      | raises i c => simp [selectHandler] at h
      | tick i =>
        simp only [selectHandler] at h
        split at h
        · simp only [Prod.mk.injEq, HSel.found.injEq] at h; rw [← h.1]; exact hc.1
        · exact ih _ hb w' hc.2 h
      | plain =>
        simp only [selectHandler] at h
        split at h
        · simp only [Prod.mk.injEq, HSel.found.injEq] at h; rw [← h.1]; exact hc.1
        · exact ih _ hb w' hc.2 h

/-! ### a block without free jumps never completes with break/continue (reference semantics) -/

def NoJumpOut (o : Out) : Prop := o ≠ .brk ∧ o ≠ .cont

theorem finish_nojump (p : Out) (r : Out × World) (hp : NoJumpOut p) (hr : NoJumpOut r.1) :
    NoJumpOut (Py.finish p r).1 := by
  rcases r with ⟨o, w⟩
  cases o <;> simp_all [Py.finish, NoJumpOut]

theorem exit1_nojump (m : WItem) (r : Out × World) (hr : NoJumpOut r.1) : NoJumpOut (Py.exit1 m r).1 := by
  rcases r with ⟨o, w⟩
  cases hx : m.exitRaises <;> cases hs : m.suppress <;> cases o <;> simp_all [Py.exit1, NoJumpOut]

def NJ (sub : Nat → Nat → Bool) (n : Nat) : Prop :=
  (∀ h s w, freeJumpS s = false → NoJumpOut (Py.exec sub n h s w).1) ∧
  (∀ h ss w, freeJumpL ss = false → NoJumpOut (Py.block sub n h ss w).1) ∧
  (∀ h i b o w, freeJumpL o = false → NoJumpOut (Py.whileLoop sub n h i b o w).1) ∧
  (∀ h k b o w, freeJumpL o = false → NoJumpOut (Py.forLoop sub n h k b o w).1)

theorem nj_all (sub : Nat → Nat → Bool) : ∀ n, NJ sub n := by
  intro n
  induction n with
  | zero =>
    refine ⟨?_, ?_, ?_, ?_⟩ <;> intros <;> simp [Py.exec, Py.block, Py.whileLoop, Py.forLoop, NoJumpOut]
  | succ n ih =>
    obtain ⟨ihE, ihB, ihW, ihF⟩ := ih
    refine ⟨?_, ?_, ?_, ?_⟩
    · intro h s w hf
      cases s with
      | tick i => simp [Py.exec, NoJumpOut]
      | brk => simp [freeJumpS] at hf
      | cont => simp [freeJumpS] at hf
      | ret v => simp [Py.exec, NoJumpOut]
      | raise c cause => simp [Py.exec, NoJumpOut]
      | reraise => cases h <;> simp [Py.exec, NoJumpOut]
      | assert_ i =>
        simp only [Py.exec]
        split <;> simp [NoJumpOut]
      | suspend i =>
        simp only [Py.exec]
        split <;> simp [NoJumpOut]
      | ite i b o =>
        simp only [freeJumpS, Bool.or_eq_false_iff] at hf
        simp only [Py.exec]
        split
        · exact ihB _ _ _ hf.1
        · exact ihB _ _ _ hf.2
      | while_ i b o =>
        simp only [freeJumpS] at hf
        simp only [Py.exec]
        exact ihW _ _ _ _ _ hf
      | for_ i b o =>
        simp only [freeJumpS] at hf
        simp only [Py.exec]
        exact ihF _ _ _ _ _ hf
      | try_ b hs o f =>
        simp only [freeJumpS, Bool.or_eq_false_iff] at hf
        obtain ⟨⟨⟨hb, hh⟩, ho⟩, hfin⟩ := hf
        simp only [Py.exec]
        apply finish_nojump
        · have h1 := ihB h b w hb
          rcases hr1 : Py.block sub n h b w with ⟨o1, w1⟩
          rw [hr1] at h1
          cases o1 with
          | normal => exact ihB _ _ _ ho
          | brk => simp [NoJumpOut] at h1
          | cont => simp [NoJumpOut] at h1
          | ret v => simp [NoJumpOut]
          | raise e =>
            simp only
            rcases hsel : selectHandler sub e hs w1 with ⟨sel, w2⟩
            cases sel with
            | notFound => simp [NoJumpOut]
            | raised e2 => simp [NoJumpOut]
            | found hbod => exact ihB _ _ _ (selectHandler_free sub e hs w1 hbod w2 hh hsel)
        · exact ihB _ _ _ hfin
      | with_ items b =>
        simp only [freeJumpS] at hf
        simp only [Py.exec]
        cases items with
        | nil => exact ihB _ _ _ hf
        | cons m ms =>
          simp only
          cases m.enterRaises with
          | some c => simp [NoJumpOut]
          | none =>
            simp only
            apply exit1_nojump
            cases m.bindRaises with
            | some c => simp [NoJumpOut]
            | none =>
              simp only
              cases ms with
              | nil => exact ihB _ _ _ hf
              | cons m2 ms2 => exact ihE _ _ _ (by simpa [freeJumpS] using hf)
    · intro h ss w hf
      cases ss with
      | nil => simp [Py.block, NoJumpOut]
      | cons s ss =>
        simp only [freeJumpL, Bool.or_eq_false_iff] at hf
        simp only [Py.block]
        have h1 := ihE h s w hf.1
        rcases hr1 : Py.exec sub n h s w with ⟨o1, w1⟩
        rw [hr1] at h1
        cases o1 with
        | normal => exact ihB _ _ _ hf.2
        | brk => simp [NoJumpOut] at h1
        | cont => simp [NoJumpOut] at h1
        | ret v => simp [NoJumpOut]
        | raise e => simp [NoJumpOut]
    · intro h i b o w hf
      simp only [Py.whileLoop]
      split
      · rcases hr1 : Py.block sub n h b (w.ask i).2 with ⟨o1, w1⟩
        cases o1 with
        | normal => exact ihW _ _ _ _ _ hf
        | cont => exact ihW _ _ _ _ _ hf
        | brk => simp [NoJumpOut]
        | ret v => simp [NoJumpOut]
        | raise e => simp [NoJumpOut]
      · exact ihB _ _ _ hf
    · intro h k b o w hf
      cases k with
      | zero => simp only [Py.forLoop]; exact ihB _ _ _ hf
      | succ k =>
        simp only [Py.forLoop]
        rcases hr1 : Py.block sub n h b w with ⟨o1, w1⟩
        cases o1 with
        | normal => exact ihF _ _ _ _ _ hf
        | cont => exact ihF _ _ _ _ _ hf
        | brk => simp [NoJumpOut]
        | ret v => simp [NoJumpOut]
        | raise e => simp [NoJumpOut]


/-! ### on the fragment of a configuration with `catchesBase` off no BaseException-only exception ever arises -/

theorem baseOnly_runtimeError : baseOnly runtimeError = false := by decide
theorem baseOnly_assertionError : baseOnly assertionError = false := by decide

def NBOut (o : Out) : Prop := ∀ e, o = .raise e → baseOnly e.cls = false
def HNB (h : Option Exc) : Prop := ∀ e, h = some e → baseOnly e.cls = false

theorem finish_nb (p : Out) (r : Out × World) (hp : NBOut p) (hr : NBOut r.1) : NBOut (Py.finish p r).1 := by
  rcases r with ⟨o, w⟩
  cases o <;> simp_all [Py.finish, NBOut]

theorem handlingIn_nb (p : Out) (h : Option Exc) (hp : NBOut p) (hh : HNB h) : HNB (Py.handlingIn p h) := by
  cases p <;> simp_all [Py.handlingIn, NBOut, HNB]

theorem exit1_nb (m : WItem) (r : Out × World) (hm : optQuiet m.exitRaises = true) (hr : NBOut r.1) :
    NBOut (Py.exit1 m r).1 := by
  rcases r with ⟨o, w⟩
  cases hx : m.exitRaises <;> cases hs : m.suppress <;> cases o <;> simp_all [Py.exit1, NBOut, optQuiet]

def NB (cfg : Cfg) (sub : Nat → Nat → Bool) (n : Nat) : Prop :=
  (∀ h s w, HNB h → confS cfg s = true → NBOut (Py.exec sub n h s w).1) ∧
  (∀ h ss w, HNB h → confL cfg ss = true → NBOut (Py.block sub n h ss w).1) ∧
  (∀ h i b o w, HNB h → confL cfg b = true → confL cfg o = true → NBOut (Py.whileLoop sub n h i b o w).1) ∧
  (∀ h k b o w, HNB h → confL cfg b = true → confL cfg o = true → NBOut (Py.forLoop sub n h k b o w).1)

theorem nb_all (cfg : Cfg) (hcb : cfg.catchesBase = false) (sub : Nat → Nat → Bool) : ∀ n, NB cfg sub n := by
  intro n
  induction n with
  | zero =>
    refine ⟨?_, ?_, ?_, ?_⟩ <;> intros <;> simp [Py.exec, Py.block, Py.whileLoop, Py.forLoop, NBOut]
  | succ n ih =>
    obtain ⟨ihE, ihB, ihW, ihF⟩ := ih
    refine ⟨?_, ?_, ?_, ?_⟩
    · intro h s w hh hc
      cases s with
      | tick i => simp [Py.exec, NBOut]
      | brk => simp [Py.exec, NBOut]
      | cont => simp [Py.exec, NBOut]
      | ret v => simp [Py.exec, NBOut]
      | raise c cause =>
        simp only [confS, hcb, Bool.false_or, Bool.not_eq_true'] at hc
        intro e he
        simp only [Py.exec, Out.raise.injEq] at he
        rw [← he]; exact hc
      | reraise =>
        cases h with
        | none => simp [Py.exec, NBOut, baseOnly_runtimeError]
        | some e0 =>
          intro e he
          simp only [Py.exec, Out.raise.injEq] at he
          rw [← he]; exact hh e0 rfl
      | assert_ i =>
        simp only [Py.exec]
        split <;> simp [NBOut, baseOnly_assertionError]
      | suspend i => simp [confS, hcb] at hc
      | ite i b o =>
        simp only [confS, Bool.and_eq_true] at hc
        simp only [Py.exec]
        split
        · exact ihB _ _ _ hh hc.1
        · exact ihB _ _ _ hh hc.2
      | while_ i b o =>
        simp only [confS, Bool.and_eq_true] at hc
        simp only [Py.exec]
        exact ihW _ _ _ _ _ hh hc.1.1 hc.1.2
      | for_ i b o =>
        simp only [confS, Bool.and_eq_true] at hc
        simp only [Py.exec]
        exact ihF _ _ _ _ _ hh hc.1.1 hc.1.2
      | try_ b hs o f =>
        simp only [confS, Bool.and_eq_true] at hc
        obtain ⟨⟨⟨hb, hhs⟩, ho⟩, hfin⟩ := hc
        simp only [Py.exec]
        have key : ∀ r2 : Out × World, NBOut r2.1 →
            NBOut (Py.finish r2.1 (Py.block sub n (Py.handlingIn r2.1 h) f r2.2)).1 :=
          fun r2 h2 => finish_nb _ _ h2 (ihB _ _ _ (handlingIn_nb _ _ h2 hh) hfin)
        apply key
        have h1 := ihB h b w hh hb
        rcases hr1 : Py.block sub n h b w with ⟨o1, w1⟩
        rw [hr1] at h1
        cases o1 with
        | normal => exact ihB _ _ _ hh ho
        | brk => simp [NBOut]
        | cont => simp [NBOut]
        | ret v => simp [NBOut]
        | raise e =>
          have he : baseOnly e.cls = false := h1 e rfl
          simp only
          rcases hsel : selectHandler sub e hs w1 with ⟨sel, w2⟩
          cases sel with
          | notFound => intro e' he'; simp only [Out.raise.injEq] at he'; rw [← he']; exact he
          | raised e2 =>
            intro e' he'; simp only [Out.raise.injEq] at he'; rw [← he']
            exact selectHandler_raised_nb cfg hcb sub e hs w1 e2 w2 hhs hsel
          | found hbod =>
            exact ihB _ _ _ (by intro e' he'; simp only [Option.some.injEq] at he'; rw [← he']; exact he)
              (selectHandler_confL cfg sub e hs w1 hbod w2 hhs hsel)
      | with_ items b =>
        simp only [confS, Bool.and_eq_true, hcb, Bool.false_or] at hc
        obtain ⟨⟨hb, hwo⟩, hq⟩ := hc
        simp only [Py.exec]
        cases items with
        | nil => exact ihB _ _ _ hh hb
        | cons m ms =>
          simp only [List.all_cons, Bool.and_eq_true, WItem.quiet] at hq
          obtain ⟨⟨⟨hqe, hqb⟩, hqx⟩, hqs⟩ := hq
          simp only
          cases hme : m.enterRaises with
          | some c =>
            intro e' he'; simp only [Out.raise.injEq] at he'; rw [← he']
            simpa [optQuiet, hme] using hqe
          | none =>
            simp only
            apply exit1_nb _ _ hqx
            cases hmb : m.bindRaises with
            | some c =>
              intro e' he'; simp only [Out.raise.injEq] at he'; rw [← he']
              simpa [optQuiet, hmb] using hqb
            | none =>
              simp only
              cases ms with
              | nil => exact ihB _ _ _ hh hb
              | cons m2 ms2 =>
                have hwn : cfg.withNested = true := by simpa [withOk] using hwo
                exact ihE _ _ _ hh (by simpa [confS, hb, withOk, hcb, hwn] using hqs)
    · intro h ss w hh hc
      cases ss with
      | nil => simp [Py.block, NBOut]
      | cons s ss =>
        simp only [confL, Bool.and_eq_true] at hc
        simp only [Py.block]
        have h1 := ihE h s w hh hc.1
        rcases hr1 : Py.exec sub n h s w with ⟨o1, w1⟩
        rw [hr1] at h1
        cases o1 with
        | normal => exact ihB _ _ _ hh hc.2
        | brk => simp [NBOut]
        | cont => simp [NBOut]
        | ret v => simp [NBOut]
        | raise e => exact h1
    · intro h i b o w hh hb ho
      simp only [Py.whileLoop]
      split
      · have h1 := ihB h b (w.ask i).2 hh hb
        rcases hr1 : Py.block sub n h b (w.ask i).2 with ⟨o1, w1⟩
        rw [hr1] at h1
        cases o1 with
        | normal => exact ihW _ _ _ _ _ hh hb ho
        | cont => exact ihW _ _ _ _ _ hh hb ho
        | brk => simp [NBOut]
        | ret v => simp [NBOut]
        | raise e => exact h1
      · exact ihB _ _ _ hh ho
    · intro h k b o w hh hb ho
      cases k with
      | zero => simp only [Py.forLoop]; exact ihB _ _ _ hh ho
      | succ k =>
        simp only [Py.forLoop]
        have h1 := ihB h b w hh hb
        rcases hr1 : Py.block sub n h b w with ⟨o1, w1⟩
        rw [hr1] at h1
        cases o1 with
        | normal => exact ihF _ _ _ _ _ hh hb ho
        | cont => exact ihF _ _ _ _ _ hh hb ho
        | brk => simp [NBOut]
        | ret v => simp [NBOut]
        | raise e => exact h1

/-! ### the simulation: markers (pyscript) vs outcomes (reference), lock-step on fuel -/

/-- the exception being handled is one that `except Exception` can have caught -/
def HOk (cfg : Cfg) (h : Option Exc) : Prop := cfg.catchesBase = true ∨ HNB h

theorem hok_none (cfg : Cfg) : HOk cfg none := Or.inr (by intro e he; cases he)

theorem seen_of_nb (cfg : Cfg) (r : Res) (hnb : cfg.catchesBase = false → NBOut r.toOut) : Seen cfg r := by
  intro e he
  subst he
  cases hcb : cfg.catchesBase with
  | true => simp [skipsHandlers, hcb]
  | false =>
    have := hnb hcb e rfl
    simp [skipsHandlers, hcb, this]

theorem seen_of_agree (cfg : Cfg) (r : Res × World) (o : Out × World) (heq : lift r = o)
    (hnb : cfg.catchesBase = false → NBOut o.1) : Seen cfg r.1 :=
  seen_of_nb cfg r.1 (fun hcb => by have := hnb hcb; rw [← heq] at this; exact this)

theorem seen_quiet (cfg : Cfg) (c : Nat) (w : World) (hq : (cfg.catchesBase || !baseOnly c) = true) :
    Seen cfg ((Res.exc { cls := c }, w) : Res × World).1 := by
  intro e he
  simp only [Res.exc.injEq] at he
  subst he
  cases hcb : cfg.catchesBase <;> simp_all [skipsHandlers]

theorem hok_some (cfg : Cfg) (e : Exc) (hs : skipsHandlers cfg e = false) : HOk cfg (some e) := by
  cases hcb : cfg.catchesBase with
  | true => exact Or.inl hcb
  | false =>
    refine Or.inr ?_
    intro e' he'
    simp only [Option.some.injEq] at he'
    subst he'
    simpa [skipsHandlers, hcb] using hs

theorem hok_handling (cfg : Cfg) (p : Out) (h : Option Exc) (hok : HOk cfg h)
    (hp : cfg.catchesBase = false → NBOut p) : HOk cfg (Py.handlingIn p h) := by
  cases hcb : cfg.catchesBase with
  | true => exact Or.inl hcb
  | false => exact Or.inr (handlingIn_nb _ _ (hp hcb) (hok.resolve_left (by simp [hcb])))

theorem nbout_exec (cfg : Cfg) (sub : Nat → Nat → Bool) (n : Nat) (h : Option Exc) (s : Stmt) (w : World)
    (hok : HOk cfg h) (hc : confS cfg s = true) (hcb : cfg.catchesBase = false) : NBOut (Py.exec sub n h s w).1 :=
  (nb_all cfg hcb sub n).1 h s w (hok.resolve_left (by simp [hcb])) hc

theorem nbout_block (cfg : Cfg) (sub : Nat → Nat → Bool) (n : Nat) (h : Option Exc) (ss : List Stmt) (w : World)
    (hok : HOk cfg h) (hc : confL cfg ss = true) (hcb : cfg.catchesBase = false) : NBOut (Py.block sub n h ss w).1 :=
  (nb_all cfg hcb sub n).2.1 h ss w (hok.resolve_left (by simp [hcb])) hc

def Agree (cfg : Cfg) (sub : Nat → Nat → Bool) (n : Nat) : Prop :=
  (∀ h s w, HOk cfg h → confS cfg s = true → lift (PS.exec cfg sub n h s w) = Py.exec sub n h s w) ∧
  (∀ h ss w, HOk cfg h → confL cfg ss = true → lift (PS.stmts cfg sub n h ss w) = Py.block sub n h ss w) ∧
  (∀ h ss w, HOk cfg h → confL cfg ss = true → freeJumpL ss = false →
      lift (PS.elseStmts cfg sub n h ss w) = Py.block sub n h ss w) ∧
  (∀ h i b o w, HOk cfg h → confL cfg b = true → confL cfg o = true → (cfg.loopElsePropagates || !freeJumpL o) = true →
      lift (PS.whileLoop cfg sub n h i b o w) = Py.whileLoop sub n h i b o w) ∧
  (∀ h k b o w, HOk cfg h → confL cfg b = true → confL cfg o = true → (cfg.loopElsePropagates || !freeJumpL o) = true →
      lift (PS.forLoop cfg sub n h k b o w) = Py.forLoop sub n h k b o w)

/-- the else clause under either flag value -/
theorem else_agree (cfg : Cfg) (sub : Nat → Nat → Bool) (n : Nat) (ih : Agree cfg sub n)
    (h : Option Exc) (o : List Stmt) (w : World) (hok : HOk cfg h) (ho : confL cfg o = true)
    (hf : (cfg.loopElsePropagates || !freeJumpL o) = true) :
    lift (if cfg.loopElsePropagates then PS.stmts cfg sub n h o w else PS.elseStmts cfg sub n h o w)
      = Py.block sub n h o w := by
  cases hp : cfg.loopElsePropagates with
  | true => simpa using ih.2.1 h o w hok ho
  | false =>
    simp only [hp, Bool.false_or, Bool.not_eq_true'] at hf
    simpa using ih.2.2.1 h o w hok ho hf

theorem agree_all (cfg : Cfg) (sub : Nat → Nat → Bool) : ∀ n, Agree cfg sub n := by
  intro n
  induction n with
  | zero =>
    refine ⟨?_, ?_, ?_, ?_, ?_⟩ <;> intros <;>
      simp [PS.exec, Py.exec, PS.stmts, PS.elseStmts, Py.block, PS.whileLoop, Py.whileLoop, PS.forLoop, Py.forLoop,
        lift, Res.toOut]
  | succ n ih =>
    have ihE := ih.1
    have ihB := ih.2.1
    have ihW := ih.2.2.2.1
    have ihF := ih.2.2.2.2
    refine ⟨?_, ?_, ?_, ?_, ?_⟩
    · -- statements
      intro h s w hok hc
      cases s with
      | tick i => simp [PS.exec, Py.exec, lift, Res.toOut]
      | brk => simp [PS.exec, Py.exec, lift, Res.toOut, Marker.toOut]
      | cont => simp [PS.exec, Py.exec, lift, Res.toOut, Marker.toOut]
      | ret v => simp [PS.exec, Py.exec, lift, Res.toOut, Marker.toOut]
      | raise c cause => simp [PS.exec, Py.exec, lift, Res.toOut]
      | reraise => cases h <;> simp [PS.exec, Py.exec, lift, Res.toOut]
      | assert_ i =>
        simp only [PS.exec, Py.exec]
        split <;> simp [lift, Res.toOut]
      | suspend i =>
        simp only [PS.exec, Py.exec]
        split <;> simp_all [lift, Res.toOut]
      | ite i b o =>
        simp only [confS, Bool.and_eq_true] at hc
        simp only [PS.exec, Py.exec]
        split
        · exact ihB _ _ _ hok hc.1
        · exact ihB _ _ _ hok hc.2
      | while_ i b o =>
        simp only [confS, Bool.and_eq_true] at hc
        simp only [PS.exec, Py.exec]
        exact ihW _ _ _ _ _ hok hc.1.1 hc.1.2 hc.2
      | for_ i b o =>
        simp only [confS, Bool.and_eq_true] at hc
        simp only [PS.exec, Py.exec]
        exact ihF _ _ _ _ _ hok hc.1.1 hc.1.2 hc.2
      | try_ b hs o f =>
        simp only [confS, Bool.and_eq_true] at hc
        obtain ⟨⟨⟨hb, hh⟩, ho⟩, hfin⟩ := hc
        simp only [PS.exec, Py.exec]
        -- the `finally` part, for any agreeing result of the try/except/else part
        have tail : ∀ (r2 : Res) (w2 : World), (cfg.catchesBase = false → NBOut r2.toOut) →
            lift (PS.finish r2 (PS.stmts cfg sub n (PS.handlingIn r2 h) f w2)) =
              Py.finish r2.toOut (Py.block sub n (Py.handlingIn r2.toOut h) f w2) := by
          intro r2 w2 hnb2
          rw [handlingIn_agree, ← ihB _ f w2 (hok_handling cfg _ h hok hnb2) hfin]
          exact finish_agree _ _
        have h1 := ihB h b w hok hb
        have hnb1 := nbout_block cfg sub n h b w hok hb
        rcases hr1 : PS.stmts cfg sub n h b w with ⟨r1, w1⟩
        rw [hr1] at h1
        simp only [lift] at h1
        rw [← h1] at hnb1 ⊢
        rcases r1 with (_ | m) | e
        · -- else clause
          simp only [Res.toOut]
          have h2 := ihB h o w1 hok ho
          have hnb2 := nbout_block cfg sub n h o w1 hok ho
          rcases hr2 : PS.stmts cfg sub n h o w1 with ⟨r2, w2⟩
          rw [hr2] at h2
          simp only [lift] at h2
          rw [← h2] at hnb2 ⊢
          exact tail r2 w2 hnb2
        · -- marker from the try body
          cases m <;>
            (simp only [Res.toOut, Marker.toOut]
             exact tail _ w1 (by intro _ e he; cases he))
        · -- exception
          have hsk : skipsHandlers cfg e = false := seen_of_nb cfg (.exc e) hnb1 e rfl
          simp only [Res.toOut, hsk, Bool.false_eq_true, if_false]
          rcases hsel : selectHandler sub e hs w1 with ⟨sel, w1'⟩
          cases sel with
          | notFound =>
            simp only
            exact tail (.exc e) w1' hnb1
          | raised e2 =>
            simp only
            refine tail (.exc e2) w1' (fun hcb e' he' => ?_)
            simp only [Res.toOut, Out.raise.injEq] at he'
            rw [← he']
            exact selectHandler_raised_nb cfg hcb sub e hs w1 e2 w1' hh hsel
          | found hbod =>
            simp only
            have hc2 := selectHandler_confL cfg sub e hs w1 hbod w1' hh hsel
            have hok2 : HOk cfg (some e) := hok_some cfg e hsk
            have h2 := ihB (some e) hbod w1' hok2 hc2
            have hnb2 := nbout_block cfg sub n (some e) hbod w1' hok2 hc2
            rcases hr2 : PS.stmts cfg sub n (some e) hbod w1' with ⟨r2, w2⟩
            rw [hr2] at h2
            simp only [lift] at h2
            rw [← h2] at hnb2 ⊢
            exact tail r2 w2 hnb2
      | with_ items b =>
        simp only [confS, Bool.and_eq_true] at hc
        obtain ⟨⟨hb, hw⟩, hq⟩ := hc
        simp only [PS.exec, Py.exec]
        cases hn : cfg.withNested with
        | true =>
          simp only [if_true]
          cases items with
          | nil => exact ihB _ _ _ hok hb
          | cons m ms =>
            simp only
            cases m.enterRaises with
            | some c => simp [lift, Res.toOut]
            | none =>
              simp only
              cases hmb : m.bindRaises with
              | some c =>
                simp only
                rw [withFinish_single cfg m _ (seen_quiet cfg c _ (by
                  cases hcb : cfg.catchesBase <;> simp_all [WItem.quiet, optQuiet]))]
                simp [lift, Res.toOut]
              | none =>
                simp only
                cases ms with
                | nil =>
                  simp only
                  rw [withFinish_single cfg m _ (seen_of_agree cfg _ _ (ihB h b _ hok hb)
                    (nbout_block cfg sub n h b _ hok hb)), ihB _ _ _ hok hb]
                | cons m2 ms2 =>
                  simp only
                  have hc2 : confS cfg (.with_ (m2 :: ms2) b) = true := by
                    cases hcb : cfg.catchesBase <;> simp_all [confS, withOk]
                  rw [withFinish_single cfg m _ (seen_of_agree cfg _ _ (ihE h _ _ hok hc2)
                    (nbout_exec cfg sub n h _ _ hok hc2)), ihE h _ _ hok hc2]
        | false =>
          simp only [Bool.false_eq_true, if_false]
          simp only [withOk, hn, Bool.false_or, Bool.and_eq_true, beq_iff_eq] at hw
          obtain ⟨hl, hall⟩ := hw
          match items, hl, hall, hq with
          | [m], _, hall, hq =>
            simp only [List.all_cons, List.all_nil, Bool.and_true, Option.isNone_iff_eq_none] at hall
            simp only [PS.initAll, List.foldl_cons, List.foldl_nil, PS.enterAll, hall]
            cases hmb : m.bindRaises with
            | some c =>
              simp only
              rw [withFinish_single cfg m _ (seen_quiet cfg c _ (by
                cases hcb : cfg.catchesBase <;> simp_all [WItem.quiet, optQuiet]))]
              simp [lift, Res.toOut]
            | none =>
              simp only
              rw [withFinish_single cfg m _ (seen_of_agree cfg _ _ (ihB h b _ hok hb)
                (nbout_block cfg sub n h b _ hok hb)), ihB _ _ _ hok hb]
    · -- statement lists
      intro h ss w hok hc
      cases ss with
      | nil => simp [PS.stmts, Py.block, lift, Res.toOut]
      | cons s ss =>
        simp only [confL, Bool.and_eq_true] at hc
        simp only [PS.stmts, Py.block]
        have hs := ihE h s w hok hc.1
        simp only [lift] at hs
        rcases hps : PS.exec cfg sub n h s w with ⟨r, w'⟩
        rw [hps] at hs
        rw [← hs]
        rcases r with (_ | m) | e
        · simpa [Res.toOut] using ihB h ss w' hok hc.2
        · cases m <;> simp [Res.toOut, Marker.toOut, lift]
        · simp [Res.toOut, lift]
    · -- else clause as coded before the fix, on blocks without free jumps
      intro h ss w hok hc hf
      cases ss with
      | nil => simp [PS.elseStmts, Py.block, lift, Res.toOut]
      | cons s ss =>
        simp only [confL, Bool.and_eq_true] at hc
        simp only [freeJumpL, Bool.or_eq_false_iff] at hf
        simp only [PS.elseStmts, Py.block]
        have hs := ihE h s w hok hc.1
        have hnj := (nj_all sub n).1 h s w hf.1
        simp only [lift] at hs
        rcases hps : PS.exec cfg sub n h s w with ⟨r, w'⟩
        rw [hps] at hs
        rw [← hs] at hnj ⊢
        rcases r with (_ | m) | e
        · simpa [Res.toOut] using ih.2.2.1 h ss w' hok hc.2 hf.2
        · cases m with
          | brk => simp [NoJumpOut, Res.toOut, Marker.toOut] at hnj
          | cont => simp [NoJumpOut, Res.toOut, Marker.toOut] at hnj
          | ret v => simp [Res.toOut, Marker.toOut, lift]
        · simp [Res.toOut, lift]
    · -- while
      intro h i b o w hok hb ho hf
      simp only [PS.whileLoop, Py.whileLoop]
      split
      · have h1 := ihB h b (w.ask i).2 hok hb
        simp only [lift] at h1
        rcases hps : PS.stmts cfg sub n h b (w.ask i).2 with ⟨r, w'⟩
        rw [hps] at h1
        rw [← h1]
        rcases r with (_ | m) | e
        · simpa [Res.toOut] using ihW h i b o w' hok hb ho hf
        · cases m with
          | brk => simp [Res.toOut, Marker.toOut, lift]
          | cont => simpa [Res.toOut, Marker.toOut] using ihW h i b o w' hok hb ho hf
          | ret v => simp [Res.toOut, Marker.toOut, lift]
        · simp [Res.toOut, lift]
      · exact else_agree cfg sub n ih h o _ hok ho hf
    · -- for
      intro h k b o w hok hb ho hf
      cases k with
      | zero =>
        simp only [PS.forLoop, Py.forLoop]
        exact else_agree cfg sub n ih h o _ hok ho hf
      | succ k =>
        simp only [PS.forLoop, Py.forLoop]
        have h1 := ihB h b w hok hb
        simp only [lift] at h1
        rcases hps : PS.stmts cfg sub n h b w with ⟨r, w'⟩
        rw [hps] at h1
        rw [← h1]
        rcases r with (_ | m) | e
        · simpa [Res.toOut] using ihF h k b o w' hok hb ho hf
        · cases m with
          | brk => simp [Res.toOut, Marker.toOut, lift]
          | cont => simpa [Res.toOut, Marker.toOut] using ihF h k b o w' hok hb ho hf
          | ret v => simp [Res.toOut, Marker.toOut, lift]
        · simp [Res.toOut, lift]

/-! ### return markers: fresh allocation keeps pending values per activation -/

/-- the value activation `a` would be handed now -/
def MStore.valOf (s : MStore) (a : Nat) : Option Nat :=
  match s.pending.lookup a with
  | none => none
  | some i => (s.cells[i]?).getD none

/-- fresh allocation keeps every activation's pending value equal to the value of its own last `return` -/
def MInv (s : MStore) (t : RetSpec) : Prop :=
  s.out = t.out ∧ (∀ a i, s.pending.lookup a = some i → i < s.cells.length) ∧ (∀ a, s.valOf a = t.last.lookup a)

theorem minv_step (s : MStore) (t : RetSpec) (ev : MEv) (h : MInv s t) :
    MInv (s.step .fresh ev) (t.step ev) := by
  obtain ⟨ho, hb, hv⟩ := h
  cases ev with
  | ret a node v =>
    refine ⟨ho, ?_, ?_⟩
    · intro a' i hl
      simp only [MStore.step, MStore.alloc, List.lookup_cons] at hl
      simp only [MStore.step, MStore.alloc, List.length_append, List.length_cons, List.length_nil]
      split at hl
      · simp only [Option.some.injEq] at hl; omega
      · have := hb a' i hl; omega
    · intro a'
      simp only [MStore.step, MStore.alloc, MStore.valOf, RetSpec.step, List.lookup_cons]
      by_cases hE : (a' == a) = true
      · simp [hE]
      · simp only [hE]
        have hv' := hv a'
        simp only [MStore.valOf] at hv'
        cases hl : s.pending.lookup a' with
        | none => simpa [hl] using hv'
        | some i =>
          have hi := hb a' i hl
          simp only [hl] at hv' ⊢
          rw [List.getElem?_append_left hi]
          exact hv'
  | take a =>
    have hva := hv a
    simp only [MStore.valOf] at hva
    cases hl : s.pending.lookup a with
    | none =>
      simp only [hl] at hva
      refine ⟨?_, ?_, ?_⟩
      · simp [MStore.step, RetSpec.step, hl, ho, ← hva]
      · intro a' i hl'; simpa [MStore.step, hl] using hb a' i (by simpa [MStore.step, hl] using hl')
      · intro a'; simpa [MStore.step, hl, RetSpec.step, MStore.valOf] using hv a'
    | some i =>
      simp only [hl] at hva
      refine ⟨?_, ?_, ?_⟩
      · simp [MStore.step, RetSpec.step, hl, ho, ← hva]
      · intro a' i' hl'; simpa [MStore.step, hl] using hb a' i' (by simpa [MStore.step, hl] using hl')
      · intro a'; simpa [MStore.step, hl, RetSpec.step, MStore.valOf] using hv a'

theorem minv_run (evs : List MEv) : ∀ (s : MStore) (t : RetSpec), MInv s t →
    MInv (evs.foldl (MStore.step .fresh) s) (evs.foldl RetSpec.step t) := by
  induction evs with
  | nil => intro s t h; exact h
  | cons ev evs ih => intro s t h; exact ih _ _ (minv_step s t ev h)


end PsModel.C02
