import PsModel.Model.C04
import PsModel.Spec.C04
/-!
# C04 helper lemmas

1. `ident_any_values_changed` / `ident_values_changed` compute the declarative "matches an any-change form" /
   "changes a watched name" of the spec.
2. `notify_var_get` as a finite map (`nvg_lookup`), name resolution on a bound name (`resolve_bound`).
3. hub invariants (`Good`) and their preservation by every operation.
4. the environment lemma: on a primed hub the bindings handed to the expression are the spec environment,
   whatever the live state is when the message is finally handled.
5. the simulation invariant over arbitrary schedules.
-/
namespace PsModel.C04
open Spec

/-! ## 1. which names changed -/

theorem pyNe_eq (a b : Option SVal) : pyNe a b = decide (a.map (·.state) ≠ b.map (·.state)) := by
  cases a with
  | none => cases b <;> simp [pyNe]
  | some x => cases b with
    | none => simp [pyNe]
    | some y => by_cases h : x.state = y.state <;> simp [pyNe, h]

theorem pyNe_comm (a b : Option SVal) : pyNe a b = pyNe b a := by
  cases a <;> cases b <;> simp [pyNe, bne_comm]

theorem vc_eq (ev : Ev) : decide (valueChanged ev) = pyNe ev.new ev.old := by
  rw [pyNe_eq]; unfold valueChanged; congr

theorem ac_eq (ev : Ev) (a : String) : decide (attrChanged ev a) = (getattr ev.new a != getattr ev.old a) := by
  unfold attrChanged; by_cases h : getattr ev.new a = getattr ev.old a <;> simp [h]

theorem aac_eq (ev : Ev) :
    decide (anyAttrChanged ev) = (keys ev.new ++ keys ev.old).any (fun k => getattr ev.new k != getattr ev.old k) := by
  have := anyAttrChanged_iff ev
  by_cases hc : anyAttrChanged ev
  · simp [hc, this.mp hc]
  · have h2 : ¬ ((keys ev.new ++ keys ev.old).any (fun k => getattr ev.new k != getattr ev.old k) = true) :=
      fun h' => hc (this.mpr h')
    simp only [Bool.not_eq_true] at h2
    simp [hc, h2]

theorem anyOne_eq (ev : Ev) (n : Name) : anyOne ev n = matchesAny ev n := by
  unfold anyOne matchesAny
  rw [vc_eq, aac_eq, pyNe_comm ev.old ev.new]
  rcases h : n.rest with _ | ⟨a, _ | ⟨b, r⟩⟩
  · simp
  · simp only [ac_eq]; simp
  · simp

theorem identAny_eq (ev : Ev) (names : List Name) : identAny ev names = names.any (matchesAny ev) := by
  unfold identAny
  congr 1
  funext n
  exact anyOne_eq ev n

theorem chgOne_eq (ev : Ev) (n : Name) : chgOne ev n = changes ev n := by
  unfold chgOne changes
  rw [vc_eq]
  rcases h : n.rest with _ | ⟨a, _ | ⟨b, r⟩⟩
  · simp
  · simp only [ac_eq]
  · simp

theorem identChanged_eq (ev : Ev) (names : List Name) : identChanged ev names = names.any (changes ev) := by
  unfold identChanged
  congr 1
  funext n
  exact chgOne_eq ev n

/-- a name that changes is a subscribable name of the changed entity -/
theorem changes_subscribable {ev : Ev} {n : Name} (h : changes ev n = true) : n.subscribable = true ∧ n.e = ev.e := by
  unfold changes at h
  rcases hr : n.rest with _ | ⟨a, _ | ⟨b, r⟩⟩ <;> simp [hr] at h <;> simp [Name.subscribable, hr, h.1]

theorem watchedChange_subscribed {c : STCfg} {ev : Ev} (h : watchedChange c ev = true) : c.subscribed ev.e = true := by
  unfold watchedChange at h
  simp only [List.any_eq_true] at h
  obtain ⟨n, hn, hc⟩ := h
  have := changes_subscribable hc
  simp only [STCfg.subscribed, List.any_eq_true, Bool.and_eq_true, beq_iff_eq]
  exact ⟨n, hn, this.1, this.2⟩

/-! ## 2. `notify_var_get` as a finite map; resolution of a bound name -/

theorem lookup_base (ev : Ev) (n : Name) :
    (baseVars ev).lookup n =
      if n = ⟨ev.e, []⟩ then some (.ofOpt ev.new) else if n = ⟨ev.e, ["old"]⟩ then some (.ofOpt ev.old) else none := by
  simp only [baseVars, List.lookup]
  by_cases h1 : n = ⟨ev.e, []⟩
  · have e1 : (n == (⟨ev.e, []⟩ : Name)) = true := by simpa using h1
    simp [h1]
  · have e1 : (n == (⟨ev.e, []⟩ : Name)) = false := by simpa using h1
    by_cases h2 : n = ⟨ev.e, ["old"]⟩
    · subst h2; rw [e1]; simp
    · have e2 : (n == (⟨ev.e, ["old"]⟩ : Name)) = false := by simpa using h2
      simp only [e1, e2, h1, h2, if_false]

theorem isBaseKey_iff (ev : Ev) (n : Name) : isBaseKey ev n = true ↔ (n = ⟨ev.e, []⟩ ∨ n = ⟨ev.e, ["old"]⟩) := by
  cases n with
  | mk e r =>
    simp only [isBaseKey, Bool.and_eq_true, Bool.or_eq_true, beq_iff_eq, Name.mk.injEq]
    constructor
    · rintro ⟨h1, h2 | h2⟩
      · exact Or.inl ⟨h1, h2⟩
      · exact Or.inr ⟨h1, h2⟩
    · rintro (⟨h1, h2⟩ | ⟨h1, h2⟩)
      · exact ⟨h1, Or.inl h2⟩
      · exact ⟨h1, Or.inr h2⟩

theorem lookup_fm (g : Name → Option Val) (p : Name → Bool) (l : List Name) (n : Name) :
    (l.filterMap (fun m => if p m then none else (g m).map (fun v => (m, v)))).lookup n =
      if p n then none else if n ∈ l then g n else none := by
  induction l with
  | nil => simp
  | cons m ms ih =>
    simp only [List.filterMap_cons]
    by_cases hp : p m = true
    · simp only [hp, if_true]
      rw [ih]
      by_cases hn : p n = true
      · simp [hn]
      · have : n ≠ m := fun h => hn (h ▸ hp)
        simp [hn, this]
    · simp only [hp]
      cases hg : g m with
      | none =>
        simp only [Bool.false_eq_true, if_false, Option.map_none]
        rw [ih]
        by_cases hn : p n = true
        · simp [hn]
        · by_cases hnm : n = m
          · subst hnm; simp [hn, hg]
          · simp [hn, hnm]
      | some v =>
        simp only [Bool.false_eq_true, if_false, Option.map_some, List.lookup]
        by_cases hnm : n = m
        · subst hnm; simp [hp, hg]
        · have e : (n == m) = false := by simpa using hnm
          simp only [e]
          rw [ih]
          simp [hnm]

theorem nvg_lookup (live last : Store) (ev : Ev) (names : List Name) (n : Name) :
    (notifyVarGet live last ev names).lookup n =
      if n = ⟨ev.e, []⟩ then some (.ofOpt ev.new)
      else if n = ⟨ev.e, ["old"]⟩ then some (.ofOpt ev.old)
      else if n ∈ names then nvgOne live last ev n else none := by
  unfold notifyVarGet
  rw [List.lookup_append, lookup_base, lookup_fm (nvgOne live last ev) (isBaseKey ev)]
  by_cases h1 : n = ⟨ev.e, []⟩
  · simp [h1]
  · by_cases h2 : n = ⟨ev.e, ["old"]⟩
    · simp [h2]
    · have : ¬ (isBaseKey ev n = true) := by rw [isBaseKey_iff]; exact fun h => h.elim h1 h2
      simp [h1, h2, this]

theorem resolve_bound {vars : Env} {live : Store} {n : Name} {v : Val} (h : vars.lookup n = some v) :
    resolve vars live n = v := by
  unfold resolve
  cases hr : n.rest.reverse with
  | nil =>
    have : n.rest = [] := by simpa using hr
    have hn : n = ⟨n.e, []⟩ := by cases n; simp_all
    unfold resolveR
    rw [← hn, h]
  | cons a r =>
    have : n.rest = (a :: r).reverse := by rw [← hr, List.reverse_reverse]
    have hn : n = ⟨n.e, (a :: r).reverse⟩ := by cases n; simp_all
    unfold resolveR
    rw [← hn, h]

/-! ## 3. hub invariants -/

/-- `notify_var_last` only holds subscribed entities and agrees with the state machine -/
def Good (cfgs : List STCfg) (h : Hub) : Prop :=
  ∀ e v, h.last.lookup e = some v → h.live.get e = v ∧ isKey cfgs e = true

/-- every (subscribable) name of the expression is *primed*: its entity has been notified at least once or does not
exist – exactly the situations in which `notify_var_get` binds it instead of leaving it to a later live read -/
def Primed (c : STCfg) (h : Hub) : Prop :=
  ∀ n ∈ c.exprNames, n.subscribable = true → h.last.lookup n.e ≠ none ∨ h.live.get n.e = none

/-- static well-formedness of a decorator: the expression's names are all watched (always true without `watch=`) and
have at most four parts -/
structure WfCfg (c : STCfg) : Prop where
  watched : ∀ n ∈ c.exprNames, n ∈ c.ident
  short : ∀ n ∈ c.exprNames, n.rest.length ≤ 2

theorem Store.get_put (s : Store) (e e' : String) (v : Option SVal) :
    (s.put e v).get e' = if e' = e then v else s.get e' := by
  unfold Store.get Store.put
  simp only [List.lookup]
  by_cases h : e' = e
  · subst h; simp
  · have : (e' == e) = false := by simpa using h
    simp [this, h]

theorem Store.lookup_put (s : Store) (e e' : String) (v : Option SVal) :
    (s.put e v).lookup e' = if e' = e then some v else s.lookup e' := by
  unfold Store.put
  simp only [List.lookup]
  by_cases h : e' = e
  · subst h; simp
  · have : (e' == e) = false := by simpa using h
    simp [this, h]

/-- what `Hub.apply` does when an event results -/
theorem apply_some {cfgs : List STCfg} {h h' : Hub} {o : Op} {ev : Ev} (ha : Hub.apply cfgs h o = (h', some ev)) :
    h.live.get o.e ≠ o.new ∧ ev = ⟨o.e, o.new, h.live.get o.e, o.ctx⟩ ∧
      h' = ⟨h.live.put o.e o.new, if isKey cfgs o.e then h.last.put o.e o.new else h.last⟩ := by
  unfold Hub.apply at ha
  by_cases hc : h.live.get o.e = o.new
  · simp [hc] at ha
  · simp only [hc, if_false, Prod.mk.injEq, Option.some.injEq] at ha
    exact ⟨hc, ha.2.symm, ha.1.symm⟩

theorem apply_none {cfgs : List STCfg} {h h' : Hub} {o : Op} (ha : Hub.apply cfgs h o = (h', none)) :
    h.live.get o.e = o.new ∧ h' = h := by
  unfold Hub.apply at ha
  by_cases hc : h.live.get o.e = o.new
  · simp only [hc, if_true, Prod.mk.injEq] at ha; exact ⟨hc, ha.1.symm⟩
  · simp [hc] at ha

theorem good_apply {cfgs : List STCfg} {h h' : Hub} {o : Op} {ev : Ev} (ha : Hub.apply cfgs h o = (h', some ev))
    (hg : Good cfgs h) : Good cfgs h' := by
  obtain ⟨_, _, rfl⟩ := apply_some ha
  intro e v hl
  by_cases hk : isKey cfgs o.e = true
  · simp only [hk, if_true, Store.lookup_put] at hl
    simp only [Store.get_put]
    by_cases he : e = o.e
    · subst he; simp only [if_true, Option.some.injEq] at hl; simp [hl, hk]
    · simp only [he, if_false] at hl ⊢; exact hg e v hl
  · simp only [hk] at hl
    simp only [Store.get_put]
    by_cases he : e = o.e
    · subst he; exact absurd (hg _ v hl).2 hk
    · simp only [he, if_false]; exact hg e v hl

theorem subscribed_isKey {cfgs : List STCfg} {c : STCfg} (hc : c ∈ cfgs) {e : String} (hs : c.subscribed e = true) :
    isKey cfgs e = true := by
  simp only [isKey, List.any_eq_true]; exact ⟨c, hc, hs⟩

theorem wf_subscribed {c : STCfg} (wf : WfCfg c) {n : Name} (hn : n ∈ c.exprNames) (hs : n.subscribable = true) :
    c.subscribed n.e = true := by
  simp only [STCfg.subscribed, List.any_eq_true, Bool.and_eq_true, beq_iff_eq]
  exact ⟨n, wf.watched n hn, hs, rfl⟩

theorem primed_apply {cfgs : List STCfg} {c : STCfg} {h h' : Hub} {o : Op} {ev : Ev} (hc : c ∈ cfgs) (wf : WfCfg c)
    (ha : Hub.apply cfgs h o = (h', some ev)) (hp : Primed c h) : Primed c h' := by
  obtain ⟨_, _, rfl⟩ := apply_some ha
  intro n hn hs
  by_cases he : n.e = o.e
  · left
    have hk : isKey cfgs o.e = true := he ▸ subscribed_isKey hc (wf_subscribed wf hn hs)
    simp [hk, Store.lookup_put, he]
  · rcases hp n hn hs with h1 | h1
    · left
      by_cases hk : isKey cfgs o.e = true
      · simp only [hk, if_true, Store.lookup_put, he, if_false]; exact h1
      · simp only [hk]; exact h1
    · right
      simp only [Store.get_put, he, if_false]; exact h1

/-! ## 4. the environment lemma -/

theorem exist_false_of_get_none {live : Store} {n : Name} (h : live.get n.e = none) : exist live n = false := by
  unfold exist
  rcases n.rest with _ | ⟨a, _ | ⟨b, r⟩⟩ <;> simp [h, getattr]

/-- **The binding of one name.**  On a good hub `notify_var_get` binds a name of the expression to its spec value –
or leaves it unbound, which happens exactly when its entity has never been notified and the name exists in the
state machine (it will then be read LIVE when the message is handled). -/
theorem nvg_spec {cfgs : List STCfg} {c : STCfg} {h' : Hub} {ev : Ev} (wf : WfCfg c)
    (hg : Good cfgs h') (hnew : h'.live.get ev.e = ev.new) {n : Name} (hn : n ∈ c.exprNames) :
    (mkMsg c h' ev).vars.lookup n = some (envVal h'.live ev n) ∨
      ((mkMsg c h' ev).vars.lookup n = none ∧ h'.last.lookup n.e = none ∧ exist h'.live n = true ∧
        n.subscribable = true) := by
  simp only [mkMsg]
  rw [nvg_lookup]
  have hid := wf.watched n hn
  have hlen := wf.short n hn
  obtain ⟨e, rest⟩ := n
  simp only at hlen
  unfold envVal
  rcases rest with _ | ⟨a, _ | ⟨b, _ | ⟨x, r⟩⟩⟩
  · -- `d.e`
    by_cases he : e = ev.e
    · subst he; simp
    · have hne : (⟨e, []⟩ : Name) ≠ ⟨ev.e, []⟩ := by simp [he]
      have hne2 : (⟨e, []⟩ : Name) ≠ ⟨ev.e, ["old"]⟩ := by simp
      simp only [hne, hne2, if_false, hid, if_true, he, nvgOne]
      cases hl : h'.last.lookup e with
      | some v => simp [(hg e v hl).1]
      | none =>
        cases hx : exist h'.live ⟨e, []⟩ with
        | true => right; simp [Name.subscribable]
        | false =>
          left
          have h1 : h'.live.get e = none := by simpa [exist] using hx
          simp [h1, Val.ofOpt]
  · -- `d.e.a`
    have hne : (⟨e, [a]⟩ : Name) ≠ ⟨ev.e, []⟩ := by simp
    by_cases hb : e = ev.e ∧ a = "old"
    · obtain ⟨he, ha⟩ := hb; subst he; subst ha; simp
    · have hne2 : (⟨e, [a]⟩ : Name) ≠ ⟨ev.e, ["old"]⟩ := by simpa using hb
      simp only [hne, hne2, if_false, hid, if_true, nvgOne]
      cases hl : h'.last.lookup e with
      | some v =>
        have hv := (hg e v hl).1
        by_cases he : e = ev.e
        · subst he
          have ha : a ≠ "old" := fun h => hb ⟨rfl, h⟩
          simp only [if_true, ha, if_false]
          rw [← hnew, hv]; simp
        · simp [he, hv]
      | none =>
        by_cases he : e = ev.e
        · subst he
          have ha : a ≠ "old" := fun h => hb ⟨rfl, h⟩
          cases hx : exist h'.live ⟨ev.e, [a]⟩ with
          | false =>
            left
            have h1 : getattr ev.new a = none := by simpa [exist, hnew] using hx
            simp [ha, h1, Val.ofAttr]
          | true => right; simp [Name.subscribable]
        · cases hx : exist h'.live ⟨e, [a]⟩ with
          | true => right; simp [Name.subscribable]
          | false =>
            left
            have h1 : getattr (h'.live.get e) a = none := by simpa [exist] using hx
            simp [he, h1, Val.ofAttr]
  · -- `d.e.x.a`
    have hne : (⟨e, [a, b]⟩ : Name) ≠ ⟨ev.e, []⟩ := by simp
    have hne2 : (⟨e, [a, b]⟩ : Name) ≠ ⟨ev.e, ["old"]⟩ := by simp
    simp only [hne, hne2, if_false, hid, if_true, nvgOne]
    left
    by_cases he : e = ev.e
    · subst he
      by_cases ha : a = "old" <;> simp [ha]
    · simp [he]
  · simp at hlen

/-- **Environment equality** for a message produced on a good, primed hub – for every later live state. -/
theorem envFor_msg {cfgs : List STCfg} {c : STCfg} {h' : Hub} {ev : Ev} (wf : WfCfg c)
    (hg : Good cfgs h') (hp : Primed c h') (hnew : h'.live.get ev.e = ev.new) (live : Store) :
    envFor c (mkMsg c h' ev).vars live = Spec.env c h'.live ev := by
  unfold envFor Spec.env
  apply List.map_congr_left
  intro n hn
  rcases nvg_spec wf hg hnew hn with h1 | ⟨_, hl, hx, hs⟩
  · rw [resolve_bound h1]
  · exfalso
    rcases hp n hn hs with h2 | h2
    · exact h2 hl
    · rw [exist_false_of_get_none h2] at hx; exact absurd hx (by simp)

/-- a name left unbound is read from the live state; if that is still the state right after the event (the message is
handled before anything else changes) the value read is the spec value -/
theorem resolve_unbound_live {vars : Env} {live : Store} {ev : Ev} {n : Name} (hnew : live.get ev.e = ev.new)
    (hl : vars.lookup n = none) (hx : exist live n = true) (hb : isBaseKey ev n = false) :
    resolve vars live n = envVal live ev n := by
  obtain ⟨e, rest⟩ := n
  unfold resolve envVal
  rcases rest with _ | ⟨a, _ | ⟨b, r⟩⟩
  · simp only [List.reverse_nil, resolveR, hl]
    have hne : e ≠ ev.e := by intro h; subst h; simp [isBaseKey] at hb
    simp only [exist, Option.isSome_iff_exists] at hx
    obtain ⟨s, hs⟩ := hx
    simp [hne, hs, Val.ofOpt]
  · have hr : [a].reverse = [a] := rfl
    simp only [hr, resolveR]
    rw [hl]
    simp only [exist] at hx
    simp only [List.isEmpty_nil, hx, Bool.and_self, if_true]
    by_cases he : e = ev.e
    · subst he
      have ha : a ≠ "old" := by intro h; subst h; simp [isBaseKey] at hb
      simp [ha, hnew]
    · simp [he]
  · simp [exist] at hx

/-- **Environment equality, settled case**: without any priming, if the message is handled while the state machine is
still as the event left it, the expression sees the spec environment. -/
theorem envFor_msg_settled {cfgs : List STCfg} {c : STCfg} {h' : Hub} {ev : Ev} (wf : WfCfg c)
    (hg : Good cfgs h') (hnew : h'.live.get ev.e = ev.new) :
    envFor c (mkMsg c h' ev).vars h'.live = Spec.env c h'.live ev := by
  unfold envFor Spec.env
  apply List.map_congr_left
  intro n hn
  rcases nvg_spec wf hg hnew hn with h1 | ⟨h0, _, hx, _⟩
  · rw [resolve_bound h1]
  · congr 1
    apply resolve_unbound_live hnew h0 hx
    cases hb : isBaseKey ev n with
    | false => rfl
    | true =>
      exfalso
      have := (isBaseKey_iff ev n).mp hb
      simp only [mkMsg] at h0
      rw [nvg_lookup] at h0
      rcases this with h | h <;> simp [h] at h0

/-! ## 5. one handled message = the spec's decision; the simulation invariant -/

/-- what the spec demands for one delivered event: a run iff it qualifies; an evaluation iff it is a watched change
that does not already match an any-change form (and there is an expression) -/
def specOutcome (c : STCfg) (store : Store) (ev : Ev) : Outcome :=
  ⟨if qualifies c store ev then some (mkRun c ev) else none,
   if !anyMatch c ev && watchedChange c ev && c.expr.isSome then some (Spec.env c store ev) else none⟩

/-- a handler agrees with the spec on every message built on a good, primed hub, whatever the live state is when the
message is finally handled -/
def HandlerOK (h : Handler) (cfgs : List STCfg) (c : STCfg) : Prop :=
  ∀ (hub : Hub) (ev : Ev) (live : Store), Good cfgs hub → Primed c hub → hub.live.get ev.e = ev.new →
    c.subscribed ev.e = true → h c live (mkMsg c hub ev) = specOutcome c hub.live ev

/-- a decorator without expression only reacts to its any-change forms (true without `watch=` unless an any-change
name ends in `.old`) – the fragment on which the PRE-FIX new subsystem's `_is_trig_ok` default did not matter
(no longer needed since fix `5a43b84`; kept for `new_prefix_handlerOK`) -/
def NoExprOK (c : STCfg) : Prop :=
  c.expr = none → ∀ ev : Ev, c.ident.any (changes ev) = true → c.anyNames.any (matchesAny ev) = true

theorem legacy_handle_eq (c : STCfg) (hub : Hub) (ev : Ev) (live : Store) (hsub : c.subscribed ev.e = true)
    (henv : envFor c (mkMsg c hub ev).vars live = Spec.env c hub.live ev) :
    Legacy.handle c live (mkMsg c hub ev) = specOutcome c hub.live ev := by
  unfold Legacy.handle specOutcome qualifies anyMatch watchedChange
  simp only [mkMsg, identAny_eq, identChanged_eq, hsub, Bool.true_and]
  simp only [mkMsg] at henv
  simp only [henv]
  cases hany : c.anyNames.any (matchesAny ev) <;> cases hchg : c.ident.any (changes ev) <;>
    cases hex : c.expr <;> simp [exprTrue, hex]
  rename_i f
  cases f (Spec.env c hub.live ev) <;> simp

theorem new_handleF_eq (fl : Bool) (c : STCfg) (hne : fl = true → NoExprOK c) (hub : Hub) (ev : Ev) (live : Store)
    (hsub : c.subscribed ev.e = true)
    (henv : envFor c (mkMsg c hub ev).vars live = Spec.env c hub.live ev) :
    New.handleF fl c live (mkMsg c hub ev) = specOutcome c hub.live ev := by
  unfold New.handleF New.isTrigOk specOutcome qualifies anyMatch watchedChange
  simp only [mkMsg, identAny_eq, identChanged_eq, hsub, Bool.true_and]
  simp only [mkMsg] at henv
  simp only [henv]
  cases fl with
  | false =>
    cases hany : c.anyNames.any (matchesAny ev) <;> cases hchg : c.ident.any (changes ev) <;>
      cases hex : c.expr <;> simp [exprTrue, hex]
  | true =>
    cases hany : c.anyNames.any (matchesAny ev) <;> cases hchg : c.ident.any (changes ev) <;>
      cases hex : c.expr <;> simp [exprTrue, hex]
    have := hne rfl hex ev hchg
    rw [hany] at this
    exact absurd this (by simp)

/-- the new subsystem as it is now (after fix `5a43b84`) agrees with the spec without any side condition -/
theorem new_handle_eq (c : STCfg) (hub : Hub) (ev : Ev) (live : Store)
    (hsub : c.subscribed ev.e = true)
    (henv : envFor c (mkMsg c hub ev).vars live = Spec.env c hub.live ev) :
    New.handle c live (mkMsg c hub ev) = specOutcome c hub.live ev :=
  new_handleF_eq false c (fun h => absurd h (by simp)) hub ev live hsub henv

theorem legacy_handlerOK (cfgs : List STCfg) (c : STCfg) (wf : WfCfg c) : HandlerOK Legacy.handle cfgs c :=
  fun hub ev live hg hp hnew hsub => legacy_handle_eq c hub ev live hsub (envFor_msg wf hg hp hnew live)

theorem new_handlerOK (cfgs : List STCfg) (c : STCfg) (wf : WfCfg c) :
    HandlerOK New.handle cfgs c :=
  fun hub ev live hg hp hnew hsub => new_handle_eq c hub ev live hsub (envFor_msg wf hg hp hnew live)

/-- the pre-fix handler needed the side condition `NoExprOK` -/
theorem new_prefix_handlerOK (cfgs : List STCfg) (c : STCfg) (wf : WfCfg c) (hne : NoExprOK c) :
    HandlerOK New.handlePreFix cfgs c :=
  fun hub ev live hg hp hnew hsub =>
    new_handleF_eq true c (fun _ => hne) hub ev live hsub (envFor_msg wf hg hp hnew live)

/-- the settled counterpart of `HandlerOK`: no priming, but the message is handled on the live state of its event -/
def HandlerSettledOK (h : Handler) (cfgs : List STCfg) (c : STCfg) : Prop :=
  ∀ (hub : Hub) (ev : Ev), Good cfgs hub → hub.live.get ev.e = ev.new → c.subscribed ev.e = true →
    h c hub.live (mkMsg c hub ev) = specOutcome c hub.live ev

theorem legacy_handlerSettledOK (cfgs : List STCfg) (c : STCfg) (wf : WfCfg c) :
    HandlerSettledOK Legacy.handle cfgs c :=
  fun hub ev hg hnew hsub => legacy_handle_eq c hub ev hub.live hsub (envFor_msg_settled wf hg hnew)

theorem new_handlerSettledOK (cfgs : List STCfg) (c : STCfg) (wf : WfCfg c) :
    HandlerSettledOK New.handle cfgs c :=
  fun hub ev hg hnew hsub => new_handle_eq c hub ev hub.live hsub (envFor_msg_settled wf hg hnew)

theorem runsOf_logRun (i j : Nat) (o : Outcome) (log : List (Nat × Run)) :
    runsOf i (logRun j o log) = if j = i then runsOf i log ++ o.run.toList else runsOf i log := by
  unfold logRun runsOf
  cases o.run with
  | none => simp
  | some r =>
    by_cases h : j = i
    · subst h; simp
    · have : (j == i) = false := by simpa using h
      simp [List.filter_append, this, h]

/-- runs still owed by the messages waiting in the queue (they are live-independent, so any live state serves) -/
def pendRuns (h : Handler) (c : STCfg) (q : List Msg) : List Run := q.filterMap (fun m => (h c [] m).run)
def pendEvals (h : Handler) (c : STCfg) (q : List Msg) : List Env := q.filterMap (fun m => (h c [] m).eval)

/-- the simulation invariant of decorator `i` after some prefix of a schedule: `R` / `E` are the spec's runs /
evaluations for the operations seen so far -/
structure Inv (h : Handler) (cfgs : List STCfg) (i : Nat) (c : STCfg) (s : Sys) (R : List Run) (E : List Env) :
    Prop where
  good : Good cfgs s.hub
  primed : Primed c s.hub
  indep : ∀ m ∈ (s.ts i).q, ∀ live, h c live m = h c [] m
  runs : runsOf i s.log ++ pendRuns h c (s.ts i).q = R
  evals : (s.ts i).evals ++ pendEvals h c (s.ts i).q = E

/-- increments of the spec for one operation -/
def dRuns (c : STCfg) (st : Store) (o : Op) : List Run :=
  match eventOf st o with
  | none => []
  | some ev => if qualifies c (st.put o.e o.new) ev then [mkRun c ev] else []

def dEvals (c : STCfg) (st : Store) (o : Op) : List Env :=
  match eventOf st o with
  | none => []
  | some ev => if !anyMatch c ev && watchedChange c ev && c.expr.isSome then [Spec.env c (st.put o.e o.new) ev] else []

def nextStore (st : Store) (o : Op) : Store :=
  match eventOf st o with
  | none => st
  | some _ => st.put o.e o.new

theorem stRuns_cons (c : STCfg) (st : Store) (o : Op) (ops : List Op) :
    stRuns c st (o :: ops) = dRuns c st o ++ stRuns c (nextStore st o) ops := by
  simp only [stRuns, dRuns, nextStore]
  cases eventOf st o <;> simp

theorem stEvals_cons (c : STCfg) (st : Store) (o : Op) (ops : List Op) :
    stEvals c st (o :: ops) = dEvals c st o ++ stEvals c (nextStore st o) ops := by
  simp only [stEvals, dEvals, nextStore]
  cases eventOf st o <;> simp

theorem not_subscribed_quiet {c : STCfg} {ev : Ev} (hs : c.subscribed ev.e = false) (st : Store) :
    qualifies c st ev = false ∧ (!anyMatch c ev && watchedChange c ev && c.expr.isSome) = false := by
  have hw : watchedChange c ev = false := by
    cases h : watchedChange c ev with
    | false => rfl
    | true => rw [watchedChange_subscribed h] at hs; exact absurd hs (by simp)
  simp [qualifies, anyMatch, hs, hw]

theorem inv_op {h : Handler} {cfgs : List STCfg} {i : Nat} {c : STCfg} (hi : cfgs[i]? = some c)
    (hok : HandlerOK h cfgs c) (wf : WfCfg c) {s : Sys} {R : List Run} {E : List Env} (o : Op)
    (inv : Inv h cfgs i c s R E) :
    Inv h cfgs i c (step h cfgs s (.op o)) (R ++ dRuns c s.hub.live o) (E ++ dEvals c s.hub.live o) ∧
      (step h cfgs s (.op o)).hub.live = nextStore s.hub.live o := by
  have hc : c ∈ cfgs := List.mem_of_getElem? hi
  simp only [step]
  cases ha : Hub.apply cfgs s.hub o with
  | mk hub' oev =>
    cases oev with
    | none =>
      obtain ⟨hsame, rfl⟩ := apply_none ha
      have he : eventOf s.hub.live o = none := by simp [eventOf, hsame]
      simp only [dRuns, dEvals, nextStore, he, List.append_nil]
      exact ⟨⟨inv.good, inv.primed, inv.indep, inv.runs, inv.evals⟩, trivial⟩
    | some ev =>
      obtain ⟨hdiff, hev, hhub⟩ := apply_some ha
      have he : eventOf s.hub.live o = some ev := by simp [eventOf, hdiff, hev]
      have hg' := good_apply ha inv.good
      have hp' := primed_apply hc wf ha inv.primed
      have hlive : hub'.live = s.hub.live.put o.e o.new := by rw [hhub]
      have hnew : hub'.live.get ev.e = ev.new := by rw [hlive, hev]; simp [Store.get_put]
      simp only [dRuns, dEvals, nextStore, he]
      refine ⟨?_, hlive⟩
      cases hs : c.subscribed ev.e with
      | false =>
        have hq := not_subscribed_quiet hs (s.hub.live.put o.e o.new)
        have hts : (enqueue cfgs hub' ev s.ts) i = s.ts i := by simp [enqueue, hi, hs]
        refine ⟨hg', hp', ?_, ?_, ?_⟩
        · simp only [hts]; exact inv.indep
        · simp only [hts, hq.1]; simpa using inv.runs
        · simp only [hts, hq.2]; simpa using inv.evals
      | true =>
        have hts : (enqueue cfgs hub' ev s.ts) i = { s.ts i with q := (s.ts i).q ++ [mkMsg c hub' ev] } := by
          simp [enqueue, hi, hs]
        have hm : ∀ live, h c live (mkMsg c hub' ev) = specOutcome c hub'.live ev :=
          fun live => hok hub' ev live hg' hp' hnew hs
        refine ⟨hg', hp', ?_, ?_, ?_⟩
        · simp only [hts]
          intro m hmem live
          rcases List.mem_append.mp hmem with h1 | h1
          · exact inv.indep m h1 live
          · have : m = mkMsg c hub' ev := by simpa using h1
            subst this; rw [hm live, hm []]
        · simp only [hts, pendRuns, List.filterMap_append, ← List.append_assoc]
          have := inv.runs
          simp only [pendRuns] at this
          rw [this]
          congr 1
          simp only [List.filterMap_cons, List.filterMap_nil, hm [], specOutcome, hlive]
          cases qualifies c (s.hub.live.put o.e o.new) ev <;> simp
        · simp only [hts, pendEvals, List.filterMap_append, ← List.append_assoc]
          have := inv.evals
          simp only [pendEvals] at this
          rw [this]
          congr 1
          simp only [List.filterMap_cons, List.filterMap_nil, hm [], specOutcome, hlive]
          cases (!anyMatch c ev && watchedChange c ev && c.expr.isSome) <;> simp

theorem inv_deq {h : Handler} {cfgs : List STCfg} {i : Nat} {c : STCfg} (hi : cfgs[i]? = some c)
    {s : Sys} {R : List Run} {E : List Env} (j : Nat) (inv : Inv h cfgs i c s R E) :
    Inv h cfgs i c (step h cfgs s (.deq j)) R E ∧ (step h cfgs s (.deq j)).hub = s.hub := by
  simp only [step]
  cases hj : cfgs[j]? with
  | none => exact ⟨inv, rfl⟩
  | some cj =>
    cases hq : (s.ts j).q with
    | nil => exact ⟨inv, rfl⟩
    | cons m q =>
      refine ⟨?_, rfl⟩
      by_cases hji : j = i
      · subst hji
        have hcj : cj = c := by rw [hi] at hj; exact (Option.some.inj hj).symm
        subst hcj
        have hm := inv.indep m (by rw [hq]; simp) s.hub.live
        refine ⟨inv.good, inv.primed, ?_, ?_, ?_⟩
        · simp only [if_true]
          intro m' hm' live
          exact inv.indep m' (by rw [hq]; exact List.mem_cons_of_mem _ hm') live
        · simp only [if_true, runsOf_logRun, hm]
          have := inv.runs
          rw [hq] at this
          simp only [pendRuns, List.filterMap_cons] at this ⊢
          rw [← this]
          cases (h cj [] m).run <;> simp
        · simp only [if_true, hm]
          have := inv.evals
          rw [hq] at this
          simp only [pendEvals, List.filterMap_cons, addEval] at this ⊢
          rw [← this]
          cases (h cj [] m).eval <;> simp
      · have hij : i ≠ j := fun h => hji h.symm
        refine ⟨inv.good, inv.primed, ?_, ?_, ?_⟩
        · simp only [hij, if_false]; exact inv.indep
        · simp only [hij, if_false, runsOf_logRun, hji]; exact inv.runs
        · simp only [hij, if_false]; exact inv.evals

/-- **The simulation theorem** behind `C04_legacy` / `C04_new`: along ANY schedule (any interleaving of listener and
loop steps) the runs already started plus the runs owed by queued messages are exactly the spec's runs of the
operations issued so far – same for the evaluations. -/
theorem inv_exec {h : Handler} {cfgs : List STCfg} {i : Nat} {c : STCfg} (hi : cfgs[i]? = some c)
    (hok : HandlerOK h cfgs c) (wf : WfCfg c) (steps : List Step) :
    ∀ (s : Sys) (R : List Run) (E : List Env), Inv h cfgs i c s R E →
      Inv h cfgs i c (exec h cfgs s steps) (R ++ stRuns c s.hub.live (opsOf steps))
        (E ++ stEvals c s.hub.live (opsOf steps)) := by
  induction steps with
  | nil => intro s R E inv; simpa [exec, opsOf, stRuns, stEvals] using inv
  | cons st rest ih =>
    intro s R E inv
    cases st with
    | op o =>
      obtain ⟨inv', hl⟩ := inv_op hi hok wf o inv
      have := ih _ _ _ inv'
      simp only [exec, List.foldl_cons, opsOf, stRuns_cons, stEvals_cons] at this ⊢
      rw [hl] at this
      simpa [List.append_assoc] using this
    | deq j =>
      obtain ⟨inv', hh⟩ := inv_deq hi j inv
      have := ih _ _ _ inv'
      simp only [exec, List.foldl_cons, opsOf] at this ⊢
      rw [hh] at this
      exact this

theorem inv_init (h : Handler) (cfgs : List STCfg) (i : Nat) (c : STCfg) (live : Store)
    (hp : ∀ n ∈ c.exprNames, n.subscribable = true → live.get n.e = none) :
    Inv h cfgs i c (init live) [] [] := by
  refine ⟨?_, ?_, ?_, ?_, ?_⟩
  · intro e v hl; simp [init] at hl
  · intro n hn hs; right; exact hp n hn hs
  · intro m hm; simp [init] at hm
  · simp [init, runsOf, pendRuns]
  · simp [init, pendEvals]

/-! ## 6. settled schedules (every operation is fully handled before the next one) -/

theorem exec_append (h : Handler) (cfgs : List STCfg) (s : Sys) (a b : List Step) :
    exec h cfgs s (a ++ b) = exec h cfgs (exec h cfgs s a) b := by
  simp [exec, List.foldl_append]

theorem step_deq_other {h : Handler} {cfgs : List STCfg} {i j : Nat} (hji : j ≠ i) (s : Sys) :
    (step h cfgs s (.deq j)).hub = s.hub ∧ (step h cfgs s (.deq j)).ts i = s.ts i ∧
      runsOf i (step h cfgs s (.deq j)).log = runsOf i s.log := by
  simp only [step]
  cases cfgs[j]? with
  | none => exact ⟨rfl, rfl, rfl⟩
  | some cj =>
    cases (s.ts j).q with
    | nil => exact ⟨rfl, rfl, rfl⟩
    | cons m q =>
      have hij : i ≠ j := fun h => hji h.symm
      refine ⟨rfl, ?_, ?_⟩
      · simp [hij]
      · simp [runsOf_logRun, hji]

theorem step_deq_nil {h : Handler} {cfgs : List STCfg} {i : Nat} (s : Sys) (hq : (s.ts i).q = []) :
    step h cfgs s (.deq i) = s := by
  simp only [step]
  cases cfgs[i]? <;> simp [hq]

/-- draining while decorator `i` has nothing queued changes nothing for it -/
theorem drain_empty {h : Handler} {cfgs : List STCfg} {i : Nat} (js : List Nat) :
    ∀ s : Sys, (s.ts i).q = [] →
      (exec h cfgs s (js.map Step.deq)).hub = s.hub ∧ (exec h cfgs s (js.map Step.deq)).ts i = s.ts i ∧
        runsOf i (exec h cfgs s (js.map Step.deq)).log = runsOf i s.log := by
  induction js with
  | nil => intro s _; exact ⟨rfl, rfl, rfl⟩
  | cons j js ih =>
    intro s hq
    simp only [List.map_cons, exec, List.foldl_cons]
    by_cases hji : j = i
    · subst hji
      rw [step_deq_nil s hq]
      exact ih s hq
    · obtain ⟨h1, h2, h3⟩ := step_deq_other (h := h) (cfgs := cfgs) hji s
      have := ih (step h cfgs s (.deq j)) (by rw [h2]; exact hq)
      simp only [exec] at this
      rw [h1, h2, h3] at this
      exact this

/-- draining with exactly one message queued handles it once, on the unchanged hub -/
theorem drain_one {h : Handler} {cfgs : List STCfg} {i : Nat} {c : STCfg} (hi : cfgs[i]? = some c) (js : List Nat) :
    ∀ (s : Sys) (m : Msg), i ∈ js → (s.ts i).q = [m] →
      (exec h cfgs s (js.map Step.deq)).hub = s.hub ∧ ((exec h cfgs s (js.map Step.deq)).ts i).q = [] ∧
        ((exec h cfgs s (js.map Step.deq)).ts i).evals = addEval (h c s.hub.live m) (s.ts i).evals ∧
        runsOf i (exec h cfgs s (js.map Step.deq)).log = runsOf i s.log ++ (h c s.hub.live m).run.toList := by
  induction js with
  | nil => intro s m hmem; simp at hmem
  | cons j js ih =>
    intro s m hmem hq
    simp only [List.map_cons, exec, List.foldl_cons]
    by_cases hji : j = i
    · subst hji
      have hs : step h cfgs s (.deq j) =
          { s with ts := fun k => if k = j then ⟨[], addEval (h c s.hub.live m) (s.ts j).evals⟩ else s.ts k,
                   log := logRun j (h c s.hub.live m) s.log } := by
        simp only [step, hi, hq]
      obtain ⟨h1, h2, h3⟩ := drain_empty (h := h) (cfgs := cfgs) (i := j) js (step h cfgs s (.deq j))
        (by rw [hs]; simp)
      simp only [exec] at h1 h2 h3
      rw [h1, h2, h3, hs]
      simp [runsOf_logRun]
    · obtain ⟨h1, h2, h3⟩ := step_deq_other (h := h) (cfgs := cfgs) hji s
      have hmem' : i ∈ js := by
        rcases List.mem_cons.mp hmem with h | h
        · exact absurd h.symm hji
        · exact h
      have := ih (step h cfgs s (.deq j)) m hmem' (by rw [h2]; exact hq)
      simp only [exec] at this
      rw [h1, h2, h3] at this
      exact this

/-- **Settled histories need no priming**: handled one at a time, every operation yields exactly the spec's runs and
evaluations. -/
theorem settled_exec {h : Handler} {cfgs : List STCfg} {i : Nat} {c : STCfg} (hi : cfgs[i]? = some c)
    (hok : HandlerSettledOK h cfgs c) (ops : List Op) :
    ∀ s : Sys, Good cfgs s.hub → (s.ts i).q = [] →
      runsOf i (exec h cfgs s (settled cfgs.length ops)).log = runsOf i s.log ++ stRuns c s.hub.live ops ∧
      ((exec h cfgs s (settled cfgs.length ops)).ts i).evals = (s.ts i).evals ++ stEvals c s.hub.live ops ∧
      ((exec h cfgs s (settled cfgs.length ops)).ts i).q = [] := by
  have hilt : i < cfgs.length := by
    have := List.getElem?_eq_some_iff.mp hi
    exact this.1
  have hmem : i ∈ List.range cfgs.length := List.mem_range.mpr hilt
  have hc : c ∈ cfgs := List.mem_of_getElem? hi
  induction ops with
  | nil => intro s _ hq; simp [settled, exec, stRuns, stEvals, hq]
  | cons o ops ih =>
    intro s hg hq
    have hsplit : settled cfgs.length (o :: ops) =
        [Step.op o] ++ ((List.range cfgs.length).map Step.deq ++ settled cfgs.length ops) := by
      simp [settled]
    rw [hsplit, exec_append, exec_append, stRuns_cons, stEvals_cons]
    -- the listener step
    have hop : exec h cfgs s [Step.op o] = step h cfgs s (.op o) := rfl
    rw [hop]
    simp only [step]
    cases ha : Hub.apply cfgs s.hub o with
    | mk hub' oev =>
      cases oev with
      | none =>
        obtain ⟨hsame, rfl⟩ := apply_none ha
        have he : eventOf s.hub.live o = none := by simp [eventOf, hsame]
        simp only [dRuns, dEvals, nextStore, he, List.nil_append]
        obtain ⟨d1, d2, d3⟩ := drain_empty (h := h) (cfgs := cfgs) (i := i) (List.range cfgs.length) s hq
        obtain ⟨r1, r2, r3⟩ := ih (exec h cfgs s ((List.range cfgs.length).map Step.deq))
          (by rw [d1]; exact hg) (by rw [d2]; exact hq)
        rw [d1, d2, d3] at *
        exact ⟨r1, r2, r3⟩
      | some ev =>
        obtain ⟨hdiff, hev, hhub⟩ := apply_some ha
        have he : eventOf s.hub.live o = some ev := by simp [eventOf, hdiff, hev]
        have hg' := good_apply ha hg
        have hlive : hub'.live = s.hub.live.put o.e o.new := by rw [hhub]
        have hnew : hub'.live.get ev.e = ev.new := by rw [hlive, hev]; simp [Store.get_put]
        simp only [dRuns, dEvals, nextStore, he]
        cases hs : c.subscribed ev.e with
        | false =>
          have hqq := not_subscribed_quiet hs (s.hub.live.put o.e o.new)
          let s1 : Sys := { s with hub := hub', ts := enqueue cfgs hub' ev s.ts }
          have hts : s1.ts i = s.ts i := by simp [s1, enqueue, hi, hs]
          obtain ⟨d1, d2, d3⟩ := drain_empty (h := h) (cfgs := cfgs) (i := i) (List.range cfgs.length) s1
            (by rw [hts]; exact hq)
          obtain ⟨r1, r2, r3⟩ := ih (exec h cfgs s1 ((List.range cfgs.length).map Step.deq))
            (by rw [d1]; exact hg') (by rw [d2, hts]; exact hq)
          rw [d1, d2, d3, hts] at *
          simp only [hqq.1, hqq.2, Bool.false_eq_true, if_false, List.nil_append]
          exact ⟨by rw [r1, ← hlive], by rw [r2, ← hlive], r3⟩
        | true =>
          let s1 : Sys := { s with hub := hub', ts := enqueue cfgs hub' ev s.ts }
          have hts : s1.ts i = { s.ts i with q := [mkMsg c hub' ev] } := by simp [s1, enqueue, hi, hs, hq]
          have hm := hok hub' ev hg' hnew hs
          obtain ⟨d1, d2, d3, d4⟩ := drain_one (h := h) hi (List.range cfgs.length) s1 (mkMsg c hub' ev) hmem
            (by rw [hts])
          obtain ⟨r1, r2, r3⟩ := ih (exec h cfgs s1 ((List.range cfgs.length).map Step.deq))
            (by rw [d1]; exact hg') d2
          have hh : s1.hub = hub' := rfl
          have hl1 : s1.log = s.log := rfl
          rw [d1, d3, d4, hh, hm, hts, hl1] at *
          simp only [specOutcome, hlive] at r1 r2 ⊢
          have hl2 : s1.hub.live = s.hub.live.put o.e o.new := hlive
          refine ⟨?_, ?_, r3⟩
          · rw [r1]
            cases qualifies c (s.hub.live.put o.e o.new) ev <;> simp [hl2]
          · rw [r2]
            cases (!anyMatch c ev && watchedChange c ev && c.expr.isSome) <;> simp [addEval, hl2]

/-! ## 7. settled schedules, all decorators at once: the function-level order -/

/-- the run decorator `j` starts when it takes the head of its queue in state `s` -/
def outRun (h : Handler) (cfgs : List STCfg) (s : Sys) (j : Nat) : Option (Nat × Run) :=
  match cfgs[j]?, (s.ts j).q with
  | some c, m :: _ => ((h c s.hub.live m).run).map (fun r => (j, r))
  | _, _ => none

theorem filterMap_congr' {α β} {f g : α → Option β} {l : List α} (h : ∀ x ∈ l, f x = g x) :
    l.filterMap f = l.filterMap g := by
  induction l with
  | nil => rfl
  | cons x xs ih =>
    simp only [List.filterMap_cons, h x (by simp)]
    rw [ih (fun y hy => h y (List.mem_cons_of_mem _ hy))]

theorem step_deq_log (h : Handler) (cfgs : List STCfg) (s : Sys) (j : Nat) (c : STCfg) (hc : cfgs[j]? = some c) :
    (step h cfgs s (.deq j)).hub = s.hub ∧
      (step h cfgs s (.deq j)).log = s.log ++ (outRun h cfgs s j).toList ∧
      (∀ k, k ≠ j → (step h cfgs s (.deq j)).ts k = s.ts k) ∧
      ((step h cfgs s (.deq j)).ts j).q = (s.ts j).q.tail := by
  simp only [step, outRun, hc]
  cases hq : (s.ts j).q with
  | nil => simp [hq]
  | cons m q =>
    refine ⟨rfl, ?_, ?_, ?_⟩
    · simp only [logRun]
      cases (h c s.hub.live m).run <;> simp
    · intro k hk; simp [hk]
    · simp

/-- one pass over distinct decorators, each holding at most one message: every one of them handles its message on the
unchanged hub, the log grows by their runs in the order of the pass, all visited queues end up empty -/
theorem drain_all {h : Handler} {cfgs : List STCfg} (js : List Nat) (hnd : js.Nodup)
    (hjs : ∀ j ∈ js, j < cfgs.length) :
    ∀ s : Sys, (∀ j ∈ js, (s.ts j).q.length ≤ 1) →
      (exec h cfgs s (js.map Step.deq)).hub = s.hub ∧
      (exec h cfgs s (js.map Step.deq)).log = s.log ++ js.filterMap (outRun h cfgs s) ∧
      (∀ j ∈ js, ((exec h cfgs s (js.map Step.deq)).ts j).q = []) ∧
      (∀ k, k ∉ js → (exec h cfgs s (js.map Step.deq)).ts k = s.ts k) := by
  induction js with
  | nil => intro s _; simp [exec]
  | cons j js ih =>
    intro s hlen
    have hnd' := List.nodup_cons.mp hnd
    have hjlt : j < cfgs.length := hjs j (by simp)
    have hc : cfgs[j]? = some cfgs[j] := List.getElem?_eq_getElem hjlt
    obtain ⟨s1, s2, s3, s4⟩ := step_deq_log h cfgs s j _ hc
    have hlen' : ∀ k ∈ js, ((step h cfgs s (.deq j)).ts k).q.length ≤ 1 := by
      intro k hk
      have hkj : k ≠ j := fun e => hnd'.1 (e ▸ hk)
      rw [s3 k hkj]; exact hlen k (List.mem_cons_of_mem _ hk)
    obtain ⟨r1, r2, r3, r4⟩ := ih hnd'.2 (fun k hk => hjs k (List.mem_cons_of_mem _ hk))
      (step h cfgs s (.deq j)) hlen'
    simp only [List.map_cons, exec, List.foldl_cons] at r1 r2 r3 r4 ⊢
    refine ⟨by rw [r1, s1], ?_, ?_, ?_⟩
    · rw [r2, s2, List.filterMap_cons]
      have hcongr : js.filterMap (outRun h cfgs (step h cfgs s (.deq j))) = js.filterMap (outRun h cfgs s) := by
        apply filterMap_congr'
        intro k hk
        have hkj : k ≠ j := fun e => hnd'.1 (e ▸ hk)
        simp only [outRun, s1, s3 k hkj]
      rw [hcongr]
      cases outRun h cfgs s j <;> simp
    · intro k hk
      rcases List.mem_cons.mp hk with rfl | hk'
      · rw [r4 k hnd'.1, s4]
        have := hlen k (by simp)
        cases hq : (s.ts k).q with
        | nil => rfl
        | cons m q => rw [hq] at this; cases q <;> simp_all
      · exact r3 k hk'
    · intro k hk
      have hkj : k ≠ j := fun e => hk (e ▸ List.mem_cons_self)
      have hk' : k ∉ js := fun e => hk (List.mem_cons_of_mem _ e)
      rw [r4 k hk', s3 k hkj]

/-- every decorator of the list is well-formed and its handler agrees with the spec on settled messages -/
def AllSettledOK (h : Handler) (cfgs : List STCfg) : Prop :=
  ∀ (j : Nat) (c : STCfg), cfgs[j]? = some c → HandlerSettledOK h cfgs c

/-- **Function-level order, settled**: handled one at a time, the whole log is the spec log – event by event, the
qualifying decorators in index order. -/
theorem settled_log {h : Handler} {cfgs : List STCfg} (hok : AllSettledOK h cfgs) (ops : List Op) :
    ∀ s : Sys, Good cfgs s.hub → (∀ j, (s.ts j).q = []) →
      (exec h cfgs s (settled cfgs.length ops)).log = s.log ++ Spec.log cfgs s.hub.live ops := by
  induction ops with
  | nil => intro s _ _; simp [settled, exec, Spec.log]
  | cons o ops ih =>
    intro s hg hq
    have hsplit : settled cfgs.length (o :: ops) =
        [Step.op o] ++ ((List.range cfgs.length).map Step.deq ++ settled cfgs.length ops) := by
      simp [settled]
    rw [hsplit, exec_append, exec_append]
    have hop : exec h cfgs s [Step.op o] = step h cfgs s (.op o) := rfl
    rw [hop]
    simp only [step, Spec.log]
    cases ha : Hub.apply cfgs s.hub o with
    | mk hub' oev =>
      cases oev with
      | none =>
        obtain ⟨hsame, rfl⟩ := apply_none ha
        have he : eventOf s.hub.live o = none := by simp [eventOf, hsame]
        simp only [he]
        obtain ⟨d1, d2, d3, d4⟩ := drain_all (h := h) (cfgs := cfgs) (List.range cfgs.length) List.nodup_range
          (fun j hj => List.mem_range.mp hj) s (by intro j _; rw [hq j]; simp)
        have hqs : ∀ j, ((exec h cfgs s ((List.range cfgs.length).map Step.deq)).ts j).q = [] := by
          intro j
          by_cases hj : j ∈ List.range cfgs.length
          · exact d3 j hj
          · rw [d4 j hj]; exact hq j
        rw [ih _ (by rw [d1]; exact hg) hqs, d1, d2]
        have : (List.range cfgs.length).filterMap (outRun h cfgs s) = [] := by
          rw [List.filterMap_eq_nil_iff]
          intro j _
          simp [outRun, hq j]
        rw [this, List.append_nil]
      | some ev =>
        obtain ⟨hdiff, hev, hhub⟩ := apply_some ha
        have he : eventOf s.hub.live o = some ev := by simp [eventOf, hdiff, hev]
        have hg' := good_apply ha hg
        have hlive : hub'.live = s.hub.live.put o.e o.new := by rw [hhub]
        have hnew : hub'.live.get ev.e = ev.new := by rw [hlive, hev]; simp [Store.get_put]
        simp only [he]
        let s1 : Sys := { s with hub := hub', ts := enqueue cfgs hub' ev s.ts }
        have hq1 : ∀ j, (s1.ts j).q =
            match cfgs[j]? with
            | some c => if c.subscribed ev.e then [mkMsg c hub' ev] else []
            | none => [] := by
          intro j
          simp only [s1, enqueue]
          cases hc : cfgs[j]? with
          | none => simp [hq j]
          | some c => by_cases hs : c.subscribed ev.e = true <;> simp [hs, hq j]
        obtain ⟨d1, d2, d3, d4⟩ := drain_all (h := h) (cfgs := cfgs) (List.range cfgs.length) List.nodup_range
          (fun j hj => List.mem_range.mp hj) s1
          (by
            intro j _; rw [hq1 j]
            cases cfgs[j]? with
            | none => simp
            | some c => by_cases hs : c.subscribed ev.e = true <;> simp [hs])
        have hqs : ∀ j, ((exec h cfgs s1 ((List.range cfgs.length).map Step.deq)).ts j).q = [] := by
          intro j
          by_cases hj : j ∈ List.range cfgs.length
          · exact d3 j hj
          · rw [d4 j hj, hq1 j]
            have : cfgs[j]? = none := by
              rw [List.getElem?_eq_none_iff]; simpa using hj
            simp [this]
        have hround : (List.range cfgs.length).filterMap (outRun h cfgs s1) =
            roundRuns cfgs (s.hub.live.put o.e o.new) ev := by
          unfold roundRuns
          apply filterMap_congr'
          intro j _
          simp only [outRun, hq1 j]
          cases hc : cfgs[j]? with
          | none => rfl
          | some c =>
            by_cases hs : c.subscribed ev.e = true
            · have hm := hok j c hc hub' ev hg' hnew hs
              have hh : s1.hub = hub' := rfl
              rw [hlive] at hm
              simp only [hs, if_true, hh, hlive, hm, specOutcome]
              cases qualifies c (s.hub.live.put o.e o.new) ev <;> simp
            · have hs' : c.subscribed ev.e = false := by simpa using hs
              have := (not_subscribed_quiet hs' (s.hub.live.put o.e o.new)).1
              simp [hs', this]
        have hh : s1.hub = hub' := rfl
        have hl1 : s1.log = s.log := rfl
        rw [ih _ (by rw [d1]; exact hg') hqs, d1, d2, hround, hh, hl1, hlive, List.append_assoc]

end PsModel.C04
