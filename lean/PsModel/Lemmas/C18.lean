import PsModel.Model.C18
import PsModel.Spec.C18
/-! # C18 helper lemmas -/
namespace PsModel.C18

theorem run_append (c : Cfg) (s : FState) (a b : List Frame) : runC c s (a ++ b) = runC c (runC c s a) b := by
  simp [runC, List.foldl_append]

theorem run_cons (c : Cfg) (s : FState) (f : Frame) (r : List Frame) : runC c s (f :: r) = runC c (stepC c s f) r := rfl

theorem run_others (c : Cfg) (s : FState) (n : Nat) : runC c s (List.replicate n .other) = s := by
  induction n with
  | zero => rfl
  | succ k ih => rw [List.replicate_succ, run_cons]; exact ih

/-- a further `aeval` frame of the evaluator the formatter is already in changes nothing -/
theorem enterCtx_same (c : Cfg) (s : FState) (ctx : Nat) (h : s.curCtx = some ctx) (he : s.funcEntered = false) :
    enterCtx c s ctx = s := by
  cases s
  simp_all [enterCtx]

/-- the first `aeval` frame after an `EvalFunc.call` frame never resets (whatever the evaluator) -/
theorem enterCtx_entered (c : Cfg) (s : FState) (ctx : Nat) (he : s.funcEntered = true) :
    enterCtx c s ctx = { s with curCtx := some ctx, funcEntered := false } := by
  cases s
  simp only [enterCtx]
  split
  · simp_all
  · simp_all

/-- the first `aeval` frame of all -/
theorem enterCtx_first (c : Cfg) (s : FState) (ctx : Nat) (h : s.curCtx = none) :
    enterCtx c s ctx = { s with curCtx := some ctx, funcEntered := false } := by
  cases s
  simp_all [enterCtx]

/-- an `aeval` frame of another evaluator that was not entered through `EvalFunc.call`: the current code starts afresh -/
theorem enterCtx_reset (s : FState) (c0 ctx : Nat) (h : s.curCtx = some c0) (hne : c0 ≠ ctx) (he : s.funcEntered = false) :
    enterCtx Cfg.current s ctx = { s with curFunc := none, curFile := none, curCtx := some ctx, funcEntered := false } := by
  cases s
  simp_all [enterCtx, Cfg.current]

/-- inside one activation every further `aeval` frame only refines the line of the entry on top -/
theorem run_aevals_refine (c : Cfg) (f : String) (g : Option String) (ctx : Nat) (cf cn : String) (noise : Nat) (ls : List Nat) :
    ∀ (s : FState) (e0 : Entry) (R : List Entry), s.curFile = some f → s.curFunc = g →
      s.curCtx = some ctx → s.funcEntered = false →
      s.rstack = e0 :: R → e0.file = f → e0.func = entryFunc g f cn → e0.isReal = false → e0.line = s.line →
      ∃ l, runC c s (List.replicate noise .other ++ aevals ctx cf cn noise ls)
            = { s with line := l, rstack := { e0 with line := l } :: R } ∧
           l = (ls.getLast?).getD s.line := by
  induction ls with
  | nil =>
    intro s e0 R _ _ _ _ hr _ _ _ hl
    refine ⟨s.line, ?_, rfl⟩
    simp only [aevals, List.append_nil, run_others]
    cases s
    cases e0
    simp_all
  | cons l r ih =>
    intro s e0 R hf hg hc he hr h1 h2 h3 hl
    rw [run_append, run_others]
    simp only [aevals, run_cons]
    have hstep : stepC c s (.aeval ctx cf cn (some l))
        = { s with line := l, rstack := { e0 with line := l } :: R } := by
      simp only [stepC, enterCtx_same c s ctx hc he, hf, Option.isNone_some, Bool.false_eq_true, if_false, astFrame,
        Option.getD_some, hr]
      rw [hg, ← h2]
      simp only [h1, and_self, if_true]
      cases e0
      simp_all
    rw [hstep]
    obtain ⟨l', h', hl'⟩ := ih { s with line := l, rstack := { e0 with line := l } :: R } { e0 with line := l } R
      hf hg hc he rfl h1 h2 h3 rfl
    refine ⟨l', by rw [h'], ?_⟩
    rw [hl']
    cases r with
    | nil => simp
    | cons x xs =>
      simp only [List.getLast?_cons_cons]
      cases hx : (x :: xs).getLast? with
      | none => simp at hx
      | some v => rfl

/-- the first `aeval` frame of a new entry: given what `enterCtx` leaves behind (function `g`, file `f` or none yet),
a new entry is pushed unless the entry on top has the same file and function -/
theorem step_push (c : Cfg) (t : FState) (ctx : Nat) (cf cn : String) (l : Nat) (g : Option String) (f : String)
    (R : List Entry)
    (hg : (enterCtx c t ctx).curFunc = g)
    (hf : (enterCtx c t ctx).curFile = some f ∨ ((enterCtx c t ctx).curFile = none ∧ cf = f))
    (hr : (enterCtx c t ctx).rstack = R) (hc : (enterCtx c t ctx).curCtx = some ctx)
    (he : (enterCtx c t ctx).funcEntered = false)
    (hne : ∀ e R', R = e :: R' → ¬(e.file = f ∧ e.func = entryFunc g f cn)) :
    stepC c t (.aeval ctx cf cn (some l))
      = { curFunc := g, curFile := some f, line := l,
          rstack := { file := f, func := entryFunc g f cn, line := l, isReal := false } :: R,
          curCtx := some ctx, funcEntered := false } := by
  simp only [stepC]
  generalize enterCtx c t ctx = u at hg hf hr hc he
  cases u with
  | mk uf ufile uline ustack uctx uent =>
    simp only at hg hf hr hc he
    subst hg hr hc he
    have hfile : (if ufile.isNone = true then
          ({ curFunc := uf, curFile := some cf, line := uline, rstack := ustack, curCtx := some ctx, funcEntered := false } : FState)
        else { curFunc := uf, curFile := ufile, line := uline, rstack := ustack, curCtx := some ctx, funcEntered := false })
        = { curFunc := uf, curFile := some f, line := uline, rstack := ustack, curCtx := some ctx, funcEntered := false } := by
      rcases hf with h | ⟨h, h'⟩
      · subst h; simp
      · subst h h'; simp
    simp only [hfile, astFrame, Option.getD_some]
    cases hR : ustack with
    | nil => rfl
    | cons e R' =>
      have := hne e R' hR
      simp only
      rw [if_neg (by
        intro hh
        exact this ⟨hh.1.symm, hh.2.symm⟩)]

theorem getLast_snoc_aux (l : Nat) (r ls : List Nat) (last l' : Nat) (hls : ls ++ [last] = l :: r)
    (hl' : l' = (r.getLast?).getD l) : l' = last := by
  rw [hl']
  have h2 : (l :: r).getLast? = some last := by rw [← hls]; simp
  cases r with
  | nil => simp at h2 ⊢; exact h2
  | cons y ys => rw [List.getLast?_cons_cons] at h2; simp [h2]

/-- the state after one whole activation -/
def afterAct (a : Act) (R : List Entry) : FState :=
  { curFunc := some a.func, curFile := some a.file, line := a.last, rstack := triple a :: R,
    curCtx := some a.ctx, funcEntered := false }

/-- one whole activation pushes exactly one entry (its file, function, current line), provided the entry on top of
the stack is not one of the same file and function – in both shapes of the formatter -/
theorem run_act (c : Cfg) (a : Act) (s : FState)
    (hne : ∀ e R, s.rstack = e :: R → ¬(e.file = a.file ∧ e.func = some a.func)) :
    runC c s (actFrames a) = afterAct a s.rstack := by
  unfold actFrames afterAct
  have hpre : ∀ s0 : FState, s0.rstack = s.rstack →
      runC c s0 ([Frame.evalFuncCall a.func a.file] ++ aevals a.ctx a.ctxFile a.ctxName a.noise (a.lines ++ [a.last]))
        = { curFunc := some a.func, curFile := some a.file, line := a.last, rstack := triple a :: s.rstack,
            curCtx := some a.ctx, funcEntered := false } := by
    intro s0 h0
    rw [run_append]
    simp only [runC, List.foldl_cons, List.foldl_nil, stepC]
    -- first aeval of the activation: a new entry is pushed
    cases hls : a.lines ++ [a.last] with
    | nil => simp at hls
    | cons l r =>
      simp only [aevals]
      change runC c _ (Frame.aeval a.ctx a.ctxFile a.ctxName (some l) :: _) = _
      rw [run_cons]
      have hE := enterCtx_entered c { s0 with curFunc := some a.func, curFile := some a.file, funcEntered := true }
        a.ctx rfl
      have hpush := step_push c { s0 with curFunc := some a.func, curFile := some a.file, funcEntered := true }
        a.ctx a.ctxFile a.ctxName l (some a.func) a.file s.rstack (by rw [hE]) (Or.inl (by rw [hE])) (by rw [hE]; exact h0)
        (by rw [hE]) (by rw [hE]) (by
          intro e R' hR
          simpa [entryFunc] using hne e R' hR)
      simp only [entryFunc] at hpush
      rw [hpush]
      obtain ⟨l', h', hl'⟩ := run_aevals_refine c a.file (some a.func) a.ctx a.ctxFile a.ctxName a.noise r
        { curFunc := some a.func, curFile := some a.file, line := l,
          rstack := { file := a.file, func := some a.func, line := l, isReal := false } :: s.rstack,
          curCtx := some a.ctx, funcEntered := false }
        { file := a.file, func := some a.func, line := l, isReal := false } s.rstack rfl rfl rfl rfl rfl rfl rfl rfl rfl
      rw [h']
      have hlast : l' = a.last := getLast_snoc_aux l r a.lines a.last l' hls hl'
      subst hlast
      rfl
  by_cases hv : a.viaCallFunc
  · simp only [hv, if_true]
    rw [List.append_assoc, run_append]
    have : (runC c s [Frame.callFunc a.func]).rstack = s.rstack := by
      simp only [runC, List.foldl_cons, List.foldl_nil, stepC]
      split <;> rfl
    exact hpre _ this
  · simp only [hv, Bool.false_eq_true, if_false, List.nil_append]
    exact hpre s rfl

/-- the formatter is inside evaluator `c0` and the latest `aeval` frame was not preceded by `EvalFunc.call` -/
def Inv (s : FState) (c0 : Nat) : Prop := s.funcEntered = false ∧ s.curCtx = some c0

theorem run_chain (c : Cfg) : ∀ (chain : List Act) (s : FState), NoAdj chain →
    (∀ a r, chain = a :: r → ∀ e R, s.rstack = e :: R → ¬(e.file = a.file ∧ e.func = some a.func)) →
    (runC c s (framesOf chain)).rstack = (chain.map triple).reverse ++ s.rstack ∧
    (∀ c0, Inv s c0 → Inv (runC c s (framesOf chain)) (lastCtx c0 chain)) := by
  intro chain
  induction chain with
  | nil => intro s _ _; exact ⟨rfl, fun c0 h => h⟩
  | cons a r ih =>
    intro s hn h0
    unfold framesOf
    simp only [List.map_cons, List.flatten_cons]
    rw [run_append, run_act c a s (h0 a r rfl)]
    have hn' : NoAdj r := by
      cases r with
      | nil => trivial
      | cons b t => exact hn.2
    have := ih (afterAct a s.rstack) hn' (by
      intro b t hb e R hR
      subst hb
      simp only [afterAct, List.cons.injEq] at hR
      obtain ⟨rfl, _⟩ := hR
      have hab := hn.1
      simp only [triple]
      intro hh
      rcases hab with h1 | h1
      · exact h1 hh.1
      · have := hh.2
        simp only [Option.some.injEq] at this
        exact h1 this)
    unfold framesOf at this
    refine ⟨?_, ?_⟩
    · rw [this.1]
      simp [afterAct]
    · intro c0 _
      have h2 := this.2 a.ctx ⟨rfl, rfl⟩
      have : lastCtx c0 (a :: r) = lastCtx a.ctx r := by
        unfold lastCtx
        cases r with
        | nil => simp
        | cons b t =>
          rw [List.getLast?_cons_cons]
          cases hx : (b :: t).getLast? with
          | none => simp at hx
          | some v => rfl
      rw [this]
      exact h2

theorem run_reals (c : Cfg) (rs : List RealFr) (s : FState) :
    runC c s (rs.map RealFr.frame) = { s with rstack := (rs.map RealFr.entry).reverse ++ s.rstack } := by
  induction rs generalizing s with
  | nil => simp [runC]
  | cons r t ih =>
    simp only [List.map_cons, run_cons]
    rw [ih]
    simp [stepC, RealFr.frame, RealFr.entry]

/-- the state after the body of a file -/
def afterMod (m : ModAct) (R : List Entry) : FState :=
  { curFunc := none, curFile := some m.file, line := m.last, rstack := modTriple m :: R,
    curCtx := some m.ctx, funcEntered := false }

/-- the body of a file that is being loaded, entered from a state in which the formatter has no function and no file
(the very first frame, or – in the current code – after the reset for a new evaluator) -/
theorem run_mod_fresh (c : Cfg) (m : ModAct) (s : FState) (hf : s.curFunc = none) (hfile : s.curFile = none)
    (hctx : enterCtx c s m.ctx = { s with curCtx := some m.ctx, funcEntered := false })
    (hne : ∀ e R, s.rstack = e :: R → ¬(e.file = m.file ∧ e.func = entryFunc none m.file m.ctxName)) :
    runC c s (modFrames m) = afterMod m s.rstack := by
  unfold modFrames afterMod
  cases hls : m.lines ++ [m.last] with
  | nil => simp at hls
  | cons l r =>
    simp only [aevals, run_cons]
    have h1 := step_push c s m.ctx m.file m.ctxName l none m.file s.rstack (by rw [hctx]; exact hf)
      (Or.inr ⟨by rw [hctx]; exact hfile, rfl⟩) (by rw [hctx]) (by rw [hctx]) (by rw [hctx]) hne
    rw [h1]
    obtain ⟨l', h', hl'⟩ := run_aevals_refine c m.file none m.ctx m.file m.ctxName m.noise r
      { curFunc := none, curFile := some m.file, line := l,
        rstack := { file := m.file, func := entryFunc none m.file m.ctxName, line := l, isReal := false } :: s.rstack,
        curCtx := some m.ctx, funcEntered := false }
      { file := m.file, func := entryFunc none m.file m.ctxName, line := l, isReal := false } s.rstack
      rfl rfl rfl rfl rfl rfl rfl rfl rfl
    rw [h']
    have : l' = m.last := getLast_snoc_aux l r m.lines m.last l' hls hl'
    subst this
    rfl

/-- one import segment in the CURRENT code: real frames, the body of the imported file on a new evaluator, its chain -/
theorem run_seg (g : Seg) (s : FState) (c0 : Nat) (hinv : Inv s c0) (hc : c0 ≠ g.m.ctx)
    (hreal : ∀ e R, (g.reals.map RealFr.entry).reverse ++ s.rstack = e :: R →
      ¬(e.file = g.m.file ∧ e.func = entryFunc none g.m.file g.m.ctxName))
    (hn : NoAdj g.chain) (hfirst : FirstOk g.m g.chain) :
    (runC Cfg.current s (segFrames g)).rstack = (segTriples g).reverse ++ s.rstack ∧
    Inv (runC Cfg.current s (segFrames g)) (lastCtx g.m.ctx g.chain) := by
  unfold segFrames
  rw [run_append, run_append, run_reals]
  -- the first aeval frame of the imported file: reset, then a fresh module body
  have hmod : runC Cfg.current { s with rstack := (g.reals.map RealFr.entry).reverse ++ s.rstack } (modFrames g.m)
      = afterMod g.m ((g.reals.map RealFr.entry).reverse ++ s.rstack) := by
    unfold modFrames afterMod
    cases hls : g.m.lines ++ [g.m.last] with
    | nil => simp at hls
    | cons l r =>
      simp only [aevals, run_cons]
      have hE := enterCtx_reset { s with rstack := (g.reals.map RealFr.entry).reverse ++ s.rstack } c0 g.m.ctx
        hinv.2 hc hinv.1
      have h1 := step_push Cfg.current { s with rstack := (g.reals.map RealFr.entry).reverse ++ s.rstack }
        g.m.ctx g.m.file g.m.ctxName l none g.m.file ((g.reals.map RealFr.entry).reverse ++ s.rstack)
        (by rw [hE]) (Or.inr ⟨by rw [hE], rfl⟩) (by rw [hE]) (by rw [hE]) (by rw [hE]) hreal
      rw [h1]
      obtain ⟨l', h', hl'⟩ := run_aevals_refine Cfg.current g.m.file none g.m.ctx g.m.file g.m.ctxName g.m.noise r
        { curFunc := none, curFile := some g.m.file, line := l,
          rstack := { file := g.m.file, func := entryFunc none g.m.file g.m.ctxName, line := l, isReal := false }
                      :: ((g.reals.map RealFr.entry).reverse ++ s.rstack),
          curCtx := some g.m.ctx, funcEntered := false }
        { file := g.m.file, func := entryFunc none g.m.file g.m.ctxName, line := l, isReal := false }
        ((g.reals.map RealFr.entry).reverse ++ s.rstack)
        rfl rfl rfl rfl rfl rfl rfl rfl rfl
      rw [h']
      have : l' = g.m.last := getLast_snoc_aux l r g.m.lines g.m.last l' hls hl'
      subst this
      rfl
  rw [hmod]
  have hch := run_chain Cfg.current g.chain (afterMod g.m ((g.reals.map RealFr.entry).reverse ++ s.rstack)) hn (by
    intro a r ha e R hR
    simp only [afterMod, List.cons.injEq] at hR
    obtain ⟨rfl, _⟩ := hR
    exact hfirst a r ha)
  refine ⟨?_, hch.2 g.m.ctx ⟨rfl, rfl⟩⟩
  rw [hch.1]
  simp [afterMod, segTriples, List.reverse_append]

theorem segOk_real (c0 : Nat) (g : Seg) (h : SegOk c0 g) (S : List Entry) :
    ∀ e R, (g.reals.map RealFr.entry).reverse ++ S = e :: R →
      ¬(e.file = g.m.file ∧ e.func = entryFunc none g.m.file g.m.ctxName) := by
  obtain ⟨_, ⟨r, hr, hne⟩, _, _⟩ := h
  obtain ⟨ys, hys⟩ := List.getLast?_eq_some_iff.mp hr
  intro e R he
  rw [hys] at he
  simp only [List.map_append, List.map_cons, List.map_nil, List.reverse_append, List.reverse_cons, List.reverse_nil,
    List.nil_append, List.cons_append, List.cons.injEq] at he
  obtain ⟨rfl, _⟩ := he
  simpa [RealFr.entry, eq_comm] using hne

/-- nested imports of any depth in the CURRENT code -/
theorem run_segs : ∀ (segs : List Seg) (s : FState) (c0 : Nat), Inv s c0 → SegsOk c0 segs →
    (runC Cfg.current s (segs.flatMap segFrames)).rstack = (segs.flatMap segTriples).reverse ++ s.rstack := by
  intro segs
  induction segs with
  | nil => intro s c0 _ _; rfl
  | cons g r ih =>
    intro s c0 hinv hok
    obtain ⟨hg, hr⟩ := hok
    have h1 := run_seg g s c0 hinv hg.1 (segOk_real c0 g hg s.rstack) hg.2.2.1 hg.2.2.2
    simp only [List.flatMap_cons]
    rw [run_append, ih _ _ h1.2 hr, h1.1]
    simp [List.reverse_append]

/-! ## containment -/

theorem serve_spec (caught : Bool) (lg : String) (s : Loop) (o : Occ) :
    (serve caught lg s o).subs = s.subs ∧ (serve caught lg s o).served = s.served + 1 ∧
    (serve caught lg s o).runs = s.runs + (if specRuns o then 1 else 0) ∧
    (serve caught lg s o).done = s.done + (if specRuns o && o.body == .ok then 1 else 0) := by
  unfold serve contain specRuns
  cases o.expr <;> cases o.exprTrue <;> cases o.active <;> cases o.activeTrue <;> cases o.body <;> simp

theorem serve_log_caught (lg : String) (s : Loop) (o : Occ) :
    (serve true lg s o).log = s.log ++ (specRecs o).map (scriptRec lg) := by
  unfold serve contain specRecs callAction scriptRec
  cases o.expr <;> cases o.exprTrue <;> cases o.active <;> cases o.activeTrue <;> cases o.body <;> simp

end PsModel.C18
