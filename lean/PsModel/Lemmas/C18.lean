import PsModel.Model.C18
import PsModel.Spec.C18
/-! # C18 helper lemmas -/
namespace PsModel.C18

theorem run_append (s : FState) (a b : List Frame) : run s (a ++ b) = run (run s a) b := by
  simp [run, List.foldl_append]

theorem run_cons (s : FState) (f : Frame) (r : List Frame) : run s (f :: r) = run (step s f) r := rfl

theorem run_others (s : FState) (n : Nat) : run s (List.replicate n .other) = s := by
  induction n with
  | zero => rfl
  | succ k ih => rw [List.replicate_succ, run_cons]; exact ih

/-- inside one activation every further `aeval` frame only refines the line of the entry on top -/
theorem run_aevals_refine (f : String) (g : Option String) (cf cn : String) (noise : Nat) (ls : List Nat) :
    ∀ (s : FState) (e0 : Entry) (R : List Entry), s.curFile = some f → s.curFunc = g →
      s.rstack = e0 :: R → e0.file = f → e0.func = entryFunc g f cn → e0.isReal = false → e0.line = s.line →
      ∃ l, run s (List.replicate noise .other ++ aevals cf cn noise ls)
            = { s with line := l, rstack := { e0 with line := l } :: R } ∧
           l = (ls.getLast?).getD s.line := by
  induction ls with
  | nil =>
    intro s e0 R _ _ hr _ _ _ hl
    refine ⟨s.line, ?_, rfl⟩
    simp only [aevals, List.append_nil, run_others]
    cases s
    cases e0
    simp_all
  | cons l r ih =>
    intro s e0 R hf hg hr h1 h2 h3 hl
    rw [run_append, run_others]
    simp only [aevals, run_cons]
    have hstep : step s (.aeval cf cn (some l))
        = { s with line := l, rstack := { e0 with line := l } :: R } := by
      simp only [step, hf, Option.isNone_some, Bool.false_eq_true, if_false, astFrame, Option.getD_some, hr]
      rw [hg, ← h2]
      simp only [h1, and_self, if_true]
      cases e0
      simp_all
    rw [hstep]
    obtain ⟨l', h', hl'⟩ := ih { s with line := l, rstack := { e0 with line := l } :: R } { e0 with line := l } R
      hf hg rfl h1 h2 h3 rfl
    refine ⟨l', by rw [h'], ?_⟩
    rw [hl']
    cases r with
    | nil => simp
    | cons x xs =>
      simp only [List.getLast?_cons_cons]
      cases hx : (x :: xs).getLast? with
      | none => simp at hx
      | some v => rfl

/-- one whole activation pushes exactly one entry (its file, function, current line), provided the entry on top of
the stack is not one of the same file and function -/
theorem run_act (a : Act) (s : FState)
    (hne : ∀ e R, s.rstack = e :: R → ¬(e.file = a.file ∧ e.func = some a.func)) :
    run s (actFrames a) = { curFunc := some a.func, curFile := some a.file, line := a.last, rstack := triple a :: s.rstack } := by
  unfold actFrames
  have hpre : ∀ s0 : FState, s0.rstack = s.rstack →
      run s0 ([Frame.evalFuncCall a.func a.file] ++ aevals a.ctxFile a.ctxName a.noise (a.lines ++ [a.last]))
        = { curFunc := some a.func, curFile := some a.file, line := a.last, rstack := triple a :: s.rstack } := by
    intro s0 h0
    rw [run_append]
    simp only [run, List.foldl_cons, List.foldl_nil, step]
    -- first aeval of the activation: a new entry is pushed
    cases hls : a.lines ++ [a.last] with
    | nil => simp at hls
    | cons l r =>
      simp only [aevals]
      change run _ (Frame.aeval a.ctxFile a.ctxName (some l) :: _) = _
      rw [run_cons]
      have hpush : step { s0 with curFunc := some a.func, curFile := some a.file } (.aeval a.ctxFile a.ctxName (some l))
          = { curFunc := some a.func, curFile := some a.file, line := l,
              rstack := { file := a.file, func := some a.func, line := l, isReal := false } :: s.rstack } := by
        simp only [step, Option.isNone_some, Bool.false_eq_true, if_false, astFrame, Option.getD_some, h0, entryFunc]
        cases hR : s.rstack with
        | nil => rfl
        | cons e R =>
          have := hne e R hR
          simp only
          rw [if_neg (by
            intro hh
            exact this ⟨hh.1.symm, hh.2.symm⟩)]
      rw [hpush]
      obtain ⟨l', h', hl'⟩ := run_aevals_refine a.file (some a.func) a.ctxFile a.ctxName a.noise r
        { curFunc := some a.func, curFile := some a.file, line := l,
          rstack := { file := a.file, func := some a.func, line := l, isReal := false } :: s.rstack }
        { file := a.file, func := some a.func, line := l, isReal := false } s.rstack rfl rfl rfl rfl rfl rfl rfl
      rw [h']
      have hlast : l' = a.last := by
        rw [hl']
        have : (l :: r).getLast? = some a.last := by rw [← hls]; simp
        cases r with
        | nil => simp at this ⊢; exact this
        | cons x xs =>
          rw [List.getLast?_cons_cons] at this
          simp [this]
      subst hlast
      rfl
  by_cases hv : a.viaCallFunc
  · simp only [hv, if_true]
    rw [List.append_assoc, run_append]
    have : (run s [Frame.callFunc a.func]).rstack = s.rstack := by
      simp only [run, List.foldl_cons, List.foldl_nil, step]
      split <;> rfl
    exact hpre _ this
  · simp only [hv, Bool.false_eq_true, if_false, List.nil_append]
    exact hpre s rfl

theorem run_chain : ∀ (chain : List Act) (s : FState), NoAdj chain →
    (∀ a r, chain = a :: r → ∀ e R, s.rstack = e :: R → ¬(e.file = a.file ∧ e.func = some a.func)) →
    (run s (framesOf chain)).rstack = (chain.map triple).reverse ++ s.rstack := by
  intro chain
  induction chain with
  | nil => intro s _ _; rfl
  | cons a r ih =>
    intro s hn h0
    unfold framesOf
    simp only [List.map_cons, List.flatten_cons]
    rw [run_append, run_act a s (h0 a r rfl)]
    have hn' : NoAdj r := by
      cases r with
      | nil => trivial
      | cons b t => exact hn.2
    have := ih { curFunc := some a.func, curFile := some a.file, line := a.last, rstack := triple a :: s.rstack } hn' (by
      intro b t hb e R hR
      subst hb
      simp only [List.cons.injEq] at hR
      obtain ⟨rfl, _⟩ := hR
      have hab := hn.1
      simp only [triple]
      intro hh
      rcases hab with h1 | h1
      · exact h1 hh.1
      · have := hh.2
        simp only [Option.some.injEq] at this
        exact h1 this)
    unfold framesOf at this
    rw [this]
    simp

/-! ## containment -/

theorem serve_spec (caught : Bool) (lg : String) (s : Loop) (o : Occ) :
    (serve caught lg s o).subs = s.subs ∧ (serve caught lg s o).served = s.served + 1 ∧
    (serve caught lg s o).runs = s.runs + (if specRuns o then 1 else 0) ∧
    (serve caught lg s o).done = s.done + (if specRuns o && o.body == .ok then 1 else 0) := by
  unfold serve contain specRuns
  cases o.expr <;> cases o.exprTrue <;> cases o.active <;> cases o.activeTrue <;> cases o.body <;> simp

theorem serve_log_caught (lg : String) (s : Loop) (o : Occ) :
    (serve true lg s o).log = s.log ++ (specRecs o).map (scriptRec lg) := by
  unfold serve contain specRecs callAction scriptRec
  cases o.expr <;> cases o.exprTrue <;> cases o.active <;> cases o.activeTrue <;> cases o.body <;> simp

end PsModel.C18
