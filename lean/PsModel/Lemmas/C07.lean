import PsModel.Model.C07
import PsModel.Spec.C07
/-!
# C07 helper lemmas: calendar round trip (day number → civil date → day number), validity of computed dates,
  `parse_date_time` on date-less specifications, the accumulate loop of `timer_active_check`, guard invariants.
-/
namespace PsModel.C07

/-! ## calendar -/

theorem yoe_spec (doe : Int) (h0 : 0 ≤ doe) (h1 : doe < 146097) :
    0 ≤ yoeOf doe ∧ yoeOf doe ≤ 399 ∧ 0 ≤ doyOf doe ∧ doyOf doe ≤ 365 ∧
    doe = 365 * yoeOf doe + yoeOf doe / 4 - yoeOf doe / 100 + doyOf doe ∧
    (doyOf doe = 365 → (yoeOf doe + 1) % 4 = 0 ∧ ((yoeOf doe + 1) % 100 ≠ 0 ∨ yoeOf doe + 1 = 400)) := by
  have hf0 : 0 ≤ n100 doe := by simp only [n100]; omega
  have hf3 : n100 doe ≤ 3 := by simp only [n100]; omega
  have hr1a : 0 ≤ r1 doe := by simp only [r1, n100]; omega
  have hr1b : r1 doe ≤ 36524 := by simp only [r1, n100]; omega
  have hr1c : n100 doe < 3 → r1 doe ≤ 36523 := by simp only [r1, n100]; omega
  have hb0 : 0 ≤ n4 doe := by simp only [n4]; omega
  have hb24 : n4 doe ≤ 24 := by simp only [n4]; omega
  have hr2a : 0 ≤ r2 doe := by simp only [r2, n4]; omega
  have hr2b : r2 doe ≤ 1460 := by simp only [r2, n4]; omega
  have he0 : 0 ≤ n1 doe := by simp only [n1]; omega
  have he3 : n1 doe ≤ 3 := by simp only [n1]; omega
  have hd0 : 0 ≤ doyOf doe := by simp only [doyOf, n1]; omega
  have hd1 : doyOf doe ≤ 365 := by simp only [doyOf, n1]; omega
  have e1 : doe = 36524 * n100 doe + r1 doe := by simp only [r1]; omega
  have e2 : r1 doe = 1461 * n4 doe + r2 doe := by simp only [r2]; omega
  have e3 : r2 doe = 365 * n1 doe + doyOf doe := by simp only [doyOf]; omega
  have q4 : yoeOf doe / 4 = 25 * n100 doe + n4 doe := by simp only [yoeOf]; omega
  have q100 : yoeOf doe / 100 = n100 doe := by simp only [yoeOf]; omega
  have hleap : doyOf doe = 365 → n1 doe = 3 ∧ (n4 doe ≠ 24 ∨ n100 doe = 3) := by
    intro h; simp only [doyOf, n1] at h ⊢; omega
  refine ⟨?_, ?_, hd0, hd1, ?_, ?_⟩
  · simp only [yoeOf]; omega
  · simp only [yoeOf]; omega
  · rw [q4, q100]; simp only [yoeOf]; omega
  · intro h
    obtain ⟨h3, h24⟩ := hleap h
    simp only [yoeOf]
    omega

theorem yearStart_split (y : Int) :
    yearStart y = 146097 * (y / 400) + (365 * (y % 400) + (y % 400) / 4 - (y % 400) / 100) := by
  simp only [yearStart]
  omega

theorem yearStart_era (era yoe : Int) (h0 : 0 ≤ yoe) (h1 : yoe ≤ 399) :
    yearStart (yoe + era * 400) = 146097 * era + (365 * yoe + yoe / 4 - yoe / 100) := by
  rw [yearStart_split]
  have : (yoe + era * 400) / 400 = era := by omega
  have : (yoe + era * 400) % 400 = yoe := by omega
  simp only [*]

theorem dfc_of_parts (era yoe doy : Int) (h0 : 0 ≤ yoe) (h1 : yoe ≤ 399) (hd0 : 0 ≤ doy) (hd1 : doy ≤ 365) :
    let mp := (5 * doy + 2) / 153
    let m := if mp < 10 then mp + 3 else mp - 9
    daysFromCivil (if m ≤ 2 then yoe + era * 400 + 1 else yoe + era * 400) m (doy - mpStart mp + 1)
      = 146097 * era + (365 * yoe + yoe / 4 - yoe / 100) + doy - 719468 := by
  intro mp m
  have hmp0 : 0 ≤ mp := by omega
  have hmp1 : mp ≤ 11 := by omega
  have hy : (if m ≤ 2 then (if m ≤ 2 then yoe + era * 400 + 1 else yoe + era * 400) - 1
              else (if m ≤ 2 then yoe + era * 400 + 1 else yoe + era * 400)) = yoe + era * 400 := by
    split <;> omega
  have hm : (if m > 2 then m - 3 else m + 9) = mp := by omega
  simp only [daysFromCivil, hy, hm, yearStart_era era yoe h0 h1]
  omega

/-- day number → (year, month, day) → day number is the identity, for every day number -/
theorem daysFromCivil_civilFromDays (z : Int) :
    daysFromCivil (civilFromDays z).y (civilFromDays z).m (civilFromDays z).d = z := by
  obtain ⟨a, b, c, d, e, _⟩ := yoe_spec (z + 719468 - (z + 719468) / 146097 * 146097) (by omega) (by omega)
  have := dfc_of_parts ((z + 719468) / 146097) _ _ a b c d
  simp only [civilFromDays]
  simp only at this
  rw [this]
  omega

theorem isLeap_iff (y : Int) : isLeap y = true ↔ (y % 4 = 0 ∧ (y % 100 ≠ 0 ∨ y % 400 = 0)) := by
  simp [isLeap]

/-- the first and last day numbers `datetime` can represent (0001-01-01 … 9999-12-31) -/
def minDay : Int := -719162
def maxDay : Int := 2932896

/-- every representable day number has a civil date that `datetime(y, m, d)` accepts -/
theorem validDate_civilFromDays (z : Int) (hlo : minDay ≤ z) (hhi : z ≤ maxDay) :
    validDate (civilFromDays z).y (civilFromDays z).m (civilFromDays z).d = true := by
  obtain ⟨a, b, c, d, e, f⟩ := yoe_spec (z + 719468 - (z + 719468) / 146097 * 146097) (by omega) (by omega)
  simp only [minDay, maxDay] at hlo hhi
  generalize hera : (z + 719468) / 146097 = era at *
  generalize hdoe : z + 719468 - era * 146097 = doe at *
  generalize hyoe : yoeOf doe = yoe at *
  generalize hdoy : doyOf doe = doy at *
  have hera0 : 0 ≤ era := by omega
  have hera1 : era ≤ 24 := by omega
  have q4 : yoe / 4 * 4 ≤ yoe := by omega
  simp only [civilFromDays, hera, hdoe, hyoe, hdoy, validDate, daysInMonth, mpStart, isLeap_iff,
    Bool.and_eq_true, decide_eq_true_eq, beq_iff_eq, Bool.or_eq_true]
  have hmp0 : 0 ≤ (5 * doy + 2) / 153 := by omega
  have hmp1 : (5 * doy + 2) / 153 ≤ 11 := by omega
  generalize hmp : (5 * doy + 2) / 153 = mp at *
  have hcases : mp = 0 ∨ mp = 1 ∨ mp = 2 ∨ mp = 3 ∨ mp = 4 ∨ mp = 5 ∨ mp = 6 ∨ mp = 7 ∨ mp = 8 ∨ mp = 9 ∨
      mp = 10 ∨ mp = 11 := by omega
  rcases hcases with h | h | h | h | h | h | h | h | h | h | h | h <;> subst h <;> simp <;> omega

/-! ## `parse_date_time` without a date part -/

def dayInRange (d : Int) : Prop := minDay ≤ d ∧ d ≤ maxDay

theorem baseDay_none (k nowDay : Int) (h : dayInRange nowDay) :
    baseDay (dateStage .none k nowDay) = some (nowDay + k) := by
  simp only [dateStage, baseDay, validDate_civilFromDays nowDay h.1 h.2, daysFromCivil_civilFromDays, if_true]

/-- a specification without date: midnight of (today + day_offset), then time and offset; `fixed_date = False` -/
theorem parseDT_noDate (P : Params) (time : TimeSpec) (off k : Int) (now st : Time) (h : dayInRange (dayOf now)) :
    parseDT P (.at .none time off) k now st = some (finishDT P time off false (dayOf now + k)) := by
  simp only [parseDT, baseDay_none k _ h]
  rfl

theorem dayOf_midnight_add (d a : Int) (h0 : 0 ≤ a) (h1 : a < usDay) : dayOf (midnight d + a) = d := by
  unfold usDay at h1
  unfold dayOf midnight usDay
  omega

theorem time_split (t : Int) : t = midnight (dayOf t) + todOf t := by
  simp only [dayOf, midnight, todOf, usDay]
  omega

theorem todOf_bounds (t : Int) : 0 ≤ todOf t ∧ todOf t < usDay := by
  simp only [todOf, usDay]
  omega

/-! ## the accumulate loop of `timer_active_check` -/

theorem rangeTest_eq (s e now : Time) : rangeTest s e now = decide (Spec.inRange s e now) := by
  simp only [rangeTest, Spec.inRange]
  split <;> simp [Bool.decide_and, Bool.decide_or, ge_iff_le]

theorem thisMatch_eq_hit (P : Params) (a : ASpec) (now st : Time) :
    thisMatch P a.kind now st = Spec.hit P now st a := by
  simp only [thisMatch, Spec.hit, rangeEnd]
  cases a.kind with
  | cron id => rfl
  | range s e =>
    simp only
    cases parseDT P s 0 now st with
    | none => rfl
    | some x =>
      simp only
      cases parseDT P e 0 x.1 st with
      | none => rfl
      | some y => simp only [rangeTest_eq]

theorem activeLoop_some (P : Params) (now st : Time) (specs : List ASpec) (acc : Acc)
    (h : Spec.resolves P now st specs = true) :
    activeLoop P now st specs acc =
      some ⟨acc.pos ++ (specs.filter (fun a => !a.neg)).map (Spec.hitB P now st),
            acc.negs ++ (specs.filter (fun a => a.neg)).map (fun a => !Spec.hitB P now st a)⟩ := by
  induction specs generalizing acc with
  | nil => simp [activeLoop]
  | cons a rest ih =>
    simp only [Spec.resolves, List.all_cons, Bool.and_eq_true] at h
    obtain ⟨h1, h2⟩ := h
    simp only [activeLoop, thisMatch_eq_hit]
    cases hh : Spec.hit P now st a with
    | none => simp [hh] at h1
    | some m =>
      simp only
      rw [ih _ (by simpa [Spec.resolves] using h2)]
      cases hn : a.neg <;> simp [Acc.push, hn, Spec.hitB, hh]

theorem activeLoop_none (P : Params) (now st : Time) (specs : List ASpec) (acc : Acc)
    (h : Spec.resolves P now st specs = false) : activeLoop P now st specs acc = none := by
  induction specs generalizing acc with
  | nil => simp [Spec.resolves] at h
  | cons a rest ih =>
    simp only [activeLoop, thisMatch_eq_hit]
    cases hh : Spec.hit P now st a with
    | none => rfl
    | some m =>
      simp only
      apply ih
      simpa [Spec.resolves, hh] using h

theorem combine_map (P : Params) (now st : Time) (pos negs : List ASpec) :
    Acc.combine ⟨pos.map (Spec.hitB P now st), negs.map (fun a => !Spec.hitB P now st a)⟩ =
      ((pos.isEmpty || pos.any (Spec.hitB P now st)) && negs.all (fun a => !Spec.hitB P now st a)) := by
  simp only [Acc.combine, List.isEmpty_map, List.any_map, List.all_map]
  cases pos <;> simp [Function.comp_def]

theorem activeCheck_eq (P : Params) (specs : List ASpec) (now st : Time) :
    activeCheck P specs now st =
      if Spec.resolves P now st specs then some (Spec.window P specs now st) else none := by
  cases h : Spec.resolves P now st specs with
  | true =>
    simp only [activeCheck, activeLoop_some P now st specs ⟨[], []⟩ h, List.nil_append, combine_map, if_true]
    rfl
  | false =>
    simp [activeCheck, activeLoop_none P now st specs ⟨[], []⟩ h]

theorem activeOk_eq (P : Params) (specs : List ASpec) (now st : Time) :
    activeOk P specs now st = (Spec.resolves P now st specs && Spec.window P specs now st) := by
  simp only [activeOk, activeCheck_eq]
  cases Spec.resolves P now st specs <;> simp

/-! ## guards -/

/-- both subsystems' `run` have this shape -/
def runWith (step : GState → Occ → GState × Bool) : List Ev → GState → List Bool
  | [], _ => []
  | .direct :: es, g => true :: runWith step es g
  | .occ o :: es, g => (step g o).2 :: runWith step es (step g o).1

theorem Legacy.run_eq (F : Flags) (P : Params) (cfg : Cfg) (es : List Ev) (g : GState) :
    Legacy.run F P cfg es g = runWith (Legacy.step F P cfg) es g := by
  induction es generalizing g with
  | nil => rfl
  | cons e es ih => cases e <;> simp [Legacy.run, runWith, ih]

theorem New.run_eq (F : Flags) (P : Params) (cfg : Cfg) (es : List Ev) (g : GState) :
    New.run F P cfg es g = runWith (New.step F P cfg) es g := by
  induction es generalizing g with
  | nil => rfl
  | cons e es ih => cases e <;> simp [New.run, runWith, ih]

/-- `lo` = latest occurrence time so far bounds every accepted instant and `last_trig_time`; when a hold-off is in
    force the single `last_trig_time` is the newest accepted instant -/
def Inv (cfg : Cfg) (last : Option Nat) (acc : List Nat) (lo : Option Nat) : Prop :=
  (∀ a ∈ acc, ∃ l, lo = some l ∧ a ≤ l) ∧
  (∀ l, last = some l → ∃ b, lo = some b ∧ l ≤ b) ∧
  (0 < Spec.holdN cfg →
    match last with
    | none => acc = []
    | some l => l ∈ acc ∧ ∀ a ∈ acc, a ≤ l)

def loLe (lo : Option Nat) (t : Nat) : Prop := match lo with | some l => l ≤ t | none => True

/-- a step function is correct on the occurrences satisfying `good` when, from related states, it decides like the
    spec and re-establishes the relation (the expression's variable table is unconstrained) -/
def StepOK (P : Params) (cfg : Cfg) (good : Occ → Prop) (step : GState → Occ → GState × Bool) : Prop :=
  ∀ g acc lo o, good o → Inv cfg g.last acc lo → loLe lo o.t →
    (step g o).2 = Spec.accepts P cfg acc o ∧
    Inv cfg (step g o).1.last (if Spec.accepts P cfg acc o then o.t :: acc else acc) (some o.t)

def allOcc (good : Occ → Prop) : List Ev → Prop
  | [] => True
  | .direct :: es => allOcc good es
  | .occ o :: es => good o ∧ allOcc good es

theorem runWith_spec (P : Params) (cfg : Cfg) (good : Occ → Prop) (step : GState → Occ → GState × Bool)
    (hs : StepOK P cfg good step) (es : List Ev) (g : GState) (acc : List Nat) (lo : Option Nat)
    (hg : allOcc good es) (hm : Mono es lo) (hi : Inv cfg g.last acc lo) :
    runWith step es g = Spec.runs P cfg es acc := by
  induction es generalizing g acc lo with
  | nil => rfl
  | cons e es ih =>
    cases e with
    | direct =>
      simp only [runWith, Spec.runs]
      rw [ih g acc lo hg hm hi]
    | occ o =>
      simp only [Mono] at hm
      obtain ⟨hg1, hg2⟩ := hg
      obtain ⟨h1, h2⟩ := hs g acc lo o hg1 hi (by cases lo <;> simp_all [loLe])
      simp only [runWith, Spec.runs]
      rw [h1, ih _ _ (some o.t) hg2 hm.2 h2]

theorem inv_init (cfg : Cfg) : Inv cfg GState.init.last [] none := by
  simp [Inv, GState.init]

/-- under the invariant, "no accepted instant within hold_off" is what the single-variable test computes -/
theorem clear_eq (cfg : Cfg) (last : Option Nat) (acc : List Nat) (lo : Option Nat) (t : Nat)
    (hi : Inv cfg last acc lo) (hlo : loLe lo t) :
    Spec.clear cfg acc t = !heldOff (if cfg.timeActive then cfg.holdOff else none) last t := by
  obtain ⟨hb, hl, hr⟩ := hi
  have hle : ∀ a ∈ acc, a ≤ t := by
    intro a ha
    obtain ⟨l, rfl, hl⟩ := hb a ha
    simp only [loLe] at hlo
    omega
  by_cases hN : 0 < Spec.holdN cfg
  · have hr := hr hN
    simp only [Spec.holdN] at hN
    cases hta : cfg.timeActive with
    | false => simp [hta] at hN
    | true =>
      simp only [hta, if_true] at hN ⊢
      cases hh : cfg.holdOff with
      | none => simp [hh] at hN
      | some n =>
        cases last with
        | none =>
          simp only at hr
          simp [Spec.clear, hr, heldOff]
        | some l =>
          simp only at hr
          obtain ⟨hm, hmax⟩ := hr
          simp only [Spec.clear, Spec.holdN, hta, hh, if_true, Option.getD_some, heldOff]
          by_cases hc : t < l + n
          · simp only [hc, decide_true, Bool.not_true, List.all_eq_false, decide_eq_true_eq]
            exact ⟨l, hm, by omega⟩
          · simp only [hc, decide_false, Bool.not_false, List.all_eq_true, decide_eq_true_eq]
            intro a ha
            have := hmax a ha
            omega
  · have hz : Spec.holdN cfg = 0 := by omega
    have hclear : Spec.clear cfg acc t = true := by
      simp only [Spec.clear, hz, List.all_eq_true, decide_eq_true_eq]
      intro a ha
      have := hle a ha
      omega
    rw [hclear]
    simp only [Spec.holdN] at hz
    cases hta : cfg.timeActive with
    | false => simp [heldOff]
    | true =>
      simp only [hta, if_true] at hz ⊢
      cases hh : cfg.holdOff with
      | none => simp [heldOff]
      | some n =>
        simp only [hh, Option.getD_some] at hz
        subst hz
        cases last with
        | none => simp [heldOff]
        | some l =>
          obtain ⟨b, rfl, hb2⟩ := hl l rfl
          simp only [loLe] at hlo
          simp only [heldOff, Nat.add_zero, Bool.not_eq_true', decide_eq_false_iff_not, Bool.true_eq]
          simp
          omega

/-- accepting at `t` (≥ everything so far) re-establishes the invariant with `last = t` -/
theorem inv_accept (cfg : Cfg) (last : Option Nat) (acc : List Nat) (lo : Option Nat) (t : Nat)
    (hi : Inv cfg last acc lo) (hlo : loLe lo t) : Inv cfg (some t) (t :: acc) (some t) := by
  obtain ⟨hb, _, _⟩ := hi
  have hle : ∀ a ∈ acc, a ≤ t := by
    intro a ha
    obtain ⟨l, rfl, hl⟩ := hb a ha
    simp only [loLe] at hlo
    omega
  refine ⟨?_, ?_, ?_⟩
  · intro a ha
    simp only [List.mem_cons] at ha
    rcases ha with rfl | ha
    · exact ⟨a, rfl, Nat.le_refl _⟩
    · exact ⟨t, rfl, hle a ha⟩
  · intro l hl
    exact ⟨t, rfl, by simp at hl; omega⟩
  · intro _
    refine ⟨by simp, ?_⟩
    intro a ha
    simp only [List.mem_cons] at ha
    rcases ha with rfl | ha
    · exact Nat.le_refl _
    · exact hle a ha

/-- rejecting keeps the invariant (only the time bound moves) -/
theorem inv_reject (cfg : Cfg) (last : Option Nat) (acc : List Nat) (lo : Option Nat) (t : Nat)
    (hi : Inv cfg last acc lo) (hlo : loLe lo t) : Inv cfg last acc (some t) := by
  obtain ⟨hb, hl, hr⟩ := hi
  refine ⟨?_, ?_, hr⟩
  · intro a ha
    obtain ⟨l, rfl, hl⟩ := hb a ha
    simp only [loLe] at hlo
    exact ⟨t, rfl, by omega⟩
  · intro l h
    obtain ⟨b, rfl, hb2⟩ := hl l h
    simp only [loLe] at hlo
    exact ⟨t, rfl, by omega⟩

/-- occurrences whose `@state_active` value cannot depend on a left-over table -/
def NoStale (F : Flags) (o : Occ) : Prop :=
  F.staleLocals = true → o.env = true ∨ ∀ k, (lookupStale k o.saStale).getD o.sa = o.sa

theorem seen_eq (F : Flags) (o : Occ) (tbl : Nat) (h : NoStale F o) : o.seen F tbl = o.sa := by
  simp only [Occ.seen]
  cases hf : F.staleLocals with
  | false => simp
  | true =>
    rcases h hf with he | hk
    · simp [he]
    · split
      · exact hk tbl
      · rfl

theorem Legacy.guards_eq (F : Flags) (P : Params) (cfg : Cfg) (o : Occ) (tbl : Nat) (h : NoStale F o) :
    Legacy.guards F P cfg o tbl = Spec.guardsOk P cfg o := by
  simp only [Legacy.guards, Legacy.afterTime, Legacy.afterState, Spec.guardsOk, activeOk_eq, seen_eq F o tbl h]
  cases o.trigOk <;> cases cfg.stateActive <;> cases o.sa.truth <;> cases cfg.timeActive <;>
    cases hs : cfg.specs <;> simp [Spec.resolves, Spec.window]

theorem Legacy.stepOK (F : Flags) (P : Params) (cfg : Cfg) : StepOK P cfg (NoStale F) (Legacy.step F P cfg) := by
  intro g acc lo o hgood hi hlo
  have hc := clear_eq cfg g.last acc lo o.t hi hlo
  simp only [Legacy.step, Legacy.guards_eq F P cfg o g.tbl hgood, Spec.accepts, hc]
  cases hg : Spec.guardsOk P cfg o with
  | false => simpa using inv_reject cfg g.last acc lo o.t hi hlo
  | true =>
    cases hh : heldOff (if cfg.timeActive then cfg.holdOff else none) g.last o.t with
    | true => simpa using inv_reject cfg g.last acc lo o.t hi hlo
    | false => simpa using inv_accept cfg g.last acc lo o.t hi hlo

/-! ## several trigger tasks of one function (legacy) -/

theorem Legacy.runGroups_single (F : Flags) (P : Params) (cfg : Cfg) (k : Nat) (es : List (Nat × Ev)) (gs : Nat → GState)
    (h : ∀ e ∈ es, e.1 = k) : Legacy.runGroups F P cfg es gs = Legacy.run F P cfg (es.map (·.2)) (gs k) := by
  induction es generalizing gs with
  | nil => rfl
  | cons e es ih =>
    obtain ⟨j, ev⟩ := e
    have hj : j = k := h (j, ev) (by simp)
    subst hj
    have ih' := fun gs' => ih gs' (fun e he => h e (by simp [he]))
    cases ev with
    | direct => simp [Legacy.runGroups, Legacy.run, ih']
    | occ o => simp [Legacy.runGroups, Legacy.run, ih']

/-- without a hold-off (and without stale tables) the decision of a step does not depend on the task's state -/
theorem Legacy.step_snd_holdfree (F : Flags) (hF : F.staleLocals = false) (P : Params) (cfg : Cfg)
    (hh : cfg.timeActive = false ∨ cfg.holdOff = none) (g g' : GState) (o : Occ) :
    (Legacy.step F P cfg g o).2 = (Legacy.step F P cfg g' o).2 := by
  have hheld : ∀ l : Option Nat, heldOff (if cfg.timeActive then cfg.holdOff else none) l o.t = false := by
    intro l
    rcases hh with h | h
    · simp [h, heldOff]
    · cases cfg.timeActive <;> simp [h, heldOff]
  have hg : ∀ tbl tbl', Legacy.guards F P cfg o tbl = Legacy.guards F P cfg o tbl' := by
    intro tbl tbl'
    simp [Legacy.guards, Legacy.afterState, Occ.seen, hF]
  simp only [Legacy.step, hheld]
  rw [hg g.tbl g'.tbl]
  cases Legacy.guards F P cfg o g'.tbl <;> simp

theorem Legacy.runGroups_holdfree (F : Flags) (hF : F.staleLocals = false) (P : Params) (cfg : Cfg)
    (hh : cfg.timeActive = false ∨ cfg.holdOff = none) (es : List (Nat × Ev)) (gs : Nat → GState) (g : GState) :
    Legacy.runGroups F P cfg es gs = Legacy.run F P cfg (es.map (·.2)) g := by
  induction es generalizing gs g with
  | nil => rfl
  | cons e es ih =>
    obtain ⟨k, ev⟩ := e
    cases ev with
    | direct => simp [Legacy.runGroups, Legacy.run, ih _ g]
    | occ o =>
      simp only [Legacy.runGroups, Legacy.run, List.map_cons]
      rw [Legacy.step_snd_holdfree F hF P cfg hh (gs k) g o, ih _ (Legacy.step F P cfg g o).1]

/-! ## runs only come from triggers; direct calls -/

theorem runWith_length (step : GState → Occ → GState × Bool) (es : List Ev) (g : GState) :
    (runWith step es g).length = es.length := by
  induction es generalizing g with
  | nil => rfl
  | cons e es ih => cases e <;> simp [runWith, ih]

theorem runWith_triggered (step : GState → Occ → GState × Bool)
    (hs : ∀ g o, (step g o).2 = true → o.trigOk = true) (es : List Ev) (g : GState) (i : Nat)
    (h : (runWith step es g)[i]? = some true) : ∃ e : Ev, es[i]? = some e ∧ e.triggered = true := by
  induction es generalizing g i with
  | nil => simp [runWith] at h
  | cons e es ih =>
    cases i with
    | zero =>
      cases e with
      | direct => exact ⟨.direct, rfl, rfl⟩
      | occ o =>
        simp only [runWith, List.getElem?_cons_zero, Option.some.injEq] at h
        exact ⟨.occ o, rfl, hs g o h⟩
    | succ i =>
      cases e with
      | direct =>
        simp only [runWith, List.getElem?_cons_succ] at h ⊢
        exact ih g i h
      | occ o =>
        simp only [runWith, List.getElem?_cons_succ] at h ⊢
        exact ih _ i h

theorem runWith_direct (step : GState → Occ → GState × Bool) (es : List Ev) (g : GState) (i : Nat)
    (h : es[i]? = some Ev.direct) : (runWith step es g)[i]? = some true := by
  induction es generalizing g i with
  | nil => simp at h
  | cons e es ih =>
    cases i with
    | zero =>
      simp only [List.getElem?_cons_zero, Option.some.injEq] at h
      subst h
      rfl
    | succ i =>
      simp only [List.getElem?_cons_succ] at h
      cases e <;> simp only [runWith, List.getElem?_cons_succ] <;> exact ih _ i h

theorem runWith_dropDirect (step : GState → Occ → GState × Bool) (es : List Ev) (g : GState) :
    occFlags es (runWith step es g) = runWith step (es.filter (fun e => !e.isDirect)) g := by
  induction es generalizing g with
  | nil => rfl
  | cons e es ih =>
    cases e with
    | direct =>
      have h : (!Ev.direct.isDirect) = false := rfl
      simp only [runWith, occFlags, List.filter_cons, h, Bool.false_eq_true, if_false]
      exact ih g
    | occ o =>
      have h : (!(Ev.occ o).isDirect) = true := rfl
      simp only [runWith, occFlags, List.filter_cons, h, if_true]
      rw [ih]

theorem Legacy.step_triggered (F : Flags) (P : Params) (cfg : Cfg) (g : GState) (o : Occ)
    (h : (Legacy.step F P cfg g o).2 = true) : o.trigOk = true := by
  cases ht : o.trigOk with
  | true => rfl
  | false => simp [Legacy.step, Legacy.guards, Legacy.afterState, Legacy.afterTime, ht] at h

theorem New.step_triggered (F : Flags) (P : Params) (cfg : Cfg) (g : GState) (o : Occ)
    (h : (New.step F P cfg g o).2 = true) : o.trigOk = true := by
  cases ht : o.trigOk with
  | true => rfl
  | false => simp [New.step, ht] at h

theorem allOcc_of_mem (good : Occ → Prop) (es : List Ev) (h : ∀ o, Ev.occ o ∈ es → good o) : allOcc good es := by
  induction es with
  | nil => trivial
  | cons e es ih =>
    cases e with
    | direct => exact ih (fun o ho => h o (by simp [ho]))
    | occ o => exact ⟨h o (by simp), ih (fun o' ho => h o' (by simp [ho]))⟩

/-! ## new subsystem -/

/-- occurrences on which the per-argument check, the identity test and a left-over table cannot be told from the
    intended behaviour -/
def New.Good (F : Flags) (P : Params) (cfg : Cfg) (o : Occ) : Prop :=
  (F.perArg = true → cfg.specs.length ≤ 1 ∨
      ((∀ a ∈ cfg.specs, a.neg = false) ∧ Spec.resolves P o.wall cfg.startup cfg.specs = true)) ∧
  (F.identityFalse = true → cfg.stateActive = true → o.sa ≠ .falsy) ∧
  NoStale F o

/-- configurations in which early stamping cannot be observed -/
def New.CfgOK (F : Flags) (cfg : Cfg) : Prop :=
  F.stampEarly = true → cfg.saFirst = true ∨ cfg.stateActive = false ∨ Spec.holdN cfg = 0

theorem New.firstMatch_eq_any (P : Params) (now st : Int) (specs : List ASpec) :
    New.firstMatch P now st specs = specs.any (fun a => activeOk P [a] now st) := by
  induction specs with
  | nil => rfl
  | cons a rest ih =>
    simp only [New.firstMatch, List.any_cons, ih]
    cases activeOk P [a] now st <;> simp

theorem any_congr_mem {α : Type} (l : List α) (f g : α → Bool) (h : ∀ a ∈ l, f a = g a) : l.any f = l.any g := by
  induction l with
  | nil => rfl
  | cons x xs ih =>
    simp only [List.any_cons, h x (by simp), ih (fun a ha => h a (by simp [ha]))]

theorem activeOk_single_pos (P : Params) (a : ASpec) (now st : Int) (hn : a.neg = false)
    (hr : (Spec.hit P now st a).isSome = true) : activeOk P [a] now st = Spec.hitB P now st a := by
  simp [activeOk_eq, Spec.resolves, Spec.window, hn, hr]

theorem New.taCheck_eq (F : Flags) (P : Params) (cfg : Cfg) (o : Occ) (hg : New.Good F P cfg o)
    (hlen : cfg.specs.length > 0) : New.taCheck F P cfg o = activeOk P cfg.specs o.wall cfg.startup := by
  simp only [New.taCheck]
  cases hp : F.perArg with
  | false => simp
  | true =>
    simp only [if_true, New.firstMatch_eq_any]
    rcases hg.1 hp with h1 | ⟨hpos, hres⟩
    · match hs : cfg.specs, hlen, h1 with
      | [a], _, _ => simp
      | [], hl, _ => simp [hs] at hlen
      | _ :: _ :: _, _, h => simp at h
    · have hall : ∀ a ∈ cfg.specs, activeOk P [a] o.wall cfg.startup = Spec.hitB P o.wall cfg.startup a := by
        intro a ha
        apply activeOk_single_pos P a _ _ (hpos a ha)
        simp only [Spec.resolves, List.all_eq_true] at hres
        exact hres a ha
      have hf1 : cfg.specs.filter (fun a => !a.neg) = cfg.specs := by
        apply List.filter_eq_self.mpr
        intro a ha; simp [hpos a ha]
      have hf2 : cfg.specs.filter (fun a => a.neg) = [] := by
        apply List.filter_eq_nil_iff.mpr
        intro a ha; simp [hpos a ha]
      have hne : cfg.specs.isEmpty = false := by
        cases hs : cfg.specs with
        | nil => simp [hs] at hlen
        | cons _ _ => rfl
      rw [activeOk_eq, hres]
      simp only [Spec.window, hf1, hf2, hne, Bool.false_or, List.all_nil, Bool.and_true, Bool.true_and]
      exact any_congr_mem _ _ _ hall

theorem New.saPass_eq (F : Flags) (P : Params) (cfg : Cfg) (o : Occ) (tbl : Nat) (hg : New.Good F P cfg o)
    (hsa : cfg.stateActive = true) : New.saPass F o tbl = o.sa.truth := by
  simp only [New.saPass, seen_eq F o tbl hg.2.2]
  cases hi : F.identityFalse with
  | false => simp
  | true =>
    have := hg.2.1 hi hsa
    cases hs : o.sa <;> simp_all [AVal.truth]

theorem New.taPass_eq (F : Flags) (P : Params) (cfg : Cfg) (last : Option Nat) (o : Occ) (hg : New.Good F P cfg o) :
    New.taPass F P cfg last o =
      (!heldOff cfg.holdOff last o.t && (Spec.resolves P o.wall cfg.startup cfg.specs && Spec.window P cfg.specs o.wall cfg.startup)) := by
  simp only [New.taPass]
  cases heldOff cfg.holdOff last o.t with
  | true => simp
  | false =>
    by_cases hlen : cfg.specs.length > 0
    · simp only [hlen, if_true, New.taCheck_eq F P cfg o hg hlen, activeOk_eq]
      simp
    · have : cfg.specs = [] := by
        cases hs : cfg.specs with
        | nil => rfl
        | cons _ _ => simp [hs] at hlen
      simp [this, Spec.resolves, Spec.window]

/-- with no hold-off in force any stamping keeps the invariant -/
theorem inv_zero (cfg : Cfg) (last last' : Option Nat) (acc acc' : List Nat) (lo : Option Nat) (t : Nat)
    (hz : Spec.holdN cfg = 0) (hi : Inv cfg last acc lo) (hlo : loLe lo t)
    (hl : last' = last ∨ last' = some t) (ha : acc' = acc ∨ acc' = t :: acc) : Inv cfg last' acc' (some t) := by
  have h1 := inv_reject cfg last acc lo t hi hlo
  obtain ⟨hb, hl2, _⟩ := h1
  refine ⟨?_, ?_, by intro h; omega⟩
  · intro a haa
    rcases ha with rfl | rfl
    · exact hb a haa
    · simp only [List.mem_cons] at haa
      rcases haa with rfl | haa
      · exact ⟨a, rfl, Nat.le_refl _⟩
      · exact hb a haa
  · intro l hll
    rcases hl with rfl | rfl
    · exact hl2 l hll
    · simp at hll; exact ⟨t, rfl, by omega⟩

theorem New.stepOK (F : Flags) (P : Params) (cfg : Cfg) (hcfg : New.CfgOK F cfg) :
    StepOK P cfg (New.Good F P cfg) (New.step F P cfg) := by
  intro g acc lo o hgood hi hlo
  have hc := clear_eq cfg g.last acc lo o.t hi hlo
  have hrej := inv_reject cfg g.last acc lo o.t hi hlo
  have hacc := inv_accept cfg g.last acc lo o.t hi hlo
  have hta := New.taPass_eq F P cfg g.last o hgood
  have hsa := fun tbl => New.saPass_eq F P cfg o tbl hgood
  simp only [New.step, Spec.accepts, Spec.guardsOk, hc, Cfg.handlers]
  cases htr : o.trigOk with
  | false => simpa using hrej
  | true =>
    cases hsA : cfg.stateActive with
    | false =>
      cases htA : cfg.timeActive with
      | false =>
        have hz : Spec.holdN cfg = 0 := by simp [Spec.holdN, htA]
        have := inv_zero cfg g.last g.last acc (o.t :: acc) lo o.t hz hi hlo (Or.inl rfl) (Or.inr rfl)
        cases cfg.saFirst <;> simpa [New.handlersLoop, heldOff] using this
      | true =>
        have e : (if cfg.saFirst = true then ([] : List Handler) ++ [Handler.ta] else [Handler.ta] ++ []) = [Handler.ta] := by
          cases cfg.saFirst <;> rfl
        simp only [if_true, if_false, Bool.false_eq_true, e, New.handlersLoop, hta, Bool.not_false, Bool.true_or,
          Bool.and_true, Bool.true_and, Bool.not_true, Bool.false_or]
        cases heldOff cfg.holdOff g.last o.t <;>
          cases (Spec.resolves P o.wall cfg.startup cfg.specs && Spec.window P cfg.specs o.wall cfg.startup) <;>
          simp <;> first | exact hrej | exact hacc
    | true =>
      have hsa := fun tbl => hsa tbl hsA
      cases htA : cfg.timeActive with
      | false =>
        have hz : Spec.holdN cfg = 0 := by simp [Spec.holdN, htA]
        have e : (if cfg.saFirst = true then [Handler.sa] ++ ([] : List Handler) else [] ++ [Handler.sa]) = [Handler.sa] := by
          cases cfg.saFirst <;> rfl
        have h1 := inv_zero cfg g.last g.last acc (o.t :: acc) lo o.t hz hi hlo (Or.inl rfl) (Or.inr rfl)
        simp only [if_true, if_false, Bool.false_eq_true, e, New.handlersLoop, hsa, heldOff]
        cases o.sa.truth <;> simp <;> first | exact hrej | exact h1
      | true =>
        cases hsf : cfg.saFirst with
        | true =>
          simp only [if_true, List.cons_append, List.nil_append, New.handlersLoop, hsa, hta]
          cases o.sa.truth <;> cases heldOff cfg.holdOff g.last o.t <;>
            cases (Spec.resolves P o.wall cfg.startup cfg.specs && Spec.window P cfg.specs o.wall cfg.startup) <;>
            simp <;> first | exact hrej | exact hacc
        | false =>
          simp only [if_true, if_false, Bool.false_eq_true, List.cons_append, List.nil_append, New.handlersLoop,
            hsa, hta]
          cases hst : F.stampEarly with
          | false =>
            cases o.sa.truth <;> cases heldOff cfg.holdOff g.last o.t <;>
              cases (Spec.resolves P o.wall cfg.startup cfg.specs && Spec.window P cfg.specs o.wall cfg.startup) <;>
              simp <;> first | exact hrej | exact hacc
          | true =>
            have hz : Spec.holdN cfg = 0 := by
              rcases hcfg hst with h | h | h
              · simp [hsf] at h
              · simp [hsA] at h
              · exact h
            have h1 := inv_zero cfg g.last (some o.t) acc acc lo o.t hz hi hlo (Or.inr rfl) (Or.inl rfl)
            cases o.sa.truth <;> cases heldOff cfg.holdOff g.last o.t <;>
              cases (Spec.resolves P o.wall cfg.startup cfg.specs && Spec.window P cfg.specs o.wall cfg.startup) <;>
              simp <;> first | exact hrej | exact hacc | exact h1

end PsModel.C07
