import PsModel.Spec.C01
set_option linter.unusedSectionVars false
set_option linter.unusedSimpArgs false
set_option linter.unusedVariables false
/-!
# C01 lemmas – the scope of comprehension loop variables on the flat store

`Store.hide σ U` = the store in which the names `U` are unbound.  Python runs a comprehension in a fresh scope: all loop
variables are unbound until their generator binds them.  pyscript runs it in the enclosing table, where a loop variable
keeps the enclosing value until it is assigned.  The two runs stay related by `σ_python = hide σ_pyscript U'` for a set
`U'` of still-unbound loop variables, as long as no clause mentions a name that may be unbound (`earlyFree`); evaluation
commutes with `hide` (`eval_hide`, by structural recursion over the whole syntax), assignment to a target shrinks the
hidden set (`assign_minus`), and `Store.restore` forgets the difference (`restore_hide_sub`).
-/
namespace PsModel.C01

variable {W : Type}

@[simp] theorem py_dictKeyFirst : Cfg.python.dictKeyFirst = true := rfl
@[simp] theorem py_callArgsFirst : Cfg.python.callArgsFirst = true := rfl
@[simp] theorem py_compareOnce : Cfg.python.compareOnce = true := rfl
@[simp] theorem py_augTargetOnce : Cfg.python.augTargetOnce = true := rfl
@[simp] theorem py_augInPlace : Cfg.python.augInPlace = true := rfl
@[simp] theorem py_fstrConversion : Cfg.python.fstrConversion = true := rfl
@[simp] theorem py_dupKwCheck : Cfg.python.dupKwCheck = true := rfl
@[simp] theorem py_listTarget : Cfg.python.listTarget = true := rfl
@[simp] theorem py_uaddApplies : Cfg.python.uaddApplies = true := rfl

@[simp] theorem bind_ok {α β} (a : α) (w : W) (k : α → W → R W β) : bind ((.ok a, w) : R W α) k = k a w := rfl
@[simp] theorem bind_err {α β} (e : Exc) (w : W) (k : α → W → R W β) :
    bind ((.error e, w) : R W α) k = (.error e, w) := rfl

theorem bind_congr {α β} {r r' : R W α} {k k' : α → W → R W β} (hr : r = r') (hk : ∀ a w, k a w = k' a w) :
    bind r k = bind r' k' := by
  subst hr
  rcases r with ⟨(e | a), w⟩
  · rfl
  · exact hk a w

/-- a configuration with every handler in its Python shape -/
structure AllOn (py : Cfg) : Prop where
  dictKeyFirst : py.dictKeyFirst = true
  callArgsFirst : py.callArgsFirst = true
  compareOnce : py.compareOnce = true
  augTargetOnce : py.augTargetOnce = true
  augInPlace : py.augInPlace = true
  fstrConversion : py.fstrConversion = true
  dupKwCheck : py.dupKwCheck = true
  listTarget : py.listTarget = true
  uaddApplies : py.uaddApplies = true
  kwGroupMerge : py.kwGroupMerge = true
  compFresh : py.compFresh = true

theorem allOn_python : AllOn Cfg.python := ⟨rfl, rfl, rfl, rfl, rfl, rfl, rfl, rfl, rfl, rfl, rfl⟩

/-! ### store algebra -/

theorem hide_eq (σ : Store) (U : List String) : Store.hide σ U = σ.filter (fun p => decide (p.1 ∉ U)) := by
  simp [Store.hide, List.contains_eq_mem]

theorem hide_nil (σ : Store) : Store.hide σ [] = σ := by simp [hide_eq]

theorem hide_cons_in (p : String × Val) (r : Store) (U : List String) (h : p.1 ∈ U) :
    Store.hide (p :: r) U = Store.hide r U := by simp [hide_eq, List.filter_cons, h]

theorem hide_cons_notin (p : String × Val) (r : Store) (U : List String) (h : p.1 ∉ U) :
    Store.hide (p :: r) U = p :: Store.hide r U := by simp [hide_eq, List.filter_cons, h]

theorem get_cons (p : String × Val) (r : Store) (x : String) :
    Store.get (p :: r) x = if p.1 = x then some p.2 else Store.get r x := by
  by_cases h : p.1 = x <;> simp [Store.get, List.find?_cons, h]

theorem get_hide (U : List String) (x : String) (hx : x ∉ U) (σ : Store) :
    Store.get (Store.hide σ U) x = Store.get σ x := by
  induction σ with
  | nil => rfl
  | cons p r ih =>
    by_cases hp : p.1 ∈ U
    · have hne : ¬ p.1 = x := fun h => hx (h ▸ hp)
      rw [hide_cons_in p r U hp, get_cons, if_neg hne, ih]
    · rw [hide_cons_notin p r U hp, get_cons, get_cons, ih]

theorem del_eq (σ : Store) (x : String) : Store.del σ x = σ.filter (fun p => decide (p.1 ≠ x)) := by
  simp [Store.del, bne]
  congr 1

theorem set_eq (σ : Store) (x : String) (v : Val) : Store.set σ x v = (x, v) :: Store.del σ x := rfl

theorem hide_del (σ : Store) (U : List String) (x : String) :
    Store.del (Store.hide σ U) x = Store.hide (Store.del σ x) U := by
  simp only [hide_eq, del_eq, List.filter_filter]
  congr 1; funext p; exact Bool.and_comm _ _

theorem hide_hide_comm (σ : Store) (A B : List String) :
    Store.hide (Store.hide σ A) B = Store.hide (Store.hide σ B) A := by
  simp only [hide_eq, List.filter_filter]
  congr 1; funext p; exact Bool.and_comm _ _

theorem hide_set_notin (σ : Store) (U : List String) (x : String) (v : Val) (hx : x ∉ U) :
    Store.set (Store.hide σ U) x v = Store.hide (Store.set σ x v) U := by
  rw [set_eq, set_eq, hide_cons_notin _ _ _ (by simpa using hx), hide_del]

theorem mem_minus (U ns : List String) (x : String) : x ∈ minus U ns ↔ x ∈ U ∧ x ∉ ns := by
  simp [minus, List.contains_eq_mem]

theorem hide_del_minus (σ : Store) (U : List String) (x : String) :
    Store.hide (Store.del σ x) (minus U [x]) = Store.del (Store.hide σ U) x := by
  simp only [hide_eq, del_eq, List.filter_filter]
  apply List.filter_congr
  intro p _
  by_cases h : p.1 = x <;> simp [mem_minus, h]

/-- assigning `x` binds it: `x` leaves the hidden set -/
theorem hide_set_minus (σ : Store) (U : List String) (x : String) (v : Val) :
    Store.set (Store.hide σ U) x v = Store.hide (Store.set σ x v) (minus U [x]) := by
  rw [set_eq, set_eq, hide_cons_notin _ _ _ (by simp [mem_minus]), hide_del_minus]

theorem minus_nil (U : List String) : minus U [] = U := by simp [minus]

theorem minus_minus (U a b : List String) : minus (minus U a) b = minus U (a ++ b) := by
  simp only [minus, List.filter_filter]
  apply List.filter_congr
  intro x _
  by_cases ha : x ∈ a <;> by_cases hb : x ∈ b <;> simp [List.contains_eq_mem, ha, hb]

theorem avoids_iff (U ns : List String) : avoids U ns = true ↔ ∀ x ∈ ns, x ∉ U := by
  simp [avoids, List.contains_eq_mem]

theorem avoids_append (U a b : List String) : avoids U (a ++ b) = (avoids U a && avoids U b) := by
  simp [avoids, List.all_append]

theorem avoids_cons (U : List String) (x : String) (b : List String) :
    avoids U (x :: b) = (decide (x ∉ U) && avoids U b) := by
  simp [avoids, List.contains_eq_mem]

theorem avoids_nil (U : List String) : avoids U [] = true := rfl

/-- fewer hidden names: still avoided -/
theorem avoids_sub (U U' ns : List String) (hs : ∀ x ∈ U', x ∈ U) (h : avoids U ns = true) : avoids U' ns = true := by
  rw [avoids_iff] at h ⊢
  exact fun x hx hx' => h x hx (hs x hx')

theorem minus_sub (U ns : List String) : ∀ x ∈ minus U ns, x ∈ U := fun x hx => ((mem_minus U ns x).1 hx).1

theorem minus_sub_minus (U U' ns : List String) (hs : ∀ x ∈ U', x ∈ U) : ∀ x ∈ minus U' ns, x ∈ minus U ns := by
  intro x hx
  rw [mem_minus] at hx ⊢
  exact ⟨hs x hx.1, hx.2⟩

theorem minus_of_avoids (U ns : List String) (h : avoids U ns = true) : minus U ns = U := by
  rw [avoids_iff] at h
  simp only [minus, List.filter_eq_self, List.contains_eq_mem]
  intro x hx
  simpa using fun hn => h x hn hx

/-- what `loopvar_scope_restore` leaves depends on the store only outside the restored names -/
theorem hide_set_cons (σ : Store) (x : String) (v : Val) (r : List String) :
    Store.hide (Store.set σ x v) r = (if x ∈ r then [] else [(x, v)]) ++ Store.hide σ (x :: r) := by
  have h2 : Store.hide (Store.del σ x) r = Store.hide σ (x :: r) := by
    simp only [hide_eq, del_eq, List.filter_filter]
    apply List.filter_congr
    intro p _
    by_cases h : p.1 = x <;> simp [h]
  by_cases hx : x ∈ r
  · rw [set_eq, hide_cons_in _ _ _ (by simpa using hx), h2]; simp [hx]
  · rw [set_eq, hide_cons_notin _ _ _ (by simpa using hx), h2]; simp [hx]

theorem hide_del_cons (σ : Store) (x : String) (r : List String) :
    Store.hide (Store.del σ x) r = Store.hide σ (x :: r) := by
  simp only [hide_eq, del_eq, List.filter_filter]
  apply List.filter_congr
  intro p _
  by_cases h : p.1 = x <;> simp [h]

theorem restore_congr (saved : Store) : ∀ (L : List String) (s s' : Store), Store.hide s L = Store.hide s' L →
    Store.restore s saved L = Store.restore s' saved L
  | [], s, s', h => by simpa [hide_nil, Store.restore] using h
  | x :: r, s, s', h => by
    simp only [Store.restore]
    apply restore_congr saved r
    cases Store.get saved x with
    | none => simp only [hide_del_cons, h]
    | some v => simp only [hide_set_cons, h]

/-- names hidden inside the comprehension make no difference once the loop variables are restored -/
theorem restore_hide_sub (saved s : Store) (L U' : List String) (hs : ∀ x ∈ U', x ∈ L) :
    Store.restore (Store.hide s U') saved L = Store.restore s saved L := by
  apply restore_congr
  simp only [hide_eq, List.filter_filter]
  apply List.filter_congr
  intro p _
  by_cases h : p.1 ∈ L
  · simp [h]
  · have : p.1 ∉ U' := fun hu => h (hs _ hu)
    simp [h, this]

/-- an inner comprehension whose loop variables are not among the hidden names: restoring commutes with hiding -/
theorem restore_hide_comm (U : List String) (saved : Store) : ∀ (L : List String) (s : Store), avoids U L = true →
    Store.restore (Store.hide s U) (Store.hide saved U) L = Store.hide (Store.restore s saved L) U
  | [], s, _ => rfl
  | x :: r, s, h => by
    rw [avoids_cons, Bool.and_eq_true, decide_eq_true_eq] at h
    simp only [Store.restore, get_hide U x h.1]
    cases Store.get saved x with
    | none =>
      simp only [hide_del]
      exact restore_hide_comm U saved r _ h.2
    | some v =>
      simp only [hide_set_notin _ _ _ _ h.1]
      exact restore_hide_comm U saved r _ h.2

/-! ### results up to a store transformation -/

def mapR {β : Type} (f : β → β) (r : R W β) : R W β :=
  match r with
  | (.ok a, w) => (.ok (f a), w)
  | (.error e, w) => (.error e, w)

/-- apply a store transformation to the store component of a result -/
def vs {α : Type} (h : Store → Store) : α × Store → α × Store := fun a => (a.1, h a.2)

@[simp] theorem mapR_ok {β} (f : β → β) (a : β) (w : W) : mapR f ((.ok a, w) : R W β) = (.ok (f a), w) := rfl
@[simp] theorem mapR_err {β} (f : β → β) (e : Exc) (w : W) : mapR f ((.error e, w) : R W β) = (.error e, w) := rfl

theorem mapR_id {β} (f : β → β) (hf : ∀ a, f a = a) (r : R W β) : mapR f r = r := by
  rcases r with ⟨(e | a), w⟩ <;> simp [hf]

theorem bind_mapR_left {α β} (f : α → α) (g : β → β) (r : R W α) (k k' : α → W → R W β)
    (hk : ∀ a w, k' (f a) w = mapR g (k a w)) : bind (mapR f r) k' = mapR g (bind r k) := by
  rcases r with ⟨(e | a), w⟩
  · rfl
  · exact hk a w

theorem ite_mapR {β} (c : Prop) [Decidable c] (g : β → β) (a a' b b' : R W β) (h1 : a' = mapR g a) (h2 : b' = mapR g b) :
    (if c then a' else b') = mapR g (if c then a else b) := by
  split <;> assumption

theorem bind_mapR_plain {α β} (g : β → β) (r : R W α) (k k' : α → W → R W β)
    (hk : ∀ a w, k' a w = mapR g (k a w)) : bind r k' = mapR g (bind r k) := by
  rcases r with ⟨(e | a), w⟩
  · rfl
  · exact hk a w

/-! ### names bound by a target are among its names -/

theorem avoids_of_sub (U a b : List String) (hs : ∀ x ∈ a, x ∈ b) (h : avoids U b = true) : avoids U a = true := by
  rw [avoids_iff] at h ⊢
  exact fun x hx => h x (hs x hx)

mutual
theorem names_sub_vars : ∀ (t : Target) (x : String), x ∈ t.names → x ∈ t.vars
  | .name y, x, h => by simpa [Target.names, Target.vars] using h
  | .sub _ _, x, h => by simp [Target.names] at h
  | .attr _ _, x, h => by simp [Target.names] at h
  | .tup _ b s a, x, h => by
    simp only [Target.names, Target.vars, List.mem_append] at h ⊢
    rcases h with h | h | h
    · exact Or.inl (namesL_sub_vars b x h)
    · exact Or.inr (Or.inl h)
    · exact Or.inr (Or.inr (namesL_sub_vars a x h))
theorem namesL_sub_vars : ∀ (ts : List Target) (x : String), x ∈ Target.namesL ts → x ∈ varsTargets ts
  | [], x, h => by simp [Target.namesL] at h
  | t :: ts, x, h => by
    simp only [Target.namesL, varsTargets, List.mem_append] at h ⊢
    exact h.elim (fun h => Or.inl (names_sub_vars t x h)) (fun h => Or.inr (namesL_sub_vars ts x h))
end

mutual
theorem exprVars_sub_vars : ∀ (t : Target) (x : String), x ∈ t.exprVars → x ∈ t.vars
  | .name y, x, h => by simp [Target.exprVars] at h
  | .sub _ _, x, h => by simpa [Target.exprVars, Target.vars] using h
  | .attr _ _, x, h => by simpa [Target.exprVars, Target.vars] using h
  | .tup _ b s a, x, h => by
    simp only [Target.exprVars, Target.vars, List.mem_append] at h ⊢
    rcases h with h | h
    · exact Or.inl (exprVarsL_sub_vars b x h)
    · exact Or.inr (Or.inr (exprVarsL_sub_vars a x h))
theorem exprVarsL_sub_vars : ∀ (ts : List Target) (x : String), x ∈ exprVarsL ts → x ∈ varsTargets ts
  | [], x, h => by simp [exprVarsL] at h
  | t :: ts, x, h => by
    simp only [exprVarsL, varsTargets, List.mem_append] at h ⊢
    exact h.elim (fun h => Or.inl (exprVars_sub_vars t x h)) (fun h => Or.inr (exprVarsL_sub_vars ts x h))
end

theorem gensNames_sub : ∀ (gs : List Gen) (x : String), x ∈ gensNames gs → x ∈ varsGens gs
  | [], x, h => by simp [gensNames] at h
  | .mk t it ifs :: gs, x, h => by
    simp only [gensNames, varsGens, List.mem_append] at h ⊢
    rcases h with h | h
    · exact Or.inl (names_sub_vars t x h)
    · exact Or.inr (Or.inr (Or.inr (gensNames_sub gs x h)))

/-! ### the loops commute with hiding when their parts do -/

theorem iterM_hide (U : List String) (body : Val → Store → W → R W (List Item × Store))
    (hb : ∀ v σ w, body v (Store.hide σ U) w = mapR (vs fun s => Store.hide s U) (body v σ w)) :
    ∀ (vals : List Val) (σ : Store) (w : W),
      iterM body vals (Store.hide σ U) w = mapR (vs fun s => Store.hide s U) (iterM body vals σ w)
  | [], σ, w => rfl
  | v :: vals, σ, w => by
    simp only [iterM]
    rw [hb]
    refine bind_mapR_left _ _ _ _ _ fun a w => ?_
    simp only [vs]
    rw [iterM_hide U body hb vals a.2 w]
    exact bind_mapR_left _ _ _ _ _ fun r w => rfl

theorem genStep_hide (U : List String) (asg : Val → Store → W → R W Store) (conds : Store → W → R W (Bool × Store))
    (inner : Store → W → R W (List Item × Store))
    (ha : ∀ v σ w, asg v (Store.hide σ U) w = mapR (fun s => Store.hide s U) (asg v σ w))
    (hc : ∀ σ w, conds (Store.hide σ U) w = mapR (vs fun s => Store.hide s U) (conds σ w))
    (hi : ∀ σ w, inner (Store.hide σ U) w = mapR (vs fun s => Store.hide s U) (inner σ w))
    (vals : List Val) (σ : Store) (w : W) :
    genStep asg conds inner vals (Store.hide σ U) w = mapR (vs fun s => Store.hide s U) (genStep asg conds inner vals σ w) := by
  unfold genStep
  apply iterM_hide
  intro v σ w
  rw [ha]
  refine bind_mapR_left _ _ _ _ _ fun σ1 w => ?_
  rw [hc]
  refine bind_mapR_left _ _ _ _ _ fun c w => ?_
  simp only [vs]
  exact ite_mapR _ _ _ _ _ _ (hi _ _) rfl

/-! ### evaluation commutes with hiding names that the syntax does not mention (reference configuration) -/

section hide
variable (P : Prims W) (py : Cfg) (hp : AllOn py) (U : List String)
include hp

mutual
theorem eval_hide : ∀ (e : Expr) (σ : Store) (w : W), avoids U e.vars = true →
    eval py P e (Store.hide σ U) w = mapR (vs fun s => Store.hide s U) (eval py P e σ w)
  | .const _, σ, w, _ => by simp [eval, vs]
  | .leaf i, σ, w, _ => by
    simp only [eval]
    exact bind_mapR_plain _ _ _ _ fun v w => rfl
  | .name x, σ, w, h => by
    have hx : x ∉ U := by simpa [Expr.vars, avoids_cons, avoids_nil] using h
    simp only [eval, get_hide U x hx]
    cases Store.get σ x <;> rfl
  | .binop op l r, σ, w, h => by
    simp only [Expr.vars, avoids_append, Bool.and_eq_true] at h
    simp only [eval]
    rw [eval_hide l σ w h.1]
    refine bind_mapR_left _ _ _ _ _ fun a w => ?_
    simp only [vs]
    rw [eval_hide r a.2 w h.2]
    refine bind_mapR_left _ _ _ _ _ fun b w => ?_
    exact bind_mapR_plain _ _ _ _ fun v w => rfl
  | .unary op e, σ, w, h => by
    simp only [Expr.vars] at h
    simp only [eval]
    rw [eval_hide e σ w h]
    refine bind_mapR_left _ _ _ _ _ fun a w => ?_
    simp only [vs]
    exact ite_mapR _ _ _ _ _ _ rfl (ite_mapR _ _ _ _ _ _ rfl (bind_mapR_plain _ _ _ _ fun v w => rfl))
  | .boolop isAnd es, σ, w, h => by
    simp only [Expr.vars] at h
    simp only [eval]
    exact evalBool_hide isAnd _ es σ w h
  | .compare l rest, σ, w, h => by
    simp only [Expr.vars, avoids_append, Bool.and_eq_true] at h
    cases rest with
    | nil =>
      simp only [eval, hp.compareOnce, if_true]
      rw [eval_hide l σ w h.1]
      refine bind_mapR_left _ _ _ _ _ fun a w => ?_
      simp only [vs]
      exact chainOnce_hide a.1 _ a.2 w h.2
    | cons arm rest' =>
      cases arm with
      | mk op e =>
        simp only [eval, hp.compareOnce, if_true]
        rw [eval_hide l σ w h.1]
        refine bind_mapR_left _ _ _ _ _ fun a w => ?_
        simp only [vs]
        exact chainOnce_hide a.1 _ a.2 w h.2
  | .ifexp c t e, σ, w, h => by
    simp only [Expr.vars, avoids_append, Bool.and_eq_true] at h
    simp only [eval]
    rw [eval_hide c σ w h.1]
    refine bind_mapR_left _ _ _ _ _ fun a w => ?_
    simp only [vs]
    exact ite_mapR _ _ _ _ _ _ (eval_hide t a.2 w h.2.1) (eval_hide e a.2 w h.2.2)
  | .subscript v i, σ, w, h => by
    simp only [Expr.vars, avoids_append, Bool.and_eq_true] at h
    simp only [eval]
    rw [eval_hide v σ w h.1]
    refine bind_mapR_left _ _ _ _ _ fun a w => ?_
    simp only [vs]
    rw [eval_hide i a.2 w h.2]
    refine bind_mapR_left _ _ _ _ _ fun b w => ?_
    exact bind_mapR_plain _ _ _ _ fun v w => rfl
  | .slice lo hi st, σ, w, h => by
    simp only [Expr.vars, avoids_append, Bool.and_eq_true] at h
    simp only [eval]
    rw [evalOpt_hide lo σ w h.1]
    refine bind_mapR_left _ _ _ _ _ fun a w => ?_
    simp only [vs]
    rw [evalOpt_hide hi a.2 w h.2.1]
    refine bind_mapR_left _ _ _ _ _ fun b w => ?_
    simp only [vs]
    rw [evalOpt_hide st b.2 w h.2.2]
    refine bind_mapR_left _ _ _ _ _ fun c w => ?_
    exact bind_mapR_plain _ _ _ _ fun v w => rfl
  | .attr v a, σ, w, h => by
    simp only [Expr.vars] at h
    simp only [eval]
    rw [eval_hide v σ w h]
    refine bind_mapR_left _ _ _ _ _ fun x w => ?_
    exact bind_mapR_plain _ _ _ _ fun v w => rfl
  | .call f args kws, σ, w, h => by
    simp only [Expr.vars, avoids_append, Bool.and_eq_true] at h
    simp only [eval, hp.callArgsFirst, if_true]
    rw [eval_hide f σ w h.1]
    refine bind_mapR_left _ _ _ _ _ fun fv w => ?_
    simp only [vs]
    rw [evalElts_hide args fv.2 w h.2.1]
    refine bind_mapR_left _ _ _ _ _ fun as w => ?_
    simp only [vs]
    rw [evalKws_hide [] kws as.2 w h.2.2]
    refine bind_mapR_left _ _ _ _ _ fun ks w => ?_
    exact bind_mapR_plain _ _ _ _ fun v w => rfl
  | .seq kind es, σ, w, h => by
    simp only [Expr.vars] at h
    simp only [eval]
    rw [evalElts_hide es σ w h]
    refine bind_mapR_left _ _ _ _ _ fun vs' w => ?_
    exact bind_mapR_plain _ _ _ _ fun v w => rfl
  | .dict kvs, σ, w, h => by
    simp only [Expr.vars] at h
    simp only [eval]
    rw [evalPairs_hide kvs σ w h]
    refine bind_mapR_left _ _ _ _ _ fun ps w => ?_
    exact bind_mapR_plain _ _ _ _ fun v w => rfl
  | .fstr parts, σ, w, h => by
    simp only [Expr.vars] at h
    simp only [eval]
    rw [evalParts_hide parts σ w h]
    refine bind_mapR_left _ _ _ _ _ fun ps w => ?_
    exact bind_mapR_plain _ _ _ _ fun v w => rfl
  | .named x e, σ, w, h => by
    simp only [Expr.vars, avoids_cons, Bool.and_eq_true, decide_eq_true_eq] at h
    simp only [eval]
    rw [eval_hide e σ w h.2]
    refine bind_mapR_left _ _ _ _ _ fun a w => ?_
    simp only [vs, hide_set_notin _ _ _ _ h.1]
    rfl
  | .comp _ _ [], σ, w, _ => by simp [eval]
  | .comp isSet elt (.mk t it ifs :: gs), σ, w, h => by
    simp only [Expr.vars, varsGens, avoids_append, Bool.and_eq_true] at h
    obtain ⟨he, ht, hit, hifs, hgs⟩ := h
    have hL : avoids U (t.names ++ gensNames gs) = true := by
      rw [avoids_append, Bool.and_eq_true]
      exact ⟨avoids_of_sub _ _ _ (names_sub_vars t) ht, avoids_of_sub _ _ _ (gensNames_sub gs) hgs⟩
    simp only [eval, hp.compFresh, if_true]
    rw [eval_hide it σ w hit]
    refine bind_mapR_left _ _ _ _ _ fun a w => ?_
    simp only [vs]
    refine bind_mapR_plain _ _ _ _ fun vals w => ?_
    rw [hide_hide_comm, genStep_hide U _ _ _ (fun v σ w => assign_hide t v σ w ht) (fun σ w => evalConds_hide ifs σ w hifs)
      (fun σ w => compGens_hide gs _ σ w hgs (fun σ w => by
        rw [eval_hide elt σ w he]
        exact bind_mapR_left _ _ _ _ _ fun e w => rfl))]
    refine bind_mapR_left _ _ _ _ _ fun r w => ?_
    simp only [vs]
    refine bind_mapR_plain _ _ _ _ fun v w => ?_
    rw [restore_hide_comm U σ _ r.2 hL]
    rfl
  | .dictcomp _ _ [], σ, w, _ => by simp [eval]
  | .dictcomp k v (.mk t it ifs :: gs), σ, w, h => by
    simp only [Expr.vars, varsGens, avoids_append, Bool.and_eq_true] at h
    obtain ⟨hk, hv, ht, hit, hifs, hgs⟩ := h
    have hL : avoids U (t.names ++ gensNames gs) = true := by
      rw [avoids_append, Bool.and_eq_true]
      exact ⟨avoids_of_sub _ _ _ (names_sub_vars t) ht, avoids_of_sub _ _ _ (gensNames_sub gs) hgs⟩
    simp only [eval, hp.compFresh, if_true]
    rw [eval_hide it σ w hit]
    refine bind_mapR_left _ _ _ _ _ fun a w => ?_
    simp only [vs]
    refine bind_mapR_plain _ _ _ _ fun vals w => ?_
    rw [hide_hide_comm, genStep_hide U _ _ _ (fun v σ w => assign_hide t v σ w ht) (fun σ w => evalConds_hide ifs σ w hifs)
      (fun σ w => compGens_hide gs _ σ w hgs (fun σ w => by
        rw [eval_hide k σ w hk]
        refine bind_mapR_left _ _ _ _ _ fun kv w => ?_
        simp only [vs]
        rw [eval_hide v kv.2 w hv]
        exact bind_mapR_left _ _ _ _ _ fun e w => rfl))]
    refine bind_mapR_left _ _ _ _ _ fun r w => ?_
    simp only [vs]
    refine bind_mapR_plain _ _ _ _ fun d w => ?_
    rw [restore_hide_comm U σ _ r.2 hL]
    rfl

theorem evalOpt_hide : ∀ (o : Option Expr) (σ : Store) (w : W), avoids U (varsOpt o) = true →
    evalOpt py P o (Store.hide σ U) w = mapR (vs fun s => Store.hide s U) (evalOpt py P o σ w)
  | none, _, _, _ => by simp [evalOpt, vs]
  | some e, σ, w, h => by
    simp only [varsOpt] at h
    simp only [evalOpt]
    rw [eval_hide e σ w h]
    exact bind_mapR_left _ _ _ _ _ fun a w => rfl

theorem evalBool_hide (isAnd : Bool) : ∀ (last : Val) (es : List Expr) (σ : Store) (w : W),
    avoids U (varsList es) = true →
    evalBool py P isAnd last es (Store.hide σ U) w = mapR (vs fun s => Store.hide s U) (evalBool py P isAnd last es σ w)
  | _, [], _, _, _ => by simp [evalBool, vs]
  | last, e :: es, σ, w, h => by
    simp only [varsList, avoids_append, Bool.and_eq_true] at h
    simp only [evalBool]
    rw [eval_hide e σ w h.1]
    refine bind_mapR_left _ _ _ _ _ fun a w => ?_
    simp only [vs]
    exact ite_mapR _ _ _ _ _ _ (evalBool_hide isAnd a.1 es a.2 w h.2) rfl

theorem chainOnce_hide : ∀ (left : Val) (rest : List CmpArm) (σ : Store) (w : W), avoids U (varsArms rest) = true →
    chainOnce py P left rest (Store.hide σ U) w = mapR (vs fun s => Store.hide s U) (chainOnce py P left rest σ w)
  | _, [], _, _, _ => by simp [chainOnce, vs]
  | left, .mk op e :: rest, σ, w, h => by
    simp only [varsArms, avoids_append, Bool.and_eq_true] at h
    simp only [chainOnce]
    rw [eval_hide e σ w h.1]
    refine bind_mapR_left _ _ _ _ _ fun b w => ?_
    simp only [vs]
    refine bind_mapR_plain _ _ _ _ fun t w => ?_
    exact ite_mapR _ _ _ _ _ _ (chainOnce_hide b.1 rest b.2 w h.2) rfl

theorem evalElts_hide : ∀ (es : List Elt) (σ : Store) (w : W), avoids U (varsElts es) = true →
    evalElts py P es (Store.hide σ U) w = mapR (vs fun s => Store.hide s U) (evalElts py P es σ w)
  | [], _, _, _ => by simp [evalElts, vs]
  | .plain e :: es, σ, w, h => by
    simp only [varsElts, avoids_append, Bool.and_eq_true] at h
    simp only [evalElts]
    rw [eval_hide e σ w h.1]
    refine bind_mapR_left _ _ _ _ _ fun a w => ?_
    simp only [vs]
    rw [evalElts_hide es a.2 w h.2]
    exact bind_mapR_left _ _ _ _ _ fun r w => rfl
  | .star e :: es, σ, w, h => by
    simp only [varsElts, avoids_append, Bool.and_eq_true] at h
    simp only [evalElts]
    rw [eval_hide e σ w h.1]
    refine bind_mapR_left _ _ _ _ _ fun a w => ?_
    simp only [vs]
    refine bind_mapR_plain _ _ _ _ fun xs w => ?_
    rw [evalElts_hide es a.2 w h.2]
    exact bind_mapR_left _ _ _ _ _ fun r w => rfl

theorem drainGroup_hide : ∀ (ex : Exc) (ks : List Kw) (σ : Store) (w : W), avoids U (varsKws ks) = true →
    drainGroup py P ex ks (Store.hide σ U) w = mapR (vs fun s => Store.hide s U) (drainGroup py P ex ks σ w)
  | _, [], _, _, _ => by simp [drainGroup]
  | ex, .named k e :: ks, σ, w, h => by
    simp only [varsKws, avoids_append, Bool.and_eq_true] at h
    simp only [drainGroup]
    rw [eval_hide e σ w h.1]
    refine bind_mapR_left _ _ _ _ _ fun a w => ?_
    simp only [vs]
    exact drainGroup_hide ex ks a.2 w h.2
  | _, .splat e :: ks, _, _, _ => by simp [drainGroup]

theorem evalKws_hide : ∀ (acc : List (String × Val)) (ks : List Kw) (σ : Store) (w : W), avoids U (varsKws ks) = true →
    evalKws py P acc ks (Store.hide σ U) w = mapR (vs fun s => Store.hide s U) (evalKws py P acc ks σ w)
  | _, [], _, _, _ => by simp [evalKws, vs]
  | acc, .named k e :: ks, σ, w, h => by
    simp only [varsKws, avoids_append, Bool.and_eq_true] at h
    simp only [evalKws]
    rw [eval_hide e σ w h.1]
    refine bind_mapR_left _ _ _ _ _ fun a w => ?_
    simp only [vs]
    cases kwMerge py acc k a.1 with
    | ok acc' => exact evalKws_hide acc' ks a.2 w h.2
    | error ex =>
      simp only [hp.kwGroupMerge, if_true]
      exact drainGroup_hide ex ks a.2 w h.2
  | acc, .splat e :: ks, σ, w, h => by
    simp only [varsKws, avoids_append, Bool.and_eq_true] at h
    simp only [evalKws]
    rw [eval_hide e σ w h.1]
    refine bind_mapR_left _ _ _ _ _ fun a w => ?_
    simp only [vs]
    refine bind_mapR_plain _ _ _ _ fun items w => ?_
    cases kwMergeAll py acc items with
    | ok acc' => exact evalKws_hide acc' ks a.2 w h.2
    | error ex => rfl

theorem evalPairs_hide : ∀ (kvs : List DictArm) (σ : Store) (w : W), avoids U (varsPairs kvs) = true →
    evalPairs py P kvs (Store.hide σ U) w = mapR (vs fun s => Store.hide s U) (evalPairs py P kvs σ w)
  | [], _, _, _ => by simp [evalPairs, vs]
  | .kv k v :: r, σ, w, h => by
    simp only [varsPairs, avoids_append, Bool.and_eq_true] at h
    simp only [evalPairs, hp.dictKeyFirst, if_true]
    rw [eval_hide k σ w h.1]
    refine bind_mapR_left _ _ _ _ _ fun a w => ?_
    simp only [vs]
    rw [eval_hide v a.2 w h.2.1]
    refine bind_mapR_left _ _ _ _ _ fun b w => ?_
    simp only [vs]
    rw [evalPairs_hide r b.2 w h.2.2]
    exact bind_mapR_left _ _ _ _ _ fun ps w => rfl
  | .splat e :: r, σ, w, h => by
    simp only [varsPairs, avoids_append, Bool.and_eq_true] at h
    simp only [evalPairs]
    rw [eval_hide e σ w h.1]
    refine bind_mapR_left _ _ _ _ _ fun a w => ?_
    simp only [vs]
    rw [evalPairs_hide r a.2 w h.2]
    exact bind_mapR_left _ _ _ _ _ fun ps w => rfl

theorem evalParts_hide : ∀ (ps : List FPart) (σ : Store) (w : W), avoids U (varsParts ps) = true →
    evalParts py P ps (Store.hide σ U) w = mapR (vs fun s => Store.hide s U) (evalParts py P ps σ w)
  | [], _, _, _ => by simp [evalParts, vs]
  | .lit k :: r, σ, w, h => by
    simp only [varsParts] at h
    simp only [evalParts]
    rw [evalParts_hide r σ w h]
    exact bind_mapR_left _ _ _ _ _ fun vs' w => rfl
  | .fmt e conv spec :: r, σ, w, h => by
    simp only [varsParts, avoids_append, Bool.and_eq_true] at h
    simp only [evalParts]
    rw [eval_hide e σ w h.1]
    refine bind_mapR_left _ _ _ _ _ fun a w => ?_
    simp only [vs]
    rw [evalOpt_hide spec a.2 w h.2.1]
    refine bind_mapR_left _ _ _ _ _ fun s w => ?_
    simp only [vs]
    refine bind_mapR_plain _ _ _ _ fun v w => ?_
    rw [evalParts_hide r s.2 w h.2.2]
    exact bind_mapR_left _ _ _ _ _ fun vs' w => rfl

theorem evalConds_hide : ∀ (cs : List Expr) (σ : Store) (w : W), avoids U (varsList cs) = true →
    evalConds py P cs (Store.hide σ U) w = mapR (vs fun s => Store.hide s U) (evalConds py P cs σ w)
  | [], _, _, _ => by simp [evalConds, vs]
  | c :: cs, σ, w, h => by
    simp only [varsList, avoids_append, Bool.and_eq_true] at h
    simp only [evalConds]
    rw [eval_hide c σ w h.1]
    refine bind_mapR_left _ _ _ _ _ fun a w => ?_
    simp only [vs]
    exact ite_mapR _ _ _ _ _ _ (evalConds_hide cs a.2 w h.2) rfl

theorem compGens_hide : ∀ (gs : List Gen) (item : Store → W → R W (List Item × Store)) (σ : Store) (w : W),
    avoids U (varsGens gs) = true →
    (∀ σ w, item (Store.hide σ U) w = mapR (vs fun s => Store.hide s U) (item σ w)) →
    compGens py P item gs (Store.hide σ U) w = mapR (vs fun s => Store.hide s U) (compGens py P item gs σ w)
  | [], item, σ, w, _, hi => by simp only [compGens]; exact hi σ w
  | .mk t it ifs :: gs, item, σ, w, h, hi => by
    simp only [varsGens, avoids_append, Bool.and_eq_true] at h
    obtain ⟨ht, hit, hifs, hgs⟩ := h
    simp only [compGens]
    rw [eval_hide it σ w hit]
    refine bind_mapR_left _ _ _ _ _ fun a w => ?_
    simp only [vs]
    refine bind_mapR_plain _ _ _ _ fun vals w => ?_
    exact genStep_hide U _ _ _ (fun v σ w => assign_hide t v σ w ht) (fun σ w => evalConds_hide ifs σ w hifs)
      (fun σ w => compGens_hide gs item σ w hgs hi) vals a.2 w

theorem assign_hide : ∀ (t : Target) (v : Val) (σ : Store) (w : W), avoids U t.vars = true →
    assign py P t v (Store.hide σ U) w = mapR (fun s => Store.hide s U) (assign py P t v σ w)
  | .name x, v, σ, w, h => by
    have hx : x ∉ U := by simpa [Target.vars, avoids_cons, avoids_nil] using h
    simp only [assign, hide_set_notin _ _ _ _ hx]
    rfl
  | .sub e i, v, σ, w, h => by
    simp only [Target.vars, avoids_append, Bool.and_eq_true] at h
    simp only [assign]
    rw [eval_hide e σ w h.1]
    refine bind_mapR_left _ _ _ _ _ fun a w => ?_
    simp only [vs]
    rw [eval_hide i a.2 w h.2]
    refine bind_mapR_left _ _ _ _ _ fun b w => ?_
    exact bind_mapR_plain _ _ _ _ fun _ w => rfl
  | .attr e a, v, σ, w, h => by
    simp only [Target.vars] at h
    simp only [assign]
    rw [eval_hide e σ w h]
    refine bind_mapR_left _ _ _ _ _ fun x w => ?_
    exact bind_mapR_plain _ _ _ _ fun _ w => rfl
  | .tup isList before star after, v, σ, w, h => by
    simp only [Target.vars, avoids_append, Bool.and_eq_true] at h
    obtain ⟨hb, hs, ha⟩ := h
    simp only [assign]
    split
    · rfl
    · refine bind_mapR_plain _ _ _ _ fun vals w => ?_
      cases star with
      | none =>
        simp only
        split
        · rfl
        · rw [assignList_hide before _ σ w hb]
          refine bind_mapR_left _ _ _ _ _ fun σ1 w => ?_
          exact assignList_hide after _ σ1 w ha
      | some x =>
        have hx : x ∉ U := by simpa [avoids_cons, avoids_nil] using hs
        simp only
        split
        · rfl
        · rw [assignList_hide before _ σ w hb]
          refine bind_mapR_left _ _ _ _ _ fun σ1 w => ?_
          refine bind_mapR_plain _ _ _ _ fun lst w => ?_
          rw [hide_set_notin _ _ _ _ hx]
          exact assignList_hide after _ _ w ha

theorem assignList_hide : ∀ (ts : List Target) (vs' : List Val) (σ : Store) (w : W), avoids U (varsTargets ts) = true →
    assignList py P ts vs' (Store.hide σ U) w = mapR (fun s => Store.hide s U) (assignList py P ts vs' σ w)
  | [], _, _, _, _ => by simp [assignList]
  | _ :: _, [], _, _, _ => by simp [assignList]
  | t :: ts, v :: vs', σ, w, h => by
    simp only [varsTargets, avoids_append, Bool.and_eq_true] at h
    simp only [assignList]
    rw [assign_hide t v σ w h.1]
    refine bind_mapR_left _ _ _ _ _ fun σ1 w => ?_
    exact assignList_hide ts vs' σ1 w h.2
end

/-! ### assigning a loop target binds its names: they leave the hidden set -/

mutual
theorem assign_minus : ∀ (t : Target) (v : Val) (σ : Store) (w : W) (U : List String), avoids U t.exprVars = true →
    assign py P t v (Store.hide σ U) w = mapR (fun s => Store.hide s (minus U t.names)) (assign py P t v σ w)
  | .name x, v, σ, w, U, _ => by
    simp only [assign, Target.names, hide_set_minus]
    rfl
  | .sub e i, v, σ, w, U, h => by
    simp only [Target.exprVars, avoids_append, Bool.and_eq_true] at h
    simp only [assign, Target.names, minus_nil]
    rw [eval_hide P py hp U e σ w h.1]
    refine bind_mapR_left _ _ _ _ _ fun a w => ?_
    simp only [vs]
    rw [eval_hide P py hp U i a.2 w h.2]
    refine bind_mapR_left _ _ _ _ _ fun b w => ?_
    exact bind_mapR_plain _ _ _ _ fun _ w => rfl
  | .attr e a, v, σ, w, U, h => by
    simp only [Target.exprVars] at h
    simp only [assign, Target.names, minus_nil]
    rw [eval_hide P py hp U e σ w h]
    refine bind_mapR_left _ _ _ _ _ fun x w => ?_
    exact bind_mapR_plain _ _ _ _ fun _ w => rfl
  | .tup isList before star after, v, σ, w, U, h => by
    simp only [Target.exprVars, avoids_append, Bool.and_eq_true] at h
    obtain ⟨hb, ha⟩ := h
    have ha1 : avoids (minus U (Target.namesL before)) (exprVarsL after) = true := avoids_sub _ _ _ (minus_sub U _) ha
    simp only [assign]
    split
    · rfl
    · refine bind_mapR_plain _ _ _ _ fun vals w => ?_
      cases star with
      | none =>
        simp only
        split
        · rfl
        · rename_i hl
          rw [assignList_minus before _ σ w U hb (by simp only [List.length_take]; omega)]
          refine bind_mapR_left _ _ _ _ _ fun σ1 w => ?_
          rw [assignList_minus after _ σ1 w _ ha1 (by simp only [List.length_drop]; omega), minus_minus]
          rfl
      | some x =>
        simp only
        split
        · rfl
        · rename_i hl
          rw [assignList_minus before _ σ w U hb (by simp only [List.length_take]; omega)]
          refine bind_mapR_left _ _ _ _ _ fun σ1 w => ?_
          refine bind_mapR_plain _ _ _ _ fun lst w => ?_
          rw [hide_set_minus, assignList_minus after _ _ w _ (avoids_sub _ _ _ (minus_sub _ _) ha1)
            (by simp only [List.length_drop]; omega), minus_minus, minus_minus]
          rfl
theorem assignList_minus : ∀ (ts : List Target) (vs' : List Val) (σ : Store) (w : W) (U : List String),
    avoids U (exprVarsL ts) = true → ts.length ≤ vs'.length →
    assignList py P ts vs' (Store.hide σ U) w =
      mapR (fun s => Store.hide s (minus U (Target.namesL ts))) (assignList py P ts vs' σ w)
  | [], _, _, _, U, _, _ => by simp [assignList, Target.namesL, minus_nil]
  | _ :: _, [], _, _, _, _, hl => by simp at hl
  | t :: ts, v :: vs', σ, w, U, h, hl => by
    simp only [exprVarsL, avoids_append, Bool.and_eq_true] at h
    simp only [assignList]
    rw [assign_minus t v σ w U h.1]
    refine bind_mapR_left _ _ _ _ _ fun σ1 w => ?_
    rw [assignList_minus ts vs' σ1 w (minus U t.names) (avoids_sub _ _ _ (minus_sub U _) h.2) (by simpa using hl),
      minus_minus]
    rfl
end

/-! ### the two runs stay related: Python's store = pyscript's store minus some still-unbound loop variables -/

def Hid (U : List String) (σr σc : Store) : Prop := ∃ U', (∀ x ∈ U', x ∈ U) ∧ σr = Store.hide σc U'

def RelR {α : Type} (U : List String) (rr rc : R W (α × Store)) : Prop :=
  match rr, rc with
  | (.ok a, w), (.ok b, w') => a.1 = b.1 ∧ Hid U a.2 b.2 ∧ w = w'
  | (.error e, w), (.error e', w') => e = e' ∧ w = w'
  | _, _ => False

omit hp in
theorem hid_nil (sr sc : Store) (h : Hid [] sr sc) : sr = sc := by
  obtain ⟨U', hU', rfl⟩ := h
  have : U' = [] := List.eq_nil_iff_forall_not_mem.2 fun x hx => by simpa using hU' x hx
  subst this
  exact hide_nil _

omit hp in
theorem hid_mono (U V : List String) (hs : ∀ x ∈ U, x ∈ V) (sr sc : Store) (h : Hid U sr sc) : Hid V sr sc := by
  obtain ⟨U', hU', rfl⟩ := h
  exact ⟨U', fun x hx => hs x (hU' x hx), rfl⟩

omit hp in
theorem rel_refl {α} (U : List String) (r : R W (α × Store)) : RelR U r r := by
  rcases r with ⟨(e | a), w⟩
  · exact ⟨rfl, rfl⟩
  · exact ⟨rfl, ⟨[], by simp, (hide_nil _).symm⟩, rfl⟩

omit hp in
theorem rel_map {α} (U U' : List String) (hs : ∀ x ∈ U', x ∈ U) (rc : R W (α × Store)) :
    RelR U (mapR (vs fun s => Store.hide s U') rc) rc := by
  rcases rc with ⟨(e | a), w⟩
  · exact ⟨rfl, rfl⟩
  · exact ⟨rfl, ⟨U', hs, rfl⟩, rfl⟩

omit hp in
theorem rel_mono {α} (U V : List String) (hs : ∀ x ∈ U, x ∈ V) (rr rc : R W (α × Store)) (h : RelR U rr rc) :
    RelR V rr rc := by
  rcases rr with ⟨(e | a), w⟩ <;> rcases rc with ⟨(e' | b), w'⟩ <;> simp only [RelR] at h ⊢
  · exact h
  · exact ⟨h.1, hid_mono U V hs _ _ h.2.1, h.2.2⟩

omit hp in
theorem rel_bind {α β} (U V : List String) (rr rc : R W (α × Store)) (k : α × Store → W → R W (β × Store))
    (h : RelR U rr rc) (hk : ∀ a sr sc w, Hid U sr sc → RelR V (k (a, sr) w) (k (a, sc) w)) :
    RelR V (bind rr k) (bind rc k) := by
  rcases rr with ⟨(e | a), w⟩ <;> rcases rc with ⟨(e' | b), w'⟩ <;> simp only [RelR] at h
  · obtain ⟨rfl, rfl⟩ := h
    exact ⟨rfl, rfl⟩
  · obtain ⟨h1, h2, rfl⟩ := h
    obtain ⟨a1, a2⟩ := a
    obtain ⟨b1, b2⟩ := b
    simp only at h1 h2
    subst h1
    exact hk a1 a2 b2 w h2

omit hp in
theorem rel_bind_st {β} (U V U' : List String) (hs : ∀ x ∈ U', x ∈ U) (rc : R W Store) (k : Store → W → R W (β × Store))
    (hk : ∀ sr sc w, Hid U sr sc → RelR V (k sr w) (k sc w)) :
    RelR V (bind (mapR (fun s => Store.hide s U') rc) k) (bind rc k) := by
  rcases rc with ⟨(e | a), w⟩
  · exact ⟨rfl, rfl⟩
  · exact hk _ _ w ⟨U', hs, rfl⟩

omit hp in
theorem rel_bind_plain {α β} (V : List String) (r : R W α) (k k' : α → W → R W (β × Store))
    (hk : ∀ a w, RelR V (k a w) (k' a w)) : RelR V (bind r k) (bind r k') := by
  rcases r with ⟨(e | a), w⟩
  · exact ⟨rfl, rfl⟩
  · exact hk a w

omit hp in
theorem iterM_rel (U : List String) (body : Val → Store → W → R W (List Item × Store))
    (hb : ∀ v sr sc w, Hid U sr sc → RelR U (body v sr w) (body v sc w)) :
    ∀ (vals : List Val) (sr sc : Store) (w : W), Hid U sr sc → RelR U (iterM body vals sr w) (iterM body vals sc w)
  | [], sr, sc, w, h => ⟨rfl, h, rfl⟩
  | v :: vals, sr, sc, w, h => by
    simp only [iterM]
    refine rel_bind U U _ _ _ (hb v sr sc w h) fun a sr sc w h => ?_
    refine rel_bind U U _ _ _ (iterM_rel U body hb vals sr sc w h) fun r sr sc w h => ?_
    exact ⟨rfl, h, rfl⟩

omit hp in
/-- one generator: the target's names `nt` leave the set of possibly-unbound names for its conditions and for the inner
generators; the next pass of this generator starts again from (a subset of) `U` -/
theorem genStep_rel (U nt : List String) (asg : Val → Store → W → R W Store) (conds : Store → W → R W (Bool × Store))
    (inner : Store → W → R W (List Item × Store))
    (ha : ∀ v sc w U', (∀ x ∈ U', x ∈ U) → asg v (Store.hide sc U') w = mapR (fun s => Store.hide s (minus U' nt)) (asg v sc w))
    (hc : ∀ sr sc w, Hid (minus U nt) sr sc → RelR (minus U nt) (conds sr w) (conds sc w))
    (hi : ∀ sr sc w, Hid (minus U nt) sr sc → RelR (minus U nt) (inner sr w) (inner sc w))
    (vals : List Val) (sr sc : Store) (w : W) (h : Hid U sr sc) :
    RelR U (genStep asg conds inner vals sr w) (genStep asg conds inner vals sc w) := by
  unfold genStep
  refine iterM_rel U _ (fun v sr sc w h => ?_) vals sr sc w h
  obtain ⟨U', hU', rfl⟩ := h
  rw [ha v sc w U' hU']
  refine rel_mono (minus U nt) U (minus_sub U nt) _ _ ?_
  refine rel_bind_st (minus U nt) (minus U nt) _ (minus_sub_minus U U' nt hU') _ _ fun sr sc w h => ?_
  refine rel_bind (minus U nt) (minus U nt) _ _ _ (hc sr sc w h) fun c sr sc w h => ?_
  simp only
  split
  · exact hi sr sc w h
  · exact ⟨rfl, h, rfl⟩

theorem eval_rel (U : List String) (e : Expr) (he : avoids U e.vars = true) (sr sc : Store) (w : W) (h : Hid U sr sc) :
    RelR U (eval py P e sr w) (eval py P e sc w) := by
  obtain ⟨U', hU', rfl⟩ := h
  rw [eval_hide P py hp U' e sc w (avoids_sub U U' _ hU' he)]
  exact rel_map U U' hU' _

theorem evalConds_rel (U : List String) (cs : List Expr) (he : avoids U (varsList cs) = true) (sr sc : Store) (w : W)
    (h : Hid U sr sc) : RelR U (evalConds py P cs sr w) (evalConds py P cs sc w) := by
  obtain ⟨U', hU', rfl⟩ := h
  rw [evalConds_hide P py hp U' cs sc w (avoids_sub U U' _ hU' he)]
  exact rel_map U U' hU' _

/-- the remaining generators of a comprehension, started with the names `U` possibly unbound on Python's side -/
theorem compGens_rel : ∀ (gs : List Gen) (item : Store → W → R W (List Item × Store)) (U : List String)
    (sr sc : Store) (w : W), earlyFree U gs = true → Hid U sr sc →
    (∀ sr sc w, Hid (minus U (gensNames gs)) sr sc → RelR (minus U (gensNames gs)) (item sr w) (item sc w)) →
    RelR U (compGens py P item gs sr w) (compGens py P item gs sc w)
  | [], item, U, sr, sc, w, _, h, hi => by
    simp only [compGens]
    simpa [gensNames, minus_nil] using hi sr sc w (by simpa [gensNames, minus_nil] using h)
  | .mk t it ifs :: gs, item, U, sr, sc, w, hf, h, hi => by
    simp only [earlyFree, Bool.and_eq_true] at hf
    obtain ⟨⟨⟨hit, hte⟩, hifs⟩, hgs⟩ := hf
    simp only [compGens]
    refine rel_bind U U _ _ _ (eval_rel P py hp U it hit sr sc w h) fun a sr sc w h => ?_
    simp only
    refine rel_bind_plain U _ _ _ fun vals w => ?_
    refine genStep_rel U t.names _ _ _ (fun v sc w U' hU' => assign_minus P py hp t v sc w U' (avoids_sub U U' _ hU' hte))
      (fun sr sc w h => evalConds_rel P py hp _ ifs hifs sr sc w h)
      (fun sr sc w h => compGens_rel gs item (minus U t.names) sr sc w hgs h (by
        intro sr sc w h
        simpa [gensNames, minus_minus] using hi sr sc w (by simpa [gensNames, minus_minus] using h)))
      vals sr sc w h

omit hp in
theorem minus_self_append (a b : List String) : minus (minus (a ++ b) a) b = [] := by
  rw [minus_minus]
  simp [minus, List.filter_eq_nil_iff, List.contains_eq_mem]
  exact ⟨fun x h1 h2 => absurd h1 h2, fun x h1 _ => h1⟩

/-- **the first generator**: started from Python's fresh scope (all loop variables hidden) and from pyscript's table, the
loops produce the same items and the same world, and stores that differ only in loop variables -/
theorem genStep_top (t : Target) (ifs : List Expr) (gs : List Gen) (item : Store → W → R W (List Item × Store))
    (hf : compEarlyFree (.mk t it ifs :: gs) = true) (vals : List Val) (s : Store) (w : W) :
    RelR (t.names ++ gensNames gs)
      (genStep (fun v σ w => assign py P t v σ w) (fun σ w => evalConds py P ifs σ w)
        (fun σ w => compGens py P item gs σ w) vals (Store.hide s (t.names ++ gensNames gs)) w)
      (genStep (fun v σ w => assign py P t v σ w) (fun σ w => evalConds py P ifs σ w)
        (fun σ w => compGens py P item gs σ w) vals s w) := by
  simp only [compEarlyFree, Bool.and_eq_true] at hf
  obtain ⟨⟨hte, hifs⟩, hgs⟩ := hf
  refine genStep_rel _ t.names _ _ _ (fun v sc w U' hU' => assign_minus P py hp t v sc w U' (avoids_sub _ U' _ hU' hte))
    (fun sr sc w h => evalConds_rel P py hp _ ifs hifs sr sc w h)
    (fun sr sc w h => compGens_rel P py hp gs item _ sr sc w hgs h (by
      intro sr sc w h
      rw [minus_self_append] at h ⊢
      rw [hid_nil sr sc h]
      exact rel_refl _ _))
    vals _ s w ⟨_, fun x hx => hx, rfl⟩

omit hp in
/-- after the loops the loop variables are restored: what was hidden makes no difference -/
theorem bind_rel_restore {α} (L : List String) (rr rc : R W (List Item × Store)) (K : List Item × Store → W → R W α)
    (hK : ∀ items s U' w, (∀ x ∈ U', x ∈ L) → K (items, Store.hide s U') w = K (items, s) w)
    (h : RelR L rr rc) : bind rr K = bind rc K := by
  rcases rr with ⟨(e | a), w⟩ <;> rcases rc with ⟨(e' | b), w'⟩ <;> simp only [RelR] at h
  · obtain ⟨rfl, rfl⟩ := h; rfl
  · obtain ⟨h1, ⟨U', hU', h2⟩, rfl⟩ := h
    obtain ⟨a1, a2⟩ := a
    obtain ⟨b1, b2⟩ := b
    simp only at h1 h2
    subst h1; subst h2
    exact hK a1 b2 U' w hU'

end hide

end PsModel.C01
