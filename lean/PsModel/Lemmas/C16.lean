import PsModel.Model.C16
import PsModel.Spec.C16
/-! helper lemmas for C16 (core Lean only): association lists denote functions; every entry point of `state.py`
commutes with that abstraction -/
namespace PsModel.C16
open PsModel.Gen

/-! ### association lists -/
section assoc
variable {κ : Type} {α : Type} [DecidableEq κ]

theorem aget_aset_same (k : κ) (v : α) (d : List (κ × α)) : aget k (aset k v d) = some v := by
  induction d with
  | nil => simp [aset, aget]
  | cons p r ih =>
    by_cases h : p.1 = k
    · simp [aset, aget, h]
    · simp [aset, aget, h, ih]

theorem aget_aset (k k' : κ) (v : α) (d : List (κ × α)) :
    aget k' (aset k v d) = if k' = k then some v else aget k' d := by
  induction d with
  | nil =>
    by_cases h : k' = k
    · simp [aset, aget, h]
    · have : ¬ k = k' := fun e => h e.symm
      simp [aset, aget, h, this]
  | cons p r ih =>
    by_cases hp : p.1 = k
    · simp only [aset, hp, if_true, aget]
      by_cases h : k' = k
      · simp [h]
      · have : ¬ k = k' := fun e => h e.symm
        simp [h, this]
    · simp only [aset, hp, if_false, aget, ih]
      by_cases hp' : p.1 = k'
      · have : ¬ k' = k := by rw [← hp']; exact hp
        simp [hp', this]
      · simp [hp']

theorem aget_aset_other (k k' : κ) (v : α) (d : List (κ × α)) (h : k' ≠ k) :
    aget k' (aset k v d) = aget k' d := by
  rw [aget_aset]; simp [h]

theorem aget_adel (k k' : κ) (d : List (κ × α)) :
    aget k' (adel k d) = if k' = k then none else aget k' d := by
  induction d with
  | nil => simp [adel, aget]
  | cons p r ih =>
    unfold adel at ih ⊢
    rw [List.filter_cons]
    by_cases hp : p.1 = k
    · simp only [hp, decide_true, Bool.not_true, Bool.false_eq_true, if_false, ih, aget]
      by_cases h : k' = k
      · simp [h]
      · have : ¬ k = k' := fun e => h e.symm
        simp [h, this]
    · simp only [hp, decide_false, Bool.not_false, if_true, aget, ih]
      by_cases hp' : p.1 = k'
      · have : ¬ k' = k := by rw [← hp']; exact hp
        simp [hp', this]
      · simp [hp']

theorem aget_adel_same (k : κ) (d : List (κ × α)) : aget k (adel k d) = none := by
  rw [aget_adel]; simp

theorem aget_adel_other (k k' : κ) (d : List (κ × α)) (h : k' ≠ k) : aget k' (adel k d) = aget k' d := by
  rw [aget_adel]; simp [h]

theorem mem_keys_iff (k : κ) (d : List (κ × α)) : k ∈ d.map (·.1) ↔ (aget k d).isSome = true := by
  induction d with
  | nil => simp [aget]
  | cons p r ih =>
    by_cases h : p.1 = k
    · simp [aget, h]
    · simp only [List.map_cons, List.mem_cons, aget, h, if_false]
      constructor
      · rintro (e | e)
        · exact absurd e.symm h
        · exact ih.mp e
      · intro e; exact Or.inr (ih.mpr e)

/-- keys stay distinct under `d[k] = v` -/
theorem keys_nodup_aset (k : κ) (v : α) (d : List (κ × α)) (h : (d.map (·.1)).Nodup) :
    ((aset k v d).map (·.1)).Nodup := by
  induction d with
  | nil => simp [aset]
  | cons p r ih =>
    simp only [List.map_cons, List.nodup_cons] at h
    by_cases hp : p.1 = k
    · simp only [aset, hp, if_true, List.map_cons, List.nodup_cons]
      rw [← hp]; exact h
    · simp only [aset, hp, if_false, List.map_cons, List.nodup_cons]
      refine ⟨?_, ih h.2⟩
      intro hm
      rw [mem_keys_iff] at hm
      rw [aget_aset_other _ _ _ _ hp] at hm
      exact h.1 ((mem_keys_iff _ _).mpr hm)

theorem keys_nodup_adel (k : κ) (d : List (κ × α)) (h : (d.map (·.1)).Nodup) :
    ((adel k d).map (·.1)).Nodup := by
  unfold adel
  exact (List.Nodup.sublist (List.Sublist.map _ List.filter_sublist) h)

end assoc

/-! ### function updates -/

theorem fupd_same {κ β : Type} [DecidableEq κ] (f : κ → β) (k : κ) (v : β) : fupd f k v k = v := by simp [fupd]
theorem fupd_other {κ β : Type} [DecidableEq κ] (f : κ → β) (k k' : κ) (v : β) (h : k' ≠ k) :
    fupd f k v k' = f k' := by simp [fupd, h]

theorem abs_aset (k : String) (v : Val) (d : Attrs) : absAttrs (aset k v d) = fupd (absAttrs d) k (some v) := by
  funext a; simp [absAttrs, ofList, fupd, aget_aset]

theorem abs_adel (k : String) (d : Attrs) : absAttrs (adel k d) = fupd (absAttrs d) k none := by
  funext a; simp [absAttrs, ofList, fupd, aget_adel]

theorem absStore_aset (e : Ent) (r : Rec) (st : Store) :
    absStore (aset e r st) = fupd (absStore st) e (some (absRec r)) := by
  funext x
  by_cases h : x = e
  · subst h; simp [absStore, fupd, aget_aset_same]
  · simp [absStore, fupd, h, aget_aset_other _ _ _ _ h]

theorem absStore_adel (e : Ent) (st : Store) : absStore (adel e st) = fupd (absStore st) e none := by
  funext x
  by_cases h : x = e
  · subst h; simp [absStore, fupd, aget_adel_same]
  · simp [absStore, fupd, h, aget_adel_other _ _ _ h]

theorem absStore_apply (st : Store) (e : Ent) : absStore st e = (aget e st).map absRec := rfl

theorem abs_dupdate (kw d : Attrs) : absAttrs (dupdate d kw) = merge kw (absAttrs d) := by
  unfold dupdate merge
  induction kw generalizing d with
  | nil => rfl
  | cons p r ih => simp only [List.foldl_cons]; rw [ih, abs_aset]

theorem abs_mergeKw (a kw : Attrs) : absAttrs (mergeKw a kw) = merge kw (absAttrs a) := by
  unfold mergeKw
  cases kw with
  | nil => simp [merge]
  | cons p r => simp [abs_dupdate]

theorem abs_dpopAll (ks : List String) (d : Attrs) :
    absAttrs (dpopAll ks d) = fun a => if a ∈ ks then none else absAttrs d a := by
  unfold dpopAll
  induction ks generalizing d with
  | nil => funext a; simp
  | cons k r ih =>
    simp only [List.foldl_cons]
    rw [ih, abs_adel]
    funext a
    by_cases h1 : a ∈ r
    · simp [h1]
    · by_cases h2 : a = k <;> simp [h1, h2, fupd]

/-- writing the listed fields over a dictionary -/
theorem aget_setFields (e : Ent) (fs : List String) (d : Attrs) (a : String) :
    aget a (fs.foldl (fun d f => aset f (virtVal e f) d) d) = if a ∈ fs then some (virtVal e a) else aget a d := by
  induction fs generalizing d with
  | nil => simp
  | cons f r ih =>
    simp only [List.foldl_cons]
    rw [ih]
    by_cases h1 : a ∈ r
    · simp [h1]
    · by_cases h2 : a = f
      · subst h2; simp [h1, aget_aset_same]
      · simp [h1, h2, aget_aset_other _ _ _ _ h2]

/-- the fields written by `StateVal.__new__` are exactly the virtual fields of the property statement -/
theorem virtual_tables (a : String) : a ∈ STATEVAL_NEW_FIELDS ↔ a ∈ VIRTUAL := by
  simp only [STATEVAL_NEW_FIELDS, VIRTUAL, List.mem_cons, List.not_mem_nil, or_false]
  constructor <;> intro h <;> rcases h with h | h | h | h <;> simp [h]

/-- and so is the code's table `STATE_VIRTUAL_ATTRS` -/
theorem virtual_attrs_table (a : String) : a ∈ STATE_VIRTUAL_ATTRS ↔ a ∈ VIRTUAL := by
  simp only [STATE_VIRTUAL_ATTRS, VIRTUAL, List.mem_cons, List.not_mem_nil, or_false]
  constructor <;> intro h <;> rcases h with h | h | h | h <;> simp [h]

theorem virtual_contains (a : String) : STATE_VIRTUAL_ATTRS.contains a = VIRTUAL.contains a := by
  rw [Bool.eq_iff_iff]
  simp only [List.contains_iff_mem]
  exact virtual_attrs_table a

theorem abs_mkSnap (e : Ent) (r : Rec) : absSnap (mkSnap e r) = ⟨r.value, viewOf e (absRec r)⟩ := by
  simp only [absSnap, mkSnap, ASnap.mk.injEq, true_and]
  funext a
  simp only [absAttrs, ofList, viewOf, absRec, aget_setFields]
  by_cases h : a ∈ VIRTUAL
  · simp [h, (virtual_tables a).mpr h]
  · have : ¬ a ∈ STATEVAL_NEW_FIELDS := fun h' => h ((virtual_tables a).mp h')
    simp [h, this]

theorem abs_snapAttrs (s : Snap) : absAttrs (snapAttrs s) = attrsOfView (absAttrs s.dict) := by
  unfold snapAttrs attrsOfView
  rw [abs_dpopAll]
  funext a
  by_cases h : a ∈ VIRTUAL
  · simp [h, (virtual_attrs_table a).mpr h]
  · have : ¬ a ∈ STATE_VIRTUAL_ATTRS := fun h' => h ((virtual_attrs_table a).mp h')
    simp [h, this]

/-! ### `State.set` -/

/-- what `State.set` does to the dictionary, for every argument combination (StateVal included) -/
theorem setCore_abs (st : Store) (e : Ent) (value : Arg) (na : Option Attrs) (kw : Attrs) :
    absStore (setCore st e value na kw)
      = setRule (absStore st) e (argStr? value) ((svAttrs value na).map absAttrs) kw := by
  unfold setCore setRule
  rw [absStore_aset]
  congr 1
  simp only [absRec, abs_mergeKw]
  have hv : valueOf (absStore st) e = keepValue none (aget e st) := by
    simp only [valueOf, absStore_apply]
    cases aget e st <;> simp [keepValue, absRec]
  have ha : attrsOf (absStore st) e = absAttrs (keepAttrs none (aget e st)) := by
    simp only [attrsOf, absStore_apply]
    cases aget e st
    · funext a; simp [keepAttrs, noAttrs, absAttrs, ofList, aget]
    · simp [keepAttrs, absRec]
  cases h1 : argStr? value <;> cases h2 : svAttrs value na <;>
    simp [fetchOld, keepValue, keepAttrs, hv, ha]

theorem mkSnap_view (e : Ent) (r : Rec) (a : String) : aget a (mkSnap e r).dict = viewOf e (absRec r) a :=
  congrFun (congrArg ASnap.view (abs_mkSnap e r)) a

theorem svAttrs_conf (value : Arg) (na : Option Attrs) (h : (∀ s, value ≠ .sv s) ∨ na ≠ none) :
    svAttrs value na = na := by
  cases value <;> cases na <;> simp_all [svAttrs]

/-! ### the entry points commute with the abstraction -/

theorem stateExist_abs (env : Env) (st : Store) (parts : List String) :
    stateExist env st parts = Spec.exist env (absStore st) parts := by
  rcases parts with _ | ⟨d, _ | ⟨n, _ | ⟨a, _ | ⟨b, r⟩⟩⟩⟩ <;>
    simp only [stateExist, Spec.exist, absStore_apply, virtual_contains]
  · cases aget (d, n) st <;> simp
  · cases aget (d, n) st <;> simp [absRec, absAttrs, ofList]

theorem snapGetattr_abs (env : Env) (e : Ent) (r : Rec) (a : String) :
    absOut (snapGetattr (mkSnap e r) a) =
      (match viewOf e (absRec r) a with
       | some v => SOut.attr v
       | none => if methodAttr a then SOut.callable else SOut.exc "AttributeError") := by
  unfold snapGetattr
  rw [mkSnap_view]
  cases viewOf e (absRec r) a
  · by_cases h : methodAttr a = true
    · simp only [h, if_true, absOut]
    · simp only [h, Bool.false_eq_true, if_false, absOut]
  · simp [absOut]

theorem stateGet_abs (env : Env) (st : Store) (parts : List String) :
    absOut (stateGet env st parts) = Spec.get env (absStore st) parts := by
  rcases parts with _ | ⟨d, _ | ⟨n, _ | ⟨a, _ | ⟨b, r⟩⟩⟩⟩ <;> simp only [stateGet, Spec.get, absStore_apply, absOut]
  · cases aget (d, n) st <;> simp [absOut, abs_mkSnap, absRec]
  · cases h : aget (d, n) st
    · simp [absOut]
    · by_cases hs : env.svcMethod d a = true
      · simp [hs, absOut]
      · simp only [hs, Option.map_some, Bool.false_eq_true, if_false]
        exact snapGetattr_abs env _ _ _

theorem stateGetattr_abs (st : Store) (parts : List String) :
    absOut (stateGetattr st parts) = Spec.getattr (absStore st) parts := by
  rcases parts with _ | ⟨d, _ | ⟨n, _ | ⟨a, r⟩⟩⟩ <;> simp only [stateGetattr, Spec.getattr, absStore_apply, absOut]
  cases aget (d, n) st <;> simp [absOut, absRec]

theorem stateNames_abs (st : Store) (dom : Option String) :
    absOut (.names (stateNames st dom)) = .names (Spec.names (absStore st) dom) := by
  simp only [absOut, SOut.names.injEq]
  funext e
  simp only [stateNames, Spec.names, List.mem_filter, absStore_apply, Option.isSome_map]
  rw [Bool.eq_iff_iff]
  simp only [decide_eq_true_eq, Bool.and_eq_true]
  rw [mem_keys_iff]
  exact Iff.rfl

theorem stateDelete_abs (st : Store) (parts : List String) :
    (absStore (stateDelete st parts).1, absOut (stateDelete st parts).2) = Spec.delete (absStore st) parts := by
  rcases parts with _ | ⟨d, _ | ⟨n, _ | ⟨a, _ | ⟨b, r⟩⟩⟩⟩ <;> simp only [stateDelete, Spec.delete, absStore_apply, absOut]
  · cases h : aget (d, n) st <;> simp [absOut, absStore_adel]
  · cases h : aget (d, n) st
    · simp [absOut]
    · rename_i r
      simp only [Option.map_some, absRec, absAttrs, ofList]
      cases h2 : aget a r.attrs
      · simp [absOut]
      · simp only [absOut, setCore_abs, argStr?, svAttrs, Option.map_some, abs_adel]
        simp [setRule, merge, absAttrs, ofList]

theorem stateSetattr_abs (fx : Fixes) (env : Env) (st : Store) (parts : List String) (v : Val)
    (h : fx.setattrDict = true ∨ ∀ d n a, parts = [d, n, a] → reserved a = false) :
    (absStore (stateSetattr fx env st parts v).1, absOut (stateSetattr fx env st parts v).2)
      = Spec.setattr (absStore st) parts v := by
  rcases parts with _ | ⟨d, _ | ⟨n, _ | ⟨a, _ | ⟨b, r⟩⟩⟩⟩ <;> simp only [stateSetattr, Spec.setattr, absOut]
  simp only [absStore_apply]
  cases h2 : aget (d, n) st
  · simp [absOut]
  · rename_i r
    by_cases hf : fx.setattrDict = true
    · simp only [hf, if_true, Option.map_some, absOut, setCore_abs, argStr?, svAttrs]
      simp [setRule, merge, abs_aset, attrsOf, valueOf, absStore_apply, h2, absRec]
    · have hr : STATE_SET_PARAMS.contains a = false := by
        rcases h with h | h
        · exact absurd h hf
        · exact h d n a rfl
      have hr' : a ∉ STATE_SET_PARAMS := by simpa using hr
      simp [hf, hr', absOut, setCore_abs, argStr?, svAttrs]

theorem stateSet_abs (st : Store) (parts : List String) (value : Arg) (na : Option Attrs) (kw : Attrs)
    (h : (∀ s, value ≠ .sv s) ∨ na ≠ none) :
    (absStore (stateSet st parts value na kw).1, absOut (stateSet st parts value na kw).2)
      = Spec.set (absStore st) parts (argStr? value) na kw := by
  rcases parts with _ | ⟨d, _ | ⟨n, _ | ⟨a, r⟩⟩⟩ <;> simp only [stateSet, Spec.set, absOut]
  rw [setCore_abs, svAttrs_conf _ _ h]
  cases na <;> rfl

/-! ### name resolution -/

theorem simple_not_mem (env : Env) (hs : SimpleEnv env) (id : List String) (hl : id.length ≠ 1) :
    env.globalDecl.contains id = false ∧ env.sym.contains id = false ∧ env.localSym.contains id = false ∧
    env.globalSym.contains id = false ∧ env.builtinAst.contains id = false ∧ env.builtins.contains id = false := by
  have key : ∀ l : List (List String), (∀ x ∈ l, x ∈ pyTables env) → l.contains id = false := by
    intro l hl'
    rw [Bool.eq_false_iff]
    intro hc
    have hm : id ∈ l := by simpa using hc
    exact hl (hs.1 id (hl' id hm))
  refine ⟨key _ ?_, key _ ?_, key _ ?_, key _ ?_, key _ ?_, key _ ?_⟩ <;>
    (intro x hx; simp [pyTables, hx])

theorem astNameLoad_two (env : Env) (hs : SimpleEnv env) (st : Store) (d n : String) :
    astNameLoad env st [d, n] = if callableName env d n then .callable else stateGet env st [d, n] := by
  obtain ⟨h1, h2, h3, h4, h5, h6⟩ := simple_not_mem env hs [d, n] (by simp)
  simp only [astNameLoad, NAME_LOOKUP_ORDER, firstHit, lookupStep, h1, h2, h3, h4, h5, h6, callableName]
  by_cases hf : [d, n] ∈ env.functions
  · simp [hf]
  · by_cases hsv : (d, n) ∈ env.services
    · simp [hf, hsv]
    · simp [hf, hsv]

theorem functions_no_three (env : Env) (hs : SimpleEnv env) (d n a : String) :
    env.functions.contains [d, n, a] = false := by
  rw [Bool.eq_false_iff]
  intro hc
  have hm : [d, n, a] ∈ env.functions := by simpa using hc
  have := hs.2 _ hm
  simp at this

theorem functions_no_one (env : Env) (hs : SimpleEnv env) (h : String) : [h] ∉ env.functions := by
  intro hm
  have := hs.2 _ hm
  simp at this

theorem astNameLoad_three (env : Env) (hs : SimpleEnv env) (st : Store) (d n a : String) :
    astNameLoad env st [d, n, a] =
      if stateExist env st [d, n, a] then stateGet env st [d, n, a] else .evalName := by
  obtain ⟨h1, h2, h3, h4, h5, h6⟩ := simple_not_mem env hs [d, n, a] (by simp)
  have h7 := functions_no_three env hs d n a
  simp only [astNameLoad, NAME_LOOKUP_ORDER, firstHit, lookupStep, h1, h2, h3, h4, h5, h6, h7]
  by_cases he : stateExist env st [d, n, a] = true <;> simp [he]

/-- what the head of a dotted name resolves to, seen through `getattr` -/
theorem head_getattr (env : Env) (hs : SimpleEnv env) (hok : EnvOK env) (st : Store) (h x : String) :
    getattrOut (astNameLoad env st [h]) x =
      (match pyVarSrc env h with
       | some src => .py src
       | none => .exc "NameError") := by
  simp only [astNameLoad, NAME_LOOKUP_ORDER, firstHit, lookupStep, pyVarSrc]
  by_cases g : [h] ∈ env.globalDecl
  · obtain ⟨g1, g2, g3⟩ := hok.1 _ g
    simp [g, g1, g2, g3, getattrOut]
  · by_cases a1 : [h] ∈ env.sym
    · simp [g, a1, getattrOut]
    · by_cases a2 : [h] ∈ env.localSym
      · simp [g, a1, a2, getattrOut]
      · by_cases a3 : [h] ∈ env.globalSym
        · have : [h] ∉ env.localNames := by
            intro hl
            rcases hok.2 _ hl a3 with e | e
            · exact a1 e
            · exact a2 e
          simp [g, a1, a2, a3, this, getattrOut]
        · by_cases a4 : [h] ∈ env.builtinAst
          · simp [g, a1, a2, a3, a4, getattrOut]
          · by_cases a5 : [h] ∈ env.builtins
            · simp [g, a1, a2, a3, a4, a5, getattrOut]
            · have a6 := functions_no_one env hs h
              simp [g, a1, a2, a3, a4, a5, a6, getattrOut]

theorem head_defined (env : Env) (hs : SimpleEnv env) (hok : EnvOK env) (st : Store) (h : String) :
    headDefined env st h = (pyVarSrc env h).isSome := by
  simp only [headDefined, astNameLoad, NAME_LOOKUP_ORDER, firstHit, lookupStep, pyVarSrc]
  by_cases g : [h] ∈ env.globalDecl
  · obtain ⟨g1, g2, g3⟩ := hok.1 _ g
    simp [g, g1, g2, g3]
  · by_cases a1 : [h] ∈ env.sym
    · simp [g, a1]
    · by_cases a2 : [h] ∈ env.localSym
      · simp [g, a1, a2]
      · by_cases a3 : [h] ∈ env.globalSym
        · have : [h] ∉ env.localNames := by
            intro hl
            rcases hok.2 _ hl a3 with e | e
            · exact a1 e
            · exact a2 e
          simp [g, a1, a2, a3, this]
        · by_cases a4 : [h] ∈ env.builtinAst
          · simp [g, a1, a2, a3, a4]
          · by_cases a5 : [h] ∈ env.builtins
            · simp [g, a1, a2, a3, a4, a5]
            · have a6 := functions_no_one env hs h
              simp [g, a1, a2, a3, a4, a5, a6]

theorem stateGet_two_ne_evalName (env : Env) (st : Store) (d n : String) : stateGet env st [d, n] ≠ .evalName := by
  simp only [stateGet]; cases aget (d, n) st <;> simp

theorem snapGetattr_ne_evalName (s : Snap) (a : String) : snapGetattr s a ≠ .evalName := by
  unfold snapGetattr
  cases aget a s.dict
  · by_cases h : methodAttr a = true <;> simp [h]
  · simp

theorem stateGet_three_ne_evalName (env : Env) (st : Store) (d n a : String) :
    stateGet env st [d, n, a] ≠ .evalName := by
  simp only [stateGet]
  cases aget (d, n) st
  · simp
  · by_cases h : env.svcMethod d a = true
    · simp [h]
    · simp only [h]; exact snapGetattr_ne_evalName _ _

theorem loadDotted_two (env : Env) (hs : SimpleEnv env) (hok : EnvOK env) (st : Store) (d n : String) :
    loadDotted env st [d, n] =
      (match pyVarSrc env d with
       | some src => .py src
       | none => if callableName env d n then .callable else stateGet env st [d, n]) := by
  simp only [loadDotted, List.reverse_cons, List.reverse_nil, List.nil_append, List.cons_append, evalRev,
    List.headD_cons, head_defined env hs hok, head_getattr env hs hok, astNameLoad_two env hs]
  cases hp : pyVarSrc env d
  · simp only [Option.isSome_none, Bool.false_eq_true, if_false]
    by_cases hc : callableName env d n = true
    · simp [hc]
    · have := stateGet_two_ne_evalName env st d n
      simp [hc, this]
  · simp

theorem loadDotted_three (env : Env) (hs : SimpleEnv env) (hok : EnvOK env) (st : Store) (d n a : String)
    (hc : (pyVarSrc env d).isSome = true ∨ callableName env d n = false) :
    loadDotted env st [d, n, a] =
      (match pyVarSrc env d with
       | some src => .py src
       | none => stateGet env st [d, n, a]) := by
  have h2 := loadDotted_two env hs hok st d n
  simp only [loadDotted, List.reverse_cons, List.reverse_nil, List.nil_append, List.cons_append] at h2
  simp only [loadDotted, List.reverse_cons, List.reverse_nil, List.nil_append, List.cons_append]
  rw [evalRev]
  simp only [List.reverse_cons, List.reverse_nil, List.nil_append, List.cons_append, List.headD_cons,
    head_defined env hs hok, astNameLoad_three env hs, h2]
  cases hp : pyVarSrc env d
  · have hc' : callableName env d n = false := by
      rcases hc with h | h
      · simp [hp] at h
      · exact h
    simp only [Option.isSome_none, Bool.false_eq_true, if_false, hc']
    by_cases he : stateExist env st [d, n, a] = true
    · have := stateGet_three_ne_evalName env st d n a
      simp [he, this]
    · simp only [he, Bool.false_eq_true, if_false, bne_self_eq_false]
      simp only [stateExist] at he
      simp only [stateGet]
      cases hg : aget (d, n) st
      · simp [getattrOut]
      · rename_i r
        simp only [hg, Bool.or_eq_true, not_or] at he
        have hsm : env.svcMethod d a = false := by
          cases h : env.svcMethod d a
          · rfl
          · simp [h] at he
        simp [getattrOut, hsm]
  · simp [getattrOut]
  all_goals simp

/-! ### one step of a script commutes with the abstraction -/

theorem absState_capture (ms : MState) (o : Out) :
    absState (capture ms o) = Spec.capture (absState ms) (absOut o) := by
  cases o <;> simp [capture, Spec.capture, absState, absOut]

theorem load_abs (env : Env) (hs : SimpleEnv env) (hok : EnvOK env) (st : Store) (parts : List String)
    (hc : ∃ fx, Conf fx env (.load parts) = true) :
    absOut (loadDotted env st parts) = Spec.load env (absStore st) parts := by
  obtain ⟨fx, hc⟩ := hc
  rcases parts with _ | ⟨d, _ | ⟨n, _ | ⟨a, _ | ⟨b, r⟩⟩⟩⟩
  all_goals first | (simp [Conf] at hc; done) | skip
  all_goals simp only [Conf] at hc
  · rw [loadDotted_two env hs hok]
    simp only [Spec.load]
    cases pyVarSrc env d
    · by_cases h : callableName env d n = true
      · simp [h, absOut]
      · simp only [h, Bool.false_eq_true, if_false]; exact stateGet_abs env st _
    · simp [absOut]
  · rw [loadDotted_three env hs hok st d n a (by
      rcases Bool.or_eq_true _ _ |>.mp hc with h | h
      · exact Or.inl h
      · exact Or.inr (by simpa using h))]
    simp only [Spec.load]
    cases pyVarSrc env d
    · exact stateGet_abs env st _
    · simp [absOut]

theorem resolveArg_snap (ms : MState) (i : Nat) :
    (absState ms).snaps[i]? = (ms.snaps[i]?).map absSnap := by
  simp [absState]

theorem withStore_abs (ms : MState) (r : Store × Out) (r' : AStore × SOut)
    (h : (absStore r.1, absOut r.2) = r') :
    absState (withStore ms r).1 = (Spec.withStore (absState ms) r').1 ∧
      absOut (withStore ms r).2 = (Spec.withStore (absState ms) r').2 := by
  subst h
  simp [withStore, Spec.withStore, absState]

theorem step_refines (fx : Fixes) (env : Env) (hs : SimpleEnv env) (hok : EnvOK env) (ms : MState) (op : Op)
    (hc : Conf fx env op = true) :
    absState (step fx env ms op).1 = (Spec.step env (absState ms) op).1 ∧
      absOut (step fx env ms op).2 = (Spec.step env (absState ms) op).2 := by
  cases op with
  | load parts =>
    simp only [step, Spec.step]
    have h := load_abs env hs hok ms.store parts ⟨fx, hc⟩
    exact ⟨by rw [absState_capture, h]; rfl, by rw [h]; rfl⟩
  | get parts =>
    simp only [step, Spec.step]
    have h := stateGet_abs env ms.store parts
    exact ⟨by rw [absState_capture, h]; rfl, by rw [h]; rfl⟩
  | store parts v =>
    rcases parts with _ | ⟨d, _ | ⟨n, _ | ⟨a, _ | ⟨b, r⟩⟩⟩⟩
    all_goals first | (simp [Conf] at hc; done) | skip
    all_goals simp only [Conf] at hc
    · -- d.n = v
      cases v with
      | snap i => simp at hc
      | none =>
        simp only [step, Spec.step, resolveArg, Spec.store]
        apply withStore_abs
        simp only [storeDotted, head_defined env hs hok]
        cases hq : pyVarSrc env d
        · have hf : fx.assignNone = true := by simpa [hq] using hc
          simp only [Option.isSome_none, Bool.false_eq_true, if_false, List.length_cons, List.length_nil,
            ASSIGN_DOTS_SET, refStr, hf, Bool.true_and, beq_self_eq_true, if_true]
          have := stateSet_abs ms.store [d, n] (.plain noneStr) none [] (Or.inl (by simp))
          simpa [Spec.set, argStr?, absState, noneStr] using this
        · simp [absOut, absState]
      | plain x =>
        simp only [step, Spec.step, resolveArg, Spec.store]
        apply withStore_abs
        simp only [storeDotted, head_defined env hs hok]
        cases hq : pyVarSrc env d
        · have hne : (Arg.plain x == Arg.none) = false := by simp
          simp only [Option.isSome_none, Bool.false_eq_true, if_false, List.length_cons, List.length_nil,
            ASSIGN_DOTS_SET, refStr, hne, Bool.and_false]
          have := stateSet_abs ms.store [d, n] (.plain x) none [] (Or.inl (by simp))
          simpa [Spec.set, argStr?, absState] using this
        · simp [absOut, absState]
    · -- d.n.a = v
      cases v with
      | snap i => simp at hc
      | none =>
        simp only [step, Spec.step, resolveArg, Spec.store]
        apply withStore_abs
        simp only [storeDotted, head_defined env hs hok]
        cases hq : pyVarSrc env d
        · have hr : fx.setattrDict = true ∨ reserved a = false := by
            simp only [hq, Option.isSome_none, Bool.or_eq_true, Bool.not_eq_true', Bool.false_eq_true, or_false] at hc
            exact hc
          simp only [Option.isSome_none, Bool.false_eq_true, if_false, List.length_cons, List.length_nil,
            ASSIGN_DOTS_SET, ASSIGN_DOTS_SETATTR]
          have := stateSetattr_abs fx env ms.store [d, n, a] Val.none (by
            rcases hr with h | h
            · exact Or.inl h
            · right; intro d' n' a' he; simp only [List.cons.injEq, and_true] at he; rw [← he.2.2]; exact h)
          simpa [absState] using this
        · simp [absOut, absState]
      | plain x =>
        simp only [step, Spec.step, resolveArg, Spec.store]
        apply withStore_abs
        simp only [storeDotted, head_defined env hs hok]
        cases hq : pyVarSrc env d
        · have hr : fx.setattrDict = true ∨ reserved a = false := by
            simp only [hq, Option.isSome_none, Bool.or_eq_true, Bool.not_eq_true', Bool.false_eq_true, or_false] at hc
            exact hc
          simp only [Option.isSome_none, Bool.false_eq_true, if_false, List.length_cons, List.length_nil,
            ASSIGN_DOTS_SET, ASSIGN_DOTS_SETATTR]
          have := stateSetattr_abs fx env ms.store [d, n, a] x (by
            rcases hr with h | h
            · exact Or.inl h
            · right; intro d' n' a' he; simp only [List.cons.injEq, and_true] at he; rw [← he.2.2]; exact h)
          simpa [absState] using this
        · simp [absOut, absState]
  | aug parts sfx => simp [Conf] at hc
  | delStmt parts =>
    rcases parts with _ | ⟨d, _ | ⟨n, r⟩⟩
    all_goals first | (simp [Conf] at hc; done) | skip
    simp only [Conf] at hc
    simp only [step, Spec.step]
    apply withStore_abs
    simp only [delDotted, head_defined env hs hok, Spec.delStmt]
    cases hq : pyVarSrc env d
    · simp only [Option.isSome_none, Bool.and_false, Bool.false_eq_true, if_false]
      exact stateDelete_abs ms.store _
    · have hf : fx.delPyAttr = true := by simpa [hq] using hc
      simp [hf, absOut, absState]
  | set parts v na kw =>
    simp only [step, Spec.step]
    cases v with
    | none =>
      simp only [resolveArg, refValue]
      apply withStore_abs
      exact stateSet_abs ms.store parts .none na kw (Or.inl (by simp))
    | plain x =>
      simp only [resolveArg, refValue]
      apply withStore_abs
      exact stateSet_abs ms.store parts (.plain x) na kw (Or.inl (by simp))
    | snap i =>
      have hna : na ≠ none := by
        intro h; subst h; simp [Conf] at hc
      simp only [resolveArg, refValue, resolveArg_snap]
      cases hi : ms.snaps[i]?
      · simp [absOut]
      · rename_i sn
        simp only [Option.map_some]
        apply withStore_abs
        have := stateSet_abs ms.store parts (.sv sn) na kw (Or.inr hna)
        simpa [argStr?, absSnap, absState] using this
  | setattr parts v =>
    simp only [step, Spec.step]
    apply withStore_abs
    apply stateSetattr_abs
    rcases parts with _ | ⟨d, _ | ⟨n, _ | ⟨a, _ | ⟨b, r⟩⟩⟩⟩
    all_goals first | (right; intro d' n' a' he; simp at he; done) | skip
    simp only [Conf, Bool.or_eq_true, Bool.not_eq_true'] at hc
    rcases hc with h | h
    · exact Or.inl h
    · right; intro d' n' a' he; simp only [List.cons.injEq, and_true] at he; rw [← he.2.2]; exact h
  | delete parts =>
    simp only [step, Spec.step]
    apply withStore_abs
    exact stateDelete_abs ms.store parts
  | exist parts => simp [step, Spec.step, absOut, stateExist_abs, absState]
  | getattr parts =>
    simp only [step, Spec.step]
    refine ⟨?_, stateGetattr_abs ms.store parts⟩
    first | rfl | trivial
  | getattrSnap i =>
    simp only [step, Spec.step, resolveArg_snap]
    cases ms.snaps[i]? <;> simp [absOut, abs_snapAttrs, absSnap]
  | names dom =>
    simp only [step, Spec.step]
    refine ⟨?_, stateNames_abs ms.store dom⟩
    first | rfl | trivial
  | peek i =>
    simp only [step, Spec.step, resolveArg_snap]
    cases ms.snaps[i]? <;> simp [absOut]
  | extSet e value attrs =>
    simp [step, Spec.step, absState, absStore_aset, absRec, absAttrs, absOut]
  | extRemove e =>
    simp [step, Spec.step, absState, absStore_adel, absOut]

end PsModel.C16
