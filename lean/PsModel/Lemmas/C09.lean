import PsModel.Model.C09
/-! helper lemmas for `Props/C09.lean`: the subscription tables -/
namespace PsModel.C09

/-! ## association lists -/

theorem subsOf_cons (k : Ent) (v : List Q) (t : StateTbl) (e : Ent) :
    subsOf ((k, v) :: t) e = if k = e then v else subsOf t e := by
  simp only [subsOf, List.lookup_cons]
  by_cases h : k = e
  · subst h; simp
  · have : (e == k) = false := by rw [beq_eq_false_iff_ne]; exact fun x => h x.symm
    simp [this, h]

theorem hasEnt_cons (k : Ent) (v : List Q) (t : StateTbl) (e : Ent) :
    hasEnt ((k, v) :: t) e = ((k == e) || hasEnt t e) := by
  simp [hasEnt]

theorem subsOf_of_not_has (t : StateTbl) (e : Ent) (h : hasEnt t e = false) : subsOf t e = [] := by
  induction t with
  | nil => rfl
  | cons kv t ih =>
    obtain ⟨k, v⟩ := kv
    rw [hasEnt_cons, Bool.or_eq_false_iff] at h
    have hk : ¬ k = e := by simpa using h.1
    rw [subsOf_cons]
    simp only [hk, if_false]
    exact ih h.2

/-- lookup after updating the value of key `e` with `f` -/
theorem subsOf_mapKey (t : StateTbl) (e e' : Ent) (f : List Q → List Q) :
    subsOf (t.map (fun kv => if kv.1 == e then (kv.1, f kv.2) else kv)) e' =
      if e' = e ∧ hasEnt t e = true then f (subsOf t e) else subsOf t e' := by
  induction t with
  | nil => simp [subsOf, hasEnt]
  | cons kv t ih =>
    obtain ⟨k, v⟩ := kv
    simp only [List.map_cons]
    by_cases hk : k = e
    · subst hk
      simp only [beq_self_eq_true, if_true, subsOf_cons, hasEnt_cons, Bool.true_or, and_true]
      by_cases he : k = e'
      · subst he; simp
      · have : ¬ e' = k := fun x => he x.symm
        simp only [he, if_false, this]
        rw [ih]
        simp [this]
    · have hk' : (k == e) = false := by simpa using hk
      simp only [hk', Bool.false_eq_true, if_false, subsOf_cons, hasEnt_cons, Bool.false_or]
      by_cases he : k = e'
      · subst he
        have : ¬ k = e := hk
        simp [this]
      · simp only [he, if_false, hk]
        exact ih

theorem hasEnt_mapKey (t : StateTbl) (e e' : Ent) (f : List Q → List Q) :
    hasEnt (t.map (fun kv => if kv.1 == e then (kv.1, f kv.2) else kv)) e' = hasEnt t e' := by
  induction t with
  | nil => rfl
  | cons kv t ih =>
    obtain ⟨k, v⟩ := kv
    simp only [List.map_cons, hasEnt_cons] at ih ⊢
    by_cases hk : (k == e) = true
    · simp only [hk, if_true, hasEnt_cons, ih]
    · simp only [hk, Bool.false_eq_true, if_false, hasEnt_cons, ih]

theorem subsOf_append_new (t : StateTbl) (e e' : Ent) (v : List Q) (h : hasEnt t e = false) :
    subsOf (t ++ [(e, v)]) e' = if e' = e then v else subsOf t e' := by
  induction t with
  | nil =>
    simp only [List.nil_append, subsOf_cons]
    by_cases he : e = e'
    · subst he; simp
    · have : ¬ e' = e := fun x => he x.symm
      simp [he, this, subsOf]
  | cons kv t ih =>
    obtain ⟨k, w⟩ := kv
    rw [hasEnt_cons, Bool.or_eq_false_iff] at h
    have hk : ¬ k = e := by simpa using h.1
    simp only [List.cons_append, subsOf_cons]
    by_cases he : k = e'
    · subst he
      simp [hk]
    · simp only [he, if_false]
      exact ih h.2

/-! ## membership after one update -/

theorem mem_addSub (t : StateTbl) (e e' : Ent) (q q' : Q) :
    q' ∈ subsOf (addSub t e q) e' ↔ q' ∈ subsOf t e' ∨ (e' = e ∧ q' = q) := by
  unfold addSub
  by_cases hh : hasEnt t e = true
  · simp only [hh, if_true]
    have hm := subsOf_mapKey t e e' (fun l : List Q => if l.contains q then l else l ++ [q])
    rw [hm]
    by_cases he : e' = e
    · subst he
      simp only [hh, and_self, if_true, true_and]
      by_cases hc : (subsOf t e').contains q = true
      · simp only [hc, if_true]
        constructor
        · exact fun h => .inl h
        · rintro (h | rfl)
          · exact h
          · simpa using hc
      · simp only [hc, Bool.false_eq_true, if_false, List.mem_append, List.mem_singleton]
    · simp [he]
  · have hh' : hasEnt t e = false := by simpa using hh
    simp only [hh', Bool.false_eq_true, if_false]
    rw [subsOf_append_new _ _ _ _ hh']
    by_cases he : e' = e
    · subst he
      simp [subsOf_of_not_has _ _ hh']
    · simp [he]

theorem mem_delSub (t : StateTbl) (e e' : Ent) (q q' : Q) :
    q' ∈ subsOf (delSub t e q) e' ↔ q' ∈ subsOf t e' ∧ ¬ (e' = e ∧ q' = q) := by
  unfold delSub
  rw [subsOf_mapKey]
  by_cases he : e' = e
  · subst he
    by_cases hh : hasEnt t e' = true
    · simp [hh]
    · have hh' : hasEnt t e' = false := by simpa using hh
      simp [hh', subsOf_of_not_has _ _ hh']
  · simp [he]

/-! ## `notify_add` / `notify_del` -/

theorem mem_entsOf {names : List Var} {e : Ent} : e ∈ entsOf names ↔ ∃ v ∈ names, validVar v = true ∧ entOf v = e := by
  simp only [entsOf, List.mem_map, List.mem_filter]
  constructor
  · rintro ⟨v, ⟨hv, hval⟩, rfl⟩; exact ⟨v, hv, hval, rfl⟩
  · rintro ⟨v, hv, hval, rfl⟩; exact ⟨v, ⟨hv, hval⟩, rfl⟩

theorem mem_notifyAdd (names : List Var) (q : Q) (t : StateTbl) (e : Ent) (q' : Q) :
    q' ∈ subsOf (notifyAdd names q t) e ↔ q' ∈ subsOf t e ∨ (q' = q ∧ e ∈ entsOf names) := by
  unfold notifyAdd
  induction names generalizing t with
  | nil => simp [entsOf]
  | cons v vs ih =>
    simp only [List.foldl_cons]
    rw [ih]
    by_cases hv : validVar v = true
    · simp only [hv, if_true, mem_addSub, entsOf, List.filter_cons, List.map_cons, List.mem_cons]
      constructor
      · rintro ((h | ⟨rfl, rfl⟩) | ⟨rfl, h⟩)
        · exact .inl h
        · exact .inr ⟨rfl, .inl rfl⟩
        · exact .inr ⟨rfl, .inr h⟩
      · rintro (h | ⟨rfl, rfl | h⟩)
        · exact .inl (.inl h)
        · exact .inl (.inr ⟨rfl, rfl⟩)
        · exact .inr ⟨rfl, h⟩
    · simp [hv, entsOf, List.filter_cons]

/-- the repaired loop (`continue`) removes the queue from every named entity -/
theorem mem_notifyDel_cont (names : List Var) (q : Q) (t : StateTbl) (e : Ent) (q' : Q) :
    q' ∈ subsOf (notifyDel true q names t) e ↔ q' ∈ subsOf t e ∧ ¬ (q' = q ∧ e ∈ entsOf names) := by
  induction names generalizing t with
  | nil => simp [notifyDel, entsOf]
  | cons v vs ih =>
    unfold notifyDel
    by_cases hv : validVar v = true
    · simp only [hv, Bool.not_true, Bool.false_eq_true, if_false, if_true]
      have hents : e ∈ entsOf (v :: vs) ↔ e = entOf v ∨ e ∈ entsOf vs := by
        simp only [entsOf, List.filter_cons, hv, if_true, List.map_cons, List.mem_cons]
      by_cases hc : (subsOf t (entOf v)).contains q = true
      · simp only [hc, if_true]
        rw [ih, mem_delSub, hents]
        constructor
        · rintro ⟨⟨h1, h2⟩, h3⟩
          refine ⟨h1, ?_⟩
          rintro ⟨rfl, he | he⟩
          · exact h2 ⟨he, rfl⟩
          · exact h3 ⟨rfl, he⟩
        · rintro ⟨h1, h2⟩
          exact ⟨⟨h1, fun ⟨he, hq⟩ => h2 ⟨hq, .inl he⟩⟩, fun ⟨hq, he⟩ => h2 ⟨hq, .inr he⟩⟩
      · simp only [hc, Bool.false_eq_true, if_false]
        rw [ih, hents]
        have hnot : q ∉ subsOf t (entOf v) := by simpa using hc
        constructor
        · rintro ⟨h1, h2⟩
          refine ⟨h1, ?_⟩
          rintro ⟨rfl, rfl | he⟩
          · exact hnot h1
          · exact h2 ⟨rfl, he⟩
        · rintro ⟨h1, h2⟩
          exact ⟨h1, fun ⟨hq, he⟩ => h2 ⟨hq, .inr he⟩⟩
    · have hv' : validVar v = false := by simpa using hv
      simp only [hv', Bool.not_false, if_true]
      rw [ih]
      simp [entsOf, List.filter_cons, hv']

/-- the loop as coded (`return`) does the same as long as every named entity is named once and still lists the queue -/
theorem mem_notifyDel_code (names : List Var) (q : Q) (t : StateTbl) (hnd : (entsOf names).Nodup)
    (hall : ∀ e ∈ entsOf names, q ∈ subsOf t e) (e : Ent) (q' : Q) :
    q' ∈ subsOf (notifyDel false q names t) e ↔ q' ∈ subsOf t e ∧ ¬ (q' = q ∧ e ∈ entsOf names) := by
  induction names generalizing t with
  | nil => simp [notifyDel, entsOf]
  | cons v vs ih =>
    unfold notifyDel
    by_cases hv : validVar v = true
    · simp only [hv, Bool.not_true, Bool.false_eq_true, if_false]
      have hents : ∀ x, x ∈ entsOf (v :: vs) ↔ x = entOf v ∨ x ∈ entsOf vs := by
        intro x
        simp only [entsOf, List.filter_cons, hv, if_true, List.map_cons, List.mem_cons]
      have hnd' : entOf v ∉ entsOf vs ∧ (entsOf vs).Nodup := by
        simpa [entsOf, List.filter_cons, hv] using hnd
      have hc : (subsOf t (entOf v)).contains q = true := by
        simpa using hall (entOf v) ((hents _).mpr (.inl rfl))
      simp only [hc, if_true]
      rw [ih _ hnd'.2, mem_delSub, hents]
      · constructor
        · rintro ⟨⟨h1, h2⟩, h3⟩
          refine ⟨h1, ?_⟩
          rintro ⟨rfl, he | he⟩
          · exact h2 ⟨he, rfl⟩
          · exact h3 ⟨rfl, he⟩
        · rintro ⟨h1, h2⟩
          exact ⟨⟨h1, fun ⟨he, hq⟩ => h2 ⟨hq, .inl he⟩⟩, fun ⟨hq, he⟩ => h2 ⟨hq, .inr he⟩⟩
      · intro x hx
        rw [mem_delSub]
        refine ⟨hall x ((hents x).mpr (.inr hx)), ?_⟩
        rintro ⟨rfl, _⟩
        exact hnd'.1 hx
    · have hv' : validVar v = false := by simpa using hv
      simp only [hv', Bool.not_false, if_true]
      have heq : entsOf (v :: vs) = entsOf vs := by simp [entsOf, List.filter_cons, hv']
      rw [heq] at hnd hall ⊢
      exact ih _ hnd hall

theorem entsOf_perm {a b : List Var} (h : a.Perm b) : (entsOf a).Perm (entsOf b) :=
  (h.filter _).map _

/-! ## `Event.notify` and the bus listener -/

theorem busCount_cons (k : String) (n : Nat) (b : List (String × Nat)) (ty : String) :
    busCount ((k, n) :: b) ty = if k = ty then n else busCount b ty := by
  simp only [busCount, List.lookup_cons]
  by_cases h : k = ty
  · subst h; simp
  · have : (ty == k) = false := by rw [beq_eq_false_iff_ne]; exact fun x => h x.symm
    simp [this, h]

theorem busCount_inc (b : List (String × Nat)) (ty ty' : String) :
    busCount (busInc b ty) ty' = if ty' = ty then busCount b ty + 1 else busCount b ty' := by
  unfold busInc
  induction b with
  | nil =>
    simp only [List.any_nil, Bool.false_eq_true, if_false, List.nil_append, busCount_cons]
    by_cases h : ty = ty'
    · subst h; simp [busCount]
    · have : ¬ ty' = ty := fun x => h x.symm
      simp [h, this, busCount]
  | cons kv b ih =>
    obtain ⟨k, n⟩ := kv
    by_cases hk : k = ty
    · subst hk
      simp only [List.any_cons, beq_self_eq_true, Bool.true_or, if_true, List.map_cons, busCount_cons]
      by_cases h : k = ty'
      · subst h; simp
      · have h' : ¬ ty' = k := fun x => h x.symm
        simp only [h, if_false, h']
        -- the tail: keys equal to `k` further down do not matter for `ty' ≠ k`
        clear ih
        induction b with
        | nil => rfl
        | cons kv2 b ih2 =>
          obtain ⟨k2, n2⟩ := kv2
          simp only [List.map_cons]
          by_cases h2 : (k2 == k) = true
          · have : k2 = k := by simpa using h2
            subst this
            simp only [beq_self_eq_true, if_true, busCount_cons, h, if_false]
            exact ih2
          · simp only [h2, Bool.false_eq_true, if_false, busCount_cons]
            by_cases h3 : k2 = ty'
            · simp [h3]
            · simp only [h3, if_false]; exact ih2
    · have hk' : (k == ty) = false := by simpa using hk
      simp only [List.any_cons, hk', Bool.false_or] at ih ⊢
      by_cases ha : (b.any fun kv => kv.1 == ty) = true
      · simp only [ha, if_true, List.map_cons, hk', Bool.false_eq_true, if_false, busCount_cons] at ih ⊢
        by_cases h : k = ty'
        · subst h
          have : ¬ k = ty := hk
          simp [this]
        · simp only [h, if_false, hk]; exact ih
      · simp only [ha, Bool.false_eq_true, if_false, List.cons_append, busCount_cons] at ih ⊢
        by_cases h : k = ty'
        · subst h
          have : ¬ k = ty := hk
          simp [this]
        · simp only [h, if_false, hk]; exact ih

theorem busCount_dec (b : List (String × Nat)) (ty ty' : String) :
    busCount (busDec b ty) ty' = if ty' = ty then busCount b ty - 1 else busCount b ty' := by
  unfold busDec
  induction b with
  | nil => simp [busCount]
  | cons kv b ih =>
    obtain ⟨k, n⟩ := kv
    simp only [List.map_cons]
    by_cases hk : k = ty
    · subst hk
      simp only [beq_self_eq_true, if_true, busCount_cons]
      by_cases h : k = ty'
      · subst h; simp
      · have h' : ¬ ty' = k := fun x => h x.symm
        simp only [h, if_false, h'] at ih ⊢
        exact ih
    · have hk' : (k == ty) = false := by simpa using hk
      simp only [hk', Bool.false_eq_true, if_false, busCount_cons]
      by_cases h : k = ty'
      · subst h
        have : ¬ k = ty := hk
        simp [this]
      · simp only [h, if_false, hk] at ih ⊢
        exact ih

theorem hasEnt_addSub (t : StateTbl) (e e' : Ent) (q : Q) : hasEnt (addSub t e q) e' = (hasEnt t e' || (e == e')) := by
  unfold addSub
  by_cases hh : hasEnt t e = true
  · simp only [hh, if_true]
    have := hasEnt_mapKey t e e' (fun l : List Q => if l.contains q then l else l ++ [q])
    rw [this]
    by_cases he : e = e'
    · subst he; simp [hh]
    · have : (e == e') = false := by simpa using he
      simp [this]
  · have hh' : hasEnt t e = false := by simpa using hh
    simp only [hh', Bool.false_eq_true, if_false]
    simp [hasEnt, List.any_append]

theorem hasEnt_delSub (t : StateTbl) (e e' : Ent) (q : Q) : hasEnt (delSub t e q) e' = hasEnt t e' := by
  unfold delSub
  exact hasEnt_mapKey t e e' (fun l : List Q => l.filter (fun x => !(x == q)))

theorem hasEnt_filter (t : StateTbl) (e e' : Ent) :
    hasEnt (t.filter (fun kv => !(kv.1 == e))) e' = (hasEnt t e' && !(e' == e)) := by
  induction t with
  | nil => simp [hasEnt]
  | cons kv t ih =>
    obtain ⟨k, v⟩ := kv
    simp only [List.filter_cons]
    by_cases hk : k = e
    · subst hk
      simp only [beq_self_eq_true, Bool.not_true, Bool.false_eq_true, if_false, hasEnt_cons, ih]
      by_cases he : k = e'
      · subst he; simp
      · have : (k == e') = false := by simpa using he
        simp [this]
    · have hk' : (k == e) = false := by simpa using hk
      simp only [hk', Bool.not_false, if_true, hasEnt_cons, ih]
      by_cases he : k = e'
      · subst he; simp [hk']
      · have : (k == e') = false := by simpa using he
        simp [this]

theorem subsOf_filter_ne (t : StateTbl) (e e' : Ent) (h : e' ≠ e) :
    subsOf (t.filter (fun kv => !(kv.1 == e))) e' = subsOf t e' := by
  induction t with
  | nil => rfl
  | cons kv t ih =>
    obtain ⟨k, v⟩ := kv
    simp only [List.filter_cons]
    by_cases hk : k = e
    · subst hk
      have : ¬ k = e' := fun x => h x.symm
      simp only [beq_self_eq_true, Bool.not_true, Bool.false_eq_true, if_false, subsOf_cons, this]
      exact ih
    · have hk' : (k == e) = false := by simpa using hk
      simp only [hk', Bool.not_false, if_true, subsOf_cons, ih]

/-- invariant of `Event.notify` + bus: one bus listener per event type with an entry, entries are never empty -/
structure EvOK (s : EvSt) : Prop where
  count : ∀ ty, busCount s.bus ty = if evHas s ty then 1 else 0
  nonempty : ∀ ty, evHas s ty = true → evSubs s ty ≠ []

theorem list_singleton_inj {a b : String} : ([a] : List String) = [b] ↔ a = b := by simp

theorem evAdd_ok {s : EvSt} (h : EvOK s) (ty : String) (q : Q) : EvOK (evAdd s ty q) := by
  constructor
  · intro ty'
    simp only [evAdd, evHas, hasEnt_addSub]
    by_cases hh : hasEnt s.tbl [ty] = true
    · have hc := h.count ty'
      simp only [evHas] at hc
      simp only [evHas, hh, if_true, hc]
      by_cases he : ty = ty'
      · subst he; simp [hh]
      · have : (([ty] : List String) == [ty']) = false := by simpa using he
        simp [this]
        split <;> simp_all
    · have hh' : hasEnt s.tbl [ty] = false := by simpa using hh
      simp only [evHas, hh', Bool.false_eq_true, if_false, busCount_inc]
      by_cases he : ty' = ty
      · subst he
        have hc := h.count ty'
        simp only [evHas, hh', Bool.false_eq_true, if_false] at hc
        simp [hc]
      · have hc := h.count ty'
        simp only [evHas] at hc
        have : (([ty] : List String) == [ty']) = false := by
          simp only [beq_eq_false_iff_ne, ne_eq, List.cons.injEq, and_true]; exact fun x => he x.symm
        simp [he, hc, this]
        split <;> simp_all
  · intro ty' _
    simp only [evAdd, evSubs]
    intro hnil
    by_cases he : ty' = ty
    · subst he
      have : q ∈ subsOf (addSub s.tbl [ty'] q) [ty'] := (mem_addSub _ _ _ _ _).mpr (.inr ⟨rfl, rfl⟩)
      rw [hnil] at this
      simp at this
    · rename_i hhas
      simp only [evAdd, evHas, hasEnt_addSub] at hhas
      have hne : ¬ ([ty] : List String) = [ty'] := by simpa using fun x : ty = ty' => he x.symm
      have hb : (([ty] : List String) == [ty']) = false := by simpa using hne
      simp only [hb, Bool.or_false] at hhas
      have hne0 := h.nonempty ty' hhas
      apply hne0
      simp only [evSubs]
      apply List.eq_nil_iff_forall_not_mem.mpr
      intro x hx
      have : x ∈ subsOf (addSub s.tbl [ty] q) [ty'] := (mem_addSub _ _ _ _ _).mpr (.inl hx)
      rw [hnil] at this
      simp at this

theorem evDel_ok {s : EvSt} (h : EvOK s) (ty : String) (q : Q) : EvOK (evDel s ty q) := by
  unfold evDel
  by_cases h1 : (!evHas s ty || !(evSubs s ty).contains q) = true
  · simp only [h1, if_true]; exact h
  · simp only [h1, Bool.false_eq_true, if_false]
    have hhas : evHas s ty = true := by
      cases hh : evHas s ty <;> simp [hh] at h1 ⊢
    by_cases h2 : ((evSubs s ty).filter (fun x => !(x == q))).isEmpty = true
    · simp only [h2, if_true]
      constructor
      · intro ty'
        simp only [evHas, hasEnt_filter, busCount_dec]
        have hc := h.count ty'
        simp only [evHas] at hc
        by_cases he : ty' = ty
        · subst he
          have hc' := h.count ty'
          simp only [hhas, if_true] at hc'
          simp [hc']
        · have : (([ty'] : List String) == [ty]) = false := by simpa using he
          simp [he, hc, this]
          split <;> simp_all
      · intro ty' hh
        simp only [evHas, hasEnt_filter, Bool.and_eq_true, Bool.not_eq_eq_eq_not, Bool.not_true,
          beq_eq_false_iff_ne, ne_eq] at hh
        simp only [evSubs]
        rw [subsOf_filter_ne _ _ _ hh.2]
        exact h.nonempty ty' hh.1
    · simp only [h2, Bool.false_eq_true, if_false]
      constructor
      · intro ty'
        simp only [evHas, hasEnt_delSub]
        exact h.count ty'
      · intro ty' hh
        simp only [evHas, hasEnt_delSub] at hh
        simp only [evSubs]
        by_cases he : ty' = ty
        · subst he
          intro hnil
          apply h2
          simp only [List.isEmpty_iff]
          apply List.eq_nil_iff_forall_not_mem.mpr
          intro x hx
          obtain ⟨hx1, hx2⟩ := List.mem_filter.mp hx
          have : x ∈ subsOf (delSub s.tbl [ty'] q) [ty'] := by
            rw [mem_delSub]
            refine ⟨hx1, ?_⟩
            rintro ⟨_, rfl⟩
            simp at hx2
          rw [hnil] at this
          simp at this
        · intro hnil
          apply h.nonempty ty' hh
          simp only [evSubs]
          apply List.eq_nil_iff_forall_not_mem.mpr
          intro x hx
          have : x ∈ subsOf (delSub s.tbl [ty] q) [ty'] := by
            rw [mem_delSub]
            refine ⟨hx, ?_⟩
            rintro ⟨heq, _⟩
            exact he (by simpa using heq)
          rw [hnil] at this
          simp at this

theorem evRun_ok (ops : List EvOp) : EvOK (evRun ops) := by
  unfold evRun
  suffices H : ∀ s, EvOK s → EvOK (ops.foldl evStep s) from
    H _ ⟨by intro ty; simp [busCount, evHas, hasEnt], by intro ty h; simp [evHas, hasEnt] at h⟩
  induction ops with
  | nil => intro s h; exact h
  | cons op ops ih =>
    intro s h
    simp only [List.foldl_cons]
    apply ih
    cases op with
    | add ty q => exact evAdd_ok h ty q
    | del ty q => exact evDel_ok h ty q

end PsModel.C09
