import PsModel.Model.C17
import PsModel.Spec.C17
/-! # C17 helper lemmas -/
namespace PsModel.C17
open PsModel

theorem allowListed_iff (name : String) : allowListed name = true ↔ name ∈ Gen.ALLOWED_IMPORTS := by
  simp [allowListed]

theorem allowListed_false (name : String) (h : name ∉ Gen.ALLOWED_IMPORTS) : allowListed name = false := by
  cases hb : allowListed name with
  | false => rfl
  | true => exact absurd ((allowListed_iff name).1 hb) h

/-- the allow test: refused exactly when neither the flag nor whole-name membership holds -/
theorem hostImport_eq (env : Env) (name : String) :
    hostImport env name =
      if env.allowAll = true ∨ name ∈ Gen.ALLOWED_IMPORTS then
        (match env.host name with
         | some m => .ok m
         | none => .error .notFound)
      else .error .notAllowed := by
  unfold hostImport
  by_cases ha : env.allowAll = true
  · simp only [ha, Bool.not_true, Bool.false_and, Bool.false_eq_true, if_false, true_or, if_true]
    cases env.host name <;> rfl
  · have ha' : env.allowAll = false := by simpa using ha
    by_cases hm : name ∈ Gen.ALLOWED_IMPORTS
    · simp only [ha', (allowListed_iff name).2 hm, hm, Bool.not_false, Bool.not_true, Bool.and_false,
        Bool.false_eq_true, if_false, or_true, if_true]
      cases env.host name <;> rfl
    · simp [ha', allowListed_false name hm, hm]

/-- `resolve` against the reference: permitted ⇒ the target module (or the host's failure), else refusal -/
theorem resolve_spec (env : Env) (name : String) :
    resolve env name =
      if (pysLookup env name).isSome = true ∨ name ∈ Gen.ALLOWED_IMPORTS ∨ env.allowAll = true then
        (match target env name with
         | some m => .ok m
         | none => .error .notFound)
      else .error .notAllowed := by
  unfold resolve target
  cases hp : pysLookup env name with
  | some m => simp
  | none =>
    simp only [Option.isSome_none, Bool.false_eq_true, false_or]
    rw [hostImport_eq]
    by_cases h : env.allowAll = true ∨ name ∈ Gen.ALLOWED_IMPORTS
    · have h' : name ∈ Gen.ALLOWED_IMPORTS ∨ env.allowAll = true := h.symm
      simp only [h, h', if_true]
    · have h' : ¬ (name ∈ Gen.ALLOWED_IMPORTS ∨ env.allowAll = true) := fun x => h x.symm
      simp only [h, h', if_false]

theorem execImport_append (env : Env) (pre post : List Alias) (σ : Bindings) :
    execImport env (pre ++ post) σ =
      if (execImport env pre σ).err = none then execImport env post (execImport env pre σ).binds
      else execImport env pre σ := by
  induction pre generalizing σ with
  | nil => simp [execImport]
  | cons a rest ih =>
    cases hr : resolve env a.name with
    | error e => simp [execImport, hr]
    | ok m => simp only [List.cons_append, execImport, hr]; exact ih _

/-- writes only ever extend the table: an import never removes or rewrites an older binding record -/
theorem execImport_prefix (env : Env) (names : List Alias) (σ : Bindings) :
    ∃ τ, (execImport env names σ).binds = σ ++ τ := by
  induction names generalizing σ with
  | nil => exact ⟨[], by simp [execImport]⟩
  | cons a rest ih =>
    cases hr : resolve env a.name with
    | error e => exact ⟨[], by simp [execImport, hr]⟩
    | ok m =>
      obtain ⟨τ, hτ⟩ := ih (σ ++ [(a.key, .mod m.id)])
      exact ⟨(a.key, .mod m.id) :: τ, by simp only [execImport, hr]; rw [hτ]; simp⟩

/-- what `bindFrom` adds: only names of the module; from a `*` only names not starting with `_` -/
theorem bindFrom_adds (m : ModInfo) (names : List Alias) (σ : Bindings) :
    ∃ τ, (bindFrom m names σ).binds = σ ++ τ ∧
      ∀ kv ∈ τ, ∃ a ∈ names, ∃ n ∈ m.attrs, kv.2 = .attr m.id n ∧
        ((a.name = "*" ∧ kv.1 = n ∧ n.front ≠ '_') ∨ (a.name ≠ "*" ∧ a.name = n ∧ kv.1 = a.key)) := by
  induction names generalizing σ with
  | nil => exact ⟨[], by simp [bindFrom], by simp⟩
  | cons a rest ih =>
    simp only [bindFrom]
    by_cases hs : a.name = "*"
    · simp only [hs, if_true]
      obtain ⟨τ, hτ, hall⟩ := ih (σ ++ (m.attrs.filter (fun n => n.front != '_')).map (fun n => (n, Val.attr m.id n)))
      refine ⟨(m.attrs.filter (fun n => n.front != '_')).map (fun n => (n, Val.attr m.id n)) ++ τ, by rw [hτ]; simp, ?_⟩
      intro kv hkv
      rcases List.mem_append.1 hkv with h | h
      · obtain ⟨n, hn, rfl⟩ := List.mem_map.1 h
        have hn' := List.mem_filter.1 hn
        exact ⟨a, by simp, n, hn'.1, rfl, Or.inl ⟨hs, rfl, by simpa using hn'.2⟩⟩
      · obtain ⟨a', ha', rest'⟩ := hall kv h
        exact ⟨a', by simp [ha'], rest'⟩
    · simp only [hs, if_false]
      by_cases hc : m.attrs.contains a.name = true
      · simp only [hc, if_true]
        obtain ⟨τ, hτ, hall⟩ := ih (σ ++ [(a.key, .attr m.id a.name)])
        refine ⟨(a.key, .attr m.id a.name) :: τ, by rw [hτ]; simp, ?_⟩
        intro kv hkv
        rcases List.mem_cons.1 hkv with h | h
        · subst h
          exact ⟨a, by simp, a.name, by simpa using hc, rfl, Or.inr ⟨hs, rfl, rfl⟩⟩
        · obtain ⟨a', ha', rest'⟩ := hall kv h
          exact ⟨a', by simp [ha'], rest'⟩
      · simp only [hc, Bool.false_eq_true, if_false]
        exact ⟨[], by simp, by simp⟩

theorem firstFile_some (files : List (String × ModInfo)) (ps : List String) (m : ModInfo)
    (h : firstFile files ps = some m) : ∃ p, lookupFile files p = some m := by
  induction ps with
  | nil => simp [firstFile] at h
  | cons p ps ih =>
    unfold firstFile at h
    cases hl : lookupFile files p with
    | some m' => simp only [hl] at h; cases h; exact ⟨p, hl⟩
    | none => simp only [hl] at h; exact ih h

end PsModel.C17
