import PsModel.Lemmas.C10Complete
/-! the executable spec column, `reload('*')` / `reload(name)`, and the loader (`load_file` / `module_import`) -/
namespace PsModel.C10
open PsModel.C10.Spec

/-! ## `Spec.discardedList` is the least fixpoint `Spec.Disc` -/

theorem discStep_sound {loaded : List Ctx} {ents : List Entry} {D : List Name}
    (hD : ∀ n ∈ D, Disc loaded ents n) : ∀ n ∈ discStep loaded ents D, Disc loaded ents n := by
  intro n hn
  simp only [discStep, List.mem_map, List.mem_filter, Bool.or_eq_true] at hn
  obtain ⟨c, ⟨hc, hor⟩, rfl⟩ := hn
  rcases hor with ((hch | hs) | hsn) | hi
  · refine .changed hc ?_
    unfold changedB at hch
    split at hch
    · rename_i hf; exact .inl hf
    · rename_i e hf; exact .inr ⟨e, hf, hch⟩
  · simp only [siblingB, Bool.and_eq_true, List.any_eq_true, beq_iff_eq] at hs
    obtain ⟨hp, d, hd, hr⟩ := hs
    exact .sibling hc hp hr (hD d hd)
  · simp only [siblingNewB, Bool.and_eq_true, List.any_eq_true, beq_iff_eq, Option.isNone_iff_eq_none] at hsn
    obtain ⟨hp, e, he, ⟨hfn, ha⟩, hr⟩ := hsn
    exact .siblingNew hc hp he hfn ha hr
  · simp only [importerB, List.any_eq_true, beq_iff_eq] at hi
    obtain ⟨i, hi, d, hd, hr⟩ := hi
    exact .importer hc hi hr (hD d hd)

theorem iter_sound {loaded : List Ctx} {ents : List Entry} : ∀ (k : Nat) (D : List Name),
    (∀ n ∈ D, Disc loaded ents n) → ∀ n ∈ iter (discStep loaded ents) k D, Disc loaded ents n := by
  intro k
  induction k with
  | zero => intro D hD; exact hD
  | succ k ih => intro D hD; exact ih _ (discStep_sound hD)

theorem disc_in_stable {loaded : List Ctx} {ents : List Entry} {D : List Name}
    (hst : stable loaded ents D = true) {n : Name} (h : Disc loaded ents n) : n ∈ D := by
  have hsub : ∀ m ∈ discStep loaded ents D, m ∈ D := by
    intro m hm
    simp only [stable, List.all_eq_true, List.contains_iff_mem] at hst
    simpa using hst m hm
  have mk : ∀ c ∈ loaded, (changedB ents c || siblingB D c || siblingNewB loaded ents c || importerB D c) = true →
      c.name ∈ D := by
    intro c hc hb
    apply hsub
    simp only [discStep, List.mem_map, List.mem_filter]
    exact ⟨c, ⟨hc, hb⟩, rfl⟩
  induction h with
  | @changed c hc hch =>
    apply mk c hc
    have : changedB ents c = true := by
      unfold changedB
      rcases hch with hf | ⟨e, hf, hd⟩
      · simp [hf]
      · simp [hf, hd]
    simp [this]
  | @sibling c d hc hp hr _ ih =>
    apply mk c hc
    have : siblingB D c = true := by
      simp only [siblingB, Bool.and_eq_true, List.any_eq_true, beq_iff_eq]
      exact ⟨hp, d, ih, hr⟩
    simp [this]
  | @siblingNew c e hc hp he hfn ha hr =>
    apply mk c hc
    have : siblingNewB loaded ents c = true := by
      simp only [siblingNewB, Bool.and_eq_true, List.any_eq_true, beq_iff_eq, Option.isNone_iff_eq_none]
      exact ⟨hp, e, he, ⟨hfn, ha⟩, hr⟩
    simp [this]
  | @importer c i d hc hi hr _ ih =>
    apply mk c hc
    have : importerB D c = true := by
      simp only [importerB, List.any_eq_true, beq_iff_eq]
      exact ⟨i, hi, d, ih, hr⟩
    simp [this]

/-! ## `reload('*')` and `reload(name)` -/

theorem plan_del_mono {fuel : Nat} {loaded : List Ctx} {rank : Name → Nat} (hacyc : Acyclic loaded rank)
    (hfuel : ∀ c ∈ loaded, rank c.name < fuel) (p : Plan) (hnd : NamesNodup p.ents) {n : Name} (h : n ∈ p.del) :
    n ∈ (phase3 (phase2 loaded fuel p)).del := by
  have h2 := phase2_char hacyc hfuel p
  have h3 := phase3_char (phase2 loaded fuel p) (p2_names hacyc hfuel p hnd)
  exact (h3.1 n).mpr (.inl ((h2.1 n).mpr (.inl h)))

/-- all flags down, as `glob_read_files` leaves them -/
def Unforced (ents : List Entry) : Prop := ∀ e ∈ ents, e.force = false

theorem globRead_unforced (rows : List Row) (apps : AppsCfg) (files : List File) : Unforced (globRead rows apps files) := by
  intro e he
  obtain ⟨r, _, f, _, _, _, hcase⟩ := (globRead_from rows apps files he).row
  rcases hcase with ⟨_, c, _, rfl⟩ | ⟨_, rfl⟩ <;> rfl

theorem only_ctx_aux {loaded : List Ctx} {ents : List Entry} {rank : Name → Nat} (hacyc : Acyclic loaded rank)
    {fuel : Nat} (hfuel : ∀ c ∈ loaded, rank c.name < fuel) (hnd : NamesNodup ents) (hff : Unforced ents)
    {n : Name} {pl : Plan} (hpl : plan fuel loaded ents (.ctx n) = some pl) {m : Name} (hm : m ∈ pl.del) :
    m = n ∨ DiscOnly loaded n m := by
  unfold plan phase1 at hpl
  by_cases hunk : (!(loaded.any (fun c => c.name == n)) && !hasName ents n) = true
  · simp [hunk] at hpl
  simp only [hunk, Bool.false_eq_true, if_false] at hpl
  -- the plan after phase 1, in both remaining cases, as `p1`
  have key : ∀ p1 : Plan, NamesNodup p1.ents → (∀ x ∈ p1.del, x = n) →
      (∀ e1 ∈ p1.ents, e1.force = true → e1.name = n) →
      (∀ e1 ∈ p1.ents, e1.name ∈ p1.del → False) →
      pl = phase3 (phase2 loaded fuel p1) → m = n ∨ DiscOnly loaded n m := by
    intro p1 hnd1 hdel1 hforce1 hdn hpl'
    have h2 := phase2_char hacyc hfuel p1
    have h3 := phase3_char (phase2 loaded fuel p1) (p2_names hacyc hfuel p1 hnd1)
    have hwr : ∀ r ∈ willReload p1, r = root2 n ∧ isUnder "modules" n = true := by
      intro r hr
      obtain ⟨e1, he1, hu, hdf, hre⟩ := mem_willReload.mp hr
      rcases hdf with hd | hf
      · exact absurd hd (hdn e1 he1)
      · have := hforce1 e1 he1 hf
        exact ⟨by rw [← hre, this], this ▸ hu⟩
    have himp : ∀ d, ImportsWR loaded (willReload p1) d → isUnder "modules" n = true ∧ ∃ x, Reach loaded d x ∧ root2 x = root2 n := by
      rintro d ⟨x, hx, hxw⟩
      obtain ⟨hr, hu⟩ := hwr _ hxw
      exact ⟨hu, x, hx, hr⟩
    rw [hpl'] at hm
    rcases (h3.1 m).mp hm with h | ⟨x, _, hxn, e0, he0, hf0, hp0, hr0⟩
    · rcases (h2.1 m).mp h with h | ⟨_, hi⟩
      · exact .inl (hdel1 m h)
      · obtain ⟨hu, x, hx, hr⟩ := himp m hi
        exact .inr (.importer hu hx hr)
    · obtain ⟨e1, he1, heq, hiff⟩ := (h2.2 e0).mp he0
      have hname : e0.name = e1.name := by rw [heq]; rfl
      rcases hiff.mp hf0 with hf1 | ⟨_, hi⟩
      · have hn1 := hforce1 e1 he1 hf1
        rw [hname, hn1] at hp0 hr0
        exact .inr (.pkg hp0 hr0.symm)
      · obtain ⟨hu, x, hx, hr⟩ := himp e1.name hi
        rw [hname] at hp0 hr0
        exact .inr (.importerPkg hu hx hr hp0 hr0.symm)
  by_cases hin : hasName ents n = true
  · simp only [hin, Bool.not_true, Bool.false_eq_true, if_false, Option.map_some, Option.some.injEq] at hpl
    refine key { del := [], ents := setForce ents (fun e => e.name == n) (fun _ => true) } ?_ (by simp) ?_ (by simp) hpl.symm
    · unfold NamesNodup at hnd ⊢
      simp only [setForce, List.map_map]
      rw [List.map_congr_left (g := (·.name)) (fun e _ => by simp)]
      exact hnd
    · intro e1 he1 hf1
      obtain ⟨e, he, rfl⟩ := mem_setForce.mp he1
      rw [upd_force] at hf1
      by_cases hen : (e.name == n) = true
      · simpa using hen
      · simp only [hen, Bool.false_eq_true, if_false, hff e he] at hf1
  · simp only [hin, Bool.not_false, if_true, Option.map_some, Option.some.injEq] at hpl
    refine key { del := [n], ents := ents } hnd (by simp) ?_ ?_ hpl.symm
    · intro e1 he1 hf1; simp [hff e1 he1] at hf1
    · intro e1 he1 hd
      simp only [List.mem_singleton] at hd
      exact hin (hasName_iff.mpr ⟨e1, he1, hd⟩)

/-! ## the loader -/

/-- what one `load_file` call may do to the table of contexts -/
def LoadSpec (load : St → Pending → Bool × St) : Prop :=
  ∀ st p, ∃ evs : List (Name × Nat), (load st p).2.events = st.events ++ evs ∧
    (∀ c ∈ st.ctxs, c.name ∉ evs.map (·.1) → c ∈ (load st p).2.ctxs) ∧
    (∀ c ∈ (load st p).2.ctxs, c ∈ st.ctxs ∨ c.name ∈ evs.map (·.1)) ∧
    ((load st p).1 = true → p.name ∈ evs.map (·.1))

theorem runImps_spec {load : St → Pending → Bool × St} (hload : LoadSpec load) (disk : List File) (self : Name)
    (rel : Option Path) : ∀ (is : List Imp) (st : St) (acc : List Name),
    ∃ evs : List (Name × Nat), (runImps load disk self rel is st acc).2.events = st.events ++ evs ∧
      (∀ c ∈ st.ctxs, c.name ∉ evs.map (·.1) → c ∈ (runImps load disk self rel is st acc).2.ctxs) ∧
      (∀ c ∈ (runImps load disk self rel is st acc).2.ctxs, c ∈ st.ctxs ∨ c.name ∈ evs.map (·.1)) := by
  intro is
  induction is with
  | nil => intro st acc; exact ⟨[], by simp [runImps], by simp [runImps], by simp [runImps]⟩
  | cons i is ih =>
    intro st acc
    unfold runImps
    split
    · exact ⟨[], by simp, by simp, by simp⟩
    · rename_i cands _
      split
      · exact ih st _
      · split
        · exact ⟨[], by simp, by simp, by simp⟩
        · rename_i c f _
          obtain ⟨evs1, he1, hk1, hn1, hok1⟩ := hload st
            { name := c.name, path := c.file, relImport := c.relImport, appCfg := none, src := f.src, mtime := f.mtime }
          simp only at hok1 ⊢
          generalize load st _ = r at he1 hk1 hn1 hok1 ⊢
          by_cases hr : r.1 = true
          · simp only [hr, if_true]
            have hcn : c.name ∈ evs1.map (·.1) := hok1 hr
            obtain ⟨evs2, he2, hk2, hn2⟩ := ih (markModule r.2 c.name) (addImport acc c.name)
            refine ⟨evs1 ++ evs2, ?_, ?_, ?_⟩
            · rw [he2]; simp [markModule, he1, List.append_assoc]
            · intro x hx hxe
              simp only [List.map_append, List.mem_append, not_or] at hxe
              apply hk2 x _ hxe.2
              simp only [markModule, List.mem_map]
              refine ⟨x, hk1 x hx hxe.1, ?_⟩
              have : ¬ (x.name == c.name) = true := by
                intro hh; rw [beq_iff_eq] at hh; exact hxe.1 (hh ▸ hcn)
              simp [this]
            · intro x hx
              rcases hn2 x hx with hx' | hx'
              · simp only [markModule, List.mem_map] at hx'
                obtain ⟨y, hy, hyx⟩ := hx'
                by_cases hyn : (y.name == c.name) = true
                · simp only [hyn, if_true] at hyx
                  right
                  rw [← hyx]
                  simp only [List.map_append, List.mem_append]
                  exact .inl ((beq_iff_eq.mp hyn) ▸ hcn)
                · simp only [hyn, Bool.false_eq_true, if_false] at hyx
                  subst hyx
                  rcases hn1 y hy with h | h
                  · exact .inl h
                  · exact .inr (by simp [h])
              · exact .inr (by simp [hx'])
          · simp only [hr, Bool.false_eq_true, if_false]
            exact ⟨evs1, he1, hk1, hn1⟩

theorem loadCtx_spec (disk : List File) (prog : Nat → List Imp) : ∀ fuel, LoadSpec (loadCtx disk prog fuel) := by
  intro fuel
  induction fuel with
  | zero => intro st p; exact ⟨[], by simp [loadCtx], by simp [loadCtx], by simp [loadCtx], by simp [loadCtx]⟩
  | succ fuel ih =>
    intro st p
    unfold loadCtx
    simp only
    obtain ⟨evs, he, hk, hn⟩ := runImps_spec ih disk p.name p.relImport (prog p.src)
      { ctxs := st.ctxs.filter (fun c => !(c.name == p.name)), events := st.events ++ [(p.name, p.src)] } []
    generalize runImps (loadCtx disk prog fuel) disk p.name p.relImport (prog p.src) _ [] = r at he hk hn ⊢
    have hk' : ∀ c ∈ st.ctxs, c.name ∉ ((p.name, p.src) :: evs).map (·.1) → c ∈ r.2.ctxs := by
      intro c hc hne
      simp only [List.map_cons, List.mem_cons, not_or] at hne
      apply hk c _ hne.2
      simp only [List.mem_filter, Bool.not_eq_eq_eq_not, Bool.not_true, beq_eq_false_iff_ne, ne_eq]
      exact ⟨hc, hne.1⟩
    have hn' : ∀ c ∈ r.2.ctxs, c ∈ st.ctxs ∨ c.name ∈ ((p.name, p.src) :: evs).map (·.1) := by
      intro c hc
      rcases hn c hc with h | h
      · exact .inl (List.mem_filter.mp h).1
      · exact .inr (by simp [h])
    cases hr1 : r.1 with
    | none =>
      simp only
      exact ⟨(p.name, p.src) :: evs, by simp [he, List.append_assoc], hk', hn', by simp⟩
    | some imps =>
      simp only
      refine ⟨(p.name, p.src) :: evs, by simp [he, List.append_assoc], ?_, ?_, by simp⟩
      · intro c hc hne
        have := hk' c hc hne
        simp only [List.map_cons, List.mem_cons, not_or] at hne
        simp only [List.mem_append, List.mem_filter, Bool.not_eq_eq_eq_not, Bool.not_true, beq_eq_false_iff_ne, ne_eq]
        exact .inl ⟨this, hne.1⟩
      · intro c hc
        simp only [List.mem_append, List.mem_filter, List.mem_singleton] at hc
        rcases hc with ⟨hc, _⟩ | rfl
        · exact hn' c hc
        · exact .inr (by simp)

/-- with a positive depth budget the script is always started (its load event is recorded first) -/
theorem loadCtx_event (disk : List File) (prog : Nat → List Imp) (fuel : Nat) (st : St) (p : Pending) :
    ∃ evs, (loadCtx disk prog (fuel + 1) st p).2.events = st.events ++ (p.name, p.src) :: evs := by
  unfold loadCtx
  simp only
  obtain ⟨evs, he, _, _⟩ := runImps_spec (loadCtx_spec disk prog fuel) disk p.name p.relImport (prog p.src)
    { ctxs := st.ctxs.filter (fun c => !(c.name == p.name)), events := st.events ++ [(p.name, p.src)] } []
  generalize runImps (loadCtx disk prog fuel) disk p.name p.relImport (prog p.src) _ [] = r at he ⊢
  cases r.1 <;> exact ⟨evs, by simp [he, List.append_assoc]⟩

/-- the load phase: a fold of `load_file` over the forced auto-load entries -/
theorem loadAll_spec (disk : List File) (prog : Nat → List Imp) (fuel : Nat) : ∀ (todo : List Entry) (st : St),
    ∃ evs : List (Name × Nat),
      (todo.foldl (fun s e => (loadCtx disk prog (fuel + 1) s (pendingOf e)).2) st).events = st.events ++ evs ∧
      (∀ c ∈ st.ctxs, c.name ∉ evs.map (·.1) →
        c ∈ (todo.foldl (fun s e => (loadCtx disk prog (fuel + 1) s (pendingOf e)).2) st).ctxs) ∧
      (∀ c ∈ (todo.foldl (fun s e => (loadCtx disk prog (fuel + 1) s (pendingOf e)).2) st).ctxs,
        c ∈ st.ctxs ∨ c.name ∈ evs.map (·.1)) ∧
      (∀ e ∈ todo, (e.name, e.src) ∈ evs) := by
  intro todo
  induction todo with
  | nil => intro st; exact ⟨[], by simp, by simp, by simp, by simp⟩
  | cons e todo ih =>
    intro st
    simp only [List.foldl_cons]
    obtain ⟨evs1, he1, hk1, hn1, _⟩ := loadCtx_spec disk prog (fuel + 1) st (pendingOf e)
    obtain ⟨evs1', he1'⟩ := loadCtx_event disk prog fuel st (pendingOf e)
    have hevs : evs1 = (e.name, e.src) :: evs1' := by
      have := he1.symm.trans he1'
      exact List.append_cancel_left this
    obtain ⟨evs2, he2, hk2, hn2, hall2⟩ := ih (loadCtx disk prog (fuel + 1) st (pendingOf e)).2
    refine ⟨evs1 ++ evs2, by rw [he2, he1, List.append_assoc], ?_, ?_, ?_⟩
    · intro c hc hne
      simp only [List.map_append, List.mem_append, not_or] at hne
      exact hk2 c (hk1 c hc hne.1) hne.2
    · intro c hc
      rcases hn2 c hc with h | h
      · rcases hn1 c h with h | h
        · exact .inl h
        · exact .inr (by simp [h])
      · exact .inr (by simp [h])
    · intro x hx
      rcases List.mem_cons.mp hx with rfl | hx
      · rw [hevs]; simp [pendingOf]
      · exact List.mem_append_right _ (hall2 x hx)

/-! ## helpers for the witnesses in `Props/C10.lean` -/

theorem climb_same : ∀ (k : Nat) (p p' n' : Path), climb k p p = some (p', n') → p' = n' ∧ (0 < k → 2 ≤ p'.length)
  | 0, p, p', n', h => by
    simp only [climb, Option.some.injEq, Prod.mk.injEq] at h
    exact ⟨h.1.symm.trans h.2, fun hk => absurd hk (by omega)⟩
  | k + 1, p, p', n', h => by
    unfold climb at h
    split at h
    · simp at h
    · rename_i hg
      have := climb_same k p.dropLast p' n' h
      refine ⟨this.1, fun _ => ?_⟩
      cases k with
      | zero =>
        simp only [climb, Option.some.injEq, Prod.mk.injEq] at h
        simp only [Bool.or_eq_true, decide_eq_true_eq, not_or, Nat.not_lt] at hg
        rw [← h.1]; exact hg.1
      | succ k => exact this.2 (by omega)

theorem docName_init (q : Path) (hq : q ≠ []) : docName (q ++ ["__init__"]) = q := by
  unfold docName
  have h1 : ¬ (q ++ ["__init__"]).length = 1 := by
    cases q with
    | nil => exact absurd rfl hq
    | cons x xs => simp
  simp [h1, hq]

theorem docName_plain (q : Path) (h2 : 2 ≤ q.length) (hl : q.getLast? ≠ some "__init__") : docName q = q := by
  unfold docName
  have h1 : ¬ q.length = 1 := by omega
  simp [hl]
  omega


/-- `a.py` imports `m`, `modules/m.py` imports `n`, `modules/n.py` imports `m` -/
def cexF3Disk : List File := [⟨["a"], 1, 1⟩, ⟨["modules", "m"], 2, 1⟩, ⟨["modules", "n"], 3, 1⟩]
def cexF3Prog (s : Nat) : List Imp :=
  if s = 1 then [⟨0, ["m"]⟩] else if s = 2 then [⟨0, ["n"]⟩] else if s = 3 then [⟨0, ["m"]⟩] else []
def cexF3M : Pending := { name := ["modules", "m"], path := ["modules", "m"], relImport := none, appCfg := none, src := 2, mtime := 1 }
def cexF3N : Pending := { name := ["modules", "n"], path := ["modules", "n"], relImport := none, appCfg := none, src := 3, mtime := 1 }
def cexF3A : Pending := { name := ["file", "a"], path := ["a"], relImport := none, appCfg := none, src := 1, mtime := 1 }

theorem cexF3_ffM : firstFile cexF3Disk
    [⟨["modules", "m"], ["modules", "m", "__init__"], some ["modules", "m"]⟩, ⟨["modules", "m"], ["modules", "m"], none⟩] =
    some (⟨["modules", "m"], ["modules", "m"], none⟩, ⟨["modules", "m"], 2, 1⟩) := by decide
theorem cexF3_ffN : firstFile cexF3Disk
    [⟨["modules", "n"], ["modules", "n", "__init__"], some ["modules", "n"]⟩, ⟨["modules", "n"], ["modules", "n"], none⟩] =
    some (⟨["modules", "n"], ["modules", "n"], none⟩, ⟨["modules", "n"], 3, 1⟩) := by decide

/-- neither of the two modules is registered as loaded -/
def NoMN (st : St) : Prop := loadedModule st.ctxs ["modules", "m"] = false ∧ loadedModule st.ctxs ["modules", "n"] = false

theorem noMN_filter {st : St} (h : NoMN st) (n : Name) (evs : List (Name × Nat)) :
    NoMN { ctxs := st.ctxs.filter (fun c => !(c.name == n)), events := evs } := by
  unfold NoMN loadedModule at *
  simp only [List.any_eq_false, List.mem_filter, and_imp] at *
  exact ⟨fun c hc _ => h.1 c hc, fun c hc _ => h.2 c hc⟩


end PsModel.C10
