import PsModel.Model.C15
import PsModel.Spec.C15
/-! # C15 – helper lemmas -/
namespace PsModel.C15
open Spec

variable (fl : Flags)

/-! ## items -/

def actExit : Act → Option Exit
  | .stop e => some e
  | _ => Option.none

theorem actExit_react (cfg : Cfg) (t : Nat) (it : Item) : actExit (react cfg t it) = outcome cfg t it := by
  cases it with
  | cancel => rfl
  | state v =>
    simp only [react, outcome]
    cases cfg.state with
    | none => rfl
    | some s =>
      simp only
      cases s.expr v with
      | none => rfl
      | some b => cases b <;> rfl
  | event d =>
    simp only [react, outcome]
    cases cfg.event with
    | none => rfl
    | some e =>
      simp only
      cases callFilt e.filt d with
      | none => rfl
      | some b => cases b <;> rfl

theorem wake_hasListen (cfg : Cfg) (t : Nat) (it : Item) (h : react cfg t it = .wake) : hasListen cfg = true := by
  cases it with
  | cancel => simp [react] at h
  | state v =>
    simp only [react] at h
    cases hs : cfg.state with
    | none => rw [hs] at h; simp at h
    | some s => simp [hasListen, hs]
  | event d =>
    simp only [react] at h
    cases he : cfg.event with
    | none => rw [he] at h; simp at h
    | some e => simp [hasListen, he]

/-! ## deadlines -/

theorem deadline_le_timeout (tn : Option Nat) (o d : Nat) (k : DKind) (h : deadline tn (some o) = some (d, k)) :
    d ≤ o := by
  cases tn with
  | none => simp [deadline] at h; omega
  | some t =>
    simp only [deadline] at h
    split at h <;> simp at h <;> omega

theorem deadline_le_time (t : Nat) (to : Option Nat) (d : Nat) (k : DKind) (h : deadline (some t) to = some (d, k)) :
    d ≤ t := by
  cases to with
  | none => simp [deadline] at h; omega
  | some o =>
    simp only [deadline] at h
    split at h <;> simp at h <;> omega

theorem deadline_none (tn to : Option Nat) : deadline tn to = Option.none ↔ tn = Option.none ∧ to = Option.none := by
  cases tn <;> cases to <;> simp [deadline]
  split <;> simp

def NotRel : TimeSpec → Prop
  | .rel _ => False
  | _ => True

/-- a now-relative time trigger has a positive offset (`once(now + 0s)` coincides with the call itself) -/
def PosRel : TimeSpec → Prop
  | .rel d => 0 < d
  | _ => True

/-- the legacy time trigger is anchored at the call: always with the repaired loop, and with the pre-fix loop only
when the trigger is not now-relative -/
def Anchored (fl : Flags) (ts : TimeSpec) : Prop := fl.reanchor = true → NotRel ts

theorem timeNext_stable (ts : TimeSpec) (hn : NotRel ts) (call anchor : Nat) (hle : call ≤ anchor)
    (h : ∀ T, timeNext ts call = some T → anchor < T) : timeNext ts anchor = timeNext ts call := by
  cases ts with
  | none => rfl
  | rel d => exact absurd hn (by simp [NotRel])
  | abs T =>
    simp only [timeNext] at h ⊢
    by_cases hc : call < T
    · have := h T (by simp [hc])
      simp [hc, this]
    · have : ¬ anchor < T := by omega
      simp [hc, this]

theorem tnext_call (ts : TimeSpec) (call : Nat) : Legacy.tnext fl ts call call = timeNext ts call := by
  unfold Legacy.tnext
  by_cases h : fl.reanchor = true
  · simp [h]
  · simp only [h, Bool.false_eq_true, if_false]
    cases ts <;> simp [timeNext]

theorem tnext_stable (ts : TimeSpec) (hn : Anchored fl ts) (call anchor : Nat) (hle : call ≤ anchor)
    (h : ∀ T, timeNext ts call = some T → anchor < T) : Legacy.tnext fl ts call anchor = timeNext ts call := by
  unfold Legacy.tnext
  by_cases hr : fl.reanchor = true
  · simp only [hr, if_true]
    exact timeNext_stable ts (hn hr) call anchor hle h
  · simp only [hr, Bool.false_eq_true, if_false]
    cases ts with
    | none => rfl
    | abs T => exact timeNext_stable (.abs T) trivial call anchor hle h
    | rel d =>
      have := h (call + d) (by simp [timeNext])
      simp [timeNext, this]

/-- loop invariant of the legacy wait loop: the current `now` is not before the call, strictly before the
(call-anchored) deadline, and if there is no deadline somebody can still wake the loop -/
def Inv (cfg : Cfg) (call anchor : Nat) : Prop :=
  call ≤ anchor ∧ (∀ d k, deadlineAt cfg call = some (d, k) → anchor < d) ∧
  (deadlineAt cfg call = Option.none → hasListen cfg = true)

theorem dl_eq (cfg : Cfg) (hn : Anchored fl cfg.time) (call anchor : Nat) (h : Inv cfg call anchor) :
    Legacy.dl fl cfg call anchor = deadlineAt cfg call := by
  unfold Legacy.dl deadlineAt
  rw [tnext_stable fl cfg.time hn call anchor h.1]
  intro T hT
  cases hd : deadlineAt cfg call with
  | none =>
    unfold deadlineAt at hd
    rw [hT] at hd
    have := (deadline_none _ _).1 hd
    simp at this
  | some p =>
    obtain ⟨d, k⟩ := p
    have h1 := h.2.1 d k hd
    unfold deadlineAt at hd
    rw [hT] at hd
    have := deadline_le_time _ _ _ _ hd
    omega

theorem pre_none (cfg : Cfg) (hn : Anchored fl cfg.time) (call anchor : Nat) (h : Inv cfg call anchor) :
    Legacy.pre fl cfg call anchor = Option.none := by
  have hdl := dl_eq fl cfg hn call anchor h
  unfold Legacy.pre
  cases ht : cfg.timeout with
  | none =>
    simp only [Bool.false_eq_true, if_false, Option.isNone_none, Bool.and_true]
    by_cases hc : (Legacy.tnext fl cfg.time call anchor).isNone = true
    · have : deadlineAt cfg call = Option.none := by
        rw [← hdl]
        unfold Legacy.dl
        rw [ht]
        simp only [Option.isNone_iff_eq_none] at hc
        rw [hc]; rfl
      simp [h.2.2 this]
    · simp only [Bool.not_eq_true] at hc
      simp [hc]
  | some T =>
    have hlt : ¬ (call + T ≤ anchor) := by
      cases hd : deadlineAt cfg call with
      | none =>
        unfold deadlineAt at hd
        rw [ht] at hd
        have := (deadline_none _ _).1 hd
        simp at this
      | some p =>
        obtain ⟨d, k⟩ := p
        have h2 := h.2.1 d k hd
        unfold deadlineAt at hd
        rw [ht] at hd
        have h3 : d ≤ call + T := deadline_le_timeout _ (call + T) d k hd
        omega
    simp [hlt]

theorem firstDecisive_ge (cfg : Cfg) (hist : Hist) (lo : Nat) (hm : Mono lo hist) (t : Nat) (e : Exit)
    (h : firstDecisive cfg hist = some (t, e)) : lo < t := by
  induction hist generalizing lo with
  | nil => simp [firstDecisive] at h
  | cons p rest ih =>
    obtain ⟨t0, it⟩ := p
    simp only [Mono] at hm
    simp only [firstDecisive] at h
    cases ho : outcome cfg t0 it with
    | some e0 => rw [ho] at h; simp at h; omega
    | none =>
      rw [ho] at h
      have := ih t0 hm.2 h
      omega

/-- the waiting part of the specification without the "nothing can ever happen" clause -/
theorem loop_eq_wait (cfg : Cfg) (hn : Anchored fl cfg.time) (call : Nat) (hist : Hist) (anchor lo : Nat)
    (hlo : call ≤ lo) (hm : Mono lo hist) (hnt : NoTies cfg call hist) (hi : Inv cfg call anchor) :
    Legacy.loop fl cfg call hist anchor = wait cfg call hist := by
  induction hist generalizing anchor lo with
  | nil =>
    simp only [Legacy.loop, pre_none fl cfg hn call anchor hi, dl_eq fl cfg hn call anchor hi, wait, firstDecisive]
    cases deadlineAt cfg call with
    | none => rfl
    | some p => rfl
  | cons p rest ih =>
    obtain ⟨t, it⟩ := p
    simp only [Mono] at hm
    have hnt' : NoTies cfg call rest := fun q hq => hnt q (List.mem_cons_of_mem _ hq)
    have hact := actExit_react cfg t it
    simp only [Legacy.loop, pre_none fl cfg hn call anchor hi, dl_eq fl cfg hn call anchor hi]
    -- what happens when the item is actually looked at (it is before the deadline)
    have key : ∀ (_ : ∀ d k, deadlineAt cfg call = some (d, k) → t < d),
        onItem cfg t it (Legacy.loop fl cfg call rest t) (Legacy.loop fl cfg call rest anchor) =
        (match outcome cfg t it with
          | some e => e
          | Option.none => wait cfg call rest) := by
      intro hbefore
      unfold onItem
      cases hr : react cfg t it with
      | stop e =>
        rw [hr] at hact
        simp only [actExit] at hact
        rw [← hact]
      | wake =>
        rw [hr] at hact
        simp only [actExit] at hact
        rw [← hact]
        simp only
        exact ih t t (by omega) hm.2 hnt' ⟨by omega, hbefore, fun _ => wake_hasListen cfg t it hr⟩
      | skip =>
        rw [hr] at hact
        simp only [actExit] at hact
        rw [← hact]
        simp only
        exact ih anchor t (by omega) hm.2 hnt' hi
    cases hd : deadlineAt cfg call with
    | none =>
      simp only
      rw [key (by intro d k h; rw [hd] at h; cases h)]
      simp only [wait, hd, firstDecisive]
      cases outcome cfg t it with
      | some e => rfl
      | none => rfl
    | some dk =>
      obtain ⟨d, k⟩ := dk
      simp only
      by_cases hlt : d < t
      · simp only [hlt, if_true, wait, hd]
        cases hf : firstDecisive cfg ((t, it) :: rest) with
        | none => rfl
        | some te =>
          obtain ⟨t', e⟩ := te
          simp only
          have : d < t' := by
            simp only [firstDecisive] at hf
            cases ho : outcome cfg t it with
            | some e0 => rw [ho] at hf; simp at hf; omega
            | none =>
              rw [ho] at hf
              have := firstDecisive_ge cfg rest t hm.2 t' e hf
              omega
          simp [this]
      · have hne : t ≠ d := hnt (t, it) List.mem_cons_self d k hd
        have htd : t < d := by omega
        simp only [hlt, if_false]
        rw [key (by intro d' k' h; rw [hd] at h; cases h; exact htd)]
        simp only [wait, hd, firstDecisive]
        cases outcome cfg t it with
        | some e => simp [hlt]
        | none => rfl

/-! ## the legacy call as a whole -/

theorem timeNext_gt (ts : TimeSpec) (hn : PosRel ts) (a T : Nat) (h : timeNext ts a = some T) : a < T := by
  cases ts with
  | none => simp [timeNext] at h
  | rel d => simp only [PosRel] at hn; simp only [timeNext, Option.some.injEq] at h; omega
  | abs T' =>
    simp only [timeNext] at h
    split at h
    · simp at h; omega
    · simp at h

theorem sleep_eq (cfg : Cfg) (hs : cfg.state = Option.none) (he : cfg.event = Option.none) (call T : Nat)
    (hist : Hist) (lo : Nat) (hm : Mono lo hist) :
    Legacy.sleepExit call T hist =
      (match firstDecisive cfg hist with
       | Option.none => .ret (call + T) .timeout
       | some (t, e) => if call + T < t then .ret (call + T) .timeout else e) := by
  induction hist generalizing lo with
  | nil => rfl
  | cons p rest ih =>
    obtain ⟨t, it⟩ := p
    simp only [Mono] at hm
    simp only [Legacy.sleepExit]
    by_cases hlt : call + T < t
    · simp only [hlt, if_true]
      cases hf : firstDecisive cfg ((t, it) :: rest) with
      | none => rfl
      | some te =>
        obtain ⟨t', e⟩ := te
        have : t ≤ t' := by
          simp only [firstDecisive] at hf
          cases ho : outcome cfg t it with
          | some e0 => rw [ho] at hf; simp at hf; omega
          | none =>
            rw [ho] at hf
            have := firstDecisive_ge cfg rest t hm.2 t' e hf
            omega
        have : call + T < t' := by omega
        simp [this]
    · simp only [hlt, if_false]
      cases it with
      | cancel => simp [firstDecisive, outcome, hlt]
      | state v => simp only [firstDecisive, outcome, hs]; exact ih t hm.2
      | event d => simp only [firstDecisive, outcome, he]; exact ih t hm.2

/-- the top of the loop, at the instant of the call -/
theorem top_loop (cfg : Cfg) (hn : Anchored fl cfg.time) (hp : PosRel cfg.time) (call : Nat) (hist : Hist) (hm : Mono call hist)
    (hnt : NoTies cfg call hist) :
    Legacy.loop fl cfg call hist call =
      if (deadlineAt cfg call).isNone && !hasListen cfg then .ret call .none else wait cfg call hist := by
  -- the three ways an iteration at `call` can go
  by_cases h0 : cfg.timeout = some 0
  · -- timeout 0: over at once
    have hpre : Legacy.pre fl cfg call call = some (.ret call .timeout) := by simp [Legacy.pre, h0]
    have hD : deadlineAt cfg call = some (call, .timeout) := by
      unfold deadlineAt
      rw [h0]
      cases htn : timeNext cfg.time call with
      | none => simp [deadline]
      | some T =>
        have := timeNext_gt _ hp _ _ htn
        simp [deadline, this]
    have hl : Legacy.loop fl cfg call hist call = .ret call .timeout := by
      cases hist with
      | nil => simp [Legacy.loop, hpre]
      | cons p rest => obtain ⟨t, it⟩ := p; simp [Legacy.loop, hpre]
    rw [hl]
    simp only [hD, Option.isNone_some, Bool.false_and, Bool.false_eq_true, if_false, wait]
    cases hf : firstDecisive cfg hist with
    | none => rfl
    | some te =>
      obtain ⟨t', e⟩ := te
      have := firstDecisive_ge cfg hist call hm t' e hf
      simp [this, retOf]
  · by_cases h1 : ((deadlineAt cfg call).isNone && !hasListen cfg) = true
    · -- nothing can ever happen
      simp only [h1, if_true]
      simp only [Bool.and_eq_true, Option.isNone_iff_eq_none, Bool.not_eq_true'] at h1
      have hd := (deadline_none _ _).1 h1.1
      have hto : cfg.timeout = Option.none := by
        cases ht : cfg.timeout with
        | none => rfl
        | some T => rw [ht] at hd; simp at hd
      have hpre : Legacy.pre fl cfg call call = some (.ret call .none) := by
        simp [Legacy.pre, hto, tnext_call, hd.1, h1.2]
      cases hist with
      | nil => simp [Legacy.loop, hpre]
      | cons p rest => obtain ⟨t, it⟩ := p; simp [Legacy.loop, hpre]
    · simp only [h1]
      have hi : Inv cfg call call := by
        refine ⟨Nat.le_refl _, ?_, ?_⟩
        · intro d k hd
          unfold deadlineAt at hd
          cases htn : timeNext cfg.time call with
          | none =>
            rw [htn] at hd
            cases ht : cfg.timeout with
            | none => rw [ht] at hd; simp [deadline] at hd
            | some T =>
              rw [ht] at hd
              simp [deadline] at hd
              have : T ≠ 0 := by intro e; subst e; exact h0 ht
              omega
          | some T' =>
            have hgt := timeNext_gt _ hp _ _ htn
            rw [htn] at hd
            cases ht : cfg.timeout with
            | none => rw [ht] at hd; simp [deadline] at hd; omega
            | some T =>
              rw [ht] at hd
              have : T ≠ 0 := by intro e; subst e; exact h0 ht
              simp only [Option.map_some, deadline] at hd
              split at hd <;> simp at hd <;> omega
        · intro hd
          simp only [hd, Option.isNone_none, Bool.true_and, Bool.not_eq_true', Bool.not_eq_false] at h1
          simpa using h1
      simpa using loop_eq_wait fl cfg hn call hist call call (Nat.le_refl _) hm hnt hi

/-- all expressions given to the call parse -/
def WellFormed (cfg : Cfg) : Prop := New.parseAll cfg = true

/-- the call has no `state_hold` / `state_hold_false` (the fragment the first-of theorems speak about) -/
def NoHolds (cfg : Cfg) : Prop := Legacy.holdTrig cfg = Option.none

theorem noHolds_state (cfg : Cfg) (h : NoHolds cfg) (s : StateTrig) (hs : cfg.state = some s) :
    s.hold = Option.none ∧ s.holdFalse = Option.none := by
  unfold NoHolds Legacy.holdTrig at h
  rw [hs] at h
  simp only at h
  cases hh : s.hold <;> cases hf : s.holdFalse <;> simp [hh, hf] at h ⊢

theorem legacy_waitLoop_noHolds (cfg : Cfg) (h : NoHolds cfg) (v0 call : Nat) (hist : Hist) :
    Legacy.waitLoop fl cfg v0 call hist = Legacy.loop fl cfg call hist call := by
  unfold Legacy.waitLoop; rw [h]

theorem new_waitLoop_noHolds (cfg : Cfg) (h : NoHolds cfg) (v0 call : Nat) (hist : Hist) :
    New.waitLoop fl cfg v0 call hist = New.loop fl cfg call hist := by
  unfold New.waitLoop; rw [h]

theorem legacy_first (cfg : Cfg) (hwf : WellFormed cfg) (hnh : NoHolds cfg) (hn : Anchored fl cfg.time) (hp : PosRel cfg.time) (q : Nat) (tb : Tables) (v0 call : Nat)
    (hist : Hist) (hm : Mono call hist) (hnt : NoTies cfg call hist) :
    (Legacy.run fl cfg q tb v0 call hist).1 = first cfg v0 call hist := by
  unfold WellFormed New.parseAll at hwf
  simp only [Bool.and_eq_true] at hwf
  unfold Legacy.run
  rw [legacy_waitLoop_noHolds fl cfg hnh]
  by_cases hany : (hasListen cfg || hasTime cfg) = true
  · simp only [hany, Bool.not_true, Bool.false_eq_true, if_false]
    -- set-up: only the check-now can end the call (everything parses)
    have hev : ∀ t, Legacy.eventStage fl cfg q t call = .ok (if cfg.event.isSome then t.evAdd q else t) := by
      intro t
      unfold Legacy.eventStage
      cases he : cfg.event with
      | none => rfl
      | some e => have := hwf.1.2; rw [he] at this; simp [this]
    have hmq : ∀ t, Legacy.mqttStage fl cfg q t call = .ok (if cfg.mqtt.isSome then t.mqAdd q else t) := by
      intro t
      unfold Legacy.mqttStage
      cases he : cfg.mqtt with
      | none => rfl
      | some e => have := hwf.2; rw [he] at this; simp [this]
    have htop := top_loop fl cfg hn hp call hist hm hnt
    unfold Legacy.setup first checkNow Legacy.stateStage
    cases hs : cfg.state with
    | none =>
      simp only [bind, Except.bind, hev, hmq]
      exact htop
    | some s =>
      have hp : s.parseOK = true := by have := hwf.1.1; rw [hs] at this; exact this
      have hh := noHolds_state cfg hnh s hs
      simp only [hp, Bool.not_true, Bool.false_eq_true, if_false, StateTrig.checkOnStart, StateTrig.immediate, hh.1,
        hh.2, Option.isSome_none, Bool.or_false, Option.isNone_none, Bool.and_true]
      by_cases hc : s.checkNow = true
      · simp only [hc, if_true]
        cases hx : s.expr v0 with
        | none => simp [bind, Except.bind]
        | some b =>
          cases b with
          | true => simp [bind, Except.bind]
          | false =>
            simp only [bind, Except.bind, hev, hmq]
            exact htop
      · simp only [hc, Bool.false_eq_true, if_false]
        simp only [bind, Except.bind, hev, hmq]
        exact htop
  · simp only [Bool.not_eq_true] at hany
    simp only [hany, Bool.not_false, if_true]
    simp only [Bool.or_eq_false_iff] at hany
    have hl := hany.1
    have hs : cfg.state = Option.none := by
      cases h : cfg.state with
      | none => rfl
      | some s => simp [hasListen, h] at hl
    have he : cfg.event = Option.none := by
      cases h : cfg.event with
      | none => rfl
      | some s => simp [hasListen, h] at hl
    have htime : cfg.time = .none := by
      have := hany.2
      simp only [hasTime, bne_eq_false_iff_eq] at this
      exact this
    have hck : checkNow cfg v0 call = Option.none := by simp [checkNow, hs]
    unfold first
    rw [hck]
    cases ht : cfg.timeout with
    | none =>
      simp [deadlineAt, htime, timeNext, ht, deadline, hl]
    | some T =>
      have hD : deadlineAt cfg call = some (call + T, .timeout) := by
        simp [deadlineAt, htime, timeNext, ht, deadline]
      simp only [hD, Option.isNone_some, Bool.false_and, Bool.false_eq_true, if_false, wait]
      rw [sleep_eq cfg hs he call T hist call hm]
      cases firstDecisive cfg hist with
      | none => rfl
      | some te => obtain ⟨t, e⟩ := te; rfl

/-! ## the new call as a whole -/

theorem onItem_same (cfg : Cfg) (t : Nat) (it : Item) (c : Exit) :
    onItem cfg t it c c = (match outcome cfg t it with | some e => e | Option.none => c) := by
  have hact := actExit_react cfg t it
  unfold onItem
  cases hr : react cfg t it <;> rw [hr] at hact <;> simp only [actExit] at hact <;> rw [← hact]

theorem new_loop_eq (cfg : Cfg) (call : Nat) (hd : New.dl fl cfg call = deadlineAt cfg call) (hist : Hist) (lo : Nat)
    (hm : Mono lo hist) : New.loop fl cfg call hist = wait cfg call hist := by
  induction hist generalizing lo with
  | nil =>
    simp only [New.loop, hd, wait, firstDecisive]
    cases deadlineAt cfg call with
    | none => rfl
    | some p => rfl
  | cons p rest ih =>
    obtain ⟨t, it⟩ := p
    simp only [Mono] at hm
    simp only [New.loop, hd, onItem_same, ih t hm.2]
    cases hD : deadlineAt cfg call with
    | none =>
      simp only [wait, hD, firstDecisive]
      cases outcome cfg t it <;> rfl
    | some dk =>
      obtain ⟨d, k⟩ := dk
      simp only
      by_cases hlt : d < t
      · simp only [hlt, if_true, wait, hD]
        cases hf : firstDecisive cfg ((t, it) :: rest) with
        | none => rfl
        | some te =>
          obtain ⟨t', e⟩ := te
          have : d < t' := by
            simp only [firstDecisive] at hf
            cases ho : outcome cfg t it with
            | some e0 => rw [ho] at hf; simp at hf; omega
            | none =>
              rw [ho] at hf
              have := firstDecisive_ge cfg rest t hm.2 t' e hf
              omega
          simp [this]
      · simp only [hlt, if_false, wait, hD, firstDecisive]
        cases outcome cfg t it with
        | some e => simp [hlt]
        | none => rfl

theorem effTimeout_eq (cfg : Cfg) (h : fl.timeout0Absent = true → cfg.timeout ≠ some 0) :
    New.effTimeout fl cfg = cfg.timeout := by
  unfold New.effTimeout
  by_cases hf : fl.timeout0Absent = true
  · simp only [hf, if_true]
    split
    · rename_i h0; exact absurd h0 (h hf)
    · rfl
  · simp [hf]

/-- the new subsystem answers as specified when the timeout is not 0 and a time trigger without future instant is
not combined with anything else -/
theorem new_first (cfg : Cfg) (hwf : WellFormed cfg) (hnh : NoHolds cfg) (htz : fl.timeout0Absent = true → cfg.timeout ≠ some 0)
    (hdead : fl.noneEager = true → hasTime cfg = true →
      (timeNext cfg.time call).isSome = true ∨ (hasListen cfg = false ∧ cfg.timeout = Option.none))
    (q : Nat) (tb : Tables) (v0 : Nat) (hist : Hist) (hm : Mono call hist) :
    (New.run fl cfg q tb v0 call hist).1 = first cfg v0 call hist := by
  have heff := effTimeout_eq fl cfg htz
  have hdl : New.dl fl cfg call = deadlineAt cfg call := by unfold New.dl deadlineAt; rw [heff]
  have hwl := new_waitLoop_noHolds fl cfg hnh v0 call hist
  unfold New.run
  by_cases hk : New.noKwargs cfg = true
  · -- no argument at all
    simp only [hk, if_true]
    simp only [New.noKwargs, Bool.and_eq_true, Bool.not_eq_true', Bool.or_eq_false_iff, Option.isNone_iff_eq_none] at hk
    have hs : cfg.state = Option.none := by
      cases h : cfg.state with
      | none => rfl
      | some s => simp [hasListen, h] at hk
    have htime : cfg.time = .none := by
      have := hk.1.2
      simp only [hasTime, bne_eq_false_iff_eq] at this
      exact this
    simp [first, checkNow, hs, deadlineAt, htime, timeNext, hk.2, deadline, hk.1.1]
  · simp only [hk, Bool.false_eq_true, if_false]
    have hpa : New.parseAll cfg = true := hwf
    simp only [hpa, Bool.not_true, Bool.false_eq_true, if_false]
    have hnd : New.noDecorators fl cfg = false := by
      cases hnd : New.noDecorators fl cfg with
      | false => rfl
      | true =>
        exfalso
        apply hk
        simp only [New.noDecorators, heff, Bool.and_eq_true] at hnd
        simp [New.noKwargs, hnd.1, hnd.2]
    simp only [hnd, Bool.false_eq_true, if_false]
    -- start-up, stage by stage
    have hto : ∀ s t, ∃ s' t', New.timeoutStart fl cfg s t = .ok (s', t') := by
      intro s t; unfold New.timeoutStart; split <;> exact ⟨_, _, rfl⟩
    have hev : ∀ s t, ∃ s' t', New.eventStart cfg s t = .ok (s', t') := by
      intro s t; unfold New.eventStart; split <;> exact ⟨_, _, rfl⟩
    have hmq : ∀ s t, ∃ s' t', New.mqttStart cfg s t = .ok (s', t') := by
      intro s t; unfold New.mqttStart; split <;> exact ⟨_, _, rfl⟩
    -- after the state stage has passed: the time stage and the wait
    have rest : ∀ (s1 : New.Started) (t1 : Tables), checkNow cfg v0 call = Option.none →
        (New.finish fl cfg q v0 call hist (New.afterState fl cfg q call s1 t1)).1 = first cfg v0 call hist := by
      intro s1 t1 hck
      unfold first
      rw [hck]
      unfold New.afterState New.timeStart
      by_cases ht : hasTime cfg = true
      · simp only [ht, if_true]
        by_cases hnone : (timeNext cfg.time call).isNone = true
        · -- a time trigger without future instant
          simp only [hnone, if_true]
          by_cases hnn : New.noneNow fl cfg = true
          · -- ... dispatches `none` at once
            simp only [hnn, if_true, New.Stage.andThen, New.finish]
            have hboth : hasListen cfg = false ∧ cfg.timeout = Option.none := by
              unfold New.noneNow at hnn
              by_cases he : fl.noneEager = true
              · rcases hdead he ht with h1 | h12
                · simp only [Option.isNone_iff_eq_none] at hnone
                  rw [hnone] at h1; simp at h1
                · exact h12
              · simp only [he, Bool.false_or, Bool.and_eq_true, Bool.not_eq_true', Option.isNone_iff_eq_none] at hnn
                rw [heff] at hnn
                exact hnn
            simp only [Option.isNone_iff_eq_none] at hnone
            simp [deadlineAt, hnone, hboth.2, deadline, hboth.1]
          · -- ... or just ends: the wait goes on for the other triggers / the timeout
            simp only [hnn, Bool.false_eq_true, if_false, New.Stage.andThen]
            obtain ⟨s3, t3, h3⟩ := hev s1 t1
            simp only [h3]
            obtain ⟨s4, t4, h4⟩ := hmq s3 t3
            simp only [h4, New.finish, hwl]
            have hcond : ((deadlineAt cfg call).isNone && !hasListen cfg) = false := by
              cases hc : ((deadlineAt cfg call).isNone && !hasListen cfg) with
              | false => rfl
              | true =>
                exfalso
                apply hnn
                simp only [Bool.and_eq_true, Option.isNone_iff_eq_none, Bool.not_eq_true'] at hc
                have hd := (deadline_none _ _).1 hc.1
                have hto : cfg.timeout = Option.none := by
                  cases h : cfg.timeout with
                  | none => rfl
                  | some T => rw [h] at hd; simp at hd
                simp [New.noneNow, hc.2, heff, hto]
            simp only [hcond, Bool.false_eq_true, if_false]
            exact new_loop_eq fl cfg call hdl hist call hm
        · simp only [hnone, Bool.false_eq_true, if_false, New.Stage.andThen]
          obtain ⟨s3, t3, h3⟩ := hev { s1 with tm := true } { t1 with tasks := t1.tasks + 1 }
          simp only [h3]
          obtain ⟨s4, t4, h4⟩ := hmq s3 t3
          simp only [h4, New.finish, hwl]
          have : (deadlineAt cfg call).isNone = false := by
            unfold deadlineAt
            cases htn : timeNext cfg.time call with
            | none => rw [htn] at hnone; simp at hnone
            | some T =>
              cases h : deadline (some T) (Option.map (fun x => call + x) cfg.timeout) with
              | none => have := (deadline_none _ _).1 h; simp at this
              | some _ => rfl
          simp only [this, Bool.false_and, Bool.false_eq_true, if_false]
          exact new_loop_eq fl cfg call hdl hist call hm
      · simp only [ht, Bool.false_eq_true, if_false, New.Stage.andThen]
        obtain ⟨s3, t3, h3⟩ := hev s1 t1
        simp only [h3]
        obtain ⟨s4, t4, h4⟩ := hmq s3 t3
        simp only [h4, New.finish, hwl]
        have hcond : ((deadlineAt cfg call).isNone && !hasListen cfg) = false := by
          cases hc : ((deadlineAt cfg call).isNone && !hasListen cfg) with
          | false => rfl
          | true =>
            exfalso
            apply hk
            simp only [Bool.and_eq_true, Option.isNone_iff_eq_none, Bool.not_eq_true'] at hc
            have hd := (deadline_none _ _).1 hc.1
            have hto : cfg.timeout = Option.none := by
              cases h : cfg.timeout with
              | none => rfl
              | some T => rw [h] at hd; simp at hd
            simp only [Bool.not_eq_true] at ht
            simp [New.noKwargs, hc.2, ht, hto]
        simp only [hcond, Bool.false_eq_true, if_false]
        exact new_loop_eq fl cfg call hdl hist call hm
    unfold New.start
    obtain ⟨s0, t0, h0⟩ := hto {} tb
    simp only [h0, New.Stage.andThen]
    unfold New.stateStart
    cases hs : cfg.state with
    | none =>
      simp only
      exact rest s0 t0 (by simp [checkNow, hs])
    | some st =>
      have hh := noHolds_state cfg hnh st hs
      simp only [StateTrig.checkOnStart, StateTrig.immediate, hh.1, hh.2, Option.isSome_none, Bool.or_false,
        Option.isNone_none, Bool.and_true]
      by_cases hc : st.checkNow = true
      · simp only [hc, if_true]
        cases hx : st.expr v0 with
        | none => simp [first, checkNow, hs, hc, hx, New.finish]
        | some b =>
          cases b with
          | true => simp [first, checkNow, hs, hc, hx, New.finish]
          | false =>
            simp only
            exact rest _ _ (by simp [checkNow, hs, hc, hx])
      · simp only [hc, Bool.false_eq_true, if_false]
        exact rest _ _ (by simp [checkNow, hs, hc])

/-! ## clean-up -/

theorem erase_append_self (l : List Nat) (q : Nat) (h : q ∉ l) : (l ++ [q]).erase q = l := by
  induction l with
  | nil => simp
  | cons a r ih =>
    simp only [List.mem_cons, not_or] at h
    have : ¬ a = q := fun e => h.1 e.symm
    simp only [List.cons_append]
    rw [List.erase_cons_tail (by simpa using this)]
    rw [ih h.2]

theorem stDel_stAdd (tb : Tables) (q : Nat) (h : q ∉ tb.stSubs) : (tb.stAdd q).stDel q = tb := by
  obtain ⟨a, b, c, d, e, f⟩ := tb
  simp only [Tables.stAdd, Tables.stDel] at h ⊢
  rw [erase_append_self a q h]

/-- the queue of this call is not yet in any table -/
def Fresh (q : Nat) (tb : Tables) : Prop := q ∉ tb.stSubs ∧ q ∉ tb.evSubs ∧ q ∉ tb.mqSubs

/-- tables after the three subscription stages of the legacy set-up -/
def Legacy.subscribed (cfg : Cfg) (q : Nat) (tb : Tables) : Tables :=
  let t1 := if cfg.state.isSome then tb.stAdd q else tb
  let t2 := if cfg.event.isSome then t1.evAdd q else t1
  if cfg.mqtt.isSome then t2.mqAdd q else t2

theorem Legacy.cleanup_subscribed (cfg : Cfg) (q : Nat) (tb : Tables) (hf : Fresh q tb) :
    Legacy.cleanup cfg q (Legacy.subscribed cfg q tb) = tb := by
  obtain ⟨a, b, c, d, e, f⟩ := tb
  obtain ⟨h1, h2, h3⟩ := hf
  simp only at h1 h2 h3
  unfold Legacy.cleanup Legacy.subscribed Legacy.stDelIf
  cases cfg.state.isSome <;> cases cfg.event.isSome <;> cases cfg.mqtt.isSome <;>
    simp [Tables.stAdd, Tables.stDel, Tables.evAdd, Tables.evDel, Tables.mqAdd, Tables.mqDel, h1, h2, h3,
      erase_append_self] <;>
    (first | (by_cases hb : b = [] <;> by_cases hd : d = [] <;> simp [hb, hd]) | skip)

theorem Legacy.cleanup_fresh (cfg : Cfg) (q : Nat) (tb : Tables) (hf : Fresh q tb) : Legacy.cleanup cfg q tb = tb := by
  obtain ⟨a, b, c, d, e, f⟩ := tb
  obtain ⟨h1, h2, h3⟩ := hf
  simp only at h1 h2 h3
  unfold Legacy.cleanup Legacy.stDelIf
  cases cfg.state.isSome <;> cases cfg.event.isSome <;> cases cfg.mqtt.isSome <;>
    simp [Tables.stDel, Tables.evDel, Tables.mqDel, h1, h2, h3, List.erase_of_not_mem]

/-- tables when the MQTT filter fails to parse: state and event already registered -/
theorem Legacy.cleanup_partial (cfg : Cfg) (q : Nat) (tb : Tables) (hf : Fresh q tb) :
    Legacy.cleanup cfg q (Legacy.stDelIf cfg q
      (if cfg.event.isSome then (if cfg.state.isSome then tb.stAdd q else tb).evAdd q
       else (if cfg.state.isSome then tb.stAdd q else tb))) = tb := by
  obtain ⟨a, b, c, d, e, f⟩ := tb
  obtain ⟨h1, h2, h3⟩ := hf
  simp only at h1 h2 h3
  unfold Legacy.cleanup Legacy.stDelIf
  cases cfg.state.isSome <;> cases cfg.event.isSome <;> cases cfg.mqtt.isSome <;>
    simp [Tables.stAdd, Tables.stDel, Tables.evAdd, Tables.evDel, Tables.mqDel, h1, h2, h3, erase_append_self,
      List.erase_of_not_mem] <;>
    (first | (by_cases hb : b = [] <;> simp [hb]) | skip)

/-- an MQTT (webhook) filter that does not parse while an event trigger is given: the only exit by exception that
leaked before a3cf272 -/
def LeakyParse (cfg : Cfg) : Prop :=
  cfg.event.isSome = true ∧ ∃ m, cfg.mqtt = some m ∧ m.parseOK = false

theorem legacy_cleanup (cfg : Cfg) (q : Nat) (tb : Tables) (v0 call : Nat) (hist : Hist) (hf : Fresh q tb)
    (hleak : fl.legacyNoFinally = true → ¬ LeakyParse cfg)
    (hexit : Legacy.keeps fl (Legacy.run fl cfg q tb v0 call hist).1 = false) :
    (Legacy.run fl cfg q tb v0 call hist).2 = tb := by
  revert hexit
  unfold Legacy.run
  by_cases hany : (hasListen cfg || hasTime cfg) = true
  · simp only [hany, Bool.not_true, Bool.false_eq_true, if_false]
    -- the three stages
    have hst : (∃ e, Legacy.stateStage cfg q tb v0 call = .error (e, tb)) ∨
        Legacy.stateStage cfg q tb v0 call = .ok (if cfg.state.isSome then tb.stAdd q else tb) := by
      unfold Legacy.stateStage
      cases hs : cfg.state with
      | none => exact Or.inr rfl
      | some s =>
        simp only [Option.isSome_some, if_true]
        by_cases hp : s.parseOK = true
        · simp only [hp, Bool.not_true, Bool.false_eq_true, if_false]
          by_cases hc : s.checkOnStart = true
          · simp only [hc, if_true]
            cases s.expr v0 with
            | none => exact Or.inl ⟨_, rfl⟩
            | some b =>
              cases b with
              | true => by_cases hi : s.immediate = true <;> simp [hi]
              | false => simp
          · simp [hc]
        · simp only [Bool.not_eq_true] at hp
          simp [hp]
    have hdel : Legacy.stDelIf cfg q (if cfg.state.isSome then tb.stAdd q else tb) = tb := by
      unfold Legacy.stDelIf
      cases cfg.state.isSome with
      | false => rfl
      | true => simp only [if_true]; exact stDel_stAdd tb q hf.1
    -- a parse error right after the state stage: both shapes give the tables back
    have herr1 : Legacy.onParseError fl cfg q (if cfg.state.isSome then tb.stAdd q else tb) = tb := by
      unfold Legacy.onParseError
      rw [hdel]
      by_cases hfl : fl.legacyNoFinally = true
      · simp [hfl]
      · simp only [hfl, Bool.false_eq_true, if_false]; exact Legacy.cleanup_fresh cfg q tb hf
    unfold Legacy.setup
    rcases hst with ⟨e, he⟩ | hok
    · simp only [he, bind, Except.bind]
      intro _; trivial
    · simp only [hok, bind, Except.bind]
      have hsub := Legacy.cleanup_subscribed cfg q tb hf
      unfold Legacy.subscribed at hsub
      have hpart := Legacy.cleanup_partial cfg q tb hf
      generalize (if cfg.state.isSome then tb.stAdd q else tb) = t1 at hdel hsub hpart herr1 ⊢
      unfold Legacy.eventStage
      cases hev : cfg.event with
      | some ev =>
        rw [hev] at hsub hpart
        by_cases hp : ev.parseOK = true
        · simp only [hp, Bool.not_true, Bool.false_eq_true, if_false]
          unfold Legacy.mqttStage
          cases hmq : cfg.mqtt with
          | some m =>
            rw [hmq] at hsub
            by_cases hpm : m.parseOK = true
            · simp only [hpm, Bool.not_true, Bool.false_eq_true, if_false]
              intro hexit
              simp only [hexit, Bool.false_eq_true, if_false]
              simpa using hsub
            · simp only [Bool.not_eq_true] at hpm
              simp only [hpm, Bool.not_false, if_true]
              intro _
              unfold Legacy.onParseError
              by_cases hfl : fl.legacyNoFinally = true
              · exfalso
                exact hleak hfl ⟨by simp [hev], m, hmq, hpm⟩
              · simp only [hfl, Bool.false_eq_true, if_false]
                simpa using hpart
          | none =>
            rw [hmq] at hsub
            simp only
            intro hexit
            simp only [hexit, Bool.false_eq_true, if_false]
            simpa using hsub
        · simp only [Bool.not_eq_true] at hp
          simp only [hp, Bool.not_false, if_true]
          intro _
          exact herr1
      | none =>
        rw [hev] at hsub
        simp only
        unfold Legacy.mqttStage
        cases hmq : cfg.mqtt with
        | some m =>
          rw [hmq] at hsub
          by_cases hpm : m.parseOK = true
          · simp only [hpm, Bool.not_true, Bool.false_eq_true, if_false]
            intro hexit
            simp only [hexit, Bool.false_eq_true, if_false]
            simpa using hsub
          · simp only [Bool.not_eq_true] at hpm
            simp only [hpm, Bool.not_false, if_true]
            intro _
            exact herr1
        | none =>
          rw [hmq] at hsub
          simp only
          intro hexit
          simp only [hexit, Bool.false_eq_true, if_false]
          simpa using hsub
  · simp only [Bool.not_eq_true] at hany
    simp only [hany, Bool.not_false, if_true]
    cases cfg.timeout <;> (intro _; rfl)

/-- the cumulative effect of the `start` calls recorded in `s` -/
def New.applied (q : Nat) (s : New.Started) (tb : Tables) : Tables :=
  { tb with stSubs := if s.st then tb.stSubs ++ [q] else tb.stSubs,
            tasks := tb.tasks + (if s.to then 1 else 0) + (if s.st then 1 else 0) + (if s.tm then 1 else 0),
            evListeners := tb.evListeners + (if s.ev then 1 else 0),
            mqListeners := tb.mqListeners + (if s.mq then 1 else 0) }

theorem New.stopAll_applied (q : Nat) (s : New.Started) (tb : Tables) (h : q ∉ tb.stSubs) :
    New.stopAll q s (New.applied q s tb) = tb := by
  obtain ⟨a, b, c, d, e, f⟩ := tb
  obtain ⟨to, st, tm, ev, mq⟩ := s
  simp only at h
  cases to <;> cases st <;> cases tm <;> cases ev <;> cases mq <;>
    simp [New.stopAll, New.applied, erase_append_self a q h]

/-- `start` either ends the call with the original tables, or leaves exactly what its flags say -/
theorem New.start_cases (cfg : Cfg) (q : Nat) (tb : Tables) (v0 call : Nat) (hf : q ∉ tb.stSubs) :
    (∃ e, New.start fl cfg q tb v0 call = .error (e, tb)) ∨
    (∃ s, New.start fl cfg q tb v0 call = .ok (s, New.applied q s tb)) := by
  unfold New.start New.timeoutStart
  have e0 : tb = New.applied q {} tb := by
    obtain ⟨a, b, c, d, e, f⟩ := tb; simp [New.applied]
  -- generic continuation from a state (s1, applied) with the later flags unset
  have tail : ∀ (s1 : New.Started), s1.tm = false → s1.ev = false → s1.mq = false →
      (∃ e, New.afterState fl cfg q call s1 (New.applied q s1 tb) = .error (e, tb)) ∨
      (∃ s, New.afterState fl cfg q call s1 (New.applied q s1 tb) = .ok (s, New.applied q s tb)) := by
    intro s1 h1 h2 h3
    unfold New.afterState New.timeStart New.eventStart New.mqttStart
    obtain ⟨to, st, tm, ev, mq⟩ := s1
    simp only at h1 h2 h3
    subst h1; subst h2; subst h3
    by_cases ht : hasTime cfg = true
    · by_cases hn : (timeNext cfg.time call).isNone = true
      · by_cases hnn : New.noneNow fl cfg = true
        · left
          refine ⟨.ret call .none, ?_⟩
          simp only [ht, hn, hnn, if_true, New.Stage.andThen]
          have h1 := New.stopAll_applied q { to := to, st := st, tm := true, ev := false, mq := false } tb hf
          have h2 : ({ New.applied q { to := to, st := st, tm := false, ev := false, mq := false } tb with
                tasks := (New.applied q { to := to, st := st, tm := false, ev := false, mq := false } tb).tasks + 1 } : Tables)
              = New.applied q { to := to, st := st, tm := true, ev := false, mq := false } tb := by
            simp [New.applied]
          rw [h2, h1]
        · right
          refine ⟨{ to := to, st := st, tm := false, ev := cfg.event.isSome, mq := cfg.mqtt.isSome }, ?_⟩
          simp only [ht, hn, hnn, if_true, Bool.false_eq_true, if_false, New.Stage.andThen]
          cases cfg.event.isSome <;> cases cfg.mqtt.isSome <;>
            simp only [if_true, Bool.false_eq_true, if_false] <;>
            (congr 1) <;> (congr 1) <;> simp [New.applied]
      · right
        refine ⟨{ to := to, st := st, tm := true, ev := cfg.event.isSome, mq := cfg.mqtt.isSome }, ?_⟩
        simp only [ht, hn, if_true, Bool.false_eq_true, if_false, New.Stage.andThen]
        cases cfg.event.isSome <;> cases cfg.mqtt.isSome <;>
          simp only [if_true, Bool.false_eq_true, if_false] <;>
          (congr 1) <;> (congr 1) <;> simp [New.applied]
    · right
      refine ⟨{ to := to, st := st, tm := false, ev := cfg.event.isSome, mq := cfg.mqtt.isSome }, ?_⟩
      simp only [ht, Bool.false_eq_true, if_false, New.Stage.andThen]
      cases cfg.event.isSome <;> cases cfg.mqtt.isSome <;>
        simp only [if_true, Bool.false_eq_true, if_false] <;>
        (congr 1) <;> (congr 1) <;> simp [New.applied]
  -- the state stage from (s0, applied s0) where only `to` may be set
  have mid : ∀ (b : Bool),
      (∃ e, (New.stateStart cfg q v0 call { to := b } (New.applied q { to := b } tb)).andThen
              (New.afterState fl cfg q call) = .error (e, tb)) ∨
      (∃ s, (New.stateStart cfg q v0 call { to := b } (New.applied q { to := b } tb)).andThen
              (New.afterState fl cfg q call) = .ok (s, New.applied q s tb)) := by
    intro b
    unfold New.stateStart
    cases hs : cfg.state with
    | none =>
      simp only [New.Stage.andThen]
      exact tail { to := b } rfl rfl rfl
    | some st =>
      have happ : ({ New.applied q { to := b } tb with
            stSubs := (New.applied q { to := b } tb).stSubs ++ [q],
            tasks := (New.applied q { to := b } tb).tasks + 1 } : Tables)
          = New.applied q { to := b, st := true } tb := by
        simp [New.applied]
      simp only [happ]
      have hstop : New.stopAll q { to := b, st := true } (New.applied q { to := b, st := true } tb) = tb :=
        New.stopAll_applied q _ tb hf
      by_cases hc : st.checkOnStart = true
      · simp only [hc, if_true]
        cases st.expr v0 with
        | none => left; exact ⟨.exc call .eval, by simp [New.Stage.andThen, hstop]⟩
        | some bb =>
          cases bb with
          | true =>
            by_cases hi : st.immediate = true
            · left; exact ⟨.ret call (.state Option.none), by simp [New.Stage.andThen, hstop, hi]⟩
            · simp only [hi, Bool.false_eq_true, if_false, New.Stage.andThen]
              exact tail { to := b, st := true } rfl rfl rfl
          | false =>
            simp only [New.Stage.andThen]
            exact tail { to := b, st := true } rfl rfl rfl
      · simp only [hc, Bool.false_eq_true, if_false, New.Stage.andThen]
        exact tail { to := b, st := true } rfl rfl rfl
  by_cases hto : (New.effTimeout fl cfg).isSome = true
  · simp only [hto, if_true, New.Stage.andThen]
    have happ : ({ tb with tasks := tb.tasks + 1 } : Tables) = New.applied q { to := true } tb := by
      simp [New.applied]
    rw [happ]
    exact mid true
  · simp only [hto, Bool.false_eq_true, if_false, New.Stage.andThen]
    have := mid false
    rw [← e0] at this
    exact this

theorem new_cleanup (cfg : Cfg) (q : Nat) (tb : Tables) (v0 call : Nat) (hist : Hist) (hf : q ∉ tb.stSubs)
    (hexit : New.keeps fl (New.run fl cfg q tb v0 call hist).1 = false) :
    (New.run fl cfg q tb v0 call hist).2 = tb := by
  unfold New.run at hexit ⊢
  by_cases hk : New.noKwargs cfg = true
  · simp [hk]
  · simp only [hk, Bool.false_eq_true, if_false] at hexit ⊢
    by_cases hpa : New.parseAll cfg = true
    · simp only [hpa, Bool.not_true, Bool.false_eq_true, if_false] at hexit ⊢
      by_cases hnd : New.noDecorators fl cfg = true
      · simp [hnd]
      · simp only [hnd, Bool.false_eq_true, if_false] at hexit ⊢
        rcases New.start_cases fl cfg q tb v0 call hf with ⟨e, he⟩ | ⟨s, hs⟩
        · simp [he, New.finish]
        · simp only [hs, New.finish] at hexit ⊢
          simp only [hexit, Bool.false_eq_true, if_false]
          exact New.stopAll_applied q s tb hf
    · simp only [Bool.not_eq_true] at hpa
      simp [hpa]

/-! ## what happens after the exit has no effect -/

def exitTime : Exit → Nat
  | .ret t _ => t
  | .exc t _ => t
  | .cancelled t => t
  | .waiting => 0

theorem exitTime_retOf (d : Nat) (k : DKind) : exitTime (retOf d k) = d := by cases k <;> rfl

theorem legacy_loop_after (cfg : Cfg) (call : Nat) (hist later : Hist) (anchor : Nat)
    (hne : Legacy.loop fl cfg call hist anchor ≠ .waiting)
    (hl : ∀ p ∈ later, exitTime (Legacy.loop fl cfg call hist anchor) < p.1) :
    Legacy.loop fl cfg call (hist ++ later) anchor = Legacy.loop fl cfg call hist anchor := by
  induction hist generalizing anchor with
  | nil =>
    cases later with
    | nil => rfl
    | cons p r =>
      obtain ⟨t, it⟩ := p
      simp only [List.nil_append, Legacy.loop] at hne hl ⊢
      cases hp : Legacy.pre fl cfg call anchor with
      | some e => rfl
      | none =>
        simp only [hp] at hne hl ⊢
        cases hd : Legacy.dl fl cfg call anchor with
        | none => simp [hd] at hne
        | some dk =>
          obtain ⟨d, k⟩ := dk
          simp only [hd] at hl ⊢
          have := hl (t, it) List.mem_cons_self
          rw [exitTime_retOf] at this
          simp only at this
          simp [this]
  | cons p rest ih =>
    obtain ⟨t, it⟩ := p
    simp only [List.cons_append, Legacy.loop] at hne hl ⊢
    cases hp : Legacy.pre fl cfg call anchor with
    | some e => rfl
    | none =>
      simp only [hp] at hne hl ⊢
      have item : ∀ (_ : onItem cfg t it (Legacy.loop fl cfg call rest t) (Legacy.loop fl cfg call rest anchor) ≠ .waiting)
          (_ : ∀ p ∈ later, exitTime (onItem cfg t it (Legacy.loop fl cfg call rest t) (Legacy.loop fl cfg call rest anchor)) < p.1),
          onItem cfg t it (Legacy.loop fl cfg call (rest ++ later) t) (Legacy.loop fl cfg call (rest ++ later) anchor)
            = onItem cfg t it (Legacy.loop fl cfg call rest t) (Legacy.loop fl cfg call rest anchor) := by
        intro h1 h2
        unfold onItem at h1 h2 ⊢
        cases hr : react cfg t it with
        | stop e => rfl
        | wake => simp only [hr] at h1 h2 ⊢; exact ih t h1 h2
        | skip => simp only [hr] at h1 h2 ⊢; exact ih anchor h1 h2
      cases hd : Legacy.dl fl cfg call anchor with
      | none =>
        simp only [hd] at hne hl ⊢
        exact item hne hl
      | some dk =>
        obtain ⟨d, k⟩ := dk
        simp only [hd] at hne hl ⊢
        by_cases hlt : d < t
        · simp [hlt]
        · simp only [hlt, if_false] at hne hl ⊢
          exact item hne hl

theorem new_loop_after (cfg : Cfg) (call : Nat) (hist later : Hist)
    (hne : New.loop fl cfg call hist ≠ .waiting)
    (hl : ∀ p ∈ later, exitTime (New.loop fl cfg call hist) < p.1) :
    New.loop fl cfg call (hist ++ later) = New.loop fl cfg call hist := by
  induction hist with
  | nil =>
    cases later with
    | nil => rfl
    | cons p r =>
      obtain ⟨t, it⟩ := p
      simp only [List.nil_append, New.loop] at hne hl ⊢
      cases hd : New.dl fl cfg call with
      | none => simp [hd] at hne
      | some dk =>
        obtain ⟨d, k⟩ := dk
        simp only [hd] at hl ⊢
        have := hl (t, it) List.mem_cons_self
        rw [exitTime_retOf] at this
        simp only at this
        simp [this]
  | cons p rest ih =>
    obtain ⟨t, it⟩ := p
    simp only [List.cons_append, New.loop] at hne hl ⊢
    have item : ∀ (_ : onItem cfg t it (New.loop fl cfg call rest) (New.loop fl cfg call rest) ≠ .waiting)
        (_ : ∀ p ∈ later, exitTime (onItem cfg t it (New.loop fl cfg call rest) (New.loop fl cfg call rest)) < p.1),
        onItem cfg t it (New.loop fl cfg call (rest ++ later)) (New.loop fl cfg call (rest ++ later))
          = onItem cfg t it (New.loop fl cfg call rest) (New.loop fl cfg call rest) := by
      intro h1 h2
      unfold onItem at h1 h2 ⊢
      cases hr : react cfg t it with
      | stop e => rfl
      | wake => simp only [hr] at h1 h2 ⊢; exact ih h1 h2
      | skip => simp only [hr] at h1 h2 ⊢; exact ih h1 h2
    cases hd : New.dl fl cfg call with
    | none =>
      simp only [hd] at hne hl ⊢
      exact item hne hl
    | some dk =>
      obtain ⟨d, k⟩ := dk
      simp only [hd] at hne hl ⊢
      by_cases hlt : d < t
      · simp [hlt]
      · simp only [hlt, if_false] at hne hl ⊢
        exact item hne hl

theorem sleep_after (call T : Nat) (hist later : Hist)
    (hl : ∀ p ∈ later, exitTime (Legacy.sleepExit call T hist) < p.1) :
    Legacy.sleepExit call T (hist ++ later) = Legacy.sleepExit call T hist := by
  induction hist with
  | nil =>
    cases later with
    | nil => rfl
    | cons p r =>
      obtain ⟨t, it⟩ := p
      have := hl (t, it) List.mem_cons_self
      simp only [Legacy.sleepExit, exitTime] at this
      simp [Legacy.sleepExit, this]
  | cons p rest ih =>
    obtain ⟨t, it⟩ := p
    simp only [List.cons_append, Legacy.sleepExit] at hl ⊢
    by_cases hlt : call + T < t
    · simp [hlt]
    · simp only [hlt, if_false] at hl ⊢
      cases it with
      | cancel => rfl
      | state v => exact ih hl
      | event d => exact ih hl

theorem legacy_run_after (cfg : Cfg) (hnh : NoHolds cfg) (q : Nat) (tb : Tables) (v0 call : Nat) (hist later : Hist)
    (hne : (Legacy.run fl cfg q tb v0 call hist).1 ≠ .waiting)
    (hl : ∀ p ∈ later, exitTime (Legacy.run fl cfg q tb v0 call hist).1 < p.1) :
    Legacy.run fl cfg q tb v0 call (hist ++ later) = Legacy.run fl cfg q tb v0 call hist := by
  unfold Legacy.run at hne hl ⊢
  simp only [legacy_waitLoop_noHolds fl cfg hnh] at hne hl ⊢
  by_cases hany : (hasListen cfg || hasTime cfg) = true
  · simp only [hany, Bool.not_true, Bool.false_eq_true, if_false] at hne hl ⊢
    cases hs : Legacy.setup fl cfg q tb v0 call with
    | error r => rfl
    | ok tb1 =>
      simp only [hs] at hne hl ⊢
      rw [legacy_loop_after fl cfg call hist later call hne hl]
  · simp only [Bool.not_eq_true] at hany
    simp only [hany, Bool.not_false, if_true] at hne hl ⊢
    cases ht : cfg.timeout with
    | none => rfl
    | some T =>
      simp only [ht] at hl ⊢
      rw [sleep_after call T hist later hl]

theorem new_run_after (cfg : Cfg) (hnh : NoHolds cfg) (q : Nat) (tb : Tables) (v0 call : Nat) (hist later : Hist)
    (hne : (New.run fl cfg q tb v0 call hist).1 ≠ .waiting)
    (hl : ∀ p ∈ later, exitTime (New.run fl cfg q tb v0 call hist).1 < p.1) :
    New.run fl cfg q tb v0 call (hist ++ later) = New.run fl cfg q tb v0 call hist := by
  unfold New.run at hne hl ⊢
  by_cases hk : New.noKwargs cfg = true
  · simp [hk]
  · simp only [hk, Bool.false_eq_true, if_false] at hne hl ⊢
    by_cases hpa : (!New.parseAll cfg) = true
    · simp [hpa]
    · simp only [hpa, Bool.false_eq_true, if_false] at hne hl ⊢
      by_cases hnd : New.noDecorators fl cfg = true
      · simp [hnd]
      · simp only [hnd, Bool.false_eq_true, if_false] at hne hl ⊢
        cases hs : New.start fl cfg q tb v0 call with
        | error r => rfl
        | ok p =>
          simp only [hs, New.finish, new_waitLoop_noHolds fl cfg hnh] at hne hl ⊢
          rw [new_loop_after fl cfg call hist later hne hl]

/-! ## cancellation keeps every subscription (the general form of findings F1 / F2) -/

theorem Legacy.stateStage_ok (cfg : Cfg) (q : Nat) (tb : Tables) (v0 call : Nat) (t : Tables)
    (h : Legacy.stateStage cfg q tb v0 call = .ok t) : t = if cfg.state.isSome then tb.stAdd q else tb := by
  unfold Legacy.stateStage at h
  cases hs : cfg.state with
  | none => rw [hs] at h; simp at h; simp [h]
  | some s =>
    rw [hs] at h
    simp only [Option.isSome_some, if_true]
    by_cases hp : s.parseOK = true
    · simp only [hp, Bool.not_true, Bool.false_eq_true, if_false] at h
      by_cases hc : s.checkOnStart = true
      · simp only [hc, if_true] at h
        cases hx : s.expr v0 with
        | none => rw [hx] at h; simp at h
        | some b =>
          rw [hx] at h
          cases b with
          | true =>
            by_cases hi : s.immediate = true
            · simp [hi] at h
            · simp [hi] at h; exact h.symm
          | false => simp at h; exact h.symm
      · simp only [hc, Bool.false_eq_true, if_false] at h
        simp at h; exact h.symm
    · simp only [Bool.not_eq_true] at hp
      simp [hp] at h

theorem Legacy.eventStage_ok (cfg : Cfg) (q : Nat) (tb : Tables) (call : Nat) (t : Tables)
    (h : Legacy.eventStage fl cfg q tb call = .ok t) : t = if cfg.event.isSome then tb.evAdd q else tb := by
  unfold Legacy.eventStage at h
  cases he : cfg.event with
  | none => rw [he] at h; simp at h; simp [h]
  | some e =>
    rw [he] at h
    simp only [Option.isSome_some, if_true]
    by_cases hp : e.parseOK = true
    · simp [hp] at h; exact h.symm
    · simp only [Bool.not_eq_true] at hp
      simp [hp] at h

theorem Legacy.mqttStage_ok (cfg : Cfg) (q : Nat) (tb : Tables) (call : Nat) (t : Tables)
    (h : Legacy.mqttStage fl cfg q tb call = .ok t) : t = if cfg.mqtt.isSome then tb.mqAdd q else tb := by
  unfold Legacy.mqttStage at h
  cases he : cfg.mqtt with
  | none => rw [he] at h; simp at h; simp [h]
  | some e =>
    rw [he] at h
    simp only [Option.isSome_some, if_true]
    by_cases hp : e.parseOK = true
    · simp [hp] at h; exact h.symm
    · simp only [Bool.not_eq_true] at hp
      simp [hp] at h

theorem Legacy.setup_ok (cfg : Cfg) (q : Nat) (tb : Tables) (v0 call : Nat) (t : Tables)
    (h : Legacy.setup fl cfg q tb v0 call = .ok t) : t = Legacy.subscribed cfg q tb := by
  unfold Legacy.setup at h
  cases h1 : Legacy.stateStage cfg q tb v0 call with
  | error r => rw [h1] at h; simp [bind, Except.bind] at h
  | ok t1 =>
    rw [h1] at h
    simp only [bind, Except.bind] at h
    cases h2 : Legacy.eventStage fl cfg q t1 call with
    | error r => rw [h2] at h; simp at h
    | ok t2 =>
      rw [h2] at h
      simp only at h
      have e1 := Legacy.stateStage_ok cfg q tb v0 call t1 h1
      have e2 := Legacy.eventStage_ok fl cfg q t1 call t2 h2
      have e3 := Legacy.mqttStage_ok fl cfg q t2 call t h
      unfold Legacy.subscribed
      rw [e3, e2, e1]

theorem legacy_cancel_keeps (cfg : Cfg) (q : Nat) (tb : Tables) (v0 call : Nat) (hist : Hist) (t : Nat)
    (hflag : fl.legacyNoFinally = true) (hc : (Legacy.run fl cfg q tb v0 call hist).1 = .cancelled t) :
    (Legacy.run fl cfg q tb v0 call hist).2 = Legacy.subscribed cfg q tb := by
  unfold Legacy.run at hc ⊢
  by_cases hany : (hasListen cfg || hasTime cfg) = true
  · simp only [hany, Bool.not_true, Bool.false_eq_true, if_false] at hc ⊢
    cases hs : Legacy.setup fl cfg q tb v0 call with
    | error r =>
      -- the set-up never ends by a cancellation
      exfalso
      rw [hs] at hc
      simp only at hc
      unfold Legacy.setup at hs
      cases h1 : Legacy.stateStage cfg q tb v0 call with
      | error r1 =>
        rw [h1] at hs
        simp only [bind, Except.bind, Except.error.injEq] at hs
        subst hs
        unfold Legacy.stateStage at h1
        cases hst : cfg.state with
        | none => rw [hst] at h1; simp at h1
        | some s =>
          rw [hst] at h1
          simp only at h1
          split at h1
          · simp at h1; rw [← h1] at hc; simp at hc
          · split at h1
            · cases hx : s.expr v0 with
              | none => rw [hx] at h1; simp at h1; rw [← h1] at hc; simp at hc
              | some b =>
                rw [hx] at h1
                cases b with
                | true =>
                  simp only at h1
                  split at h1
                  · simp at h1; rw [← h1] at hc; simp at hc
                  · simp at h1
                | false => simp at h1
            · simp at h1
      | ok t1 =>
        rw [h1] at hs
        simp only [bind, Except.bind] at hs
        cases h2 : Legacy.eventStage fl cfg q t1 call with
        | error r2 =>
          rw [h2] at hs
          simp only [Except.error.injEq] at hs
          subst hs
          unfold Legacy.eventStage at h2
          cases he : cfg.event with
          | none => rw [he] at h2; simp at h2
          | some e =>
            rw [he] at h2
            simp only at h2
            split at h2
            · simp at h2; rw [← h2] at hc; simp at hc
            · simp at h2
        | ok t2 =>
          rw [h2] at hs
          simp only at hs
          unfold Legacy.mqttStage at hs
          cases he : cfg.mqtt with
          | none => rw [he] at hs; simp at hs
          | some e =>
            rw [he] at hs
            simp only at hs
            split at hs
            · simp at hs; rw [← hs] at hc; simp at hc
            · simp at hs
    | ok tb1 =>
      rw [hs] at hc
      simp only at hc ⊢
      simp only [hc, Legacy.keeps, hflag, if_true]
      exact Legacy.setup_ok fl cfg q tb v0 call tb1 hs
  · simp only [Bool.not_eq_true] at hany
    simp only [hany, Bool.not_false, if_true]
    simp only [Bool.or_eq_false_iff] at hany
    have hs : cfg.state.isSome = false := by
      cases h : cfg.state with
      | none => rfl
      | some s => simp [hasListen, h] at hany
    have he : cfg.event.isSome = false := by
      cases h : cfg.event with
      | none => rfl
      | some s => simp [hasListen, h] at hany
    have hm : cfg.mqtt.isSome = false := by
      cases h : cfg.mqtt with
      | none => rfl
      | some s => simp [hasListen, h] at hany
    have : Legacy.subscribed cfg q tb = tb := by simp [Legacy.subscribed, hs, he, hm]
    rw [this]
    cases cfg.timeout <;> rfl

theorem legacy_subscribed_ne (cfg : Cfg) (q : Nat) (tb : Tables) (hf : Fresh q tb) (hl : hasListen cfg = true) :
    Legacy.subscribed cfg q tb ≠ tb := by
  obtain ⟨a, b, c, d, e, f⟩ := tb
  obtain ⟨h1, h2, h3⟩ := hf
  simp only at h1 h2 h3
  intro heq
  unfold Legacy.subscribed at heq
  unfold hasListen at hl
  cases hs : cfg.state.isSome <;> cases he : cfg.event.isSome <;> cases hm : cfg.mqtt.isSome <;>
    simp [hs, he, hm, Tables.stAdd, Tables.evAdd, Tables.mqAdd, h2, h3] at heq hl

theorem new_cancel_keeps (cfg : Cfg) (q : Nat) (tb : Tables) (v0 call : Nat) (hist : Hist) (t : Nat)
    (hflag : fl.cancelNoStop = true) (hf : q ∉ tb.stSubs) (hc : (New.run fl cfg q tb v0 call hist).1 = .cancelled t) :
    ∃ s, (New.run fl cfg q tb v0 call hist).2 = New.applied q s tb ∧
      New.start fl cfg q tb v0 call = .ok (s, New.applied q s tb) := by
  unfold New.run at hc ⊢
  by_cases hk : New.noKwargs cfg = true
  · simp [hk] at hc
  · simp only [hk, Bool.false_eq_true, if_false] at hc ⊢
    by_cases hpa : New.parseAll cfg = true
    · simp only [hpa, Bool.not_true, Bool.false_eq_true, if_false] at hc ⊢
      by_cases hnd : New.noDecorators fl cfg = true
      · simp [hnd] at hc
      · simp only [hnd, Bool.false_eq_true, if_false] at hc ⊢
        rcases New.start_cases fl cfg q tb v0 call hf with ⟨e, he⟩ | ⟨s, hs⟩
        · -- start never ends by a cancellation
          exfalso
          rw [he] at hc
          simp only [New.finish] at hc
          subst hc
          -- an error exit of `start` is a return or an exception
          have : ∀ (r : New.Stage) (x : Exit × Tables), r = .error x → True := fun _ _ _ => trivial
          unfold New.start New.timeoutStart at he
          have hne : ∀ (s1 : New.Started) (t1 : Tables) (tt : Tables),
              New.afterState fl cfg q call s1 t1 ≠ .error (.cancelled t, tt) := by
            intro s1 t1 tt
            unfold New.afterState New.timeStart New.eventStart New.mqttStart
            by_cases ht : hasTime cfg = true
            · by_cases hn : (timeNext cfg.time call).isNone = true
              · by_cases hnn : New.noneNow fl cfg = true
                · simp [ht, hn, hnn, New.Stage.andThen]
                · simp only [ht, hn, hnn, if_true, Bool.false_eq_true, if_false, New.Stage.andThen]
                  cases cfg.event.isSome <;> cases cfg.mqtt.isSome <;> simp
              · simp only [ht, hn, if_true, Bool.false_eq_true, if_false, New.Stage.andThen]
                cases cfg.event.isSome <;> cases cfg.mqtt.isSome <;> simp
            · simp only [ht, Bool.false_eq_true, if_false, New.Stage.andThen]
              cases cfg.event.isSome <;> cases cfg.mqtt.isSome <;> simp
          have hmid : ∀ (s0 : New.Started) (t0 : Tables) (tt : Tables),
              (New.stateStart cfg q v0 call s0 t0).andThen (New.afterState fl cfg q call) ≠ .error (.cancelled t, tt) := by
            intro s0 t0 tt
            unfold New.stateStart
            cases cfg.state with
            | none => simp only [New.Stage.andThen]; exact hne _ _ _
            | some st =>
              simp only
              by_cases hcn : st.checkOnStart = true
              · simp only [hcn, if_true]
                cases st.expr v0 with
                | none => simp [New.Stage.andThen]
                | some b =>
                  cases b with
                  | true =>
                    by_cases hi : st.immediate = true
                    · simp [New.Stage.andThen, hi]
                    · simp only [hi, Bool.false_eq_true, if_false, New.Stage.andThen]; exact hne _ _ _
                  | false => simp only [New.Stage.andThen]; exact hne _ _ _
              · simp only [hcn, Bool.false_eq_true, if_false, New.Stage.andThen]; exact hne _ _ _
          by_cases hto : (New.effTimeout fl cfg).isSome = true
          · simp only [hto, if_true, New.Stage.andThen] at he
            exact hmid _ _ _ he
          · simp only [hto, Bool.false_eq_true, if_false, New.Stage.andThen] at he
            exact hmid _ _ _ he
        · refine ⟨s, ?_, hs⟩
          rw [hs] at hc ⊢
          simp only [New.finish] at hc ⊢
          simp [hc, New.keeps, hflag]
    · simp only [Bool.not_eq_true] at hpa
      simp [hpa] at hc

end PsModel.C15
