import PsModel.Lemmas.C10Plan
/-! the planner of a default reload against the declarative discard rule `Spec.Disc` -/
namespace PsModel.C10
open PsModel.C10.Spec

/-- the plan after the first phase of a default reload -/
def p1Default (loaded : List Ctx) (ents : List Entry) : Plan :=
  { del := goneNames loaded ents ++ changedNames loaded ents,
    ents := ents.map (fun e => e.setF (force1 loaded e)) }

theorem phase1_default (loaded : List Ctx) (ents : List Entry) :
    phase1 loaded ents .default = some (p1Default loaded ents) := rfl

def Loaded (loaded : List Ctx) (n : Name) : Prop := ∃ c ∈ loaded, c.name = n

theorem loaded_of_findCtx {loaded : List Ctx} {n : Name} {c : Ctx} (h : findCtx loaded n = some c) : Loaded loaded n :=
  ⟨c, (findCtx_some h).1, (findCtx_some h).2⟩

theorem findCtx_none_of_not_loaded {loaded : List Ctx} {n : Name} (h : ¬ Loaded loaded n) : findCtx loaded n = none :=
  findCtx_none.mpr (fun c hc hn => h ⟨c, hc, hn⟩)

theorem p1_names (loaded : List Ctx) (ents : List Entry) : NamesNodup ents → NamesNodup (p1Default loaded ents).ents := by
  intro h
  unfold NamesNodup p1Default at *
  simp only [List.map_map]
  rw [List.map_congr_left (g := (·.name)) (fun e _ => by simp)]
  exact h

theorem mem_p1_ents {loaded : List Ctx} {ents : List Entry} {e1 : Entry} :
    e1 ∈ (p1Default loaded ents).ents ↔ ∃ e ∈ ents, e1 = e.setF (force1 loaded e) := by
  simp only [p1Default, List.mem_map]
  constructor
  · rintro ⟨e, he, rfl⟩; exact ⟨e, he, rfl⟩
  · rintro ⟨e, he, rfl⟩; exact ⟨e, he, rfl⟩

/-- a context whose entry differs is discarded by the spec -/
theorem disc_of_differs {loaded : List Ctx} {ents : List Entry} (hnd : NamesNodup ents) {e : Entry} (he : e ∈ ents)
    {c : Ctx} (hf : findCtx loaded e.name = some c) (hd : differs c e = true) : Disc loaded ents e.name := by
  obtain ⟨hc, hn⟩ := findCtx_some hf
  rw [← hn]
  refine .changed hc (.inr ⟨e, ?_, hd⟩)
  rw [hn]; exact findEntry_of_nodup hnd he

theorem p1_del_disc {loaded : List Ctx} {ents : List Entry} (hnd : NamesNodup ents) {n : Name}
    (h : n ∈ (p1Default loaded ents).del) : Disc loaded ents n := by
  simp only [p1Default, List.mem_append, goneNames, changedNames, List.mem_map, List.mem_filter] at h
  rcases h with ⟨c, ⟨hc, hg⟩, rfl⟩ | ⟨e, ⟨he, hch⟩, rfl⟩
  · refine .changed hc (.inl ?_)
    rw [findEntry_none]
    intro e he hn
    have : hasName ents c.name = true := hasName_iff.mpr ⟨e, he, hn⟩
    simp [this] at hg
  · unfold isChanged at hch
    split at hch
    · rename_i c hf; exact disc_of_differs hnd he hf hch
    · simp at hch

/-- what a raised flag means after the first phase -/
theorem p1_force {loaded : List Ctx} {ents : List Entry} (hnd : NamesNodup ents) {e1 : Entry}
    (h1 : e1 ∈ (p1Default loaded ents).ents) (hf : e1.force = true) :
    (Loaded loaded e1.name ∧ Disc loaded ents e1.name) ∨
    (∃ e ∈ ents, e.name = e1.name ∧ e.autoload = true ∧ findCtx loaded e.name = none) := by
  obtain ⟨e, he, rfl⟩ := mem_p1_ents.mp h1
  simp only [setF_force, setF_name] at hf ⊢
  unfold force1 at hf
  split at hf
  · rename_i c hfc
    exact .inl ⟨loaded_of_findCtx hfc, disc_of_differs hnd he hfc hf⟩
  · rename_i hfc
    exact .inr ⟨e, he, rfl, hf, hfc⟩

theorem mem_willReload {p : Plan} {r : Name} :
    r ∈ willReload p ↔ ∃ e ∈ p.ents, isUnder "modules" e.name = true ∧ (e.name ∈ p.del ∨ e.force = true) ∧ root2 e.name = r := by
  simp only [willReload, List.mem_map, List.mem_filter, Bool.and_eq_true, Bool.or_eq_true, List.contains_iff_mem]
  constructor
  · rintro ⟨e, ⟨he, hu, hdf⟩, rfl⟩; exact ⟨e, he, hu, hdf, rfl⟩
  · rintro ⟨e, he, hu, hdf, rfl⟩; exact ⟨e, ⟨he, hu, hdf⟩, rfl⟩

/-- modules are never auto-loaded (true for the extracted table, see `globRead_modules_not_auto`) -/
def ModsNotAuto (ents : List Entry) : Prop := ∀ e ∈ ents, e.autoload = true → isUnder "modules" e.name = false

theorem wr_disc {loaded : List Ctx} {ents : List Entry} (hnd : NamesNodup ents) (hmod : ModsNotAuto ents) {r : Name}
    (h : r ∈ willReload (p1Default loaded ents)) :
    ∃ d, root2 d = r ∧ isUnder "modules" d = true ∧ Disc loaded ents d := by
  obtain ⟨e1, h1, hu, hdf, rfl⟩ := mem_willReload.mp h
  refine ⟨e1.name, rfl, hu, ?_⟩
  rcases hdf with hd | hf
  · exact p1_del_disc hnd hd
  · rcases p1_force hnd h1 hf with ⟨_, hd⟩ | ⟨e, he, hn, ha, _⟩
    · exact hd
    · have := hmod e he ha
      rw [hn, hu] at this
      exact absurd this (by simp)

theorem disc_of_reach {loaded : List Ctx} {ents : List Entry} {wr : List Name}
    (hwr : ∀ r ∈ wr, ∃ d, root2 d = r ∧ Disc loaded ents d) {n m : Name} (h : Reach loaded n m)
    (hm : root2 m ∈ wr) : Disc loaded ents n := by
  induction h with
  | direct hf hi =>
    obtain ⟨d, hd, hdisc⟩ := hwr _ hm
    obtain ⟨hc, hn⟩ := findCtx_some hf
    rw [← hn]
    exact .importer hc hi hd.symm hdisc
  | step hf hi _ ih =>
    obtain ⟨hc, hn⟩ := findCtx_some hf
    rw [← hn]
    exact .importer hc hi rfl (ih hm)

theorem inPkg_of_root2_eq {a b : Name} (h : root2 a = root2 b) (hb : inPkg b = true) : inPkg a = true := by
  have hlen := root2_length_of_inPkg hb
  rw [← h] at hlen
  have ha : 2 ≤ a.length := by
    simp only [root2, List.length_take] at hlen; omega
  have hb2 : 2 ≤ b.length := by
    have := root2_length_of_inPkg hb
    simp only [root2, List.length_take] at this; omega
  have hhead : a.head? = b.head? := by
    have := congrArg List.head? h
    simpa [root2, List.head?_take] using this
  unfold inPkg isUnder at hb ⊢
  simp only [ha, hb2, decide_true, Bool.true_and, hhead] at hb ⊢
  exact hb

theorem isUnder_of_root2_eq {pre : String} {a b : Name} (h : root2 a = root2 b) (hb : isUnder pre b = true) :
    isUnder pre a = true := by
  have hlen := root2_length_of_isUnder hb
  rw [← h] at hlen
  have ha : 2 ≤ a.length := by
    simp only [root2, List.length_take] at hlen; omega
  have hb2 : 2 ≤ b.length := by
    have := root2_length_of_isUnder hb
    simp only [root2, List.length_take] at this; omega
  have hhead : a.head? = b.head? := by
    have := congrArg List.head? h
    simpa [root2, List.head?_take] using this
  unfold isUnder at hb ⊢
  simp only [ha, hb2, decide_true, Bool.true_and, hhead] at hb ⊢
  exact hb

/-- everything needed about the plan of a default reload: the two later phases, unfolded -/
structure DefaultPlan (fuel : Nat) (loaded : List Ctx) (ents : List Entry) (pl : Plan) : Prop where
  eq : pl = phase3 (phase2 loaded fuel (p1Default loaded ents))

theorem plan_default {fuel : Nat} {loaded : List Ctx} {ents : List Entry} {pl : Plan}
    (h : plan fuel loaded ents .default = some pl) : pl = phase3 (phase2 loaded fuel (p1Default loaded ents)) := by
  simp only [plan, phase1_default, Option.map_some, Option.some.injEq] at h
  exact h.symm

theorem p2_names {loaded : List Ctx} {rank : Name → Nat} (hacyc : Acyclic loaded rank) {fuel : Nat}
    (hfuel : ∀ c ∈ loaded, rank c.name < fuel) (p : Plan) (hnd : NamesNodup p.ents) :
    NamesNodup (phase2 loaded fuel p).ents := by
  unfold phase2
  by_cases hwr : (willReload p).isEmpty = true
  · simpa [hwr] using hnd
  · simp only [hwr, Bool.false_eq_true, if_false]
    have hinv := phase2_fold_inv hacyc (wr := willReload p) (p := p) loaded []
      { tbl := [], del := p.del, ents := p.ents } (fun c hc => ⟨hc, hfuel c hc⟩)
      ⟨⟨by simp [memoHas], by simp⟩, [], by simp, by
        simp only [setForce, List.contains_nil]
        exact (List.map_id'' (fun e => by simp [upd]) p.ents).symm, by simp⟩
    obtain ⟨F, _, hents, _⟩ := hinv.frc
    unfold NamesNodup at hnd ⊢
    rw [hents]
    simp only [setForce, List.map_map]
    rw [List.map_congr_left (g := (·.name)) (fun e _ => by simp)]
    exact hnd

/-- **soundness of the plan**: whatever a default reload deletes had to be discarded -/
theorem plan_sound_aux {loaded : List Ctx} {ents : List Entry} {rank : Name → Nat} (hacyc : Acyclic loaded rank)
    {fuel : Nat} (hfuel : ∀ c ∈ loaded, rank c.name < fuel) (hnd : NamesNodup ents) (hmod : ModsNotAuto ents)
    {n : Name} (hn : n ∈ (phase3 (phase2 loaded fuel (p1Default loaded ents))).del) (hl : Loaded loaded n) :
    Disc loaded ents n := by
  have h2 := phase2_char hacyc hfuel (p1Default loaded ents)
  have hnd2 := p2_names hacyc hfuel (p1Default loaded ents) (p1_names loaded ents hnd)
  have h3 := phase3_char (phase2 loaded fuel (p1Default loaded ents)) hnd2
  have hwr : ∀ r ∈ willReload (p1Default loaded ents), ∃ d, root2 d = r ∧ Disc loaded ents d := by
    intro r hr
    obtain ⟨d, hd, _, hdisc⟩ := wr_disc hnd hmod hr
    exact ⟨d, hd, hdisc⟩
  -- contexts deleted by phase 1 or 2
  have hdel2 : ∀ m, m ∈ (phase2 loaded fuel (p1Default loaded ents)).del → Disc loaded ents m := by
    intro m hm
    rcases (h2.1 m).mp hm with h | ⟨_, x, hx, hxw⟩
    · exact p1_del_disc hnd h
    · exact disc_of_reach hwr hx hxw
  -- a raised flag after phase 2
  have hforce2 : ∀ e2 ∈ (phase2 loaded fuel (p1Default loaded ents)).ents, e2.force = true →
      (Loaded loaded e2.name ∧ Disc loaded ents e2.name) ∨
      (∃ e ∈ ents, e.name = e2.name ∧ e.autoload = true ∧ findCtx loaded e.name = none) := by
    intro e2 he2 hf2
    obtain ⟨e1, he1, heq, hiff⟩ := (h2.2 e2).mp he2
    have hname : e2.name = e1.name := by rw [heq]; rfl
    rcases hiff.mp hf2 with hf1 | ⟨hl1, x, hx, hxw⟩
    · rw [hname]; exact p1_force hnd he1 hf1
    · rw [hname]; exact .inl ⟨hl1, disc_of_reach hwr hx hxw⟩
  rcases (h3.1 n).mp hn with h | ⟨x, _, hxn, e0, he0, hf0, hp0, hr0⟩
  · exact hdel2 n h
  · obtain ⟨c, hc, hcn⟩ := hl
    have hpn : inPkg n = true := inPkg_of_root2_eq hr0.symm hp0
    rcases hforce2 e0 he0 hf0 with ⟨_, hd⟩ | ⟨e, he, hen, ha, hfn⟩
    · rw [← hcn]
      exact .sibling hc (hcn ▸ hpn) (by rw [hcn]; exact hr0.symm) hd
    · rw [← hcn]
      exact .siblingNew hc (hcn ▸ hpn) he hfn ha (by rw [hcn, hen]; exact hr0.symm)

end PsModel.C10
