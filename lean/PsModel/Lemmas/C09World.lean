import PsModel.Lemmas.C09
import PsModel.Spec.C09
/-! the world of generations: the state table always equals the union of the subscriptions of the started
generations, and the started generations are exactly the referenced ones -/
namespace PsModel.C09
open PsModel.C09.Spec

/-- `notify_del` removes exactly the named entities' subscription – for the repaired loop always, for the loop as
coded when every entity is named once and the queue is still subscribed everywhere -/
theorem mem_notifyDel (cont : Bool) (names : List Var) (q : Q) (t : StateTbl)
    (h : cont = true ∨ ((entsOf names).Nodup ∧ ∀ e ∈ entsOf names, q ∈ subsOf t e)) (e : Ent) (q' : Q) :
    q' ∈ subsOf (notifyDel cont q names t) e ↔ q' ∈ subsOf t e ∧ ¬ (q' = q ∧ e ∈ entsOf names) := by
  cases cont with
  | true => exact mem_notifyDel_cont names q t e q'
  | false =>
    rcases h with h | ⟨h1, h2⟩
    · simp at h
    · exact mem_notifyDel_code names q t h1 h2 e q'

/-- the fragment on which the code as it is cleans up: every queue names each entity once -/
def GoodGen (cont : Bool) (_sub : Sub) (g : Gen) : Prop :=
  cont = true ∨ ∀ names ∈ g.states, (entsOf names).Nodup

theorem idxList_keys_nodup {α} (l : List α) : ((idxList l).map (·.1)).Nodup := by
  unfold idxList
  rw [List.map_fst_zip (by simp)]
  exact List.nodup_range

theorem idxList_snd_mem {α} {l : List α} {kn : Nat × α} (h : kn ∈ idxList l) : kn.2 ∈ l := by
  unfold idxList at h
  exact (List.of_mem_zip h).2

/-- subscribing the decorators of a new-subsystem generation one after the other -/
theorem mem_foldl_add (i : Nat) (e : Ent) (q' : Q) : ∀ (l : List (Nat × List Var)) (t : StateTbl),
    q' ∈ subsOf (l.foldl (fun t kv => notifyAdd kv.2 (i, kv.1) t) t) e ↔
      q' ∈ subsOf t e ∨ ∃ kn ∈ l, q' = (i, kn.1) ∧ e ∈ entsOf kn.2 := by
  intro l
  induction l with
  | nil => intro t; simp
  | cons kv l ih =>
    intro t
    simp only [List.foldl_cons]
    rw [ih, mem_notifyAdd]
    simp only [List.mem_cons, exists_eq_or_imp]
    constructor
    · rintro ((h | h) | h)
      · exact .inl h
      · exact .inr (.inl h)
      · exact .inr (.inr h)
    · rintro (h | h | h)
      · exact .inl (.inl h)
      · exact .inl (.inr h)
      · exact .inr h

theorem mem_foldl_del (cont : Bool) (i : Nat) (e : Ent) (q' : Q) : ∀ (l : List (Nat × List Var)) (t : StateTbl),
    (l.map (·.1)).Nodup →
    (cont = true ∨ ((∀ kn ∈ l, (entsOf kn.2).Nodup) ∧ ∀ kn ∈ l, ∀ x ∈ entsOf kn.2, (i, kn.1) ∈ subsOf t x)) →
    (q' ∈ subsOf (l.foldl (fun t kv => notifyDel cont (i, kv.1) kv.2 t) t) e ↔
      q' ∈ subsOf t e ∧ ¬ ∃ kn ∈ l, q' = (i, kn.1) ∧ e ∈ entsOf kn.2) := by
  intro l
  induction l with
  | nil => intro t _ _; simp
  | cons kv l ih =>
    intro t hnd h
    simp only [List.map_cons, List.nodup_cons] at hnd
    simp only [List.foldl_cons]
    have hstep : ∀ x y, y ∈ subsOf (notifyDel cont (i, kv.1) kv.2 t) x ↔
        y ∈ subsOf t x ∧ ¬ (y = (i, kv.1) ∧ x ∈ entsOf kv.2) := by
      intro x y
      apply mem_notifyDel
      rcases h with h | ⟨h1, h2⟩
      · exact .inl h
      · exact .inr ⟨h1 kv List.mem_cons_self, h2 kv List.mem_cons_self⟩
    rw [ih _ hnd.2, hstep]
    · simp only [List.mem_cons, exists_eq_or_imp, not_or]
      constructor
      · rintro ⟨⟨h1, h2⟩, h3⟩; exact ⟨h1, h2, h3⟩
      · rintro ⟨h1, h2, h3⟩; exact ⟨⟨h1, h2⟩, h3⟩
    · rcases h with h | ⟨h1, h2⟩
      · exact .inl h
      · refine .inr ⟨fun kn hk => h1 kn (List.mem_cons_of_mem _ hk), ?_⟩
        intro kn hk x hx
        rw [hstep]
        refine ⟨h2 kn (List.mem_cons_of_mem _ hk) x hx, ?_⟩
        rintro ⟨heq, _⟩
        have : kn.1 = kv.1 := by simpa using congrArg Prod.snd heq
        exact hnd.1 (this ▸ List.mem_map_of_mem (f := (·.1)) hk)

/-- the state table after `subscribe` -/
theorem mem_subscribe (sub : Sub) (g : Gen) (w : World) (e : Ent) (q : Q) :
    q ∈ subsOf (subscribe sub g w).st e ↔ q ∈ subsOf w.st e ∨ Wants sub g e q := by
  simp only [subscribe, Wants]
  exact mem_foldl_add g.id e q _ _

/-- the state table after `unsubscribe`, when the generation is good and fully subscribed -/
theorem mem_unsubscribe (cont : Bool) (sub : Sub) (g : Gen) (w : World) (hg : GoodGen cont sub g)
    (hall : ∀ x y, Wants sub g x y → y ∈ subsOf w.st x) (e : Ent) (q : Q) :
    q ∈ subsOf (unsubscribe cont sub g w).st e ↔ q ∈ subsOf w.st e ∧ ¬ Wants sub g e q := by
  simp only [unsubscribe, Wants]
  apply mem_foldl_del cont g.id e q _ _ (idxList_keys_nodup _)
  rcases hg with hg | hg
  · exact .inl hg
  · refine .inr ⟨fun kn hk => hg kn.2 (idxList_snd_mem hk), ?_⟩
    intro kn hk x hx
    exact hall x (g.id, kn.1) ⟨kn, hk, rfl, hx⟩

theorem wants_id {sub : Sub} {g : Gen} {e : Ent} {q : Q} (h : Wants sub g e q) : q.1 = g.id := by
  obtain ⟨kn, _, rfl, _⟩ := h; rfl

theorem nodup_map_inj {α β} {f : α → β} : ∀ {l : List α}, (l.map f).Nodup → ∀ {a b : α}, a ∈ l → b ∈ l → f a = f b → a = b
  | [], _, _, _, ha, _, _ => by simp at ha
  | x :: xs, h, a, b, ha, hb, hab => by
    simp only [List.map_cons, List.nodup_cons] at h
    rcases List.mem_cons.mp ha with rfl | ha' <;> rcases List.mem_cons.mp hb with rfl | hb'
    · rfl
    · exact absurd (hab ▸ List.mem_map_of_mem (f := f) hb') h.1
    · exact absurd (hab.symm ▸ List.mem_map_of_mem (f := f) ha') h.1
    · exact nodup_map_inj h.2 ha' hb' hab

/-! ## the invariant -/

structure WInv (sub : Sub) (w : World) : Prop where
  /-- model tables = spec tables -/
  tables : ∀ e q, q ∈ subsOf w.st e ↔ Tables sub w.started e q
  fresh : ∀ g ∈ w.started, g.id < w.next
  nodup : (w.started.map (·.id)).Nodup
  /-- whatever a variable or container slot holds is a started generation -/
  live : ∀ i, 0 < refs w i → ∃ g ∈ w.started, g.id = i

theorem refs_pos_iff (w : World) (i : Nat) :
    0 < refs w i ↔ (∃ b ∈ w.binds, b.2.2 = i) ∨ (∃ s ∈ w.slots, s.2.2 = i) := by
  unfold refs
  rw [Nat.add_pos_iff_pos_or_pos, List.length_pos_iff_exists_mem, List.length_pos_iff_exists_mem]
  simp only [List.mem_filter, beq_iff_eq]

theorem startGen_inv {sub : Sub} {w : World} (h : WInv sub w) (g : Gen) (hid : g.id = w.next) :
    WInv sub { (startGen sub g { w with next := w.next + 1 }) with binds := w.binds, slots := w.slots } ∧
    (startGen sub g { w with next := w.next + 1 }).binds = w.binds ∧
    (startGen sub g { w with next := w.next + 1 }).slots = w.slots ∧
    (startGen sub g { w with next := w.next + 1 }).next = w.next + 1 ∧
    (startGen sub g { w with next := w.next + 1 }).started = w.started ++ [g] := by
  have hb : (startGen sub g { w with next := w.next + 1 }).binds = w.binds := by
    cases sub <;> simp [startGen, subscribe]
  have hs : (startGen sub g { w with next := w.next + 1 }).slots = w.slots := by
    cases sub <;> simp [startGen, subscribe]
  have hn : (startGen sub g { w with next := w.next + 1 }).next = w.next + 1 := by
    cases sub <;> simp [startGen, subscribe]
  have hst : (startGen sub g { w with next := w.next + 1 }).started = w.started ++ [g] := by
    cases sub <;> simp [startGen, subscribe]
  have htab : (startGen sub g { w with next := w.next + 1 }).st = (subscribe sub g { w with next := w.next + 1 }).st := by
    simp [startGen]
  refine ⟨⟨?_, ?_, ?_, ?_⟩, hb, hs, hn, hst⟩
  · intro e q
    simp only [htab, hst]
    rw [mem_subscribe]
    simp only [Tables, List.mem_append, List.mem_singleton]
    rw [h.tables e q]
    constructor
    · rintro (⟨g', hg', hw⟩ | hw)
      · exact ⟨g', .inl hg', hw⟩
      · exact ⟨g, .inr rfl, hw⟩
    · rintro ⟨g', hg' | rfl, hw⟩
      · exact .inl ⟨g', hg', hw⟩
      · exact .inr hw
  · intro g' hg'
    simp only [hst, List.mem_append, List.mem_singleton] at hg'
    simp only [hn]
    rcases hg' with hg' | rfl
    · have := h.fresh g' hg'; omega
    · omega
  · simp only [hst, List.map_append, List.map_cons, List.map_nil]
    rw [List.nodup_append]
    refine ⟨h.nodup, by simp, ?_⟩
    intro a ha b hb'
    simp only [List.mem_singleton] at hb'
    obtain ⟨g', hg', rfl⟩ := List.mem_map.mp ha
    have := h.fresh g' hg'
    omega
  · intro i hi
    have hi' : 0 < refs w i := by
      simpa [refs] using hi
    obtain ⟨g', hg', hgi⟩ := h.live i hi'
    exact ⟨g', by simp [hst, hg'], hgi⟩

/-- references are all that `WInv.live` and `sweep` look at -/
theorem WInv_congr_refs {sub : Sub} {w w' : World} (h : WInv sub w) (hst : w'.st = w.st) (hs : w'.started = w.started)
    (hn : w'.next = w.next) (hlive : ∀ i, 0 < refs w' i → ∃ g ∈ w.started, g.id = i) : WInv sub w' :=
  ⟨by intro e q; rw [hst, hs]; exact h.tables e q, by rw [hs, hn]; exact h.fresh, by rw [hs]; exact h.nodup,
   by intro i hi; rw [hs]; exact hlive i hi⟩

/-- stopping one started, unreferenced, good generation -/
theorem stopGen_inv {cont : Bool} {sub : Sub} {w : World} (h : WInv sub w) {g : Gen} (hg : g ∈ w.started)
    (hgood : GoodGen cont sub g) (hunref : refs w g.id = 0) :
    WInv sub (stopGen cont sub g w) ∧ (stopGen cont sub g w).binds = w.binds ∧ (stopGen cont sub g w).slots = w.slots ∧
      (stopGen cont sub g w).started = w.started.filter (fun x => !(x.id == g.id)) := by
  have hb : (stopGen cont sub g w).binds = w.binds := by cases sub <;> simp [stopGen, unsubscribe]
  have hs : (stopGen cont sub g w).slots = w.slots := by cases sub <;> simp [stopGen, unsubscribe]
  have hn : (stopGen cont sub g w).next = w.next := by cases sub <;> simp [stopGen, unsubscribe]
  have hst : (stopGen cont sub g w).started = w.started.filter (fun x => !(x.id == g.id)) := by
    cases sub <;> simp [stopGen, unsubscribe]
  have htab : (stopGen cont sub g w).st = (unsubscribe cont sub g w).st := by simp [stopGen]
  have hrefs : ∀ i, refs (stopGen cont sub g w) i = refs w i := by
    intro i; simp [refs, hb, hs]
  refine ⟨⟨?_, ?_, ?_, ?_⟩, hb, hs, hst⟩
  · intro e q
    rw [htab, mem_unsubscribe cont sub g w hgood (fun x y hw => (h.tables x y).mpr ⟨g, hg, hw⟩), h.tables e q, hst]
    simp only [Tables, List.mem_filter, Bool.not_eq_eq_eq_not, Bool.not_true, beq_eq_false_iff_ne, ne_eq]
    constructor
    · rintro ⟨⟨g', hg', hw⟩, hnw⟩
      refine ⟨g', ⟨hg', ?_⟩, hw⟩
      intro hid
      -- same identifier and both started: the same generation
      have : g' = g := by
        exact nodup_map_inj h.nodup hg' hg hid
      exact hnw (this ▸ hw)
    · rintro ⟨g', ⟨hg', hne⟩, hw⟩
      refine ⟨⟨g', hg', hw⟩, ?_⟩
      intro hw'
      exact hne ((wants_id hw).symm.trans (wants_id hw'))
  · intro g' hg'
    rw [hst] at hg'
    rw [hn]
    exact h.fresh g' (List.mem_filter.mp hg').1
  · rw [hst]
    exact (h.nodup.sublist (List.Sublist.map _ List.filter_sublist))
  · intro i hi
    rw [hrefs] at hi
    obtain ⟨g', hg', hgi⟩ := h.live i hi
    refine ⟨g', ?_, hgi⟩
    rw [hst]
    simp only [List.mem_filter, Bool.not_eq_eq_eq_not, Bool.not_true, beq_eq_false_iff_ne, ne_eq]
    refine ⟨hg', ?_⟩
    intro hid
    rw [hgi] at hid
    rw [hid] at hi
    omega

/-- collecting a list of distinct, started, unreferenced generations -/
theorem sweep_fold_inv {cont : Bool} {sub : Sub} : ∀ (l : List Gen) (w : World), WInv sub w →
    (∀ g ∈ l, g ∈ w.started ∧ GoodGen cont sub g ∧ refs w g.id = 0) → (l.map (·.id)).Nodup →
    WInv sub (l.foldl (fun w g => stopGen cont sub g w) w) ∧
      (l.foldl (fun w g => stopGen cont sub g w) w).binds = w.binds ∧
      (l.foldl (fun w g => stopGen cont sub g w) w).slots = w.slots ∧
      (l.foldl (fun w g => stopGen cont sub g w) w).started =
        w.started.filter (fun x => !(l.map (·.id)).contains x.id) := by
  intro l
  induction l with
  | nil =>
    intro w h _ _
    refine ⟨h, rfl, rfl, ?_⟩
    exact (List.filter_eq_self.mpr (by simp)).symm
  | cons g l ih =>
    intro w h hl hnd
    simp only [List.map_cons, List.nodup_cons] at hnd
    simp only [List.foldl_cons]
    obtain ⟨hg, hgood, hun⟩ := hl g List.mem_cons_self
    obtain ⟨h1, hb1, hs1, hst1⟩ := stopGen_inv h hg hgood hun
    have hrefs : ∀ i, refs (stopGen cont sub g w) i = refs w i := by intro i; simp [refs, hb1, hs1]
    obtain ⟨h2, hb2, hs2, hst2⟩ := ih (stopGen cont sub g w) h1
      (by
        intro g' hg'
        obtain ⟨a, b, c⟩ := hl g' (List.mem_cons_of_mem _ hg')
        refine ⟨?_, b, by rw [hrefs]; exact c⟩
        rw [hst1]
        simp only [List.mem_filter, Bool.not_eq_eq_eq_not, Bool.not_true, beq_eq_false_iff_ne, ne_eq]
        refine ⟨a, ?_⟩
        intro hid
        exact hnd.1 (hid ▸ List.mem_map_of_mem (f := (·.id)) hg'))
      hnd.2
    refine ⟨h2, hb2.trans hb1, hs2.trans hs1, ?_⟩
    rw [hst2, hst1, List.filter_filter]
    apply List.filter_congr
    intro x _
    by_cases hx : x.id = g.id
    · simp [hx]
    · simp [hx]

/-- every generation defined so far is good (hypothesis of the `_partial` theorems; vacuous for `cont = true`) -/
def OpGood (cont : Bool) (sub : Sub) : Op → Prop
  | .define ctx _ states events mqtts hooks services su sd =>
    ∀ i, GoodGen cont sub (mkGen i ctx states events mqtts hooks services su sd)
  | _ => True

/-- `started` generations are good -/
def AllGood (cont : Bool) (sub : Sub) (w : World) : Prop := ∀ g ∈ w.started, GoodGen cont sub g

theorem sweep_inv {cont : Bool} {sub : Sub} {w : World} (h : WInv sub w) (hgood : AllGood cont sub w) :
    WInv sub (sweep cont sub w) ∧ AllGood cont sub (sweep cont sub w) ∧
      (sweep cont sub w).started = w.started.filter (fun g => !(refs w g.id == 0)) ∧
      (sweep cont sub w).binds = w.binds ∧ (sweep cont sub w).slots = w.slots := by
  unfold sweep
  obtain ⟨h1, hb, hs, hst⟩ := sweep_fold_inv (cont := cont) (w.started.filter (fun g => refs w g.id == 0)) w h
    (by
      intro g hg
      obtain ⟨a, b⟩ := List.mem_filter.mp hg
      exact ⟨a, hgood g a, by simpa using b⟩)
    (h.nodup.sublist (List.Sublist.map _ List.filter_sublist))
  have hst' : (List.foldl (fun w g => stopGen cont sub g w) w (w.started.filter (fun g => refs w g.id == 0))).started =
      w.started.filter (fun g => !(refs w g.id == 0)) := by
    rw [hst]
    apply List.filter_congr
    intro x hx
    have hmem : x.id ∈ (w.started.filter (fun g => refs w g.id == 0)).map (·.id) ↔ refs w x.id = 0 := by
      simp only [List.mem_map, List.mem_filter, beq_iff_eq]
      constructor
      · rintro ⟨y, ⟨_, hyr⟩, hid⟩; exact hid ▸ hyr
      · intro hr; exact ⟨x, ⟨hx, hr⟩, rfl⟩
    by_cases hr : refs w x.id = 0
    · simp [hmem, hr]
    · simp [hmem, hr]
  refine ⟨h1, ?_, hst', hb, hs⟩
  intro g hg
  rw [hst'] at hg
  exact hgood g (List.mem_filter.mp hg).1

/-! ## operations -/

theorem WInv_shrink {sub : Sub} {w w' : World} (h : WInv sub w) (hst : w'.st = w.st) (hs : w'.started = w.started)
    (hn : w'.next = w.next) (hrefs : ∀ i, 0 < refs w' i → 0 < refs w i) : WInv sub w' :=
  WInv_congr_refs h hst hs hn (fun i hi => h.live i (hrefs i hi))

theorem lookupBind_refs {w : World} {ctx name : String} {i : Nat} (h : lookupBind w ctx name = some i) : 0 < refs w i := by
  unfold lookupBind at h
  obtain ⟨b, hb, hbi⟩ := Option.map_eq_some_iff.mp h
  rw [refs_pos_iff]
  exact .inl ⟨b, List.mem_of_find?_eq_some hb, hbi⟩

theorem applyOp_inv {cont : Bool} {sub : Sub} {w : World} (h : WInv sub w) (hgood : AllGood cont sub w) (op : Op)
    (hop : OpGood cont sub op) : WInv sub (applyOp sub w op) ∧ AllGood cont sub (applyOp sub w op) := by
  cases op with
  | define ctx name states events mqtts hooks services su sd =>
    simp only [applyOp, setBind]
    generalize hg0 : mkGen w.next ctx states events mqtts hooks services su sd = g0
    have hid : (effective sub w g0).id = w.next := by
      rw [← hg0]; unfold effective inert mkGen; split <;> rfl
    obtain ⟨h1, hb, hs, hn, hst⟩ := startGen_inv (sub := sub) h (effective sub w g0) hid
    constructor
    · refine ⟨h1.tables, ?_, ?_, ?_⟩
      · exact h1.fresh
      · exact h1.nodup
      · intro i hi
        rw [refs_pos_iff] at hi
        simp only [hb, hs, List.mem_append, List.mem_filter, List.mem_singleton] at hi
        rcases hi with ⟨b, (⟨hb', _⟩ | rfl), hbi⟩ | ⟨s, hs', hsi⟩
        · obtain ⟨g', hg', hgi⟩ := h.live i ((refs_pos_iff w i).mpr (.inl ⟨b, hb', hbi⟩))
          exact ⟨g', by simp [hst, hg'], hgi⟩
        · exact ⟨effective sub w g0, by simp [hst], hbi⟩
        · obtain ⟨g', hg', hgi⟩ := h.live i ((refs_pos_iff w i).mpr (.inr ⟨s, hs', hsi⟩))
          exact ⟨g', by simp [hst, hg'], hgi⟩
    · intro g hg
      simp only [hst, List.mem_append, List.mem_singleton] at hg
      rcases hg with hg | rfl
      · exact hgood g hg
      · have hgood0 : GoodGen cont sub g0 := hg0 ▸ hop w.next
        unfold effective
        split
        · exact .inr (by simp [inert])
        · exact hgood0
  | del ctx name =>
    refine ⟨WInv_shrink h rfl rfl rfl ?_, hgood⟩
    intro i hi
    rw [refs_pos_iff] at hi ⊢
    simp only [applyOp, List.mem_filter] at hi
    rcases hi with ⟨b, ⟨hb, _⟩, hbi⟩ | hs
    · exact .inl ⟨b, hb, hbi⟩
    · exact .inr hs
  | rebind ctx dst src =>
    simp only [applyOp]
    cases hl : lookupBind w ctx src with
    | none => exact ⟨h, hgood⟩
    | some j =>
      refine ⟨WInv_shrink h rfl rfl rfl ?_, hgood⟩
      intro i hi
      rw [refs_pos_iff] at hi
      simp only [setBind, List.mem_append, List.mem_filter, List.mem_singleton] at hi
      rcases hi with ⟨b, (⟨hb, _⟩ | rfl), hbi⟩ | hs
      · exact (refs_pos_iff w i).mpr (.inl ⟨b, hb, hbi⟩)
      · simp only at hbi; subst hbi; exact lookupBind_refs hl
      · exact (refs_pos_iff w i).mpr (.inr hs)
  | put slot ctx name =>
    simp only [applyOp]
    cases hl : lookupBind w ctx name with
    | none => exact ⟨h, hgood⟩
    | some j =>
      refine ⟨WInv_shrink h rfl rfl rfl ?_, hgood⟩
      intro i hi
      rw [refs_pos_iff] at hi
      simp only [List.mem_append, List.mem_filter, List.mem_singleton] at hi
      rcases hi with hb | ⟨s, (⟨hs, _⟩ | rfl), hsi⟩
      · exact (refs_pos_iff w i).mpr (.inl hb)
      · exact (refs_pos_iff w i).mpr (.inr ⟨s, hs, hsi⟩)
      · simp only at hsi; subst hsi; exact lookupBind_refs hl
  | putIn slot ctx name owner =>
    simp only [applyOp]
    cases hl : lookupBind w ctx name with
    | none => exact ⟨h, hgood⟩
    | some j =>
      refine ⟨WInv_shrink h rfl rfl rfl ?_, hgood⟩
      intro i hi
      rw [refs_pos_iff] at hi
      simp only [List.mem_append, List.mem_filter, List.mem_singleton] at hi
      rcases hi with hb | ⟨s, (⟨hs, _⟩ | rfl), hsi⟩
      · exact (refs_pos_iff w i).mpr (.inl hb)
      · exact (refs_pos_iff w i).mpr (.inr ⟨s, hs, hsi⟩)
      · simp only at hsi; subst hsi; exact lookupBind_refs hl
  | drop slot =>
    refine ⟨WInv_shrink h rfl rfl rfl ?_, hgood⟩
    intro i hi
    rw [refs_pos_iff] at hi ⊢
    simp only [applyOp, List.mem_filter] at hi
    rcases hi with hb | ⟨s, ⟨hs, _⟩, hsi⟩
    · exact .inl hb
    · exact .inr ⟨s, hs, hsi⟩
  | unloadCtx ctx =>
    refine ⟨WInv_shrink h rfl rfl rfl ?_, hgood⟩
    intro i hi
    rw [refs_pos_iff] at hi ⊢
    simp only [applyOp, List.mem_filter] at hi
    rcases hi with ⟨b, ⟨hb, _⟩, hbi⟩ | ⟨s, ⟨hs, _⟩, hsi⟩
    · exact .inl ⟨b, hb, hbi⟩
    · exact .inr ⟨s, hs, hsi⟩
  | unloadAll =>
    refine ⟨WInv_shrink h rfl rfl rfl ?_, hgood⟩
    intro i hi
    rw [refs_pos_iff] at hi
    simp [applyOp] at hi

theorem refs_sweep {cont : Bool} {sub : Sub} {w : World} (h : WInv sub w) (hgood : AllGood cont sub w) (i : Nat) :
    refs (sweep cont sub w) i = refs w i := by
  obtain ⟨_, _, _, hb, hs⟩ := sweep_inv h hgood
  simp [refs, hb, hs]

/-- after each step: the invariant, and the started generations are exactly the referenced ones -/
structure StepInv (cont : Bool) (sub : Sub) (w : World) : Prop where
  inv : WInv sub w
  good : AllGood cont sub w
  active : ∀ g ∈ w.started, 0 < refs w g.id

theorem step_inv {cont : Bool} {sub : Sub} {w : World} (h : StepInv cont sub w) (op : Op) (hop : OpGood cont sub op) :
    StepInv cont sub (step cont sub w op) := by
  obtain ⟨h1, g1⟩ := applyOp_inv h.inv h.good op hop
  obtain ⟨h2, g2, hst, _, _⟩ := sweep_inv h1 g1
  refine ⟨h2, g2, ?_⟩
  intro g hg
  unfold step at hg ⊢
  rw [hst] at hg
  rw [refs_sweep h1 g1]
  have := (List.mem_filter.mp hg).2
  simp only [Bool.not_eq_eq_eq_not, Bool.not_true, beq_eq_false_iff_ne, ne_eq] at this
  omega

theorem emptyWorld_inv (cont : Bool) (sub : Sub) : StepInv cont sub emptyWorld := by
  refine ⟨⟨?_, ?_, ?_, ?_⟩, ?_, ?_⟩
  · intro e q; simp [emptyWorld, subsOf, Tables]
  · intro g hg; simp [emptyWorld] at hg
  · simp [emptyWorld]
  · intro i hi; simp [emptyWorld, refs] at hi
  · intro g hg; simp [emptyWorld] at hg
  · intro g hg; simp [emptyWorld] at hg

theorem run_inv (cont : Bool) (sub : Sub) : ∀ (ops : List Op) (w : World), StepInv cont sub w →
    (∀ op ∈ ops, OpGood cont sub op) → StepInv cont sub (ops.foldl (step cont sub) w) := by
  intro ops
  induction ops with
  | nil => intro w h _; exact h
  | cons op ops ih =>
    intro w h hops
    simp only [List.foldl_cons]
    exact ih _ (step_inv h op (hops op List.mem_cons_self)) (fun o ho => hops o (List.mem_cons_of_mem _ ho))

theorem opGood_of_cont (sub : Sub) (op : Op) : OpGood true sub op := by
  cases op <;> simp [OpGood, GoodGen]

/-- after `unloadAll` nothing is started and no entity has a subscriber (for good generations; all are, when `cont`) -/
theorem unload_baseline_aux (cont : Bool) (sub : Sub) (ops : List Op) (hgood : ∀ op ∈ ops, OpGood cont sub op) :
    (run cont sub (ops ++ [.unloadAll])).started = [] ∧ ∀ e, subsOf (run cont sub (ops ++ [.unloadAll])).st e = [] := by
  have h : StepInv cont sub (run cont sub (ops ++ [Op.unloadAll])) :=
    run_inv cont sub (ops ++ [Op.unloadAll]) emptyWorld (emptyWorld_inv cont sub)
    (by
      intro op hop
      rcases List.mem_append.mp hop with hop | hop
      · exact hgood op hop
      · simp only [List.mem_singleton] at hop; subst hop; trivial)
  have hstarted : (run cont sub (ops ++ [.unloadAll])).started = [] := by
    apply List.eq_nil_iff_forall_not_mem.mpr
    intro g hg
    have hact := h.active g hg
    have hpre : StepInv cont sub (run cont sub ops) := run_inv cont sub ops emptyWorld (emptyWorld_inv cont sub) hgood
    have hrun : run cont sub (ops ++ [.unloadAll]) = step cont sub (run cont sub ops) .unloadAll := by
      simp [run, List.foldl_append]
    rw [hrun] at hact
    obtain ⟨h1, g1⟩ := applyOp_inv hpre.inv hpre.good .unloadAll trivial
    unfold step at hact
    rw [refs_sweep h1 g1] at hact
    simp [applyOp, refs] at hact
  refine ⟨hstarted, ?_⟩
  intro e
  apply List.eq_nil_iff_forall_not_mem.mpr
  intro q hq
  obtain ⟨g, hg, _⟩ := (h.inv.tables e q).mp hq
  rw [hstarted] at hg
  simp at hg

end PsModel.C09
