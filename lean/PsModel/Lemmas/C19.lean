import PsModel.Model.C19
import PsModel.Spec.C19
/-! helper lemmas for C19 (core Lean only) -/
namespace PsModel.C19
open PsModel.Gen

theorem be_length (k n : Nat) : (be k n).length = k := by
  induction k with
  | zero => simp [be]
  | succ k ih => simp [be, ih]

theorem be_lt (k n : Nat) : ∀ b ∈ be k n, b < 256 := by
  induction k with
  | zero => simp [be]
  | succ k ih =>
    intro b hb
    simp only [be, List.mem_cons] at hb
    rcases hb with h | h
    · subst h; exact Nat.mod_lt _ (by decide)
    · exact ih b h

theorem unbe_cons (b : Nat) (bs : Bytes) : unbe (b :: bs) = b * 256 ^ bs.length + unbe bs := by
  have gen : ∀ (bs : Bytes) (a : Nat), bs.foldl (fun acc b => acc * 256 + b) a = a * 256 ^ bs.length + unbe bs := by
    intro bs
    induction bs with
    | nil => intro a; simp [unbe]
    | cons c cs ih =>
      intro a
      simp only [List.foldl_cons, List.length_cons, unbe]
      rw [ih (a * 256 + c), ih (0 * 256 + c)]
      simp only [Nat.zero_mul, Nat.zero_add, Nat.pow_succ]
      rw [Nat.add_mul, Nat.mul_assoc, Nat.mul_comm 256 (256 ^ cs.length)]
      omega
  simpa [unbe] using gen bs (0 * 256 + b)

theorem unbe_be (k n : Nat) : unbe (be k n) = n % 256 ^ k := by
  induction k with
  | zero => simp [be, unbe, Nat.mod_one]
  | succ k ih =>
    simp only [be]
    rw [unbe_cons, be_length, ih, Nat.pow_succ]
    have h256 : 0 < 256 ^ k := Nat.pow_pos (by decide)
    rw [Nat.mod_mul, Nat.mul_comm (256 ^ k) (n / 256 ^ k % 256)]
    omega

theorem unbe_be8 (n : Nat) (h : n < 2 ^ 64) : unbe (be 8 n) = n := by
  rw [unbe_be]; exact Nat.mod_eq_of_lt (by simpa using h)

theorem unbe_single (b : Nat) : unbe [b] = b := by simp [unbe]

/-! ### `read_bytes` returns exactly the next `n` bytes of the concatenated stream, however it is chunked -/

theorem readChunk_spec (k : Nat) (hk : 0 < k) : ∀ (cs : List Bytes),
    match readChunk k cs with
    | none => cs.flatten = []
    | some (d, cs') => d ≠ [] ∧ d.length ≤ k ∧ d ++ cs'.flatten = cs.flatten := by
  intro cs
  induction cs with
  | nil => simp [readChunk]
  | cons c cs ih =>
    unfold readChunk
    by_cases h0 : c.length = 0
    · have : c = [] := List.eq_nil_of_length_eq_zero h0
      simp only [h0, if_true]
      split
      · rename_i h; rw [h] at ih; simpa [this] using ih
      · rename_i d cs' h; rw [h] at ih; simpa [this] using ih
    · simp only [h0, if_false]
      by_cases hle : c.length ≤ k
      · simp only [hle, if_true]
        refine ⟨?_, ?_, by simp⟩
        · intro hc; simp [hc] at h0
        · first | exact hle | trivial
      · simp only [hle, if_false]
        refine ⟨?_, List.length_take_le k c, by simp [← List.append_assoc]⟩
        intro hc
        have : (c.take k).length = 0 := by rw [hc]; rfl
        rw [List.length_take] at this; omega

theorem readLoop_spec : ∀ (fuel n : Nat) (acc : Bytes) (cs : List Bytes),
    n ≤ acc.length + fuel →
    (n ≤ acc.length + cs.flatten.length →
      ∃ cs', readLoop fuel n acc cs = some (acc ++ cs.flatten.take (n - acc.length), cs')
             ∧ cs'.flatten = cs.flatten.drop (n - acc.length)
             ∧ (acc.length ≤ n ∨ True)) ∧
    (acc.length + cs.flatten.length < n → readLoop fuel n acc cs = none) := by
  intro fuel
  induction fuel with
  | zero =>
    intro n acc cs hf
    have hle : n ≤ acc.length := by omega
    constructor
    · intro _
      refine ⟨cs, ?_, ?_, Or.inr trivial⟩
      · unfold readLoop; simp [hle, Nat.sub_eq_zero_of_le hle]
      · simp [Nat.sub_eq_zero_of_le hle]
    · intro h; omega
  | succ f ih =>
    intro n acc cs hf
    by_cases hle : n ≤ acc.length
    · constructor
      · intro _
        refine ⟨cs, ?_, ?_, Or.inr trivial⟩
        · unfold readLoop; simp [hle, Nat.sub_eq_zero_of_le hle]
        · simp [Nat.sub_eq_zero_of_le hle]
      · intro h; omega
    · have hk : 0 < n - acc.length := by omega
      have hc := readChunk_spec (n - acc.length) hk cs
      unfold readLoop
      simp only [hle, if_false]
      split at hc
      · rename_i hnone
        rw [hnone]
        constructor
        · intro h; rw [hc] at h; simp at h; omega
        · intro _; rfl
      · rename_i d cs1 hsome
        rw [hsome]
        obtain ⟨hd, hdk, hcat⟩ := hc
        have hdpos : 0 < d.length := List.length_pos_iff.mpr hd
        have hlen : cs.flatten.length = d.length + cs1.flatten.length := by
          rw [← hcat, List.length_append]
        have ih' := ih n (acc ++ d) cs1 (by rw [List.length_append]; omega)
        constructor
        · intro hn
          have := ih'.1 (by rw [List.length_append]; omega)
          obtain ⟨cs', h1, h2, _⟩ := this
          refine ⟨cs', ?_, ?_, Or.inr trivial⟩
          · simp only at h1 ⊢
            rw [h1]
            congr 1; congr 1
            rw [← hcat]
            simp only [List.length_append, List.append_assoc]
            congr 1
            rw [List.take_append]
            have e1 : n - acc.length - d.length = n - (acc.length + d.length) := by omega
            rw [e1, List.take_of_length_le (by omega : d.length ≤ n - acc.length)]
          · rw [h2, ← hcat]
            simp only [List.length_append]
            rw [List.drop_append]
            have e1 : n - acc.length - d.length = n - (acc.length + d.length) := by omega
            rw [e1, List.drop_of_length_le (by omega : d.length ≤ n - acc.length)]
            simp
        · intro hn
          exact ih'.2 (by rw [List.length_append]; omega)

/-- `read_bytes(n)` on any chunking = take/drop on the concatenation -/
theorem readBytes_some (n : Nat) (cs : List Bytes) (h : n ≤ cs.flatten.length) :
    ∃ cs', readBytes n cs = some (cs.flatten.take n, cs') ∧ cs'.flatten = cs.flatten.drop n := by
  have := (readLoop_spec n n [] cs (by simp)).1 (by simpa using h)
  obtain ⟨cs', h1, h2, _⟩ := this
  exact ⟨cs', by simpa [readBytes] using h1, by simpa using h2⟩

theorem readBytes_none (n : Nat) (cs : List Bytes) (h : cs.flatten.length < n) : readBytes n cs = none := by
  have := (readLoop_spec n n [] cs (by simp)).2 (by simpa using h)
  simpa [readBytes] using this


/-- the chunked reader agrees with the flat reader -/
theorem readBytes_takeN (n : Nat) (cs : List Bytes) :
    (match readBytes n cs with
     | none => takeN n cs.flatten = none
     | some (d, cs') => takeN n cs.flatten = some (d, cs'.flatten)) := by
  by_cases h : n ≤ cs.flatten.length
  · obtain ⟨cs', h1, h2⟩ := readBytes_some n cs h
    rw [h1]; simp only [takeN, h, if_true, h2]
  · rw [readBytes_none n cs (by omega)]; simp only [takeN, h, if_false]

theorem recvLoop_flat : ∀ (fuel : Nat) (parts : List Bytes) (cs : List Bytes),
    flatRes (recvLoop fuel parts cs) = recvFlat fuel parts cs.flatten := by
  intro fuel
  induction fuel with
  | zero => intro parts cs; simp [recvLoop, recvFlat, flatRes]
  | succ f ih =>
    intro parts cs
    unfold recvLoop recvFlat
    have h1 := readBytes_takeN 1 cs
    split at h1
    · rename_i hn; rw [hn, h1]; simp [flatRes]
    · rename_i c cs1 hs
      rw [hs, h1]
      simp only
      by_cases hl : c.headD 0 / recvLongMask % 2 = 1
      · simp only [hl, if_true]
        have h2 := readBytes_takeN recvLongLenBytes cs1
        split at h2
        · rename_i hn; rw [hn, h2]; simp [flatRes]
        · rename_i lb cs2 hs2
          rw [hs2, h2]
          simp only
          have h3 := readBytes_takeN (unbe lb) cs2
          split at h3
          · rename_i hn; rw [hn, h3]; simp [flatRes]
          · rename_i body cs3 hs3
            rw [hs3, h3]
            simp only
            split
            · split
              · exact ih parts cs3
              · simp [flatRes]
            · split
              · simp [flatRes]
              · exact ih _ cs3
      · simp only [hl, if_false]
        have h2 := readBytes_takeN 1 cs1
        split at h2
        · rename_i hn; rw [hn, h2]; simp [flatRes]
        · rename_i lb cs2 hs2
          rw [hs2, h2]
          simp only
          have h3 := readBytes_takeN (unbe lb) cs2
          split at h3
          · rename_i hn; rw [hn, h3]; simp [flatRes]
          · rename_i body cs3 hs3
            rw [hs3, h3]
            simp only
            split
            · split
              · exact ih parts cs3
              · simp [flatRes]
            · split
              · simp [flatRes]
              · exact ih _ cs3


theorem takeN_append (a b : Bytes) (n : Nat) (h : n = a.length) : takeN n (a ++ b) = some (a, b) := by
  subst h; simp [takeN]

/-- decoding one frame written by `send_multipart` -/
theorem recvFlat_frame (fuel : Nat) (parts : List Bytes) (last : Bool) (p rest : Bytes)
    (hp : p.length < 2 ^ 64) :
    recvFlat (fuel + 1) parts (encFrame last p ++ rest) =
      if last then .ok (parts ++ [p], rest) else recvFlat fuel (parts ++ [p]) rest := by
  conv => lhs; unfold recvFlat
  unfold encFrame
  by_cases hs : p.length ≤ sendMultipartShortMax
  · simp only [hs, if_true]
    cases last
    · have e : [flagMore, p.length] ++ p ++ rest = [flagMore] ++ ([p.length] ++ (p ++ rest)) := by simp
      simp only [Bool.false_eq_true, if_false]
      rw [e, takeN_append _ _ 1 rfl]
      simp only [List.headD_cons, flagMore, recvLongMask, Nat.reduceDiv, Nat.zero_mod, Nat.zero_ne_one, if_false]
      rw [takeN_append _ _ 1 rfl]
      simp only [unbe_single]
      rw [takeN_append _ _ _ rfl]
      simp [recvCmdMask, recvLastFlags]
    · have e : [flagLast, p.length] ++ p ++ rest = [flagLast] ++ ([p.length] ++ (p ++ rest)) := by simp
      simp only [if_true]
      rw [e, takeN_append _ _ 1 rfl]
      simp only [List.headD_cons, flagLast, recvLongMask, Nat.reduceDiv, Nat.zero_mod, Nat.zero_ne_one, if_false]
      rw [takeN_append _ _ 1 rfl]
      simp only [unbe_single]
      rw [takeN_append _ _ _ rfl]
      simp [recvCmdMask, recvLastFlags]
  · simp only [hs, if_false]
    have hb : unbe (be sendLongLenBytes p.length) = p.length := by
      simpa [sendLongLenBytes] using unbe_be8 p.length hp
    cases last
    · have e : [flagMore + flagLongInc] ++ be sendLongLenBytes p.length ++ p ++ rest
          = [flagMore + flagLongInc] ++ (be sendLongLenBytes p.length ++ (p ++ rest)) := by simp
      simp only [Bool.false_eq_true, if_false]
      rw [e, takeN_append _ _ 1 rfl]
      simp only [List.headD_cons, flagMore, flagLongInc, recvLongMask, Nat.reduceAdd, Nat.reduceDiv, Nat.reduceMod, if_true]
      rw [takeN_append _ _ recvLongLenBytes (by simp [be_length, recvLongLenBytes, sendLongLenBytes])]
      simp only [hb]
      rw [takeN_append _ _ _ rfl]
      simp [recvCmdMask, recvLastFlags]
    · have e : [flagLast + flagLongInc] ++ be sendLongLenBytes p.length ++ p ++ rest
          = [flagLast + flagLongInc] ++ (be sendLongLenBytes p.length ++ (p ++ rest)) := by simp
      simp only [if_true]
      rw [e, takeN_append _ _ 1 rfl]
      simp only [List.headD_cons, flagLast, flagLongInc, recvLongMask, Nat.reduceAdd, Nat.reduceDiv, Nat.reduceMod, if_true]
      rw [takeN_append _ _ recvLongLenBytes (by simp [be_length, recvLongLenBytes, sendLongLenBytes])]
      simp only [hb]
      rw [takeN_append _ _ _ rfl]
      simp [recvCmdMask, recvLastFlags]

theorem recvFlat_multipart : ∀ (ps : List Bytes) (fuel : Nat) (parts : List Bytes) (rest : Bytes),
    ps ≠ [] → (∀ p ∈ ps, p.length < 2 ^ 64) → ps.length ≤ fuel →
    recvFlat fuel parts (encodeMultipart ps ++ rest) = .ok (parts ++ ps, rest) := by
  intro ps
  induction ps with
  | nil => intro _ _ _ h; exact absurd rfl h
  | cons p qs ih =>
    intro fuel parts rest _ hlen hf
    cases fuel with
    | zero => simp at hf
    | succ f =>
      cases qs with
      | nil =>
        simp only [encodeMultipart]
        rw [recvFlat_frame f parts true p rest (hlen p (by simp))]
        simp
      | cons q rs =>
        simp only [encodeMultipart, List.append_assoc]
        rw [recvFlat_frame f parts false p _ (hlen p (by simp))]
        simp only [Bool.false_eq_true, if_false]
        rw [ih f (parts ++ [p]) rest (by simp) (fun x hx => hlen x (by simp [hx])) (by simpa using hf)]
        simp

end PsModel.C19
