import PsModel.Model.C12
import PsModel.Spec.C12
import PsModel.Lemmas.C16
/-! helper lemmas for C12 (core Lean only): what `service_register` / `service_remove` do to the three dictionaries,
and the invariant that every life-cycle step of either subsystem preserves -/
namespace PsModel.C12
open PsModel.C16 (aget aset adel aget_aset aget_adel aget_aset_same aget_aset_other aget_adel_same aget_adel_other)

/-! ### the registry -/

/-- registered ⇔ counted ⇔ owned -/
def RegOK (r : Reg) : Prop :=
  ∀ k, ((aget k r.handler).isSome = decide (cntOf r k > 0)) ∧ ((aget k r.owner).isSome = decide (cntOf r k > 0))

theorem regOK_empty : RegOK {} := by
  intro k; simp [cntOf, aget]

theorem cntOf_ensure (c : List (Svc × Nat)) (k k' : Svc) :
    (aget k' (ensureCnt c k)).getD 0 = (aget k' c).getD 0 := by
  unfold ensureCnt
  cases h : aget k c
  · by_cases e : k' = k
    · subst e; simp [aget_aset_same, h]
    · simp [aget_aset_other _ _ _ _ e]
  · simp

/-- a successful `service_register`: the count goes up by one, the handler is replaced, the owner entry is `o` -/
theorem register_ok (r : Reg) (o : OwnerName) (k : Svc) (h : Handler) (ha : accepts r o k = true) :
    (register r o k h).2 = true ∧
    (∀ k', cntOf (register r o k h).1 k' = cntOf r k' + (if k' = k then 1 else 0)) ∧
    (∀ k', aget k' (register r o k h).1.handler = if k' = k then some h else aget k' r.handler) ∧
    (∀ k', aget k' (register r o k h).1.owner = if k' = k then some o else aget k' r.owner) ∧
    (register r o k h).1.underflow = r.underflow := by
  refine ⟨by simp [register, ha], fun k' => ?_, fun k' => ?_, fun k' => ?_, by simp [register, ha]⟩
  · simp only [register, ha, if_true, cntOf, aget_aset]
    by_cases e : k' = k
    · subst e; simp
    · simp [e, cntOf_ensure]
  · simp [register, ha, aget_aset]
  · simp only [register, ha, if_true, ensureOwner]
    cases hq : aget k r.owner
    · simp [aget_aset]
    · rename_i o'
      have : o' = o := by simpa [accepts, hq] using ha
      subst this
      by_cases e : k' = k
      · subst e; simp [hq]
      · simp [e]

/-- a refused `service_register` changes nothing that can be observed -/
theorem register_refused (r : Reg) (o : OwnerName) (k : Svc) (h : Handler) (ha : accepts r o k = false) :
    (register r o k h).2 = false ∧
    (∀ k', cntOf (register r o k h).1 k' = cntOf r k') ∧
    (register r o k h).1.handler = r.handler ∧ (register r o k h).1.owner = r.owner ∧
    (register r o k h).1.underflow = r.underflow := by
  simp only [register, ha, Bool.false_eq_true, if_false, true_and, and_true]
  intro k'
  simp [cntOf, cntOf_ensure]

theorem register_regOK (r : Reg) (o : OwnerName) (k : Svc) (h : Handler) (hr : RegOK r) :
    RegOK (register r o k h).1 := by
  by_cases ha : accepts r o k = true
  · obtain ⟨_, hc, hh, ho, _⟩ := register_ok r o k h ha
    intro k'
    rw [hc, hh, ho]
    by_cases e : k' = k
    · subst e; simp
    · simp [e, hr k']
  · have ha' : accepts r o k = false := by simpa using ha
    obtain ⟨_, hc, hh, ho, _⟩ := register_refused r o k h ha'
    intro k'
    rw [hc, hh, ho]; exact hr k'

/-- existing owner entries never change under `service_register` -/
theorem register_owner_mono (r : Reg) (o : OwnerName) (k : Svc) (h : Handler) (k' : Svc) (x : OwnerName)
    (hx : aget k' r.owner = some x) : aget k' (register r o k h).1.owner = some x := by
  by_cases ha : accepts r o k = true
  · obtain ⟨_, _, _, ho, _⟩ := register_ok r o k h ha
    rw [ho]
    by_cases e : k' = k
    · subst e
      have : x = o := by simpa [accepts, hx] using ha
      simp [this]
    · simp [e, hx]
  · have ha' : accepts r o k = false := by simpa using ha
    rw [(register_refused r o k h ha').2.2.2.1]; exact hx

theorem remove_gt (r : Reg) (k : Svc) (h : cntOf r k > 1) :
    remove r k = { r with cnt := aset k (cntOf r k - 1) r.cnt } := by simp [remove, h]

theorem remove_le (r : Reg) (k : Svc) (h : ¬ cntOf r k > 1) :
    remove r k = ⟨aset k 0 r.cnt, adel k r.owner, adel k r.handler, adel (lower k) r.ha, r.underflow || (cntOf r k == 0)⟩ := by
  simp [remove, h]

/-- `service_remove` on a counted key: the count goes down by one; at zero the handler and the owner entry go -/
theorem remove_spec (r : Reg) (k : Svc) (hr : RegOK r) (hpos : 1 ≤ cntOf r k) :
    RegOK (remove r k) ∧ (∀ k', cntOf (remove r k) k' = cntOf r k' - (if k' = k then 1 else 0)) ∧
    (remove r k).underflow = r.underflow ∧
    (∀ k', cntOf (remove r k) k' > 0 → aget k' (remove r k).owner = aget k' r.owner ∧
        aget k' (remove r k).handler = aget k' r.handler) := by
  by_cases h1 : cntOf r k > 1
  · rw [remove_gt r k h1]
    have hc : ∀ k', cntOf { r with cnt := aset k (cntOf r k - 1) r.cnt } k' = cntOf r k' - (if k' = k then 1 else 0) := by
      intro k'
      simp only [cntOf, aget_aset]
      by_cases e : k' = k
      · subst e; simp
      · simp [e]
    refine ⟨?_, hc, rfl, fun k' _ => ⟨rfl, rfl⟩⟩
    intro k'
    rw [hc]
    have := hr k'
    by_cases e : k' = k
    · subst e
      simp only [if_true]
      have h2 : cntOf r k' > 0 := by omega
      have h3 : cntOf r k' - 1 > 0 := by omega
      simpa [h2, h3] using this
    · simpa [e] using this
  · rw [remove_le r k h1]
    have h1' : cntOf r k = 1 := by omega
    have hc : ∀ k', cntOf (Reg.mk (aset k 0 r.cnt) (adel k r.owner) (adel k r.handler) (adel (lower k) r.ha)
        (r.underflow || (cntOf r k == 0))) k' = cntOf r k' - (if k' = k then 1 else 0) := by
      intro k'
      simp only [cntOf, aget_aset]
      by_cases e : k' = k
      · subst e; simp only [if_true, Option.getD_some]; simp only [cntOf] at h1'; omega
      · simp [e]
    refine ⟨?_, hc, by simp [h1'], ?_⟩
    · intro k'
      rw [hc]
      by_cases e : k' = k
      · subst e; simp [aget_adel_same, h1']
      · simpa [e, aget_adel_other _ _ _ e] using hr k'
    · intro k' hp
      rw [hc] at hp
      have e : k' ≠ k := by
        intro e; subst e; simp [h1'] at hp
      simp [aget_adel_other _ _ _ e]

/-- releasing a list of names that are all counted -/
theorem releaseList_spec (l : List Svc) : ∀ (r : Reg), RegOK r → (∀ k, l.count k ≤ cntOf r k) →
    RegOK (releaseList r l) ∧ (∀ k, cntOf (releaseList r l) k + l.count k = cntOf r k) ∧
    (releaseList r l).underflow = r.underflow ∧
    (∀ k, cntOf (releaseList r l) k > 0 → aget k (releaseList r l).owner = aget k r.owner ∧
        aget k (releaseList r l).handler = aget k r.handler) := by
  induction l with
  | nil => intro r hr _; exact ⟨hr, by simp [releaseList], rfl, fun _ _ => ⟨rfl, rfl⟩⟩
  | cons k ks ih =>
    intro r hr hle
    have hk : 1 ≤ cntOf r k := by have := hle k; simp at this; omega
    obtain ⟨h1, h2, h3, h4⟩ := remove_spec r k hr hk
    have hle' : ∀ k', ks.count k' ≤ cntOf (remove r k) k' := by
      intro k'
      rw [h2]
      have := hle k'
      by_cases e : k' = k
      · subst e; simp at this ⊢; omega
      · have e' : ¬ (k == k') = true := by simpa using (fun h => e h.symm)
        simp [List.count_cons, e, e'] at this ⊢; exact this
    obtain ⟨i1, i2, i3, i4⟩ := ih (remove r k) h1 hle'
    refine ⟨i1, ?_, by rw [releaseList, i3, h3], ?_⟩
    · intro k'
      have a := i2 k'
      have b := h2 k'
      have c := hle k'
      simp only [releaseList]
      by_cases e : k' = k
      · subst e; simp at b c ⊢; omega
      · have e' : ¬ (k == k') = true := by simpa using (fun h => e h.symm)
        simp [List.count_cons, e, e'] at b c ⊢; omega
    · intro k' hp
      simp only [releaseList] at hp ⊢
      obtain ⟨a1, a2⟩ := i4 k' hp
      have hp' : cntOf (remove r k) k' > 0 := by have := i2 k'; omega
      obtain ⟨b1, b2⟩ := h4 k' hp'
      exact ⟨a1.trans b1, a2.trans b2⟩

/-! ### holders -/

/-- how many registrations of `k` the live holders will give back -/
def trackedCount (hs : List Holder) (k : Svc) : Nat := (hs.map (fun h => h.tracked.count k)).sum

theorem trackedCount_nil (k : Svc) : trackedCount [] k = 0 := rfl
theorem trackedCount_cons (h : Holder) (hs : List Holder) (k : Svc) :
    trackedCount (h :: hs) k = h.tracked.count k + trackedCount hs k := by simp [trackedCount]
theorem trackedCount_append (a b : List Holder) (k : Svc) :
    trackedCount (a ++ b) k = trackedCount a k + trackedCount b k := by simp [trackedCount]

theorem trackedCount_pos (hs : List Holder) (h : Holder) (k : Svc) (hm : h ∈ hs) (hk : k ∈ h.tracked) :
    1 ≤ trackedCount hs k := by
  induction hs with
  | nil => simp at hm
  | cons x xs ih =>
    rw [trackedCount_cons]
    rcases List.mem_cons.mp hm with e | e
    · subst e
      have := List.count_pos_iff.mpr hk
      omega
    · have := ih e; omega

/-- the holder's bookkeeping accounts for every registration it makes: the started declarations are kept as a list
(new subsystem), or a name that is already tracked is not registered again (legacy since the repair of `trigger_init`) -/
def Exact (cfg : Cfg) : Prop := cfg.trackAsSet = false ∨ cfg.skipDup = true

/-- the invariant of the life-cycle machine (either subsystem) -/
structure Inv (cfg : Cfg) (st : MState) : Prop where
  regOK : RegOK st.reg
  cntGe : ∀ k, trackedCount st.holders k ≤ cntOf st.reg k
  cntEq : Exact cfg → ∀ k, trackedCount st.holders k = cntOf st.reg k
  owner : ∀ h ∈ st.holders, ∀ k ∈ h.tracked, aget k st.reg.owner = some h.owner
  noUnder : st.reg.underflow = false

theorem inv_init (cfg : Cfg) : Inv cfg {} :=
  ⟨regOK_empty, fun k => by simp [trackedCount, cntOf, aget], fun _ k => by simp [trackedCount, cntOf, aget],
   fun h hm => by simp at hm, rfl⟩

/-- does the death of the function variable release the holder? (a running holder always; a not-yet-started manager
since the repair of `on_func_var_deleted` – it has started nothing, `tracked = []`, in every admissible run) -/
def released (cfg : Cfg) (h : Holder) : Bool := h.status == .running || cfg.dropDelayed

theorem dropReg_eq (cfg : Cfg) (r : Reg) (h : Holder) :
    dropReg cfg r h = if released cfg h then releaseList r h.tracked else r := by
  unfold dropReg released
  cases h.status <;> cases cfg.dropDelayed <;> simp

theorem dropHolder_eq (cfg : Cfg) (h : Holder) :
    dropHolder cfg h = if released cfg h then none else some { h with bound := false } := by
  unfold dropHolder released
  cases h.status <;> cases cfg.dropDelayed <;> simp

/-- what dropping the bound holders of a variable does: exactly their registrations are given back -/
theorem unbind_spec (cfg : Cfg) (ctx var : String) : ∀ (hs : List Holder) (r : Reg), RegOK r → r.underflow = false →
    (∀ k, trackedCount hs k ≤ cntOf r k) →
    RegOK (unbindReg cfg r ctx var hs) ∧ (unbindReg cfg r ctx var hs).underflow = false ∧
    (∀ k, cntOf (unbindReg cfg r ctx var hs) k + trackedCount hs k = cntOf r k + trackedCount (unbindHolders cfg ctx var hs) k) ∧
    (∀ k, cntOf (unbindReg cfg r ctx var hs) k > 0 →
        aget k (unbindReg cfg r ctx var hs).owner = aget k r.owner ∧ aget k (unbindReg cfg r ctx var hs).handler = aget k r.handler) ∧
    (∀ h' ∈ unbindHolders cfg ctx var hs, ∃ h ∈ hs, h'.tracked = h.tracked ∧ h'.owner = h.owner ∧ h'.gen = h.gen) ∧
    (∀ k, trackedCount (unbindHolders cfg ctx var hs) k ≤ trackedCount hs k) := by
  intro hs
  induction hs with
  | nil =>
    intro r hr hu _
    exact ⟨hr, hu, by simp [unbindReg, unbindHolders], fun _ _ => ⟨rfl, rfl⟩, by simp [unbindHolders],
      by simp [unbindHolders]⟩
  | cons h hs ih =>
    intro r hr hu hle
    have hle1 : ∀ k, h.tracked.count k + trackedCount hs k ≤ cntOf r k := by
      intro k; have := hle k; rwa [trackedCount_cons] at this
    by_cases hv : isVar ctx var h = true
    · simp only [unbindReg, unbindHolders, hv, if_true]
      rw [dropReg_eq, dropHolder_eq]
      by_cases hst : released cfg h = true
      rotate_left
      · -- a delayed manager before the repair: it stays scheduled
        simp only [hst, Bool.false_eq_true, if_false, Option.toList_some, List.singleton_append]
        obtain ⟨a1, a2, a3, a4, a5, a6⟩ := ih r hr hu (fun k => by have := hle1 k; omega)
        refine ⟨a1, a2, fun k => ?_, a4, ?_, fun k => ?_⟩
        · have := a3 k
          rw [trackedCount_cons, trackedCount_cons]
          show _ + (h.tracked.count k + _) = _ + (h.tracked.count k + _)
          omega
        · intro h' hm
          rcases List.mem_cons.mp hm with e | e
          · exact ⟨h, by simp, by simp [e], by simp [e], by simp [e]⟩
          · obtain ⟨x, hx, hy⟩ := a5 h' e
            exact ⟨x, by simp [hx], hy⟩
        · have := a6 k
          rw [trackedCount_cons, trackedCount_cons]
          show h.tracked.count k + _ ≤ h.tracked.count k + _
          omega
      · -- stopped (or discarded): its registrations are removed
        simp only [hst, if_true, Option.toList_none, List.nil_append]
        obtain ⟨b1, b2, b3, b4⟩ := releaseList_spec h.tracked r hr (fun k => by have := hle1 k; omega)
        obtain ⟨a1, a2, a3, a4, a5, a6⟩ := ih (releaseList r h.tracked) b1 (by rw [b3, hu])
          (fun k => by have := hle1 k; have := b2 k; omega)
        refine ⟨a1, a2, fun k => ?_, fun k hp => ?_, ?_, fun k => ?_⟩
        · have := a3 k; have := b2 k; rw [trackedCount_cons]; omega
        · obtain ⟨c1, c2⟩ := a4 k hp
          have hp' : cntOf (releaseList r h.tracked) k > 0 := by have := a3 k; have := a6 k; omega
          obtain ⟨d1, d2⟩ := b4 k hp'
          exact ⟨c1.trans d1, c2.trans d2⟩
        · intro h' hm
          obtain ⟨x, hx, hy⟩ := a5 h' hm
          exact ⟨x, by simp [hx], hy⟩
        · have := a6 k; rw [trackedCount_cons]; omega
    · simp only [unbindReg, unbindHolders, hv, Bool.false_eq_true, if_false]
      obtain ⟨a1, a2, a3, a4, a5, a6⟩ := ih r hr hu (fun k => by have := hle1 k; omega)
      refine ⟨a1, a2, fun k => ?_, a4, ?_, fun k => ?_⟩
      · have := a3 k; rw [trackedCount_cons, trackedCount_cons]; omega
      · intro h' hm
        rcases List.mem_cons.mp hm with e | e
        · exact ⟨h, by simp, by simp [e], by simp [e], by simp [e]⟩
        · obtain ⟨x, hx, hy⟩ := a5 h' e
          exact ⟨x, by simp [hx], hy⟩
      · have := a6 k; rw [trackedCount_cons, trackedCount_cons]; omega

/-- unloading gives back exactly the registrations of the holders `GlobalContext.stop()` reaches (`p`) -/
theorem unload_spec (p : Holder → Bool) : ∀ (hs : List Holder) (r : Reg), RegOK r → r.underflow = false →
    (∀ k, trackedCount hs k ≤ cntOf r k) →
    RegOK (unloadReg p r hs) ∧ (unloadReg p r hs).underflow = false ∧
    (∀ k, cntOf (unloadReg p r hs) k + trackedCount hs k
        = cntOf r k + trackedCount (hs.filter (fun h => !p h)) k) ∧
    (∀ k, cntOf (unloadReg p r hs) k > 0 →
        aget k (unloadReg p r hs).owner = aget k r.owner ∧ aget k (unloadReg p r hs).handler = aget k r.handler) ∧
    (∀ k, trackedCount (hs.filter (fun h => !p h)) k ≤ trackedCount hs k) := by
  intro hs
  induction hs with
  | nil => intro r hr hu _; exact ⟨hr, hu, by simp [unloadReg], fun _ _ => ⟨rfl, rfl⟩, by simp⟩
  | cons h hs ih =>
    intro r hr hu hle
    have hle1 : ∀ k, h.tracked.count k + trackedCount hs k ≤ cntOf r k := by
      intro k; have := hle k; rwa [trackedCount_cons] at this
    by_cases hc : p h = true
    · simp only [unloadReg, hc, if_true, List.filter_cons, Bool.not_true, Bool.false_eq_true, if_false]
      obtain ⟨b1, b2, b3, b4⟩ := releaseList_spec h.tracked r hr (fun k => by have := hle1 k; omega)
      obtain ⟨a1, a2, a3, a4, a6⟩ := ih (releaseList r h.tracked) b1 (by rw [b3, hu])
        (fun k => by have := hle1 k; have := b2 k; omega)
      refine ⟨a1, a2, fun k => ?_, fun k hp => ?_, fun k => ?_⟩
      · have := a3 k; have := b2 k; rw [trackedCount_cons]; omega
      · obtain ⟨c1, c2⟩ := a4 k hp
        have hp' : cntOf (releaseList r h.tracked) k > 0 := by have := a3 k; have := a6 k; omega
        obtain ⟨d1, d2⟩ := b4 k hp'
        exact ⟨c1.trans d1, c2.trans d2⟩
      · have := a6 k; rw [trackedCount_cons]; omega
    · have hc' : p h = false := by simpa using hc
      simp only [unloadReg, hc', Bool.false_eq_true, if_false, List.filter_cons, Bool.not_false, if_true]
      obtain ⟨a1, a2, a3, a4, a6⟩ := ih r hr hu (fun k => by have := hle1 k; omega)
      refine ⟨a1, a2, fun k => ?_, a4, fun k => ?_⟩
      · have := a3 k; rw [trackedCount_cons, trackedCount_cons]; omega
      · have := a6 k; rw [trackedCount_cons, trackedCount_cons]; omega

theorem orphan_fields (ctx : String) (h : Holder) :
    (orphan ctx h).tracked = h.tracked ∧ (orphan ctx h).owner = h.owner ∧ (orphan ctx h).pending = h.pending := by
  unfold orphan; split <;> exact ⟨rfl, rfl, rfl⟩

theorem trackedCount_orphan (ctx : String) (hs : List Holder) (k : Svc) :
    trackedCount (hs.map (orphan ctx)) k = trackedCount hs k := by
  induction hs with
  | nil => rfl
  | cons h hs ih => rw [List.map_cons, trackedCount_cons, trackedCount_cons, ih, (orphan_fields ctx h).1]

/-- with the repair of C12-F11 an unload leaves exactly the holders of the other contexts, untouched -/
theorem unload_keeps (cfg : Cfg) (he : cfg.regEarly = true) (ctx : String) (hs : List Holder) :
    ∀ x ∈ (hs.filter (fun h => !leaves cfg ctx h)).map (orphan ctx), x ∈ hs := by
  intro x hx
  obtain ⟨y, hy, e⟩ := List.mem_map.mp hx
  obtain ⟨m, hl⟩ := List.mem_filter.mp hy
  have hc : (y.ctx == ctx) = false := by simpa [leaves, he] using hl
  have : orphan ctx y = y := by simp [orphan, hc]
  rw [← e, this]; exact m

theorem count_track (cfg : Cfg) (tr : List Svc) (d k : Svc) :
    (track cfg tr d).count k ≤ tr.count k + (if k = d then 1 else 0) ∧
    (cfg.trackAsSet = false → (track cfg tr d).count k = tr.count k + (if k = d then 1 else 0)) ∧
    (∀ x, x ∈ track cfg tr d → x ∈ tr ∨ x = d) := by
  unfold track
  by_cases h : (cfg.trackAsSet && tr.contains d) = true
  · simp only [h, if_true]
    refine ⟨by omega, fun hs => by simp [hs] at h, fun x hx => Or.inl hx⟩
  · simp only [h, Bool.false_eq_true, if_false, List.count_append]
    have hc : [d].count k = if k = d then 1 else 0 := by
      by_cases e : k = d
      · subst e; simp
      · have e' : ¬ (d == k) = true := by simpa using (fun h => e h.symm)
        simp [List.count_cons, e, e']
    rw [hc]
    refine ⟨by omega, fun _ => rfl, fun x hx => ?_⟩
    rcases List.mem_append.mp hx with h1 | h1
    · exact Or.inl h1
    · exact Or.inr (by simpa using h1)

theorem track_exact (cfg : Cfg) (tr : List Svc) (d k : Svc) (h : cfg.trackAsSet = false ∨ tr.contains d = false) :
    (track cfg tr d).count k = tr.count k + (if k = d then 1 else 0) := by
  unfold track
  have hc : (cfg.trackAsSet && tr.contains d) = false := by
    rcases h with h | h
    · rw [h]; rfl
    · rw [h]; exact Bool.and_false _
  simp only [hc, Bool.false_eq_true, if_false, List.count_append]
  by_cases e : k = d
  · subst e; simp
  · have e' : ¬ (d == k) = true := by simpa using (fun h => e h.symm)
    simp [List.count_cons, e, e']

/-- what starting the declarations of one definition does to the registry -/
theorem acquireAll_spec (cfg : Cfg) (o : OwnerName) (gen : Nat) : ∀ (decl : List (Svc × Resp)) (r : Reg) (tr : List Svc),
    RegOK r →
    RegOK (acquireAll cfg o gen r decl tr).reg ∧ (acquireAll cfg o gen r decl tr).reg.underflow = r.underflow ∧
    (∃ added : Svc → Nat,
      (∀ k, cntOf (acquireAll cfg o gen r decl tr).reg k = cntOf r k + added k) ∧
      (∀ k, (acquireAll cfg o gen r decl tr).tracked.count k ≤ tr.count k + added k) ∧
      (Exact cfg → ∀ k, (acquireAll cfg o gen r decl tr).tracked.count k = tr.count k + added k)) ∧
    (∀ k, k ∈ (acquireAll cfg o gen r decl tr).tracked → k ∈ tr ∨ aget k (acquireAll cfg o gen r decl tr).reg.owner = some o) ∧
    (∀ k x, aget k r.owner = some x → aget k (acquireAll cfg o gen r decl tr).reg.owner = some x) := by
  intro decl
  induction decl with
  | nil =>
    intro r tr hr
    exact ⟨hr, rfl, ⟨fun _ => 0, by simp [acquireAll], by simp [acquireAll], by simp [acquireAll]⟩,
      fun k hk => Or.inl hk, fun k x hx => hx⟩
  | cons d ds ih =>
    intro r tr hr
    have hr1 := register_regOK r o d.1 ⟨gen, d.2⟩ hr
    by_cases hsk : (cfg.skipDup && tr.contains d.1) = true
    · simp only [acquireAll, hsk, if_true]; exact ih r tr hr
    have hsk' : (cfg.skipDup && tr.contains d.1) = false := by simpa using hsk
    by_cases ha : accepts r o d.1 = true
    · obtain ⟨g1, g2, _, g4, g5⟩ := register_ok r o d.1 ⟨gen, d.2⟩ ha
      simp only [acquireAll, hsk', Bool.false_eq_true, if_false, g1, if_true]
      obtain ⟨i1, i2, ⟨added, i3, i4, i5⟩, i6, i7⟩ := ih (register r o d.1 ⟨gen, d.2⟩).1 (track cfg tr d.1) hr1
      obtain ⟨t1, t2, t3⟩ : (∀ k, (track cfg tr d.1).count k ≤ tr.count k + (if k = d.1 then 1 else 0)) ∧
          (Exact cfg → ∀ k, (track cfg tr d.1).count k = tr.count k + (if k = d.1 then 1 else 0)) ∧
          (∀ x, x ∈ track cfg tr d.1 → x ∈ tr ∨ x = d.1) :=
        ⟨fun k => (count_track cfg tr d.1 k).1,
         fun hs k => track_exact cfg tr d.1 k (by
           rcases hs with h | h
           · exact Or.inl h
           · right; simpa [h] using hsk'),
         (count_track cfg tr d.1 d.1).2.2⟩
      refine ⟨i1, by rw [i2, g5], ⟨fun k => added k + (if k = d.1 then 1 else 0), fun k => ?_, fun k => ?_, fun hs k => ?_⟩,
        fun k hk => ?_, fun k x hx => ?_⟩
      · rw [i3, g2]; dsimp only; omega
      · have := i4 k; have := t1 k; dsimp only; omega
      · have := i5 hs k; have := t2 hs k; dsimp only; omega
      · rcases i6 k hk with h1 | h1
        · rcases t3 k h1 with h2 | h2
          · exact Or.inl h2
          · subst h2
            exact Or.inr (i7 _ o (by rw [g4]; simp))
        · exact Or.inr h1
      · exact i7 k x (register_owner_mono r o d.1 ⟨gen, d.2⟩ k x hx)
    · have ha' : accepts r o d.1 = false := by simpa using ha
      obtain ⟨g1, g2, _, g4, g5⟩ := register_refused r o d.1 ⟨gen, d.2⟩ ha'
      simp only [acquireAll, hsk', g1, Bool.false_eq_true, if_false]
      refine ⟨hr1, g5, ⟨fun _ => 0, fun k => by simp [g2], fun k => by simp, fun _ k => by simp⟩,
        fun k hk => Or.inl hk, fun k x hx => by rw [g4]; exact hx⟩

/-! ### every life-cycle step preserves the invariant -/

theorem inv_delete (cfg : Cfg) (st : MState) (ctx var : String) (hi : Inv cfg st) :
    Inv cfg (step cfg st (.delete ctx var)) := by
  obtain ⟨a1, a2, a3, a4, a5, _⟩ := unbind_spec cfg ctx var st.holders st.reg hi.regOK hi.noUnder hi.cntGe
  have ge : ∀ k, trackedCount (unbindHolders cfg ctx var st.holders) k ≤ cntOf (unbindReg cfg st.reg ctx var st.holders) k := by
    intro k; have := a3 k; have := hi.cntGe k; omega
  simp only [step]
  refine ⟨a1, ge, fun hs k => ?_, ?_, a2⟩
  · have := a3 k; have := hi.cntEq hs k; dsimp only; omega
  · intro h' hm k hk
    dsimp only at hm ⊢
    obtain ⟨h, hh, e1, e2, _⟩ := a5 h' hm
    have hp : cntOf (unbindReg cfg st.reg ctx var st.holders) k > 0 := by
      have := trackedCount_pos _ h' k hm hk; have := ge k; omega
    rw [(a4 k hp).1, e2]
    exact hi.owner h hh k (by rw [← e1]; exact hk)

theorem inv_unload (cfg : Cfg) (st : MState) (ctx : String) (hi : Inv cfg st) :
    Inv cfg (step cfg st (.unload ctx)) := by
  obtain ⟨a1, a2, a3, a4, _⟩ := unload_spec (leaves cfg ctx) st.holders st.reg hi.regOK hi.noUnder hi.cntGe
  have ge : ∀ k, trackedCount ((st.holders.filter (fun h => !leaves cfg ctx h)).map (orphan ctx)) k
      ≤ cntOf (unloadReg (leaves cfg ctx) st.reg st.holders) k := by
    intro k; rw [trackedCount_orphan]; have := a3 k; have := hi.cntGe k; omega
  simp only [step]
  refine ⟨a1, ge, fun hs k => ?_, ?_, a2⟩
  · have := a3 k; have := hi.cntEq hs k; dsimp only; rw [trackedCount_orphan]; omega
  · intro h' hm k hk
    dsimp only at hm ⊢
    obtain ⟨y, hy, e⟩ := List.mem_map.mp hm
    have hh : y ∈ st.holders := (List.mem_filter.mp hy).1
    have hp : cntOf (unloadReg (leaves cfg ctx) st.reg st.holders) k > 0 := by
      have := trackedCount_pos _ h' k hm hk; have := ge k; omega
    rw [(a4 k hp).1, ← e, (orphan_fields ctx y).2.1]
    exact hi.owner y hh k (by rw [← (orphan_fields ctx y).1, e]; exact hk)

theorem inv_defineStep (cfg : Cfg) (st : MState) (ctx : String) (fn : Option String) (var : String) (gen : Nat)
    (decl : List (Svc × Resp)) (hi : Inv cfg st) : Inv cfg (defineStep cfg st ctx fn var gen decl) := by
  simp only [defineStep]
  by_cases hd : (cfg.delayTopLevel && fn.isNone) = true
  · -- file-level definition of the new subsystem: only scheduled
    simp only [hd, if_true]
    obtain ⟨a1, a2, a3, a4, a5, _⟩ := unbind_spec cfg ctx var st.holders st.reg hi.regOK hi.noUnder hi.cntGe
    have tc : ∀ k, trackedCount (unbindHolders cfg ctx var st.holders ++ [newHolder cfg ctx fn var gen decl]) k
        = trackedCount (unbindHolders cfg ctx var st.holders) k := by
      intro k; simp [trackedCount_append, trackedCount_cons, trackedCount_nil, newHolder]
    have ge : ∀ k, trackedCount (unbindHolders cfg ctx var st.holders) k ≤ cntOf (unbindReg cfg st.reg ctx var st.holders) k := by
      intro k; have := a3 k; have := hi.cntGe k; omega
    refine ⟨a1, fun k => by dsimp only; rw [tc]; exact ge k, fun hs k => ?_, ?_, a2⟩
    · dsimp only; rw [tc]; have := a3 k; have := hi.cntEq hs k; omega
    · intro h' hm k hk
      dsimp only at hm ⊢
      rcases List.mem_append.mp hm with hm | hm
      · obtain ⟨h, hh, e1, e2, _⟩ := a5 h' hm
        have hp : cntOf (unbindReg cfg st.reg ctx var st.holders) k > 0 := by
          have := trackedCount_pos _ h' k hm hk; have := ge k; omega
        rw [(a4 k hp).1, e2]
        exact hi.owner h hh k (by rw [← e1]; exact hk)
      · have : h' = newHolder cfg ctx fn var gen decl := by simpa using hm
        subst this; simp [newHolder] at hk
  · -- started at once: register the new definition, then drop the old function object
    simp only [hd, Bool.false_eq_true, if_false]
    obtain ⟨q1, q2, ⟨added, q3, q4, q5⟩, q6, q7⟩ :=
      acquireAll_spec cfg (ownerFor cfg ctx fn) gen decl st.reg [] hi.regOK
    generalize ha : acquireAll cfg (ownerFor cfg ctx fn) gen st.reg decl [] = a at q1 q2 q3 q4 q5 q6 q7
    by_cases hk : (a.ok || !cfg.rollback) = true
    · -- all accepted, or the legacy subsystem: the holder keeps what it got
      have e1 : startReg cfg a = a.reg := by simp [startReg, hk]
      have e2 : startHolder cfg (newHolder cfg ctx fn var gen decl) a
          = some { newHolder cfg ctx fn var gen decl with pending := [], tracked := a.tracked, status := .running, failed := !a.ok } := by
        simp [startHolder, hk]
      rw [e1, e2]
      have hu : a.reg.underflow = false := by rw [q2]; exact hi.noUnder
      have pre : ∀ k, trackedCount st.holders k ≤ cntOf a.reg k := by
        intro k; have := hi.cntGe k; rw [q3]; omega
      obtain ⟨a1, a2, a3, a4, a5, _⟩ := unbind_spec cfg ctx var st.holders a.reg q1 hu pre
      have tc : ∀ k, trackedCount (unbindHolders cfg ctx var st.holders ++ (some { newHolder cfg ctx fn var gen decl with
            pending := [], tracked := a.tracked, status := Status.running, failed := !a.ok }).toList) k
          = trackedCount (unbindHolders cfg ctx var st.holders) k + a.tracked.count k := by
        intro k; simp [trackedCount_append, trackedCount_cons, trackedCount_nil]
      have ge : ∀ k, trackedCount (unbindHolders cfg ctx var st.holders) k + a.tracked.count k
          ≤ cntOf (unbindReg cfg a.reg ctx var st.holders) k := by
        intro k; have := a3 k; have := hi.cntGe k; have := q3 k; have := q4 k; simp at this; omega
      refine ⟨a1, fun k => by dsimp only; rw [tc]; exact ge k, fun hs k => ?_, ?_, a2⟩
      · dsimp only; rw [tc]; have := a3 k; have := hi.cntEq hs k; have := q3 k; have := q5 hs k; simp at this; omega
      · intro h' hm k hk'
        dsimp only at hm ⊢
        have hp : cntOf (unbindReg cfg a.reg ctx var st.holders) k > 0 := by
          have h1 := trackedCount_pos _ h' k hm hk'; rw [tc] at h1; have := ge k; omega
        rw [(a4 k hp).1]
        rcases List.mem_append.mp hm with hm | hm
        · obtain ⟨h, hh, e1', e2', _⟩ := a5 h' hm
          rw [e2']
          exact q7 k _ (hi.owner h hh k (by rw [← e1']; exact hk'))
        · have : h' = { newHolder cfg ctx fn var gen decl with pending := [], tracked := a.tracked, status := .running, failed := !a.ok } := by
            simpa using hm
          subst this
          rcases q6 k hk' with h1 | h1
          · simp at h1
          · simpa [newHolder] using h1
    · -- a refusal in the new subsystem: the started decorators are stopped again, the manager is INVALID
      have hk' : (a.ok || !cfg.rollback) = false := by simpa using hk
      have e1 : startReg cfg a = releaseList a.reg a.tracked := by simp [startReg, hk']
      have e2 : startHolder cfg (newHolder cfg ctx fn var gen decl) a = none := by simp [startHolder, hk']
      rw [e1, e2]
      have hle : ∀ k, a.tracked.count k ≤ cntOf a.reg k := by
        intro k; have := q4 k; have := q3 k; simp at *; omega
      obtain ⟨b1, b2, b3, b4⟩ := releaseList_spec a.tracked a.reg q1 hle
      have hu : (releaseList a.reg a.tracked).underflow = false := by rw [b3, q2]; exact hi.noUnder
      have pre : ∀ k, trackedCount st.holders k ≤ cntOf (releaseList a.reg a.tracked) k := by
        intro k; have := hi.cntGe k; have := b2 k; have := q3 k; have := q4 k; simp at *; omega
      obtain ⟨a1, a2, a3, a4, a5, _⟩ := unbind_spec cfg ctx var st.holders _ b1 hu pre
      have ge : ∀ k, trackedCount (unbindHolders cfg ctx var st.holders) k
          ≤ cntOf (unbindReg cfg (releaseList a.reg a.tracked) ctx var st.holders) k := by
        intro k; have := a3 k; have := pre k; omega
      simp only [Option.toList_none, List.append_nil]
      refine ⟨a1, ge, fun hs k => ?_, ?_, a2⟩
      · dsimp only; have := a3 k; have := hi.cntEq hs k; have := b2 k; have := q3 k; have := q5 hs k; simp at *; omega
      · intro h' hm k hk''
        dsimp only at hm ⊢
        obtain ⟨h, hh, e1', e2', _⟩ := a5 h' hm
        have hp : cntOf (unbindReg cfg (releaseList a.reg a.tracked) ctx var st.holders) k > 0 := by
          have := trackedCount_pos _ h' k hm hk''; have := ge k; omega
        have hp2 : cntOf (releaseList a.reg a.tracked) k > 0 := by
          have := trackedCount_pos _ h k hh (by rw [← e1']; exact hk''); have := pre k; omega
        rw [(a4 k hp).1, (b4 k hp2).1, e2']
        exact q7 k _ (hi.owner h hh k (by rw [← e1']; exact hk''))

theorem eventStep_decomp (cfg : Cfg) (r : Reg) (ctx : String) (g : Nat) : ∀ hs : List Holder,
    (hs.any (isDelayed ctx g) = false ∧ eventStepReg cfg r ctx g hs = r ∧ eventStepHolders cfg r ctx g hs = hs) ∨
    (∃ pre h post, hs = pre ++ h :: post ∧ isDelayed ctx g h = true ∧
      eventStepReg cfg r ctx g hs = eventReg cfg r h ∧
      eventStepHolders cfg r ctx g hs = pre ++ (eventHolder cfg r h).toList ++ post) := by
  intro hs
  induction hs with
  | nil => left; simp [eventStepReg, eventStepHolders]
  | cons h hs ih =>
    by_cases hd : isDelayed ctx g h = true
    · right
      exact ⟨[], h, hs, rfl, hd, by simp [eventStepReg, hd], by simp [eventStepHolders, hd]⟩
    · have hd' : isDelayed ctx g h = false := by simpa using hd
      rcases ih with ⟨a, b, c⟩ | ⟨pre, x, post, e, hx, b, c⟩
      · left
        exact ⟨by simp [hd', a], by simp [eventStepReg, hd', b], by simp [eventStepHolders, hd', c]⟩
      · right
        exact ⟨h :: pre, x, post, by simp [e], hx, by simp [eventStepReg, hd', b], by simp [eventStepHolders, hd', c]⟩

/-- the holder after one more of its declarations was started -/
def advanced (cfg : Cfg) (h : Holder) (d : Svc) (ds : List (Svc × Resp)) : Holder :=
  { h with pending := ds, tracked := track cfg h.tracked d, status := if ds.isEmpty then .running else .delayed }

/-- the holder after a declaration was consumed without a registration (name tracked already) -/
def skipped (h : Holder) (ds : List (Svc × Resp)) : Holder :=
  { h with pending := ds, status := if ds.isEmpty then .running else .delayed }

theorem inv_event (cfg : Cfg) (st : MState) (ctx : String) (g : Nat) (i : Bool) (hi : Inv cfg st) :
    Inv cfg { reg := eventStepReg cfg st.reg ctx g st.holders, holders := eventStepHolders cfg st.reg ctx g st.holders,
              inadm := i } := by
  rcases eventStep_decomp cfg st.reg ctx g st.holders with ⟨_, b, c⟩ | ⟨pre, h, post, e, hx, b, c⟩
  · rw [b, c]; exact ⟨hi.regOK, hi.cntGe, hi.cntEq, hi.owner, hi.noUnder⟩
  · rw [b, c]
    have tcs : ∀ k, trackedCount st.holders k = trackedCount pre k + (h.tracked.count k + trackedCount post k) := by
      intro k; rw [e, trackedCount_append, trackedCount_cons]
    have mem_pre : ∀ x ∈ pre, x ∈ st.holders := fun x hx => by rw [e]; simp [hx]
    have mem_post : ∀ x ∈ post, x ∈ st.holders := fun x hx => by rw [e]; simp [hx]
    have mem_h : h ∈ st.holders := by rw [e]; simp
    cases hp : h.pending with
    | nil =>
      simp only [eventReg, eventHolder, hp, Option.toList_some]
      have : pre ++ [h] ++ post = st.holders := by rw [e]; simp
      rw [this]
      exact ⟨hi.regOK, hi.cntGe, hi.cntEq, hi.owner, hi.noUnder⟩
    | cons d ds =>
      by_cases hsk : (cfg.skipDup && h.tracked.contains d.1) = true
      · -- the name is tracked already: nothing is registered, the declaration is just consumed
        have eh : eventHolder cfg st.reg h = some (skipped h ds) := by
          simp only [eventHolder, hp, hsk, if_true, skipped]
        have er : eventReg cfg st.reg h = st.reg := by simp only [eventReg, hp, hsk, if_true]
        rw [eh, er]
        have tc' : ∀ k, trackedCount (pre ++ (some (skipped h ds)).toList ++ post) k = trackedCount st.holders k := by
          intro k; rw [tcs]; simp [trackedCount_append, trackedCount_cons, trackedCount_nil, skipped]
        refine ⟨hi.regOK, fun k => by dsimp only; rw [tc']; exact hi.cntGe k,
          fun hs k => by dsimp only; rw [tc']; exact hi.cntEq hs k, ?_, hi.noUnder⟩
        intro x hm k hk
        dsimp only at hm ⊢
        rcases List.mem_append.mp hm with hm | hm
        · rcases List.mem_append.mp hm with hm | hm
          · exact hi.owner x (mem_pre x hm) k hk
          · have : x = skipped h ds := by simpa using hm
            subst this
            exact hi.owner h mem_h k hk
        · exact hi.owner x (mem_post x hm) k hk
      have hsk' : (cfg.skipDup && h.tracked.contains d.1) = false := by simpa using hsk
      by_cases ha : accepts st.reg h.owner d.1 = true
      · obtain ⟨g1, g2, _, g4, g5⟩ := register_ok st.reg h.owner d.1 ⟨h.gen, d.2⟩ ha
        have eh : eventHolder cfg st.reg h = some (advanced cfg h d.1 ds) := by
          simp only [eventHolder, hp, hsk', Bool.false_eq_true, if_false, g1, if_true, advanced]
        have er : eventReg cfg st.reg h = (register st.reg h.owner d.1 ⟨h.gen, d.2⟩).1 := by
          simp only [eventReg, hp, hsk', Bool.false_eq_true, if_false, g1, if_true]
        rw [eh, er]
        have t1 : ∀ k, (track cfg h.tracked d.1).count k ≤ h.tracked.count k + (if k = d.1 then 1 else 0) :=
          fun k => (count_track cfg h.tracked d.1 k).1
        have t2 : Exact cfg → ∀ k, (track cfg h.tracked d.1).count k = h.tracked.count k + (if k = d.1 then 1 else 0) :=
          fun hs k => track_exact cfg h.tracked d.1 k (by
            rcases hs with h' | h'
            · exact Or.inl h'
            · right; simpa [h'] using hsk')
        have t3 : ∀ x, x ∈ track cfg h.tracked d.1 → x ∈ h.tracked ∨ x = d.1 := (count_track cfg h.tracked d.1 d.1).2.2
        have tc' : ∀ k, trackedCount (pre ++ (some (advanced cfg h d.1 ds)).toList ++ post) k
            = trackedCount pre k + ((track cfg h.tracked d.1).count k + trackedCount post k) := by
          intro k; simp [trackedCount_append, trackedCount_cons, trackedCount_nil, advanced]
        refine ⟨register_regOK _ _ _ _ hi.regOK, fun k => ?_, fun hs k => ?_, ?_, by rw [g5]; exact hi.noUnder⟩
        · dsimp only; rw [tc', g2]; have := hi.cntGe k; have := tcs k; have := t1 k; omega
        · dsimp only; rw [tc', g2]; have := hi.cntEq hs k; have := tcs k; have := t2 hs k; omega
        · intro x hm k hk
          dsimp only at hm ⊢
          rcases List.mem_append.mp hm with hm | hm
          · rcases List.mem_append.mp hm with hm | hm
            · exact register_owner_mono _ _ _ _ k _ (hi.owner x (mem_pre x hm) k hk)
            · have : x = advanced cfg h d.1 ds := by simpa using hm
              subst this
              rcases t3 k hk with h1 | h1
              · exact register_owner_mono _ _ _ _ k _ (hi.owner h mem_h k h1)
              · subst h1; rw [g4]; simp [advanced]
          · exact register_owner_mono _ _ _ _ k _ (hi.owner x (mem_post x hm) k hk)
      · have ha' : accepts st.reg h.owner d.1 = false := by simpa using ha
        obtain ⟨g1, g2, g3, g4, g5⟩ := register_refused st.reg h.owner d.1 ⟨h.gen, d.2⟩ ha'
        have eh : eventHolder cfg st.reg h = none := by
          simp only [eventHolder, hp, hsk', g1, Bool.false_eq_true, if_false]
        have er : eventReg cfg st.reg h = releaseList (register st.reg h.owner d.1 ⟨h.gen, d.2⟩).1 h.tracked := by
          simp only [eventReg, hp, hsk', g1, Bool.false_eq_true, if_false]
        rw [eh, er]
        simp only [Option.toList_none, List.append_nil]
        have hr1 := register_regOK st.reg h.owner d.1 ⟨h.gen, d.2⟩ hi.regOK
        have hle : ∀ k, h.tracked.count k ≤ cntOf (register st.reg h.owner d.1 ⟨h.gen, d.2⟩).1 k := by
          intro k; rw [g2]; have := hi.cntGe k; have := tcs k; omega
        obtain ⟨b1, b2, b3, b4⟩ := releaseList_spec h.tracked _ hr1 hle
        have ge : ∀ k, trackedCount (pre ++ post) k
            ≤ cntOf (releaseList (register st.reg h.owner d.1 ⟨h.gen, d.2⟩).1 h.tracked) k := by
          intro k; rw [trackedCount_append]; have := b2 k; have := g2 k; have := hi.cntGe k; have := tcs k; omega
        refine ⟨b1, ge, fun hs k => ?_, ?_, by rw [b3, g5]; exact hi.noUnder⟩
        · dsimp only; rw [trackedCount_append]
          have := b2 k; have := g2 k; have := hi.cntEq hs k; have := tcs k; omega
        · intro x hm k hk
          dsimp only at hm ⊢
          have hp' : cntOf (releaseList (register st.reg h.owner d.1 ⟨h.gen, d.2⟩).1 h.tracked) k > 0 := by
            have := trackedCount_pos _ x k hm hk; have := ge k; omega
          rw [(b4 k hp').1, g4]
          rcases List.mem_append.mp hm with hm | hm
          · exact hi.owner x (mem_pre x hm) k hk
          · exact hi.owner x (mem_post x hm) k hk

theorem inv_startEvents (cfg : Cfg) (ctx : String) : ∀ (gs : List Nat) (st : MState), Inv cfg st →
    Inv cfg (startEvents cfg ctx st gs) := by
  intro gs
  induction gs with
  | nil => intro st hi; exact hi
  | cons g gs ih => intro st hi; simp only [startEvents]; exact ih _ (inv_event cfg st ctx g _ hi)

theorem inv_step (cfg : Cfg) (st : MState) (op : Op) (hi : Inv cfg st) : Inv cfg (step cfg st op) := by
  cases op with
  | define ctx fn var gen decl => exact inv_defineStep cfg st ctx fn var gen (foldDecl cfg decl) hi
  | start ctx events =>
    simp only [step]
    by_cases h : cfg.delayTopLevel = true
    · simp only [h, if_true, startDone]
      have := inv_startEvents cfg ctx events st hi
      exact ⟨this.regOK, this.cntGe, this.cntEq, this.owner, this.noUnder⟩
    · simp only [h, Bool.false_eq_true, if_false]; exact hi
  | delete ctx var => exact inv_delete cfg st ctx var hi
  | unload ctx => exact inv_unload cfg st ctx hi

theorem inv_run (cfg : Cfg) : ∀ (ops : List Op) (st : MState), Inv cfg st → Inv cfg (run cfg st ops) := by
  intro ops
  induction ops with
  | nil => intro st hi; exact hi
  | cons op ops ih => intro st hi; simp only [run]; exact ih _ (inv_step cfg st op hi)

/-! ### exact counting for set tracking when no function names a service twice -/

theorem mem_track (cfg : Cfg) (tr : List Svc) (d x : Svc) : x ∈ track cfg tr d ↔ x ∈ tr ∨ x = d := by
  unfold track
  split
  · rename_i h
    have hd : d ∈ tr := by
      have : tr.contains d = true := by
        revert h; cases cfg.trackAsSet <;> simp
      simpa using this
    constructor
    · intro hx; exact Or.inl hx
    · rintro (hx | hx)
      · exact hx
      · subst hx; exact hd
  · simp



theorem count_track_new (cfg : Cfg) (tr : List Svc) (d k : Svc) (hd : d ∉ tr) :
    (track cfg tr d).count k = tr.count k + (if k = d then 1 else 0) := by
  unfold track
  have hc : tr.contains d = false := by simpa using hd
  simp only [hc, Bool.and_false, Bool.false_eq_true, if_false, List.count_append]
  by_cases e : k = d
  · subst e; simp
  · have e' : ¬ (d == k) = true := by simpa using (fun h => e h.symm)
    simp [List.count_cons, e, e']

/-- with distinct names (none tracked yet) the tracked names account for every successful registration -/
theorem acquireAll_exact (cfg : Cfg) (o : OwnerName) (gen : Nat) : ∀ (decl : List (Svc × Resp)) (r : Reg) (tr : List Svc),
    (decl.map (·.1)).Nodup → (∀ x ∈ decl.map (·.1), x ∉ tr) →
    ∀ k, cntOf (acquireAll cfg o gen r decl tr).reg k + tr.count k
          = cntOf r k + (acquireAll cfg o gen r decl tr).tracked.count k := by
  intro decl
  induction decl with
  | nil => intro r tr _ _ k; simp [acquireAll]
  | cons d ds ih =>
    intro r tr hn hdis k
    simp only [List.map_cons, List.nodup_cons] at hn
    have hd : d.1 ∉ tr := hdis d.1 (by simp)
    have hsk' : (cfg.skipDup && tr.contains d.1) = false := by
      have : tr.contains d.1 = false := by simpa using hd
      rw [this]; exact Bool.and_false _
    by_cases ha : accepts r o d.1 = true
    · obtain ⟨g1, g2, _, _, _⟩ := register_ok r o d.1 ⟨gen, d.2⟩ ha
      simp only [acquireAll, hsk', Bool.false_eq_true, if_false, g1, if_true]
      have hdis' : ∀ x ∈ ds.map (·.1), x ∉ track cfg tr d.1 := by
        intro x hx hm
        rcases (mem_track cfg tr d.1 x).mp hm with h1 | h1
        · exact hdis x (by simp [hx]) h1
        · subst h1; exact hn.1 hx
      have := ih (register r o d.1 ⟨gen, d.2⟩).1 (track cfg tr d.1) hn.2 hdis' k
      rw [count_track_new cfg tr d.1 k hd, g2] at this
      omega
    · have ha' : accepts r o d.1 = false := by simpa using ha
      obtain ⟨g1, g2, _, _, _⟩ := register_refused r o d.1 ⟨gen, d.2⟩ ha'
      simp only [acquireAll, hsk', g1, Bool.false_eq_true, if_false]
      rw [g2]

/-- when definitions are started at once and no definition names a service twice, the count stays exact -/
theorem eq_step (cfg : Cfg) (hd : cfg.delayTopLevel = false) (st : MState) (op : Op) (hi : Inv cfg st)
    (he : ∀ k, trackedCount st.holders k = cntOf st.reg k)
    (hn : ∀ ctx fn var gen decl, op = .define ctx fn var gen decl → ((foldDecl cfg decl).map (·.1)).Nodup) :
    ∀ k, trackedCount (step cfg st op).holders k = cntOf (step cfg st op).reg k := by
  cases op with
  | start ctx events => simp only [step, hd, Bool.false_eq_true, if_false]; exact he
  | delete ctx var =>
    obtain ⟨_, _, a3, _, _, _⟩ := unbind_spec cfg ctx var st.holders st.reg hi.regOK hi.noUnder hi.cntGe
    intro k; have := a3 k; have := he k; simp only [step]; omega
  | unload ctx =>
    obtain ⟨_, _, a3, _, _⟩ := unload_spec (leaves cfg ctx) st.holders st.reg hi.regOK hi.noUnder hi.cntGe
    intro k; have := a3 k; have := he k; simp only [step]; rw [trackedCount_orphan]; omega
  | define ctx fn var gen decl0 =>
    have hnd := hn ctx fn var gen decl0 rfl
    simp only [step]
    generalize foldDecl cfg decl0 = decl at hnd ⊢
    simp only [defineStep, hd, Bool.false_and, Bool.false_eq_true, if_false]
    obtain ⟨q1, q2, ⟨added, q3, q4, _⟩, _, _⟩ := acquireAll_spec cfg (ownerFor cfg ctx fn) gen decl st.reg [] hi.regOK
    have qe := acquireAll_exact cfg (ownerFor cfg ctx fn) gen decl st.reg [] hnd (by simp)
    generalize acquireAll cfg (ownerFor cfg ctx fn) gen st.reg decl [] = a at q1 q2 q3 q4 qe
    by_cases hk : (a.ok || !cfg.rollback) = true
    · have e1 : startReg cfg a = a.reg := by simp [startReg, hk]
      have e2 : startHolder cfg (newHolder cfg ctx fn var gen decl) a
          = some { newHolder cfg ctx fn var gen decl with pending := [], tracked := a.tracked, status := .running, failed := !a.ok } := by
        simp [startHolder, hk]
      rw [e1, e2]
      have hu : a.reg.underflow = false := by rw [q2]; exact hi.noUnder
      have pre : ∀ k, trackedCount st.holders k ≤ cntOf a.reg k := by
        intro k; have := hi.cntGe k; rw [q3]; omega
      obtain ⟨_, _, a3, _, _, _⟩ := unbind_spec cfg ctx var st.holders a.reg q1 hu pre
      intro k
      have := a3 k; have := he k; have h4 := qe k
      simp only [List.count_nil, Nat.add_zero] at h4
      simp [trackedCount_append, trackedCount_cons, trackedCount_nil]
      omega
    · have hk' : (a.ok || !cfg.rollback) = false := by simpa using hk
      have e1 : startReg cfg a = releaseList a.reg a.tracked := by simp [startReg, hk']
      have e2 : startHolder cfg (newHolder cfg ctx fn var gen decl) a = none := by simp [startHolder, hk']
      rw [e1, e2]
      have hle : ∀ k, a.tracked.count k ≤ cntOf a.reg k := by
        intro k; have := q4 k; have := q3 k; simp at *; omega
      obtain ⟨b1, b2, b3, _⟩ := releaseList_spec a.tracked a.reg q1 hle
      have hu : (releaseList a.reg a.tracked).underflow = false := by rw [b3, q2]; exact hi.noUnder
      have pre : ∀ k, trackedCount st.holders k ≤ cntOf (releaseList a.reg a.tracked) k := by
        intro k; have := hi.cntGe k; have := b2 k; have := q3 k; have := q4 k; simp at *; omega
      obtain ⟨_, _, a3, _, _, _⟩ := unbind_spec cfg ctx var st.holders _ b1 hu pre
      intro k
      have := a3 k; have := he k; have h4 := qe k; have := b2 k
      simp only [List.count_nil, Nat.add_zero] at h4
      simp only [Option.toList_none, List.append_nil]
      omega

/-! ### the handler after a definition -/

/-- when every declaration is accepted, each declared name is tracked, and every tracked name is handled by this
definition with a `supports_response` it declared (`D` is the whole declaration list of the definition) -/
theorem acquireAll_ok (cfg : Cfg) (o : OwnerName) (gen : Nat) (D : List (Svc × Resp)) :
    ∀ (decl : List (Svc × Resp)) (r : Reg) (tr : List Svc), (∀ d ∈ decl, d ∈ D) →
    (∀ x ∈ tr, ∃ rs, (x, rs) ∈ D ∧ aget x r.handler = some ⟨gen, rs⟩) →
    (acquireAll cfg o gen r decl tr).ok = true →
    (∀ x ∈ (acquireAll cfg o gen r decl tr).tracked,
      ∃ rs, (x, rs) ∈ D ∧ aget x (acquireAll cfg o gen r decl tr).reg.handler = some ⟨gen, rs⟩) ∧
    (∀ k ∈ decl.map (·.1), k ∈ (acquireAll cfg o gen r decl tr).tracked) ∧
    (∀ x ∈ tr, x ∈ (acquireAll cfg o gen r decl tr).tracked) := by
  intro decl
  induction decl with
  | nil => intro r tr _ hinv _; exact ⟨hinv, fun k hk => by simp at hk, fun x hx => hx⟩
  | cons d ds ih =>
    intro r tr hD hinv hok
    have hD' : ∀ x ∈ ds, x ∈ D := fun x hx => hD x (by simp [hx])
    by_cases hsk : (cfg.skipDup && tr.contains d.1) = true
    · simp only [acquireAll, hsk, if_true] at hok ⊢
      obtain ⟨i1, i2, i3⟩ := ih r tr hD' hinv hok
      refine ⟨i1, fun k hk => ?_, i3⟩
      simp only [List.map_cons, List.mem_cons] at hk
      rcases hk with e | e
      · subst e
        have : d.1 ∈ tr := by
          have : tr.contains d.1 = true := by
            revert hsk; cases cfg.skipDup <;> simp
          simpa using this
        exact i3 _ this
      · exact i2 k e
    have hsk' : (cfg.skipDup && tr.contains d.1) = false := by simpa using hsk
    by_cases ha : accepts r o d.1 = true
    · obtain ⟨g1, _, g3, _, _⟩ := register_ok r o d.1 ⟨gen, d.2⟩ ha
      simp only [acquireAll, hsk', Bool.false_eq_true, if_false, g1, if_true] at hok ⊢
      have hinv' : ∀ x ∈ track cfg tr d.1, ∃ rs, (x, rs) ∈ D ∧
          aget x (register r o d.1 ⟨gen, d.2⟩).1.handler = some ⟨gen, rs⟩ := by
        intro x hx
        by_cases e : x = d.1
        · subst e; exact ⟨d.2, hD d (by simp), by rw [g3]; simp⟩
        · rcases (mem_track cfg tr d.1 x).mp hx with h1 | h1
          · obtain ⟨rs, a1, a2⟩ := hinv x h1
            exact ⟨rs, a1, by rw [g3]; simp [e, a2]⟩
          · exact absurd h1 e
      obtain ⟨i1, i2, i3⟩ := ih _ _ hD' hinv' hok
      refine ⟨i1, fun k hk => ?_, fun x hx => i3 x ((mem_track cfg tr d.1 x).mpr (Or.inl hx))⟩
      simp only [List.map_cons, List.mem_cons] at hk
      rcases hk with e | e
      · subst e; exact i3 _ ((mem_track cfg tr d.1 d.1).mpr (Or.inr rfl))
      · exact i2 k e
    · have ha' : accepts r o d.1 = false := by simpa using ha
      obtain ⟨g1, _, _, _, _⟩ := register_refused r o d.1 ⟨gen, d.2⟩ ha'
      simp only [acquireAll, hsk', g1, Bool.false_eq_true, if_false] at hok

/-! ### keyword arguments -/

theorem aget_append {α : Type} (k : String) (a b : List (String × α)) :
    aget k (a ++ b) = match aget k a with | some v => some v | none => aget k b := by
  induction a with
  | nil => simp [aget]
  | cons p r ih =>
    by_cases h : p.1 = k
    · simp [aget, h]
    · simp [aget, h, ih]

theorem aget_foldl_aset (k : String) : ∀ (data base : Kw),
    aget k (data.foldl (fun acc p => aset p.1 p.2 acc) base) =
      match aget k data.reverse with | some v => some v | none => aget k base := by
  intro data
  induction data with
  | nil => intro base; simp [aget]
  | cons p ps ih =>
    intro base
    simp only [List.foldl_cons, List.reverse_cons]
    rw [ih, aget_append, aget_aset]
    cases h : aget k ps.reverse
    · by_cases e : k = p.1
      · subst e; simp [aget]
      · have e' : ¬ p.1 = k := fun x => e x.symm
        simp [aget, e, e']
    · simp

/-- one row of the control table on a keyword list whose keys are distinct -/
theorem splitOne_data (row : String × List Ty) : ∀ (data : List Arg), (data.map (·.key)).Nodup →
    (match findArg row.1 data with
     | some a => if row.2.contains a.ty then data.filter (fun b => b.key != row.1) else data
     | none => data)
      = data.filter (fun a => !(a.key == row.1 && row.2.contains a.ty)) := by
  intro data
  induction data with
  | nil => intro _; simp [findArg]
  | cons a as ih =>
    intro hn
    simp only [List.map_cons, List.nodup_cons] at hn
    by_cases hk : a.key = row.1
    · -- the keyword is this argument; no later argument has the same key
      have hb : (a.key == row.1) = true := by simpa using hk
      have hnone : ∀ b ∈ as, (b.key == row.1) = false := by
        intro b hb'
        have : b.key ≠ row.1 := fun e => hn.1 (by rw [hk, ← e]; exact List.mem_map_of_mem hb')
        simpa using this
      have hf1 : as.filter (fun b => b.key != row.1) = as := by
        apply List.filter_eq_self.mpr; intro b hb'; simp [bne, hnone b hb']
      have hf2 : as.filter (fun b => !(b.key == row.1 && row.2.contains b.ty)) = as := by
        apply List.filter_eq_self.mpr; intro b hb'; simp only [hnone b hb', Bool.false_and, Bool.not_false]
      simp only [findArg, hk, if_true]
      by_cases ht : row.2.contains a.ty = true
      · have p1 : (a.key != row.1) = false := by simp [bne, hb]
        have p2 : (!(a.key == row.1 && row.2.contains a.ty)) = false := by simp only [hb, ht, Bool.and_self, Bool.not_true]
        simp only [ht, if_true, List.filter_cons, p1, Bool.false_eq_true, if_false, hf1, hf2]
        simp [hb]
      · have ht' : row.2.contains a.ty = false := by simpa using ht
        have p2 : (!(a.key == row.1 && row.2.contains a.ty)) = true := by simp only [hb, ht', Bool.and_false, Bool.not_false]
        simp only [ht', Bool.false_eq_true, if_false, List.filter_cons, hf2]
        simp
    · have ih' := ih hn.2
      have hk' : (a.key == row.1) = false := by simpa using hk
      have p1 : (a.key != row.1) = true := by simp [bne, hk']
      have p2 : (!(a.key == row.1 && row.2.contains a.ty)) = true := by simp only [hk', Bool.false_and, Bool.not_false]
      simp only [findArg, hk, if_false]
      cases hfa : findArg row.1 as with
      | none =>
        rw [hfa] at ih'
        simp only [List.filter_cons, p2, if_true]
        exact congrArg (a :: ·) ih'
      | some b =>
        rw [hfa] at ih'
        by_cases ht : row.2.contains b.ty = true
        · simp only [ht, if_true] at ih' ⊢
          simp only [List.filter_cons, p1, p2, if_true]
          exact congrArg (a :: ·) ih'
        · have ht' : row.2.contains b.ty = false := by simpa using ht
          simp only [ht', Bool.false_eq_true, if_false] at ih' ⊢
          simp only [List.filter_cons, p2, if_true]
          exact congrArg (a :: ·) ih'


/-! ### Home Assistant's own table (`Reg.ha`, keyed by the lower-cased name) agrees with `handler` when keys are folded -/

theorem toLower_idem (c : Char) : c.toLower.toLower = c.toLower := by
  unfold Char.toLower
  by_cases h : c.val ≥ 'A'.val ∧ c.val ≤ 'Z'.val
  · simp only [h, and_self, dite_true]
    have h1 := h.1
    have h2 := h.2
    have : ¬ ((c.val + ('a'.val - 'A'.val)) ≥ 'A'.val ∧ (c.val + ('a'.val - 'A'.val)) ≤ 'Z'.val) := by
      intro ⟨_, hb⟩
      simp [UInt32.le_iff_toNat_le, UInt32.toNat_add] at h1 h2 hb
      omega
    simp only [this, dite_false]
  · simp only [h, dite_false]

theorem lower_idem (s : String) : lower (lower s) = lower s := by
  simp [lower, String.toList_ofList, List.map_map, Function.comp_def, toLower_idem]

/-- a key that Home Assistant's lower-casing leaves alone -/
def Low (k : Svc) : Prop := lower k = k
/-- Home Assistant holds exactly what pyscript's key-indexed view says -/
def HaOK (r : Reg) : Prop := r.ha = r.handler
def LowH (h : Holder) : Prop := (∀ d ∈ h.pending, Low d.1) ∧ (∀ k ∈ h.tracked, Low k)
def HL (st : MState) : Prop := HaOK st.reg ∧ ∀ h ∈ st.holders, LowH h

theorem keyOf_low (cfg : Cfg) (hf : cfg.foldCase = true) (k : Svc) : Low (keyOf cfg k) := by
  simp [Low, keyOf, hf, lower_idem]

theorem foldDecl_low (cfg : Cfg) (hf : cfg.foldCase = true) (decl : List (Svc × Resp)) :
    ∀ d ∈ foldDecl cfg decl, Low d.1 := by
  intro d hd
  simp only [foldDecl, List.mem_map] at hd
  obtain ⟨x, _, rfl⟩ := hd
  exact keyOf_low cfg hf x.1

theorem register_ha (r : Reg) (o : OwnerName) (k : Svc) (h : Handler) (hk : Low k) (hr : HaOK r) :
    HaOK (register r o k h).1 := by
  simp only [HaOK, Low] at *
  by_cases ha : accepts r o k = true
  · simp [register, ha, hk, hr]
  · simp [register, ha, hr]

theorem remove_ha (r : Reg) (k : Svc) (hk : Low k) (hr : HaOK r) : HaOK (remove r k) := by
  simp only [HaOK, Low] at *
  by_cases h1 : cntOf r k > 1
  · rw [remove_gt r k h1]; exact hr
  · rw [remove_le r k h1]; simp [hk, hr]

theorem releaseList_ha : ∀ (l : List Svc) (r : Reg), (∀ k ∈ l, Low k) → HaOK r → HaOK (releaseList r l) := by
  intro l
  induction l with
  | nil => intro r _ hr; exact hr
  | cons k ks ih =>
    intro r hl hr
    simp only [releaseList]
    exact ih _ (fun x hx => hl x (by simp [hx])) (remove_ha r k (hl k (by simp)) hr)

theorem acquireAll_ha (cfg : Cfg) (o : OwnerName) (gen : Nat) : ∀ (decl : List (Svc × Resp)) (r : Reg) (tr : List Svc),
    (∀ d ∈ decl, Low d.1) → (∀ k ∈ tr, Low k) → HaOK r →
    HaOK (acquireAll cfg o gen r decl tr).reg ∧ ∀ k ∈ (acquireAll cfg o gen r decl tr).tracked, Low k := by
  intro decl
  induction decl with
  | nil => intro r tr _ ht hr; exact ⟨hr, ht⟩
  | cons d ds ih =>
    intro r tr hd ht hr
    have hd1 : Low d.1 := hd d (by simp)
    have hds : ∀ x ∈ ds, Low x.1 := fun x hx => hd x (by simp [hx])
    unfold acquireAll
    split
    · exact ih r tr hds ht hr
    · split
      · refine ih _ _ hds ?_ (register_ha r o d.1 _ hd1 hr)
        intro k hk
        rcases (mem_track cfg tr d.1 k).mp hk with h | h
        · exact ht k h
        · rw [h]; exact hd1
      · exact ⟨register_ha r o d.1 _ hd1 hr, ht⟩

theorem startReg_ha (cfg : Cfg) (a : Acq) (h1 : HaOK a.reg) (h2 : ∀ k ∈ a.tracked, Low k) : HaOK (startReg cfg a) := by
  unfold startReg
  split
  · exact h1
  · exact releaseList_ha _ _ h2 h1

theorem startHolder_low (cfg : Cfg) (h : Holder) (a : Acq) (h2 : ∀ k ∈ a.tracked, Low k) :
    ∀ h' ∈ (startHolder cfg h a).toList, LowH h' := by
  intro h' hm
  unfold startHolder at hm
  split at hm
  · simp only [Option.toList_some, List.mem_singleton] at hm
    subst hm
    exact ⟨fun d hd => by simp at hd, h2⟩
  · simp at hm

theorem dropReg_ha (cfg : Cfg) (r : Reg) (h : Holder) (hl : LowH h) (hr : HaOK r) : HaOK (dropReg cfg r h) := by
  unfold dropReg
  split
  · exact releaseList_ha _ _ hl.2 hr
  · split
    · exact releaseList_ha _ _ hl.2 hr
    · exact hr

theorem dropHolder_low (cfg : Cfg) (h : Holder) (hl : LowH h) : ∀ h' ∈ (dropHolder cfg h).toList, LowH h' := by
  intro h' hm
  unfold dropHolder at hm
  split at hm
  · simp at hm
  · split at hm
    · simp at hm
    · simp only [Option.toList_some, List.mem_singleton] at hm
      subst hm
      exact hl

theorem unbindReg_ha (cfg : Cfg) (ctx var : String) : ∀ (hs : List Holder) (r : Reg), (∀ h ∈ hs, LowH h) → HaOK r →
    HaOK (unbindReg cfg r ctx var hs) := by
  intro hs
  induction hs with
  | nil => intro r _ hr; exact hr
  | cons h hs ih =>
    intro r hl hr
    unfold unbindReg
    split
    · exact ih _ (fun x hx => hl x (by simp [hx])) (dropReg_ha cfg r h (hl h (by simp)) hr)
    · exact ih _ (fun x hx => hl x (by simp [hx])) hr

theorem unbindHolders_low (cfg : Cfg) (ctx var : String) : ∀ (hs : List Holder), (∀ h ∈ hs, LowH h) →
    ∀ h ∈ unbindHolders cfg ctx var hs, LowH h := by
  intro hs
  induction hs with
  | nil => intro _ h hm; simp [unbindHolders] at hm
  | cons x xs ih =>
    intro hl h hm
    unfold unbindHolders at hm
    split at hm
    · rcases List.mem_append.mp hm with hm | hm
      · exact dropHolder_low cfg x (hl x (by simp)) h hm
      · exact ih (fun y hy => hl y (by simp [hy])) h hm
    · rcases List.mem_cons.mp hm with hm | hm
      · rw [hm]; exact hl x (by simp)
      · exact ih (fun y hy => hl y (by simp [hy])) h hm

theorem unloadReg_ha (p : Holder → Bool) : ∀ (hs : List Holder) (r : Reg), (∀ h ∈ hs, LowH h) → HaOK r →
    HaOK (unloadReg p r hs) := by
  intro hs
  induction hs with
  | nil => intro r _ hr; exact hr
  | cons h hs ih =>
    intro r hl hr
    unfold unloadReg
    split
    · exact ih _ (fun x hx => hl x (by simp [hx])) (releaseList_ha _ _ (hl h (by simp)).2 hr)
    · exact ih _ (fun x hx => hl x (by simp [hx])) hr

theorem eventReg_ha (cfg : Cfg) (r : Reg) (h : Holder) (hl : LowH h) (hr : HaOK r) : HaOK (eventReg cfg r h) := by
  unfold eventReg
  split
  · exact hr
  · rename_i d ds hp
    have hd : Low d.1 := hl.1 d (by rw [hp]; simp)
    split
    · exact hr
    · split
      · exact register_ha r h.owner d.1 _ hd hr
      · exact releaseList_ha _ _ hl.2 (register_ha r h.owner d.1 _ hd hr)

theorem eventHolder_low (cfg : Cfg) (r : Reg) (h : Holder) (hl : LowH h) :
    ∀ h' ∈ (eventHolder cfg r h).toList, LowH h' := by
  intro h' hm
  unfold eventHolder at hm
  split at hm
  · simp only [Option.toList_some, List.mem_singleton] at hm; rw [hm]; exact hl
  · rename_i d ds hp
    have hd : Low d.1 := hl.1 d (by rw [hp]; simp)
    have hds : ∀ x ∈ ds, Low x.1 := fun x hx => hl.1 x (by rw [hp]; simp [hx])
    split at hm
    · simp only [Option.toList_some, List.mem_singleton] at hm; rw [hm]; exact ⟨hds, hl.2⟩
    · split at hm
      · simp only [Option.toList_some, List.mem_singleton] at hm
        rw [hm]
        refine ⟨hds, fun k hk => ?_⟩
        rcases (mem_track cfg h.tracked d.1 k).mp hk with e | e
        · exact hl.2 k e
        · rw [e]; exact hd
      · simp at hm

theorem eventStepReg_ha (cfg : Cfg) (ctx : String) (g : Nat) : ∀ (hs : List Holder) (r : Reg), (∀ h ∈ hs, LowH h) → HaOK r →
    HaOK (eventStepReg cfg r ctx g hs) := by
  intro hs
  induction hs with
  | nil => intro r _ hr; exact hr
  | cons h hs ih =>
    intro r hl hr
    unfold eventStepReg
    split
    · exact eventReg_ha cfg r h (hl h (by simp)) hr
    · exact ih r (fun x hx => hl x (by simp [hx])) hr

theorem eventStepHolders_low (cfg : Cfg) (r : Reg) (ctx : String) (g : Nat) : ∀ (hs : List Holder), (∀ h ∈ hs, LowH h) →
    ∀ h ∈ eventStepHolders cfg r ctx g hs, LowH h := by
  intro hs
  induction hs with
  | nil => intro _ h hm; simp [eventStepHolders] at hm
  | cons x xs ih =>
    intro hl h hm
    unfold eventStepHolders at hm
    split at hm
    · rcases List.mem_append.mp hm with hm | hm
      · exact eventHolder_low cfg r x (hl x (by simp)) h hm
      · exact hl h (by simp [hm])
    · rcases List.mem_cons.mp hm with hm | hm
      · rw [hm]; exact hl x (by simp)
      · exact ih (fun y hy => hl y (by simp [hy])) h hm

theorem startEvents_hl (cfg : Cfg) (ctx : String) : ∀ (gs : List Nat) (st : MState), HL st → HL (startEvents cfg ctx st gs) := by
  intro gs
  induction gs with
  | nil => intro st h; exact h
  | cons g gs ih =>
    intro st h
    simp only [startEvents]
    exact ih _ ⟨eventStepReg_ha cfg ctx g st.holders st.reg h.2 h.1, eventStepHolders_low cfg st.reg ctx g st.holders h.2⟩

theorem defineStep_hl (cfg : Cfg) (st : MState) (ctx : String) (fn : Option String) (var : String) (gen : Nat)
    (decl : List (Svc × Resp)) (hd : ∀ d ∈ decl, Low d.1) (h : HL st) : HL (defineStep cfg st ctx fn var gen decl) := by
  unfold defineStep
  split
  · refine ⟨unbindReg_ha cfg ctx var st.holders st.reg h.2 h.1, fun x hx => ?_⟩
    rcases List.mem_append.mp hx with hx | hx
    · exact unbindHolders_low cfg ctx var st.holders h.2 x hx
    · simp only [List.mem_singleton] at hx
      rw [hx]
      exact ⟨hd, fun k hk => by simp [newHolder] at hk⟩
  · obtain ⟨a1, a2⟩ := acquireAll_ha cfg (ownerFor cfg ctx fn) gen decl st.reg [] hd (fun k hk => by simp at hk) h.1
    refine ⟨unbindReg_ha cfg ctx var st.holders _ h.2 (startReg_ha cfg _ a1 a2), fun x hx => ?_⟩
    rcases List.mem_append.mp hx with hx | hx
    · exact unbindHolders_low cfg ctx var st.holders h.2 x hx
    · exact startHolder_low cfg _ _ a2 x hx

theorem step_hl (cfg : Cfg) (hf : cfg.foldCase = true) (st : MState) (op : Op) (h : HL st) : HL (step cfg st op) := by
  cases op with
  | define ctx fn var gen decl => exact defineStep_hl cfg st ctx fn var gen _ (foldDecl_low cfg hf decl) h
  | start ctx events =>
    simp only [step]
    split
    · exact startEvents_hl cfg ctx events st h
    · exact h
  | delete ctx var =>
    exact ⟨unbindReg_ha cfg ctx var st.holders st.reg h.2 h.1, unbindHolders_low cfg ctx var st.holders h.2⟩
  | unload ctx =>
    refine ⟨unloadReg_ha _ st.holders st.reg h.2 h.1, fun x hx => ?_⟩
    obtain ⟨y, hy, e⟩ := List.mem_map.mp hx
    have := h.2 y (List.mem_filter.mp hy).1
    rw [← e]
    exact ⟨by rw [(orphan_fields ctx y).2.2]; exact this.1, by rw [(orphan_fields ctx y).1]; exact this.2⟩

theorem run_hl (cfg : Cfg) (hf : cfg.foldCase = true) : ∀ (ops : List Op) (st : MState), HL st → HL (run cfg st ops) := by
  intro ops
  induction ops with
  | nil => intro st h; exact h
  | cons op ops ih => intro st h; simp only [run]; exact ih _ (step_hl cfg hf st op h)

theorem hl_init : HL {} := ⟨rfl, fun h hm => by simp at hm⟩


theorem mem_takeWhile_pred {α : Type} (p : α → Bool) : ∀ (l : List α) (x : α), x ∈ l.takeWhile p → p x = true := by
  intro l
  induction l with
  | nil => intro x h; simp at h
  | cons a l ih =>
    intro x h
    by_cases hp : p a = true
    · simp only [List.takeWhile_cons, hp, if_true, List.mem_cons] at h
      rcases h with h | h
      · rw [h]; exact hp
      · exact ih x h
    · simp [List.takeWhile_cons, hp] at h

end PsModel.C12
