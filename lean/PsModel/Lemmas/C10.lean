import PsModel.Model.C10
import PsModel.Spec.C10
/-! helper lemmas for `Props/C10.lean` -/
namespace PsModel.C10
open PsModel.C10.Spec

/-! ## `glob_read_files` -/

/-- what every entry produced by `glob_read_files` looks like -/
structure FromRow (rows : List Row) (apps : AppsCfg) (files : List File) (e : Entry) : Prop where
  row : ∃ r ∈ rows, ∃ f ∈ files, matchRow r f.path = true ∧ isCommented f.path = false ∧
      ((r.checkConfig = true ∧ ∃ c, apps.lookup ((fqOf r.dir f.path).headD "") = some c ∧ e = mkEntry r f c) ∨
       (r.checkConfig = false ∧ e = mkEntry r f none))

theorem addFile_mem {r : Row} {apps : AppsCfg} {acc : List Entry} {f : File} {e : Entry}
    (h : e ∈ addFile r apps acc f) :
    e ∈ acc ∨ (matchRow r f.path = true ∧ isCommented f.path = false ∧ hasName acc (ctxNameOf r.dir f.path) = false ∧
      ((r.checkConfig = true ∧ ∃ c, apps.lookup ((fqOf r.dir f.path).headD "") = some c ∧ e = mkEntry r f c) ∨
       (r.checkConfig = false ∧ e = mkEntry r f none))) := by
  unfold addFile at h
  split at h
  · exact .inl h
  · rename_i hm
    split at h
    · exact .inl h
    · rename_i hc
      split at h
      · exact .inl h
      · rename_i hn
        have hm' : matchRow r f.path = true := by simpa using hm
        have hc' : isCommented f.path = false := by simpa using hc
        have hn' : hasName acc (ctxNameOf r.dir f.path) = false := by simpa using hn
        split at h
        · rename_i hcc
          split at h
          · exact .inl h
          · rename_i c hl
            rcases List.mem_append.mp h with h | h
            · exact .inl h
            · right
              refine ⟨hm', hc', hn', .inl ⟨hcc, c, hl, ?_⟩⟩
              simpa using h
        · rename_i hcc
          rcases List.mem_append.mp h with h | h
          · exact .inl h
          · right
            refine ⟨hm', hc', hn', .inr ⟨by simpa using hcc, ?_⟩⟩
            simpa using h

theorem addFile_sub {r : Row} {apps : AppsCfg} {acc : List Entry} {f : File} {e : Entry} (h : e ∈ acc) :
    e ∈ addFile r apps acc f := by
  unfold addFile
  repeat' split
  all_goals first | exact h | exact List.mem_append_left _ h

theorem foldFiles_mem {r : Row} {apps : AppsCfg} (files : List File) (acc : List Entry) {e : Entry}
    (h : e ∈ files.foldl (addFile r apps) acc) :
    e ∈ acc ∨ ∃ f ∈ files, matchRow r f.path = true ∧ isCommented f.path = false ∧
      ((r.checkConfig = true ∧ ∃ c, apps.lookup ((fqOf r.dir f.path).headD "") = some c ∧ e = mkEntry r f c) ∨
       (r.checkConfig = false ∧ e = mkEntry r f none)) := by
  induction files generalizing acc with
  | nil => exact .inl h
  | cons f fs ih =>
    simp only [List.foldl_cons] at h
    rcases ih _ h with h | ⟨g, hg, rest⟩
    · rcases addFile_mem h with h | ⟨a, b, _, d⟩
      · exact .inl h
      · exact .inr ⟨f, List.mem_cons_self, a, b, d⟩
    · exact .inr ⟨g, List.mem_cons_of_mem _ hg, rest⟩

theorem globRead_from (rows : List Row) (apps : AppsCfg) (files : List File) {e : Entry}
    (h : e ∈ globRead rows apps files) : FromRow rows apps files e := by
  unfold globRead at h
  suffices H : ∀ (rs : List Row) (acc : List Entry),
      e ∈ rs.foldl (fun acc r => files.foldl (addFile r apps) acc) acc → e ∈ acc ∨ FromRow rs apps files e by
    rcases H rows [] h with h | h
    · simp at h
    · exact h
  intro rs
  induction rs with
  | nil => intro acc h; exact .inl h
  | cons r rs ih =>
    intro acc h
    simp only [List.foldl_cons] at h
    rcases ih _ h with h | ⟨r', hr', rest⟩
    · rcases foldFiles_mem files acc h with h | ⟨f, hf, rest⟩
      · exact .inl h
      · exact .inr ⟨r, List.mem_cons_self, f, hf, rest⟩
    · exact .inr ⟨r', List.mem_cons_of_mem _ hr', rest⟩

/-- names in the table are pairwise distinct (it is a `dict`) -/
def NamesNodup (es : List Entry) : Prop := (es.map (·.name)).Nodup

theorem hasName_false_iff {acc : List Entry} {n : Name} : hasName acc n = false ↔ n ∉ acc.map (·.name) := by
  unfold hasName
  rw [Bool.eq_false_iff]
  simp only [ne_eq, List.any_eq_true, beq_iff_eq, not_exists, not_and, List.mem_map]

theorem addFile_nodup {r : Row} {apps : AppsCfg} {acc : List Entry} {f : File} (h : NamesNodup acc) :
    NamesNodup (addFile r apps acc f) := by
  unfold addFile
  split
  · exact h
  · split
    · exact h
    · split
      · exact h
      · rename_i hn
        have hn' : ctxNameOf r.dir f.path ∉ acc.map (·.name) := hasName_false_iff.mp (by simpa using hn)
        have key : ∀ c, NamesNodup (acc ++ [mkEntry r f c]) := by
          intro c
          unfold NamesNodup at h ⊢
          rw [List.map_append, List.nodup_append]
          refine ⟨h, by simp, ?_⟩
          intro a ha b hb
          simp only [List.map_cons, List.map_nil, List.mem_singleton] at hb
          subst hb
          intro heq
          subst heq
          exact hn' (by simpa [mkEntry] using ha)
        split
        · split
          · exact h
          · exact key _
        · exact key _

theorem globRead_nodup (rows : List Row) (apps : AppsCfg) (files : List File) : NamesNodup (globRead rows apps files) := by
  unfold globRead
  suffices H : ∀ (rs : List Row) (acc : List Entry), NamesNodup acc →
      NamesNodup (rs.foldl (fun acc r => files.foldl (addFile r apps) acc) acc) from H rows [] (by simp [NamesNodup])
  intro rs
  induction rs with
  | nil => intro acc h; exact h
  | cons r rs ih =>
    intro acc h
    simp only [List.foldl_cons]
    apply ih
    clear ih
    induction files generalizing acc with
    | nil => exact h
    | cons f fs ihf => simp only [List.foldl_cons]; exact ihf _ (addFile_nodup h)

/-! ## the extracted table -/

/-- the tie (T): the model's reading of the extracted `load_paths` – fails to build when the table changes -/
theorem loadRows_eq : loadRows =
    [⟨"", .star, false, true⟩, ⟨"apps", .starInit, true, true⟩, ⟨"apps", .star, true, true⟩,
     ⟨"apps", .starDeep, false, false⟩, ⟨"modules", .starInit, false, false⟩, ⟨"modules", .star, false, false⟩,
     ⟨"modules", .starDeep, false, false⟩, ⟨"scripts", .deep, false, true⟩] := by decide

theorem matchRow_top {g : Glob} {c a : Bool} {p : Path} (h : matchRow ⟨"", g, c, a⟩ p = true) : globMatch g p = true := by
  simpa [matchRow, relTo] using h

theorem matchRow_dir {d : String} {g : Glob} {c a : Bool} {p : Path} (hd : d ≠ "")
    (h : matchRow ⟨d, g, c, a⟩ p = true) : ∃ q, p = d :: q ∧ globMatch g q = true := by
  unfold matchRow relTo at h
  simp only [hd, if_false] at h
  cases p with
  | nil => simp at h
  | cons x q =>
    simp only at h
    by_cases hx : x = d
    · subst hx; simp only [if_true] at h; exact ⟨q, rfl, h⟩
    · simp [hx] at h

theorem globMatch_ne {g : Glob} {q : Path} (h : globMatch g q = true) : q ≠ [] := by
  intro hq; subst hq; cases g <;> simp [globMatch] at h

theorem modParts_doc {p : Path} (h : 2 ≤ p.length) : modParts p = docName p := by
  unfold modParts docName isInit
  have h1 : ¬ p.length = 1 := by omega
  simp only [h1, if_false]
  by_cases hl : p.getLast? = some "__init__" <;> simp [hl, h]

theorem ctxName_doc_of_loadRows {r : Row} {p : Path} (hr : r ∈ loadRows) (hm : matchRow r p = true) :
    ctxNameOf r.dir p = docName p := by
  rw [loadRows_eq] at hr
  simp only [List.mem_cons, List.mem_nil_iff, or_false] at hr
  rcases hr with rfl | rfl | rfl | rfl | rfl | rfl | rfl | rfl
  · have := matchRow_top hm
    match p, this with
    | [x], _ => simp [ctxNameOf, modParts, isInit, docName]
  all_goals
    obtain ⟨q, rfl, hq⟩ := matchRow_dir (by decide) hm
    have hne := globMatch_ne hq
    have hl : ∀ d : String, 2 ≤ (d :: q).length := by
      intro d
      cases q with
      | nil => exact absurd rfl hne
      | cons _ _ => simp
    simpa [ctxNameOf] using modParts_doc (hl _)

theorem autoload_sound_of_loadRows {r : Row} {f : File} {apps : AppsCfg} {e : Entry} (hr : r ∈ loadRows)
    (hm : matchRow r f.path = true)
    (hcase : (r.checkConfig = true ∧ ∃ c, apps.lookup ((fqOf r.dir f.path).headD "") = some c ∧ e = mkEntry r f c) ∨
       (r.checkConfig = false ∧ e = mkEntry r f none))
    (hedge : f.path ≠ ["apps", "__init__"])
    (ha : e.autoload = true) :
    isAutoPath apps e.path = true ∧
      (isUnder "apps" e.name = true → apps.lookup (e.name.getD 1 "") = some e.appCfg) := by
  rw [loadRows_eq] at hr
  simp only [List.mem_cons, List.mem_nil_iff, or_false] at hr
  rcases hr with rfl | rfl | rfl | rfl | rfl | rfl | rfl | rfl
  · -- top level
    have := matchRow_top hm
    rcases hcase with ⟨h, _⟩ | ⟨_, rfl⟩
    · simp at h
    · match hp : f.path, this with
      | [x], _ => simp [mkEntry, hp, isAutoPath, ctxNameOf, modParts, isInit, isUnder]
  · -- apps/*/__init__.py
    obtain ⟨q, hp, hq⟩ := matchRow_dir (by decide) hm
    rcases hcase with ⟨_, c, hl, rfl⟩ | ⟨h, _⟩
    · match q, hq with
      | [a, b], hq =>
        have hb : b = "__init__" := by simpa [globMatch] using hq
        subst hb
        simp only [hp, fqOf, modParts, isInit] at hl
        simp at hl
        simp [mkEntry, hp, isAutoPath, ctxNameOf, modParts, isInit, hl]
    · simp at h
  · -- apps/*.py
    obtain ⟨q, hp, hq⟩ := matchRow_dir (by decide) hm
    rcases hcase with ⟨_, c, hl, rfl⟩ | ⟨h, _⟩
    · match q, hq with
      | [a], _ =>
        have ha' : a ≠ "__init__" := by
          intro h; subst h; exact hedge hp
        simp only [hp, fqOf, modParts, isInit] at hl
        simp [ha'] at hl
        simp [mkEntry, hp, isAutoPath, ctxNameOf, modParts, isInit, hl, ha']
    · simp at h
  · rcases hcase with ⟨_, c, _, rfl⟩ | ⟨_, rfl⟩ <;> simp [mkEntry] at ha
  · rcases hcase with ⟨_, c, _, rfl⟩ | ⟨_, rfl⟩ <;> simp [mkEntry] at ha
  · rcases hcase with ⟨_, c, _, rfl⟩ | ⟨_, rfl⟩ <;> simp [mkEntry] at ha
  · rcases hcase with ⟨_, c, _, rfl⟩ | ⟨_, rfl⟩ <;> simp [mkEntry] at ha
  · -- scripts/**
    obtain ⟨q, hp, hq⟩ := matchRow_dir (by decide) hm
    rcases hcase with ⟨h, _⟩ | ⟨_, rfl⟩
    · simp at h
    · match q, hq with
      | x :: rest, _ =>
        refine ⟨by simp [mkEntry, hp, isAutoPath], ?_⟩
        intro hu
        exfalso
        simp only [mkEntry, hp, ctxNameOf, modParts] at hu
        by_cases hi : isInit ("scripts" :: x :: rest) = true
        · simp only [hi, if_true] at hu
          cases rest with
          | nil => simp [isUnder] at hu
          | cons y ys => simp [isUnder, List.dropLast] at hu
        · simp [hi, isUnder] at hu

theorem visible_row {apps : AppsCfg} {p : Path} (hv : isVisible apps p = true) :
    ∃ r ∈ loadRows, matchRow r p = true ∧
      (r.checkConfig = true → ∃ c, apps.lookup ((fqOf r.dir p).headD "") = some c) := by
  rw [loadRows_eq]
  unfold isVisible at hv
  simp only [Bool.and_eq_true] at hv
  obtain ⟨-, hv⟩ := hv
  split at hv
  next x => exact ⟨⟨"", .star, false, true⟩, by simp, by simp [matchRow, relTo, globMatch], by simp⟩
  next x rest =>
    exact ⟨⟨"scripts", .deep, false, true⟩, by simp, by simp [matchRow, relTo, globMatch], by simp⟩
  next a =>
    simp only [Bool.and_eq_true, bne_iff_ne, ne_eq] at hv
    obtain ⟨ha, hl⟩ := hv
    refine ⟨⟨"apps", .star, true, true⟩, by simp, by simp [matchRow, relTo, globMatch], ?_⟩
    intro _
    obtain ⟨c, hc⟩ := Option.isSome_iff_exists.mp hl
    exact ⟨c, by simp [fqOf, modParts, isInit, ha, hc]⟩
  next a b rest =>
    exact ⟨⟨"apps", .starDeep, false, false⟩, by simp, by simp [matchRow, relTo, globMatch], by simp⟩
  next a rest =>
    cases rest with
    | nil => exact ⟨⟨"modules", .star, false, false⟩, by simp, by simp [matchRow, relTo, globMatch], by simp⟩
    | cons b rest =>
      exact ⟨⟨"modules", .starDeep, false, false⟩, by simp, by simp [matchRow, relTo, globMatch], by simp⟩
  next => simp at hv

theorem addFile_has {r : Row} {apps : AppsCfg} {acc : List Entry} {f : File}
    (hm : matchRow r f.path = true) (hc : isCommented f.path = false)
    (hg : r.checkConfig = true → ∃ c, apps.lookup ((fqOf r.dir f.path).headD "") = some c) :
    ∃ e ∈ addFile r apps acc f, e.name = ctxNameOf r.dir f.path := by
  unfold addFile
  simp only [hm, hc, Bool.not_true, Bool.false_eq_true, if_false]
  by_cases hn : hasName acc (ctxNameOf r.dir f.path) = true
  · simp only [hn, if_true]
    unfold hasName at hn
    simp only [List.any_eq_true, beq_iff_eq] at hn
    exact hn
  · simp only [hn, if_false]
    by_cases hcc : r.checkConfig = true
    · obtain ⟨c, hl⟩ := hg hcc
      simp only [hcc, if_true, hl]
      exact ⟨_, List.mem_append_right _ (List.mem_singleton.mpr rfl), rfl⟩
    · simp only [hcc, if_false]
      exact ⟨_, List.mem_append_right _ (List.mem_singleton.mpr rfl), rfl⟩

theorem foldFiles_sub {r : Row} {apps : AppsCfg} (files : List File) (acc : List Entry) {e : Entry} (h : e ∈ acc) :
    e ∈ files.foldl (addFile r apps) acc := by
  induction files generalizing acc with
  | nil => exact h
  | cons f fs ih => exact ih _ (addFile_sub h)

theorem foldFiles_has {r : Row} {apps : AppsCfg} (files : List File) (acc : List Entry) {f : File} (hf : f ∈ files)
    (hm : matchRow r f.path = true) (hc : isCommented f.path = false)
    (hg : r.checkConfig = true → ∃ c, apps.lookup ((fqOf r.dir f.path).headD "") = some c) :
    ∃ e ∈ files.foldl (addFile r apps) acc, e.name = ctxNameOf r.dir f.path := by
  induction files generalizing acc with
  | nil => simp at hf
  | cons g gs ih =>
    simp only [List.foldl_cons]
    rcases List.mem_cons.mp hf with rfl | hf
    · obtain ⟨e, he, hn⟩ := addFile_has (acc := acc) hm hc hg
      exact ⟨e, foldFiles_sub gs _ he, hn⟩
    · exact ih _ hf

theorem globRead_complete (rows : List Row) (apps : AppsCfg) (files : List File) {r : Row} {f : File}
    (hr : r ∈ rows) (hf : f ∈ files) (hm : matchRow r f.path = true) (hc : isCommented f.path = false)
    (hg : r.checkConfig = true → ∃ c, apps.lookup ((fqOf r.dir f.path).headD "") = some c) :
    ∃ e ∈ globRead rows apps files, e.name = ctxNameOf r.dir f.path := by
  unfold globRead
  suffices H : ∀ (rs : List Row) (acc : List Entry), r ∈ rs →
      ∃ e ∈ rs.foldl (fun acc r => files.foldl (addFile r apps) acc) acc, e.name = ctxNameOf r.dir f.path from H rows [] hr
  have mono : ∀ (rs : List Row) (acc : List Entry) (e : Entry), e ∈ acc →
      e ∈ rs.foldl (fun acc r => files.foldl (addFile r apps) acc) acc := by
    intro rs
    induction rs with
    | nil => intro acc e h; exact h
    | cons r' rs ih => intro acc e h; exact ih _ e (foldFiles_sub files acc h)
  intro rs
  induction rs with
  | nil => intro acc h; simp at h
  | cons r' rs ih =>
    intro acc h
    simp only [List.foldl_cons]
    rcases List.mem_cons.mp h with rfl | h
    · obtain ⟨e, he, hn⟩ := foldFiles_has files acc hf hm hc hg
      exact ⟨e, mono rs _ e he, hn⟩
    · exact ih _ h

end PsModel.C10
