import PsModel.Spec.C03
/-! helper lemmas for C03: keyword-table facts and the loop characterisations of `EvalFunc.call` -/
namespace PsModel.C03

/-! ### keyword tables -/

theorem KW.has_erase_ne (kw : KW) (p q : String) (h : q ≠ p) : (kw.erase p).has q = kw.has q := by
  simp only [KW.erase, KW.has, List.any_filter]
  congr 1
  funext a
  by_cases hq : a.1 = q
  · have : a.1 ≠ p := fun e => h (hq ▸ e)
    simp [hq, this, h]
  · simp [hq]

theorem KW.get_erase_ne (kw : KW) (p q : String) (h : q ≠ p) : (kw.erase p).get q = kw.get q := by
  simp only [KW.erase, KW.get, List.find?_filter]
  congr 2
  funext a
  by_cases hq : a.1 = q
  · have : a.1 ≠ p := fun e => h (hq ▸ e)
    simp [hq, this, h]
  · simp [hq]

def KW.eraseList (kw : KW) : List String → KW
  | [] => kw
  | k :: ks => (kw.erase k).eraseList ks

theorem KW.eraseList_filter (ks : List String) : ∀ kw : KW,
    kw.eraseList ks = kw.filter (fun p => !ks.contains p.1) := by
  induction ks with
  | nil =>
    intro kw
    simp only [KW.eraseList, List.contains_nil, Bool.not_false]
    exact (List.filter_eq_self.mpr (by simp)).symm
  | cons k ks ih =>
    intro kw
    simp only [KW.eraseList, ih, KW.erase, List.filter_filter]
    apply List.filter_congr
    intro p _
    by_cases h : p.1 = k <;> simp [h, bne, Bool.and_comm]

theorem KW.has_eraseList (ks : List String) (q : String) (h : q ∉ ks) : ∀ kw : KW,
    (kw.eraseList ks).has q = kw.has q := by
  induction ks with
  | nil => intro kw; rfl
  | cons k ks ih =>
    intro kw
    simp only [List.mem_cons, not_or] at h
    simp only [KW.eraseList]
    rw [ih h.2, KW.has_erase_ne _ _ _ h.1]

theorem KW.get_eraseList (ks : List String) (q : String) (h : q ∉ ks) : ∀ kw : KW,
    (kw.eraseList ks).get q = kw.get q := by
  induction ks with
  | nil => intro kw; rfl
  | cons k ks ih =>
    intro kw
    simp only [List.mem_cons, not_or] at h
    simp only [KW.eraseList]
    rw [ih h.2, KW.get_erase_ne _ _ _ h.1]

theorem KW.has_iff_mem_keys (kw : KW) (k : String) : kw.has k = true ↔ k ∈ kw.keys := by
  simp [KW.has, KW.keys]

/-! ### the positional loop of `EvalFunc.call`, characterised against the ORIGINAL keyword table -/

section
variable (cfg : Cfg) (s : Sig) (args : List Nat) (kw0 : KW)

/-- does the loop try to match a keyword for the parameter at index `i`? -/
def matchOn (i : Nat) : Bool := !(cfg.posonlyKwToKwargs && s.kwarg && decide (i < s.posonly.length))

def psVal (i : Nat) (p : String) : Option ArgVal :=
  if i < args.length then (if kw0.has p && matchOn cfg s i then none else some (.given (args.getD i 0)))
  else if kw0.has p && matchOn cfg s i then some (.given ((kw0.get p).getD 0))
  else if s.nposn ≤ i then some (.dflt (i - s.nposn)) else none

def psSlots : Nat → List String → Option (List (String × ArgVal))
  | _, [] => some []
  | i, p :: ps => match psVal cfg s args kw0 i p, psSlots (i + 1) ps with
    | some v, some r => some ((p, v) :: r)
    | _, _ => none

/-- parameters whose value the loop pops from the keywords -/
def takenKw : Nat → List String → List String
  | _, [] => []
  | i, p :: ps =>
    if !decide (i < args.length) && kw0.has p && matchOn cfg s i then p :: takenKw (i + 1) ps else takenKw (i + 1) ps

def badKw : Nat → List String → Bool
  | _, [] => false
  | i, p :: ps =>
    (!decide (i < args.length) && kw0.has p && matchOn cfg s i && decide (i < s.posonly.length)) || badKw (i + 1) ps

theorem posLoop_char : ∀ (ps : List String) (i : Nat) (kw : KW) (bad : Bool), ps.Nodup →
    (∀ p ∈ ps, kw.has p = kw0.has p ∧ kw.get p = kw0.get p) →
    PS.posLoop cfg s args i ps kw bad =
      (psSlots cfg s args kw0 i ps).map fun sl =>
        (sl, kw.eraseList (takenKw cfg s args kw0 i ps), bad || badKw cfg s args kw0 i ps) := by
  intro ps
  induction ps with
  | nil => intro i kw bad _ _; simp [PS.posLoop, psSlots, takenKw, badKw, KW.eraseList]
  | cons p ps ih =>
    intro i kw bad hnd hinv
    have hp := hinv p (by simp)
    have hnd' : ps.Nodup := (List.nodup_cons.mp hnd).2
    have hpn : p ∉ ps := (List.nodup_cons.mp hnd).1
    have hskip : (cfg.posonlyKwToKwargs && s.kwarg && decide (i < s.posonly.length)) = !matchOn cfg s i := by
      simp [matchOn]
    simp only [PS.posLoop, hskip, Bool.not_not, hp.1, hp.2]
    by_cases hpos : i < args.length
    · simp only [hpos, if_true]
      by_cases hc : (kw0.has p && matchOn cfg s i) = true
      · simp [hc, psSlots, psVal, hpos]
      · simp only [hc, Bool.false_eq_true, if_false]
        rw [ih (i + 1) kw bad hnd' (fun q hq => hinv q (by simp [hq]))]
        have hc' : (!decide (i < args.length) && kw0.has p && matchOn cfg s i) = false := by simp [hpos]
        simp only [psSlots, psVal, hpos, if_true, hc, Bool.false_eq_true, if_false, takenKw, badKw, hc']
        cases psSlots cfg s args kw0 (i + 1) ps <;> simp
    · simp only [hpos, if_false]
      by_cases hc : (kw0.has p && matchOn cfg s i) = true
      · simp only [hc, if_true]
        rw [ih (i + 1) (kw.erase p) (bad || decide (i < s.posonly.length)) hnd' (fun q hq => by
          have hne : q ≠ p := fun e => hpn (e ▸ hq)
          rw [KW.has_erase_ne _ _ _ hne, KW.get_erase_ne _ _ _ hne]
          exact hinv q (by simp [hq]))]
        have hc1 : kw0.has p = true := by simp only [Bool.and_eq_true] at hc; exact hc.1
        have hc2 : matchOn cfg s i = true := by simp only [Bool.and_eq_true] at hc; exact hc.2
        simp only [psSlots, psVal, hpos, if_false, hc, if_true, takenKw, badKw, KW.eraseList, hc1, hc2,
          decide_false, Bool.not_false, Bool.and_self, Bool.true_and]
        cases psSlots cfg s args kw0 (i + 1) ps <;> simp [Bool.or_assoc]
      · simp only [hc, Bool.false_eq_true, if_false]
        have hc' : (!decide (i < args.length) && kw0.has p && matchOn cfg s i) = false := by
          simp only [Bool.and_assoc]; simp [hc]
        by_cases hd : s.nposn ≤ i
        · simp only [hd, if_true]
          rw [ih (i + 1) kw bad hnd' (fun q hq => hinv q (by simp [hq]))]
          have hc3 : ¬(kw0.has p = true ∧ matchOn cfg s i = true) := by simpa [Bool.and_eq_true] using hc
          have hcf : (kw0.has p && matchOn cfg s i) = false := by simpa using hc
          simp only [psSlots, psVal, hpos, if_false, hc, Bool.false_eq_true, hd, if_true, takenKw, badKw, hc']
          cases psSlots cfg s args kw0 (i + 1) ps <;> simp [hc3, hcf]
        · simp [hd, psSlots, psVal, hpos, hc]

end

/-! ### the keyword-only loop -/

def kwoTaken (kw0 : KW) : List (String × Bool) → List String
  | [] => []
  | (k, _) :: ks => if kw0.has k then k :: kwoTaken kw0 ks else kwoTaken kw0 ks

theorem kwonlyLoop_char (kw0 : KW) : ∀ (ks : List (String × Bool)) (i : Nat) (kw : KW), (ks.map (·.1)).Nodup →
    (∀ k ∈ ks.map (·.1), kw.has k = kw0.has k ∧ kw.get k = kw0.get k) →
    PS.kwonlyLoop i ks kw = (Spec.kwoSlots kw0 i ks).map fun sl => (sl, kw.eraseList (kwoTaken kw0 ks)) := by
  intro ks
  induction ks with
  | nil => intro i kw _ _; simp [PS.kwonlyLoop, Spec.kwoSlots, kwoTaken, KW.eraseList]
  | cons hd tl ih =>
    intro i kw hnd hinv
    obtain ⟨k, d⟩ := hd
    simp only [List.map_cons, List.nodup_cons] at hnd
    have hk := hinv k (by simp)
    simp only [PS.kwonlyLoop, hk.1, hk.2]
    by_cases hh : kw0.has k = true
    · simp only [hh, if_true]
      rw [ih (i + 1) (kw.erase k) hnd.2 (fun q hq => by
        have hne : q ≠ k := fun e => hnd.1 (e ▸ hq)
        rw [KW.has_erase_ne _ _ _ hne, KW.get_erase_ne _ _ _ hne]
        exact hinv q (by simp [hq]))]
      simp only [Spec.kwoSlots, Spec.kwonlyVal, hh, if_true, kwoTaken, KW.eraseList]
      cases Spec.kwoSlots kw0 (i + 1) tl <;> simp
    · simp only [hh, Bool.false_eq_true, if_false]
      cases d with
      | true =>
        simp only [if_true]
        rw [ih (i + 1) kw hnd.2 (fun q hq => hinv q (by simp [hq]))]
        simp only [Spec.kwoSlots, Spec.kwonlyVal, hh, Bool.false_eq_true, if_false, if_true, kwoTaken]
        cases Spec.kwoSlots kw0 (i + 1) tl <;> simp
      | false => simp [Spec.kwoSlots, Spec.kwonlyVal, hh]

end PsModel.C03

namespace PsModel.C03
/-! ### relating the loop's per-parameter decisions to the declarative reference -/
section
variable (cfg : Cfg) (s : Sig) (args : List Nat) (kw0 : KW)

/-- a positional-or-keyword parameter (index ≥ #posonly) filled positionally and by keyword, from index `i` on -/
def multFrom : Nat → List String → Bool
  | _, [] => false
  | i, p :: ps => (decide (s.posonly.length ≤ i) && decide (i < args.length) && kw0.has p) || multFrom (i + 1) ps

/-- no positional-only parameter (from index i on) for which matching is enabled has a same-named keyword -/
def NoPoKw : Nat → List String → Prop
  | _, [] => True
  | i, p :: ps => (i < s.posonly.length → matchOn cfg s i = true → kw0.has p = false) ∧ NoPoKw (i + 1) ps

theorem matchOn_of_ge (i : Nat) (h : s.posonly.length ≤ i) : matchOn cfg s i = true := by
  have : ¬ i < s.posonly.length := by omega
  simp [matchOn, this]

theorem psSlots_of_NoPoKw : ∀ (ps : List String) (i : Nat), NoPoKw cfg s kw0 i ps →
    psSlots cfg s args kw0 i ps = if multFrom s args kw0 i ps then none else Spec.posSlots s args kw0 i ps := by
  intro ps
  induction ps with
  | nil => intro i _; simp [psSlots, multFrom, Spec.posSlots]
  | cons p ps ih =>
    intro i h
    obtain ⟨hp, hrest⟩ := h
    simp only [psSlots, multFrom, Spec.posSlots, ih (i + 1) hrest]
    by_cases hpo : i < s.posonly.length
    · -- positional-only parameter
      have hge : ¬ s.posonly.length ≤ i := by omega
      have hm : (kw0.has p && matchOn cfg s i) = false := by
        cases hmo : matchOn cfg s i with
        | false => simp
        | true => simp [hp hpo hmo]
      simp only [psVal, Spec.slotVal, hm, hge, decide_false, Bool.false_and, Bool.false_or, Bool.false_eq_true, if_false]
      by_cases hpos : i < args.length
      · simp only [hpos, if_true]
        by_cases hmu : multFrom s args kw0 (i + 1) ps = true <;> simp [hmu] <;>
            (cases Spec.posSlots s args kw0 (i + 1) ps <;> rfl)
      · simp only [hpos, if_false]
        by_cases hd : s.nposn ≤ i
        · simp only [hd, if_true]
          by_cases hmu : multFrom s args kw0 (i + 1) ps = true <;> simp [hmu] <;>
            (cases Spec.posSlots s args kw0 (i + 1) ps <;> rfl)
        · simp [hd]
    · -- positional-or-keyword parameter
      have hge : s.posonly.length ≤ i := by omega
      have hmo := matchOn_of_ge cfg s i hge
      simp only [psVal, Spec.slotVal, hmo, Bool.and_true, hge, decide_true, Bool.true_and]
      by_cases hpos : i < args.length
      · simp only [hpos, if_true, decide_true, Bool.true_and]
        by_cases hh : kw0.has p = true
        · simp [hh]
        · simp only [hh, Bool.false_eq_true, if_false, Bool.false_or]
          by_cases hmu : multFrom s args kw0 (i + 1) ps = true <;> simp [hmu] <;>
            (cases Spec.posSlots s args kw0 (i + 1) ps <;> rfl)
      · simp only [hpos, if_false, decide_false, Bool.false_and, Bool.false_or]
        by_cases hh : kw0.has p = true
        · simp only [hh, if_true]
          by_cases hmu : multFrom s args kw0 (i + 1) ps = true <;> simp [hmu] <;>
            (cases Spec.posSlots s args kw0 (i + 1) ps <;> rfl)
        · simp only [hh, Bool.false_eq_true, if_false]
          by_cases hd : s.nposn ≤ i
          · simp only [hd, if_true]
            by_cases hmu : multFrom s args kw0 (i + 1) ps = true <;> simp [hmu] <;>
            (cases Spec.posSlots s args kw0 (i + 1) ps <;> rfl)
          · simp [hd]

theorem badKw_of_NoPoKw : ∀ (ps : List String) (i : Nat), NoPoKw cfg s kw0 i ps →
    badKw cfg s args kw0 i ps = false := by
  intro ps
  induction ps with
  | nil => intro i _; rfl
  | cons p ps ih =>
    intro i h
    obtain ⟨hp, hrest⟩ := h
    simp only [badKw, ih (i + 1) hrest, Bool.or_false]
    by_cases hpo : i < s.posonly.length
    · cases hmo : matchOn cfg s i with
      | false => simp
      | true => simp [hp hpo hmo]
    · simp [hpo]

/-- when some positional-only parameter with matching enabled has a same-named keyword, the loop fails or sets `bad` -/
theorem fail_of_not_NoPoKw : ∀ (ps : List String) (i : Nat), ¬ NoPoKw cfg s kw0 i ps →
    psSlots cfg s args kw0 i ps = none ∨ badKw cfg s args kw0 i ps = true := by
  intro ps
  induction ps with
  | nil => intro i h; exact absurd trivial h
  | cons p ps ih =>
    intro i h
    simp only [NoPoKw] at h
    have h : ¬(i < s.posonly.length → matchOn cfg s i = true → kw0.has p = false) ∨ ¬NoPoKw cfg s kw0 (i + 1) ps := by
      by_cases a : (i < s.posonly.length → matchOn cfg s i = true → kw0.has p = false)
      · exact Or.inr fun b => h ⟨a, b⟩
      · exact Or.inl a
    rcases h with h | h
    · -- this parameter is the culprit
      have ⟨hpo, hmo, hh⟩ : i < s.posonly.length ∧ matchOn cfg s i = true ∧ kw0.has p = true := by
        by_cases a : i < s.posonly.length
        · by_cases b : matchOn cfg s i = true
          · by_cases c : kw0.has p = true
            · exact ⟨a, b, c⟩
            · exact absurd (fun _ _ => by simpa using c) h
          · exact absurd (fun _ hb => absurd hb b) h
        · exact absurd (fun ha => absurd ha a) h
      by_cases hpos : i < args.length
      · left; simp [psSlots, psVal, hpos, hh, hmo]
      · right; simp [badKw, hpos, hh, hmo, hpo]
    · rcases ih (i + 1) h with h1 | h1
      · left
        simp only [psSlots, h1]
        cases psVal cfg s args kw0 i p <;> rfl
      · right; simp [badKw, h1]

end
end PsModel.C03

namespace PsModel.C03
section
variable (cfg : Cfg) (s : Sig) (args : List Nat) (kw0 : KW)

theorem takenKw_subset : ∀ (ps : List String) (i : Nat), ∀ p ∈ takenKw cfg s args kw0 i ps, p ∈ ps := by
  intro ps
  induction ps with
  | nil => intro i p h; simp [takenKw] at h
  | cons q ps ih =>
    intro i p h
    simp only [takenKw] at h
    split at h
    · simp only [List.mem_cons] at h
      rcases h with rfl | h
      · simp
      · exact List.mem_cons_of_mem _ (ih (i + 1) p h)
    · exact List.mem_cons_of_mem _ (ih (i + 1) p h)

/-- `multFrom` ignores the positional-only prefix -/
theorem multFrom_prefix : ∀ (po : List String) (i : Nat) (ar : List String), i + po.length ≤ s.posonly.length →
    multFrom s args kw0 i (po ++ ar) = multFrom s args kw0 (i + po.length) ar := by
  intro po
  induction po with
  | nil => intro i ar _; simp
  | cons p po ih =>
    intro i ar h
    simp only [List.length_cons] at h
    have hlt : ¬ s.posonly.length ≤ i := by omega
    simp only [List.cons_append, multFrom, hlt, decide_false, Bool.false_and, Bool.false_or]
    rw [ih (i + 1) ar (by omega)]
    congr 1
    simp only [List.length_cons]; omega

theorem multFrom_args : ∀ (ar : List String) (i : Nat), s.posonly.length ≤ i →
    multFrom s args kw0 i ar = Spec.multipleFrom args kw0 i ar := by
  intro ar
  induction ar with
  | nil => intro i _; rfl
  | cons p ar ih =>
    intro i h
    simp only [multFrom, Spec.multipleFrom, h, decide_true, Bool.true_and]
    rw [ih (i + 1) (by omega)]

theorem multFrom_params : multFrom s args kw0 0 s.params = Spec.multiple s args kw0 := by
  simp only [Sig.params, Spec.multiple]
  rw [multFrom_prefix s args kw0 s.posonly 0 s.args (by omega)]
  simp only [Nat.zero_add]
  exact multFrom_args s args kw0 s.args _ (Nat.le_refl _)

/-- under NoPoKw nothing is taken from the positional-only prefix -/
theorem takenKw_prefix : ∀ (po : List String) (i : Nat) (ar : List String), i + po.length ≤ s.posonly.length →
    NoPoKw cfg s kw0 i (po ++ ar) →
    takenKw cfg s args kw0 i (po ++ ar) = takenKw cfg s args kw0 (i + po.length) ar := by
  intro po
  induction po with
  | nil => intro i ar _ _; simp
  | cons p po ih =>
    intro i ar h hn
    simp only [List.length_cons] at h
    simp only [List.cons_append, NoPoKw] at hn
    have hpo : i < s.posonly.length := by omega
    have hc : (!decide (i < args.length) && kw0.has p && matchOn cfg s i) = false := by
      cases hmo : matchOn cfg s i with
      | false => simp
      | true => simp [hn.1 hpo hmo]
    simp only [List.cons_append, takenKw, hc, Bool.false_eq_true, if_false]
    rw [ih (i + 1) ar (by omega) hn.2]
    congr 1
    simp only [List.length_cons]; omega

/-- a keyword naming a positional-or-keyword parameter is consumed by the loop unless that parameter was also given
positionally -/
theorem mem_takenKw_args : ∀ (ar : List String) (i : Nat), s.posonly.length ≤ i →
    multFrom s args kw0 i ar = false → ∀ p ∈ ar, kw0.has p = true → p ∈ takenKw cfg s args kw0 i ar := by
  intro ar
  induction ar with
  | nil => intro i _ _ p hp; simp at hp
  | cons q ar ih =>
    intro i hi hm p hp hh
    simp only [multFrom, hi, decide_true, Bool.true_and, Bool.or_eq_false_iff] at hm
    have hmo := matchOn_of_ge cfg s i hi
    simp only [List.mem_cons] at hp
    simp only [takenKw, hmo, Bool.and_true]
    rcases hp with rfl | hp
    · have hnp : ¬ i < args.length := by
        intro hlt
        have := hm.1
        simp [hlt, hh] at this
      simp [hnp, hh]
    · have := ih (i + 1) (by omega) hm.2 p hp hh
      split
      · exact List.mem_cons_of_mem _ this
      · exact this

theorem mem_kwoTaken (ks : List (String × Bool)) (k : String) :
    k ∈ kwoTaken kw0 ks ↔ k ∈ ks.map (·.1) ∧ kw0.has k = true := by
  induction ks with
  | nil => simp [kwoTaken]
  | cons hd tl ih =>
    obtain ⟨q, d⟩ := hd
    simp only [kwoTaken, List.map_cons, List.mem_cons]
    by_cases hq : kw0.has q = true
    · simp only [hq, if_true, List.mem_cons, ih]
      constructor
      · rintro (rfl | ⟨h1, h2⟩)
        · exact ⟨Or.inl rfl, hq⟩
        · exact ⟨Or.inr h1, h2⟩
      · rintro ⟨rfl | h1, h2⟩
        · exact Or.inl rfl
        · exact Or.inr ⟨h1, h2⟩
    · simp only [hq, Bool.false_eq_true, if_false, ih]
      constructor
      · rintro ⟨h1, h2⟩; exact ⟨Or.inr h1, h2⟩
      · rintro ⟨rfl | h1, h2⟩
        · exact absurd h2 hq
        · exact ⟨h1, h2⟩

end
end PsModel.C03

namespace PsModel.C03
section
variable (cfg : Cfg) (s : Sig) (args : List Nat) (kw0 : KW)

theorem exists_of_not_NoPoKw : ∀ (ps : List String) (i : Nat), ¬ NoPoKw cfg s kw0 i ps →
    ∃ p ∈ ps.take (s.posonly.length - i), kw0.has p = true ∧ (cfg.posonlyKwToKwargs && s.kwarg) = false := by
  intro ps
  induction ps with
  | nil => intro i h; exact absurd trivial h
  | cons q ps ih =>
    intro i h
    simp only [NoPoKw] at h
    by_cases a : (i < s.posonly.length → matchOn cfg s i = true → kw0.has q = false)
    · have h2 : ¬NoPoKw cfg s kw0 (i + 1) ps := fun b => h ⟨a, b⟩
      obtain ⟨p, hp, hh, hf⟩ := ih (i + 1) h2
      have hpos : 0 < s.posonly.length - (i + 1) := by
        by_cases hz : s.posonly.length - (i + 1) = 0
        · rw [hz] at hp; simp at hp
        · omega
      have e : s.posonly.length - i = (s.posonly.length - (i + 1)) + 1 := by omega
      refine ⟨p, ?_, hh, hf⟩
      rw [e, List.take_succ_cons]
      exact List.mem_cons_of_mem _ hp
    · have hpo : i < s.posonly.length := by
        by_cases c : i < s.posonly.length
        · exact c
        · exact absurd (fun hc => absurd hc c) a
      have hmo : matchOn cfg s i = true := by
        by_cases c : matchOn cfg s i = true
        · exact c
        · exact absurd (fun _ hc => absurd hc c) a
      have hh : kw0.has q = true := by
        by_cases c : kw0.has q = true
        · exact c
        · exact absurd (fun _ _ => by simpa using c) a
      have e : s.posonly.length - i = (s.posonly.length - (i + 1)) + 1 := by omega
      refine ⟨q, ?_, hh, ?_⟩
      · rw [e, List.take_succ_cons]; simp
      · simp only [matchOn, hpo, decide_true, Bool.and_true, Bool.not_eq_true'] at hmo
        exact hmo

end
end PsModel.C03
