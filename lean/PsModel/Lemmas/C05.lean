import PsModel.Model.C05
import PsModel.Spec.C05
/-!
# C05 helper lemmas – simulation of the hold machines by the documented timeline

`abs` maps the legacy loop variables to the spec state (`state_trig_waiting`/`last_state_trig_time`/
`state_trig_notify_info` ↔ `pending`, `state_false_time` ↔ `falseSince`).  Each loop iteration (optional hold
expiry, then one message) commutes with `abs`; the gap lemma `abs_expire` is the only place the no-ties hypothesis is
used ("between two events the model takes exactly the expiry steps due in the gap").
-/
namespace PsModel.C05
open Spec

/-! ## legacy decorator loop -/

def abs (st : LState) : SState :=
  ⟨if st.waiting then some (st.trigTime, st.info) else none, st.falseTime, st.runs⟩

theorem abs_expire (cfg : Cfg) (st : LState) (t : Nat)
    (hno : st.waiting = true → t ≠ st.trigTime + cfg.hold.getD 0) :
    abs (if Legacy.deadlineBefore cfg st t then Legacy.onTimeout cfg st else st) = expire cfg (abs st) t := by
  obtain ⟨w, tt, inf, ft, rs⟩ := st
  unfold Legacy.deadlineBefore Legacy.onTimeout expire abs
  cases w with
  | false => simp
  | true =>
    have := hno rfl
    simp only at this
    by_cases h : tt + cfg.hold.getD 0 < t
    · have h2 : tt + cfg.hold.getD 0 ≤ t := Nat.le_of_lt h
      simp [h, h2]
    · have h2 : ¬ (tt + cfg.hold.getD 0 ≤ t) := by omega
      simp [h, h2]

theorem abs_flush (cfg : Cfg) (st : LState) :
    abs (if st.waiting then Legacy.onTimeout cfg st else st) = flush cfg (abs st) := by
  obtain ⟨w, tt, inf, ft, rs⟩ := st
  unfold Legacy.onTimeout flush abs
  cases w <;> simp

/-- one evaluation message: the decision tree of `trigger_watch` computes the spec's `onEval` -/
theorem abs_onEval (cfg : Cfg) (st : LState) (t : Nat) (b : Bool) (a : Nat)
    (hwS : st.waiting = true → cfg.hold.isSome = true) :
    abs (Legacy.onMsg cfg st t false (.eval b) a) = onEval cfg (abs st) t b a := by
  obtain ⟨w, tt, inf, ft, rs⟩ := st
  obtain ⟨cn, S, H⟩ := cfg
  unfold Legacy.onMsg Legacy.holdFalseStep Legacy.holdStep Legacy.finish onEval candidate abs
  cases H with
  | none =>
    cases S <;> cases b <;> cases w <;> first | (simp; done) | (exfalso; simpa using hwS rfl)
  | some hf =>
    cases ft with
    | none =>
      cases S <;> cases b <;> cases w <;> first | (simp; done) | (exfalso; simpa using hwS rfl)
    | some f =>
      cases b with
      | false =>
        cases S <;> cases w <;> first | (simp; done) | (exfalso; simpa using hwS rfl)
      | true =>
        by_cases hts : t - f < hf
        · have : ¬ (t - f ≥ hf) := by omega
          cases S <;> cases w <;> first | (simp [hts, this]; done) | (exfalso; simpa using hwS rfl)
        · have : t - f ≥ hf := by omega
          cases S <;> cases w <;> first | (simp [hts, this]; done) | (exfalso; simpa using hwS rfl)

theorem abs_start (cfg : Cfg) (b0 : Bool) : abs (Legacy.start cfg b0) = Spec.start cfg b0 := by
  obtain ⟨cn, S, H⟩ := cfg
  unfold Legacy.start Spec.start Legacy.onMsg Legacy.holdFalseStep Legacy.holdStep Legacy.finish candidate abs
    Legacy.init
  cases cn <;> cases H <;> cases S <;> cases b0 <;> simp

theorem gridFrom_tail {cfg : Cfg} {s : Nat} {e : Evt} {es : List Evt} (h : gridFrom cfg s (e :: es) = true) :
    (s < e.t ∧ e.t ≠ s + cfg.hold.getD 0) ∧ gridFrom cfg s es = true := by
  simpa [gridFrom] using h

/-- `state_trig_waiting` is only ever set at the time of the message being handled, and only with `state_hold` -/
theorem onMsg_waiting (cfg : Cfg) (st : LState) (t : Nat) (k : Kind) (a : Nat) :
    (Legacy.onMsg cfg st t false k a).waiting = true →
      (cfg.hold.isSome = true ∧ (Legacy.onMsg cfg st t false k a).trigTime = t) ∨
        (st.waiting = true ∧ (Legacy.onMsg cfg st t false k a).trigTime = st.trigTime) := by
  obtain ⟨w, tt, inf, ft, rs⟩ := st
  obtain ⟨cn, S, H⟩ := cfg
  unfold Legacy.onMsg Legacy.holdFalseStep Legacy.holdStep Legacy.finish
  cases k with
  | unrelated => intro h; exact Or.inr ⟨h, rfl⟩
  | skip => intro h; exact Or.inr ⟨h, rfl⟩
  | eval b =>
    cases H with
    | none => cases S <;> cases b <;> cases w <;> simp
    | some hf =>
      cases ft with
      | none => cases S <;> cases b <;> cases w <;> simp
      | some f =>
        by_cases hts : t - f < hf <;> cases S <;> cases b <;> cases w <;> simp [hts]

theorem onTimeout_waiting (cfg : Cfg) (st : LState) : (Legacy.onTimeout cfg st).waiting = false := rfl

theorem start_waiting (cfg : Cfg) (b0 : Bool) :
    (Legacy.start cfg b0).waiting = true → cfg.hold.isSome = true ∧ (Legacy.start cfg b0).trigTime = 0 := by
  obtain ⟨cn, S, H⟩ := cfg
  unfold Legacy.start Legacy.onMsg Legacy.holdFalseStep Legacy.holdStep Legacy.finish Legacy.init
  cases cn <;> cases H <;> cases S <;> cases b0 <;> simp

/-- **simulation, legacy**: along any no-ties history the loop-variable machine and the timeline agree -/
theorem legacy_sim (cfg : Cfg) (hist : List Evt) :
    ∀ st : LState, (st.waiting = true → cfg.hold.isSome = true ∧ gridFrom cfg st.trigTime hist = true) →
      grid cfg hist = true → abs (Legacy.drive cfg st hist) = Spec.drive cfg (abs st) hist := by
  induction hist with
  | nil => intro st _ _; simp only [Legacy.drive, Spec.drive]; exact abs_flush cfg st
  | cons e es ih =>
    intro st hw hg
    simp only [Legacy.drive, Spec.drive]
    have hg' : gridFrom cfg e.t es = true ∧ grid cfg es = true := by simpa [grid] using hg
    have hno : st.waiting = true → e.t ≠ st.trigTime + cfg.hold.getD 0 := fun h => (gridFrom_tail (hw h).2).1.2
    have hexp := abs_expire cfg st e.t hno
    -- the state after the (possible) expiry
    generalize hst1 : (if Legacy.deadlineBefore cfg st e.t then Legacy.onTimeout cfg st else st) = st1 at hexp
    have hw1 : st1.waiting = true → st.waiting = true ∧ st1.trigTime = st.trigTime := by
      intro h
      rw [← hst1] at h ⊢
      by_cases hd : Legacy.deadlineBefore cfg st e.t = true
      · simp [hd, onTimeout_waiting] at h
      · simp only [hd] at h ⊢; exact ⟨h, rfl⟩
    have hstep : abs (Legacy.onMsg cfg st1 e.t false e.k e.a) = onEvt cfg (abs st) e := by
      unfold onEvt
      cases hk : e.k with
      | eval b => rw [abs_onEval _ _ _ _ _ (fun h => (hw (hw1 h).1).1), hexp]
      | skip => simp only [Legacy.onMsg]; exact hexp
      | unrelated => simp only [Legacy.onMsg]; exact hexp
    rw [← hstep]
    apply ih _ _ hg'.2
    intro hw2
    rcases onMsg_waiting cfg st1 e.t e.k e.a hw2 with ⟨h0, h⟩ | ⟨h1, h2⟩
    · rw [h]; exact ⟨h0, hg'.1⟩
    · rw [h2]
      obtain ⟨h3, h4⟩ := hw1 h1
      rw [h4]
      exact ⟨(hw h3).1, (gridFrom_tail (hw h3).2).2⟩

/-! ## legacy `task.wait_until` against the decorator loop -/

/-- `wait_until` and the decorator loop move in lock step until the first run -/
def WJ (w : WaitUntil.WState) (l : LState) : Prop :=
  (w.ret = none ∧ w.st = l ∧ l.runs = []) ∨ (∃ r, w.ret = some r ∧ l.runs.head? = some r)

theorem head_append_some {α} {l : List α} {r : α} (h : l.head? = some r) (m : List α) : (l ++ m).head? = some r := by
  cases l with
  | nil => simp at h
  | cons x xs => simpa using h

theorem onMsg_runs_head (cfg : Cfg) (st : LState) (t : Nat) (k : Kind) (a : Nat) (r : Run)
    (h : st.runs.head? = some r) : (Legacy.onMsg cfg st t false k a).runs.head? = some r := by
  obtain ⟨w, tt, inf, ft, rs⟩ := st
  obtain ⟨cn, S, H⟩ := cfg
  simp only at h
  unfold Legacy.onMsg Legacy.holdFalseStep Legacy.holdStep Legacy.finish
  cases k with
  | unrelated => exact h
  | skip => exact h
  | eval b =>
    cases H with
    | none => cases S <;> cases b <;> cases w <;> simp [h, head_append_some h]
    | some hf =>
      cases ft with
      | none => cases S <;> cases b <;> cases w <;> simp [h, head_append_some h]
      | some f =>
        by_cases hts : t - f < hf <;> cases S <;> cases b <;> cases w <;> simp [hts, h, head_append_some h]

theorem onTimeout_runs_head (cfg : Cfg) (st : LState) (r : Run) (h : st.runs.head? = some r) :
    (Legacy.onTimeout cfg st).runs.head? = some r := by
  simp only [Legacy.onTimeout]; exact head_append_some h _

theorem wj_timeout (cfg : Cfg) {w : WaitUntil.WState} {l : LState} (h : WJ w l) :
    WJ (WaitUntil.onTimeout cfg w) (Legacy.onTimeout cfg l) := by
  rcases h with ⟨h1, h2, h3⟩ | ⟨r, h1, h2⟩
  · right
    refine ⟨(l.trigTime + cfg.hold.getD 0, l.info), ?_, ?_⟩
    · simp [WaitUntil.onTimeout, h1, h2]
    · simp [Legacy.onTimeout, h3]
  · right
    exact ⟨r, by simp [WaitUntil.onTimeout, h1], onTimeout_runs_head cfg l r h2⟩

theorem wj_msg (cfg : Cfg) {w : WaitUntil.WState} {l : LState} (h : WJ w l) (t : Nat) (k : Kind) (a : Nat) :
    WJ (WaitUntil.onMsg cfg w t k a) (Legacy.onMsg cfg l t false k a) := by
  rcases h with ⟨h1, h2, h3⟩ | ⟨r, h1, h2⟩
  · subst h2
    obtain ⟨⟨wt, tt, inf, ft, rs⟩, ret⟩ := w
    obtain ⟨cn, S, H⟩ := cfg
    simp only at h1 h3
    subst h1; subst h3
    unfold WJ WaitUntil.onMsg WaitUntil.holdFalseStep Legacy.onMsg Legacy.holdFalseStep Legacy.holdStep
      Legacy.finish
    cases k with
    | unrelated => simp
    | skip => simp
    | eval b =>
      cases H with
      | none => cases S <;> cases b <;> cases wt <;> simp
      | some hf =>
        cases ft with
        | none => cases S <;> cases b <;> cases wt <;> simp
        | some f =>
          by_cases hts : t - f < hf <;> cases S <;> cases b <;> cases wt <;> simp [hts]
  · right
    exact ⟨r, by simp [WaitUntil.onMsg, h1], onMsg_runs_head cfg l t k a r h2⟩

theorem wj_waiting {w : WaitUntil.WState} {l : LState} (h : WJ w l) (hr : w.ret = none) : w.st = l := by
  rcases h with ⟨_, h2, _⟩ | ⟨r, h1, _⟩
  · exact h2
  · rw [hr] at h1; exact absurd h1 (by simp)

theorem wu_sim (cfg : Cfg) (hist : List Evt) :
    ∀ (w : WaitUntil.WState) (l : LState), WJ w l →
      (WaitUntil.drive cfg w hist).ret = (Legacy.drive cfg l hist).runs.head? := by
  induction hist with
  | nil =>
    intro w l h
    simp only [WaitUntil.drive, Legacy.drive]
    rcases h with ⟨h1, h2, h3⟩ | ⟨r, h1, h2⟩
    · subst h2
      cases hw : w.st.waiting with
      | false => simp [h1, h3]
      | true => simp [WaitUntil.onTimeout, Legacy.onTimeout, h1, h3]
    · have e1 : (if w.st.waiting = true then WaitUntil.onTimeout cfg w else w).ret = some r := by
        split <;> simp [WaitUntil.onTimeout, h1]
      have e2 : (if l.waiting = true then Legacy.onTimeout cfg l else l).runs.head? = some r := by
        split
        · exact onTimeout_runs_head cfg l r h2
        · exact h2
      rw [e1, e2]
  | cons e es ih =>
    intro w l h
    simp only [WaitUntil.drive, Legacy.drive]
    apply ih
    apply wj_msg
    rcases h with ⟨h1, h2, h3⟩ | ⟨r, h1, h2⟩
    · subst h2
      by_cases hd : Legacy.deadlineBefore cfg w.st e.t = true
      · simp only [hd, if_true]
        exact wj_timeout cfg (Or.inl ⟨h1, rfl, h3⟩)
      · simp only [hd]; exact Or.inl ⟨h1, rfl, h3⟩
    · -- already returned: `w` is frozen, the decorator loop keeps its first run
      right
      refine ⟨r, ?_, ?_⟩
      · split <;> simp [WaitUntil.onTimeout, h1]
      · split
        · exact onTimeout_runs_head cfg l r h2
        · exact h2

/-- the pre-fix initial check of `wait_until` agreed with the decorator loop only outside
`state_check_now ∧ state_hold_false ∧ initially false`; since fix `07b3e39` (`unrecorded = false`) it always does -/
theorem wj_startF (unrecorded : Bool) (cfg : Cfg) (b0 : Bool)
    (hok : unrecorded = true → ¬ (cfg.checkNow = true ∧ cfg.holdFalse.isSome = true ∧ b0 = false)) :
    WJ (WaitUntil.startF unrecorded cfg b0) (Legacy.start cfg b0) := by
  obtain ⟨cn, S, H⟩ := cfg
  unfold WJ WaitUntil.startF Legacy.start Legacy.onMsg Legacy.holdFalseStep Legacy.holdStep Legacy.finish Legacy.init
  cases unrecorded <;> cases cn <;> cases H <;> cases S <;> cases b0 <;> simp_all

theorem wj_start (cfg : Cfg) (b0 : Bool) : WJ (WaitUntil.start cfg b0) (Legacy.start cfg b0) :=
  wj_startF false cfg b0 (fun h => absurd h (by simp))

/-! ## legacy `task.wait_until` with an overall timeout -/

/-- a return produced while handling a message carries the time of that message; if nothing is returned and a hold
is pending afterwards, it was started now or was pending before -/
theorem wu_onMsg_facts (cfg : Cfg) (w : WaitUntil.WState) (hr : w.ret = none) (t : Nat) (k : Kind) (a : Nat) :
    (∀ r, (WaitUntil.onMsg cfg w t k a).ret = some r → r.1 = t) ∧
      ((WaitUntil.onMsg cfg w t k a).ret = none → (WaitUntil.onMsg cfg w t k a).st.waiting = true →
        (WaitUntil.onMsg cfg w t k a).st.trigTime = t ∨
          (w.st.waiting = true ∧ (WaitUntil.onMsg cfg w t k a).st.trigTime = w.st.trigTime)) := by
  obtain ⟨⟨wt, tt, inf, ft, rs⟩, ret⟩ := w
  obtain ⟨cn, S, H⟩ := cfg
  simp only at hr
  subst hr
  unfold WaitUntil.onMsg WaitUntil.holdFalseStep Legacy.holdStep
  cases k with
  | unrelated => simp; intro h; exact Or.inr h
  | skip => simp; intro h; exact Or.inr h
  | eval b =>
    cases H with
    | none => cases S <;> cases b <;> cases wt <;> simp
    | some hf =>
      cases ft with
      | none => cases S <;> cases b <;> cases wt <;> simp
      | some f =>
        by_cases hts : t - f < hf <;> cases S <;> cases b <;> cases wt <;> simp [hts]

theorem wu_onMsg_frozen (cfg : Cfg) (w : WaitUntil.WState) (r : Run) (hr : w.ret = some r) (t : Nat) (k : Kind)
    (a : Nat) : WaitUntil.onMsg cfg w t k a = w := by
  simp [WaitUntil.onMsg, hr]

theorem wu_onTimeout_frozen (cfg : Cfg) (w : WaitUntil.WState) (r : Run) (hr : w.ret = some r) :
    WaitUntil.onTimeout cfg w = w := by
  simp [WaitUntil.onTimeout, hr]

theorem wu_drive_frozen (cfg : Cfg) (hist : List Evt) :
    ∀ (w : WaitUntil.WState) (r : Run), w.ret = some r → (WaitUntil.drive cfg w hist).ret = some r := by
  induction hist with
  | nil =>
    intro w r hr
    simp only [WaitUntil.drive]
    split
    · rw [wu_onTimeout_frozen cfg w r hr]; exact hr
    · exact hr
  | cons e es ih =>
    intro w r hr
    simp only [WaitUntil.drive]
    apply ih
    have h1 : (if Legacy.deadlineBefore cfg w.st e.t = true then WaitUntil.onTimeout cfg w else w) = w := by
      split
      · exact wu_onTimeout_frozen cfg w r hr
      · rfl
    rw [h1, wu_onMsg_frozen cfg w r hr]; exact hr

/-- nothing is returned earlier than the pending deadline / the next message -/
theorem wu_drive_ret_ge (cfg : Cfg) (hist : List Evt) :
    ∀ (w : WaitUntil.WState) (m : Nat), w.ret = none → (∀ e ∈ hist, m ≤ e.t) →
      (w.st.waiting = true → m ≤ w.st.trigTime + cfg.hold.getD 0) →
      ∀ r, (WaitUntil.drive cfg w hist).ret = some r → m ≤ r.1 := by
  induction hist with
  | nil =>
    intro w m hr _ hw r h
    simp only [WaitUntil.drive] at h
    by_cases hwt : w.st.waiting = true
    · simp only [hwt, if_true, WaitUntil.onTimeout, hr] at h
      have : r = (w.st.trigTime + cfg.hold.getD 0, w.st.info) := by simpa using h.symm
      rw [this]; exact hw hwt
    · simp only [hwt, Bool.false_eq_true, if_false] at h; rw [hr] at h; simp at h
  | cons e es ih =>
    intro w m hr hm hw r h
    simp only [WaitUntil.drive] at h
    have hme : m ≤ e.t := hm e (by simp)
    generalize hw1 : (if Legacy.deadlineBefore cfg w.st e.t = true then WaitUntil.onTimeout cfg w else w) = w1 at h
    by_cases hd : Legacy.deadlineBefore cfg w.st e.t = true
    · -- the hold expires first: that is the return
      have hwt : w.st.waiting = true := by
        simp only [Legacy.deadlineBefore, Bool.and_eq_true] at hd; exact hd.1
      have hret : w1.ret = some (w.st.trigTime + cfg.hold.getD 0, w.st.info) := by
        rw [← hw1]; simp [hd, WaitUntil.onTimeout, hr]
      rw [wu_onMsg_frozen cfg w1 _ hret, wu_drive_frozen cfg es w1 _ hret] at h
      have : r = (w.st.trigTime + cfg.hold.getD 0, w.st.info) := by simpa using h.symm
      rw [this]; exact hw hwt
    · have hw1' : w1 = w := by rw [← hw1]; simp [hd]
      subst hw1'
      obtain ⟨f1, f2⟩ := wu_onMsg_facts cfg w1 hr e.t e.k e.a
      cases hr2 : (WaitUntil.onMsg cfg w1 e.t e.k e.a).ret with
      | some r2 =>
        rw [wu_drive_frozen cfg es _ r2 hr2] at h
        have : r = r2 := by simpa using h.symm
        rw [this, f1 r2 hr2]; exact hme
      | none =>
        apply ih _ m hr2 (fun e' he' => hm e' (List.mem_cons_of_mem _ he')) _ r h
        intro hwt2
        rcases f2 hr2 hwt2 with h1 | ⟨h1, h2⟩
        · rw [h1]; omega
        · rw [h2]; exact hw h1

/-- **the wake-up selection realises "first of"**: with an overall timeout `T` that coincides with no event, the
legacy loop returns what it would return without timeout if that comes before `T`, and the timeout otherwise -/
theorem driveT_eq (T : Nat) (cfg : Cfg) (hist : List Evt) :
    ∀ (w : WaitUntil.WState), (∀ r, w.ret = some r → r.1 < T) → (∀ e ∈ hist, e.t ≠ T) →
      hist.Pairwise (fun a b => a.t ≤ b.t) →
      WaitUntil.driveT T cfg w hist = cutT T (WaitUntil.drive cfg w hist).ret := by
  induction hist with
  | nil =>
    intro w hinv _ _
    simp only [WaitUntil.driveT, WaitUntil.drive]
    cases hr : w.ret with
    | some r =>
      have h1 : (if w.st.waiting = true then WaitUntil.onTimeout cfg w else w).ret = some r := by
        split
        · rw [wu_onTimeout_frozen cfg w r hr]; exact hr
        · exact hr
      simp [h1, cutT, hinv r hr]
    | none =>
      by_cases hwt : w.st.waiting = true
      · by_cases hlt : w.st.trigTime + cfg.hold.getD 0 < T <;>
          simp [WaitUntil.holdFirst, hwt, hlt, WaitUntil.onTimeout, hr, cutT]
      · simp [WaitUntil.holdFirst, hwt, hr, cutT]
  | cons e es ih =>
    intro w hinv hne hs
    have hs' := List.pairwise_cons.mp hs
    simp only [WaitUntil.driveT]
    cases hr : w.ret with
    | some r =>
      simp only
      rw [wu_drive_frozen cfg (e :: es) w r hr]
      simp [cutT, hinv r hr]
    | none =>
      simp only
      by_cases hto : (decide (T < e.t) && !WaitUntil.holdFirst cfg w T) = true
      · -- the overall timeout is the next wake-up
        simp only [hto, if_true]
        simp only [Bool.and_eq_true, decide_eq_true_eq, Bool.not_eq_true'] at hto
        obtain ⟨hT, hhf⟩ := hto
        have hge : ∀ r, (WaitUntil.drive cfg w (e :: es)).ret = some r → T ≤ r.1 := by
          apply wu_drive_ret_ge cfg (e :: es) w T hr
          · intro e' he'
            rcases List.mem_cons.mp he' with rfl | h
            · omega
            · have := hs'.1 e' h; omega
          · intro hwt
            simp only [WaitUntil.holdFirst, hwt, Bool.true_and, decide_eq_false_iff_not] at hhf
            omega
        cases hd : (WaitUntil.drive cfg w (e :: es)).ret with
        | none => simp [cutT]
        | some r =>
          have := hge r hd
          have hn : ¬ (r.1 < T) := by omega
          simp [cutT, hn]
      · simp only [hto, Bool.false_eq_true, if_false, WaitUntil.drive]
        apply ih _ _ (fun e' he' => hne e' (List.mem_cons_of_mem _ he')) hs'.2
        -- whatever is returned in this iteration comes before T
        intro r2 hr2
        have hto' : ¬ (T < e.t) ∨ WaitUntil.holdFirst cfg w T = true := by
          simp only [Bool.and_eq_true, decide_eq_true_eq, Bool.not_eq_true'] at hto
          by_cases h1 : T < e.t
          · right
            cases h2 : WaitUntil.holdFirst cfg w T with
            | true => rfl
            | false => exact absurd ⟨h1, h2⟩ hto
          · left; exact h1
        have hneT : e.t ≠ T := hne e (by simp)
        by_cases hd : Legacy.deadlineBefore cfg w.st e.t = true
        · have hret : (WaitUntil.onTimeout cfg w).ret = some (w.st.trigTime + cfg.hold.getD 0, w.st.info) := by
            simp [WaitUntil.onTimeout, hr]
          simp only [hd, if_true] at hr2
          rw [wu_onMsg_frozen cfg _ _ hret, hret] at hr2
          have : r2 = (w.st.trigTime + cfg.hold.getD 0, w.st.info) := by simpa using hr2.symm
          rw [this]
          simp only [Legacy.deadlineBefore, Bool.and_eq_true, decide_eq_true_eq] at hd
          rcases hto' with h1 | h1
          · simp only; omega
          · simp only [WaitUntil.holdFirst, Bool.and_eq_true, decide_eq_true_eq] at h1; exact h1.2
        · simp only [hd, Bool.false_eq_true, if_false] at hr2
          have := (wu_onMsg_facts cfg w hr e.t e.k e.a).1 r2 hr2
          rw [this]
          by_cases h3 : T < e.t
          · exfalso
            rcases hto' with h1 | h1
            · exact h1 h3
            · simp only [WaitUntil.holdFirst, Bool.and_eq_true, decide_eq_true_eq] at h1
              apply hd
              simp only [Legacy.deadlineBefore, Bool.and_eq_true, decide_eq_true_eq]
              exact ⟨h1.1, by omega⟩
          · omega

/-! ## new subsystem (as it is now): `true_entered_at`/`last_func_args` ↔ `pending`, `false_entered_at` ↔ `falseSince` -/

def nabs (st : NState) : SState :=
  ⟨st.te.map (fun s => (s, st.la)), st.fe, st.runs⟩

/-- static facts about a reachable state of `_cycle`: `state_hold_false` is the configured one (outside the
`task.wait_until` reset) and a hold can only be pending when `state_hold` is given -/
def NInv (cfg : Cfg) (st : NState) : Prop := st.hf = cfg.holdFalse ∧ (st.te.isSome = true → cfg.hold.isSome = true)

theorem nabs_expire (cfg : Cfg) (st : NState) (t : Nat)
    (hno : ∀ s, st.te = some s → t ≠ s + cfg.hold.getD 0) :
    nabs (if New.deadlineBefore cfg.hold st t then New.onTimeout cfg.hold st else st) = expire cfg (nabs st) t := by
  obtain ⟨te, fe, la, hf, rs⟩ := st
  unfold New.deadlineBefore New.onTimeout expire nabs
  cases te with
  | none => simp
  | some s =>
    have := hno s rfl
    by_cases hd : s + cfg.hold.getD 0 < t
    · have h2 : s + cfg.hold.getD 0 ≤ t := Nat.le_of_lt hd
      simp [hd, h2]
    · have h2 : ¬ (s + cfg.hold.getD 0 ≤ t) := by omega
      simp [hd, h2]

theorem ninv_expire (cfg : Cfg) (st : NState) (t : Nat) (h : NInv cfg st) :
    NInv cfg (if New.deadlineBefore cfg.hold st t then New.onTimeout cfg.hold st else st) := by
  obtain ⟨te, fe, la, hf, rs⟩ := st
  unfold NInv New.deadlineBefore New.onTimeout at *
  cases te with
  | none => simpa using h
  | some s => by_cases hd : s + cfg.hold.getD 0 < t <;> simp [hd] <;> simp_all

theorem nabs_flush (cfg : Cfg) (st : NState) : nabs (New.onTimeout cfg.hold st) = flush cfg (nabs st) := by
  obtain ⟨te, fe, la, hf, rs⟩ := st
  unfold New.onTimeout flush nabs
  cases te <;> simp

/-- one evaluation message (the hold, if pending, has not elapsed: the expiry step comes first) -/
theorem nabs_onEval (cfg : Cfg) (st : NState) (t : Nat) (b : Bool) (a : Nat) (h : NInv cfg st)
    (hfresh : ∀ s hh, st.te = some s → cfg.hold = some hh → t - s < hh) :
    nabs (New.onMsgF New.current cfg.hold st t (.eval b) a) = onEval cfg (nabs st) t b a ∧
      NInv cfg (New.onMsgF New.current cfg.hold st t (.eval b) a) := by
  obtain ⟨te, fe, la, hf, rs⟩ := st
  obtain ⟨cn, S, H⟩ := cfg
  obtain ⟨h1, h2⟩ := h
  simp only at h1 h2 hfresh
  subst h1
  unfold New.onMsgF New.remember New.current New.checkNewState onEval candidate nabs NInv
  cases te with
  | none =>
    cases hf with
    | none => cases S <;> cases b <;> simp
    | some hv =>
      cases fe with
      | none => cases S <;> cases b <;> simp
      | some f =>
        by_cases hge : t - f ≥ hv
        · cases S <;> cases b <;> simp [hge]
        · have hlt : t - f < hv := by omega
          cases S <;> cases b <;> simp [hge, hlt]
  | some s =>
    cases S with
    | none => simp at h2
    | some hh =>
      have hlt' : t - s < hh := hfresh s hh rfl rfl
      have hlt : ¬ (t - s ≥ hh) := by omega
      cases hf with
      | none => cases b <;> simp [hlt, hlt']
      | some hv =>
        cases fe with
        | none => cases b <;> simp [hlt, hlt']
        | some f =>
          by_cases hge : t - f ≥ hv
          · cases b <;> simp [hlt, hlt', hge]
          · have hlt2 : t - f < hv := by omega
            cases b <;> simp [hge, hlt2, hlt, hlt']

/-- the start-up check: with the pre-fix flags only outside `state_check_now ∧ state_hold_false ∧ initially true`,
since fix `e7ed034` (both start flags false) always -/
theorem nabs_startF (fl : New.Flags) (cfg : Cfg) (wu b0 : Bool)
    (hok : (fl.startNeedsFalse = true ∨ fl.wuClearsHoldFalse = true) →
      ¬ (cfg.checkNow = true ∧ cfg.holdFalse.isSome = true ∧ b0 = true)) :
    nabs (New.startF fl cfg wu b0) = Spec.start cfg b0 ∧ NInv cfg (New.startF fl cfg wu b0) := by
  obtain ⟨cn, S, H⟩ := cfg
  obtain ⟨f1, f2, f3, f4⟩ := fl
  unfold New.startF New.checkNewState Spec.start candidate nabs NInv
  cases f3 <;> cases f4 <;> cases cn <;> cases H <;> cases S <;> cases b0 <;> cases wu <;> simp_all

theorem nabs_start (cfg : Cfg) (wu b0 : Bool) :
    nabs (New.startF New.current cfg wu b0) = Spec.start cfg b0 ∧ NInv cfg (New.startF New.current cfg wu b0) :=
  nabs_startF New.current cfg wu b0 (fun h => by simp [New.current] at h)

theorem nr_start_te (fl : New.Flags) (cfg : Cfg) (wu b0 : Bool) (s : Nat)
    (h : (New.startF fl cfg wu b0).te = some s) : s = 0 := by
  obtain ⟨cn, S, H⟩ := cfg
  obtain ⟨f1, f2, f3, f4⟩ := fl
  revert h
  unfold New.startF New.checkNewState
  cases f3 <;> cases f4 <;> cases cn <;> cases H <;> cases S <;> cases b0 <;> cases wu <;> simp <;> omega

/-- `true_entered_at` is only ever set to the time of the message being handled -/
theorem new_onMsg_te (hold : Option Nat) (st : NState) (t : Nat) (k : Kind) (a : Nat) (s : Nat)
    (h : (New.onMsgF New.current hold st t k a).te = some s) : s = t ∨ st.te = some s := by
  obtain ⟨te, fe, la, hf, rs⟩ := st
  revert h
  unfold New.onMsgF New.remember New.current New.checkNewState
  cases k with
  | unrelated => intro h; exact Or.inr h
  | skip => intro h; exact Or.inr (by simpa using h)
  | eval b =>
    cases b with
    | false => cases hf <;> cases fe <;> cases te <;> simp
    | true =>
      have fin : ∀ (x : NState), (x.te = none ∨ x.te = some t ∨ x.te = te) → x.te = some s → s = t ∨ te = some s := by
        intro x hx h
        rcases hx with hx | hx | hx
        · rw [hx] at h; simp at h
        · rw [hx] at h; left; exact (Option.some.inj h).symm
        · rw [hx] at h; right; exact h
      apply fin
      cases hf with
      | none =>
        cases hold with
        | none => cases te <;> simp
        | some hh =>
          cases te with
          | none => simp
          | some t0 => by_cases hc : t - t0 ≥ hh <;> simp [hc]
      | some hv =>
        cases fe with
        | none => cases te <;> simp
        | some f =>
          by_cases hge : t - f ≥ hv
          · cases hold with
            | none => cases te <;> simp [hge]
            | some hh =>
              cases te with
              | none => simp [hge]
              | some t0 => by_cases hc : t - t0 ≥ hh <;> simp [hge, hc]
          · cases te <;> simp [hge]

/-- **simulation, new subsystem (current code)**: along any no-ties history – `skip` messages included – `_cycle`
and the timeline agree on the whole state: runs, times, and the arguments remembered for a pending hold -/
theorem new_sim (cfg : Cfg) (hist : List Evt) :
    ∀ (st : NState), NInv cfg st →
      (∀ s, st.te = some s → gridFrom cfg s hist = true) → grid cfg hist = true →
      nabs (New.driveF New.current cfg.hold st hist) = Spec.drive cfg (nabs st) hist := by
  induction hist with
  | nil => intro st _ _ _; simp only [New.driveF, Spec.drive]; exact nabs_flush cfg st
  | cons e es ih =>
    intro st hinv hw hg
    simp only [New.driveF, Spec.drive]
    have hg' : gridFrom cfg e.t es = true ∧ grid cfg es = true := by simpa [grid] using hg
    have hno : ∀ s, st.te = some s → e.t ≠ s + cfg.hold.getD 0 := fun s hs => (gridFrom_tail (hw s hs)).1.2
    have hexp := nabs_expire cfg st e.t hno
    have hinv1 := ninv_expire cfg st e.t hinv
    generalize hst1 : (if New.deadlineBefore cfg.hold st e.t then New.onTimeout cfg.hold st else st) = st1
      at hexp hinv1
    have hte1 : ∀ s, st1.te = some s → st.te = some s ∧ ¬ (s + cfg.hold.getD 0 < e.t) := by
      intro s hs
      rw [← hst1] at hs
      by_cases hd : New.deadlineBefore cfg.hold st e.t = true
      · simp only [hd, if_true, New.onTimeout] at hs
        cases hte : st.te with
        | none => rw [hte] at hs; simp [hte] at hs
        | some s0 => rw [hte] at hs; simp at hs
      · have hd' : New.deadlineBefore cfg.hold st e.t = false := by simpa using hd
        simp only [hd', Bool.false_eq_true, if_false] at hs
        refine ⟨hs, ?_⟩
        unfold New.deadlineBefore at hd'
        rw [hs] at hd'
        simpa using hd'
    have hfresh : ∀ s hh, st1.te = some s → cfg.hold = some hh → e.t - s < hh := by
      intro s hh hs hH
      obtain ⟨h1, h2⟩ := hte1 s hs
      have h3 := (gridFrom_tail (hw s h1)).1
      simp only [hH, Option.getD_some] at h2 h3
      omega
    have hstep : nabs (New.onMsgF New.current cfg.hold st1 e.t e.k e.a) = onEvt cfg (nabs st) e ∧
        NInv cfg (New.onMsgF New.current cfg.hold st1 e.t e.k e.a) := by
      unfold onEvt
      cases hk : e.k with
      | eval b =>
        have := nabs_onEval cfg st1 e.t b e.a hinv1 hfresh
        rw [hexp] at this; exact this
      | skip => simp only [New.onMsgF, New.current, Bool.false_eq_true, if_false]; exact ⟨hexp, hinv1⟩
      | unrelated => simp only [New.onMsgF]; exact ⟨hexp, hinv1⟩
    rw [← hstep.1]
    apply ih _ hstep.2 _ hg'.2
    intro s hs
    rcases new_onMsg_te cfg.hold st1 e.t e.k e.a s hs with h1 | h1
    · rw [h1]; exact hg'.1
    · exact (gridFrom_tail (hw s (hte1 s h1).1)).2

/-! ## the timeline ignores changes that cause no evaluation -/

theorem expire_expire (cfg : Cfg) (st : SState) {t₁ t₂ : Nat} (h : t₁ ≤ t₂) :
    expire cfg (expire cfg st t₁) t₂ = expire cfg st t₂ := by
  unfold expire
  cases hp : st.pending with
  | none => simp [hp]
  | some p =>
    obtain ⟨s, a⟩ := p
    by_cases h1 : s + cfg.hold.getD 0 ≤ t₁
    · have h2 : s + cfg.hold.getD 0 ≤ t₂ := by omega
      simp [h1, h2]
    · simp [h1, hp]

theorem flush_expire (cfg : Cfg) (st : SState) (t : Nat) : flush cfg (expire cfg st t) = flush cfg st := by
  unfold flush expire
  cases hp : st.pending with
  | none => simp [hp]
  | some p =>
    obtain ⟨s, a⟩ := p
    by_cases h1 : s + cfg.hold.getD 0 ≤ t <;> simp [h1, hp]

theorem onEvt_expire (cfg : Cfg) (st : SState) (e : Evt) {t : Nat} (h : t ≤ e.t) :
    onEvt cfg (expire cfg st t) e = onEvt cfg st e := by
  unfold onEvt
  cases e.k <;> simp [expire_expire cfg st h]

theorem drive_expire (cfg : Cfg) (hist : List Evt) (st : SState) (t : Nat) (h : ∀ e ∈ hist, t ≤ e.t) :
    Spec.drive cfg (expire cfg st t) hist = Spec.drive cfg st hist := by
  cases hist with
  | nil => simp [Spec.drive, flush_expire]
  | cons e es => simp only [Spec.drive]; rw [onEvt_expire cfg st e (h e (by simp))]

def isEval (e : Evt) : Bool :=
  match e.k with
  | .eval _ => true
  | _ => false

theorem spec_irrelevant (cfg : Cfg) (hist : List Evt) :
    ∀ st : SState, hist.Pairwise (fun a b => a.t ≤ b.t) →
      Spec.drive cfg st (hist.filter isEval) = Spec.drive cfg st hist := by
  induction hist with
  | nil => intro st _; rfl
  | cons e es ih =>
    intro st hs
    have hs' := List.pairwise_cons.mp hs
    cases hk : e.k with
    | eval b =>
      have : isEval e = true := by simp [isEval, hk]
      simp only [List.filter_cons, this, if_true, Spec.drive]
      exact ih _ hs'.2
    | skip =>
      have : isEval e = false := by simp [isEval, hk]
      simp only [List.filter_cons, this, Spec.drive, onEvt, hk, Bool.false_eq_true, if_false]
      rw [ih _ hs'.2]
      exact (drive_expire cfg es st e.t hs'.1).symm
    | unrelated =>
      have : isEval e = false := by simp [isEval, hk]
      simp only [List.filter_cons, this, Spec.drive, onEvt, hk, Bool.false_eq_true, if_false]
      rw [ih _ hs'.2]
      exact (drive_expire cfg es st e.t hs'.1).symm

theorem gridFrom_filter {cfg : Cfg} {s : Nat} {hist : List Evt} (p : Evt → Bool) (h : gridFrom cfg s hist = true) :
    gridFrom cfg s (hist.filter p) = true := by
  simp only [gridFrom, List.all_eq_true] at h ⊢
  intro e he
  exact h e (List.mem_filter.mp he).1

theorem grid_filter {cfg : Cfg} {hist : List Evt} (p : Evt → Bool) (h : grid cfg hist = true) :
    grid cfg (hist.filter p) = true := by
  induction hist with
  | nil => rfl
  | cons e es ih =>
    have h' : gridFrom cfg e.t es = true ∧ grid cfg es = true := by simpa [grid] using h
    simp only [List.filter_cons]
    split
    · simp [grid, gridFrom_filter p h'.1, ih h'.2]
    · exact ih h'.2

theorem grid_sorted {cfg : Cfg} {hist : List Evt} (h : grid cfg hist = true) :
    hist.Pairwise (fun a b => a.t ≤ b.t) := by
  induction hist with
  | nil => exact List.Pairwise.nil
  | cons e es ih =>
    have h' : gridFrom cfg e.t es = true ∧ grid cfg es = true := by simpa [grid] using h
    refine List.pairwise_cons.mpr ⟨?_, ih h'.2⟩
    intro b hb
    have := h'.1
    simp only [gridFrom, List.all_eq_true, Bool.and_eq_true, decide_eq_true_eq] at this
    exact Nat.le_of_lt (this b hb).1

end PsModel.C05
