import PsModel.Lemmas.C01Scope
set_option linter.unusedSectionVars false
set_option linter.unusedSimpArgs false
/-! helper lemmas for C01: pure operands, keyword merging, and the handler-by-handler agreement with the reference -/
namespace PsModel.C01

variable {W : Type}

theorem eval_const (cfg : Cfg) (P : Prims W) (e : Expr) (h : e.isConst = true) (σ : Store) (w : W) :
    ∃ k, eval cfg P e σ w = (.ok (k, σ), w) := by
  cases e <;> simp [Expr.isConst] at h
  rename_i k
  exact ⟨k, by simp [eval]⟩

/-- value of a pure operand in a store -/
def purev : Expr → Store → Option Val
  | .const k, _ => some k
  | .name x, σ => σ.get x
  | _, _ => none

theorem eval_pure (cfg : Cfg) (P : Prims W) (e : Expr) (h : e.isPure = true) (σ : Store) (w : W) :
    eval cfg P e σ w = (match purev e σ with
                        | some v => (.ok (v, σ), w)
                        | none => (.error .nameError, w)) := by
  cases e <;> simp [Expr.isPure] at h
  · simp [eval, purev]
  · rename_i x
    simp only [eval, purev]
    cases σ.get x <;> rfl

/-! ### keyword merging -/

def keysOf (acc : List (String × Val)) : List String := acc.map (·.1)

theorem kwMerge_fresh (cfg : Cfg) (acc : List (String × Val)) (k : String) (v : Val) (h : k ∉ keysOf acc) :
    kwMerge cfg acc k v = .ok (acc ++ [(k, v)]) := by
  have hany : acc.any (fun p => p.1 == k) = false := by
    rw [List.any_eq_false]
    intro p hp hk
    apply h
    simp only [keysOf, List.mem_map]
    exact ⟨p, hp, by simpa using hk⟩
  unfold kwMerge
  cases cfg.dupKwCheck
  · simp [kwMergeLast, hany]
  · simp [kwMergeStrict, hany]

theorem kwMerge_flag (cfg py : Cfg) (h : cfg.dupKwCheck = true) (h' : py.dupKwCheck = true)
    (acc : List (String × Val)) (k : String) (v : Val) : kwMerge cfg acc k v = kwMerge py acc k v := by
  simp [kwMerge, h, h']

theorem kwMergeAll_flag (cfg py : Cfg) (h : cfg.dupKwCheck = true) (h' : py.dupKwCheck = true)
    (items : List (String × Val)) : ∀ acc, kwMergeAll cfg acc items = kwMergeAll py acc items := by
  induction items with
  | nil => intro acc; rfl
  | cons hd tl ih =>
    intro acc
    obtain ⟨k, v⟩ := hd
    simp only [kwMergeAll, kwMerge_flag cfg py h h']
    cases kwMerge py acc k v with
    | ok acc' => exact ih acc'
    | error e => rfl


theorem iterM_congr (body body' : Val → Store → W → R W (List Item × Store)) (h : ∀ v σ w, body v σ w = body' v σ w)
    (vals : List Val) (σ : Store) (w : W) : iterM body vals σ w = iterM body' vals σ w := by
  have : body = body' := by funext v σ w; exact h v σ w
  subst this; rfl

theorem genStep_congr (asg asg' : Val → Store → W → R W Store) (conds conds' : Store → W → R W (Bool × Store))
    (inner inner' : Store → W → R W (List Item × Store))
    (ha : ∀ v σ w, asg v σ w = asg' v σ w) (hc : ∀ σ w, conds σ w = conds' σ w) (hi : ∀ σ w, inner σ w = inner' σ w)
    (vals : List Val) (σ : Store) (w : W) :
    genStep asg conds inner vals σ w = genStep asg' conds' inner' vals σ w := by
  have h1 : asg = asg' := by funext v σ w; exact ha v σ w
  have h2 : conds = conds' := by funext σ w; exact hc σ w
  have h3 : inner = inner' := by funext σ w; exact hi σ w
  subst h1; subst h2; subst h3; rfl

/-! ### constant operand lists evaluate without any effect -/

def constElts : List Elt → List Val
  | [] => []
  | .plain (.const k) :: r => k :: constElts r
  | _ :: r => constElts r

theorem evalElts_const (c : Cfg) (P : Prims W) : ∀ es, es.all Elt.isConst = true → ∀ σ w,
    evalElts c P es σ w = (.ok (constElts es, σ), w) := by
  intro es
  induction es with
  | nil => intro _ σ w; simp [evalElts, constElts]
  | cons e r ih =>
    intro h σ w
    simp only [List.all_cons, Bool.and_eq_true] at h
    obtain ⟨h1, h2⟩ := h
    cases e with
    | star e => simp [Elt.isConst] at h1
    | plain e =>
      cases e <;> simp [Elt.isConst, Expr.isConst] at h1
      simp [evalElts, eval, constElts, ih h2 σ w]

def constKws : List Kw → List (String × Val)
  | [] => []
  | .named n (.const k) :: r => (n, k) :: constKws r
  | _ :: r => constKws r

def kwNames : List Kw → List String
  | [] => []
  | .named n _ :: r => n :: kwNames r
  | .splat _ :: r => kwNames r

theorem kwDistinct_cons_named (n : String) (e : Expr) (ks : List Kw) (h : kwDistinct (.named n e :: ks) = true) :
    n ∉ kwNames ks ∧ kwDistinct ks = true := by
  simp only [kwDistinct, Kw.key, Bool.and_eq_true, Bool.not_eq_true', List.any_eq_false] at h
  refine ⟨?_, h.2⟩
  intro hm
  induction ks with
  | nil => simp [kwNames] at hm
  | cons k r ih =>
    cases k with
    | named m e2 =>
      simp only [kwNames, List.mem_cons] at hm
      rcases hm with rfl | hm
      · have := h.1 (.named n e2) (by simp)
        simp at this
      · exact ih ⟨fun x hx => h.1 x (by simp [hx]), by
          have := h.2; simp only [kwDistinct, Bool.and_eq_true] at this; exact this.2⟩ hm
    | splat e2 =>
      simp only [kwNames] at hm
      exact ih ⟨fun x hx => h.1 x (by simp [hx]), by
        have := h.2; simp only [kwDistinct, Bool.and_eq_true] at this; exact this.2⟩ hm

theorem evalKws_const (c : Cfg) (P : Prims W) : ∀ ks, ks.all Kw.isConst = true → kwDistinct ks = true →
    ∀ acc, (∀ n ∈ kwNames ks, n ∉ keysOf acc) → ∀ σ w,
    evalKws c P acc ks σ w = (.ok (acc ++ constKws ks, σ), w) := by
  intro ks
  induction ks with
  | nil => intro _ _ acc _ σ w; simp [evalKws, constKws]
  | cons k r ih =>
    intro h hd acc hacc σ w
    simp only [List.all_cons, Bool.and_eq_true] at h
    obtain ⟨h1, h⟩ := h
    cases k with
    | splat e => simp [Kw.isConst] at h1
    | named n e =>
      cases e <;> simp [Kw.isConst, Expr.isConst] at h1
      rename_i kv
      obtain ⟨hn, hd'⟩ := kwDistinct_cons_named n _ r hd
      have hfresh : n ∉ keysOf acc := hacc n (by simp [kwNames])
      simp only [evalKws, eval, bind_ok, kwMerge_fresh c acc n kv hfresh]
      rw [ih h hd' (acc ++ [(n, kv)]) ?_ σ w]
      · simp [constKws]
      · intro m hm
        simp only [keysOf, List.map_append, List.map_cons, List.map_nil, List.mem_append, List.mem_singleton, not_or]
        refine ⟨hacc m (by simp [kwNames, hm]), ?_⟩
        intro hmn; subst hmn; exact hn hm


/-! ### handler-by-handler agreement with the reference, by structural recursion on the syntax -/

section agree
variable (cfg : Cfg) (P : Prims W) (py : Cfg) (hp : AllOn py)
include hp

/-- hypothesis under which keyword merging agrees: either the duplicate check is in place, or all keywords are
explicit, pairwise distinct and not yet present -/
def KwOk (acc : List (String × Val)) (ks : List Kw) : Prop :=
  (cfg.dupKwCheck = true ∧ cfg.kwGroupMerge = true) ∨ (ks.all Kw.isNamed = true ∧ kwDistinct ks = true ∧ ∀ n ∈ kwNames ks, n ∉ keysOf acc)

mutual
theorem eval_eq : ∀ (e : Expr) (σ : Store) (w : W), Conf cfg e = true → eval cfg P e σ w = eval py P e σ w
  | .const _, _, _, _ => by simp [eval]
  | .leaf _, _, _, _ => by simp [eval]
  | .name _, _, _, _ => by simp [eval]
  | .binop op l r, σ, w, h => by
    simp only [Conf, Bool.and_eq_true] at h
    simp only [eval]
    exact bind_congr (eval_eq l σ w h.1) fun a w => bind_congr (eval_eq r a.2 w h.2) fun _ _ => rfl
  | .unary op e, σ, w, h => by
    simp only [Conf, Bool.and_eq_true, Bool.or_eq_true, bne_iff_ne, ne_eq] at h
    simp only [eval]
    refine bind_congr (eval_eq e σ w h.1) fun a w => ?_
    by_cases h0 : op = 0
    · simp [h0]
    · simp only [h0, if_false]
      by_cases h3 : op = 3
      · rcases h.2 with hu | hn
        · simp [h3, hu, hp.compareOnce, hp.callArgsFirst, hp.uaddApplies]
        · exact absurd h3 hn
      · simp [h3, hp.compareOnce, hp.callArgsFirst, hp.uaddApplies]
  | .boolop isAnd es, σ, w, h => by
    simp only [Conf] at h
    simp only [eval]
    exact evalBool_eq isAnd _ es σ w h
  | .compare l rest, σ, w, h => by
    simp only [Conf, Bool.and_eq_true, Bool.or_eq_true] at h
    obtain ⟨⟨⟨hl, hr⟩, hm⟩, hne⟩ := h
    cases hc : cfg.compareOnce with
    | true =>
      cases rest with
      | nil =>
        simp only [eval, hc, if_true, hp.compareOnce]
        exact bind_congr (eval_eq l σ w hl) fun a w => chainOnce_eq a.1 _ a.2 w hr
      | cons arm rest' =>
        cases arm with
        | mk op e =>
          simp only [eval, hc, if_true, hp.compareOnce]
          exact bind_congr (eval_eq l σ w hl) fun a w => chainOnce_eq a.1 _ a.2 w hr
    | false =>
      simp only [hc, Bool.false_eq_true, false_or] at hm
      cases rest with
      | nil =>
        simp at hne
      | cons arm rest' =>
        cases arm with
        | mk op e =>
          simp only [eval, hc, Bool.false_eq_true, if_false, hp.compareOnce, if_true]
          simp only [ConfArms, Bool.and_eq_true] at hr
          refine bind_congr (eval_eq l σ w hl) fun a w => ?_
          simp only [chainOnce]
          cases rest' with
          | nil =>
            refine bind_congr (eval_eq e a.2 w hr.1) fun b w => bind_congr rfl fun t w => ?_
            cases t <;> simp [chainAst, chainOnce]
          | cons arm3 rest3 =>
            have hp2 : e.isPure = true := by
              simp only [midPure, Bool.and_eq_true] at hm; exact hm.1
            rw [eval_pure cfg P e hp2 a.2 w, eval_pure py P e hp2 a.2 w]
            cases hv2 : purev e a.2 with
            | none => simp
            | some v2 =>
              simp only [bind_ok]
              refine bind_congr rfl fun t w => ?_
              cases t
              · simp
              · simp only [if_true]
                exact chainAst_eq op e (arm3 :: rest3) a.2 w v2 hr.2 hm (fun _ => ⟨hp2, hv2⟩)
  | .ifexp c t e, σ, w, h => by
    simp only [Conf, Bool.and_eq_true] at h
    simp only [eval]
    refine bind_congr (eval_eq c σ w h.1.1) fun a w => ?_
    cases P.truth a.1 w
    · simpa using eval_eq e a.2 w h.2
    · simpa using eval_eq t a.2 w h.1.2
  | .subscript v i, σ, w, h => by
    simp only [Conf, Bool.and_eq_true] at h
    simp only [eval]
    exact bind_congr (eval_eq v σ w h.1) fun a w => bind_congr (eval_eq i a.2 w h.2) fun _ _ => rfl
  | .slice lo hi st, σ, w, h => by
    simp only [Conf, Bool.and_eq_true] at h
    simp only [eval]
    exact bind_congr (evalOpt_eq lo σ w h.1.1) fun a w => bind_congr (evalOpt_eq hi a.2 w h.1.2) fun b w =>
      bind_congr (evalOpt_eq st b.2 w h.2) fun _ _ => rfl
  | .attr v a, σ, w, h => by
    simp only [Conf] at h
    simp only [eval]
    exact bind_congr (eval_eq v σ w h) fun _ _ => rfl
  | .call f args kws, σ, w, h => by
    simp only [Conf, Bool.and_eq_true, Bool.or_eq_true] at h
    obtain ⟨⟨⟨⟨⟨hf, ha⟩, hk⟩, hd⟩, hord⟩, hdup⟩ := h
    have hkw : ∀ acc, acc = [] → KwOk cfg acc kws := by
      intro acc hacc
      rcases hdup with hd1 | hd2
      · exact Or.inl (by simpa using hd1)
      · exact Or.inr ⟨hd2, hd, by intro n _; simp [hacc, keysOf]⟩
    simp only [eval]
    refine bind_congr (eval_eq f σ w hf) fun fv w => ?_
    cases hc : cfg.callArgsFirst with
    | true =>
      simp only [if_true, hp.compareOnce, hp.callArgsFirst, hp.uaddApplies]
      exact bind_congr (evalElts_eq args fv.2 w ha) fun as w =>
        bind_congr (evalKws_eq [] kws as.2 w hk (hkw [] rfl)) fun _ _ => rfl
    | false =>
      simp only [hc, Bool.false_eq_true, false_or] at hord
      simp only [Bool.false_eq_true, if_false, hp.callArgsFirst, if_true]
      rcases hord with hac | hkc
      · -- all positional arguments are constants
        simp only [evalElts_const _ P args hac, bind_ok]
        rw [evalKws_eq [] kws fv.2 w hk (hkw [] rfl)]
      · -- all keyword values are constants
        simp only [evalKws_const _ P kws hkc hd [] (by intro n _; simp [keysOf]), bind_ok]
        rw [evalElts_eq args fv.2 w ha]
  | .seq kind es, σ, w, h => by
    simp only [Conf] at h
    simp only [eval]
    exact bind_congr (evalElts_eq es σ w h) fun _ _ => rfl
  | .dict kvs, σ, w, h => by
    simp only [Conf] at h
    simp only [eval]
    exact bind_congr (evalPairs_eq kvs σ w h) fun _ _ => rfl
  | .fstr parts, σ, w, h => by
    simp only [Conf] at h
    simp only [eval]
    exact bind_congr (evalParts_eq parts σ w h) fun _ _ => rfl
  | .named x e, σ, w, h => by
    simp only [Conf] at h
    simp only [eval]
    exact bind_congr (eval_eq e σ w h) fun _ _ => rfl
  | .comp _ _ [], σ, w, h => by simp [Conf] at h
  | .comp isSet elt (.mk t it ifs :: gs), σ, w, h => by
    simp only [Conf, ConfGens, Bool.and_eq_true, Bool.or_eq_true] at h
    obtain ⟨⟨⟨he, ⟨⟨⟨ht, hit⟩, hifs⟩, hgs⟩⟩, _⟩, hfr⟩ := h
    simp only [eval, hp.compFresh, if_true]
    refine bind_congr (eval_eq it σ w hit) fun a w => bind_congr rfl fun vals w => ?_
    rw [genStep_congr _ (fun v σ w => assign py P t v σ w) _ (fun σ w => evalConds py P ifs σ w) _
      (fun σ w => compGens py P (fun σ w => bind (eval py P elt σ w) fun e w => (.ok ([(none, e.1)], e.2), w)) gs σ w)
      (fun v σ w => assign_eq t v σ w ht) (fun σ w => evalConds_eq ifs σ w hifs)
      (fun σ w => compGens_eq gs _ _ σ w hgs fun σ w => bind_congr (eval_eq elt σ w he) fun _ _ => rfl)]
    cases hc : cfg.compFresh with
    | true => rfl
    | false =>
      simp only [hc, Bool.false_eq_true, false_or] at hfr
      simp only [Bool.false_eq_true, if_false]
      refine (bind_rel_restore (t.names ++ gensNames gs) _ _ _ ?_ (genStep_top P py hp t ifs gs _ hfr vals a.2 w)).symm
      intro items s U' w hU'
      simp only [restore_hide_sub _ _ _ _ hU']
  | .dictcomp _ _ [], σ, w, h => by simp [Conf] at h
  | .dictcomp k v (.mk t it ifs :: gs), σ, w, h => by
    simp only [Conf, ConfGens, Bool.and_eq_true, Bool.or_eq_true] at h
    obtain ⟨⟨⟨⟨hk, hv⟩, ⟨⟨⟨ht, hit⟩, hifs⟩, hgs⟩⟩, _⟩, hfr⟩ := h
    simp only [eval, hp.compFresh, if_true]
    refine bind_congr (eval_eq it σ w hit) fun a w => bind_congr rfl fun vals w => ?_
    rw [genStep_congr _ (fun v σ w => assign py P t v σ w) _ (fun σ w => evalConds py P ifs σ w) _
      (fun σ w => compGens py P (fun σ w => bind (eval py P k σ w) fun kv w => bind (eval py P v kv.2 w) fun e w =>
                                     (.ok ([(some kv.1, e.1)], e.2), w)) gs σ w)
      (fun v σ w => assign_eq t v σ w ht) (fun σ w => evalConds_eq ifs σ w hifs)
      (fun σ w => compGens_eq gs _ _ σ w hgs fun σ w =>
        bind_congr (eval_eq k σ w hk) fun kv w => bind_congr (eval_eq v kv.2 w hv) fun _ _ => rfl)]
    cases hc : cfg.compFresh with
    | true => rfl
    | false =>
      simp only [hc, Bool.false_eq_true, false_or] at hfr
      simp only [Bool.false_eq_true, if_false]
      refine (bind_rel_restore (t.names ++ gensNames gs) _ _ _ ?_ (genStep_top P py hp t ifs gs _ hfr vals a.2 w)).symm
      intro items s U' w hU'
      simp only [restore_hide_sub _ _ _ _ hU']

theorem evalConds_eq : ∀ (cs : List Expr) (σ : Store) (w : W), ConfList cfg cs = true →
    evalConds cfg P cs σ w = evalConds py P cs σ w
  | [], _, _, _ => by simp [evalConds]
  | c :: cs, σ, w, h => by
    simp only [ConfList, Bool.and_eq_true] at h
    simp only [evalConds]
    refine bind_congr (eval_eq c σ w h.1) fun a w => ?_
    split
    · exact evalConds_eq cs a.2 w h.2
    · rfl

theorem compGens_eq : ∀ (gs : List Gen) (item item' : Store → W → R W (List Item × Store)) (σ : Store) (w : W),
    ConfGens cfg gs = true → (∀ σ w, item σ w = item' σ w) →
    compGens cfg P item gs σ w = compGens py P item' gs σ w
  | [], item, item', σ, w, _, hi => by simp only [compGens]; exact hi σ w
  | .mk t it ifs :: gs, item, item', σ, w, h, hi => by
    simp only [ConfGens, Bool.and_eq_true] at h
    obtain ⟨⟨⟨ht, hit⟩, hifs⟩, hgs⟩ := h
    simp only [compGens]
    refine bind_congr (eval_eq it σ w hit) fun a w => bind_congr rfl fun vals w => ?_
    exact genStep_congr _ _ _ _ _ _ (fun v σ w => assign_eq t v σ w ht) (fun σ w => evalConds_eq ifs σ w hifs)
      (fun σ w => compGens_eq gs item item' σ w hgs hi) vals a.2 w

theorem evalOpt_eq : ∀ (o : Option Expr) (σ : Store) (w : W), ConfOpt cfg o = true →
    evalOpt cfg P o σ w = evalOpt py P o σ w
  | none, _, _, _ => by simp [evalOpt]
  | some e, σ, w, h => by
    simp only [ConfOpt] at h
    simp only [evalOpt]
    exact bind_congr (eval_eq e σ w h) fun _ _ => rfl

theorem evalBool_eq (isAnd : Bool) : ∀ (last : Val) (es : List Expr) (σ : Store) (w : W), ConfList cfg es = true →
    evalBool cfg P isAnd last es σ w = evalBool py P isAnd last es σ w
  | _, [], _, _, _ => by simp [evalBool]
  | last, e :: es, σ, w, h => by
    simp only [ConfList, Bool.and_eq_true] at h
    simp only [evalBool]
    refine bind_congr (eval_eq e σ w h.1) fun a w => ?_
    by_cases ht : P.truth a.1 w = isAnd
    · simp only [ht, if_true]; exact evalBool_eq isAnd a.1 es a.2 w h.2
    · simp [ht]

theorem chainOnce_eq : ∀ (left : Val) (rest : List CmpArm) (σ : Store) (w : W), ConfArms cfg rest = true →
    chainOnce cfg P left rest σ w = chainOnce py P left rest σ w
  | _, [], _, _, _ => by simp [chainOnce]
  | left, .mk op e :: rest, σ, w, h => by
    simp only [ConfArms, Bool.and_eq_true] at h
    simp only [chainOnce]
    refine bind_congr (eval_eq e σ w h.1) fun b w => bind_congr rfl fun t w => ?_
    cases t
    · simp
    · simpa using chainOnce_eq b.1 rest b.2 w h.2

/-- after an arm whose (pure, when more arms follow) right operand has value `v` in `σ`, the code's re-evaluating
loop continues exactly like Python's carried-value chain -/
theorem chainAst_eq : ∀ (op : Nat) (e : Expr) (rest : List CmpArm) (σ : Store) (w : W) (v : Val),
    ConfArms cfg rest = true → midPure (.mk op e :: rest) = true →
    (rest ≠ [] → e.isPure = true ∧ purev e σ = some v) →
    chainAst cfg P (.mk op e :: rest) σ w = chainOnce py P v rest σ w
  | _, _, [], _, _, _, _, _, _ => by simp [chainAst, chainOnce]
  | op, e, .mk op2 e2 :: rest, σ, w, v, hr, hm, hv => by
    obtain ⟨hp1, hval⟩ := hv (by simp)
    simp only [ConfArms, Bool.and_eq_true] at hr
    have hm2 : midPure (.mk op2 e2 :: rest) = true := by
      simp only [midPure, Bool.and_eq_true] at hm; exact hm.2
    simp only [chainAst, chainOnce]
    rw [eval_pure cfg P e hp1 σ w, hval]
    simp only [bind_ok]
    cases rest with
    | nil =>
      refine bind_congr (eval_eq e2 σ w hr.1) fun b w => bind_congr rfl fun t w => ?_
      cases t <;> simp [chainAst, chainOnce]
    | cons arm3 rest3 =>
      have hp2 : e2.isPure = true := by
        simp only [midPure, Bool.and_eq_true] at hm2; exact hm2.1
      rw [eval_pure cfg P e2 hp2 σ w, eval_pure py P e2 hp2 σ w]
      cases hv2 : purev e2 σ with
      | none => simp
      | some v2 =>
        simp only [bind_ok]
        refine bind_congr rfl fun t w => ?_
        cases t
        · simp
        · simp only [if_true]
          exact chainAst_eq op2 e2 (arm3 :: rest3) σ w v2 hr.2 hm2 (fun _ => ⟨hp2, hv2⟩)

theorem evalElts_eq : ∀ (es : List Elt) (σ : Store) (w : W), ConfElts cfg es = true →
    evalElts cfg P es σ w = evalElts py P es σ w
  | [], _, _, _ => by simp [evalElts]
  | .plain e :: es, σ, w, h => by
    simp only [ConfElts, Bool.and_eq_true] at h
    simp only [evalElts]
    exact bind_congr (eval_eq e σ w h.1) fun a w => bind_congr (evalElts_eq es a.2 w h.2) fun _ _ => rfl
  | .star e :: es, σ, w, h => by
    simp only [ConfElts, Bool.and_eq_true] at h
    simp only [evalElts]
    exact bind_congr (eval_eq e σ w h.1) fun a w => bind_congr rfl fun xs w =>
      bind_congr (evalElts_eq es a.2 w h.2) fun _ _ => rfl

theorem evalKws_eq : ∀ (acc : List (String × Val)) (ks : List Kw) (σ : Store) (w : W), ConfKws cfg ks = true →
    KwOk cfg acc ks → evalKws cfg P acc ks σ w = evalKws py P acc ks σ w
  | _, [], _, _, _, _ => by simp [evalKws]
  | acc, .named k e :: ks, σ, w, h, hok => by
    simp only [ConfKws, Bool.and_eq_true] at h
    simp only [evalKws]
    refine bind_congr (eval_eq e σ w h.1) fun a w => ?_
    rcases hok with hd1 | ⟨hn, hd, hf⟩
    · rw [kwMerge_flag cfg py hd1.1 hp.dupKwCheck]
      cases kwMerge py acc k a.1 with
      | error ex =>
        simp only [hd1.2, hp.kwGroupMerge, if_true]
        exact drainGroup_eq ex ks a.2 w h.2
      | ok acc' => exact evalKws_eq acc' ks a.2 w h.2 (Or.inl hd1)
    · obtain ⟨hnk, hd'⟩ := kwDistinct_cons_named k e ks hd
      have hfresh : k ∉ keysOf acc := hf k (by simp [kwNames])
      rw [kwMerge_fresh cfg acc k a.1 hfresh, kwMerge_fresh py acc k a.1 hfresh]
      refine evalKws_eq (acc ++ [(k, a.1)]) ks a.2 w h.2 (Or.inr ⟨?_, hd', ?_⟩)
      · simp only [List.all_cons, Bool.and_eq_true] at hn; exact hn.2
      · intro m hm
        simp only [keysOf, List.map_append, List.map_cons, List.map_nil, List.mem_append, List.mem_singleton, not_or]
        refine ⟨hf m (by simp [kwNames, hm]), ?_⟩
        intro hmn; subst hmn; exact hnk hm
  | acc, .splat e :: ks, σ, w, h, hok => by
    simp only [ConfKws, Bool.and_eq_true] at h
    simp only [evalKws]
    refine bind_congr (eval_eq e σ w h.1) fun a w => bind_congr rfl fun items w => ?_
    rcases hok with hd1 | ⟨hn, _, _⟩
    · rw [kwMergeAll_flag cfg py hd1.1 hp.dupKwCheck]
      cases kwMergeAll py acc items with
      | error ex => rfl
      | ok acc' => exact evalKws_eq acc' ks a.2 w h.2 (Or.inl hd1)
    · simp [Kw.isNamed] at hn

theorem drainGroup_eq : ∀ (ex : Exc) (ks : List Kw) (σ : Store) (w : W), ConfKws cfg ks = true →
    drainGroup cfg P ex ks σ w = drainGroup py P ex ks σ w
  | _, [], _, _, _ => by simp [drainGroup]
  | ex, .named k e :: ks, σ, w, h => by
    simp only [ConfKws, Bool.and_eq_true] at h
    simp only [drainGroup]
    exact bind_congr (eval_eq e σ w h.1) fun a w => drainGroup_eq ex ks a.2 w h.2
  | _, .splat e :: ks, _, _, _ => by simp [drainGroup]

theorem evalPairs_eq : ∀ (kvs : List DictArm) (σ : Store) (w : W), ConfPairs cfg kvs = true →
    evalPairs cfg P kvs σ w = evalPairs py P kvs σ w
  | [], _, _, _ => by simp [evalPairs]
  | .kv k v :: r, σ, w, h => by
    simp only [ConfPairs, Bool.and_eq_true, Bool.or_eq_true] at h
    obtain ⟨⟨⟨hk, hv⟩, hord⟩, hr⟩ := h
    simp only [evalPairs, hp.dictKeyFirst, if_true]
    cases hc : cfg.dictKeyFirst with
    | true =>
      simp only [if_true]
      exact bind_congr (eval_eq k σ w hk) fun a w => bind_congr (eval_eq v a.2 w hv) fun b w =>
        bind_congr (evalPairs_eq r b.2 w hr) fun _ _ => rfl
    | false =>
      simp only [hc, Bool.false_eq_true, false_or] at hord
      simp only [Bool.false_eq_true, if_false]
      rcases hord with hkc | hvc
      · cases k <;> simp [Expr.isConst] at hkc
        simp only [eval, bind_ok]
        exact bind_congr (eval_eq v σ w hv) fun b w => bind_congr (evalPairs_eq r b.2 w hr) fun _ _ => rfl
      · cases v <;> simp [Expr.isConst] at hvc
        simp only [eval, bind_ok]
        exact bind_congr (eval_eq k σ w hk) fun a w => bind_congr (evalPairs_eq r a.2 w hr) fun _ _ => rfl
  | .splat e :: r, σ, w, h => by
    simp only [ConfPairs, Bool.and_eq_true] at h
    simp only [evalPairs]
    exact bind_congr (eval_eq e σ w h.1) fun a w => bind_congr (evalPairs_eq r a.2 w h.2) fun _ _ => rfl

theorem evalParts_eq : ∀ (ps : List FPart) (σ : Store) (w : W), ConfParts cfg ps = true →
    evalParts cfg P ps σ w = evalParts py P ps σ w
  | [], _, _, _ => by simp [evalParts]
  | .lit k :: r, σ, w, h => by
    simp only [ConfParts] at h
    simp only [evalParts]
    exact bind_congr (evalParts_eq r σ w h) fun _ _ => rfl
  | .fmt e conv spec :: r, σ, w, h => by
    simp only [ConfParts, Bool.and_eq_true, Bool.or_eq_true] at h
    obtain ⟨⟨⟨he, hs⟩, hcv⟩, hr⟩ := h
    simp only [evalParts, hp.fstrConversion, if_true]
    have hconv : (if cfg.fstrConversion = true then conv else none) = conv := by
      rcases hcv with h1 | h2
      · simp [h1]
      · cases conv <;> simp at h2 ⊢
    rw [hconv]
    exact bind_congr (eval_eq e σ w he) fun a w => bind_congr (evalOpt_eq spec a.2 w hs) fun s w =>
      bind_congr rfl fun v w => bind_congr (evalParts_eq r s.2 w hr) fun _ _ => rfl

theorem assign_eq : ∀ (t : Target) (v : Val) (σ : Store) (w : W), ConfT cfg t = true →
    assign cfg P t v σ w = assign py P t v σ w
  | .name _, _, _, _, _ => by simp [assign]
  | .sub e i, v, σ, w, h => by
    simp only [ConfT, Bool.and_eq_true] at h
    simp only [assign]
    exact bind_congr (eval_eq e σ w h.1) fun a w =>
      bind_congr (eval_eq i a.2 w h.2) fun _ _ => rfl
  | .attr e a, v, σ, w, h => by
    simp only [ConfT] at h
    simp only [assign]
    exact bind_congr (eval_eq e σ w h) fun _ _ => rfl
  | .tup isList before star after, v, σ, w, h => by
    simp only [ConfT, Bool.and_eq_true, Bool.or_eq_true, Bool.not_eq_true'] at h
    obtain ⟨⟨hl, hb⟩, ha⟩ := h
    have e1 : (isList && !cfg.listTarget) = false := by
      rcases hl with h1 | h2
      · simp [h1]
      · simp [h2]
    have e2 : (isList && !py.listTarget) = false := by simp [hp.listTarget]
    simp only [assign, e1, e2, Bool.false_eq_true, if_false]
    refine bind_congr rfl fun vals w => ?_
    cases star with
    | none =>
      simp only
      split
      · rfl
      · exact bind_congr (assignList_eq before _ σ w hb) fun σ1 w => assignList_eq after _ σ1 w ha
    | some x =>
      simp only
      split
      · rfl
      · exact bind_congr (assignList_eq before _ σ w hb) fun σ1 w => bind_congr rfl fun lst w =>
          assignList_eq after _ _ w ha
theorem assignList_eq : ∀ (ts : List Target) (vs : List Val) (σ : Store) (w : W), ConfTs cfg ts = true →
    assignList cfg P ts vs σ w = assignList py P ts vs σ w
  | [], _, _, _, _ => by simp [assignList]
  | _ :: _, [], _, _, _ => by simp [assignList]
  | t :: ts, v :: vs, σ, w, h => by
    simp only [ConfTs, Bool.and_eq_true] at h
    simp only [assignList]
    exact bind_congr (assign_eq t v σ w h.1) fun σ1 w => assignList_eq ts vs σ1 w h.2
end

theorem assignAll_eq (v : Val) : ∀ (ts : List Target) (σ : Store) (w : W), ConfTs cfg ts = true →
    assignAll cfg P v ts σ w = assignAll py P v ts σ w
  | [], _, _, _ => by simp [assignAll]
  | t :: ts, σ, w, h => by
    simp only [ConfTs, Bool.and_eq_true] at h
    simp only [assignAll]
    exact bind_congr (assign_eq cfg P py hp t v σ w h.1) fun σ1 w => assignAll_eq v ts σ1 w h.2

mutual
theorem delete1_eq : ∀ (t : Target) (σ : Store) (w : W), ConfT cfg t = true →
    delete1 cfg P t σ w = delete1 py P t σ w
  | .name _, _, _, _ => by simp [delete1]
  | .sub v i, σ, w, h => by
    simp only [ConfT, Bool.and_eq_true] at h
    simp only [delete1]
    exact bind_congr (eval_eq cfg P py hp v σ w h.1) fun a w =>
      bind_congr (eval_eq cfg P py hp i a.2 w h.2) fun _ _ => rfl
  | .attr _ _, _, _, _ => by simp [delete1]
  | .tup l before star after, σ, w, h => by
    simp only [ConfT, Bool.and_eq_true] at h
    simp only [delete1]
    cases star with
    | some x => rfl
    | none => exact bind_congr (deleteAll_eq before σ w h.1.2) fun σ1 w => deleteAll_eq after σ1 w h.2
theorem deleteAll_eq : ∀ (ts : List Target) (σ : Store) (w : W), ConfTs cfg ts = true →
    deleteAll cfg P ts σ w = deleteAll py P ts σ w
  | [], _, _, _ => by simp [deleteAll]
  | t :: ts, σ, w, h => by
    simp only [ConfTs, Bool.and_eq_true] at h
    simp only [deleteAll]
    exact bind_congr (delete1_eq t σ w h.1) fun σ1 w => deleteAll_eq ts σ1 w h.2
end

theorem applyAug_eq (hi : cfg.augInPlace = true ∨ NoInPlace P) (op : Nat) (a b : Val) (w : W) :
    applyAug cfg P op a b w = applyAug py P op a b w := by
  simp only [applyAug, hp.augInPlace, if_true]
  rcases hi with h | h
  · simp [h]
  · cases cfg.augInPlace
    · simp [h op a b w]
    · simp

theorem augAssign_eq (hi : cfg.augInPlace = true ∨ NoInPlace P) (t : Target) (op : Nat) (e : Expr) (σ : Store) (w : W)
    (ht : ConfT cfg t = true) (he : Conf cfg e = true) (hn : cfg.augTargetOnce = true ∨ t.isName = true)
    (hnt : t.notTup = true) :
    augAssign cfg P t op e σ w = augAssign py P t op e σ w := by
  unfold augAssign
  simp only [hp.augTargetOnce, if_true]
  cases hc : cfg.augTargetOnce with
  | true =>
    simp only [if_true]
    cases t with
    | name x =>
      simp only
      cases σ.get x with
      | none => rfl
      | some a =>
        simp only
        exact bind_congr (eval_eq cfg P py hp e σ w he) fun b w =>
          bind_congr (applyAug_eq cfg P py hp hi op a b.1 w) fun _ _ => rfl
    | sub v i =>
      simp only [ConfT, Bool.and_eq_true] at ht
      simp only
      exact bind_congr (eval_eq cfg P py hp v σ w ht.1) fun c w =>
        bind_congr (eval_eq cfg P py hp i c.2 w ht.2) fun k w => bind_congr rfl fun a w =>
        bind_congr (eval_eq cfg P py hp e k.2 w he) fun b w =>
        bind_congr (applyAug_eq cfg P py hp hi op a b.1 w) fun _ _ => rfl
    | attr v a =>
      simp only [ConfT] at ht
      simp only
      exact bind_congr (eval_eq cfg P py hp v σ w ht) fun c w => bind_congr rfl fun a w =>
        bind_congr (eval_eq cfg P py hp e c.2 w he) fun b w =>
        bind_congr (applyAug_eq cfg P py hp hi op a b.1 w) fun _ _ => rfl
    | tup l b s a => simp [Target.notTup] at hnt
  | false =>
    simp only [hc, Bool.false_eq_true, false_or] at hn
    cases t with
    | name x =>
      simp only [Bool.false_eq_true, if_false, Target.asLoad, eval]
      cases σ.get x with
      | none => rfl
      | some a =>
        simp only [bind_ok]
        refine bind_congr (eval_eq cfg P py hp e σ w he) fun b w => ?_
        refine bind_congr (applyAug_eq cfg P py hp hi op a b.1 w) fun r w => ?_
        simp [assign]
    | sub v i => simp [Target.isName] at hn
    | attr v a => simp [Target.isName] at hn
    | tup l b s a => simp [Target.isName] at hn

theorem exec_eq (hi : cfg.augInPlace = true ∨ NoInPlace P) (s : Stmt) (σ : Store) (w : W) (h : ConfS cfg s = true) :
    exec cfg P s σ w = exec py P s σ w := by
  cases s with
  | expr e =>
    simp only [ConfS] at h
    simp only [exec]
    exact bind_congr (eval_eq cfg P py hp e σ w h) fun _ _ => rfl
  | assign ts e =>
    simp only [ConfS, Bool.and_eq_true] at h
    simp only [exec]
    exact bind_congr (eval_eq cfg P py hp e σ w h.2) fun a w => assignAll_eq cfg P py hp a.1 ts a.2 w h.1
  | aug t op e =>
    simp only [ConfS, Bool.and_eq_true, Bool.or_eq_true] at h
    simp only [exec]
    exact augAssign_eq cfg P py hp hi t op e σ w h.1.1.1 h.1.1.2 h.1.2 h.2
  | del ts =>
    simp only [ConfS] at h
    simp only [exec]
    exact deleteAll_eq cfg P py hp ts σ w h

theorem run_eq (hi : cfg.augInPlace = true ∨ NoInPlace P) : ∀ (p : List Stmt) (σ : Store) (w : W),
    ConfProg cfg p = true → run cfg P p σ w = run py P p σ w
  | [], _, _, _ => by simp [run]
  | s :: ss, σ, w, h => by
    simp only [ConfProg, Bool.and_eq_true] at h
    simp only [run]
    exact bind_congr (exec_eq cfg P py hp hi s σ w h.1) fun σ1 w => run_eq hi ss σ1 w h.2

end agree

end PsModel.C01
