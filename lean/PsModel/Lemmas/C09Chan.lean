import PsModel.Lemmas.C09World
/-! the notify channels (`Event`, `Mqtt`, `Webhook`) and the service bookkeeping of the world of generations:
after every operation each channel's table / Home Assistant registrations are exactly what the started generations
declare, and `Function.service_cnt` / `Function.service2global_ctx` count and name exactly the started declarers -/
namespace PsModel.C09
open PsModel.C09.Spec

/-! ## one queue in, one queue out -/

theorem evSubs_key (s : EvSt) (ty : String) : evSubs s ty = subsOf s.tbl [ty] := rfl

theorem mem_evAdd (s : EvSt) (ty ty' : String) (q q' : Q) :
    q' ∈ evSubs (evAdd s ty q) ty' ↔ q' ∈ evSubs s ty' ∨ (ty' = ty ∧ q' = q) := by
  simp only [evAdd, evSubs]
  rw [mem_addSub]
  simp

theorem not_mem_of_noop {s : EvSt} {ty : String} {q : Q}
    (h1 : (!evHas s ty || !(evSubs s ty).contains q) = true) : q ∉ evSubs s ty := by
  intro hq
  have hc : (evSubs s ty).contains q = true := by simpa using hq
  have hh : evHas s ty = true := by
    cases hh : evHas s ty with
    | true => rfl
    | false =>
      have := subsOf_of_not_has s.tbl [ty] hh
      rw [evSubs_key, this] at hq
      simp at hq
  simp [hh] at h1
  exact h1 hq

theorem mem_evDel (s : EvSt) (ty ty' : String) (q q' : Q) :
    q' ∈ evSubs (evDel s ty q) ty' ↔ q' ∈ evSubs s ty' ∧ ¬ (ty' = ty ∧ q' = q) := by
  unfold evDel
  by_cases h1 : (!evHas s ty || !(evSubs s ty).contains q) = true
  · simp only [h1, if_true]
    have hq := not_mem_of_noop h1
    constructor
    · intro h
      refine ⟨h, ?_⟩
      rintro ⟨rfl, rfl⟩
      exact hq h
    · exact fun h => h.1
  · simp only [h1, Bool.false_eq_true, if_false]
    by_cases h2 : ((evSubs s ty).filter (fun x => !(x == q))).isEmpty = true
    · rw [if_pos h2]
      simp only [evSubs]
      by_cases he : ty' = ty
      · subst he
        have hno : hasEnt (s.tbl.filter (fun kv => !(kv.1 == [ty']))) [ty'] = false := by
          rw [hasEnt_filter]; simp
        rw [subsOf_of_not_has _ _ hno]
        constructor
        · intro h; exact absurd h List.not_mem_nil
        · rintro ⟨hm, hn⟩
          have hmem : q' ∈ (evSubs s ty').filter (fun x => !(x == q)) := by
            refine List.mem_filter.mpr ⟨hm, ?_⟩
            have : q' ≠ q := fun hq => hn ⟨rfl, hq⟩
            simpa using this
          rw [List.isEmpty_iff] at h2
          rw [h2] at hmem
          exact absurd hmem List.not_mem_nil
      · have hne : ([ty'] : List String) ≠ [ty] := by simpa using he
        rw [subsOf_filter_ne _ _ _ hne]
        simp [he]
    · rw [if_neg h2]
      simp only [evSubs]
      rw [mem_delSub]
      simp

theorem mem_foldl_evAdd (i : Nat) (key : String) (q' : Q) : ∀ (l : List (Nat × String)) (s : EvSt),
    q' ∈ evSubs (l.foldl (fun s kv => evAdd s kv.2 (i, kv.1)) s) key ↔
      q' ∈ evSubs s key ∨ ∃ kn ∈ l, q' = (i, kn.1) ∧ kn.2 = key := by
  intro l
  induction l with
  | nil => intro s; simp
  | cons kv l ih =>
    intro s
    simp only [List.foldl_cons]
    rw [ih, mem_evAdd]
    simp only [List.mem_cons, exists_eq_or_imp]
    constructor
    · rintro ((h | ⟨h1, h2⟩) | h)
      · exact .inl h
      · exact .inr (.inl ⟨h2, h1.symm⟩)
      · exact .inr (.inr h)
    · rintro (h | ⟨h1, h2⟩ | h)
      · exact .inl (.inl h)
      · exact .inl (.inr ⟨h2.symm, h1⟩)
      · exact .inr h

theorem mem_foldl_evDel (i : Nat) (key : String) (q' : Q) : ∀ (l : List (Nat × String)) (s : EvSt),
    q' ∈ evSubs (l.foldl (fun s kv => evDel s kv.2 (i, kv.1)) s) key ↔
      q' ∈ evSubs s key ∧ ¬ ∃ kn ∈ l, q' = (i, kn.1) ∧ kn.2 = key := by
  intro l
  induction l with
  | nil => intro s; simp
  | cons kv l ih =>
    intro s
    simp only [List.foldl_cons]
    rw [ih, mem_evDel]
    simp only [List.mem_cons, exists_eq_or_imp, not_or]
    constructor
    · rintro ⟨⟨h1, h2⟩, h3⟩
      exact ⟨h1, fun ⟨a, b⟩ => h2 ⟨b.symm, a⟩, h3⟩
    · rintro ⟨h1, h2, h3⟩
      exact ⟨⟨h1, fun ⟨a, b⟩ => h2 ⟨b, a.symm⟩⟩, h3⟩

theorem foldl_evAdd_ok (i : Nat) : ∀ (l : List (Nat × String)) (s : EvSt), EvOK s →
    EvOK (l.foldl (fun s kv => evAdd s kv.2 (i, kv.1)) s) := by
  intro l
  induction l with
  | nil => intro s h; exact h
  | cons kv l ih => intro s h; exact ih _ (evAdd_ok h _ _)

theorem foldl_evDel_ok (i : Nat) : ∀ (l : List (Nat × String)) (s : EvSt), EvOK s →
    EvOK (l.foldl (fun s kv => evDel s kv.2 (i, kv.1)) s) := by
  intro l
  induction l with
  | nil => intro s h; exact h
  | cons kv l ih => intro s h; exact ih _ (evDel_ok h _ _)

/-- the new subsystem does not touch the notify tables -/
theorem foldl_busInc_count (k : String) : ∀ (keys : List String) (b : List (String × Nat)),
    busCount (keys.foldl busInc b) k = busCount b k + keys.count k := by
  intro keys
  induction keys with
  | nil => intro b; simp
  | cons x xs ih =>
    intro b
    simp only [List.foldl_cons]
    rw [ih, busCount_inc, List.count_cons]
    by_cases h : k = x
    · subst h; simp; omega
    · have : (x == k) = false := by rw [beq_eq_false_iff_ne]; exact fun e => h e.symm
      simp [h, this]

theorem foldl_busDec_count (k : String) : ∀ (keys : List String) (b : List (String × Nat)),
    busCount (keys.foldl busDec b) k = busCount b k - keys.count k := by
  intro keys
  induction keys with
  | nil => intro b; simp
  | cons x xs ih =>
    intro b
    simp only [List.foldl_cons]
    rw [ih, busCount_dec, List.count_cons]
    by_cases h : k = x
    · subst h; simp; omega
    · have : (x == k) = false := by rw [beq_eq_false_iff_ne]; exact fun e => h e.symm
      simp [h, this]

/-! ## demand -/

theorem demand_nil (keys : Gen → List String) (k : String) : demand keys [] k = 0 := rfl

theorem demand_cons (keys : Gen → List String) (g : Gen) (gens : List Gen) (k : String) :
    demand keys (g :: gens) k = (keys g).count k + demand keys gens k := by
  simp [demand]

theorem demand_append_one (keys : Gen → List String) (gens : List Gen) (g : Gen) (k : String) :
    demand keys (gens ++ [g]) k = demand keys gens k + (keys g).count k := by
  simp [demand]

theorem filter_id_self_of_not_mem (i : Nat) : ∀ (gens : List Gen), i ∉ gens.map (·.id) →
    gens.filter (fun x => !(x.id == i)) = gens := by
  intro gens h
  apply List.filter_eq_self.mpr
  intro x hx
  have : x.id ≠ i := fun e => h (e ▸ List.mem_map_of_mem (f := (·.id)) hx)
  simpa using this

/-- taking one started generation out lowers the demand by exactly what it declares -/
theorem demand_remove (keys : Gen → List String) (k : String) : ∀ (gens : List Gen) (g : Gen), g ∈ gens →
    (gens.map (·.id)).Nodup →
    demand keys gens k = (keys g).count k + demand keys (gens.filter (fun x => !(x.id == g.id))) k := by
  intro gens
  induction gens with
  | nil => intro g hg; simp at hg
  | cons x xs ih =>
    intro g hg hnd
    simp only [List.map_cons, List.nodup_cons] at hnd
    rcases List.mem_cons.mp hg with rfl | hg'
    · have : (g :: xs).filter (fun x => !(x.id == g.id)) = xs := by
        simp only [List.filter_cons, beq_self_eq_true, Bool.not_true, Bool.false_eq_true, if_false]
        exact filter_id_self_of_not_mem g.id xs hnd.1
      rw [this, demand_cons]
    · have hne : x.id ≠ g.id := fun e => hnd.1 (e ▸ List.mem_map_of_mem (f := (·.id)) hg')
      have hb : (!(x.id == g.id)) = true := by simpa using hne
      simp only [List.filter_cons, hb, if_true, demand_cons]
      rw [ih g hg' hnd.2]
      omega

theorem demand_pos_iff (keys : Gen → List String) (k : String) (gens : List Gen) :
    0 < demand keys gens k ↔ ∃ g ∈ gens, k ∈ keys g := by
  induction gens with
  | nil => simp [demand]
  | cons x xs ih =>
    rw [demand_cons, Nat.add_pos_iff_pos_or_pos, ih, List.count_pos_iff]
    simp

/-! ## the channel invariant -/

structure ChanInv (sub : Sub) (keys : Gen → List String) (gens : List Gen) (s : EvSt) : Prop where
  /-- legacy: the table is the union of what the generations declare, one Home Assistant registration per key in use -/
  legacy : sub = .legacy → (∀ key q, q ∈ evSubs s key ↔ ChanTables keys gens key q) ∧ EvOK s
  /-- new: the tables stay empty, one Home Assistant registration per started decorator -/
  new : sub = .new → s.tbl = [] ∧ ∀ key, busCount s.bus key = demand keys gens key

theorem wantsKey_id {keys : Gen → List String} {g : Gen} {key : String} {q : Q} (h : WantsKey keys g key q) :
    q.1 = g.id := by
  obtain ⟨kn, _, rfl, _⟩ := h; rfl

theorem chanSub_inv {sub : Sub} {keys : Gen → List String} {gens : List Gen} {s : EvSt}
    (h : ChanInv sub keys gens s) (g : Gen) : ChanInv sub keys (gens ++ [g]) (chanSub sub g.id (keys g) s) := by
  constructor
  · intro hs
    subst hs
    obtain ⟨ht, hok⟩ := h.legacy rfl
    refine ⟨?_, foldl_evAdd_ok _ _ _ hok⟩
    intro key q
    simp only [chanSub]
    rw [mem_foldl_evAdd, ht]
    simp only [ChanTables, List.mem_append, List.mem_singleton]
    constructor
    · rintro (⟨g', hg', hw⟩ | hw)
      · exact ⟨g', .inl hg', hw⟩
      · exact ⟨g, .inr rfl, hw⟩
    · rintro ⟨g', hg' | rfl, hw⟩
      · exact .inl ⟨g', hg', hw⟩
      · exact .inr hw
  · intro hs
    subst hs
    obtain ⟨ht, hc⟩ := h.new rfl
    refine ⟨ht, ?_⟩
    intro key
    simp only [chanSub]
    rw [foldl_busInc_count, hc, demand_append_one]

theorem chanUnsub_inv {sub : Sub} {keys : Gen → List String} {gens : List Gen} {s : EvSt}
    (h : ChanInv sub keys gens s) {g : Gen} (hg : g ∈ gens) (hnd : (gens.map (·.id)).Nodup) :
    ChanInv sub keys (gens.filter (fun x => !(x.id == g.id))) (chanUnsub sub g.id (keys g) s) := by
  constructor
  · intro hs
    subst hs
    obtain ⟨ht, hok⟩ := h.legacy rfl
    refine ⟨?_, foldl_evDel_ok _ _ _ hok⟩
    intro key q
    simp only [chanUnsub]
    rw [mem_foldl_evDel, ht]
    simp only [ChanTables, List.mem_filter, Bool.not_eq_eq_eq_not, Bool.not_true, beq_eq_false_iff_ne, ne_eq]
    constructor
    · rintro ⟨⟨g', hg', hw⟩, hnw⟩
      refine ⟨g', ⟨hg', ?_⟩, hw⟩
      intro hid
      have : g' = g := nodup_map_inj hnd hg' hg hid
      exact hnw (this ▸ hw)
    · rintro ⟨g', ⟨hg', hne⟩, hw⟩
      refine ⟨⟨g', hg', hw⟩, ?_⟩
      intro hw'
      exact hne ((wantsKey_id hw).symm.trans (wantsKey_id (keys := keys) (g := g) hw'))
  · intro hs
    subst hs
    obtain ⟨ht, hc⟩ := h.new rfl
    refine ⟨ht, ?_⟩
    intro key
    simp only [chanUnsub]
    rw [foldl_busDec_count, hc, demand_remove keys key gens g hg hnd]
    omega

theorem chanInv_empty (sub : Sub) (keys : Gen → List String) : ChanInv sub keys [] { tbl := [], bus := [] } := by
  constructor
  · intro _
    refine ⟨?_, ⟨by intro ty; simp [busCount, evHas, hasEnt], by intro ty h; simp [evHas, hasEnt] at h⟩⟩
    intro key q
    simp [evSubs, subsOf, ChanTables]
  · intro _
    exact ⟨rfl, by intro key; simp [busCount, demand]⟩

/-- nothing started: nothing in the table, no Home Assistant registration -/
theorem chanInv_baseline {sub : Sub} {keys : Gen → List String} {s : EvSt} (h : ChanInv sub keys [] s) (key : String) :
    evSubs s key = [] ∧ busCount s.bus key = 0 := by
  cases sub with
  | legacy =>
    obtain ⟨ht, hok⟩ := h.legacy rfl
    have hnil : evSubs s key = [] := by
      apply List.eq_nil_iff_forall_not_mem.mpr
      intro q hq
      obtain ⟨g, hg, _⟩ := (ht key q).mp hq
      simp at hg
    refine ⟨hnil, ?_⟩
    rw [hok.count key]
    cases hh : evHas s key with
    | false => simp
    | true => exact absurd hnil (hok.nonempty key hh)
  | new =>
    obtain ⟨ht, hc⟩ := h.new rfl
    refine ⟨?_, by rw [hc]; rfl⟩
    simp [evSubs, subsOf, ht]

/-- one Home Assistant registration for a key with a subscriber, none otherwise -/
theorem evOK_count {s : EvSt} (h : EvOK s) (ty : String) :
    busCount s.bus ty = (if (evSubs s ty).isEmpty then 0 else 1) := by
  rw [h.count ty]
  cases hh : evHas s ty with
  | true =>
    have := h.nonempty ty hh
    simp [this]
  | false =>
    have : evSubs s ty = [] := subsOf_of_not_has _ _ hh
    simp [this]

theorem chanSub_nil (sub : Sub) (i : Nat) (s : EvSt) : chanSub sub i [] s = s := by
  cases sub <;> rfl

/-! ## `Function.service_cnt` and `Function.service2global_ctx` -/

theorem svcInc_eq (s : List (String × Nat)) (n : String) : svcInc s n = busInc s n := rfl

theorem svcDec_eq (s : List (String × Nat)) (n : String) : svcDec s n = busDec s n := by
  unfold svcDec busDec
  apply List.map_congr_left
  intro kv _
  have : (if 1 < kv.2 then kv.2 - 1 else 0) = kv.2 - 1 := by split <;> omega
  rw [this]

theorem svcCount_eq (s : List (String × Nat)) (n : String) : svcCount s n = busCount s n := rfl

theorem svcCount_foldl_inc (n : String) (l : List String) (s : List (String × Nat)) :
    svcCount (l.foldl svcInc s) n = svcCount s n + l.count n := by
  have : l.foldl svcInc s = l.foldl busInc s := rfl
  rw [this, svcCount_eq, foldl_busInc_count]
  rfl

theorem ownerOf_cons (k c : String) (o : List (String × String)) (n : String) :
    ownerOf ((k, c) :: o) n = if k = n then some c else ownerOf o n := by
  simp only [ownerOf, List.lookup_cons]
  by_cases h : k = n
  · subst h; simp
  · have : (n == k) = false := by rw [beq_eq_false_iff_ne]; exact fun x => h x.symm
    simp [this, h]

theorem ownerOf_filter (o : List (String × String)) (x n : String) :
    ownerOf (o.filter (fun kv => !(kv.1 == x))) n = if n = x then none else ownerOf o n := by
  induction o with
  | nil => simp [ownerOf]
  | cons kv o ih =>
    obtain ⟨k, c⟩ := kv
    simp only [List.filter_cons]
    by_cases hk : k = x
    · subst hk
      simp only [beq_self_eq_true, Bool.not_true, Bool.false_eq_true, if_false, ih, ownerOf_cons]
      by_cases hn : n = k
      · simp [hn]
      · have : ¬ k = n := fun e => hn e.symm
        simp [hn, this]
    · have hk' : (k == x) = false := by simpa using hk
      simp only [hk', Bool.not_false, if_true, ownerOf_cons, ih]
      by_cases hn : k = n
      · subst hn; simp [hk]
      · simp [hn]

theorem ownerOf_any (o : List (String × String)) (n : String) :
    o.any (fun kv => kv.1 == n) = (ownerOf o n).isSome := by
  induction o with
  | nil => simp [ownerOf]
  | cons kv o ih =>
    obtain ⟨k, c⟩ := kv
    simp only [List.any_cons, ih, ownerOf_cons]
    by_cases hk : k = n
    · subst hk; simp
    · have : (k == n) = false := by simpa using hk
      simp [hk, this]

theorem ownerOf_append_new (o : List (String × String)) (n c n' : String) (h : ownerOf o n = none) :
    ownerOf (o ++ [(n, c)]) n' = if n' = n then some c else ownerOf o n' := by
  induction o with
  | nil =>
    simp only [List.nil_append, ownerOf_cons]
    by_cases he : n = n'
    · subst he; simp
    · have : ¬ n' = n := fun x => he x.symm
      simp [he, this, ownerOf]
  | cons kv o ih =>
    obtain ⟨k, c'⟩ := kv
    rw [ownerOf_cons] at h
    by_cases hk : k = n
    · simp [hk] at h
    · simp only [hk, if_false] at h
      simp only [List.cons_append, ownerOf_cons]
      by_cases he : k = n'
      · subst he
        have : ¬ k = n := hk
        simp [this]
      · simp only [he, if_false]
        exact ih h

theorem ownerOf_claim (c : String) (o : List (String × String)) (n n' : String) :
    ownerOf (ownerClaim c o n) n' = if n' = n ∧ ownerOf o n = none then some c else ownerOf o n' := by
  unfold ownerClaim
  rw [ownerOf_any]
  cases h : ownerOf o n with
  | none =>
    simp only [Option.isSome_none, Bool.false_eq_true, if_false, and_true]
    exact ownerOf_append_new o n c n' h
  | some c' => simp

theorem ownerOf_claim_fold (c : String) (n' : String) : ∀ (l : List String) (o : List (String × String)),
    ownerOf (l.foldl (ownerClaim c) o) n' = if n' ∈ l ∧ ownerOf o n' = none then some c else ownerOf o n' := by
  intro l
  induction l with
  | nil => intro o; simp
  | cons x xs ih =>
    intro o
    simp only [List.foldl_cons]
    rw [ih, ownerOf_claim]
    by_cases hx : n' = x
    · subst hx
      cases h : ownerOf o n' with
      | none => simp
      | some c' => simp
    · have hx' : ¬ x = n' := fun e => hx e.symm
      simp [hx, List.mem_cons]

/-- releasing the declarations `l` of one function: the count drops by the number of declarations, the owner entry
goes exactly when the count reaches zero -/
theorem svcRelease_fold (n : String) : ∀ (l : List String) (s : List (String × Nat)) (o : List (String × String)),
    svcCount (l.foldl svcRelease (s, o)).1 n = svcCount s n - l.count n ∧
    ownerOf (l.foldl svcRelease (s, o)).2 n =
      if 0 < l.count n ∧ svcCount s n ≤ l.count n then none else ownerOf o n := by
  intro l
  induction l with
  | nil => intro s o; simp
  | cons x xs ih =>
    intro s o
    simp only [List.foldl_cons]
    have hstep : svcRelease (s, o) x =
        (svcDec s x, if 1 < svcCount s x then o else o.filter (fun kv => !(kv.1 == x))) := rfl
    rw [hstep]
    obtain ⟨ih1, ih2⟩ := ih (svcDec s x) (if 1 < svcCount s x then o else o.filter (fun kv => !(kv.1 == x)))
    by_cases hn : n = x
    · subst hn
      have hdec : svcCount (svcDec s n) n = svcCount s n - 1 := by
        rw [svcDec_eq]
        show busCount (busDec s n) n = busCount s n - 1
        rw [busCount_dec, if_pos rfl]
      have ho1 : ownerOf (if 1 < svcCount s n then o else o.filter (fun kv => !(kv.1 == n))) n =
          if svcCount s n ≤ 1 then none else ownerOf o n := by
        by_cases hc : 1 < svcCount s n
        · rw [if_pos hc, if_neg (by omega)]
        · rw [if_neg hc, if_pos (by omega), ownerOf_filter, if_pos rfl]
      have hcnt : (n :: xs).count n = xs.count n + 1 := by simp
      rw [ih1, ih2, hdec, ho1, hcnt]
      refine ⟨by omega, ?_⟩
      by_cases hA : 0 < List.count n xs + 1 ∧ svcCount s n ≤ List.count n xs + 1
      · rw [if_pos hA]
        by_cases h1 : 0 < List.count n xs ∧ svcCount s n - 1 ≤ List.count n xs
        · rw [if_pos h1]
        · rw [if_neg h1, if_pos (by omega)]
      · rw [if_neg hA, if_neg (by omega), if_neg (by omega)]
    · have hdec : svcCount (svcDec s x) n = svcCount s n := by
        rw [svcDec_eq]
        show busCount (busDec s x) n = busCount s n
        rw [busCount_dec, if_neg hn]
      have ho1 : ownerOf (if 1 < svcCount s x then o else o.filter (fun kv => !(kv.1 == x))) n = ownerOf o n := by
        by_cases hc : 1 < svcCount s x
        · rw [if_pos hc]
        · rw [if_neg hc, ownerOf_filter, if_neg hn]
      have hcnt : (x :: xs).count n = xs.count n := by
        have hb : (x == n) = false := by rw [beq_eq_false_iff_ne]; exact fun e => hn e.symm
        rw [List.count_cons]; simp [hb]
      rw [ih1, ih2, hdec, ho1, hcnt]
      exact ⟨rfl, rfl⟩

/-! ## the world invariant for channels and services -/

structure XInv (sub : Sub) (w : World) : Prop where
  evc : ChanInv sub (·.events) w.started w.ev
  mqc : ChanInv sub (·.mqtts) w.started w.mq
  whc : ChanInv sub (·.hooks) w.started w.wh
  /-- new subsystem: Home Assistant's webhook registry is a dictionary – at most one registration per id -/
  hookx : sub = .new → ∀ key, demand (·.hooks) w.started key ≤ 1
  /-- `service_cnt[n]` = number of `@service(n)` declarations of the started generations -/
  cnt : ∀ n, svcCount w.svc n = demand (·.services) w.started n
  /-- a name has an owner exactly while some started generation declares it -/
  free : ∀ n, ownerOf w.owner n = none ↔ demand (·.services) w.started n = 0
  /-- every started declarer lives in the owning context -/
  own : ∀ g ∈ w.started, ∀ n ∈ g.services, ownerOf w.owner n = some g.ctx

theorem XInv_congr {sub : Sub} {w w' : World} (h : XInv sub w) (hev : w'.ev = w.ev) (hmq : w'.mq = w.mq)
    (hwh : w'.wh = w.wh) (hsvc : w'.svc = w.svc) (hown : w'.owner = w.owner) (hst : w'.started = w.started) :
    XInv sub w' :=
  ⟨by rw [hev, hst]; exact h.evc, by rw [hmq, hst]; exact h.mqc, by rw [hwh, hst]; exact h.whc,
   by rw [hst]; exact h.hookx, by rw [hsvc, hst]; exact h.cnt, by rw [hown, hst]; exact h.free,
   by rw [hown, hst]; exact h.own⟩

theorem emptyWorld_xinv (sub : Sub) : XInv sub emptyWorld := by
  refine ⟨chanInv_empty sub _, chanInv_empty sub _, chanInv_empty sub _, ?_, ?_, ?_, ?_⟩
  · intro _ key; simp [emptyWorld, demand]
  · intro n; simp [emptyWorld, svcCount, demand]
  · intro n; simp [emptyWorld, ownerOf, demand]
  · intro g hg; simp [emptyWorld] at hg

/-- starting a generation whose service names are free or its own context's, and (new subsystem) whose webhook ids are
not registered yet -/
theorem startGen_xinv {sub : Sub} {w : World} (h : XInv sub w) (g : Gen)
    (hok : ∀ n ∈ g.services, ownerOf w.owner n = none ∨ ownerOf w.owner n = some g.ctx)
    (hx : sub = .new → ∀ key, demand (·.hooks) w.started key + g.hooks.count key ≤ 1) :
    XInv sub (startGen sub g { w with next := w.next + 1 }) := by
  have hst : (startGen sub g { w with next := w.next + 1 }).started = w.started ++ [g] := by
    simp [startGen, subscribe]
  have hev : (startGen sub g { w with next := w.next + 1 }).ev = chanSub sub g.id g.events w.ev := by
    simp [startGen, subscribe]
  have hmq : (startGen sub g { w with next := w.next + 1 }).mq = chanSub sub g.id g.mqtts w.mq := by
    simp [startGen, subscribe]
  have hwh : (startGen sub g { w with next := w.next + 1 }).wh = chanSub sub g.id g.hooks w.wh := by
    simp [startGen, subscribe]
  have hsvc : (startGen sub g { w with next := w.next + 1 }).svc = g.services.foldl svcInc w.svc := by
    simp [startGen, subscribe]
  have hown : (startGen sub g { w with next := w.next + 1 }).owner = g.services.foldl (ownerClaim g.ctx) w.owner := by
    simp [startGen, subscribe]
  refine ⟨?_, ?_, ?_, ?_, ?_, ?_, ?_⟩
  · rw [hev, hst]; exact chanSub_inv h.evc g
  · rw [hmq, hst]; exact chanSub_inv h.mqc g
  · rw [hwh, hst]; exact chanSub_inv h.whc g
  · intro hs key
    rw [hst, demand_append_one]
    exact hx hs key
  · intro n
    rw [hsvc, hst, svcCount_foldl_inc, demand_append_one, h.cnt]
  · intro n
    rw [hown, hst, ownerOf_claim_fold, demand_append_one]
    by_cases hn : n ∈ g.services
    · have hpos : 0 < g.services.count n := List.count_pos_iff.mpr hn
      cases ho : ownerOf w.owner n with
      | none => simp [hn]; omega
      | some c => simp; omega
    · have h0 : g.services.count n = 0 := List.count_eq_zero.mpr hn
      simp only [hn, false_and, if_false, h0, Nat.add_zero]
      exact h.free n
  · intro g' hg' n hn
    rw [hown, ownerOf_claim_fold]
    rw [hst] at hg'
    rcases List.mem_append.mp hg' with hg' | hg'
    · have := h.own g' hg' n hn
      simp [this]
    · simp only [List.mem_singleton] at hg'
      subst hg'
      rcases hok n hn with ho | ho
      · simp [hn, ho]
      · simp [ho]

/-- stopping one started generation -/
theorem stopGen_xinv {cont : Bool} {sub : Sub} {w : World} (h : XInv sub w) {g : Gen} (hg : g ∈ w.started)
    (hnd : (w.started.map (·.id)).Nodup) : XInv sub (stopGen cont sub g w) := by
  have hst : (stopGen cont sub g w).started = w.started.filter (fun x => !(x.id == g.id)) := by
    simp [stopGen, unsubscribe]
  have hev : (stopGen cont sub g w).ev = chanUnsub sub g.id g.events w.ev := by simp [stopGen, unsubscribe]
  have hmq : (stopGen cont sub g w).mq = chanUnsub sub g.id g.mqtts w.mq := by simp [stopGen, unsubscribe]
  have hwh : (stopGen cont sub g w).wh = chanUnsub sub g.id g.hooks w.wh := by simp [stopGen, unsubscribe]
  have hsvc : (stopGen cont sub g w).svc = (g.services.foldl svcRelease (w.svc, w.owner)).1 := by
    simp [stopGen, unsubscribe]
  have hown : (stopGen cont sub g w).owner = (g.services.foldl svcRelease (w.svc, w.owner)).2 := by
    simp [stopGen, unsubscribe]
  have hdem : ∀ n, demand (·.services) w.started n =
      g.services.count n + demand (·.services) (w.started.filter (fun x => !(x.id == g.id))) n :=
    fun n => demand_remove (·.services) n w.started g hg hnd
  refine ⟨?_, ?_, ?_, ?_, ?_, ?_, ?_⟩
  · rw [hev, hst]; exact chanUnsub_inv h.evc hg hnd
  · rw [hmq, hst]; exact chanUnsub_inv h.mqc hg hnd
  · rw [hwh, hst]; exact chanUnsub_inv h.whc hg hnd
  · intro hs key
    rw [hst]
    have := h.hookx hs key
    rw [demand_remove (·.hooks) key w.started g hg hnd] at this
    omega
  · intro n
    rw [hsvc, hst, (svcRelease_fold n g.services w.svc w.owner).1, h.cnt, hdem n]
    omega
  · intro n
    rw [hown, hst, (svcRelease_fold n g.services w.svc w.owner).2, h.cnt, hdem n]
    by_cases hc : 0 < g.services.count n ∧
        g.services.count n + demand (·.services) (w.started.filter (fun x => !(x.id == g.id))) n ≤ g.services.count n
    · simp only [hc, and_self, if_true, true_iff]
      omega
    · simp only [hc, if_false]
      rw [h.free n, hdem n]
      omega
  · intro g' hg' n hn
    rw [hst] at hg'
    rw [hown, (svcRelease_fold n g.services w.svc w.owner).2, h.cnt, hdem n]
    have hpos : 0 < demand (·.services) (w.started.filter (fun x => !(x.id == g.id))) n :=
      (demand_pos_iff _ _ _).mpr ⟨g', hg', hn⟩
    have hc : ¬ (0 < g.services.count n ∧
        g.services.count n + demand (·.services) (w.started.filter (fun x => !(x.id == g.id))) n ≤ g.services.count n) := by
      omega
    simp only [hc, if_false]
    exact h.own g' (List.mem_filter.mp hg').1 n hn

theorem sweep_fold_xinv {cont : Bool} {sub : Sub} : ∀ (l : List Gen) (w : World), WInv sub w → XInv sub w →
    (∀ g ∈ l, g ∈ w.started ∧ GoodGen cont sub g ∧ refs w g.id = 0) → (l.map (·.id)).Nodup →
    XInv sub (l.foldl (fun w g => stopGen cont sub g w) w) := by
  intro l
  induction l with
  | nil => intro w _ hx _ _; exact hx
  | cons g l ih =>
    intro w h hx hl hnd
    simp only [List.map_cons, List.nodup_cons] at hnd
    simp only [List.foldl_cons]
    obtain ⟨hg, hgood, hun⟩ := hl g List.mem_cons_self
    obtain ⟨h1, hb1, hs1, hst1⟩ := stopGen_inv h hg hgood hun
    have hrefs : ∀ i, refs (stopGen cont sub g w) i = refs w i := by intro i; simp [refs, hb1, hs1]
    apply ih (stopGen cont sub g w) h1 (stopGen_xinv hx hg h.nodup)
    · intro g' hg'
      obtain ⟨a, b, c⟩ := hl g' (List.mem_cons_of_mem _ hg')
      refine ⟨?_, b, by rw [hrefs]; exact c⟩
      rw [hst1]
      simp only [List.mem_filter, Bool.not_eq_eq_eq_not, Bool.not_true, beq_eq_false_iff_ne, ne_eq]
      refine ⟨a, ?_⟩
      intro hid
      exact hnd.1 (hid ▸ List.mem_map_of_mem (f := (·.id)) hg')
    · exact hnd.2

theorem sweep_xinv {cont : Bool} {sub : Sub} {w : World} (h : WInv sub w) (hgood : AllGood cont sub w)
    (hx : XInv sub w) : XInv sub (sweep cont sub w) := by
  unfold sweep
  apply sweep_fold_xinv (cont := cont) _ w h hx
  · intro g hg
    obtain ⟨a, b⟩ := List.mem_filter.mp hg
    exact ⟨a, hgood g a, by simpa using b⟩
  · exact h.nodup.sublist (List.Sublist.map _ List.filter_sublist)

theorem dupFree_count {l : List String} (h : dupFree l = true) (k : String) : l.count k ≤ 1 := by
  induction l with
  | nil => simp
  | cons x xs ih =>
    simp only [dupFree, Bool.and_eq_true, Bool.not_eq_eq_eq_not, Bool.not_true] at h
    rw [List.count_cons]
    by_cases hk : x = k
    · subst hk
      have : xs.count x = 0 := List.count_eq_zero.mpr (by simpa using h.1)
      simp [this]
    · have hb : (x == k) = false := by simpa using hk
      simp only [hb, Bool.false_eq_true, if_false, Nat.add_zero]
      exact ih h.2

/-- what `effective` guarantees about the generation that is actually started -/
theorem effective_ok {sub : Sub} {w : World} (h : XInv sub w) (g0 : Gen) :
    (∀ n ∈ (effective sub w g0).services,
        ownerOf w.owner n = none ∨ ownerOf w.owner n = some (effective sub w g0).ctx) ∧
    (sub = .new → ∀ key, demand (·.hooks) w.started key + (effective sub w g0).hooks.count key ≤ 1) := by
  unfold effective
  by_cases hr : refused sub w g0 = true
  · simp only [hr, if_true]
    refine ⟨by intro n hn; simp [inert] at hn, ?_⟩
    intro hs key
    have := h.hookx hs key
    simp [inert]
    exact this
  · simp only [hr, Bool.false_eq_true, if_false]
    have hr' : svcRefused w g0 = false ∧ hookClash sub w g0 = false := by
      simpa [refused, Bool.or_eq_false_iff] using hr
    constructor
    · intro n hn
      have := hr'.1
      simp only [svcRefused, List.any_eq_false] at this
      have hn' := this n hn
      cases ho : ownerOf w.owner n with
      | none => exact .inl rfl
      | some c =>
        right
        rw [ho] at hn'
        have : c = g0.ctx := by simpa using hn'
        rw [this]
    · intro hs key
      subst hs
      have hc := hr'.2
      simp only [hookClash, Bool.or_eq_false_iff, Bool.not_eq_eq_eq_not, Bool.not_false, List.any_eq_false] at hc
      obtain ⟨hdf, hfree⟩ := hc
      by_cases hk : key ∈ g0.hooks
      · have h0 : busCount w.wh.bus key = 0 := by simpa using hfree key hk
        rw [(h.whc.new rfl).2 key] at h0
        have := dupFree_count hdf key
        omega
      · have h0 : g0.hooks.count key = 0 := List.count_eq_zero.mpr hk
        have := h.hookx rfl key
        omega

theorem applyOp_xinv {sub : Sub} {w : World} (hx : XInv sub w) (op : Op) : XInv sub (applyOp sub w op) := by
  cases op with
  | define ctx name states events mqtts hooks services su sd =>
    simp only [applyOp, setBind]
    generalize mkGen w.next ctx states events mqtts hooks services su sd = g0
    obtain ⟨hok, hh⟩ := effective_ok hx g0
    exact XInv_congr (startGen_xinv hx (effective sub w g0) hok hh) rfl rfl rfl rfl rfl rfl
  | del ctx name => exact XInv_congr hx rfl rfl rfl rfl rfl rfl
  | rebind ctx dst src =>
    simp only [applyOp]
    cases lookupBind w ctx src with
    | none => exact hx
    | some j => exact XInv_congr hx rfl rfl rfl rfl rfl rfl
  | put slot ctx name =>
    simp only [applyOp]
    cases lookupBind w ctx name with
    | none => exact hx
    | some j => exact XInv_congr hx rfl rfl rfl rfl rfl rfl
  | putIn slot ctx name owner =>
    simp only [applyOp]
    cases lookupBind w ctx name with
    | none => exact hx
    | some j => exact XInv_congr hx rfl rfl rfl rfl rfl rfl
  | drop slot => exact XInv_congr hx rfl rfl rfl rfl rfl rfl
  | unloadCtx ctx => exact XInv_congr hx rfl rfl rfl rfl rfl rfl
  | unloadAll => exact XInv_congr hx rfl rfl rfl rfl rfl rfl

theorem step_xinv {cont : Bool} {sub : Sub} {w : World} (h : StepInv cont sub w) (hx : XInv sub w) (op : Op)
    (hop : OpGood cont sub op) : XInv sub (step cont sub w op) := by
  obtain ⟨h1, g1⟩ := applyOp_inv h.inv h.good op hop
  exact sweep_xinv h1 g1 (applyOp_xinv hx op)

theorem run_xinv (cont : Bool) (sub : Sub) : ∀ (ops : List Op) (w : World), StepInv cont sub w → XInv sub w →
    (∀ op ∈ ops, OpGood cont sub op) → XInv sub (ops.foldl (step cont sub) w) := by
  intro ops
  induction ops with
  | nil => intro w _ hx _; exact hx
  | cons op ops ih =>
    intro w h hx hops
    simp only [List.foldl_cons]
    exact ih _ (step_inv h op (hops op List.mem_cons_self)) (step_xinv h hx op (hops op List.mem_cons_self))
      (fun o ho => hops o (List.mem_cons_of_mem _ ho))

end PsModel.C09
