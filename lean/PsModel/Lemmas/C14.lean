import PsModel.Model.C14
import PsModel.Spec.C14
import PsModel.Lemmas.C13
/-! helper lemmas for C14 (core Lean only): registry invariant `InvR`, callback invariant `InvC` -/
namespace PsModel.C14
open PsModel.C13 (Task upd upd_same upd_other upd_apply MapsInv not_true_false)

set_option linter.unusedSectionVars false
variable {κ : Type} [DecidableEq κ]

/-- `run_coro` is between its first segment and the end of its `finally` -/
def Live (s : St κ) (t : Task) : Prop := s.phase t = .running ∨ s.phase t = .finalizing

/-! ### facts about the C13 steps that the C14 steps reuse -/

theorem mapsInv_congr (u u' : C13.St κ) (h : MapsInv u) (e1 : u'.owner = u.owner) (e2 : u'.names = u.names)
    (e3 : u'.entry = u.entry) : MapsInv u' := by
  obtain ⟨a, b, c⟩ := h
  exact ⟨by rw [e1, e2, e3]; exact a, by rw [e1, e2]; exact b, by rw [e2]; exact c⟩

theorem mapsInv_claim (u : C13.St κ) (t : Task) (k : κ) (h : MapsInv u) : MapsInv (C13.claim u t k) := by
  by_cases hno : ¬ u.ours t = true
  · rw [C13.claim_not_ours u t k hno]; exact h
  have ho : u.ours t = true := Classical.not_not.1 hno
  have hmem := fun x m => C13.mem_claim_names u t x k m h ho
  have hnd := fun x => C13.nodup_claim_names u t x k h ho
  have hf := C13.claim_eq u t k ho
  have hown : (C13.claim u t k).owner = upd u.owner k (some t) := by rw [hf]
  have hent : (C13.claim u t k).entry = upd u.entry t true := by rw [hf]
  obtain ⟨a, b, c⟩ := h
  refine ⟨?_, ?_, hnd⟩
  · intro m x hx
    rw [hown] at hx
    rw [hmem, hent]
    by_cases hm : m = k
    · subst hm
      simp only [upd_same, Option.some.injEq] at hx
      subst hx
      simp
    · simp only [upd_other _ _ _ _ hm] at hx
      obtain ⟨p, q⟩ := a m x hx
      refine ⟨Or.inr ⟨hm, p⟩, ?_⟩
      simp only [upd_apply]; split <;> simp [q]
  · intro m x hx
    rw [hmem] at hx
    rw [hown]
    rcases hx with ⟨e1, e2⟩ | ⟨hm, hx⟩
    · subst e1; subst e2; simp
    · simp only [upd_other _ _ _ _ hm]; exact b m x hx

theorem claim_entry (u : C13.St κ) (t x : Task) (k : κ) (h : (C13.claim u t k).entry x = true) :
    u.entry x = true ∨ x = t := by
  by_cases ho : u.ours t = true
  · rw [C13.claim_eq u t k ho] at h
    simp only [upd_apply] at h
    split at h
    · rename_i e; exact Or.inr e
    · exact Or.inl h
  · rw [C13.claim_not_ours u t k ho] at h; exact Or.inl h

theorem claim_basic (u : C13.St κ) (t : Task) (k : κ) :
    (C13.claim u t k).live = u.live ∧ (C13.claim u t k).started = u.started ∧ (C13.claim u t k).ours = u.ours := by
  by_cases ho : u.ours t = true
  · rw [C13.claim_eq u t k ho]; simp
  · rw [C13.claim_not_ours u t k ho]; simp

theorem killPrev_fields (u : C13.St κ) (t o : Task) :
    (C13.killPrev u t o).owner = u.owner ∧ (C13.killPrev u t o).names = u.names ∧
    (C13.killPrev u t o).entry = u.entry ∧ (C13.killPrev u t o).live = u.live ∧
    (C13.killPrev u t o).started = u.started ∧ (C13.killPrev u t o).ours = u.ours := by
  unfold C13.killPrev; split <;> simp [C13.enqueue]

/-- what `task.unique` does to the fields C14 cares about -/
theorem unique_facts (u : C13.St κ) (t : Task) (k : κ) (km : Bool) (h : MapsInv u) :
    MapsInv (C13.uniqueStep u t k km) ∧ (C13.uniqueStep u t k km).live = u.live ∧
    (C13.uniqueStep u t k km).started = u.started ∧ (C13.uniqueStep u t k km).ours = u.ours ∧
    (∀ x, (C13.uniqueStep u t k km).entry x = true → u.entry x = true ∨ x = t) := by
  have key : ∀ v : C13.St κ, MapsInv v → v.live = u.live → v.started = u.started → v.ours = u.ours →
      v.entry = u.entry →
      MapsInv (C13.claim v t k) ∧ (C13.claim v t k).live = u.live ∧ (C13.claim v t k).started = u.started ∧
      (C13.claim v t k).ours = u.ours ∧ (∀ x, (C13.claim v t k).entry x = true → u.entry x = true ∨ x = t) := by
    intro v hv e1 e2 e3 e4
    obtain ⟨a, b, c⟩ := claim_basic v t k
    refine ⟨mapsInv_claim v t k hv, by rw [a, e1], by rw [b, e2], by rw [c, e3], ?_⟩
    intro x hx
    rw [← e4]; exact claim_entry v t x k hx
  unfold C13.uniqueStep
  split
  · exact ⟨h, rfl, rfl, rfl, fun x hx => Or.inl hx⟩
  · split
    · rename_i o hown
      cases km
      · simp only [Bool.false_eq_true, if_false]
        obtain ⟨a, b, c, d, e, f⟩ := killPrev_fields u t o
        exact key _ (mapsInv_congr u _ h a b c) d e f c
      · simp only [if_true]
        split
        · exact ⟨mapsInv_congr u _ h rfl rfl rfl, rfl, rfl, rfl, fun x hx => Or.inl hx⟩
        · exact key u h rfl rfl rfl rfl
    · exact key u h rfl rfl rfl rfl

theorem mapsInv_exit (u : C13.St κ) (t : Task) (h : MapsInv u) : MapsInv (C13.exitStep u t) := by
  by_cases hnl : ¬ u.live t = true
  · rw [C13.exit_dead u t hnl]; exact h
  have hl : u.live t = true := Classical.not_not.1 hnl
  rw [C13.exit_eq u t h hl]
  obtain ⟨h1, h2, h3⟩ := h
  refine ⟨?_, ?_, ?_⟩
  · intro k x hx
    simp only [] at hx ⊢
    split at hx
    · cases hx
    · rename_i hk
      obtain ⟨a, d⟩ := h1 k x hx
      have hxt : x ≠ t := by intro e; subst e; exact hk a
      simp only [upd_other _ _ _ _ hxt]
      exact ⟨a, d⟩
  · intro k x hx
    simp only [] at hx ⊢
    by_cases hxt : x = t
    · subst hxt; simp at hx
    · simp only [upd_other _ _ _ _ hxt] at hx
      have hk : k ∉ u.names t := by
        intro hk
        have e1 := h2 k t hk
        have e2 := h2 k x hx
        rw [e1] at e2; cases e2; exact hxt rfl
      simp only [hk, if_false]
      exact h2 k x hx
  · intro x
    simp only [upd_apply]; split
    · exact List.nodup_nil
    · exact h3 x

theorem exit_started (u : C13.St κ) (t : Task) : (C13.exitStep u t).started = u.started := by
  unfold C13.exitStep
  split
  · rfl
  · split
    · split <;> rfl
    · rfl

/-! ### the registry invariant -/

structure InvR (s : St κ) : Prop where
  maps : MapsInv s.u
  live : ∀ t, s.u.live t = true ↔ Live s t
  fresh : ∀ t, (s.phase t = .none ∨ s.phase t = .created) → s.u.started t = false
  ours : ∀ t, s.u.ours t = true → s.phase t = .created ∨ Live s t ∨ s.leaked t = true
  cb : ∀ t, s.cb t ≠ none → s.phase t = .created ∨ Live s t ∨ s.leaked t = true
  hctx : ∀ t, s.hctx t = true → Live s t ∨ s.leaked t = true
  entry : ∀ t, s.u.entry t = true → Live s t ∨ s.leaked t = true
  result : ∀ t, s.phase t = .done → s.leaked t = false → s.result t ≠ none

theorem invR_init : InvR (init : St κ) := by
  refine ⟨?_, ?_, ?_, ?_, ?_, ?_, ?_, ?_⟩
  · exact ⟨by simp [init, C13.init], by simp [init, C13.init], by simp [init, C13.init]⟩
  all_goals simp [init, C13.init, Live]

/-- a step that leaves every field read by `InvR` unchanged -/
theorem invR_congr (s s' : St κ) (h : InvR s) (eu : s'.u.owner = s.u.owner) (en : s'.u.names = s.u.names)
    (ee : s'.u.entry = s.u.entry) (el : s'.u.live = s.u.live) (es : s'.u.started = s.u.started)
    (eo : s'.u.ours = s.u.ours) (ep : s'.phase = s.phase) (ec : ∀ t, s'.cb t ≠ none → s.cb t ≠ none)
    (eh : s'.hctx = s.hctx) (ek : s'.leaked = s.leaked) (er : s'.result = s.result) (eoc : s'.outcome = s.outcome) :
    InvR s' := by
  obtain ⟨h1, h2, h3, h4, h5, h6, h7, h8⟩ := h
  have hL : ∀ t, Live s' t ↔ Live s t := by intro t; unfold Live; rw [ep]
  refine ⟨mapsInv_congr s.u s'.u h1 eu en ee, ?_, ?_, ?_, ?_, ?_, ?_, ?_⟩
  · intro t; rw [el, hL]; exact h2 t
  · intro t; rw [ep, es]; exact h3 t
  · intro t; rw [eo, ep, hL, ek]; exact h4 t
  · intro t ht; rw [ep, hL, ek]; exact h5 t (ec t ht)
  · intro t; rw [eh, hL, ek]; exact h6 t
  · intro t; rw [ee, hL, ek]; exact h7 t
  · intro t; rw [ep, ek, er]; exact h8 t

theorem ensureEntry_other (cb : Task → Option (List (Cb × Args))) (t x : Task) (h : x ≠ t) :
    ensureEntry cb t x = cb x := by
  unfold ensureEntry
  cases cb t with
  | some _ => rfl
  | none => exact upd_other _ _ _ _ h

theorem ensureEntry_same (cb : Task → Option (List (Cb × Args))) (t : Task) : ensureEntry cb t t ≠ none := by
  unfold ensureEntry
  cases h : cb t with
  | some l => simp [h]
  | none => simp

/-- a step that changes the `InvR`-relevant fields of one task only -/
theorem invR_update (s s' : St κ) (t : Task) (h : InvR s) (hm : MapsInv s'.u)
    (fo : ∀ x, x ≠ t → s'.phase x = s.phase x ∧ (s'.cb x ≠ none → s.cb x ≠ none) ∧ s'.hctx x = s.hctx x ∧
      s'.leaked x = s.leaked x ∧ s'.result x = s.result x ∧ s'.outcome x = s.outcome x ∧
      s'.u.live x = s.u.live x ∧ s'.u.started x = s.u.started x ∧ s'.u.ours x = s.u.ours x ∧
      s'.u.entry x = s.u.entry x)
    (l1 : s'.u.live t = true ↔ Live s' t)
    (l2 : (s'.phase t = .none ∨ s'.phase t = .created) → s'.u.started t = false)
    (l3 : s'.u.ours t = true → s'.phase t = .created ∨ Live s' t ∨ s'.leaked t = true)
    (l4 : s'.cb t ≠ none → s'.phase t = .created ∨ Live s' t ∨ s'.leaked t = true)
    (l5 : s'.hctx t = true → Live s' t ∨ s'.leaked t = true)
    (l6 : s'.u.entry t = true → Live s' t ∨ s'.leaked t = true)
    (l7 : s'.phase t = .done → s'.leaked t = false → s'.result t ≠ none) :
    InvR s' := by
  obtain ⟨h1, h2, h3, h4, h5, h6, h7, h8⟩ := h
  have hL : ∀ x, x ≠ t → (Live s' x ↔ Live s x) := by
    intro x hx; unfold Live; rw [(fo x hx).1]
  refine ⟨hm, ?_, ?_, ?_, ?_, ?_, ?_, ?_⟩
  · intro x
    by_cases hx : x = t
    · subst hx; exact l1
    · obtain ⟨_, _, _, _, _, _, e, _⟩ := fo x hx
      rw [e, hL x hx]; exact h2 x
  · intro x
    by_cases hx : x = t
    · subst hx; exact l2
    · obtain ⟨e1, _, _, _, _, _, _, e, _⟩ := fo x hx
      rw [e1, e]; exact h3 x
  · intro x
    by_cases hx : x = t
    · subst hx; exact l3
    · obtain ⟨e1, _, _, e4, _, _, _, _, e, _⟩ := fo x hx
      rw [e, e1, hL x hx, e4]; exact h4 x
  · intro x
    by_cases hx : x = t
    · subst hx; exact l4
    · obtain ⟨e1, e2, _, e4, _⟩ := fo x hx
      intro hc
      rw [e1, hL x hx, e4]; exact h5 x (e2 hc)
  · intro x
    by_cases hx : x = t
    · subst hx; exact l5
    · obtain ⟨_, _, e3, e4, _⟩ := fo x hx
      rw [e3, hL x hx, e4]; exact h6 x
  · intro x
    by_cases hx : x = t
    · subst hx; exact l6
    · obtain ⟨_, _, _, e4, _, _, _, _, _, e⟩ := fo x hx
      rw [e, hL x hx, e4]; exact h7 x
  · intro x
    by_cases hx : x = t
    · subst hx; exact l7
    · obtain ⟨e1, _, _, e4, e5, _, _⟩ := fo x hx
      rw [e1, e4, e5]; exact h8 x

theorem createU_fields (cfg : Cfg) (u : C13.St κ) (t : Task) :
    let u' := if cfg.oursAtCreate then { u with ours := upd u.ours t true } else u
    u'.owner = u.owner ∧ u'.names = u.names ∧ u'.entry = u.entry ∧ u'.live = u.live ∧ u'.started = u.started ∧
    (∀ x, x ≠ t → u'.ours x = u.ours x) := by
  simp only []
  split
  · exact ⟨rfl, rfl, rfl, rfl, rfl, fun x hx => upd_other _ _ _ _ hx⟩
  · exact ⟨rfl, rfl, rfl, rfl, rfl, fun _ _ => rfl⟩

theorem invR_create (cfg : Cfg) (s : St κ) (t : Task) (wc pre : Bool) (h : InvR s) :
    InvR (createStep cfg s t wc pre) := by
  unfold createStep
  split
  · exact h
  · rename_i hp
    have hp : s.phase t = .none := Classical.not_not.1 hp
    have hnl : ¬ Live s t := by unfold Live; rw [hp]; simp
    obtain ⟨c1, c2, c3, c4, c5, c6⟩ := createU_fields cfg s.u t
    refine invR_update s _ t h ?_ ?_ ?_ ?_ ?_ ?_ ?_ ?_ ?_
    · exact mapsInv_congr s.u _ h.maps c1 c2 c3
    · intro x hx
      refine ⟨upd_other _ _ _ _ hx, ?_, rfl, rfl, rfl, rfl, ?_, ?_, c6 x hx, ?_⟩
      · intro hc e; apply hc
        show (if pre then ensureEntry s.cb t else s.cb) x = none
        split
        · rw [ensureEntry_other _ _ _ hx]; exact e
        · exact e
      · show (if cfg.oursAtCreate then { s.u with ours := upd s.u.ours t true } else s.u).live x = s.u.live x
        rw [c4]
      · show (if cfg.oursAtCreate then { s.u with ours := upd s.u.ours t true } else s.u).started x = s.u.started x
        rw [c5]
      · show (if cfg.oursAtCreate then { s.u with ours := upd s.u.ours t true } else s.u).entry x = s.u.entry x
        rw [c3]
    · constructor
      · intro hl
        have hl : (if cfg.oursAtCreate then { s.u with ours := upd s.u.ours t true } else s.u).live t = true := hl
        rw [c4] at hl
        exact absurd ((h.live t).1 hl) hnl
      · intro hl; unfold Live at hl; simp at hl
    · intro _
      show (if cfg.oursAtCreate then { s.u with ours := upd s.u.ours t true } else s.u).started t = false
      rw [c5]; exact h.fresh t (Or.inl hp)
    · intro _; exact Or.inl (by simp)
    · intro _; exact Or.inl (by simp)
    · intro hh
      rcases h.hctx t hh with a | a
      · exact absurd a hnl
      · exact Or.inr a
    · intro he
      have he : (if cfg.oursAtCreate then { s.u with ours := upd s.u.ours t true } else s.u).entry t = true := he
      rw [c3] at he
      rcases h.entry t he with a | a
      · exact absurd a hnl
      · exact Or.inr a
    · intro hd; simp at hd

theorem spawn_fresh (u : C13.St κ) (t : Task) (h : u.started t = false) :
    C13.spawnStep u t false = { u with started := upd u.started t true, live := upd u.live t true,
                                       ours := upd u.ours t true, foreign := upd u.foreign t false } := by
  unfold C13.spawnStep; simp [h]

theorem invR_killUnstarted (s : St κ) (t : Task) (h : InvR s) (hp : s.phase t = .created) :
    InvR (killUnstarted s t) := by
  unfold killUnstarted
  have hnl : ¬ Live s t := by unfold Live; rw [hp]; simp
  refine invR_update s _ t h ?_ ?_ ?_ ?_ ?_ ?_ ?_ ?_ ?_
  · exact mapsInv_congr s.u _ h.maps rfl rfl rfl
  · intro x hx
    exact ⟨upd_other _ _ _ _ hx, fun hc => hc, rfl, upd_other _ _ _ _ hx, upd_other _ _ _ _ hx, rfl, rfl, rfl,
           upd_other _ _ _ _ hx, rfl⟩
  · constructor
    · intro hl; exact absurd ((h.live t).1 hl) hnl
    · intro hl; unfold Live at hl; simp at hl
  · intro hh; simp at hh
  · intro _; exact Or.inr (Or.inr (by simp))
  · intro _; exact Or.inr (Or.inr (by simp))
  · intro _; exact Or.inr (by simp)
  · intro _; exact Or.inr (by simp)
  · intro _ hk; simp at hk

theorem invR_start (s : St κ) (t : Task) (h : InvR s) : InvR (startStep s t) := by
  unfold startStep
  split
  · exact h
  · rename_i hp
    have hp : s.phase t = .created := Classical.not_not.1 hp
    split
    · exact invR_killUnstarted s t h hp
    have hsp := spawn_fresh s.u t (h.fresh t (Or.inr hp))
    refine invR_update s _ t h ?_ ?_ ?_ ?_ ?_ ?_ ?_ ?_ ?_
    · exact mapsInv_congr s.u _ h.maps (by simp only [hsp]) (by simp only [hsp]) (by simp only [hsp])
    · intro x hx
      refine ⟨upd_other _ _ _ _ hx, ?_, rfl, rfl, rfl, rfl, ?_, ?_, ?_, ?_⟩
      · intro hc e; apply hc
        show (if s.withCtx t then ensureEntry s.cb t else s.cb) x = none
        split
        · rw [ensureEntry_other _ _ _ hx]; exact e
        · exact e
      · simp only [hsp, upd_other _ _ _ _ hx]
      · simp only [hsp, upd_other _ _ _ _ hx]
      · simp only [hsp, upd_other _ _ _ _ hx]
      · simp only [hsp]
    · exact ⟨fun _ => (by unfold Live; simp), fun _ => by simp only [hsp, upd_same]⟩
    · intro hh; simp at hh
    · intro _; exact Or.inr (Or.inl (by unfold Live; simp))
    · intro _; exact Or.inr (Or.inl (by unfold Live; simp))
    · intro _; exact Or.inl (by unfold Live; simp)
    · intro _; exact Or.inl (by unfold Live; simp)
    · intro hd; simp at hd

theorem active_live (s : St κ) (t : Task) (h : active s t = true) : Live s t := by
  unfold active at h
  unfold Live
  cases hp : s.phase t <;> simp_all

/-- a step that changes, among the fields `InvR` reads, only `hctx t := true` / `cb` of existing entries / `u`'s
queue – given the task concerned is live where needed -/
theorem invR_storeCtx (s : St κ) (t : Task) (h : InvR s) : InvR (storeCtxStep s t) := by
  unfold storeCtxStep
  split
  · rename_i ha
    have hl := active_live s t ha
    refine invR_update s _ t h h.maps ?_ (h.live t) (h.fresh t) (h.ours t) (h.cb t) (fun _ => Or.inl hl)
      (h.entry t) (h.result t)
    intro x hx
    exact ⟨rfl, fun hc => hc, upd_other _ _ _ _ hx, rfl, rfl, rfl, rfl, rfl, rfl, rfl⟩
  · exact h

theorem invR_setcb (s : St κ) (t : Task) (l l' : List (Cb × Args)) (tc : Task → Bool) (hc : s.cb t = some l)
    (h : InvR s) : InvR { s with cb := upd s.cb t (some l'), touched := tc } := by
  refine invR_congr s _ h rfl rfl rfl rfl rfl rfl rfl ?_ rfl rfl rfl rfl
  intro x hx
  by_cases e : x = t
  · subst e; rw [hc]; simp
  · simpa [upd_other _ _ _ _ e] using hx

theorem invR_errs (s : St κ) (n : Nat) (h : InvR s) : InvR { s with errs := n } :=
  invR_congr s _ h rfl rfl rfl rfl rfl rfl rfl (fun _ hx => hx) rfl rfl rfl rfl

theorem invR_addCb (s : St κ) (a t : Task) (c : Cb) (args : Args) (h : InvR s) : InvR (addCbStep s a t c args) := by
  unfold addCbStep
  split
  · exact h
  · split
    · exact invR_errs s _ h
    · rename_i l hc; exact invR_setcb s t l _ _ hc h

theorem invR_removeCb (s : St κ) (a t : Task) (c : Cb) (h : InvR s) : InvR (removeCbStep s a t c) := by
  unfold removeCbStep
  split
  · exact h
  · split
    · exact invR_errs s _ h
    · rename_i l hc; exact invR_setcb s t l _ _ hc h

theorem invR_cancel (s : St κ) (a : Task) (tg : Option Task) (h : InvR s) : InvR (cancelStep s a tg) := by
  unfold cancelStep
  split
  · exact h
  · simp only []
    split
    · exact invR_errs s _ h
    · split
      · exact invR_congr s _ h rfl rfl rfl rfl rfl rfl rfl (fun _ hx => hx) rfl rfl rfl rfl
      · exact invR_congr s _ h rfl rfl rfl rfl rfl rfl rfl (fun _ hx => hx) rfl rfl rfl rfl

theorem invR_unique (s : St κ) (t : Task) (k : κ) (km : Bool) (h : InvR s) : InvR (uniqueStep s t k km) := by
  unfold uniqueStep
  split
  · rename_i ha
    have hl := active_live s t ha
    obtain ⟨m, e1, e2, e3, e4⟩ := unique_facts s.u t k km h.maps
    obtain ⟨h1, h2, h3, h4, h5, h6, h7, h8⟩ := h
    refine ⟨m, ?_, ?_, ?_, h5, h6, ?_, h8⟩
    · intro x; simp only [e1]; exact h2 x
    · intro x; simp only [e2]; exact h3 x
    · intro x; simp only [e3]; exact h4 x
    · intro x hx
      rcases e4 x hx with hx | rfl
      · exact h7 x hx
      · exact Or.inl hl
  · exact h

theorem invR_reap (cfg : Cfg) (s : St κ) (h : InvR s) : InvR (reapStep cfg s) := by
  unfold reapStep
  split
  · split
    · exact h
    · unfold markUnstarted
      split
      · exact invR_congr s _ h rfl rfl rfl rfl rfl rfl rfl (fun _ hx => hx) rfl rfl rfl rfl
      · exact h
  · obtain ⟨e1, e2, e3, e4, e5, e6, _⟩ := C13.reapCfg_fields (!cfg.reaperDetached) s.u
    exact invR_congr s _ h e1 e2 e3 e5 e6 e4 rfl (fun _ hx => hx) rfl rfl rfl rfl

theorem invR_endBody (s : St κ) (t : Task) (oc : Outcome) (h : InvR s) : InvR (endBodyStep s t oc) := by
  unfold endBodyStep
  split
  · exact h
  · rename_i hp
    have hp : s.phase t = .running := Classical.not_not.1 hp
    have hl : Live s t := Or.inl hp
    refine invR_update s _ t h ?_ ?_ ?_ ?_ ?_ ?_ ?_ ?_ ?_
    · exact mapsInv_congr s.u _ h.maps rfl rfl rfl
    · intro x hx
      exact ⟨upd_other _ _ _ _ hx, fun hc => hc, rfl, rfl, rfl, upd_other _ _ _ _ hx, rfl, rfl, rfl, rfl⟩
    · exact ⟨fun _ => (by unfold Live; simp), fun _ => (h.live t).2 hl⟩
    · intro hh; simp at hh
    · intro _; exact Or.inr (Or.inl (by unfold Live; simp))
    · intro _; exact Or.inr (Or.inl (by unfold Live; simp))
    · intro _; exact Or.inl (by unfold Live; simp)
    · intro _; exact Or.inl (by unfold Live; simp)
    · intro hd; simp at hd

theorem invR_abort (s : St κ) (t : Task) (r : Res) (h : InvR s) : InvR (abort s t r) := by
  unfold abort
  refine invR_update s _ t h ?_ ?_ ?_ ?_ ?_ ?_ ?_ ?_ ?_
  · exact mapsInv_congr s.u _ h.maps rfl rfl rfl
  · intro x hx
    exact ⟨upd_other _ _ _ _ hx, fun hc => hc, rfl, upd_other _ _ _ _ hx, upd_other _ _ _ _ hx, rfl,
           upd_other _ _ _ _ hx, rfl, rfl, rfl⟩
  · constructor
    · intro hl; simp at hl
    · intro hl; unfold Live at hl; simp at hl
  · intro hh; simp at hh
  · intro _; exact Or.inr (Or.inr (by simp))
  · intro _; exact Or.inr (Or.inr (by simp))
  · intro _; exact Or.inr (by simp)
  · intro _; exact Or.inr (by simp)
  · intro _ hk; simp at hk

/-- steps that only change callback-loop bookkeeping -/
theorem invR_loopfields (s : St κ) (ran : List (Task × Cb × Args)) (idx : Task → Nat) (ld cr ic : Task → Bool)
    (h : InvR s) : InvR { s with ran := ran, idx := idx, loopDone := ld, cbRaised := cr, inCb := ic } :=
  invR_congr s _ h rfl rfl rfl rfl rfl rfl rfl (fun _ hx => hx) rfl rfl rfl rfl

theorem invR_bailed (s : St κ) (b : Task → Option Res) (h : InvR s) : InvR { s with bailed := b } :=
  invR_congr s _ h rfl rfl rfl rfl rfl rfl rfl (fun _ hx => hx) rfl rfl rfl rfl

/-- the clean-up block -/
theorem invR_finish (s : St κ) (t : Task) (r : Res) (h : InvR s) (hp : s.phase t = .finalizing) :
    InvR (finish s t r) := by
  unfold finish
  have hl : s.u.live t = true := (h.live t).2 (Or.inr hp)
  have hex := C13.exit_eq s.u t h.maps hl
  refine invR_update s _ t h ?_ ?_ ?_ ?_ ?_ ?_ ?_ ?_ ?_
  · exact mapsInv_exit s.u t h.maps
  · intro x hx
    refine ⟨upd_other _ _ _ _ hx, ?_, upd_other _ _ _ _ hx, rfl, upd_other _ _ _ _ hx, rfl, ?_, ?_, ?_, ?_⟩
    · intro hc; simpa [upd_other _ _ _ _ hx] using hc
    · simp only [hex, upd_other _ _ _ _ hx]
    · simp only [exit_started]
    · simp only [hex, upd_other _ _ _ _ hx]
    · simp only [hex, upd_other _ _ _ _ hx]
  · constructor
    · intro hl'; simp only [hex, upd_same] at hl'; cases hl'
    · intro hl'; unfold Live at hl'; simp at hl'
  · intro hh; simp at hh
  · intro ho; simp only [hex, upd_same] at ho; cases ho
  · intro hc; simp at hc
  · intro hh; simp at hh
  · intro he; simp only [hex, upd_same] at he; cases he
  · intro _ _; simp

theorem invR_bail (cfg : Cfg) (s : St κ) (t : Task) (r : Res) (h : InvR s) (hp : s.phase t = .finalizing) :
    InvR (bail cfg s t r) := by
  unfold bail
  split
  · exact invR_finish _ t r (invR_bailed s _ h) hp
  · exact invR_abort _ t r (invR_bailed s _ h)

theorem invR_cbBegin (cfg : Cfg) (s : St κ) (t : Task) (h : InvR s) : InvR (cbBeginStep cfg s t) := by
  unfold cbBeginStep
  split
  · exact h
  · rename_i hp
    have hp : s.phase t = .finalizing := Classical.not_not.1 hp
    split
    · exact h
    · split
      · exact h
      · split
        · exact invR_bail cfg s t _ h hp
        · split
          · exact h
          · exact invR_loopfields s _ _ s.loopDone s.cbRaised _ h

theorem invR_cbEnd (cfg : Cfg) (s : St κ) (t : Task) (r : CbRes) (h : InvR s) : InvR (cbEndStep cfg s t r) := by
  unfold cbEndStep
  split
  · exact h
  · rename_i hp
    have hp : s.phase t = .finalizing := Classical.not_not.1 hp
    split
    · exact h
    · cases r with
      | ok => exact invR_loopfields s s.ran s.idx s.loopDone s.cbRaised _ h
      | raises =>
        simp only []
        split
        · exact invR_loopfields s s.ran s.idx s.loopDone _ _ h
        · exact invR_loopfields s s.ran s.idx _ _ _ h
      | cancelled =>
        exact invR_bail cfg _ t _ (invR_loopfields s s.ran s.idx s.loopDone s.cbRaised _ h) hp

theorem invR_cleanup (cfg : Cfg) (s : St κ) (t : Task) (h : InvR s) : InvR (cleanupStep cfg s t) := by
  unfold cleanupStep
  split
  · exact h
  · rename_i hp
    have hp : s.phase t = .finalizing := Classical.not_not.1 hp
    split
    · exact h
    · split
      · exact h
      · split
        · exact invR_bail cfg s t _ h hp
        · exact invR_finish s t _ h hp

theorem invR_step (cfg : Cfg) (s : St κ) (op : Op κ) (h : InvR s) : InvR (step cfg s op) := by
  cases op with
  | create t wc pre => exact invR_create cfg s t wc pre h
  | start t => exact invR_start s t h
  | storeCtx t => exact invR_storeCtx s t h
  | addCb a t c args => exact invR_addCb s a t c args h
  | removeCb a t c => exact invR_removeCb s a t c h
  | cancel a tg => exact invR_cancel s a tg h
  | unique t k km => exact invR_unique s t k km h
  | reap => exact invR_reap cfg s h
  | endBody t oc => exact invR_endBody s t oc h
  | cbBegin t => exact invR_cbBegin cfg s t h
  | cbEnd t r => exact invR_cbEnd cfg s t r h
  | cleanup t => exact invR_cleanup cfg s t h

theorem invR_foldl (cfg : Cfg) (ops : List (Op κ)) : ∀ s : St κ, InvR s → InvR (ops.foldl (step cfg) s) := by
  induction ops with
  | nil => intro s h; exact h
  | cons op ops ih => intro s h; exact ih _ (invR_step cfg s op h)

theorem invR_run (cfg : Cfg) (ops : List (Op κ)) : InvR (run cfg ops) := invR_foldl cfg ops _ invR_init

/-! ### the callback invariant -/

theorem keys_setCb (l : List (Cb × Args)) (c : Cb) (a : Args) :
    (setCb l c a).map (·.1) = if c ∈ l.map (·.1) then l.map (·.1) else l.map (·.1) ++ [c] := by
  induction l with
  | nil => simp [setCb]
  | cons p l ih =>
    obtain ⟨c', a'⟩ := p
    simp only [setCb]
    by_cases h : c' = c
    · subst h; simp
    · have h' : ¬ c = c' := fun e => h e.symm
      simp only [h, if_false, List.map_cons, ih, List.mem_cons, h', false_or]
      split <;> simp

theorem nodup_setCb (l : List (Cb × Args)) (c : Cb) (a : Args) (h : (l.map (·.1)).Nodup) :
    ((setCb l c a).map (·.1)).Nodup := by
  rw [keys_setCb]
  split
  · exact h
  · rename_i hc
    rw [List.nodup_append]
    refine ⟨h, by simp, ?_⟩
    intro x hx y hy
    simp only [List.mem_singleton] at hy
    subst hy
    intro e; subst e; exact hc hx

theorem nodup_delCb (l : List (Cb × Args)) (c : Cb) (h : (l.map (·.1)).Nodup) :
    ((delCb l c).map (·.1)).Nodup :=
  h.sublist (List.Sublist.map _ List.filter_sublist)

theorem not_mem_delCb (l : List (Cb × Args)) (c : Cb) : c ∉ (delCb l c).map (·.1) := by
  unfold delCb
  intro h
  obtain ⟨p, hp, e⟩ := List.mem_map.1 h
  have := (List.mem_filter.1 hp).2
  simp [e] at this

theorem ranOf_append (s : St κ) (t x : Task) (c : Cb) (a : Args) (s' : St κ) (h : s'.ran = s.ran ++ [(t, c, a)]) :
    ranOf s' x = if x = t then ranOf s x ++ [(c, a)] else ranOf s x := by
  unfold ranOf
  rw [h, List.filter_append, List.map_append]
  by_cases e : x = t
  · subst e; simp
  · have : ¬ t = x := fun e' => e e'.symm
    simp [e, this]

structure InvC (cfg : Cfg) (s : St κ) : Prop where
  keys : ∀ t l, s.cb t = some l → (l.map (·.1)).Nodup
  atEndKeys : ∀ t, ((s.atEnd t).map (·.1)).Nodup
  pre : ∀ t, (s.phase t = .none ∨ s.phase t = .created ∨ s.phase t = .running) → ranOf s t = []
  fin : ∀ t, s.phase t = .finalizing → s.touched t = false →
    cbList s t = s.atEnd t ∧ s.iterSize t = (s.atEnd t).length
  ran : ∀ t, (s.phase t = .finalizing ∨ s.phase t = .done) → (cfg.snapshotIter = true ∨ s.touched t = false) →
    ranOf s t = (s.atEnd t).take (s.idx t) ∧ s.idx t ≤ (s.atEnd t).length
  loop : ∀ t, s.loopDone t = true → cfg.cbContinues = false ∧ s.cbRaised t = true
  full : ∀ t, s.phase t = .done → (cfg.snapshotIter = true ∨ s.touched t = false) → s.bailed t = none →
    (cfg.cbContinues = true ∨ s.cbRaised t = false) → s.idx t = (s.atEnd t).length

theorem invC_init (cfg : Cfg) : InvC cfg (init : St κ) := by
  constructor <;> simp [init, ranOf, cbList]

/-- a step that changes the callback-relevant fields of one task only -/
theorem invC_update (cfg : Cfg) (s s' : St κ) (t : Task) (h : InvC cfg s)
    (fo : ∀ x, x ≠ t → s'.cb x = s.cb x ∧ s'.atEnd x = s.atEnd x ∧ s'.phase x = s.phase x ∧
      s'.touched x = s.touched x ∧ s'.idx x = s.idx x ∧ s'.iterSize x = s.iterSize x ∧
      s'.loopDone x = s.loopDone x ∧ s'.cbRaised x = s.cbRaised x ∧ s'.bailed x = s.bailed x ∧
      ranOf s' x = ranOf s x)
    (l1 : ∀ l, s'.cb t = some l → (l.map (·.1)).Nodup)
    (l2 : ((s'.atEnd t).map (·.1)).Nodup)
    (l3 : (s'.phase t = .none ∨ s'.phase t = .created ∨ s'.phase t = .running) → ranOf s' t = [])
    (l4 : s'.phase t = .finalizing → s'.touched t = false →
      cbList s' t = s'.atEnd t ∧ s'.iterSize t = (s'.atEnd t).length)
    (l5 : (s'.phase t = .finalizing ∨ s'.phase t = .done) → (cfg.snapshotIter = true ∨ s'.touched t = false) →
      ranOf s' t = (s'.atEnd t).take (s'.idx t) ∧ s'.idx t ≤ (s'.atEnd t).length)
    (l6 : s'.loopDone t = true → cfg.cbContinues = false ∧ s'.cbRaised t = true)
    (l7 : s'.phase t = .done → (cfg.snapshotIter = true ∨ s'.touched t = false) → s'.bailed t = none →
      (cfg.cbContinues = true ∨ s'.cbRaised t = false) → s'.idx t = (s'.atEnd t).length) :
    InvC cfg s' := by
  obtain ⟨h1, h2, h3, h4, h5, h6, h7⟩ := h
  refine ⟨?_, ?_, ?_, ?_, ?_, ?_, ?_⟩
  · intro x
    by_cases hx : x = t
    · subst hx; exact l1
    · rw [(fo x hx).1]; exact h1 x
  · intro x
    by_cases hx : x = t
    · subst hx; exact l2
    · rw [(fo x hx).2.1]; exact h2 x
  · intro x
    by_cases hx : x = t
    · subst hx; exact l3
    · obtain ⟨_, _, e3, _, _, _, _, _, _, e10⟩ := fo x hx
      rw [e3, e10]; exact h3 x
  · intro x
    by_cases hx : x = t
    · subst hx; exact l4
    · obtain ⟨e1, e2, e3, e4, _, e6, _⟩ := fo x hx
      have : cbList s' x = cbList s x := by unfold cbList; rw [e1]
      rw [e3, e4, this, e2, e6]; exact h4 x
  · intro x
    by_cases hx : x = t
    · subst hx; exact l5
    · obtain ⟨_, e2, e3, e4, e5, _, _, _, _, e10⟩ := fo x hx
      rw [e3, e4, e10, e2, e5]; exact h5 x
  · intro x
    by_cases hx : x = t
    · subst hx; exact l6
    · obtain ⟨_, _, _, _, _, _, e7, e8, _⟩ := fo x hx
      rw [e7, e8]; exact h6 x
  · intro x
    by_cases hx : x = t
    · subst hx; exact l7
    · obtain ⟨_, e2, e3, e4, e5, _, _, e8, e9, _⟩ := fo x hx
      rw [e3, e4, e9, e8, e5, e2]; exact h7 x

/-- a step that leaves every field read by `InvC` unchanged -/
theorem invC_congr (cfg : Cfg) (s s' : St κ) (h : InvC cfg s) (e1 : s'.cb = s.cb) (e2 : s'.atEnd = s.atEnd)
    (e3 : s'.phase = s.phase) (e4 : s'.touched = s.touched) (e5 : s'.idx = s.idx) (e6 : s'.iterSize = s.iterSize)
    (e7 : s'.loopDone = s.loopDone) (e8 : s'.cbRaised = s.cbRaised) (e9 : s'.bailed = s.bailed)
    (e10 : s'.ran = s.ran) : InvC cfg s' := by
  have hr : ∀ x, ranOf s' x = ranOf s x := by intro x; unfold ranOf; rw [e10]
  have hc : ∀ x, cbList s' x = cbList s x := by intro x; unfold cbList; rw [e1]
  obtain ⟨h1, h2, h3, h4, h5, h6, h7⟩ := h
  refine ⟨?_, ?_, ?_, ?_, ?_, ?_, ?_⟩
  · intro x; rw [e1]; exact h1 x
  · intro x; rw [e2]; exact h2 x
  · intro x; rw [e3, hr]; exact h3 x
  · intro x; rw [e3, e4, hc, e2, e6]; exact h4 x
  · intro x; rw [e3, e4, hr, e2, e5]; exact h5 x
  · intro x; rw [e7, e8]; exact h6 x
  · intro x; rw [e3, e4, e9, e8, e5, e2]; exact h7 x

theorem ensureEntry_keys (cb : Task → Option (List (Cb × Args))) (t : Task) (l : List (Cb × Args))
    (h : ∀ l, cb t = some l → (l.map (·.1)).Nodup) (e : ensureEntry cb t t = some l) : (l.map (·.1)).Nodup := by
  unfold ensureEntry at e
  cases hc : cb t with
  | some l0 => rw [hc] at e; simp only [hc] at e; cases e; exact h _ hc
  | none => rw [hc] at e; simp only [upd_same] at e; cases e; simp

theorem invC_create (cfg : Cfg) (s : St κ) (t : Task) (wc pre : Bool) (h : InvC cfg s) :
    InvC cfg (createStep cfg s t wc pre) := by
  unfold createStep
  split
  · exact h
  · rename_i hp
    have hp : s.phase t = .none := Classical.not_not.1 hp
    refine invC_update cfg s _ t h ?_ ?_ ?_ ?_ ?_ ?_ ?_ ?_
    · intro x hx
      refine ⟨?_, rfl, upd_other _ _ _ _ hx, rfl, rfl, rfl, rfl, rfl, rfl, rfl⟩
      show (if pre then ensureEntry s.cb t else s.cb) x = s.cb x
      split
      · exact ensureEntry_other _ _ _ hx
      · rfl
    · intro l hl
      have hl : (if pre then ensureEntry s.cb t else s.cb) t = some l := hl
      split at hl
      · exact ensureEntry_keys s.cb t l (h.keys t) hl
      · exact h.keys t l hl
    · exact h.atEndKeys t
    · intro _; exact h.pre t (Or.inl hp)
    · intro hh; simp at hh
    · intro hh; simp at hh
    · exact h.loop t
    · intro hh; simp at hh

theorem invC_killUnstarted (cfg : Cfg) (s : St κ) (t : Task) (h : InvC cfg s) (hp : s.phase t = .created) :
    InvC cfg (killUnstarted s t) := by
  unfold killUnstarted
  refine invC_update cfg s _ t h ?_ ?_ ?_ ?_ ?_ ?_ ?_ ?_
  · intro x hx
    exact ⟨rfl, upd_other _ _ _ _ hx, upd_other _ _ _ _ hx, rfl, upd_other _ _ _ _ hx, rfl, rfl, rfl,
           upd_other _ _ _ _ hx, rfl⟩
  · exact h.keys t
  · simp only [upd_same]
    cases hc : s.cb t with
    | none => simp
    | some l => exact h.keys t l hc
  · intro hh; simp at hh
  · intro hh; simp at hh
  · intro _ _
    have : ranOf s t = [] := h.pre t (Or.inr (Or.inl hp))
    simp only [upd_same, List.take_zero, Nat.zero_le, and_true]
    exact this
  · exact h.loop t
  · intro _ _ hb; simp at hb

theorem invC_start (cfg : Cfg) (s : St κ) (t : Task) (h : InvC cfg s) : InvC cfg (startStep s t) := by
  unfold startStep
  split
  · exact h
  · rename_i hp
    have hp : s.phase t = .created := Classical.not_not.1 hp
    split
    · exact invC_killUnstarted cfg s t h hp
    refine invC_update cfg s _ t h ?_ ?_ ?_ ?_ ?_ ?_ ?_ ?_
    · intro x hx
      refine ⟨?_, rfl, upd_other _ _ _ _ hx, rfl, rfl, rfl, rfl, rfl, rfl, rfl⟩
      show (if s.withCtx t then ensureEntry s.cb t else s.cb) x = s.cb x
      split
      · exact ensureEntry_other _ _ _ hx
      · rfl
    · intro l hl
      have hl : (if s.withCtx t then ensureEntry s.cb t else s.cb) t = some l := hl
      split at hl
      · exact ensureEntry_keys s.cb t l (h.keys t) hl
      · exact h.keys t l hl
    · exact h.atEndKeys t
    · intro _; exact h.pre t (Or.inr (Or.inl hp))
    · intro hh; simp at hh
    · intro hh; simp at hh
    · exact h.loop t
    · intro hh; simp at hh

theorem noteTouch_other (s : St κ) (t x : Task) (h : x ≠ t) : noteTouch s t x = s.touched x := by
  unfold noteTouch; split
  · exact upd_other _ _ _ _ h
  · rfl

theorem noteTouch_same (s : St κ) (t : Task) (h : noteTouch s t t = false) :
    s.phase t ≠ .finalizing ∧ s.touched t = false := by
  unfold noteTouch at h
  split at h
  · simp at h
  · rename_i hp; exact ⟨hp, h⟩

/-- replacing the list of an existing entry (add / remove) -/
theorem invC_setcb (cfg : Cfg) (s : St κ) (t : Task) (l' : List (Cb × Args)) (h : InvC cfg s)
    (hk : (l'.map (·.1)).Nodup) : InvC cfg { s with cb := upd s.cb t (some l'), touched := noteTouch s t } := by
  refine invC_update cfg s _ t h ?_ ?_ ?_ ?_ ?_ ?_ ?_ ?_
  · intro x hx
    exact ⟨upd_other _ _ _ _ hx, rfl, rfl, noteTouch_other s t x hx, rfl, rfl, rfl, rfl, rfl, rfl⟩
  · intro l hl
    simp only [upd_same, Option.some.injEq] at hl
    subst hl; exact hk
  · exact h.atEndKeys t
  · exact h.pre t
  · intro hp ht
    exact absurd hp (noteTouch_same s t ht).1
  · intro hp ht
    exact h.ran t hp (ht.imp id fun e => (noteTouch_same s t e).2)
  · exact h.loop t
  · intro hp ht
    exact h.full t hp (ht.imp id fun e => (noteTouch_same s t e).2)

theorem invC_errs (cfg : Cfg) (s : St κ) (n : Nat) (h : InvC cfg s) : InvC cfg { s with errs := n } :=
  invC_congr cfg s _ h rfl rfl rfl rfl rfl rfl rfl rfl rfl rfl

theorem invC_addCb (cfg : Cfg) (s : St κ) (a t : Task) (c : Cb) (args : Args) (h : InvC cfg s) :
    InvC cfg (addCbStep s a t c args) := by
  unfold addCbStep
  split
  · exact h
  · split
    · exact invC_errs cfg s _ h
    · rename_i l hc; exact invC_setcb cfg s t _ h (nodup_setCb l c args (h.keys t l hc))

theorem invC_removeCb (cfg : Cfg) (s : St κ) (a t : Task) (c : Cb) (h : InvC cfg s) :
    InvC cfg (removeCbStep s a t c) := by
  unfold removeCbStep
  split
  · exact h
  · split
    · exact invC_errs cfg s _ h
    · rename_i l hc; exact invC_setcb cfg s t _ h (nodup_delCb l c (h.keys t l hc))

theorem invC_u (cfg : Cfg) (s : St κ) (u' : C13.St κ) (h : InvC cfg s) : InvC cfg { s with u := u' } :=
  invC_congr cfg s _ h rfl rfl rfl rfl rfl rfl rfl rfl rfl rfl

theorem invC_cancel (cfg : Cfg) (s : St κ) (a : Task) (tg : Option Task) (h : InvC cfg s) :
    InvC cfg (cancelStep s a tg) := by
  unfold cancelStep
  split
  · exact h
  · simp only []
    split
    · exact invC_errs cfg s _ h
    · split
      · exact invC_u cfg s _ h
      · exact invC_u cfg s _ h

theorem cbList_nodup (cfg : Cfg) (s : St κ) (t : Task) (h : InvC cfg s) : ((cbList s t).map (·.1)).Nodup := by
  unfold cbList
  cases hc : s.cb t with
  | none => simp
  | some l => exact h.keys t l hc

theorem invC_endBody (cfg : Cfg) (s : St κ) (t : Task) (oc : Outcome) (h : InvC cfg s) :
    InvC cfg (endBodyStep s t oc) := by
  unfold endBodyStep
  split
  · exact h
  · rename_i hp
    have hp : s.phase t = .running := Classical.not_not.1 hp
    refine invC_update cfg s _ t h ?_ ?_ ?_ ?_ ?_ ?_ ?_ ?_
    · intro x hx
      exact ⟨rfl, upd_other _ _ _ _ hx, upd_other _ _ _ _ hx, rfl, upd_other _ _ _ _ hx, upd_other _ _ _ _ hx,
             rfl, rfl, rfl, rfl⟩
    · exact h.keys t
    · simp only [upd_same]; exact cbList_nodup cfg s t h
    · intro hh; simp at hh
    · intro _ _
      simp only [upd_same]
      constructor <;> first | rfl | trivial
    · intro _ _
      have : ranOf s t = [] := h.pre t (Or.inr (Or.inr hp))
      simp only [upd_same, List.take_zero, Nat.zero_le, and_true]
      exact this
    · exact h.loop t
    · intro hh; simp at hh

theorem invC_bailed (cfg : Cfg) (s : St κ) (t : Task) (r : Res) (h : InvC cfg s) (hp : s.phase t = .finalizing) :
    InvC cfg { s with bailed := upd s.bailed t (some r) } := by
  refine invC_update cfg s _ t h ?_ ?_ ?_ ?_ ?_ ?_ ?_ ?_
  · intro x hx
    exact ⟨rfl, rfl, rfl, rfl, rfl, rfl, rfl, rfl, upd_other _ _ _ _ hx, rfl⟩
  · exact h.keys t
  · exact h.atEndKeys t
  · exact h.pre t
  · exact h.fin t
  · exact h.ran t
  · exact h.loop t
  · intro hh; rw [hp] at hh; cases hh

theorem invC_abort (cfg : Cfg) (s : St κ) (t : Task) (r : Res) (h : InvC cfg s)
    (hp : s.phase t = .finalizing) (hb : s.bailed t ≠ none) : InvC cfg (abort s t r) := by
  unfold abort
  refine invC_update cfg s _ t h ?_ ?_ ?_ ?_ ?_ ?_ ?_ ?_
  · intro x hx
    exact ⟨rfl, rfl, upd_other _ _ _ _ hx, rfl, rfl, rfl, rfl, rfl, rfl, rfl⟩
  · exact h.keys t
  · exact h.atEndKeys t
  · intro hh; simp at hh
  · intro hh; simp at hh
  · intro _ ht; exact h.ran t (Or.inl hp) ht
  · exact h.loop t
  · intro _ _ hk; exact absurd hk hb

/-- the clean-up block; `hfull` is the "all callbacks ran" claim of the state before it -/
theorem invC_finish (cfg : Cfg) (s : St κ) (t : Task) (r : Res) (h : InvC cfg s) (hp : s.phase t = .finalizing)
    (hfull : (cfg.snapshotIter = true ∨ s.touched t = false) → s.bailed t = none →
      (cfg.cbContinues = true ∨ s.cbRaised t = false) → s.idx t = (s.atEnd t).length) :
    InvC cfg (finish s t r) := by
  unfold finish
  refine invC_update cfg s _ t h ?_ ?_ ?_ ?_ ?_ ?_ ?_ ?_
  · intro x hx
    exact ⟨upd_other _ _ _ _ hx, rfl, upd_other _ _ _ _ hx, rfl, rfl, rfl, rfl, rfl, rfl, rfl⟩
  · intro l hl; simp at hl
  · exact h.atEndKeys t
  · intro hh; simp at hh
  · intro hh; simp at hh
  · intro _ ht; exact h.ran t (Or.inl hp) ht
  · exact h.loop t
  · intro _ ht hb hcr; exact hfull ht hb hcr

theorem invC_bail (cfg : Cfg) (s : St κ) (t : Task) (r : Res) (h : InvC cfg s) (hp : s.phase t = .finalizing) :
    InvC cfg (bail cfg s t r) := by
  unfold bail
  have h1 := invC_bailed cfg s t r h hp
  split
  · exact invC_finish cfg _ t r h1 hp (fun _ hb _ => by simp at hb)
  · exact invC_abort cfg _ t r h1 hp (by simp)

theorem invC_inCb (cfg : Cfg) (s : St κ) (ic : Task → Bool) (h : InvC cfg s) : InvC cfg { s with inCb := ic } :=
  invC_congr cfg s _ h rfl rfl rfl rfl rfl rfl rfl rfl rfl rfl

/-- what the loop iterates over is the callback list of the end of the body -/
theorem iterList_atEnd (cfg : Cfg) (s : St κ) (t : Task) (h : InvC cfg s) (hp : s.phase t = .finalizing)
    (ht : cfg.snapshotIter = true ∨ s.touched t = false) : iterList cfg s t = s.atEnd t := by
  unfold iterList
  cases hs : cfg.snapshotIter with
  | true => simp
  | false =>
    rcases ht with e | e
    · rw [hs] at e; cases e
    · simp only [Bool.false_eq_true, if_false]; exact (h.fin t hp e).1

theorem invC_cbBegin (cfg : Cfg) (s : St κ) (t : Task) (h : InvC cfg s) : InvC cfg (cbBeginStep cfg s t) := by
  unfold cbBeginStep
  split
  · exact h
  · rename_i hp
    have hp : s.phase t = .finalizing := Classical.not_not.1 hp
    split
    · exact h
    · split
      · exact h
      · split
        · exact invC_bail cfg s t _ h hp
        · split
          · exact h
          · rename_i c a hget
            refine invC_update cfg s _ t h ?_ ?_ ?_ ?_ ?_ ?_ ?_ ?_
            · intro x hx
              refine ⟨rfl, rfl, rfl, rfl, upd_other _ _ _ _ hx, rfl, rfl, rfl, rfl, ?_⟩
              rw [ranOf_append s t x c a _ rfl]; simp [hx]
            · exact h.keys t
            · exact h.atEndKeys t
            · intro hh; rw [hp] at hh; simp at hh
            · intro _ ht
              exact h.fin t hp ht
            · intro _ ht
              obtain ⟨r1, _⟩ := h.ran t (Or.inl hp) ht
              have hl := iterList_atEnd cfg s t h hp ht
              rw [hl] at hget
              have hlt : s.idx t < (s.atEnd t).length := by
                cases hlt : decide (s.idx t < (s.atEnd t).length) with
                | true => simpa using hlt
                | false =>
                  have : (s.atEnd t).length ≤ s.idx t := by simpa using hlt
                  rw [List.getElem?_eq_none this] at hget; cases hget
              rw [ranOf_append s t t c a _ rfl]
              simp only [if_true, upd_same]
              rw [r1, List.take_add_one, hget]
              exact ⟨rfl, hlt⟩
            · exact h.loop t
            · intro hh; rw [hp] at hh; cases hh

/-- only the loop flags of `t` change -/
theorem invC_flags (cfg : Cfg) (s : St κ) (t : Task) (ld cr ic : Task → Bool) (h : InvC cfg s)
    (hp : s.phase t = .finalizing)
    (hloop : ld t = true → cfg.cbContinues = false ∧ cr t = true)
    (hoth : ∀ x, x ≠ t → ld x = s.loopDone x ∧ cr x = s.cbRaised x) :
    InvC cfg { s with inCb := ic, loopDone := ld, cbRaised := cr } := by
  refine invC_update cfg s _ t h ?_ ?_ ?_ ?_ ?_ ?_ ?_ ?_
  · intro x hx
    exact ⟨rfl, rfl, rfl, rfl, rfl, rfl, (hoth x hx).1, (hoth x hx).2, rfl, rfl⟩
  · exact h.keys t
  · exact h.atEndKeys t
  · intro hh; rw [hp] at hh; simp at hh
  · intro _ ht; exact h.fin t hp ht
  · intro _ ht; exact h.ran t (Or.inl hp) ht
  · exact hloop
  · intro hh; rw [hp] at hh; cases hh

theorem invC_cbEnd (cfg : Cfg) (s : St κ) (t : Task) (r : CbRes) (h : InvC cfg s) :
    InvC cfg (cbEndStep cfg s t r) := by
  unfold cbEndStep
  split
  · exact h
  · rename_i hp
    have hp : s.phase t = .finalizing := Classical.not_not.1 hp
    split
    · exact h
    · cases r with
      | ok => exact invC_inCb cfg s _ h
      | raises =>
        simp only []
        split
        · rename_i hcc
          cases hld : s.loopDone t with
          | true =>
            have := (h.loop t hld).1
            rw [hcc] at this; cases this
          | false =>
            exact invC_flags cfg s t s.loopDone (upd s.cbRaised t true) _ h hp
              (fun hl => by rw [hld] at hl; cases hl)
              (fun x hx => ⟨rfl, upd_other _ _ _ _ hx⟩)
        · rename_i hcc
          exact invC_flags cfg s t (upd s.loopDone t true) (upd s.cbRaised t true) _ h hp
            (fun _ => ⟨not_true_false hcc, by simp⟩)
            (fun x hx => ⟨upd_other _ _ _ _ hx, upd_other _ _ _ _ hx⟩)
      | cancelled => exact invC_bail cfg _ t _ (invC_inCb cfg s _ h) hp

theorem invC_cleanup (cfg : Cfg) (s : St κ) (t : Task) (h : InvC cfg s) : InvC cfg (cleanupStep cfg s t) := by
  unfold cleanupStep
  split
  · exact h
  · rename_i hp
    have hp : s.phase t = .finalizing := Classical.not_not.1 hp
    split
    · exact h
    · split
      · exact h
      · rename_i hlp
        split
        · exact invC_bail cfg s t _ h hp
        · apply invC_finish cfg s t _ h hp
          intro ht _ hcr
          obtain ⟨_, r2⟩ := h.ran t (Or.inl hp) ht
          have hl := iterList_atEnd cfg s t h hp ht
          unfold loopPending at hlp
          rw [hl] at hlp
          cases hld : s.loopDone t with
          | true =>
            obtain ⟨c1, c2⟩ := h.loop t hld
            rcases hcr with e | e
            · rw [c1] at e; cases e
            · rw [c2] at e; cases e
          | false =>
            rw [hld] at hlp
            have : ¬ s.idx t < (s.atEnd t).length := by simpa using hlp
            omega

theorem invC_step (cfg : Cfg) (s : St κ) (op : Op κ) (h : InvC cfg s) : InvC cfg (step cfg s op) := by
  cases op with
  | create t wc pre => exact invC_create cfg s t wc pre h
  | start t => exact invC_start cfg s t h
  | storeCtx t =>
    simp only [step, storeCtxStep]; split
    · exact invC_congr cfg s _ h rfl rfl rfl rfl rfl rfl rfl rfl rfl rfl
    · exact h
  | addCb a t c args => exact invC_addCb cfg s a t c args h
  | removeCb a t c => exact invC_removeCb cfg s a t c h
  | cancel a tg => exact invC_cancel cfg s a tg h
  | unique t k km =>
    simp only [step, uniqueStep]; split
    · exact invC_u cfg s _ h
    · exact h
  | reap =>
    simp only [step, reapStep]; split
    · split
      · exact h
      · unfold markUnstarted; split
        · exact invC_u cfg s _ h
        · exact h
    · exact invC_u cfg s _ h
  | endBody t oc => exact invC_endBody cfg s t oc h
  | cbBegin t => exact invC_cbBegin cfg s t h
  | cbEnd t r => exact invC_cbEnd cfg s t r h
  | cleanup t => exact invC_cleanup cfg s t h

theorem invC_foldl (cfg : Cfg) (ops : List (Op κ)) :
    ∀ s : St κ, InvC cfg s → InvC cfg (ops.foldl (step cfg) s) := by
  induction ops with
  | nil => intro s h; exact h
  | cons op ops ih => intro s h; exact ih _ (invC_step cfg s op h)

theorem invC_run (cfg : Cfg) (ops : List (Op κ)) : InvC cfg (run cfg ops) := invC_foldl cfg ops _ (invC_init cfg)

/-! ### results, and why a `finally` can be left early -/

/-- * a leaked task (clean-up skipped) exists only in the pre-fix shape, is finished, and left its callback loop early;
* a task that left its callback loop early is finished with that exception: a cancellation delivered inside a
  callback, or – live-dict iteration only – the `RuntimeError` of a dict resized while its `finally` ran;
* every other finished task finished with its body's outcome. -/
structure InvL (cfg : Cfg) (s : St κ) : Prop where
  leak : ∀ t, s.leaked t = true →
    (cfg.cleanupAlways = false ∨ s.stillborn t = true) ∧ s.phase t = .done ∧ s.bailed t ≠ none
  bail : ∀ t r, s.bailed t = some r → s.phase t = .done ∧ s.result t = some r ∧
    (r = .cancelled ∨ (r = .error ∧ s.touched t = true ∧ cfg.snapshotIter = false))
  res : ∀ t, s.phase t = .done → s.bailed t = none → s.result t = some (resultOf (s.outcome t))

theorem invL_update (cfg : Cfg) (s s' : St κ) (t : Task) (h : InvL cfg s)
    (es : ∀ x, s.stillborn x = true → s'.stillborn x = true)
    (fo : ∀ x, x ≠ t → s'.leaked x = s.leaked x ∧ s'.phase x = s.phase x ∧
      (s.touched x = true → s'.touched x = true) ∧ s'.result x = s.result x ∧ s'.bailed x = s.bailed x ∧
      s'.outcome x = s.outcome x)
    (l1 : s'.leaked t = true →
      (cfg.cleanupAlways = false ∨ s'.stillborn t = true) ∧ s'.phase t = .done ∧ s'.bailed t ≠ none)
    (l2 : ∀ r, s'.bailed t = some r → s'.phase t = .done ∧ s'.result t = some r ∧
      (r = .cancelled ∨ (r = .error ∧ s'.touched t = true ∧ cfg.snapshotIter = false)))
    (l3 : s'.phase t = .done → s'.bailed t = none → s'.result t = some (resultOf (s'.outcome t))) :
    InvL cfg s' := by
  obtain ⟨h1, h2, h3⟩ := h
  refine ⟨?_, ?_, ?_⟩
  · intro x
    by_cases e : x = t
    · subst e; exact l1
    · obtain ⟨e1, e2, _, _, e5, _⟩ := fo x e
      rw [e1, e2, e5]
      intro hl
      obtain ⟨a, b, c⟩ := h1 x hl
      exact ⟨a.imp id (es x), b, c⟩
  · intro x r
    by_cases e : x = t
    · subst e; exact l2 r
    · obtain ⟨_, e2, e3, e4, e5, _⟩ := fo x e
      rw [e2, e4, e5]
      intro hb
      obtain ⟨a, b, c⟩ := h2 x r hb
      exact ⟨a, b, c.imp id fun ⟨c1, c2, c3⟩ => ⟨c1, e3 c2, c3⟩⟩
  · intro x
    by_cases e : x = t
    · subst e; exact l3
    · obtain ⟨_, e2, _, e4, e5, e6⟩ := fo x e
      rw [e2, e4, e5, e6]; exact h3 x

theorem invL_congr (cfg : Cfg) (s s' : St κ) (h : InvL cfg s) (e1 : s'.leaked = s.leaked) (e2 : s'.phase = s.phase)
    (e3 : ∀ x, s.touched x = true → s'.touched x = true) (e4 : s'.result = s.result)
    (e5 : s'.bailed = s.bailed) (e6 : s'.outcome = s.outcome) (e7 : s'.stillborn = s.stillborn := by rfl) :
    InvL cfg s' := by
  obtain ⟨h1, h2, h3⟩ := h
  refine ⟨?_, ?_, ?_⟩
  · intro x; rw [e1, e2, e5, e7]; exact h1 x
  · intro x r; rw [e2, e4, e5]
    intro hb
    obtain ⟨a, b, c⟩ := h2 x r hb
    exact ⟨a, b, c.imp id fun ⟨c1, c2, c3⟩ => ⟨c1, e3 x c2, c3⟩⟩
  · intro x; rw [e2, e4, e5, e6]; exact h3 x

theorem noteTouch_mono (s : St κ) (t x : Task) (h : s.touched x = true) : noteTouch s t x = true := by
  unfold noteTouch; split
  · simp only [upd_apply]; split <;> simp [h]
  · exact h

/-- a task whose phase is not `done` is neither leaked nor bailed -/
theorem invL_fresh (cfg : Cfg) (s : St κ) (t : Task) (h : InvL cfg s) (hp : s.phase t ≠ .done) :
    s.leaked t = false ∧ s.bailed t = none := by
  constructor
  · cases hl : s.leaked t with
    | false => rfl
    | true => exact absurd (h.leak t hl).2.1 hp
  · cases hb : s.bailed t with
    | none => rfl
    | some r => exact absurd (h.bail t r hb).1 hp

/-- a phase change of a not yet finished task to a not finished phase -/
theorem invL_phase (cfg : Cfg) (s s' : St κ) (t : Task) (h : InvL cfg s) (hp : s.phase t ≠ .done)
    (hp' : s'.phase t ≠ .done) (el : s'.leaked = s.leaked) (eb : s'.bailed = s.bailed)
    (fo : ∀ x, x ≠ t → s'.phase x = s.phase x) (et : s'.touched = s.touched) (er : s'.result = s.result)
    (eo : ∀ x, x ≠ t → s'.outcome x = s.outcome x) (esb : s'.stillborn = s.stillborn := by rfl) : InvL cfg s' := by
  obtain ⟨f1, f2⟩ := invL_fresh cfg s t h hp
  refine invL_update cfg s _ t h (fun x e => by rw [esb]; exact e) ?_ ?_ ?_ ?_
  · intro x hx
    exact ⟨by rw [el], fo x hx, fun e => by rw [et]; exact e, by rw [er], by rw [eb], eo x hx⟩
  · intro hl; rw [el, f1] at hl; cases hl
  · intro r hb; rw [eb, f2] at hb; cases hb
  · intro hd; exact absurd hd hp'

theorem invL_finish (cfg : Cfg) (s : St κ) (t : Task) (r : Res) (h : InvL cfg s) (hp : s.phase t = .finalizing)
    (hr : (s.bailed t = none ∧ r = resultOf (s.outcome t)) ∨
          (s.bailed t = some r ∧ (r = .cancelled ∨ (r = .error ∧ s.touched t = true ∧ cfg.snapshotIter = false)))) :
    InvL cfg (finish s t r) := by
  unfold finish
  have hnd : s.phase t ≠ .done := by rw [hp]; simp
  refine invL_update cfg s _ t h (fun _ e => e) ?_ ?_ ?_ ?_
  · intro x hx
    exact ⟨rfl, upd_other _ _ _ _ hx, fun e => e, upd_other _ _ _ _ hx, rfl, rfl⟩
  · intro hl
    have := (h.leak t hl).2.1
    exact absurd this hnd
  · intro r' hb
    rcases hr with ⟨e, _⟩ | ⟨e, hc⟩
    · rw [e] at hb; cases hb
    · rw [e] at hb; cases hb
      exact ⟨by simp, by simp, hc⟩
  · intro _ hb
    rcases hr with ⟨_, e⟩ | ⟨e, _⟩
    · simp [e]
    · rw [e] at hb; cases hb

theorem invL_bail (cfg : Cfg) (s : St κ) (t : Task) (r : Res) (h : InvL cfg s) (hp : s.phase t = .finalizing)
    (hc : r = .cancelled ∨ (r = .error ∧ s.touched t = true ∧ cfg.snapshotIter = false)) :
    InvL cfg (bail cfg s t r) := by
  have hnd : s.phase t ≠ .done := by rw [hp]; simp
  unfold bail
  split
  · unfold finish
    refine invL_update cfg s _ t h (fun _ e => e) ?_ ?_ ?_ ?_
    · intro x hx
      exact ⟨rfl, upd_other _ _ _ _ hx, fun e => e, upd_other _ _ _ _ hx, upd_other _ _ _ _ hx, rfl⟩
    · intro hl; exact absurd (h.leak t hl).2.1 hnd
    · intro r' hb
      simp only [upd_same, Option.some.injEq] at hb
      subst hb
      exact ⟨by simp, by simp, hc⟩
    · intro _ hb; simp at hb
  · rename_i hca
    unfold abort
    refine invL_update cfg s _ t h (fun _ e => e) ?_ ?_ ?_ ?_
    · intro x hx
      exact ⟨upd_other _ _ _ _ hx, upd_other _ _ _ _ hx, fun e => e, upd_other _ _ _ _ hx, upd_other _ _ _ _ hx, rfl⟩
    · intro _; exact ⟨Or.inl (not_true_false hca), by simp, by simp⟩
    · intro r' hb
      simp only [upd_same, Option.some.injEq] at hb
      subst hb
      exact ⟨by simp, by simp, hc⟩
    · intro _ hb; simp at hb

/-- a resized live dict means somebody touched the callbacks of the finishing task -/
theorem resized_touched (cfg : Cfg) (s : St κ) (t : Task) (hc : InvC cfg s) (hp : s.phase t = .finalizing)
    (hr : resized cfg s t = true) : s.touched t = true ∧ cfg.snapshotIter = false := by
  unfold resized at hr
  simp only [Bool.and_eq_true, Bool.not_eq_true', bne_iff_ne, ne_eq] at hr
  refine ⟨?_, hr.1⟩
  cases ht : s.touched t with
  | true => rfl
  | false =>
    obtain ⟨f1, f2⟩ := hc.fin t hp ht
    exact absurd (by rw [f2, f1]) hr.2

theorem invL_step (cfg : Cfg) (s : St κ) (op : Op κ) (hc : InvC cfg s) (h : InvL cfg s) :
    InvL cfg (step cfg s op) := by
  cases op with
  | create t wc pre =>
    simp only [step, createStep]; split
    · exact h
    · rename_i hp
      have hp : s.phase t = .none := Classical.not_not.1 hp
      exact invL_phase cfg s _ t h (by rw [hp]; simp) (by simp) rfl rfl (fun x hx => upd_other _ _ _ _ hx) rfl rfl
        (fun _ _ => rfl)
  | start t =>
    simp only [step, startStep]; split
    · exact h
    · rename_i hp
      have hp : s.phase t = .created := Classical.not_not.1 hp
      split
      · unfold killUnstarted
        refine invL_update cfg s _ t h ?_ ?_ ?_ ?_ ?_
        · intro x e
          show upd s.stillborn t true x = true
          simp only [upd_apply]; split <;> simp [e]
        · intro x hx
          exact ⟨upd_other _ _ _ _ hx, upd_other _ _ _ _ hx, fun e => e, upd_other _ _ _ _ hx,
                 upd_other _ _ _ _ hx, rfl⟩
        · intro _; exact ⟨Or.inr (by simp), by simp, by simp⟩
        · intro r hb
          simp only [upd_same, Option.some.injEq] at hb
          subst hb
          exact ⟨by simp, by simp, Or.inl rfl⟩
        · intro _ hb; simp at hb
      exact invL_phase cfg s _ t h (by rw [hp]; simp) (by simp) rfl rfl (fun x hx => upd_other _ _ _ _ hx) rfl rfl
        (fun _ _ => rfl)
  | storeCtx t =>
    simp only [step, storeCtxStep]; split
    · exact invL_congr cfg s _ h rfl rfl (fun _ e => e) rfl rfl rfl
    · exact h
  | addCb a t c args =>
    simp only [step, addCbStep]; split
    · exact h
    · split
      · exact invL_congr cfg s _ h rfl rfl (fun _ e => e) rfl rfl rfl
      · exact invL_congr cfg s _ h rfl rfl (fun x e => noteTouch_mono s t x e) rfl rfl rfl
  | removeCb a t c =>
    simp only [step, removeCbStep]; split
    · exact h
    · split
      · exact invL_congr cfg s _ h rfl rfl (fun _ e => e) rfl rfl rfl
      · exact invL_congr cfg s _ h rfl rfl (fun x e => noteTouch_mono s t x e) rfl rfl rfl
  | cancel a tg =>
    simp only [step, cancelStep]; split
    · exact h
    · split
      · exact invL_congr cfg s _ h rfl rfl (fun _ e => e) rfl rfl rfl
      · split <;> exact invL_congr cfg s _ h rfl rfl (fun _ e => e) rfl rfl rfl
  | unique t k km =>
    simp only [step, uniqueStep]; split
    · exact invL_congr cfg s _ h rfl rfl (fun _ e => e) rfl rfl rfl
    · exact h
  | reap =>
    simp only [step, reapStep]; split
    · split
      · exact h
      · unfold markUnstarted; split
        · exact invL_congr cfg s _ h rfl rfl (fun _ e => e) rfl rfl rfl
        · exact h
    · exact invL_congr cfg s _ h rfl rfl (fun _ e => e) rfl rfl rfl
  | endBody t oc =>
    simp only [step, endBodyStep]; split
    · exact h
    · rename_i hp
      have hp : s.phase t = .running := Classical.not_not.1 hp
      exact invL_phase cfg s _ t h (by rw [hp]; simp) (by simp) rfl rfl (fun x hx => upd_other _ _ _ _ hx) rfl rfl
        (fun x hx => upd_other _ _ _ _ hx)
  | cbBegin t =>
    simp only [step, cbBeginStep]; split
    · exact h
    · rename_i hp
      have hp : s.phase t = .finalizing := Classical.not_not.1 hp
      split
      · exact h
      · split
        · exact h
        · split
          · rename_i hsz
            obtain ⟨a, b⟩ := resized_touched cfg s t hc hp hsz
            exact invL_bail cfg s t _ h hp (Or.inr ⟨rfl, a, b⟩)
          · split
            · exact h
            · exact invL_congr cfg s _ h rfl rfl (fun _ e => e) rfl rfl rfl
  | cbEnd t r =>
    simp only [step, cbEndStep]; split
    · exact h
    · rename_i hp
      have hp : s.phase t = .finalizing := Classical.not_not.1 hp
      split
      · exact h
      · cases r with
        | ok => exact invL_congr cfg s _ h rfl rfl (fun _ e => e) rfl rfl rfl
        | raises =>
          simp only []
          split <;> exact invL_congr cfg s _ h rfl rfl (fun _ e => e) rfl rfl rfl
        | cancelled =>
          exact invL_bail cfg _ t _ (invL_congr cfg s _ h rfl rfl (fun _ e => e) rfl rfl rfl) hp (Or.inl rfl)
  | cleanup t =>
    simp only [step, cleanupStep]; split
    · exact h
    · rename_i hp
      have hp : s.phase t = .finalizing := Classical.not_not.1 hp
      split
      · exact h
      · split
        · exact h
        · split
          · rename_i hsz
            unfold sizeChanged at hsz
            simp only [Bool.and_eq_true] at hsz
            obtain ⟨a, b⟩ := resized_touched cfg s t hc hp hsz.2
            exact invL_bail cfg s t _ h hp (Or.inr ⟨rfl, a, b⟩)
          · exact invL_finish cfg s t _ h hp
              (Or.inl ⟨(invL_fresh cfg s t h (by rw [hp]; simp)).2, rfl⟩)

theorem invL_run (cfg : Cfg) (ops : List (Op κ)) : InvL cfg (run cfg ops) := by
  have : ∀ (ops : List (Op κ)) (s : St κ), InvC cfg s → InvL cfg s → InvL cfg (ops.foldl (step cfg) s) := by
    intro ops
    induction ops with
    | nil => intro s _ h; exact h
    | cons op ops ih => intro s hc h; exact ih _ (invC_step cfg s op hc) (invL_step cfg s op hc h)
  exact this ops _ (invC_init cfg) ⟨by intro t h; simp [init] at h, by intro t r h; simp [init] at h,
    by intro t h; simp [init] at h⟩

/-! ### a task is only ever killed before its first segment when the reaper does not wait for it -/

structure InvS (cfg : Cfg) (s : St κ) : Prop where
  still : ∀ t, s.stillborn t = true → cfg.reaperWaitsForStart = false
  creq : ∀ t, (s.phase t = .none ∨ s.phase t = .created) → s.u.cancelReq t = true → cfg.reaperWaitsForStart = false

theorem invS_congr (cfg : Cfg) (s s' : St κ) (h : InvS cfg s) (e1 : s'.u.cancelReq = s.u.cancelReq)
    (e2 : ∀ t, (s'.phase t = .none ∨ s'.phase t = .created) → (s.phase t = .none ∨ s.phase t = .created))
    (e3 : s'.stillborn = s.stillborn) : InvS cfg s' :=
  ⟨fun t ht => h.still t (by rw [← e3]; exact ht), fun t hp hc => h.creq t (e2 t hp) (by rw [← e1]; exact hc)⟩

theorem unique_cancelReq (u : C13.St κ) (t : Task) (k : κ) (km : Bool) :
    (C13.uniqueStep u t k km).cancelReq = u.cancelReq := by
  unfold C13.uniqueStep
  split
  · rfl
  · split
    · split
      · split
        · rfl
        · exact (C13.claim_queue _ t k).2.1
      · rw [(C13.claim_queue _ t k).2.1]; unfold C13.killPrev; split <;> rfl
    · exact (C13.claim_queue _ t k).2.1

/-- moving a task out of `none` / `created`, or between them, never creates an obligation -/
theorem phase_upd_early (ph : Task → Phase) (t x : Task) (p : Phase)
    (hx : upd ph t p x = .none ∨ upd ph t p x = .created) (hp : p = .none ∨ p = .created → ph t = .none ∨ ph t = .created) :
    ph x = .none ∨ ph x = .created := by
  by_cases e : x = t
  · subst e; simp only [upd_same] at hx; exact hp hx
  · simpa [upd_other _ _ _ _ e] using hx

theorem invS_bail (cfg : Cfg) (s : St κ) (t : Task) (r : Res) (h : InvS cfg s) : InvS cfg (bail cfg s t r) := by
  unfold bail
  split
  · exact invS_congr cfg s _ h (by simp only [finish]; exact (C13.exit_queue _ t).2.2.1)
      (fun x hx => phase_upd_early s.phase t x .done hx (by simp)) rfl
  · exact invS_congr cfg s _ h rfl (fun x hx => phase_upd_early s.phase t x .done hx (by simp)) rfl

theorem invS_step (cfg : Cfg) (s : St κ) (op : Op κ) (hr : InvR s) (h : InvS cfg s) : InvS cfg (step cfg s op) := by
  cases op with
  | create t wc pre =>
    simp only [step, createStep]; split
    · exact h
    · rename_i hp
      have hp : s.phase t = .none := Classical.not_not.1 hp
      refine invS_congr cfg s _ h ?_ (fun x hx => phase_upd_early s.phase t x .created hx (fun _ => Or.inl hp)) rfl
      show (if cfg.oursAtCreate then { s.u with ours := upd s.u.ours t true } else s.u).cancelReq = s.u.cancelReq
      split <;> rfl
  | start t =>
    simp only [step, startStep]; split
    · exact h
    · rename_i hp
      have hp : s.phase t = .created := Classical.not_not.1 hp
      split
      · rename_i hcr
        have hf := h.creq t (Or.inr hp) hcr
        unfold killUnstarted
        refine ⟨?_, ?_⟩
        · intro x hx
          by_cases e : x = t
          · exact hf
          · exact h.still x (by simpa [upd_other _ _ _ _ e] using hx)
        · intro x hx hc
          exact h.creq x (phase_upd_early s.phase t x .done hx (by simp)) hc
      · refine invS_congr cfg s _ h ?_ (fun x hx => phase_upd_early s.phase t x .running hx (by simp)) rfl
        show (C13.spawnStep s.u t false).cancelReq = s.u.cancelReq
        unfold C13.spawnStep; split <;> rfl
  | storeCtx t =>
    simp only [step, storeCtxStep]; split
    · exact invS_congr cfg s _ h rfl (fun _ hx => hx) rfl
    · exact h
  | addCb a t c args =>
    simp only [step, addCbStep]; split
    · exact h
    · split <;> exact invS_congr cfg s _ h rfl (fun _ hx => hx) rfl
  | removeCb a t c =>
    simp only [step, removeCbStep]; split
    · exact h
    · split <;> exact invS_congr cfg s _ h rfl (fun _ hx => hx) rfl
  | cancel a tg =>
    simp only [step, cancelStep]; split
    · exact h
    · split
      · exact invS_congr cfg s _ h rfl (fun _ hx => hx) rfl
      · split <;> exact invS_congr cfg s _ h rfl (fun _ hx => hx) rfl
  | unique t k km =>
    simp only [step, uniqueStep]; split
    · exact invS_congr cfg s _ h (unique_cancelReq s.u t k km) (fun _ hx => hx) rfl
    · exact h
  | reap =>
    simp only [step, reapStep]; split
    · split
      · exact h
      · rename_i hf
        have hf : cfg.reaperWaitsForStart = false := C13.not_true_false hf
        exact ⟨fun _ _ => hf, fun _ _ _ => hf⟩
    · refine ⟨h.still, ?_⟩
      intro x hx hc
      -- a cancel is delivered to running tasks only
      have hc' : (C13.reapStepCfg (!cfg.reaperDetached) s.u).cancelReq x = true := hc
      unfold C13.reapStepCfg at hc'
      split at hc'
      · exact h.creq x hx hc'
      · split at hc'
        · exact h.creq x hx hc'
        · rename_i hd q hq
          split at hc'
          · rename_i hl
            simp only [upd_apply] at hc'
            split at hc'
            · rename_i e; subst e
              have := (hr.live x).1 hl
              unfold Live at this
              rcases hx with e | e <;> (rw [e] at this; simp at this)
            · exact h.creq x hx hc'
          · exact h.creq x hx hc'
  | endBody t oc =>
    simp only [step, endBodyStep]; split
    · exact h
    · exact invS_congr cfg s _ h rfl (fun x hx => phase_upd_early s.phase t x .finalizing hx (by simp)) rfl
  | cbBegin t =>
    simp only [step, cbBeginStep]; split
    · exact h
    · split
      · exact h
      · split
        · exact h
        · split
          · exact invS_bail cfg s t _ h
          · split
            · exact h
            · exact invS_congr cfg s _ h rfl (fun _ hx => hx) rfl
  | cbEnd t r =>
    simp only [step, cbEndStep]; split
    · exact h
    · split
      · exact h
      · cases r with
        | ok => exact invS_congr cfg s _ h rfl (fun _ hx => hx) rfl
        | raises =>
          simp only []
          split <;> exact invS_congr cfg s _ h rfl (fun _ hx => hx) rfl
        | cancelled => exact invS_bail cfg _ t _ (invS_congr cfg s _ h rfl (fun _ hx => hx) rfl)
  | cleanup t =>
    simp only [step, cleanupStep]; split
    · exact h
    · split
      · exact h
      · split
        · exact h
        · split
          · exact invS_bail cfg s t _ h
          · exact invS_congr cfg s _ h (by simp only [finish]; exact (C13.exit_queue _ t).2.2.1)
              (fun x hx => phase_upd_early s.phase t x .done hx (by simp)) rfl

theorem invS_run (cfg : Cfg) (ops : List (Op κ)) : InvS cfg (run cfg ops) := by
  have : ∀ (ops : List (Op κ)) (s : St κ), InvR s → InvS cfg s → InvS cfg (ops.foldl (step cfg) s) := by
    intro ops
    induction ops with
    | nil => intro s _ h; exact h
    | cons op ops ih => intro s hr h; exact ih _ (invR_step cfg s op hr) (invS_step cfg s op hr h)
  exact this ops _ invR_init ⟨by intro t h; simp [init] at h, by intro t _ h; simp [init, C13.init] at h⟩

end PsModel.C14
