import PsModel.Lemmas.C19
import PsModel.Spec.C19Kernel
/-! helper lemmas for the second part of the C19 model -/
namespace PsModel.C19
open PsModel.Gen

/-! ### handshake -/

theorem hsLoop_flat (v : Bool) : ∀ (steps : List (Bytes × Nat)) (i : Nat) (out : Bytes) (cs : List Bytes),
    ((hsLoop v i steps out cs).written, (hsLoop v i steps out cs).status, (hsLoop v i steps out cs).rest.flatten)
      = hsFlat v i steps out cs.flatten := by
  intro steps
  induction steps with
  | nil => intro i out cs; simp [hsLoop, hsFlat]
  | cons st steps ih =>
    intro i out cs
    obtain ⟨w, n⟩ := st
    have h := readBytes_takeN n cs
    simp only [hsLoop, hsFlat]
    cases hr : readBytes n cs with
    | none => rw [hr] at h; simp [h]
    | some p =>
      obtain ⟨d, cs'⟩ := p
      rw [hr] at h
      simp only [h]
      by_cases hc : (v && !stageOk i d) = true
      · simp [hc]
      · simp only [hc]
        exact ih (i + 1) (out ++ w) cs'

theorem hsSteps_eq : hsSteps = [(HS_WRITES.getD 0 [], 10), (HS_WRITES.getD 1 [], 1), (HS_WRITES.getD 2 [], 53)] := by decide

theorem hsFlat_three (v : Bool) (w0 w1 w2 d0 d1 d2 rest : Bytes)
    (h0 : d0.length = 10) (h1 : d1.length = 1) (h2 : d2.length = 53) :
    hsFlat v 0 [(w0, 10), (w1, 1), (w2, 53)] [] (d0 ++ d1 ++ d2 ++ rest) =
      if v && !stageOk 0 d0 then (w0, .bad, d1 ++ d2 ++ rest)
      else if v && !stageOk 1 d1 then (w0 ++ w1, .bad, d2 ++ rest)
      else if v && !stageOk 2 d2 then (w0 ++ w1 ++ w2, .bad, rest)
      else (w0 ++ w1 ++ w2, .ok, rest) := by
  have t0 : takeN 10 (d0 ++ d1 ++ d2 ++ rest) = some (d0, d1 ++ d2 ++ rest) := by
    have := takeN_append d0 (d1 ++ d2 ++ rest) 10 h0.symm
    simpa [List.append_assoc] using this
  have t1 : takeN 1 (d1 ++ d2 ++ rest) = some (d1, d2 ++ rest) := by
    have := takeN_append d1 (d2 ++ rest) 1 h1.symm
    simpa [List.append_assoc] using this
  have t2 : takeN 53 (d2 ++ rest) = some (d2, rest) := takeN_append d2 rest 53 h2.symm
  simp only [hsFlat, t0, t1, t2, List.nil_append]

/-- a 64-byte string splits into the three reads -/
theorem split64 (g : Bytes) (h : g.length = 64) :
    ∃ d0 d1 d2, g = d0 ++ d1 ++ d2 ∧ d0.length = 10 ∧ d1.length = 1 ∧ d2.length = 53 :=
  ⟨g.take 10, (g.drop 10).take 1, g.drop 11, by
    rw [List.append_assoc]
    have : (g.drop 10).take 1 ++ g.drop 11 = g.drop 10 := by
      have := List.take_append_drop 1 (g.drop 10)
      simpa [List.drop_drop] using this
    rw [this, List.take_append_drop],
   by simp [h], by simp [h], by simp [h]⟩

theorem len10 (d : Bytes) (h : d.length = 10) : ∃ a0 a1 a2 a3 a4 a5 a6 a7 a8 a9, d = [a0, a1, a2, a3, a4, a5, a6, a7, a8, a9] := by
  match d, h with
  | [a0, a1, a2, a3, a4, a5, a6, a7, a8, a9], _ => exact ⟨a0, a1, a2, a3, a4, a5, a6, a7, a8, a9, rfl⟩

/-- the three stage checks together are the greeting grammar -/
theorem stages_iff_valid (d0 d1 d2 : Bytes) (h0 : d0.length = 10) (h1 : d1.length = 1) (h2 : d2.length = 53) :
    (stageOk 0 d0 = true ∧ stageOk 1 d1 = true ∧ stageOk 2 d2 = true) ↔ ValidGreeting (d0 ++ d1 ++ d2) := by
  constructor
  · rintro ⟨s0, s1, s2⟩
    obtain ⟨a0, a1, a2, a3, a4, a5, a6, a7, a8, a9, rfl⟩ := len10 d0 h0
    match d1, h1 with
    | [m], _ =>
      match d2, h2 with
      | minor :: r, hr =>
        simp only [stageOk, List.head?_cons, List.getLast?, List.getLast, beq_iff_eq, Option.some.injEq, Bool.and_eq_true,
          List.headD_cons, decide_eq_true_eq, List.drop_succ_cons, List.drop_zero] at s0 s1 s2
        obtain ⟨rfl, e9⟩ := s0
        refine ⟨[a1, a2, a3, a4, a5, a6, a7, a8], m, minor, r.drop 20, ?_, rfl, of_decide_eq_true s1, ?_⟩
        · have e9' : a9 = 127 := by simpa using e9
          subst e9'
          have : r = mechNull ++ r.drop 20 := by
            conv => lhs; rw [← List.take_append_drop 20 r]
            rw [s2]
          simp only [List.cons_append, List.nil_append, List.append_assoc]
          rw [← this]
        · simp only [List.length_cons] at hr
          simp only [List.length_drop]; omega
  · rintro ⟨pad, major, minor, tail, hg, hp, hm, ht⟩
    have hl : d0.length = ([255] ++ pad ++ [127]).length := by simp [h0, hp]
    have e : d0 ++ (d1 ++ d2) = ([255] ++ pad ++ [127]) ++ ([major] ++ ([minor] ++ mechNull ++ tail)) := by
      rw [← List.append_assoc, hg]; simp [List.append_assoc]
    obtain ⟨e0, e12⟩ := List.append_inj e hl
    have hl1 : d1.length = [major].length := by simp [h1]
    obtain ⟨e1, e2⟩ := List.append_inj e12 hl1
    subst e0 e1 e2
    refine ⟨?_, ?_, ?_⟩
    · simp [stageOk, List.getLast?_cons, List.getLast?_append]
    · simpa [stageOk] using hm
    · have : mechNull.length = 20 := by decide
      simp [stageOk, List.take_append_of_le_length, this]

/-! ### command frames -/

/-- a short command frame is parsed, checked and skipped -/
theorem recvFlat_cmd (fuel : Nat) (parts : List Bytes) (b rest : Bytes) :
    recvFlat (fuel + 1) parts ([4, b.length] ++ b ++ rest) =
      if cmdOk b then recvFlat fuel parts rest else .error .badCommand := by
  conv => lhs; unfold recvFlat
  have e : [4, b.length] ++ b ++ rest = [4] ++ ([b.length] ++ (b ++ rest)) := by simp
  rw [e, takeN_append _ _ 1 rfl]
  simp only [List.headD_cons, recvLongMask, Nat.reduceDiv, Nat.reduceMod, Nat.zero_ne_one, if_false]
  rw [takeN_append _ _ 1 rfl]
  simp only [unbe_single]
  rw [takeN_append _ _ _ rfl]
  simp [recvCmdMask]

/-! ### wire messages -/

theorem splitDelim_serial (ids after : List Bytes) (h : DELIM ∉ ids) :
    splitDelim (ids ++ DELIM :: after) = some (ids, after) := by
  induction ids with
  | nil => simp [splitDelim]
  | cons f fs ih =>
    have hf : f ≠ DELIM := fun e => h (by simp [e])
    have hfs : DELIM ∉ fs := fun e => h (by simp [e])
    simp [splitDelim, hf, ih hfs]

theorem splitDelim_none (wire : List Bytes) (h : DELIM ∉ wire) : splitDelim wire = none := by
  induction wire with
  | nil => rfl
  | cons f fs ih =>
    have hf : f ≠ DELIM := fun e => h (by simp [e])
    have hfs : DELIM ∉ fs := fun e => h (by simp [e])
    simp [splitDelim, hf, ih hfs]

theorem splitDelim_inv : ∀ (wire ids after : List Bytes), splitDelim wire = some (ids, after) →
    wire = ids ++ DELIM :: after ∧ DELIM ∉ ids := by
  intro wire
  induction wire with
  | nil => intro ids after h; simp [splitDelim] at h
  | cons f fs ih =>
    intro ids after h
    simp only [splitDelim] at h
    by_cases hf : f = DELIM
    · simp only [hf, if_true, Option.some.injEq, Prod.mk.injEq] at h
      obtain ⟨rfl, rfl⟩ := h
      simp [hf]
    · simp only [hf, if_false] at h
      cases hs : splitDelim fs with
      | none => simp [hs] at h
      | some p =>
        obtain ⟨ids', after'⟩ := p
        simp only [hs, Option.some.injEq, Prod.mk.injEq] at h
        obtain ⟨rfl, rfl⟩ := h
        obtain ⟨e, hn⟩ := ih ids' after' hs
        refine ⟨by simp [e], ?_⟩
        intro hm
        simp only [List.mem_cons] at hm
        rcases hm with hm | hm
        · exact hf hm.symm
        · exact hn hm

theorem decodeFrames_ok (jsonOk : Bytes → Bool) : ∀ (n : Nat) (frames : List Bytes), n ≤ frames.length →
    (∀ f ∈ frames.take n, jsonOk f = true) → decodeFrames jsonOk n frames = none := by
  intro n
  induction n with
  | zero => intro frames _ _; rfl
  | succ n ih =>
    intro frames hl hj
    cases frames with
    | nil => simp at hl
    | cons f fs =>
      have : jsonOk f = true := hj f (by simp)
      simp only [decodeFrames, this, if_true]
      exact ih fs (by simpa using hl) (fun g hg => hj g (by simp [hg]))

theorem decodeFrames_none_inv (jsonOk : Bytes → Bool) : ∀ (n : Nat) (frames : List Bytes),
    decodeFrames jsonOk n frames = none → n ≤ frames.length ∧ ∀ f ∈ frames.take n, jsonOk f = true := by
  intro n
  induction n with
  | zero => intro frames _; simp
  | succ n ih =>
    intro frames h
    cases frames with
    | nil => simp [decodeFrames] at h
    | cons f fs =>
      simp only [decodeFrames] at h
      by_cases hj : jsonOk f = true
      · simp only [hj, if_true] at h
        obtain ⟨h1, h2⟩ := ih fs h
        refine ⟨by simpa using h1, ?_⟩
        intro g hg
        simp only [List.take_succ_cons, List.mem_cons] at hg
        rcases hg with rfl | hg
        · exact hj
        · exact h2 g hg
      · simp [hj] at h

theorem lookup_mem (l : List (Bytes × Bytes)) (k v : Bytes) (h : l.lookup k = some v) : (k, v) ∈ l := by
  induction l with
  | nil => simp [List.lookup] at h
  | cons p ps ih =>
    obtain ⟨a, b⟩ := p
    simp only [List.lookup] at h
    by_cases hk : k = a
    · subst hk
      simp at h
      simp [h]
    · have : (k == a) = false := by simpa using hk
      simp only [this] at h
      simp [ih h]

/-! ### housekeeping -/

@[simp] theorem sessionShutdown_k (s : Sess) : (sessionShutdown s).k = s.k := by
  unfold sessionShutdown; split <;> rfl

@[simp] theorem hkStep_k (s : Sess) (m : HkMsg) : (hkStep s m).k = s.k := by
  unfold hkStep
  split
  · rfl
  · cases m <;> simp <;> (try split) <;> simp

/-- what every reachable session state satisfies -/
def SessInv (s : Sess) : Prop := (s.hkAlive = false → s.up = false) ∧ s.shutdowns = (if s.up then 0 else 1)

theorem sessionShutdown_inv (s : Sess) (h : SessInv s) : SessInv (sessionShutdown s) ∧ (sessionShutdown s).up = false := by
  obtain ⟨h1, h2⟩ := h
  unfold sessionShutdown SessInv
  by_cases hu : s.up = true
  · simp only [hu, if_true] at h2 ⊢
    simp [h2]
  · have hu' : s.up = false := by simpa using hu
    simp only [hu'] at h2 ⊢
    simp [h2, hu']

theorem shutdown_dead_inv (t : Sess) (h : SessInv t) : SessInv { sessionShutdown t with hkAlive := false } := by
  obtain ⟨⟨_, i2⟩, i3⟩ := sessionShutdown_inv t h
  exact ⟨fun _ => i3, i2⟩

theorem hkStep_inv (s : Sess) (m : HkMsg) (h : SessInv s) : SessInv (hkStep s m) := by
  unfold hkStep
  by_cases ha : s.hkAlive = true
  · rw [if_neg (by simp [ha])]
    cases m with
    | stdout => exact ⟨h.1, h.2⟩
    | handshake => exact h
    | register => exact ⟨h.1, h.2⟩
    | unregister =>
      simp only
      split
      · exact shutdown_dead_inv _ ⟨h.1, h.2⟩
      · exact ⟨h.1, h.2⟩
    | shutdown => exact shutdown_dead_inv _ h
  · rw [if_pos (by simpa using ha)]
    exact h

theorem hkStep_shutdown_down (s : Sess) (h : SessInv s) : (hkStep s .shutdown).up = false := by
  unfold hkStep
  by_cases ha : s.hkAlive = true
  · rw [if_neg (by simp [ha])]
    exact (sessionShutdown_inv _ h).2
  · rw [if_pos (by simpa using ha)]
    exact h.1 (by simpa using ha)

theorem hkStep_down_stays (s : Sess) (m : HkMsg) (h : s.up = false) : (hkStep s m).up = false := by
  unfold hkStep
  split
  · exact h
  · cases m <;> simp [sessionShutdown, h] <;> (try split) <;> simp [h]

/-! ### the handshake on 64 greeting bytes, and on fewer -/

theorem hs_writes_flat : HS_WRITES.getD 0 [] ++ HS_WRITES.getD 1 [] ++ HS_WRITES.getD 2 [] = HS_WRITES.flatten := by decide

theorem handshake_cases (v : Bool) (ty d0 d1 d2 rest : Bytes) (chunks : List Bytes)
    (h0 : d0.length = 10) (h1 : d1.length = 1) (h2 : d2.length = 53) (hc : chunks.flatten = d0 ++ d1 ++ d2 ++ rest) :
    if (v && !(stageOk 0 d0 && stageOk 1 d1 && stageOk 2 d2)) = true then (handshake v ty chunks).status = .bad
    else (handshake v ty chunks).status = .ok ∧ (handshake v ty chunks).written = HS_WRITES.flatten ++ readyCmd ty ∧
      (handshake v ty chunks).rest.flatten = rest := by
  have hf := hsLoop_flat v hsSteps 0 [] chunks
  rw [hc, hsSteps_eq, hsFlat_three v _ _ _ d0 d1 d2 rest h0 h1 h2, ← hsSteps_eq, hs_writes_flat] at hf
  unfold handshake
  cases v
  · simp only [Bool.false_and, Bool.false_eq_true, if_false, Prod.mk.injEq] at hf ⊢
    obtain ⟨e1, e2, e3⟩ := hf
    simp [e1, e2, e3]
  · cases s0 : stageOk 0 d0 <;> cases s1 : stageOk 1 d1 <;> cases s2 : stageOk 2 d2 <;>
      simp only [s0, s1, s2, Bool.true_and, Bool.and_true, Bool.and_false, Bool.not_true, Bool.not_false, Bool.false_eq_true,
        if_true, if_false, Prod.mk.injEq, Bool.false_and] at hf ⊢ <;>
      (obtain ⟨e1, e2, e3⟩ := hf; simp [e1, e2, e3])

theorem takeN_some_len (n : Nat) (bs d b' : Bytes) (h : takeN n bs = some (d, b')) : n ≤ bs.length ∧ b'.length = bs.length - n := by
  unfold takeN at h
  split at h
  · simp only [Option.some.injEq, Prod.mk.injEq] at h
    obtain ⟨_, rfl⟩ := h
    exact ⟨by assumption, by simp⟩
  · simp at h

theorem hsFlat_short (v : Bool) (w0 w1 w2 bs : Bytes) (h : bs.length < 64) :
    (hsFlat v 0 [(w0, 10), (w1, 1), (w2, 53)] [] bs).2.1 ≠ .ok := by
  simp only [hsFlat]
  cases t0 : takeN 10 bs with
  | none => simp
  | some p0 =>
    obtain ⟨d0, b1⟩ := p0
    simp only
    split
    · simp
    · cases t1 : takeN 1 b1 with
      | none => simp
      | some p1 =>
        obtain ⟨d1, b2⟩ := p1
        simp only
        split
        · simp
        · cases t2 : takeN 53 b2 with
          | none => simp
          | some p2 =>
            obtain ⟨d2, b3⟩ := p2
            have l0 := takeN_some_len _ _ _ _ t0
            have l1 := takeN_some_len _ _ _ _ t1
            have l2 := takeN_some_len _ _ _ _ t2
            omega

theorem handshake_short (v : Bool) (ty : Bytes) (chunks : List Bytes) (h : chunks.flatten.length < 64) :
    (handshake v ty chunks).status ≠ .ok := by
  have hf := hsLoop_flat v hsSteps 0 [] chunks
  have hs := hsFlat_short v (HS_WRITES.getD 0 []) (HS_WRITES.getD 1 []) (HS_WRITES.getD 2 []) chunks.flatten h
  rw [← hsSteps_eq, ← hf] at hs
  simp only at hs
  unfold handshake
  cases hst : (hsLoop v 0 hsSteps [] chunks).status
  · exact absurd hst hs
  · simp [hst]
  · simp [hst]

/-! ### the branches of `shell_handler` -/

theorem shellHandle_exec (c : Bool) (run : Nat → CellResult) (s : KState) (ids : List Bytes) (i : Info)
    (h : i.mtype = N_execute_request) :
    shellHandle c run s ids i =
      (match run i.cell with
       | .error e => ⟨{ s with parentHeader := some i.header, executed := s.executed ++ [i.cell], count := if i.storeHistory then s.count + 1 else s.count },
           [pub i N_status .busy, pub i N_execute_input .none (some s.count), rep .shell ids i N_execute_reply .error (some s.count) (some e),
            pub i N_error .none none (some e), pub i N_status .idle], false⟩
       | .value v => ⟨{ s with parentHeader := some i.header, executed := s.executed ++ [i.cell], count := if i.storeHistory then s.count + 1 else s.count },
           [pub i N_status .busy, pub i N_execute_input .none (some s.count), pub i N_execute_result .none (some s.count) (some v),
            rep .shell ids i N_execute_reply .ok (some s.count), pub i N_status .idle], false⟩
       | .none => ⟨{ s with parentHeader := some i.header, executed := s.executed ++ [i.cell], count := if i.storeHistory then s.count + 1 else s.count },
           [pub i N_status .busy, pub i N_execute_input .none (some s.count), rep .shell ids i N_execute_reply .ok (some s.count),
            pub i N_status .idle], false⟩) := by
  simp only [shellHandle, h, if_true]
  cases run i.cell <;> rfl

theorem shellHandle_isc (c : Bool) (run : Nat → CellResult) (s : KState) (ids : List Bytes) (i : Info)
    (h : i.mtype = N_is_complete_request) :
    shellHandle c run s ids i =
      (match isComplete c i.code i.parse with
       | .crash => ⟨{ s with parentHeader := some i.header }, [pub i N_status .busy], true⟩
       | r => ⟨{ s with parentHeader := some i.header },
           [pub i N_status .busy, rep .shell ids i N_is_complete_reply (isCompleteSub r), pub i N_status .idle], false⟩) := by
  have : N_is_complete_request ≠ N_execute_request := by decide
  simp only [shellHandle, h, this, if_false, if_true]
  cases isComplete c i.code i.parse <;> rfl

theorem shellHandle_tbl (c : Bool) (run : Nat → CellResult) (s : KState) (ids : List Bytes) (i : Info)
    (he : i.mtype ≠ N_execute_request) (hi : i.mtype ≠ N_is_complete_request) :
    shellHandle c run s ids i =
      (match SHELL_REPLY_TABLE.lookup i.mtype with
       | some ty => ⟨{ s with parentHeader := some i.header }, [pub i N_status .busy, rep .shell ids i ty, pub i N_status .idle], false⟩
       | none => ⟨{ s with parentHeader := some i.header }, [pub i N_status .busy, pub i N_status .idle], false⟩) := by
  simp only [shellHandle, he, hi, if_false]
  cases SHELL_REPLY_TABLE.lookup i.mtype <;> rfl

/-! ### `chanStep` by cases -/

theorem chanStep_down (E : Env) (s : Sess) (ch : Chan) (w : List Bytes) (hu : s.up = false) : chanStep E s ch w = (s, []) := by
  simp [chanStep, hu]

theorem chanStep_shell (E : Env) (s : Sess) (w : List Bytes) (hu : s.up = true) :
    chanStep E s .shell w =
      (match deserialize E.sign E.jsonOk w with
       | .error _ => (hkStep s .shutdown, [])
       | .ok (ids, frames) =>
         (if (shellHandle E.catchAll E.run s.k ids (E.info frames)).crashed
            then hkStep { s with k := (shellHandle E.catchAll E.run s.k ids (E.info frames)).state } .shutdown
            else { s with k := (shellHandle E.catchAll E.run s.k ids (E.info frames)).state },
          (shellHandle E.catchAll E.run s.k ids (E.info frames)).outs)) := by
  unfold chanStep
  rw [if_neg (by simp [hu])]
  simp only
  cases deserialize E.sign E.jsonOk w <;> rfl

theorem chanStep_control (E : Env) (s : Sess) (w : List Bytes) (hu : s.up = true) :
    chanStep E s .control w =
      (match deserialize E.sign E.jsonOk w with
       | .error _ => (hkStep s .shutdown, [])
       | .ok (ids, frames) =>
         (if (controlHandle ids (E.info frames)).2 then hkStep s .shutdown else s, (controlHandle ids (E.info frames)).1)) := by
  unfold chanStep
  rw [if_neg (by simp [hu])]
  simp only
  cases deserialize E.sign E.jsonOk w <;> rfl

theorem chanStep_other (E : Env) (s : Sess) (ch : Chan) (w : List Bytes) (hc : ch = .iopub ∨ ch = .stdin ∨ ch = .hb) :
    chanStep E s ch w = (s, []) := by
  unfold chanStep
  split
  · rfl
  · rcases hc with rfl | rfl | rfl <;> rfl

theorem inv_setk (s : Sess) (k : KState) (h : SessInv s) : SessInv { s with k := k } := ⟨h.1, h.2⟩

/-! ### invariants of the session (moved here from Props: helpers, not properties) -/

theorem chanStep_inv (E : Env) (s : Sess) (ch : Chan) (w : List Bytes) (h : SessInv s) : SessInv (chanStep E s ch w).1 := by
  by_cases hu : s.up = true
  · cases ch with
    | shell =>
      rw [chanStep_shell E s w hu]
      cases deserialize E.sign E.jsonOk w with
      | error e => exact hkStep_inv s .shutdown h
      | ok p =>
        simp only
        split
        · exact hkStep_inv _ .shutdown (inv_setk s _ h)
        · exact inv_setk s _ h
    | control =>
      rw [chanStep_control E s w hu]
      cases deserialize E.sign E.jsonOk w with
      | error e => exact hkStep_inv s .shutdown h
      | ok p =>
        simp only
        split
        · exact hkStep_inv s .shutdown h
        · exact h
    | iopub => rw [chanStep_other E s _ w (by simp)]; exact h
    | stdin => rw [chanStep_other E s _ w (by simp)]; exact h
    | hb => rw [chanStep_other E s _ w (by simp)]; exact h
  · rw [chanStep_down E s ch w (by simpa using hu)]; exact h

theorem chanStep_count (E : Env) (s : Sess) (ch : Chan) (w : List Bytes) :
    (chanStep E s ch w).1.k.count = s.k.count +
      (if countsExecute E ⟨s, ch, w, (chanStep E s ch w).2, (chanStep E s ch w).1⟩ then 1 else 0) := by
  by_cases hu : s.up = true
  · cases ch with
    | shell =>
      rw [chanStep_shell E s w hu]
      simp only [countsExecute, hu, decide_true, Bool.true_and]
      cases hd : deserialize E.sign E.jsonOk w with
      | error e => simp
      | ok p =>
        obtain ⟨ids, frames⟩ := p
        have key : (shellHandle E.catchAll E.run s.k ids (E.info frames)).state.count = s.k.count +
            (if (decide ((E.info frames).mtype = N_execute_request) && (E.info frames).storeHistory) = true then 1 else 0) := by
          by_cases he : (E.info frames).mtype = N_execute_request
          · rw [shellHandle_exec _ _ _ _ _ he]
            simp only [he, decide_true, Bool.true_and]
            cases hst : (E.info frames).storeHistory <;> cases run_r : E.run (E.info frames).cell <;> simp
          · simp only [he, decide_false, Bool.false_and]
            by_cases hi : (E.info frames).mtype = N_is_complete_request
            · rw [shellHandle_isc _ _ _ _ _ hi]
              cases isComplete E.catchAll (E.info frames).code (E.info frames).parse <;> simp
            · rw [shellHandle_tbl _ _ _ _ _ he hi]
              cases SHELL_REPLY_TABLE.lookup (E.info frames).mtype <;> simp
        simp only
        split <;> simp [key]
    | control =>
      rw [chanStep_control E s w hu]
      simp only [countsExecute, show (Chan.control = Chan.shell) = False by simp, decide_false, Bool.and_false, Bool.false_and,
        Bool.false_eq_true, if_false, Nat.add_zero]
      cases hd : deserialize E.sign E.jsonOk w with
      | error e => simp
      | ok p => simp only; split <;> simp
    | iopub => rw [chanStep_other E s _ w (by simp)]; simp [countsExecute]
    | stdin => rw [chanStep_other E s _ w (by simp)]; simp [countsExecute]
    | hb => rw [chanStep_other E s _ w (by simp)]; simp [countsExecute]
  · have hu' : s.up = false := by simpa using hu
    rw [chanStep_down E s ch w hu']
    simp [countsExecute, hu']

theorem sessEv_inv (s : Sess) (e : SessEv) (h : SessInv s) : SessInv (sessEv s e) := by
  cases e with
  | hk m => exact hkStep_inv s m h
  | external => exact (sessionShutdown_inv s h).1

theorem sessRun_inv (evs : List SessEv) : ∀ s, SessInv s → SessInv (sessRun s evs) := by
  induction evs with
  | nil => intro s h; exact h
  | cons e rest ih => intro s h; exact ih _ (sessEv_inv s e h)

theorem sessRun_down_stays (evs : List SessEv) : ∀ s, s.up = false → (sessRun s evs).up = false := by
  induction evs with
  | nil => intro s h; exact h
  | cons e rest ih =>
    intro s h
    apply ih
    cases e with
    | hk m => exact hkStep_down_stays s m h
    | external => simp [sessEv, sessionShutdown, h]

end PsModel.C19
