import PsModel.Lemmas.C10Sound
/-! completeness of the default plan w.r.t. `Spec.Disc` on the fragment where the code is as strong as the documentation -/
namespace PsModel.C10
open PsModel.C10.Spec

theorem findCtx_of_nodup {loaded : List Ctx} (hln : (loaded.map (·.name)).Nodup) {c : Ctx} (hc : c ∈ loaded) :
    findCtx loaded c.name = some c := by
  induction loaded with
  | nil => simp at hc
  | cons x xs ih =>
    simp only [List.map_cons, List.nodup_cons] at hln
    unfold findCtx
    rw [List.find?_cons]
    by_cases hx : x.name = c.name
    · rcases List.mem_cons.mp hc with rfl | hc'
      · simp
      · exact absurd (hx ▸ List.mem_map_of_mem (f := (·.name)) hc') hln.1
    · have : (x.name == c.name) = false := by simpa using hx
      simp only [this]
      rcases List.mem_cons.mp hc with rfl | hc'
      · exact absurd rfl hx
      · exact ih hln.2 hc'

theorem p2_ents_names {loaded : List Ctx} {rank : Name → Nat} (hacyc : Acyclic loaded rank) {fuel : Nat}
    (hfuel : ∀ c ∈ loaded, rank c.name < fuel) (p : Plan) :
    (phase2 loaded fuel p).ents.map (·.name) = p.ents.map (·.name) := by
  unfold phase2
  by_cases hwr : (willReload p).isEmpty = true
  · simp [hwr]
  · simp only [hwr, Bool.false_eq_true, if_false]
    have hinv := phase2_fold_inv hacyc (wr := willReload p) (p := p) loaded []
      { tbl := [], del := p.del, ents := p.ents } (fun c hc => ⟨hc, hfuel c hc⟩)
      ⟨⟨by simp [memoHas], by simp⟩, [], by simp, by
        simp only [setForce, List.contains_nil]
        exact (List.map_id'' (fun e => by simp [upd]) p.ents).symm, by simp⟩
    obtain ⟨F, _, hents, _⟩ := hinv.frc
    rw [hents]
    simp only [setForce, List.map_map]
    exact List.map_congr_left (fun e _ => by simp)

/-- the three side conditions under which the code discards everything the documentation asks for -/
structure CompleteHyps (loaded : List Ctx) (ents : List Entry) : Prop where
  /-- no loaded member of an app or module has lost its file (finding C10-F1 otherwise) -/
  present : ∀ c ∈ loaded, inPkg c.name = true → hasName ents c.name = true
  /-- whoever imports a member of a module package reaches what every loaded member of it imports
  (finding C10-F2 otherwise) -/
  coherent : ∀ c ∈ loaded, ∀ i ∈ c.imports, isUnder "modules" i = true → ∀ d ∈ loaded, root2 d.name = root2 i →
    ∀ m, Reach loaded d.name m → Reach loaded c.name m
  /-- imports lead to modules or stay inside the importer's own app/module -/
  local_ : ∀ c ∈ loaded, ∀ i ∈ c.imports, isUnder "modules" i = true ∨ (inPkg c.name = true ∧ root2 i = root2 c.name)

theorem plan_complete_aux {loaded : List Ctx} {ents : List Entry} {rank : Name → Nat} (hacyc : Acyclic loaded rank)
    {fuel : Nat} (hfuel : ∀ c ∈ loaded, rank c.name < fuel) (hnd : NamesNodup ents) (hmod : ModsNotAuto ents)
    (hln : (loaded.map (·.name)).Nodup) (H : CompleteHyps loaded ents)
    {n : Name} (hdisc : Disc loaded ents n) : n ∈ (phase3 (phase2 loaded fuel (p1Default loaded ents))).del := by
  -- abbreviations
  generalize hp1 : p1Default loaded ents = p1 at *
  generalize hp2 : phase2 loaded fuel p1 = p2 at *
  have h2 := phase2_char hacyc hfuel p1
  rw [hp2] at h2
  have hnd1 : NamesNodup p1.ents := hp1 ▸ p1_names loaded ents hnd
  have hnd2 : NamesNodup p2.ents := hp2 ▸ p2_names hacyc hfuel p1 hnd1
  have h3 := phase3_char p2 hnd2
  have hnames2 : p2.ents.map (·.name) = ents.map (·.name) := by
    rw [← hp2, p2_ents_names hacyc hfuel p1, ← hp1]
    simp only [p1Default, List.map_map]
    exact List.map_congr_left (fun e _ => by simp)
  -- an entry of the final table for every name in the files
  have hentry2 : ∀ m, hasName ents m = true → ∃ x ∈ p2.ents, x.name = m := by
    intro m hm
    obtain ⟨e, he, hen⟩ := hasName_iff.mp hm
    have : m ∈ p2.ents.map (·.name) := by rw [hnames2]; exact hen ▸ List.mem_map_of_mem (f := (·.name)) he
    obtain ⟨x, hx, hxn⟩ := List.mem_map.mp this
    exact ⟨x, hx, hxn⟩
  -- flags only go up in phase 2
  have hforce_up : ∀ e ∈ ents, (force1 loaded e = true ∨ (Loaded loaded e.name ∧ ImportsWR loaded (willReload p1) e.name)) →
      ∃ x ∈ p2.ents, x.name = e.name ∧ x.force = true := by
    intro e he hor
    refine ⟨(e.setF (force1 loaded e)).setF true, (h2.2 _).mpr ⟨e.setF (force1 loaded e), ?_, by simp, ?_⟩, by simp, by simp⟩
    · rw [← hp1]; exact mem_p1_ents.mpr ⟨e, he, rfl⟩
    · simp only [setF_force, setF_name, true_iff]
      rcases hor with h | h
      · exact .inl h
      · exact .inr h
  let RootProp : Name → Prop := fun r =>
    r ∈ willReload p1 ∨ ∃ d ∈ loaded, root2 d.name = r ∧ ImportsWR loaded (willReload p1) d.name
  -- the strengthened statement proved by induction on the derivation
  suffices hmain : n ∈ (phase3 p2).del ∧ (inPkg n = true → Wide p2.ents (root2 n)) ∧
      (isUnder "modules" n = true → RootProp (root2 n)) from hmain.1
  have widen : ∀ c ∈ loaded, inPkg c.name = true → Wide p2.ents (root2 c.name) → c.name ∈ (phase3 p2).del := by
    intro c hc hp hw
    obtain ⟨x, hx, hxn⟩ := hentry2 c.name (H.present c hc hp)
    exact (h3.1 c.name).mpr (.inr ⟨x, hx, hxn, hw⟩)
  induction hdisc with
  | @changed c hc hch =>
    have hfc := findCtx_of_nodup hln hc
    rcases hch with hnone | ⟨e, hfe, hdiff⟩
    · -- the file is gone
      have hgone : c.name ∈ p1.del := by
        rw [← hp1]
        simp only [p1Default, List.mem_append, goneNames, List.mem_map, List.mem_filter]
        refine .inl ⟨c, ⟨hc, ?_⟩, rfl⟩
        have : hasName ents c.name = false := by
          rw [Bool.eq_false_iff]; intro hh
          obtain ⟨e, he, hen⟩ := hasName_iff.mp hh
          exact findEntry_none.mp hnone e he hen
        simp [this]
      have hnp : inPkg c.name = false := by
        rw [Bool.eq_false_iff]; intro hp
        obtain ⟨e, he, hen⟩ := hasName_iff.mp (H.present c hc hp)
        exact findEntry_none.mp hnone e he hen
      refine ⟨(h3.1 _).mpr (.inl ((h2.1 _).mpr (.inl hgone))), by simp [hnp], ?_⟩
      intro hu
      have : inPkg c.name = true := by simp [inPkg, hu]
      simp [hnp] at this
    · obtain ⟨he, hen⟩ := findEntry_some hfe
      have hf1 : force1 loaded e = true := by
        unfold force1; rw [hen, hfc]; exact hdiff
      have hchg : c.name ∈ p1.del := by
        rw [← hp1]
        simp only [p1Default, List.mem_append, changedNames, List.mem_map, List.mem_filter]
        refine .inr ⟨e, ⟨he, ?_⟩, hen⟩
        unfold isChanged; rw [hen, hfc]; exact hdiff
      refine ⟨(h3.1 _).mpr (.inl ((h2.1 _).mpr (.inl hchg))), ?_, ?_⟩
      · intro hp
        obtain ⟨x, hx, hxn, hxf⟩ := hforce_up e he (.inl hf1)
        exact ⟨x, hx, hxf, by rw [hxn, hen]; exact hp, by rw [hxn, hen]⟩
      · intro hu
        left
        refine mem_willReload.mpr ⟨e.setF (force1 loaded e), ?_, by simpa [hen] using hu, .inl (by simpa [hen] using hchg),
          by simp [hen]⟩
        rw [← hp1]; exact mem_p1_ents.mpr ⟨e, he, rfl⟩
  | @sibling c d hc hp hr _ ih =>
    have hpd : inPkg d = true := inPkg_of_root2_eq hr.symm hp
    have hw : Wide p2.ents (root2 c.name) := hr ▸ ih.2.1 hpd
    refine ⟨widen c hc hp hw, fun _ => hw, ?_⟩
    intro hu
    rw [hr]
    exact ih.2.2 (isUnder_of_root2_eq hr.symm hu)
  | @siblingNew c e hc hp he hfn ha hr =>
    have hf1 : force1 loaded e = true := by unfold force1; rw [hfn]; exact ha
    obtain ⟨x, hx, hxn, hxf⟩ := hforce_up e he (.inl hf1)
    have hpe : inPkg e.name = true := inPkg_of_root2_eq hr.symm hp
    have hw : Wide p2.ents (root2 c.name) := ⟨x, hx, hxf, by rw [hxn]; exact hpe, by rw [hxn, hr]⟩
    refine ⟨widen c hc hp hw, fun _ => hw, ?_⟩
    intro hu
    have := hmod e he ha
    rw [isUnder_of_root2_eq hr.symm hu] at this
    exact absurd this (by simp)
  | @importer c i d hc hi hr _ ih =>
    have hfc := findCtx_of_nodup hln hc
    rcases H.local_ c hc i hi with hui | ⟨hp, hri⟩
    · -- an import of a module member
      have hud : isUnder "modules" d = true := isUnder_of_root2_eq hr.symm hui
      have himp : ImportsWR loaded (willReload p1) c.name := by
        rcases ih.2.2 hud with hwr | ⟨d', hd', hrd', m, hm, hmw⟩
        · exact ⟨i, .direct hfc hi, hr ▸ hwr⟩
        · exact ⟨m, H.coherent c hc i hi hui d' hd' (hrd'.trans hr.symm) m hm, hmw⟩
      have hdel2 : c.name ∈ p2.del := (h2.1 _).mpr (.inr ⟨⟨c, hc, rfl⟩, himp⟩)
      refine ⟨(h3.1 _).mpr (.inl hdel2), ?_, ?_⟩
      · intro hp
        obtain ⟨e, he, hen⟩ := hasName_iff.mp (H.present c hc hp)
        obtain ⟨x, hx, hxn, hxf⟩ := hforce_up e he (.inr ⟨⟨c, hc, hen.symm⟩, hen ▸ himp⟩)
        exact ⟨x, hx, hxf, by rw [hxn, hen]; exact hp, by rw [hxn, hen]⟩
      · intro _
        exact .inr ⟨c, hc, rfl, himp⟩
    · -- an import inside the importer's own package
      have hrcd : root2 c.name = root2 d := hri.symm.trans hr
      have hpd : inPkg d = true := inPkg_of_root2_eq hrcd.symm hp
      have hw : Wide p2.ents (root2 c.name) := hrcd ▸ ih.2.1 hpd
      refine ⟨widen c hc hp hw, fun _ => hw, ?_⟩
      intro hu
      rw [hrcd]
      exact ih.2.2 (isUnder_of_root2_eq hrcd.symm hu)

/-! ## facts about the extracted table used as hypotheses above -/

theorem head_modParts {d : String} {q : Path} (hq : q ≠ []) : (modParts (d :: q)).head? = some d := by
  unfold modParts
  split
  · cases q with
    | nil => exact absurd rfl hq
    | cons x xs => simp [List.dropLast]
  · rfl

theorem length_modParts_top {d : String} {q : Path} (hq : q ≠ []) : 1 ≤ (modParts (d :: q)).length := by
  unfold modParts
  split
  · cases q with
    | nil => exact absurd rfl hq
    | cons x xs => simp [List.dropLast]
  · simp

/-- with today's `load_paths`, nothing below `modules` is auto-loaded -/
theorem globRead_modules_not_auto (apps : AppsCfg) (files : List File) : ModsNotAuto (globRead loadRows apps files) := by
  intro e he ha
  obtain ⟨r, hr, f, _, hm, _, hcase⟩ := (globRead_from loadRows apps files he).row
  have hen : e.name = ctxNameOf r.dir f.path ∧ e.autoload = r.autoload := by
    rcases hcase with ⟨_, c, _, rfl⟩ | ⟨_, rfl⟩ <;> exact ⟨rfl, rfl⟩
  rw [hen.2] at ha
  rw [hen.1]
  rw [loadRows_eq] at hr
  simp only [List.mem_cons, List.mem_nil_iff, or_false] at hr
  rcases hr with rfl | rfl | rfl | rfl | rfl | rfl | rfl | rfl <;> simp only [Bool.false_eq_true] at ha
  · simp [ctxNameOf, isUnder]
  all_goals
    obtain ⟨q, hp, hq⟩ := matchRow_dir (by decide) hm
    have hne := globMatch_ne hq
    rw [hp]
    have hh : ∀ d : String, (modParts (d :: q)).head? = some d := fun d => head_modParts hne
    simp [ctxNameOf, isUnder, hh]

end PsModel.C10
